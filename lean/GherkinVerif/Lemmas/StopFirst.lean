/-
  Lemmas/StopFirst.lean — stop-at-first-error mode against collecting mode (second half of C14).

  A simulation between the two runs of the same glue code (`stop = true` / `stop = false`) from
  the same context with an empty error list:
    * either both runs do exactly the same thing (same result, same context, error list still
      empty, and if they abort it is with `crash`/`fuel`),
    * or the stop run aborts with `.single e` and the collecting run has put `e` at the head of
      its error list.
  After its first error the collecting run only ever appends to the list (`Hd e` is an invariant
  of every glue operation), so whatever composite it finally raises starts with `e`.
-/
import GherkinVerif.Lemmas.GlueOutcome
import GherkinVerif.Lemmas.GlueTerm
namespace GV
namespace Lemmas

/-! ### the collecting run after its first error: `e` stays the head of the list -/

/-- the error list starts with `e` -/
def Hd (e : PErr) (c : Ctx) : Prop := ∃ tl, c.errors = e :: tl

/-- what an abort of the collecting run looks like once `e` heads the list -/
def EHd (e : PErr) (a : Abort) (c : Ctx) : Prop :=
  Hd e c ∧ match a with
    | .single _ => False
    | .composite es => ∃ tl, es = e :: tl
    | .crash _ => True
    | .fuel => True

theorem addError_hd (cap : Nat) (e e' : PErr) : Inv (Hd e) (EHd e) (addError cap e') := by
  refine Triple.intro fun c r c' hc hr => ?_
  obtain ⟨tl, htl⟩ := hc
  rw [run_addError] at hr
  split at hr
  · cases hr; exact ⟨tl, htl⟩
  · split at hr
    · cases hr
      exact ⟨⟨tl ++ [e'], by simp [htl]⟩, ⟨tl ++ [e'], by simp [htl]⟩⟩
    · cases hr
      exact ⟨tl ++ [e'], by simp [htl]⟩

theorem hd_prims (D : List Dialect) (T : Table) (e : PErr) : Prims D T false (Hd e) (EHd e) := by
  refine Prims.of_errOnly (fun c c' h1 _ h => ?_) (fun _ e' => addError_hd _ e e') (fun hs => by cases hs)
    (fun _ _ h => ⟨h, trivial⟩) (fun _ h => ⟨h, trivial⟩) (fun row t => ?_)
  · obtain ⟨tl, h⟩ := h
    exact ⟨tl, h1.trans h⟩
  · unfold GV.tryBranches
    refine Triple.bind (Q := fun _ => Hd e) (Triple.modify _ fun c hc => hc) fun _ => ?_
    exact Inv.bind (addError_hd _ _ _) fun _ => Inv.pure _

/-- `m` keeps any first error at the head of the list -/
def Keeps {α} (m : PM α) : Prop := ∀ e, Inv (Hd e) (EHd e) m

/-- state of the collecting run at a point where the stop run has already raised `e` -/
def After {α} (e : PErr) (x : Except Abort α × Ctx) : Prop :=
  match x.1 with
  | .ok _ => Hd e x.2
  | .error a => EHd e a x.2

theorem After.ok {α} {e : PErr} {a : α} {c : Ctx} (h : Hd e c) : After e ((.ok a : Except Abort α), c) := h
theorem After.error {α} {e : PErr} {a : Abort} {c : Ctx} (h : EHd e a c) :
    After e ((.error a : Except Abort α), c) := h

theorem Keeps.after {α} {m : PM α} (h : Keeps m) {e : PErr} {c : Ctx} (hc : Hd e c) : After e (run m c) := by
  rcases hr : run m c with ⟨r, c'⟩
  cases r with
  | ok a => exact (h e c hc).1 _ _ hr
  | error a => exact (h e c hc).2 _ _ hr

theorem After.bind {α β} {m : PM α} {f : α → PM β} {e : PErr} {c : Ctx} (h : After e (run m c))
    (hk : ∀ a, Keeps (f a)) : After e (run (m >>= f) c) := by
  rw [prun_bind]
  rcases hr : run m c with ⟨r, c'⟩
  rw [hr] at h
  cases r with
  | ok a => exact (hk a).after h
  | error a => exact h

/-- the first error of a collecting run -/
theorem addError_first (cap : Nat) (e : PErr) (c : Ctx) (hc : c.errors = []) :
    After e (run (addError cap e) c) := by
  rw [run_addError]
  have hany : c.errors.any (fun e' => e'.message == e.message) = false := by rw [hc]; rfl
  rw [hany]
  simp only [Bool.false_eq_true, if_false]
  split
  · exact After.error ⟨⟨[], by simp [hc]⟩, ⟨[], by simp [hc]⟩⟩
  · exact After.ok ⟨[], by simp [hc]⟩

/-! ### the simulation -/

/-- both runs in lock step: nothing reported, and an abort is a `crash` or `fuel` -/
def Quiet {α} (x : Except Abort α × Ctx) : Prop :=
  x.2.errors = [] ∧ match x.1 with
    | .error (.single _) => False
    | .error (.composite _) => False
    | _ => True

theorem Quiet.ok {α} {a : α} {c : Ctx} (h : c.errors = []) : Quiet ((.ok a : Except Abort α), c) := ⟨h, trivial⟩
theorem Quiet.crash {α} {w : String} {c : Ctx} (h : c.errors = []) :
    Quiet ((.error (.crash w) : Except Abort α), c) := ⟨h, trivial⟩
theorem Quiet.fuel {α} {c : Ctx} (h : c.errors = []) :
    Quiet ((.error .fuel : Except Abort α), c) := ⟨h, trivial⟩

/-- stop run `ms` against collecting run `mc`, both from `c` -/
def SimAt {α} (c : Ctx) (ms mc : PM α) : Prop :=
  (run ms c = run mc c ∧ Quiet (run mc c)) ∨
  (∃ e cs, run ms c = (.error (.single e), cs) ∧ After e (run mc c))

theorem SimAt.same {α} {m : PM α} {c : Ctx} (h : Quiet (run m c)) : SimAt c m m := .inl ⟨rfl, h⟩

theorem SimAt.of_run_eq {α} {c c' : Ctx} {ms mc ms' mc' : PM α} (h1 : run ms c = run ms' c')
    (h2 : run mc c = run mc' c') (h : SimAt c' ms' mc') : SimAt c ms mc := by
  unfold SimAt
  rw [h1, h2]
  exact h

theorem SimAt.bind {α β} {ms mc : PM α} {fs fc : α → PM β} {c : Ctx} (h1 : SimAt c ms mc)
    (h2 : ∀ a c', run mc c = (.ok a, c') → c'.errors = [] → SimAt c' (fs a) (fc a))
    (hk : ∀ a, Keeps (fc a)) : SimAt c (ms >>= fs) (mc >>= fc) := by
  rcases h1 with ⟨heq, hq⟩ | ⟨e, cs, hs, ha⟩
  · rcases hr : run mc c with ⟨r, c1⟩
    rw [hr] at heq hq
    cases r with
    | ok a =>
      have h3 := h2 a c1 hr hq.1
      unfold SimAt at h3 ⊢
      rw [prun_bind, prun_bind, heq, hr]
      exact h3
    | error a =>
      refine .inl ?_
      rw [prun_bind, prun_bind, heq, hr]
      dsimp only
      refine ⟨rfl, hq.1, ?_⟩
      have h3 := hq.2
      cases a <;> first | exact h3 | trivial
  · refine .inr ⟨e, cs, ?_, ha.bind hk⟩
    rw [prun_bind, hs]

/-- the simulation from every error-free context, together with `Keeps` for the collecting side
    (needed to continue a collecting run after the stop run has ended) -/
structure Sim {α} (ms mc : PM α) : Prop where
  sim : ∀ c, c.errors = [] → SimAt c ms mc
  keeps : Keeps mc

theorem Sim.bind {α β} {ms mc : PM α} {fs fc : α → PM β} (h1 : Sim ms mc) (h2 : ∀ a, Sim (fs a) (fc a)) :
    Sim (ms >>= fs) (mc >>= fc) :=
  ⟨fun c hc => (h1.sim c hc).bind (fun a c' _ hc' => (h2 a).sim c' hc') fun a => (h2 a).keeps,
   fun e => Inv.bind (h1.keeps e) fun a => (h2 a).keeps e⟩

theorem Sim.pure {α} (a : α) : Sim (pure a : PM α) (pure a) :=
  ⟨fun _ hc => SimAt.same (Quiet.ok hc), fun _ => Inv.pure a⟩

theorem Sim.crash {α} (w : String) : Sim (throw (.crash w) : PM α) (throw (.crash w)) :=
  ⟨fun _ hc => SimAt.same (Quiet.crash hc), fun _ => Triple.throw _ fun _ h => ⟨h, trivial⟩⟩

theorem Sim.fuel {α} : Sim (throw .fuel : PM α) (throw .fuel) :=
  ⟨fun _ hc => SimAt.same (Quiet.fuel hc), fun _ => Triple.throw _ fun _ h => ⟨h, trivial⟩⟩

theorem Sim.get : Sim (get : PM Ctx) get :=
  ⟨fun _ hc => SimAt.same (Quiet.ok hc),
   fun _ => Triple.conseq Triple.get (fun _ h => h) (fun _ _ h => h.2) (fun _ _ h => h)⟩

theorem Sim.modify (f : Ctx → Ctx) (hf : ∀ c, (f c).errors = c.errors) : Sim (modify f : PM PUnit) (modify f) :=
  ⟨fun c hc => SimAt.same (Quiet.ok ((hf c).trans hc)),
   fun _ => Triple.modify _ fun c ⟨tl, h⟩ => ⟨tl, (hf c).trans h⟩⟩

theorem Sim.readToken : Sim readToken readToken := by
  refine ⟨fun c hc => SimAt.same ?_, fun e => (hd_prims [] default e).readToken⟩
  rw [run_readToken]
  split
  · exact Quiet.ok hc
  · split <;> exact Quiet.ok hc

section glue
variable (D : List Dialect) (T : Table)

theorem matchP_sim (k : Kind) (t : Token) :
    Sim (matchP D T.errorCap true k t) (matchP D T.errorCap false k t) := by
  refine ⟨fun c hc => ?_, fun e => (hd_prims D T e).matchP k t⟩
  unfold SimAt
  rw [run_matchP, run_matchP]
  dsimp only
  cases (matchTok D k c.μ t).1.res with
  | matched => exact .inl ⟨rfl, Quiet.ok hc⟩
  | no => exact .inl ⟨rfl, Quiet.ok hc⟩
  | raised e =>
    refine .inr ⟨e, _, rfl, ?_⟩
    have h1 := addError_first T.errorCap e
      { c with μ := (matchTok D k c.μ t).1.μ,
               calls := c.calls + (if (matchTok D k c.μ t).2 then 1 else 0) } hc
    dsimp only
    rcases hr : run (addError T.errorCap e) _ with ⟨r2, c2⟩
    rw [hr] at h1
    cases r2 <;> exact h1

theorem liftB_sim (r : Except BErr Unit) : Sim (liftB T.errorCap true r) (liftB T.errorCap false r) := by
  constructor
  · intro c hc
    unfold SimAt
    rw [run_liftB, run_liftB]
    split
    · exact .inl ⟨rfl, Quiet.ok hc⟩
    · exact .inl ⟨rfl, Quiet.crash hc⟩
    · exact .inr ⟨_, _, rfl, addError_first _ _ _ hc⟩
  · intro e
    unfold liftB
    split
    · exact Inv.pure _
    · exact Triple.throw _ fun _ h => ⟨h, trivial⟩
    · exact addError_hd _ _ _

theorem runProd_sim (t : Token) (p : Prod) :
    Sim (runProd T.errorCap true t p) (runProd T.errorCap false t p) := by
  refine ⟨fun c hc => ?_, fun e => (hd_prims [] T e).runProd t p⟩
  cases p with
  | start r =>
    refine .inl ?_
    rw [run_runProd, run_runProd]
    exact ⟨rfl, Quiet.ok hc⟩
  | end_ r =>
    exact SimAt.of_run_eq (run_runProd ..) (run_runProd ..) ((liftB_sim T _).sim _ hc)
  | build =>
    cases hb : c.β.build t with
    | ok β' =>
      refine .inl ?_
      rw [run_runProd, run_runProd]
      simp only [hb]
      exact ⟨trivial, Quiet.ok hc⟩
    | error e' =>
      refine SimAt.of_run_eq (ms' := liftB T.errorCap true (.error e')) (mc' := liftB T.errorCap false (.error e'))
        (c' := c) ?_ ?_ ((liftB_sim T _).sim _ hc)
      · rw [run_runProd]; simp only [hb]
      · rw [run_runProd]; simp only [hb]

theorem tail_sim (row : StateRow) (t : Token) :
    Sim (tryBranches D T true row [] t) (tryBranches D T false row [] t) := by
  unfold GV.tryBranches
  refine Sim.bind (Sim.modify _ fun _ => rfl) fun _ => ⟨fun c hc => ?_, fun e => ?_⟩
  · exact .inr ⟨_, c, rfl, (addError_first _ _ c hc).bind fun _ => (Sim.pure _).keeps⟩
  · exact Inv.bind (addError_hd _ _ _) fun _ => Inv.pure _

theorem matchAny_sim (ks : List Kind) (t : Token) :
    Sim (matchAny D T.errorCap true ks t) (matchAny D T.errorCap false ks t) := by
  induction ks generalizing t with
  | nil => exact Sim.pure _
  | cons k ks ih =>
    unfold GV.matchAny
    refine Sim.bind (matchP_sim D T k t) fun r => ?_
    obtain ⟨m, t'⟩ := r
    cases m
    · exact ih _
    · exact Sim.pure _

theorem lookaheadLoop_sim (la : LookAhead) (fuel : Nat) (acc : List Token) :
    Sim (lookaheadLoop D T.errorCap true la fuel acc) (lookaheadLoop D T.errorCap false la fuel acc) := by
  induction fuel generalizing acc with
  | zero => exact Sim.fuel
  | succ n ih =>
    unfold GV.lookaheadLoop
    refine Sim.bind Sim.readToken fun t => Sim.bind (matchAny_sim D T _ _) fun r => ?_
    obtain ⟨m, t1⟩ := r
    cases m
    · refine Sim.bind (matchAny_sim D T _ _) fun r => ?_
      obtain ⟨s, t2⟩ := r
      cases s
      · exact Sim.pure _
      · exact ih _
    · exact Sim.pure _

theorem lookahead_sim (la : LookAhead) :
    Sim (lookahead D T.errorCap true la) (lookahead D T.errorCap false la) := by
  unfold GV.lookahead
  refine Sim.bind Sim.get fun c0 => Sim.bind (lookaheadLoop_sim D T la _ _) fun r => ?_
  obtain ⟨m, read⟩ := r
  exact Sim.bind (Sim.modify _ fun _ => rfl) fun _ => Sim.pure _

theorem runProds_sim (t : Token) (ps : List Prod) :
    Sim (runProds T.errorCap true t ps) (runProds T.errorCap false t ps) := by
  induction ps with
  | nil => exact Sim.pure _
  | cons p ps ih => exact Sim.bind (runProd_sim T t p) fun _ => ih

theorem tryBranches_sim (row : StateRow) (bs : List Branch) (t : Token) :
    Sim (tryBranches D T true row bs t) (tryBranches D T false row bs t) := by
  induction bs generalizing t with
  | nil => exact tail_sim D T row t
  | cons b bs ih =>
    unfold GV.tryBranches
    refine Sim.bind (matchP_sim D T _ _) fun r => ?_
    obtain ⟨m, t'⟩ := r
    dsimp only
    cases m
    · exact ih _
    · simp only [if_true]
      have cont : ∀ ok : Bool, Sim
          (if ok = true then do
            GV.runProds T.errorCap true t' b.prods
            pure b.target
          else GV.tryBranches D T true row bs t')
          (if ok = true then do
            GV.runProds T.errorCap false t' b.prods
            pure b.target
          else GV.tryBranches D T false row bs t') := by
        intro ok
        cases ok
        · exact ih _
        · exact Sim.bind (runProds_sim T _ _) fun _ => Sim.pure _
      cases b.guard with
      | none => exact Sim.bind (Sim.pure _) cont
      | some i =>
        dsimp only
        cases T.lookaheads[i]? with
        | some la => exact Sim.bind (lookahead_sim D T la) cont
        | none => exact Sim.bind (Sim.crash _) cont

theorem matchToken_sim (state : Nat) (t : Token) :
    Sim (matchToken D T true state t) (matchToken D T false state t) := by
  unfold GV.matchToken
  cases T.row? state with
  | some row => exact tryBranches_sim D T row _ t
  | none => exact Sim.crash _

theorem parseLoop_sim (fuel state : Nat) :
    Sim (parseLoop D T true fuel state) (parseLoop D T false fuel state) := by
  induction fuel generalizing state with
  | zero => exact Sim.fuel
  | succ n ih =>
    unfold GV.parseLoop
    refine Sim.bind Sim.readToken fun t => Sim.bind (Sim.modify _ fun _ => rfl) fun _ =>
      Sim.bind (matchToken_sim D T _ _) fun s => ?_
    cases t.eof
    · exact ih _
    · exact Sim.pure _

theorem parseBody_sim (n : Nat) : Sim (parseBody D T true n) (parseBody D T false n) := by
  unfold GV.parseBody
  refine Sim.bind (Sim.modify _ fun _ => rfl) fun _ => Sim.bind (parseLoop_sim D T _ _) fun _ =>
    Sim.bind (runProd_sim T _ _) fun _ => ⟨fun c hc => SimAt.same ?_, fun e => ?_⟩
  · rw [prun_bind, run_get]
    dsimp only
    rw [hc]
    simp only [List.isEmpty_nil, Bool.not_true, Bool.false_eq_true, if_false]
    split
    · exact Quiet.ok hc
    · exact Quiet.crash hc
    · exact Quiet.crash hc
    · rename_i e he
      exact absurd he (result_not_ast _ _)
  · refine Triple.bind Triple.get fun c0 => ?_
    dsimp only
    split
    · refine Triple.bind (Q := fun _ _ => False) (Triple.throw _ fun c hc => ?_) fun _ _ hf => hf.elim
      obtain ⟨rfl, hc⟩ := hc
      exact ⟨hc, hc⟩
    · rename_i hne
      intro c hc
      obtain ⟨rfl, tl, htl⟩ := hc
      simp [htl] at hne

end glue

/-! ### whole parses -/

theorem parse_sim (D : List Dialect) (T : Table) (μ : MState) (ids : Nat) (src : Str) :
    SimAt (ctx0 D μ ids src) (parseBody D T true (splitLines src).length)
      (parseBody D T false (splitLines src).length) :=
  (parseBody_sim D T _).sim _ rfl

/-- a parse that returns a document has reported nothing -/
theorem parseBody_ok_errors (D : List Dialect) (T : Table) (stop : Bool) (μ : MState) (ids : Nat) (src : Str)
    (d : Doc) (c' : Ctx)
    (h : run (parseBody D T stop (splitLines src).length) (ctx0 D μ ids src) = (.ok d, c')) :
    c'.errors = [] := by
  have hb := (einv_prims D T stop).parseBody (fun _ _ h => h)
    (fun c hc hne => by
      cases stop
      · have := hc.2 rfl
        refine ⟨rfl, ?_, (by omega), this.1⟩
        cases he : c.errors with
        | nil => exact absurd he hne
        | cons a l => simp
      · exact absurd (hc.1 rfl) hne) (splitLines src).length (ctx0 D μ ids src)
    ⟨fun _ => rfl, fun _ => ⟨List.nodup_nil, Nat.zero_le _⟩⟩
  exact (hb.1 d c' h).2

/-- the three ways the two modes relate on a whole document -/
theorem parse_modes (D : List Dialect) (T : Table) (μ : MState) (ids : Nat) (src : Str) :
    (parseWith D T true μ ids src = parseWith D T false μ ids src ∧
      ((∃ d, (parseWith D T false μ ids src).1 = .ok d) ∨ (∃ w, (parseWith D T false μ ids src).1 = .crash w) ∨
        (parseWith D T false μ ids src).1 = .fuel)) ∨
    (∃ e, (parseWith D T true μ ids src).1 = .rejected [e] false ∧
      ((∃ rest, (parseWith D T false μ ids src).1 = .rejected (e :: rest) true) ∨
        (∃ w, (parseWith D T false μ ids src).1 = .crash w) ∨ (parseWith D T false μ ids src).1 = .fuel)) := by
  rw [parseWith_eq, parseWith_eq]
  rcases parse_sim D T μ ids src with ⟨heq, hq⟩ | ⟨e, cs, hs, ha⟩
  · refine .inl ?_
    rw [heq]
    refine ⟨rfl, ?_⟩
    rcases hr : run (parseBody D T false (splitLines src).length) (ctx0 D μ ids src) with ⟨r, c⟩
    rw [hr] at hq
    cases r with
    | ok d => exact .inl ⟨d, rfl⟩
    | error a =>
      cases a with
      | single _ => exact (hq.2 : False).elim
      | composite _ => exact (hq.2 : False).elim
      | crash w => exact .inr (.inl ⟨w, rfl⟩)
      | fuel => exact .inr (.inr rfl)
  · refine .inr ⟨e, ?_, ?_⟩
    · rw [hs]
    · rcases hr : run (parseBody D T false (splitLines src).length) (ctx0 D μ ids src) with ⟨r, c⟩
      rw [hr] at ha
      cases r with
      | ok d =>
        obtain ⟨tl, htl⟩ : Hd e c := ha
        rw [parseBody_ok_errors D T false μ ids src d c hr] at htl
        cases htl
      | error a =>
        cases a with
        | single e1 =>
          have ha' : EHd e (.single e1) c := ha
          exact ha'.2.elim
        | composite es =>
          have ha' : EHd e (.composite es) c := ha
          obtain ⟨tl, rfl⟩ := ha'.2
          exact .inl ⟨tl, rfl⟩
        | crash w => exact .inr (.inl ⟨w, rfl⟩)
        | fuel => exact .inr (.inr rfl)

theorem stop_is_first (D : List Dialect) (T : Table) (μ : MState) (ids : Nat) (src : Str)
    (e : PErr) (rest : List PErr) (comp : Bool)
    (h : (parseWith D T false μ ids src).1 = .rejected (e :: rest) comp) :
    (parseWith D T true μ ids src).1 = .rejected [e] false := by
  rcases parse_modes D T μ ids src with ⟨_, ⟨d, hd⟩ | ⟨w, hw⟩ | hf⟩ | ⟨e', hs, ⟨tl, hr⟩ | ⟨w, hw⟩ | hf⟩
  · rw [hd] at h; cases h
  · rw [hw] at h; cases h
  · rw [hf] at h; cases h
  · rw [hr] at h; cases h; exact hs
  · rw [hw] at h; cases h
  · rw [hf] at h; cases h

theorem stop_rejects (D : List Dialect) (T : Table) (μ : MState) (ids : Nat) (src : Str)
    (e : PErr) (comp : Bool) (h : (parseWith D T true μ ids src).1 = .rejected [e] comp) :
    (∃ rest, (parseWith D T false μ ids src).1 = .rejected (e :: rest) true) ∨
    (∃ w, (parseWith D T false μ ids src).1 = .crash w) ∨ (parseWith D T false μ ids src).1 = .fuel := by
  rcases parse_modes D T μ ids src with ⟨heq, ⟨d, hd⟩ | ⟨w, hw⟩ | hf⟩ | ⟨e', hs, hc⟩
  · rw [heq, hd] at h; cases h
  · rw [heq, hw] at h; cases h
  · rw [heq, hf] at h; cases h
  · rw [hs] at h; cases h; exact hc

theorem stop_rejects_term (D : List Dialect) (T : Table) (hT : Spec.lookaheadsStopAtEOF T = true)
    (μ : MState) (ids : Nat) (src : Str)
    (e : PErr) (comp : Bool) (h : (parseWith D T true μ ids src).1 = .rejected [e] comp) :
    (∃ rest, (parseWith D T false μ ids src).1 = .rejected (e :: rest) true) ∨
    (∃ w, (parseWith D T false μ ids src).1 = .crash w) := by
  rcases stop_rejects D T μ ids src e comp h with h1 | h1 | h1
  · exact .inl h1
  · exact .inr h1
  · exact absurd h1 (parse_terminates D T hT false μ ids src)

theorem accept_same_run (D : List Dialect) (T : Table) (μ : MState) (ids : Nat) (src : Str) (d : Doc)
    (h : (parseWith D T true μ ids src).1 = .ok d ∨ (parseWith D T false μ ids src).1 = .ok d) :
    parseWith D T true μ ids src = parseWith D T false μ ids src := by
  rcases parse_modes D T μ ids src with ⟨heq, _⟩ | ⟨e', hs, ⟨tl, hr⟩ | ⟨w, hw⟩ | hf⟩
  · exact heq
  · rcases h with h | h
    · rw [hs] at h; cases h
    · rw [hr] at h; cases h
  · rcases h with h | h
    · rw [hs] at h; cases h
    · rw [hw] at h; cases h
  · rcases h with h | h
    · rw [hs] at h; cases h
    · rw [hf] at h; cases h

theorem accept_same (D : List Dialect) (T : Table) (μ : MState) (ids : Nat) (src : Str) (d : Doc) :
    (parseWith D T true μ ids src).1 = .ok d ↔ (parseWith D T false μ ids src).1 = .ok d := by
  constructor
  · intro h; rw [← accept_same_run D T μ ids src d (.inl h)]; exact h
  · intro h; rw [accept_same_run D T μ ids src d (.inr h)]; exact h

end Lemmas
end GV
