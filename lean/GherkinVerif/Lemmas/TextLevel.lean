/-
  Lemmas/TextLevel.lean — the text-level acceptor `Spec.textAccepts` and the kind-level machine:
  a document is accepted at text level iff the sequence of its intrinsic line kinds
  (`Spec.textKinds`) is accepted by the kind-level machine and no tested line raises.

  The look-ahead futures differ: `textAccepts` peeks at the kinds the following lines have under
  the *current* matcher state, the kind-level run at the kinds they have when they are reached.
  They agree as far as a peek looks (`peek_future`): a peek only steps over blank, comment and tag
  lines, which are then handled in tag states, where the matcher state does not change.
-/
import GherkinVerif.Lemmas.TextKinds
import GherkinVerif.Lemmas.QueueFacts
namespace GV
namespace Lemmas
open Spec

/-! ### small facts -/

theorem muAfter_stable (D : List Dialect) (μ : MState) (l : Str) (K : Kind) (hK : stableKind K = true) :
    muAfter D μ l K = μ := by
  have := matchTok_mu_stable D K hK μ (probe l)
  exact this

theorem passes_skip {k K : Kind} (hK : isSkipKind K = true) (h : passes k K = true) :
    k = K ∨ (k = .Language ∧ K = .Comment) := by
  cases k <;> cases K <;> first | exact .inl rfl | exact .inr ⟨rfl, rfl⟩ | exact absurd hK (by decide) | exact absurd h (by decide)

theorem passes_title {k K : Kind} (hK : K.isTitle = true) (h : passes k K = true) : k = K := by
  cases k <;> cases K <;> first | rfl | exact absurd hK (by decide) | exact absurd h (by decide)

theorem passes_tagLine {k : Kind} (h : passes k .TagLine = true) : k = .TagLine := by
  cases k <;> first | rfl | exact absurd h (by decide)

theorem pick_mem {T : Table} {k : Kind} {fut : List Kind} : ∀ {bs : List Branch} {b : Branch},
    pickBranch T k fut bs = some b → b ∈ bs ∧ passes k b.kind = true ∧ guardOkAbs T b fut = true := by
  intro bs
  induction bs with
  | nil => intro b h; cases h
  | cons b0 bs ih =>
    intro b h
    unfold pickBranch at h
    split at h
    · rename_i hc
      cases h
      simp only [Bool.and_eq_true] at hc
      exact ⟨List.mem_cons_self .., hc.1, hc.2⟩
    · obtain ⟨h1, h2⟩ := ih h
      exact ⟨List.mem_cons_of_mem _ h1, h2⟩

/-! ### a peek sees the kinds the lines will have -/

theorem peek_future {D' : List Dialect} {T : Table} (F : QF D' T) (D : List Dialect) {i : Nat} {la : LookAhead}
    (hla : T.lookaheads[i]? = some la) :
    ∀ (ls : List Str) (s : Nat) (μ : MState), isTag T s = true →
      peekAbs la (ls.map (intrinsicKind D μ) ++ [.EOF]) = peekAbs la (textKinds D T s μ ls ++ [.EOF]) := by
  obtain ⟨hskipla, hexpla, -⟩ := F.la i la hla
  have hsk : la.skip.all isSkipKind = true := by rw [hskipla]; exact F.skAll
  intro ls
  induction ls with
  | nil => intro s μ _; rfl
  | cons l ls ih =>
    intro s μ hs
    -- both lists start with the kind of `l` under `μ`
    have hhead : ∃ s2 μ2, textKinds D T s μ (l :: ls) = intrinsicKind D μ l :: textKinds D T s2 μ2 ls ∧
        ((la.skip.any (passes (intrinsicKind D μ l)) = true ∧ la.expected.any (passes (intrinsicKind D μ l)) = false) →
          isTag T s2 = true ∧ μ2 = μ) := by
      simp only [textKinds]
      cases hst : stepAbs T s (intrinsicKind D μ l) (ls.map (intrinsicKind D μ) ++ [.EOF]) with
      | none => exact ⟨s, μ, rfl, fun _ => ⟨hs, rfl⟩⟩
      | some b =>
        refine ⟨b.target, muAfter D μ l b.kind, rfl, fun hcond => ?_⟩
        unfold stepAbs at hst
        cases hrow : T.row? s with
        | none => rw [hrow] at hst; cases hst
        | some row =>
          rw [hrow] at hst
          dsimp only at hst
          obtain ⟨hmem, hpass, -⟩ := pick_mem hst
          obtain ⟨hbr, -⟩ := F.tagRow s row hs hrow
          obtain ⟨-, hstab, htgt⟩ := hbr b hmem
          obtain ⟨K0, hK0, hp0⟩ := List.any_eq_true.1 hcond.1
          have hK0s := List.all_eq_true.1 hsk K0 hK0
          have hbs : isSkipKind b.kind = true := by
            cases hb : isSkipKind b.kind with
            | true => rfl
            | false =>
              exfalso
              have htitle : b.kind.isTitle = true := by simpa [stableKind, hb] using hstab
              have hk := passes_title htitle hpass
              rcases passes_skip hK0s hp0 with h | ⟨h, -⟩
              · rw [hk] at h; rw [h] at htitle
                cases K0 <;> first | exact absurd hK0s (by decide) | exact absurd htitle (by decide)
              · rw [hk] at h; rw [h] at htitle; exact absurd htitle (by decide)
          exact ⟨htgt hbs, muAfter_stable D μ l b.kind hstab⟩
    obtain ⟨s2, μ2, hk, hnext⟩ := hhead
    rw [hk, List.map_cons, List.cons_append, List.cons_append, peekAbs, peekAbs]
    cases hexp : la.expected.any (passes (intrinsicKind D μ l)) with
    | true => rfl
    | false =>
      cases hskp : la.skip.any (passes (intrinsicKind D μ l)) with
      | false => rfl
      | true =>
        obtain ⟨hs2, hμ2⟩ := hnext ⟨hskp, hexp⟩
        subst hμ2
        simp only [Bool.false_eq_true, if_false, if_true]
        exact ih s2 μ2 hs2

/-! ### the branch picked does not depend on which of the two futures is used -/

theorem guardOk_unguarded {T : Table} {b : Branch} (h : b.guard = none) (fut : List Kind) :
    guardOkAbs T b fut = true := by
  unfold guardOkAbs; rw [h]

theorem pick_tagNext {T : Table} {fut : List Kind} : ∀ {bs : List Branch} {b : Branch},
    tagNext T bs = true → guardTail T bs = true → pickBranch T .TagLine fut bs = some b →
      b.kind = .TagLine ∧ isTag T b.target = true := by
  intro bs
  induction bs with
  | nil => intro b h; cases h
  | cons b0 bs ih =>
    intro b hn hgt h
    simp only [tagNext, Bool.and_eq_true, beq_iff_eq] at hn
    simp only [guardTail, Bool.and_eq_true, Bool.or_eq_true, beq_iff_eq] at hgt
    unfold pickBranch at h
    split at h
    · cases h; exact hn
    · rename_i hc
      have hpass : passes .TagLine b0.kind = true := by rw [hn.1]; rfl
      have hgo : guardOkAbs T b0 fut = false := by simpa [hpass] using hc
      rcases hgt.1 with hg | hg
      · rw [guardOk_unguarded (by simpa using hg)] at hgo; cases hgo
      · exact ih hg.2 hgt.2 h

theorem pick_total_tag {T : Table} {fut : List Kind} : ∀ {bs : List Branch},
    tagNext T bs = true → guardTail T bs = true → ∃ b, pickBranch T .TagLine fut bs = some b := by
  intro bs
  induction bs with
  | nil => intro h; cases h
  | cons b0 bs ih =>
    intro hn hgt
    simp only [tagNext, Bool.and_eq_true, beq_iff_eq] at hn
    simp only [guardTail, Bool.and_eq_true, Bool.or_eq_true, beq_iff_eq] at hgt
    unfold pickBranch
    split
    · exact ⟨_, rfl⟩
    · rename_i hc
      have hpass : passes .TagLine b0.kind = true := by rw [hn.1]; rfl
      have hgo : guardOkAbs T b0 fut = false := by simpa [hpass] using hc
      rcases hgt.1 with hg | hg
      · rw [guardOk_unguarded (by simpa using hg)] at hgo; cases hgo
      · exact ih hg.2 hgt.2

theorem pick_stable {T : Table} {k : Kind} {fut fut' : List Kind} {b : Branch} : ∀ {bs : List Branch},
    guardTail T bs = true → pickBranch T k fut bs = some b →
    (k = .TagLine → b.kind = .TagLine → isTag T b.target = true →
      ∀ b0 ∈ bs, b0.guard ≠ none → guardOkAbs T b0 fut = guardOkAbs T b0 fut') →
    pickBranch T k fut' bs = some b := by
  intro bs
  induction bs with
  | nil => intro _ h; cases h
  | cons b0 bs ih =>
    intro hgt h hpeek
    simp only [guardTail, Bool.and_eq_true, Bool.or_eq_true, beq_iff_eq] at hgt
    have ih' := fun h' => ih hgt.2 h' fun h1 h2 h3 b1 hb1 => hpeek h1 h2 h3 b1 (List.mem_cons_of_mem _ hb1)
    unfold pickBranch at h ⊢
    cases hp : passes k b0.kind with
    | false =>
      simp only [hp, Bool.false_and, Bool.false_eq_true, if_false] at h ⊢
      exact ih' h
    | true =>
      simp only [hp, Bool.true_and] at h ⊢
      cases hg : b0.guard with
      | none =>
        rw [guardOk_unguarded hg] at h ⊢
        exact h
      | some i =>
        have hg' : b0.guard ≠ none := by rw [hg]; simp
        rcases hgt.1 with hn | hn
        · rw [hg] at hn; cases hn
        · obtain ⟨⟨hkind, htag⟩, hnext⟩ := hn
          have hk : k = .TagLine := passes_tagLine (by rw [← hkind]; exact hp)
          cases hgo : guardOkAbs T b0 fut with
          | true =>
            rw [hgo] at h
            simp only [if_true] at h
            cases h
            rw [← hpeek hk hkind htag _ (List.mem_cons_self ..) hg', hgo]
            rfl
          | false =>
            rw [hgo] at h
            simp only [Bool.false_eq_true, if_false] at h
            subst hk
            obtain ⟨hbk, hbt⟩ := pick_tagNext hnext hgt.2 h
            rw [← hpeek rfl hbk hbt b0 (List.mem_cons_self ..) hg', hgo]
            simp only [Bool.false_eq_true, if_false]
            exact ih' h

theorem pick_none_all {T : Table} {k : Kind} {fut fut' : List Kind} : ∀ {bs : List Branch},
    guardTail T bs = true → pickBranch T k fut bs = none → pickBranch T k fut' bs = none := by
  intro bs
  induction bs with
  | nil => intro _ _; rfl
  | cons b0 bs ih =>
    intro hgt h
    simp only [guardTail, Bool.and_eq_true, Bool.or_eq_true, beq_iff_eq] at hgt
    unfold pickBranch at h ⊢
    cases hp : passes k b0.kind with
    | false =>
      simp only [hp, Bool.false_and, Bool.false_eq_true, if_false] at h ⊢
      exact ih hgt.2 h
    | true =>
      simp only [hp, Bool.true_and] at h ⊢
      cases hgo : guardOkAbs T b0 fut with
      | true => rw [hgo] at h; simp at h
      | false =>
        rw [hgo] at h
        simp only [Bool.false_eq_true, if_false] at h
        exfalso
        rcases hgt.1 with hn | hn
        · rw [guardOk_unguarded (by simpa using hn)] at hgo; cases hgo
        · obtain ⟨⟨hkind, -⟩, hnext⟩ := hn
          have hk : k = .TagLine := passes_tagLine (by rw [← hkind]; exact hp)
          subst hk
          obtain ⟨b, hb⟩ := pick_total_tag (fut := fut) hnext hgt.2
          rw [hb] at h; cases h

/-! ### text-level acceptance = kind-level acceptance of the intrinsic kinds, and no raise -/

/-- the branch `textAccepts` picks with the future under the current matcher state is the branch
    the kind-level machine picks with the kinds the following lines will actually have -/
theorem pick_textKinds {D' : List Dialect} {T : Table} (F : QF D' T) (D : List Dialect) (s : Nat) (row : StateRow)
    (hrow : T.row? s = some row) (μ : MState) (l : Str) (ls : List Str) (b : Branch)
    (h : pickBranch T (intrinsicKind D μ l) (ls.map (intrinsicKind D μ) ++ [.EOF]) row.branches = some b) :
    pickBranch T (intrinsicKind D μ l) (textKinds D T b.target (muAfter D μ l b.kind) ls ++ [.EOF]) row.branches =
      some b := by
  refine pick_stable (F.rows s row hrow).1 h fun _ hbk htag b0 _ hg0 => ?_
  rw [hbk, muAfter_stable D μ l .TagLine rfl]
  unfold guardOkAbs
  cases hg : b0.guard with
  | none => rfl
  | some i =>
    dsimp only
    cases hla : T.lookaheads[i]? with
    | none => rfl
    | some la => exact peek_future F D hla ls b.target μ htag

theorem runAbs_cons_some {T : Table} {s : Nat} {k : Kind} {ks : List Kind} {b : Branch}
    (h : stepAbs T s k ks = some b) : (runAbs T s (k :: ks)).isSome = (runAbs T b.target ks).isSome := by
  rw [runAbs, h]
  dsimp only
  cases runAbs T b.target ks with
  | none => rfl
  | some x => rfl

theorem runAbs_cons_none {T : Table} {s : Nat} {k : Kind} {ks : List Kind}
    (h : stepAbs T s k ks = none) : (runAbs T s (k :: ks)).isSome = false := by
  rw [runAbs, h]
  rfl

/-- **text-level acceptance, decomposed.** -/
theorem textAccepts_eq {D' : List Dialect} {T : Table} (F : QF D' T) (D : List Dialect) :
    ∀ (ls : List Str) (s : Nat) (μ : MState),
      textAccepts D T s μ ls =
        ((runAbs T s (textKinds D T s μ ls ++ [.EOF])).isSome && !textRaises D T s μ ls) := by
  intro ls
  induction ls with
  | nil =>
    intro s μ
    simp only [textAccepts, textKinds, textRaises, List.nil_append, Bool.not_false, Bool.and_true]
    cases h : stepAbs T s .EOF [] with
    | none => rw [runAbs_cons_none h]; rfl
    | some b => rw [runAbs_cons_some h]; rfl
  | cons l ls ih =>
    intro s μ
    simp only [textAccepts, textKinds, textRaises]
    cases hrow : T.row? s with
    | none =>
      have hst : ∀ ks, stepAbs T s (intrinsicKind D μ l) ks = none := by
        intro ks; unfold stepAbs; rw [hrow]
      simp only [hst, List.cons_append]
      rw [runAbs_cons_none (hst _)]
      rfl
    | some row =>
      have hst : ∀ ks, stepAbs T s (intrinsicKind D μ l) ks = pickBranch T (intrinsicKind D μ l) ks row.branches := by
        intro ks; unfold stepAbs; rw [hrow]
      simp only [hst]
      cases hp : pickBranch T (intrinsicKind D μ l) (ls.map (intrinsicKind D μ) ++ [.EOF]) row.branches with
      | none =>
        simp only [List.cons_append]
        rw [runAbs_cons_none (by rw [hst]; exact pick_none_all (F.rows s row hrow).1 hp)]
        rfl
      | some b =>
        simp only [List.cons_append]
        rw [runAbs_cons_some (by rw [hst]; exact pick_textKinds F D s row hrow μ l ls b hp), ih]
        cases raisesBefore D μ l b row.branches <;> simp

theorem textKinds_no_EOF (D : List Dialect) (T : Table) : ∀ (ls : List Str) (s : Nat) (μ : MState),
    Kind.EOF ∉ textKinds D T s μ ls := by
  intro ls
  induction ls with
  | nil => intro s μ h; cases h
  | cons l ls ih =>
    intro s μ h
    simp only [textKinds] at h
    cases hst : stepAbs T s (intrinsicKind D μ l) (ls.map (intrinsicKind D μ) ++ [.EOF]) with
    | none =>
      rw [hst] at h
      rcases List.mem_cons.1 h with h | h
      · exact intrinsicKind_ne_EOF D μ l h.symm
      · exact ih _ _ h
    | some b =>
      rw [hst] at h
      rcases List.mem_cons.1 h with h | h
      · exact intrinsicKind_ne_EOF D μ l h.symm
      · exact ih _ _ h

/-- accepted at text level ⇒ the intrinsic kinds are accepted by the kind-level machine -/
theorem textAccepts_kinds {D' : List Dialect} {T : Table} (F : QF D' T) (D : List Dialect) (μ : MState) (ls : List Str)
    (h : textAccepts D T 0 μ ls = true) : acceptsAbs T (textKinds D T 0 μ ls) = true := by
  rw [textAccepts_eq F D ls 0 μ, Bool.and_eq_true] at h
  exact h.1

/-- conversely, when no tested line raises -/
theorem kinds_textAccepts {D' : List Dialect} {T : Table} (F : QF D' T) (D : List Dialect) (μ : MState) (ls : List Str)
    (hr : textRaises D T 0 μ ls = false) (h : acceptsAbs T (textKinds D T 0 μ ls) = true) :
    textAccepts D T 0 μ ls = true := by
  rw [textAccepts_eq F D ls 0 μ, hr]
  simpa [acceptsAbs] using h

end Lemmas
end GV
