/-
  Lemmas/Bisim.lean — generic lock-step bisimulation checker for two *total* deterministic
  automata, for words of the form `ks ++ [eof]` with `eof ∉ ks` (documents: lines, then the
  end-of-file token).  Rejection is an ordinary (absorbing, non-accepting) state of the automata,
  so no special treatment is needed.

  * `closedRel`  : Boolean check that a list of state pairs is closed under every non-`eof` input
                   and that acceptance agrees after `eof`;
  * `bisim_sound`: a closed relation relates only language-equivalent states;
  * `explore`    : fuelled worklist computing the reachable pairs (the certificate is *computed*,
                   then checked by `closedRel`; its soundness does not depend on `explore`).
-/
namespace GV.Lemmas

structure TDet (σ κ : Type) where
  step : σ → κ → σ
  acc : σ → Bool

namespace TDet
variable {σ τ κ : Type}

def run (A : TDet σ κ) : σ → List κ → σ
  | s, [] => s
  | s, k :: ks => A.run (A.step s k) ks

/-- acceptance of the document `ks` (the `eof` token is appended) -/
def accepts (A : TDet σ κ) (eof : κ) (s : σ) (ks : List κ) : Bool := A.acc (A.run s (ks ++ [eof]))

end TDet

variable {σ τ κ : Type} [DecidableEq σ] [DecidableEq τ] [DecidableEq κ]

/-- the pairs reached from `p` by one non-`eof` input -/
def succPairs (A : TDet σ κ) (B : TDet τ κ) (kinds : List κ) (eof : κ) (p : σ × τ) : List (σ × τ) :=
  (kinds.filter (fun k => !(k == eof))).map fun k => (A.step p.1 k, B.step p.2 k)

/-- `rel` is closed under all non-`eof` inputs, and acceptance agrees after `eof` -/
def closedRel (A : TDet σ κ) (B : TDet τ κ) (kinds : List κ) (eof : κ) (rel : List (σ × τ)) : Bool :=
  rel.all fun p => kinds.all fun k =>
    if k = eof then A.acc (A.step p.1 k) == B.acc (B.step p.2 k)
    else rel.contains (A.step p.1 k, B.step p.2 k)

theorem bisim_sound (A : TDet σ κ) (B : TDet τ κ) (kinds : List κ) (eof : κ) (rel : List (σ × τ))
    (hk : ∀ k, k ∈ kinds) (h : closedRel A B kinds eof rel = true) :
    ∀ ks, eof ∉ ks → ∀ s t, (s, t) ∈ rel → A.accepts eof s ks = B.accepts eof t ks := by
  simp only [closedRel, List.all_eq_true] at h
  intro ks
  induction ks with
  | nil =>
    intro _ s t hst
    have := h _ hst eof (hk eof)
    simpa [TDet.accepts, TDet.run] using this
  | cons k ks ih =>
    intro hne s t hst
    have hk' : k ≠ eof := by intro e; apply hne; simp [e]
    have hks : eof ∉ ks := by intro e; apply hne; simp [e]
    have := h _ hst k (hk k)
    simp only [hk', if_false, List.contains_iff_mem] at this
    have := ih hks _ _ this
    simpa [TDet.accepts, TDet.run] using this

/-- fuelled depth-first exploration of the pairs reachable from `todo` -/
def explore (A : TDet σ κ) (B : TDet τ κ) (kinds : List κ) (eof : κ) :
    Nat → List (σ × τ) → List (σ × τ) → List (σ × τ)
  | 0, _, rel => rel
  | _ + 1, [], rel => rel
  | n + 1, p :: todo, rel =>
    if rel.contains p then explore A B kinds eof n todo rel
    else explore A B kinds eof n (succPairs A B kinds eof p ++ todo) (p :: rel)

/-- the whole check: explore from `(s, t)`, then verify that the result is a closed relation
    containing `(s, t)` -/
def bisimCheck (A : TDet σ κ) (B : TDet τ κ) (kinds : List κ) (eof : κ) (fuel : Nat) (s : σ) (t : τ) : Bool :=
  let rel := explore A B kinds eof fuel [(s, t)] []
  rel.contains (s, t) && closedRel A B kinds eof rel

theorem bisimCheck_sound (A : TDet σ κ) (B : TDet τ κ) (kinds : List κ) (eof : κ) (fuel : Nat) (s : σ) (t : τ)
    (hk : ∀ k, k ∈ kinds) (h : bisimCheck A B kinds eof fuel s t = true) :
    ∀ ks, eof ∉ ks → A.accepts eof s ks = B.accepts eof t ks := by
  simp only [bisimCheck, Bool.and_eq_true, List.contains_iff_mem] at h
  intro ks hks
  exact bisim_sound A B kinds eof _ hk h.2 ks hks s t h.1

end GV.Lemmas
