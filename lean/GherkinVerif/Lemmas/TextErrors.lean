/-
  Lemmas/TextErrors.lean — bookkeeping of the error list for the text-level acceptance theorem:
  ragged-table errors (the only errors of the builder) versus all other errors (matcher errors and
  unexpected-line errors); `add_error` never merges an error of one sort into one of the other
  (their messages differ); errors only accumulate; what an abort carries.
-/
import GherkinVerif.Lemmas.QueuePureLoop
import GherkinVerif.Lemmas.GlueBuilder
namespace GV
namespace Lemmas
open Spec

/-! ### the two sorts of errors -/

/-- message body of the builder's only error -/
def RB : Str := lit "inconsistent cell count within the table"

/-- a ragged-table error as the builder makes it -/
def good (e : PErr) : Prop := e.kind = .raggedTable ∧ e.body = RB

/-- an error of the matcher or of an error tail: not a ragged-table error, and its message body
    does not start like the builder's -/
def badE (e : PErr) : Prop := e.kind ≠ .raggedTable ∧ e.body.head? ≠ some 105

/-- all errors so far are ragged-table errors -/
def AR (c : Ctx) : Prop := ∀ e ∈ c.errors, good e

/-- some error so far is not a ragged-table error -/
def NR (c : Ctx) : Prop := ∃ e ∈ c.errors, e.kind ≠ .raggedTable

theorem natToStr_ne41 (n : Nat) : ∀ c ∈ natToStr n, c ≠ 41 := by
  intro c hc
  unfold natToStr at hc
  obtain ⟨ch, hch, rfl⟩ := List.mem_map.1 hc
  have hd : ch ∈ Nat.toDigits 10 n := by
    have : (toString n).toList = Nat.toDigits 10 n := by
      rw [Nat.toString_eq_repr, Nat.toList_repr]
    rw [← this]; exact hch
  have := Nat.isDigit_of_mem_toDigits (by decide) (by decide) hd
  simp only [Char.isDigit, Bool.and_eq_true, decide_eq_true_eq] at this
  intro h41
  have h48 : 48 ≤ ch.toNat := by
    have := this.1
    exact this
  omega

theorem split_at_41 : ∀ (u u' r r' : Str), (∀ c ∈ u, c ≠ 41) → (∀ c ∈ u', c ≠ 41) →
    u ++ 41 :: r = u' ++ 41 :: r' → r = r' := by
  intro u
  induction u with
  | nil =>
    intro u' r r' _ hu' h
    cases u' with
    | nil => simpa using h
    | cons a u' =>
      simp only [List.nil_append, List.cons_append, List.cons.injEq] at h
      exact absurd h.1.symm (hu' a (List.mem_cons_self ..))
  | cons a u ih =>
    intro u' r r' hu hu' h
    cases u' with
    | nil =>
      simp only [List.nil_append, List.cons_append, List.cons.injEq] at h
      exact absurd h.1 (hu a (List.mem_cons_self ..))
    | cons b u' =>
      simp only [List.cons_append, List.cons.injEq] at h
      exact ih u' r r' (fun c hc => hu c (List.mem_cons_of_mem _ hc)) (fun c hc => hu' c (List.mem_cons_of_mem _ hc)) h.2

theorem lit_close : lit "): " = [41, 58, 32] := by decide

/-- equal messages have equal bodies -/
theorem body_of_message {e e' : PErr} (h : e.message = e'.message) : e.body = e'.body := by
  unfold PErr.message at h
  rw [lit_close] at h
  have hu : ∀ (x : PErr), ∀ c ∈ natToStr x.loc.line ++ [58] ++ natToStr (x.loc.col.getD 0), c ≠ 41 := by
    intro x c hc
    simp only [List.mem_append, List.mem_singleton] at hc
    rcases hc with (hc | hc) | hc
    · exact natToStr_ne41 _ c hc
    · rw [hc]; decide
    · exact natToStr_ne41 _ c hc
  have h' : (natToStr e.loc.line ++ [58] ++ natToStr (e.loc.col.getD 0)) ++ 41 :: (58 :: 32 :: e.body) =
      (natToStr e'.loc.line ++ [58] ++ natToStr (e'.loc.col.getD 0)) ++ 41 :: (58 :: 32 :: e'.body) := by
    simp only [List.append_assoc, List.cons_append, List.nil_append, List.cons.injEq, true_and] at h ⊢
    exact h
  have := split_at_41 _ _ _ _ (hu e) (hu e') h'
  simpa using this

theorem RB_head : RB.head? = some 105 := by decide

theorem msg_disc {e e' : PErr} (hg : good e') (hb : badE e) : e'.message ≠ e.message := by
  intro h
  have := body_of_message h
  rw [hg.2] at this
  exact hb.2 (by rw [← this]; exact RB_head)

/-! ### errors only accumulate; what an abort carries -/

def Grow (c c' : Ctx) : Prop := ∃ es, c'.errors = c.errors ++ es

theorem Grow.refl (c : Ctx) : Grow c c := ⟨[], by simp⟩
theorem Grow.trans {a b c : Ctx} (h1 : Grow a b) (h2 : Grow b c) : Grow a c := by
  obtain ⟨x, hx⟩ := h1; obtain ⟨y, hy⟩ := h2
  exact ⟨x ++ y, by rw [hy, hx, List.append_assoc]⟩
theorem Grow.nr {c c' : Ctx} (h : Grow c c') (hn : NR c) : NR c' := by
  obtain ⟨es, hes⟩ := h
  obtain ⟨e, he, hk⟩ := hn
  exact ⟨e, by rw [hes]; exact List.mem_append_left _ he, hk⟩
theorem Grow.of_eq {c c' : Ctx} (h : c'.errors = c.errors) : Grow c c' := ⟨[], by simp [h]⟩

/-- an abort of the collecting mode: the composite of the errors so far when they exceed the cap,
    or a crash / fuel -/
def AbOK (cap : Nat) (a : Abort) (c' : Ctx) : Prop :=
  (a = .composite c'.errors ∧ cap < c'.errors.length) ∨ (∃ w, a = .crash w) ∨ a = .fuel

/-- growth of the error list and form of the abort -/
def Eff {α} (cap : Nat) (c : Ctx) (r : Except Abort α) (c' : Ctx) : Prop :=
  Grow c c' ∧ ∀ a, r = .error a → AbOK cap a c'

theorem Eff.ok_refl {α} {cap : Nat} (c : Ctx) (a : α) : Eff cap c (.ok a : Except Abort α) c :=
  ⟨Grow.refl c, fun _ h => by cases h⟩

/-- `add_error`, collecting mode -/
theorem addError_spec {cap : Nat} {e : PErr} {c : Ctx} {r : Except Abort Unit} {c' : Ctx}
    (h : run (addError cap e) c = (r, c')) :
    FootE c c' ∧ Eff cap c r c' ∧
    ((c'.errors = c.errors ∧ ∃ e' ∈ c.errors, e'.message = e.message) ∨ c'.errors = c.errors ++ [e]) := by
  rw [run_addError] at h
  split at h
  · rename_i hany
    cases h
    obtain ⟨e', he', hm⟩ := List.any_eq_true.1 hany
    exact ⟨FootE.refl _, Eff.ok_refl _ _, .inl ⟨rfl, e', he', by simpa using hm⟩⟩
  · split at h
    · rename_i hlen
      cases h
      exact ⟨⟨_, rfl⟩, ⟨⟨[e], rfl⟩, fun a ha => by cases ha; exact .inl ⟨rfl, hlen⟩⟩, .inr rfl⟩
    · cases h
      exact ⟨⟨_, rfl⟩, ⟨⟨[e], rfl⟩, fun a ha => by cases ha⟩, .inr rfl⟩

theorem addError_good {cap : Nat} {e : PErr} {c : Ctx} {r : Except Abort Unit} {c' : Ctx}
    (h : run (addError cap e) c = (r, c')) (he : good e) (hc : AR c) : AR c' := by
  obtain ⟨-, -, hcase⟩ := addError_spec h
  rcases hcase with ⟨h1, -⟩ | h1
  · intro x hx; rw [h1] at hx; exact hc x hx
  · intro x hx
    rw [h1] at hx
    rcases List.mem_append.1 hx with hx | hx
    · exact hc x hx
    · rw [List.mem_singleton] at hx; subst hx; exact he

/-- an error that is not a ragged-table error is never merged away while all earlier errors are -/
theorem addError_bad {cap : Nat} {e : PErr} {c : Ctx} {r : Except Abort Unit} {c' : Ctx}
    (h : run (addError cap e) c = (r, c')) (he : badE e) (hc : AR c) : NR c' := by
  obtain ⟨-, -, hcase⟩ := addError_spec h
  rcases hcase with ⟨-, e', he', hm⟩ | h1
  · exact absurd hm (msg_disc (hc e' he') he)
  · exact ⟨e, by rw [h1]; simp, he.1⟩

/-! ### the builder raises ragged-table errors only -/

theorem getTableRows_good (items : List (Key × Val)) :
    BSpec (GV.getTableRows items) (fun _ => True) good := by
  unfold GV.getTableRows
  refine BSpec.bind (Q' := fun _ => True)
    (BSpec.mapM'_noast _ _ fun t => BSpec.bind (Q' := fun _ => True) BSpec.nextId fun _ _ => BSpec.pure _ trivial)
    fun rows _ => ?_
  split
  · exact BSpec.throw_ast _ ⟨rfl, rfl⟩
  · exact BSpec.pure _ trivial

macro "bwalk'" : tactic => `(tactic| repeat (first
  | exact BSpec.pure _ trivial
  | exact BSpec.crash _
  | refine BSpec.bind (Q' := fun _ => True) (by bhead) fun _ _ => ?_
  | split))

theorem transformNode_good (cm : List Comment) (node : Node) :
    BSpec (transformNode cm node) (fun _ => True) good := by
  unfold transformNode
  dsimp only
  split
  case h_3 =>
    refine BSpec.bind (getTableRows_good _) fun rows _ => ?_
    bwalk'
  case h_7 =>
    refine BSpec.bind (getTableRows_good _) fun rows _ => ?_
    bwalk'
  all_goals bwalk'

theorem endRule_good (β : BState) (n : Nat) (e : PErr) (h : (β.endRule n).1 = .error (.ast e)) : good e := by
  unfold BState.endRule at h
  split at h
  · cases h
  · rename_i node rest hst
    have hspec := transformNode_good β.comments node n
    rcases hr : (transformNode β.comments node).run.run n with ⟨r, n'⟩
    have hspec := hspec r n' hr
    rw [hr] at h
    cases r with
    | error e' =>
      dsimp only at h
      cases h
      exact hspec
    | ok v =>
      dsimp only at h
      split at h <;> cases h

/-- one production, collecting mode: the error list grows by ragged-table errors only -/
theorem runProd_spec {cap : Nat} {t : Token} {p : Prod} {c : Ctx} {r : Except Abort Unit} {c' : Ctx}
    (h : run (runProd cap false t p) c = (r, c')) :
    FootB' c c' ∧ Eff cap c r c' ∧ (AR c → AR c') := by
  have hfoot := runProd_foot' cap false t p c r c' h
  refine ⟨hfoot, ?_⟩
  have hlift : ∀ (x : Except BErr Unit) (c0 : Ctx) (r0 : Except Abort Unit) (c0' : Ctx),
      (∀ e, x = .error (.ast e) → good e) → run (liftB cap false x) c0 = (r0, c0') →
      Eff cap c0 r0 c0' ∧ (AR c0 → AR c0') := by
    intro x c0 r0 c0' hx hl
    rw [run_liftB] at hl
    split at hl
    · cases hl; exact ⟨Eff.ok_refl _ _, fun h => h⟩
    · cases hl; exact ⟨⟨Grow.refl _, fun a ha => by cases ha; exact .inr (.inl ⟨_, rfl⟩)⟩, fun h => h⟩
    · rename_i e
      simp only [Bool.false_eq_true, if_false] at hl
      exact ⟨(addError_spec hl).2.1, addError_good hl (hx e rfl)⟩
  rw [run_runProd] at h
  cases p with
  | start rr => dsimp only at h; cases h; exact ⟨Eff.ok_refl _ _, fun h => h⟩
  | end_ rr =>
    dsimp only at h
    have := hlift _ _ _ _ (fun e he => endRule_good c.β c.ids e he) h
    exact ⟨⟨this.1.1, this.1.2⟩, fun hc => this.2 hc⟩
  | build =>
    dsimp only at h
    cases hb : c.β.build t with
    | ok β' => rw [hb] at h; dsimp only at h; cases h; exact ⟨Eff.ok_refl _ _, fun h => h⟩
    | error e' =>
      rw [hb] at h
      dsimp only at h
      obtain ⟨w, rfl⟩ := build_error _ _ _ hb
      exact hlift _ _ _ _ (fun e he => by cases he) h

theorem runProds_spec {cap : Nat} {t : Token} (ps : List Prod) {c : Ctx} {r : Except Abort Unit} {c' : Ctx}
    (h : run (runProds cap false t ps) c = (r, c')) :
    FootB' c c' ∧ Eff cap c r c' ∧ (AR c → AR c') := by
  induction ps generalizing c with
  | nil => rw [runProds, prun_pure] at h; cases h; exact ⟨FootB'.refl _, Eff.ok_refl _ _, fun h => h⟩
  | cons p ps ih =>
    rw [runProds, prun_bind] at h
    rcases hr : run (runProd cap false t p) c with ⟨r1, c1⟩
    rw [hr] at h
    obtain ⟨hf1, he1, ha1⟩ := runProd_spec hr
    cases r1 with
    | error e => cases h; exact ⟨hf1, he1, ha1⟩
    | ok _ =>
      obtain ⟨hf2, he2, ha2⟩ := ih h
      exact ⟨hf1.trans hf2, ⟨he1.1.trans he2.1, he2.2⟩, fun hc => ha2 (ha1 hc)⟩

end Lemmas
end GV
