/-
  Lemmas/RaggedDocInv.lean — the run invariant behind the document-level ragged-table theorems.

  Abstract interpretation of the builder stack: a state of the parser table is assigned the list
  of rule types of the open nodes (`Spec.RState` = that list plus a flag "a table node has been
  closed since the last built token that is not a row / comment / blank").  `Spec.rProd`
  executes one production on it and refuses what would break the link between a table node and
  the group of row tokens in `builds`: starting a node on top of a table node, building anything
  but rows / comments / blanks into a table node, building a row into a node that is not a table
  node, starting a table node or building a row while a closed table's group is still open.

  `RInvG` is the concrete invariant: the rule types of the stack are the abstract ones; the row
  tokens of a table node on top are exactly `Spec.openRun builds`; with no table on top and no
  pending group `openRun builds = []`; every recorded error is either a ragged-table error at the
  first deviating token of a closed (or pending) group of `builds`, or an error of another sort;
  conversely every closed (or pending) group with a first deviating token has its error recorded
  (up to `add_error`'s de-duplication by message); stop mode records nothing; every built row
  token carries the cells and column of its own physical line.
  `runProd_r`: one production keeps the invariant (`rProd`), aborts satisfy `RAb`.
-/
import GherkinVerif.Lemmas.RaggedDocBase
import GherkinVerif.Lemmas.GlueBase
import GherkinVerif.Lemmas.TextParse
namespace GV
namespace Spec

def topTable : List RuleType → Bool
  | r :: _ => isTableRt r
  | [] => false

/-- rule types of the open nodes, innermost first; pending flag -/
abbrev RState := List RuleType × Bool

def rProd (k : Kind) (s : RState) (p : Prod) : Option RState :=
  match p with
  | .start r => if topTable s.1 || (isTableRt r && s.2) then none else some (r :: s.1, s.2)
  | .end_ _ =>
    match s.1 with
    | r :: r' :: rest => if isTableRt r' then none else some (r' :: rest, s.2 || isTableRt r)
    | _ => none
  | .build =>
    if k == .TableRow then (if topTable s.1 && !s.2 then some s else none)
    else if k == .Comment || k == .Empty then some s
    else if topTable s.1 then none else some (s.1, false)

def rProds (k : Kind) : RState → List Prod → Option RState
  | s, [] => some s
  | s, p :: ps => (rProd k s p).bind fun s' => rProds k s' ps

/-- a built row token carries the cells and the column of its own physical line -/
def RowTok (t : Token) : Prop :=
  t.mtype = some .TableRow → ∃ l, t.line = some l ∧ t.items = tableCells l ∧ t.col = some (lineIndent l + 1)

end Spec

namespace Lemmas
open Spec

/-! ### one more built token -/

theorem runs_snoc_row {bs : List Token} {t : Token} (h : t.mtype = some .TableRow) :
    closedRuns (bs ++ [t]) = closedRuns bs ∧ openRun (bs ++ [t]) = openRun bs ++ [t] := by
  unfold closedRuns openRun
  rw [runState_snoc]
  simp [runStep, isRowTok, h]

theorem runs_snoc_skip {bs : List Token} {t : Token} (h : t.mtype = some .Comment ∨ t.mtype = some .Empty) :
    closedRuns (bs ++ [t]) = closedRuns bs ∧ openRun (bs ++ [t]) = openRun bs := by
  unfold closedRuns openRun
  rw [runState_snoc]
  rcases h with h | h <;> simp [runStep, isRowTok, isSkipTok, h]

theorem runs_snoc_other {bs : List Token} {t : Token} {k : Kind} (h : t.mtype = some k)
    (h1 : k ≠ .TableRow) (h2 : k ≠ .Comment) (h3 : k ≠ .Empty) :
    closedRuns (bs ++ [t]) = closedRuns bs ++ flushRun (openRun bs) ∧ openRun (bs ++ [t]) = [] := by
  unfold closedRuns openRun
  rw [runState_snoc]
  simp [runStep, isRowTok, isSkipTok, h, h1, h2, h3]

/-! ### the invariant -/

/-- a group that can no longer grow: closed, or (pending) the open group after its table node
    has been closed -/
def Live (p : Bool) (bs : List Token) (run : List Token) : Prop :=
  run ∈ closedRuns bs ∨ (p = true ∧ run = openRun bs ∧ run ≠ [])

theorem Live.mono {p : Bool} {bs : List Token} {run : List Token} (h : Live false bs run) : Live p bs run := by
  rcases h with h | ⟨h, -⟩
  · exact .inl h
  · cases h

theorem Live.mem {p : Bool} {bs : List Token} {run : List Token} (h : Live p bs run) : run ∈ tableRuns bs := by
  rw [mem_tableRuns]
  rcases h with h | ⟨-, h1, h2⟩
  · exact .inl h
  · exact .inr ⟨h1, h1 ▸ h2⟩

/-- what is known of a recorded error -/
def ErrOK (p : Bool) (bs : List Token) (e : PErr) : Prop :=
  (∃ run t, Live p bs run ∧ firstDeviating run = some t ∧ e = raggedErrAt t) ∨ badE e

structure RInvG (extra : List PErr) (stop : Bool) (s : RState) (c : Ctx) : Prop where
  rts : c.β.stack.map (·.rt) = s.1
  top : topTable s.1 = true → s.2 = false ∧
    ∀ top rest, c.β.stack = top :: rest → getTokens top.items .TableRow = openRun c.builds
  idle : topTable s.1 = false → s.2 = false → openRun c.builds = []
  err : ∀ e ∈ c.errors, ErrOK s.2 c.builds e
  comp : ∀ run, Live s.2 c.builds run → ∀ t, firstDeviating run = some t →
    ∃ e ∈ c.errors ++ extra, e.message = (raggedErrAt t).message
  stopE : stop = true → c.errors = []
  rows : ∀ t ∈ c.builds, RowTok t

abbrev RInv := RInvG []

/-- what holds of the final context whatever happened -/
structure RFin (c : Ctx) : Prop where
  err : ∀ e ∈ c.errors, (∃ run t, run ∈ tableRuns c.builds ∧ firstDeviating run = some t ∧ e = raggedErrAt t) ∨ badE e
  comp : ∀ run ∈ closedRuns c.builds, ∀ t, firstDeviating run = some t →
    ∃ e ∈ c.errors, e.message = (raggedErrAt t).message
  rows : ∀ t ∈ c.builds, RowTok t

/-- every table of `builds` with a deviating row has its error recorded -/
def FinAll (c : Ctx) : Prop :=
  ∀ run ∈ tableRuns c.builds, ∀ t, firstDeviating run = some t → ∃ e ∈ c.errors, e.message = (raggedErrAt t).message

/-- aborts -/
def RAb (cap : Nat) (a : Abort) (c : Ctx) : Prop :=
  match a with
  | .single e => c.errors = [] ∧ RFin c ∧
      ((∃ run t, run ∈ tableRuns c.builds ∧ firstDeviating run = some t ∧ e = raggedErrAt t) ∨ badE e)
  | .composite es => es = c.errors ∧ RFin c ∧ (es.length ≤ cap → FinAll c)
  | .crash _ => True
  | .fuel => True

theorem ErrOK.fin {p : Bool} {bs : List Token} {e : PErr} (h : ErrOK p bs e) :
    (∃ run t, run ∈ tableRuns bs ∧ firstDeviating run = some t ∧ e = raggedErrAt t) ∨ badE e := by
  rcases h with ⟨run, t, h1, h2, h3⟩ | h
  · exact .inl ⟨run, t, h1.mem, h2, h3⟩
  · exact .inr h

theorem RInvG.congr {x : List PErr} {stop : Bool} {s : RState} {c c' : Ctx} (h : RInvG x stop s c)
    (hβ : c'.β = c.β) (hb : c'.builds = c.builds) (he : c'.errors = c.errors) : RInvG x stop s c' :=
  ⟨by rw [hβ]; exact h.rts, by rw [hβ, hb]; exact h.top, by rw [hb]; exact h.idle,
   by rw [he, hb]; exact h.err, by rw [he, hb]; exact h.comp, by rw [he]; exact h.stopE, by rw [hb]; exact h.rows⟩

theorem RInvG.weaken {x : List PErr} {stop : Bool} {s : RState} {c : Ctx} (h : RInvG [] stop s c) : RInvG x stop s c :=
  ⟨h.rts, h.top, h.idle, h.err, fun run hr t ht => (by
      obtain ⟨e, he, hm⟩ := h.comp run hr t ht
      exact ⟨e, List.mem_append_left _ (by simpa using he), hm⟩), h.stopE, h.rows⟩

/-- the part of `RFin` that does not need the completeness clause for a pending group -/
theorem fin_of {x : List PErr} {stop : Bool} {s : RState} {c : Ctx}
    (herr : ∀ e ∈ c.errors, ErrOK s.2 c.builds e)
    (hcomp : ∀ run ∈ closedRuns c.builds, ∀ t, firstDeviating run = some t →
      ∃ e ∈ c.errors, e.message = (raggedErrAt t).message)
    (hrows : ∀ t ∈ c.builds, RowTok t) : RFin c :=
  ⟨fun e he => (herr e he).fin, hcomp, hrows⟩

theorem RInvG.fin {stop : Bool} {s : RState} {c : Ctx} (h : RInvG [] stop s c) : RFin c :=
  ⟨fun e he => (h.err e he).fin,
   fun run hr t ht => by
     obtain ⟨e, he, hm⟩ := h.comp run (.inl hr) t ht
     exact ⟨e, by simpa using he, hm⟩,
   h.rows⟩

theorem RInvG.finAll {stop : Bool} {s : RState} {c : Ctx} (h : RInvG [] stop s c) (ht : topTable s.1 = false) :
    FinAll c := by
  intro run hr t hd
  have hl : Live s.2 c.builds run := by
    rcases mem_tableRuns.1 hr with hr | ⟨h1, h2⟩
    · exact .inl hr
    · cases hp : s.2 with
      | true => exact .inr ⟨rfl, h1, h1 ▸ h2⟩
      | false => exact absurd (h.idle ht hp) h2
  obtain ⟨e, he, hm⟩ := h.comp run hl t hd
  exact ⟨e, by simpa using he, hm⟩

/-! ### `add_error` -/

theorem addError_r {cap : Nat} {e : PErr} {stop : Bool} {s : RState} {c : Ctx} {r : Except Abort Unit} {c' : Ctx}
    (hs : stop = false) (h : run (addError cap e) c = (r, c')) (hc : RInvG [e] stop s c)
    (he : ErrOK s.2 c.builds e) :
    RInvG [] stop s c' ∧ ∀ a, r = .error a → RAb cap a c' := by
  have hadd : RInvG [] stop s { c with errors := c.errors ++ [e] } :=
    { rts := hc.rts, top := hc.top, idle := hc.idle
      err := fun e' he' => by
        rcases List.mem_append.1 he' with he' | he'
        · exact hc.err e' he'
        · rw [List.mem_singleton] at he'; subst he'; exact he
      comp := fun run hr t ht => by
        obtain ⟨e', he', hm⟩ := hc.comp run hr t ht
        exact ⟨e', by simpa using he', hm⟩
      stopE := fun h' => by rw [hs] at h'; cases h'
      rows := hc.rows }
  rw [run_addError] at h
  split at h
  · rename_i hany
    cases h
    obtain ⟨e0, he0, hm0⟩ := List.any_eq_true.1 hany
    have hm0 : e0.message = e.message := by simpa using hm0
    refine ⟨{ hc with comp := fun run hr t ht => ?_ }, fun a ha => by cases ha⟩
    obtain ⟨e', he', hm⟩ := hc.comp run hr t ht
    rcases List.mem_append.1 he' with he' | he'
    · exact ⟨e', by simpa using he', hm⟩
    · rw [List.mem_singleton] at he'; subst he'
      exact ⟨e0, by simpa using he0, hm0.trans hm⟩
  · split at h
    · rename_i hlen
      cases h
      refine ⟨hadd, fun a ha => ?_⟩
      cases ha
      refine ⟨rfl, hadd.fin, fun hle => ?_⟩
      exact absurd hle (by simpa using hlen)
    · cases h
      exact ⟨hadd, fun a ha => by cases ha⟩

/-- an error of another sort, collecting mode -/
theorem addError_bad_r {cap : Nat} {e : PErr} {stop : Bool} {s : RState} {c : Ctx} {r : Except Abort Unit} {c' : Ctx}
    (hs : stop = false) (h : run (addError cap e) c = (r, c')) (hc : RInv stop s c) (he : badE e) :
    RInv stop s c' ∧ ∀ a, r = .error a → RAb cap a c' :=
  addError_r hs h hc.weaken (.inr he)

/-- stop mode: the exception itself -/
theorem single_r {cap : Nat} {e : PErr} {stop : Bool} {s : RState} {c : Ctx} (hs : stop = true) (hc : RInv stop s c)
    (he : badE e) : RAb cap (.single e) c :=
  ⟨hc.stopE hs, hc.fin, .inr he⟩

/-! ### one production -/

theorem stack_of_rts {st : List Node} {r : RuleType} {a : List RuleType} (h : st.map (·.rt) = r :: a) :
    ∃ node rest, st = node :: rest ∧ node.rt = r ∧ rest.map (·.rt) = a := by
  cases st with
  | nil => cases h
  | cons node rest =>
    simp only [List.map_cons, List.cons.injEq] at h
    exact ⟨node, rest, rfl, h.1, h.2⟩

theorem runProd_r {p : Prod} (cap : Nat) (stop : Bool) (k : Kind) (t : Token) (hk : p = .build → t.mtype = some k) (hrow : RowTok t)
    (s s' : RState) (hx : rProd k s p = some s') :
    Triple (RInv stop s) (runProd cap stop t p) (fun _ => RInv stop s') (RAb cap) := by
  refine Triple.intro fun c r c' hc hr => ?_
  rw [run_runProd] at hr
  obtain ⟨a, pd⟩ := s
  cases p with
  | start rr =>
    dsimp only at hr
    cases hr
    simp only [rProd] at hx
    split at hx
    · cases hx
    · rename_i hcond
      cases hx
      simp only [Bool.or_eq_true, Bool.and_eq_true, not_or, not_and, Bool.not_eq_true] at hcond
      obtain ⟨htop, hpend⟩ := hcond
      show RInv stop (rr :: a, pd) _
      refine ⟨?_, ?_, ?_, hc.err, hc.comp, hc.stopE, hc.rows⟩
      · show (c.β.startRule rr).stack.map (·.rt) = rr :: a
        simp only [BState.startRule, List.map_cons]
        rw [hc.rts]
      · intro hrr
        have hrr' : isTableRt rr = true := hrr
        have hpd : pd = false := hpend hrr'
        refine ⟨hpd, fun top rest hst => ?_⟩
        simp only [BState.startRule, List.cons.injEq] at hst
        rw [← hst.1]
        exact (hc.idle htop hpd).symm
      · intro _ hpd
        exact hc.idle htop hpd
  | build =>
    have hk := hk rfl
    dsimp only at hr
    cases hb : c.β.build t with
    | error e =>
      rw [hb] at hr
      dsimp only at hr
      obtain ⟨w, rfl⟩ := build_error _ _ _ hb
      rw [run_liftB] at hr
      cases hr
      trivial
    | ok β' =>
      rw [hb] at hr
      dsimp only at hr
      cases hr
      obtain ⟨hrts, htoks⟩ := build_cases _ _ _ _ hk hb
      have hrows' : ∀ t' ∈ c.builds ++ [t], RowTok t' := by
        intro t' ht'
        rcases List.mem_append.1 ht' with ht' | ht'
        · exact hc.rows t' ht'
        · rw [List.mem_singleton] at ht'; subst ht'; exact hrow
      simp only [rProd] at hx
      by_cases hk1 : k = .TableRow
      · subst hk1
        simp only [beq_self_eq_true, if_true] at hx
        split at hx
        · rename_i hcond
          cases hx
          simp only [Bool.and_eq_true, Bool.not_eq_true'] at hcond
          obtain ⟨htop, hpd⟩ := hcond
          try dsimp only at hpd
          subst hpd
          obtain ⟨hcl, hop⟩ := runs_snoc_row (bs := c.builds) hk
          have hlive : ∀ run, Live false (c.builds ++ [t]) run ↔ Live false c.builds run := by
            intro run
            unfold Live
            rw [hcl]
            simp
          refine ⟨by rw [hrts]; exact hc.rts, fun _ => ⟨rfl, fun top rest hst => ?_⟩, fun h => ?_, ?_, ?_, hc.stopE, hrows'⟩
          · obtain ⟨node, nrest, hst0, -, -⟩ := stack_of_rts (r := a.head!) (a := a.tail) (st := c.β.stack) (by
              rw [hc.rts]
              cases a with
              | nil => cases htop
              | cons x xs => rfl)
            obtain ⟨top', hst', htk⟩ := htoks node nrest hst0
            rw [hst'] at hst
            have htop' : top' = top := (List.cons.inj hst).1
            rw [← htop', htk, if_pos rfl, hop, (hc.top htop).2 node nrest hst0]
          · dsimp only at h; rw [htop] at h; cases h
          · intro e he
            rcases hc.err e he with ⟨run, t', h1, h2, h3⟩ | hbad
            · exact .inl ⟨run, t', (hlive run).2 h1, h2, h3⟩
            · exact .inr hbad
          · intro run hrun t' ht'
            exact hc.comp run ((hlive run).1 hrun) t' ht'
        · cases hx
      · have hk1' : (k == Kind.TableRow) = false := by simpa using hk1
        simp only [hk1', Bool.false_eq_true, if_false] at hx
        have htoks' : ∀ top rest, c.β.stack = top :: rest → ∃ top', β'.stack = top' :: rest ∧
            getTokens top'.items .TableRow = getTokens top.items .TableRow := by
          intro top rest hst
          obtain ⟨top', h1, h2⟩ := htoks top rest hst
          exact ⟨top', h1, by rw [h2, if_neg hk1]⟩
        by_cases hk2 : k = .Comment ∨ k = .Empty
        · have hk2' : (k == Kind.Comment || k == Kind.Empty) = true := by
            rcases hk2 with rfl | rfl <;> rfl
          simp only [hk2', if_true] at hx
          cases hx
          have hmt : t.mtype = some .Comment ∨ t.mtype = some .Empty := by
            rcases hk2 with rfl | rfl
            · exact .inl hk
            · exact .inr hk
          obtain ⟨hcl, hop⟩ := runs_snoc_skip (bs := c.builds) hmt
          have hlive : ∀ run, Live pd (c.builds ++ [t]) run ↔ Live pd c.builds run := by
            intro run
            unfold Live
            rw [hcl, hop]
          refine ⟨by rw [hrts]; exact hc.rts, fun htop => ⟨(hc.top htop).1, fun top rest hst => ?_⟩, fun h1 h2 => ?_, ?_, ?_, hc.stopE, hrows'⟩
          · obtain ⟨node, nrest, hst0, -, -⟩ := stack_of_rts (r := a.head!) (a := a.tail) (st := c.β.stack) (by
              rw [hc.rts]
              cases a with
              | nil => cases htop
              | cons x xs => rfl)
            obtain ⟨top', hst', htk⟩ := htoks' node nrest hst0
            try dsimp only at hst
            rw [hst'] at hst
            have htop' : top' = top := (List.cons.inj hst).1
            try dsimp only
            rw [← htop', htk, hop, (hc.top htop).2 node nrest hst0]
          · dsimp only; rw [hop]; exact hc.idle h1 h2
          · intro e he
            rcases hc.err e he with ⟨run, t', h1, h2, h3⟩ | hbad
            · exact .inl ⟨run, t', (hlive run).2 h1, h2, h3⟩
            · exact .inr hbad
          · intro run hrun t' ht'
            exact hc.comp run ((hlive run).1 hrun) t' ht'
        · have hk2' : (k == Kind.Comment || k == Kind.Empty) = false := by
            simp only [not_or] at hk2
            simp [hk2.1, hk2.2]
          simp only [hk2', Bool.false_eq_true, if_false] at hx
          split at hx
          · cases hx
          · rename_i htop
            cases hx
            have htop : topTable a = false := by simpa using htop
            simp only [not_or] at hk2
            obtain ⟨hcl, hop⟩ := runs_snoc_other (bs := c.builds) hk hk1 hk2.1 hk2.2
            have hlive : ∀ run, Live false (c.builds ++ [t]) run ↔ Live pd c.builds run := by
              intro run
              unfold Live
              rw [hcl, List.mem_append, mem_flushRun]
              constructor
              · rintro (h | ⟨h, -⟩)
                · rcases h with h | ⟨h1, h2⟩
                  · exact .inl h
                  · cases hp : pd with
                    | true => exact .inr ⟨rfl, h1, h1 ▸ h2⟩
                    | false => exact absurd (hc.idle htop hp) h2
                · cases h
              · rintro (h | ⟨-, h1, h2⟩)
                · exact .inl (.inl h)
                · exact .inl (.inr ⟨h1, h1 ▸ h2⟩)
            refine ⟨by rw [hrts]; exact hc.rts, fun h => ?_, fun _ _ => hop, ?_, ?_, hc.stopE, hrows'⟩
            · dsimp only at h; rw [htop] at h; cases h
            · intro e he
              rcases hc.err e he with ⟨run, t', h1, h2, h3⟩ | hbad
              · exact .inl ⟨run, t', (hlive run).2 h1, h2, h3⟩
              · exact .inr hbad
            · intro run hrun t' ht'
              exact hc.comp run ((hlive run).1 hrun) t' ht'
  | end_ rr =>
    dsimp only at hr
    simp only [rProd] at hx
    split at hx
    · rename_i _ r0 r1 arest
      split at hx
      · cases hx
      · rename_i hr1
        cases hx
        have hr1 : isTableRt r1 = false := by simpa using hr1
        obtain ⟨node, nrest, hst, hnode, hnrest⟩ := stack_of_rts hc.rts
        obtain ⟨hE1, hE2, hE3⟩ := endRule_cases c.β c.ids node nrest hst
        rw [hnode] at hE2 hE3
        -- facts about the context after the pop, before the error is recorded
        have hbase : ∀ x, (∀ t', isTableRt r0 = true → firstDeviating (openRun c.builds) = some t' →
              ∃ e ∈ c.errors ++ x, e.message = (raggedErrAt t').message) →
            RInvG x stop (r1 :: arest, pd || isTableRt r0)
              { c with β := (c.β.endRule c.ids).2.1, ids := (c.β.endRule c.ids).2.2 } := by
          intro x hnew
          refine ⟨by rw [← hnrest]; exact hE1, fun h => ?_, fun _ hp => ?_, ?_, ?_, hc.stopE, hc.rows⟩
          · have h : isTableRt r1 = true := h
            rw [hr1] at h; cases h
          · simp only [Bool.or_eq_false_iff] at hp
            have : topTable (r0 :: r1 :: arest) = false := hp.2
            exact hc.idle this hp.1
          · intro e he
            rcases hc.err e he with ⟨run, t', h1, h2, h3⟩ | hbad
            · refine .inl ⟨run, t', ?_, h2, h3⟩
              rcases h1 with h1 | ⟨h1, h1', h1''⟩
              · exact .inl h1
              · exact .inr ⟨by dsimp only at h1 ⊢; rw [h1]; rfl, h1', h1''⟩
            · exact .inr hbad
          · intro run hrun t' ht'
            rcases hrun with hrun | ⟨hp, h1, h2⟩
            · obtain ⟨e, he, hm⟩ := hc.comp run (.inl hrun) t' ht'
              exact ⟨e, List.mem_append_left _ (by simpa using he), hm⟩
            · cases hpd : pd with
              | true =>
                obtain ⟨e, he, hm⟩ := hc.comp run (.inr ⟨hpd, h1, h2⟩) t' ht'
                exact ⟨e, List.mem_append_left _ (by simpa using he), hm⟩
              | false =>
                dsimp only at hp
                rw [hpd, Bool.false_or] at hp
                subst h1
                exact hnew t' hp ht'
        cases hres : (c.β.endRule c.ids).1 with
        | ok u =>
          rw [hres, run_liftB] at hr
          cases hr
          refine hbase [] fun t' htab hd => ?_
          have := hE3 htab t' (by rw [(hc.top htab).2 node nrest hst]; exact hd)
          rw [hres] at this
          cases this
        | error be =>
          cases be with
          | crash w =>
            rw [hres, run_liftB] at hr
            cases hr
            trivial
          | ast e =>
            obtain ⟨htab, t0, hd0, he0⟩ := hE2 e hres
            have htop : topTable (r0 :: r1 :: arest) = true := htab
            obtain ⟨hpd, htk⟩ := hc.top htop
            dsimp only at hpd
            rw [htk node nrest hst] at hd0
            have hpre := hbase [e] fun t' _ hd => by
              rw [hd0] at hd
              cases hd
              exact ⟨e, by simp, by rw [he0]⟩
            have hlive : Live (pd || isTableRt r0) c.builds (openRun c.builds) :=
              .inr ⟨by rw [htab]; simp, rfl, firstDeviating_ne_nil hd0⟩
            have herr : ErrOK (pd || isTableRt r0) c.builds e := .inl ⟨_, t0, hlive, hd0, he0⟩
            rw [hres, run_liftB] at hr
            dsimp only at hr
            cases hs : stop with
            | true =>
              rw [hs] at hr
              simp only [if_true] at hr
              cases hr
              refine ⟨hc.stopE hs, fin_of (x := [e]) (stop := stop) (s := (r1 :: arest, pd || isTableRt r0)) hpre.err ?_ hpre.rows, herr.fin⟩
              intro run hrun t' ht'
              obtain ⟨e', he', hm⟩ := hc.comp run (.inl hrun) t' ht'
              exact ⟨e', by simpa using he', hm⟩
            | false =>
              rw [hs] at hr
              simp only [Bool.false_eq_true, if_false] at hr
              have := addError_r (s := (r1 :: arest, pd || isTableRt r0)) hs hr hpre herr
              cases r with
              | ok u => exact hs ▸ this.1
              | error ab => exact this.2 ab rfl
    · cases hx

theorem runProds_r (cap : Nat) (stop : Bool) (k : Kind) (t : Token) (hk : t.mtype = some k) (hrow : RowTok t) :
    ∀ (ps : List Prod) (s s' : RState), rProds k s ps = some s' →
      Triple (RInv stop s) (runProds cap stop t ps) (fun _ => RInv stop s') (RAb cap)
  | [], s, s', hx => by
    simp only [rProds, Option.some.injEq] at hx
    subst hx
    exact Triple.pure _ fun _ h => h
  | p :: ps, s, s', hx => by
    simp only [rProds] at hx
    cases h1 : rProd k s p with
    | none => rw [h1] at hx; cases hx
    | some s1 =>
      rw [h1] at hx
      simp only [Option.bind_some] at hx
      unfold GV.runProds
      exact Triple.bind (runProd_r cap stop k t (fun _ => hk) hrow s s1 h1) fun _ => runProds_r cap stop k t hk hrow ps s1 s' hx

end Lemmas
end GV
