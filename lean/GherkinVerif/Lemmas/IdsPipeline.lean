/-
  Lemmas/IdsPipeline.lean — property C11 over the whole pipeline, part 1: one document, parsed and
  then compiled with one id counter.  Glue between `C11_parse_ids_canonical` (AST side),
  `C11_pickle_ids` (compiler side) and `C01_compile_parsed_total` (the compiler never fails on a
  parsed document).
-/
import GherkinVerif.Props.C03Parse
import GherkinVerif.Props.C01Pipeline
import GherkinVerif.Props.C11
import GherkinVerif.Lemmas.IdsPipelineRefs
namespace GV
namespace Lemmas
namespace IdsP
open Spec

theorem range'_glue (a b c : Nat) (h1 : a ≤ b) (h2 : b ≤ c) :
    List.range' a (b - a) ++ List.range' b (c - b) = List.range' a (c - a) := by
  have e : List.range' b (c - b) = List.range' (a + (b - a)) (c - b) := by
    congr 1; omega
  rw [e, List.range'_append_1]
  congr 1; omega

/-- AST side with the inequality: canonical ids are `ids … ctx.ids-1` and `ids ≤ ctx.ids` -/
theorem parse_ids (μ : MState) (ids : Nat) (src : Str)
    (hμ : (μ.reset Gen.dialects).dialect ∈ Gen.dialects) (d : Doc)
    (h : (parseWith Gen.dialects Gen.parserTable false μ ids src).1 = .ok d) :
    canonicalIds d =
      List.range' ids ((parseWith Gen.dialects Gen.parserTable false μ ids src).2.ids - ids) ∧
    ids ≤ (parseWith Gen.dialects Gen.parserTable false μ ids src).2.ids := by
  obtain ⟨t, -, -, hv, -, -, -, hast⟩ := C03_parse_is_astOf μ ids src hμ d h
  exact C11_ast_ids_canonical t (C11_shaped_of_valid t hv) _ _ _ d hast

/-- one document, one counter: AST ids then pickle ids are consecutive from `ids` -/
theorem pipeline_ids (μ : MState) (ids : Nat) (src : Str)
    (hμ : (μ.reset Gen.dialects).dialect ∈ Gen.dialects) (d : Doc)
    (h : (parseWith Gen.dialects Gen.parserTable false μ ids src).1 = .ok d)
    (uri : Str) (ps : List Pickle) (n' : Nat)
    (hc : compile uri d (parseWith Gen.dialects Gen.parserTable false μ ids src).2.ids = some (ps, n')) :
    canonicalIds d ++ idOrder ps = List.range' ids (n' - ids) ∧
    ids ≤ (parseWith Gen.dialects Gen.parserTable false μ ids src).2.ids ∧
    (parseWith Gen.dialects Gen.parserTable false μ ids src).2.ids ≤ n' := by
  obtain ⟨ha, hle⟩ := parse_ids μ ids src hμ d h
  obtain ⟨hp, hle'⟩ := C11_pickle_ids uri d _ ps n' hc
  refine ⟨?_, hle, hle'⟩
  rw [ha, hp]
  exact range'_glue _ _ _ hle hle'

theorem pipeline_ids_total (μ : MState) (ids : Nat) (src : Str)
    (hμ : (μ.reset Gen.dialects).dialect ∈ Gen.dialects) (d : Doc)
    (h : (parseWith Gen.dialects Gen.parserTable false μ ids src).1 = .ok d) (uri : Str) :
    ∃ ps n', compile uri d (parseWith Gen.dialects Gen.parserTable false μ ids src).2.ids = some (ps, n') ∧
      canonicalIds d ++ idOrder ps = List.range' ids (n' - ids) := by
  obtain ⟨ps, n', hc⟩ := C01_compile_parsed_total false μ ids src d h uri
  exact ⟨ps, n', hc, (pipeline_ids μ ids src hμ d h uri ps n' hc).1⟩

theorem pipeline_ids_distinct (μ : MState) (ids : Nat) (src : Str)
    (hμ : (μ.reset Gen.dialects).dialect ∈ Gen.dialects) (d : Doc)
    (h : (parseWith Gen.dialects Gen.parserTable false μ ids src).1 = .ok d)
    (uri : Str) (ps : List Pickle) (n' : Nat)
    (hc : compile uri d (parseWith Gen.dialects Gen.parserTable false μ ids src).2.ids = some (ps, n')) :
    (canonicalIds d ++ idOrder ps).Nodup ∧ ∀ a ∈ canonicalIds d, ∀ b ∈ idOrder ps, a < b := by
  refine ⟨(pipeline_ids μ ids src hμ d h uri ps n' hc).1 ▸ List.nodup_range', ?_⟩
  obtain ⟨ha, hle⟩ := parse_ids μ ids src hμ d h
  obtain ⟨hp, -⟩ := C11_pickle_ids uri d _ ps n' hc
  intro a haa b hb
  rw [ha] at haa
  rw [hp] at hb
  have := List.mem_range'_1.1 haa
  have := List.mem_range'_1.1 hb
  omega

theorem pipeline_ids_fresh (μ : MState) (src : Str)
    (hμ : (μ.reset Gen.dialects).dialect ∈ Gen.dialects) (d : Doc)
    (h : (parseWith Gen.dialects Gen.parserTable false μ 0 src).1 = .ok d)
    (uri : Str) (ps : List Pickle) (n' : Nat)
    (hc : compile uri d (parseWith Gen.dialects Gen.parserTable false μ 0 src).2.ids = some (ps, n')) :
    canonicalIds d ++ idOrder ps = List.range n' := by
  rw [(pipeline_ids μ 0 src hμ d h uri ps n' hc).1, Nat.sub_zero, List.range_eq_range']

/-- any document: the compiler's pickles resolve and mention ids of the document only -/
theorem compile_refs (uri : Str) (d : Doc) (n : Nat) (ps : List Pickle) (n' : Nat)
    (h : compile uri d n = some (ps, n')) :
    ∀ p ∈ ps, ∃ f, d.feature = some f ∧ PickleResolves f p ∧ ∀ i ∈ pickleRefs p, i ∈ canonicalIds d := by
  intro p hp
  obtain ⟨f, hf, hr⟩ := compile_resolves uri d n ps n' h p hp
  refine ⟨f, hf, hr, fun i hi => ?_⟩
  unfold canonicalIds
  rw [hf]
  exact refs_mem f p hr i hi

/-- accepted document: every mentioned id names exactly one AST node and is not a pickle id -/
theorem pipeline_refs (μ : MState) (ids : Nat) (src : Str)
    (hμ : (μ.reset Gen.dialects).dialect ∈ Gen.dialects) (d : Doc)
    (h : (parseWith Gen.dialects Gen.parserTable false μ ids src).1 = .ok d)
    (uri : Str) (ps : List Pickle) (n' : Nat)
    (hc : compile uri d (parseWith Gen.dialects Gen.parserTable false μ ids src).2.ids = some (ps, n')) :
    ∀ p ∈ ps, ∃ f, d.feature = some f ∧ PickleResolves f p ∧
      ∀ i ∈ pickleRefs p, (canonicalIds d).count i = 1 ∧ i ∉ idOrder ps ∧
        ids ≤ i ∧ i < (parseWith Gen.dialects Gen.parserTable false μ ids src).2.ids := by
  intro p hp
  obtain ⟨f, hf, hr, hm⟩ := compile_refs uri d _ ps n' hc p hp
  obtain ⟨ha, hle⟩ := parse_ids μ ids src hμ d h
  obtain ⟨hpk, -⟩ := C11_pickle_ids uri d _ ps n' hc
  have hnd : (canonicalIds d).Nodup := ha ▸ List.nodup_range'
  refine ⟨f, hf, hr, fun i hi => ?_⟩
  have hi' := hm i hi
  rw [ha] at hi'
  have hb := List.mem_range'_1.1 hi'
  refine ⟨refs_unique d f hf hnd p hr i hi, ?_, hb.1, by omega⟩
  intro hq
  rw [hpk] at hq
  have := List.mem_range'_1.1 hq
  omega

end IdsP
end Lemmas
end GV
