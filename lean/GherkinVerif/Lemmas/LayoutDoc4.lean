/-
  Lemmas/LayoutDoc4.lean — property C16, whole document, goal G3: inserting a comment line.

  The lock-step simulation of Lemmas/LayoutDoc3.lean again (two runs of the queue-free parse, the
  second on the text with one line more; line numbers renamed by `insertMap k`), for an inserted
  COMMENT line `c` read in a state whose `Comment` test is an unguarded build-only self-loop
  (`Spec.commentSelfLoop`).  A look-ahead of the second run that comes across `c` skips it; the main
  loop of the second run hands it to the builder, which appends it to its comment list and leaves
  the stack of open nodes alone.  The builder states stay related by `BRel` (Lemmas/
  LayoutDoc4Builder.lean); the final `end_rule` yields documents whose comment lists differ by
  exactly that comment.  To know that no `end_rule` of the main loop closes the node of the start
  rule, the number of open nodes is tracked (`Spec.depthsOk`, `Spec.prodsOk`).
-/
import GherkinVerif.Lemmas.LayoutDoc4Builder
import GherkinVerif.Lemmas.LayoutDoc3
import GherkinVerif.Spec.LayoutChecks2
namespace GV
namespace Layout4
open Lemmas Spec Layout3

/-! ### a comment line passes the tests `Comment`, `Other` and possibly `Language` only -/

theorem matchTitle_hash (μ : MState) (t : Token) {l r : Str} (hl : trimmed l = 35 :: r) (ty : Kind)
    (kws : List Str) (hk : ∀ kw ∈ kws, plainStart kw = true) : matchTitle μ t l ty kws = none := by
  unfold matchTitle
  have : kws.find? (fun k => lineStartsWithTitle l k) = none := by
    rw [List.find?_eq_none]
    intro kw hkw
    have hp := hk kw hkw
    simp only [plainStart, Bool.and_eq_true, Bool.not_eq_true'] at hp
    obtain ⟨⟨⟨⟨⟨-, h35⟩, -⟩, -⟩, -⟩, -⟩ := hp
    unfold lineStartsWithTitle
    rw [hl]
    cases kw with
    | nil => simp [startsWith]
    | cons a kw =>
      simp only [Bool.not_eq_true]
      cases hs : startsWith ((a :: kw) ++ [58]) (35 :: r) with
      | false => rfl
      | true =>
        have hs' : startsWith (a :: (kw ++ [58])) (35 :: r) = true := hs
        have := startsWith_cons_head hs'
        subst this
        simp [startsWith] at h35
  rw [this]

theorem matchLine_hash_no (D : List Dialect) (k : Kind) (μ : MState) (t : Token) {l r : Str}
    (hl : trimmed l = 35 :: r) (hk : k ≠ .Comment ∧ k ≠ .Other ∧ k ≠ .Language)
    (hkw : ∀ kw ∈ μ.dialect.allKeywords, plainStart kw = true)
    (hstep : ∀ kw ∈ μ.dialect.stepKeywords, kw ≠ []) (hsep : SepOk μ) :
    matchLine D k μ t l = ⟨t, μ, .no⟩ := by
  have hs : ∀ p : Str, p ≠ [] → p.head? ≠ some 35 → lineStartsWith l p = false := by
    intro p hp h35
    unfold lineStartsWith
    rw [hl]
    cases p with
    | nil => exact absurd rfl hp
    | cons a p =>
      cases hs : startsWith (a :: p) (35 :: r) with
      | false => rfl
      | true => exact absurd (by rw [startsWith_cons_head hs]; rfl) h35
  have title : ∀ (ty : Kind), matchTitle μ t l ty (μ.dialect.roleKeywords ty) = none := fun ty =>
    matchTitle_hash μ t hl ty _ fun kw hk =>
      hkw kw (mem_allKeywords_title (mem_titleKeywords_of_role _ _ _ hk))
  have title2 : ∀ (ty : Kind) (kws : List Str), (∀ kw ∈ kws, kw ∈ μ.dialect.roleKeywords .ScenarioLine) →
      matchTitle μ t l ty kws = none := fun ty kws h =>
    matchTitle_hash μ t hl ty _ fun kw hk =>
      hkw kw (mem_allKeywords_title (mem_titleKeywords_of_role _ .ScenarioLine _ (h kw hk)))
  have hdq : lineStartsWith l dq3 = false := hs dq3 (by decide) (by decide)
  have hbt : lineStartsWith l bt3 = false := hs bt3 (by decide) (by decide)
  cases k with
  | EOF => rfl
  | Comment => exact absurd rfl hk.1
  | Other => exact absurd rfl hk.2.1
  | Language => exact absurd rfl hk.2.2
  | FeatureLine => have := title .FeatureLine; simp only [Dialect.roleKeywords] at this; simp only [matchLine, this]
  | RuleLine => have := title .RuleLine; simp only [Dialect.roleKeywords] at this; simp only [matchLine, this]
  | BackgroundLine =>
    have := title .BackgroundLine; simp only [Dialect.roleKeywords] at this; simp only [matchLine, this]
  | ExamplesLine => have := title .ExamplesLine; simp only [Dialect.roleKeywords] at this; simp only [matchLine, this]
  | ScenarioLine =>
    have h1 := title2 .ScenarioLine μ.dialect.scenario fun kw h => by
      simp only [Dialect.roleKeywords]; exact List.mem_append_left _ h
    have h2 := title2 .ScenarioLine μ.dialect.scenarioOutline fun kw h => by
      simp only [Dialect.roleKeywords]; exact List.mem_append_right _ h
    simp only [matchLine, h1, h2]
  | TableRow => simp only [matchLine, hs [124] (by decide) (by decide)]; rfl
  | TagLine => simp only [matchLine, hs [64] (by decide) (by decide)]; rfl
  | Empty =>
    have : lineIsEmpty l = false := by unfold lineIsEmpty; rw [hl]; rfl
    simp only [matchLine, this]; rfl
  | StepLine =>
    simp only [matchLine]
    have : μ.dialect.stepKeywords.find? (fun kw => lineStartsWith l kw) = none := by
      rw [List.find?_eq_none]
      intro kw hmem
      have hp := hkw kw (mem_allKeywords_step hmem)
      have hne := hstep kw hmem
      simp only [plainStart, Bool.and_eq_true, Bool.not_eq_true'] at hp
      obtain ⟨⟨⟨⟨⟨-, h35⟩, -⟩, -⟩, -⟩, -⟩ := hp
      have : lineStartsWith l kw = false := by
        refine hs kw hne ?_
        cases kw with
        | nil => exact absurd rfl hne
        | cons a kw =>
          intro h
          simp only [List.head?_cons, Option.some.injEq] at h
          subst h
          simp [startsWith] at h35
      simp [this]
    rw [this]
  | DocStringSeparator =>
    simp only [matchLine]
    have hd : matchDocSep μ t l dq3 true = none := by unfold matchDocSep; rw [hdq]; rfl
    have hb : matchDocSep μ t l bt3 true = none := by unfold matchDocSep; rw [hbt]; rfl
    cases hsp : μ.activeSep with
    | none => simp only [hd, hb, Option.orElse]
    | some sep =>
      simp only []
      cases he : sep.isEmpty with
      | true => simp only [hd, hb, Option.orElse, ↓reduceIte]
      | false =>
        have : matchDocSep μ t l sep false = none := by
          unfold matchDocSep
          rcases hsep sep hsp with rfl | rfl
          · rw [hdq]; rfl
          · rw [hbt]; rfl
        simp only [Bool.false_eq_true, ↓reduceIte, this]

/-! ### related contexts, simulation -/

/-- everything of the two contexts but the unread lines (compare `Layout3.CtxRest`); `xo` says
    whether the second run has built the inserted comment yet -/
structure CtxR (D : List Dialect) (k : Nat) (xo : Option Comment) (c1 c2 : Ctx) : Prop where
  errors : c2.errors = c1.errors.map (mapErr (insertMap k))
  μ : c2.μ = c1.μ
  β : BRel (insertMap k) k xo c1.β c2.β
  ids : c2.ids = c1.ids
  unexpected : c2.unexpected = c1.unexpected.map (insertMap k).ln
  sane : Sane D c1.μ

def PostC (D : List Dialect) (k : Nat) (xo : Option Comment) {α} (R : α → α → Prop) (c1 c2 : Ctx)
    (x1 x2 : Except Abort α × Ctx) : Prop :=
  (∃ a1 a2 c1' c2', x1 = (.ok a1, c1') ∧ x2 = (.ok a2, c2') ∧ R a1 a2 ∧ CtxR D k xo c1' c2' ∧
    Frame c1 c1' ∧ Frame c2 c2') ∨
  (∃ e c1' c2', x1 = (.error e, c1') ∧ x2 = (.error (mapAbort (insertMap k) e), c2') ∧ CtxR D k xo c1' c2')

/-- lock-step simulation of computations that do not consume lines -/
def SimC (D : List Dialect) (b : Str) (k : Nat) (xo : Option Comment) {α} (R : α → α → Prop) (m1 m2 : PM α) : Prop :=
  ∀ c1 c2, CtxR D k xo c1 c2 → LinesIns b k c1.lines c1.lineNo c2.lines c2.lineNo →
    PostC D k xo R c1 c2 (run m1 c1) (run m2 c2)


section simc
variable {D : List Dialect} {b : Str} {k : Nat} {xo : Option Comment}

theorem SimC.pure {α} {R : α → α → Prop} {a1 a2 : α} (h : R a1 a2) : SimC D b k xo R (pure a1) (pure a2) :=
  fun c1 c2 hc _ => .inl ⟨a1, a2, c1, c2, rfl, rfl, h, hc, Frame.refl _, Frame.refl _⟩

theorem SimC.throw {α} {R : α → α → Prop} (e : Abort) :
    SimC D b k xo R (throw e : PM α) (throw (mapAbort (insertMap k) e)) :=
  fun c1 c2 hc _ => .inr ⟨e, c1, c2, rfl, rfl, hc⟩

theorem SimC.bind {α β} {R : α → α → Prop} {S : β → β → Prop} {m1 m2 : PM α} {f1 f2 : α → PM β}
    (h1 : SimC D b k xo R m1 m2) (h2 : ∀ a1 a2, R a1 a2 → SimC D b k xo S (f1 a1) (f2 a2)) :
    SimC D b k xo S (m1 >>= f1) (m2 >>= f2) := by
  intro c1 c2 hc hl
  rcases h1 c1 c2 hc hl with ⟨a1, a2, c1', c2', e1, e2, hr, hc', fr1, fr2⟩ | ⟨e, c1', c2', e1, e2, hc'⟩
  · rw [prun_bind, prun_bind, e1, e2]
    have hl' : LinesIns b k c1'.lines c1'.lineNo c2'.lines c2'.lineNo := by
      rw [fr1.1, fr1.2, fr2.1, fr2.2]; exact hl
    rcases h2 a1 a2 hr c1' c2' hc' hl' with ⟨b1, b2, c1'', c2'', e1', e2', hs, hc'', fr1', fr2'⟩ | h
    · exact .inl ⟨b1, b2, c1'', c2'', e1', e2', hs, hc'', fr1.trans fr1', fr2.trans fr2'⟩
    · exact .inr h
  · rw [prun_bind, prun_bind, e1, e2]; exact .inr ⟨e, c1', c2', rfl, rfl, hc'⟩

theorem SimC.mono {α} {R S : α → α → Prop} {m1 m2 : PM α} (h : SimC D b k xo R m1 m2)
    (hRS : ∀ a b, R a b → S a b) : SimC D b k xo S m1 m2 := by
  intro c1 c2 hc hl
  rcases h c1 c2 hc hl with ⟨a1, a2, c1', c2', e1, e2, hr, hc', fr⟩ | h
  · exact .inl ⟨a1, a2, c1', c2', e1, e2, hRS _ _ hr, hc', fr⟩
  · exact .inr h

theorem SimC.modify {f1 f2 : Ctx → Ctx} (h : ∀ c1 c2, CtxR D k xo c1 c2 → CtxR D k xo (f1 c1) (f2 c2))
    (hf1 : ∀ c, Frame c (f1 c)) (hf2 : ∀ c, Frame c (f2 c)) :
    SimC D b k xo (fun _ _ => True) (modify f1 : PM PUnit) (modify f2) :=
  fun c1 c2 hc _ => .inl ⟨⟨⟩, ⟨⟩, f1 c1, f2 c2, rfl, rfl, trivial, h c1 c2 hc, hf1 c1, hf2 c2⟩

theorem csim_addError (cap : Nat) (e : PErr) :
    SimC D b k xo (fun _ _ => True) (addError cap e) (addError cap (mapErr (insertMap k) e)) := by
  intro c1 c2 hc _
  rw [run_addError, run_addError, hc.errors]
  have hany : (c1.errors.map (mapErr (insertMap k))).any
      (fun e' => e'.message == (mapErr (insertMap k) e).message) =
      c1.errors.any (fun e' => e'.message == e.message) := by
    rw [List.any_map]
    congr 1
    funext e'
    exact insertMap_msg k e e'
  have hlen : (c1.errors.map (mapErr (insertMap k)) ++ [mapErr (insertMap k) e]).length =
      (c1.errors ++ [e]).length := by simp
  have hc' : CtxR D k xo { c1 with errors := c1.errors ++ [e] }
      { c2 with errors := c1.errors.map (mapErr (insertMap k)) ++ [mapErr (insertMap k) e] } :=
    ⟨by simp, hc.μ, hc.β, hc.ids, hc.unexpected, hc.sane⟩
  rw [hany, hlen]
  split
  · exact .inl ⟨_, _, _, _, rfl, rfl, trivial, hc, Frame.refl _, Frame.refl _⟩
  · split
    · refine .inr ⟨_, _, _, rfl, ?_, hc'⟩
      simp [mapAbort]
    · exact .inl ⟨_, _, _, _, rfl, rfl, trivial, hc', ⟨rfl, rfl⟩, ⟨rfl, rfl⟩⟩

/-- what two related `match_<k>` calls return: same verdict, related tokens -/
def MatchRelC (k : Nat) (r1 r2 : Bool × Token) : Prop :=
  r1.1 = r2.1 ∧ TokIns k r1.2 r2.2 ∧ (r1.1 = true → r1.2.col ≠ some 0)


theorem csim_matchP (cap : Nat) (stop : Bool) (K : Kind) {t1 t2 : Token} (ht : TokIns k t1 t2) :
    SimC D b k xo (MatchRelC k) (matchP D cap stop K t1) (matchP D cap stop K t2) := by
  intro c1 c2 hc hl
  rw [run_matchP, run_matchP, hc.μ, ht.matchTok]
  simp only [reOut]
  have hsane := sane_matchTok D K c1.μ t1 hc.sane
  have htok : TokIns k (matchTok D K c1.μ t1).1.tok (reNo ((insertMap k).ln t1.lineNo) (matchTok D K c1.μ t1).1.tok) := by
    unfold TokIns; rw [matchTok_lineNo']
  have hc' : CtxR D k xo
      { c1 with μ := (matchTok D K c1.μ t1).1.μ, calls := c1.calls + (if (matchTok D K c1.μ t1).2 then 1 else 0) }
      { c2 with μ := (matchTok D K c1.μ t1).1.μ, calls := c2.calls + (if (matchTok D K c1.μ t1).2 then 1 else 0) } :=
    ⟨hc.errors, rfl, hc.β, hc.ids, hc.unexpected, hsane⟩
  cases hr : (matchTok D K c1.μ t1).1.res with
  | matched =>
    exact .inl ⟨_, _, _, _, rfl, rfl, ⟨rfl, htok, fun _ => matchTok_matched_col0 D K c1.μ t1 hr⟩, hc',
      ⟨rfl, rfl⟩, ⟨rfl, rfl⟩⟩
  | no => exact .inl ⟨_, _, _, _, rfl, rfl, ⟨rfl, htok, fun h => by cases h⟩, hc', ⟨rfl, rfl⟩, ⟨rfl, rfl⟩⟩
  | raised e =>
    rw [reRes_raised hr]
    simp only []
    cases stop with
    | true => exact .inr ⟨_, _, _, rfl, rfl, hc'⟩
    | false =>
      simp only [Bool.false_eq_true, ↓reduceIte]
      have hl' : LinesIns b k c1.lines c1.lineNo c2.lines c2.lineNo := hl
      rcases csim_addError (D := D) (b := b) cap e _ _ hc' hl' with
        ⟨_, _, c1', c2', e1, e2, -, hc'', fr1, fr2⟩ | ⟨e', c1', c2', e1, e2, hc''⟩
      · rw [e1, e2]
        exact .inl ⟨_, _, _, _, rfl, rfl, ⟨rfl, htok, fun h => by cases h⟩, hc'', fr1, fr2⟩
      · rw [e1, e2]
        exact .inr ⟨_, _, _, rfl, rfl, hc''⟩

/-- result of `matchAny`: same verdict, related tokens -/

theorem csim_matchAny (cap : Nat) (stop : Bool) (ks : List Kind) {t1 t2 : Token} (ht : TokIns k t1 t2) :
    SimC D b k xo (AnyRel k) (matchAny D cap stop ks t1) (matchAny D cap stop ks t2) := by
  induction ks generalizing t1 t2 with
  | nil => exact SimC.pure ⟨rfl, ht⟩
  | cons K ks ih =>
    unfold matchAny
    refine SimC.bind (csim_matchP cap stop K ht) fun r1 r2 hr => ?_
    obtain ⟨m1, t1'⟩ := r1
    obtain ⟨m2, t2'⟩ := r2
    obtain ⟨hm, ht', -⟩ := hr
    simp only at hm ht'
    subst hm
    dsimp only
    split
    · exact SimC.pure ⟨rfl, ht'⟩
    · exact ih ht'


theorem PostC.frame2 {α} {R : α → α → Prop} {c1 c2 c2' : Ctx} {x1 x2 : Except Abort α × Ctx}
    (h : PostC D k xo R c1 c2' x1 x2) (fr : Frame c2 c2') : PostC D k xo R c1 c2 x1 x2 := by
  rcases h with ⟨a1, a2, c1', c2'', e1, e2, hr, hc, fr1, fr2⟩ | h
  · exact .inl ⟨a1, a2, c1', c2'', e1, e2, hr, hc, fr1, fr.trans fr2⟩
  · exact .inr h

theorem PostC.frame1 {α} {R : α → α → Prop} {c1 c1' c2 : Ctx} {x1 x2 : Except Abort α × Ctx}
    (h : PostC D k xo R c1' c2 x1 x2) (fr : Frame c1 c1') : PostC D k xo R c1 c2 x1 x2 := by
  rcases h with ⟨a1, a2, c1'', c2'', e1, e2, hr, hc, fr1, fr2⟩ | h
  · exact .inl ⟨a1, a2, c1'', c2'', e1, e2, hr, hc, fr.trans fr1, fr2⟩
  · exact .inr h

theorem CtxR.calls2 {c1 c2 : Ctx} (h : CtxR D k xo c1 c2) (j : Nat) :
    CtxR D k xo c1 { c2 with calls := j } := ⟨h.errors, h.μ, h.β, h.ids, h.unexpected, h.sane⟩

/-- a look-ahead past the inserted line: the lines peeked at are numbered one higher -/
theorem csim_peek_after (cap : Nat) (stop : Bool) (la : LookAhead) :
    ∀ (ls : List Str) (n : Nat), k < n →
      SimC D b k xo Eq (peekLoop D cap stop la ls n) (peekLoop D cap stop la ls (n + 1)) := by
  intro ls
  induction ls with
  | nil =>
    intro n hn
    unfold peekLoop
    have ht : TokIns k { line := none, lineNo := n } { line := none, lineNo := n + 1 } := by
      unfold TokIns reNo; simp only [insertMap_ln_gt k hn]
    refine SimC.bind (csim_matchAny cap stop _ ht) fun r1 r2 hr => ?_
    obtain ⟨m1, t1'⟩ := r1
    obtain ⟨m2, t2'⟩ := r2
    obtain ⟨hm, ht'⟩ := hr
    simp only at hm ht'
    subst hm
    dsimp only
    split
    · exact SimC.pure rfl
    · exact SimC.bind (csim_matchAny cap stop _ ht') fun _ _ _ => SimC.pure rfl
  | cons l ls ih =>
    intro n hn
    unfold peekLoop
    have ht : TokIns k { line := some l, lineNo := n } { line := some l, lineNo := n + 1 } := by
      unfold TokIns reNo; simp only [insertMap_ln_gt k hn]
    refine SimC.bind (csim_matchAny cap stop _ ht) fun r1 r2 hr => ?_
    obtain ⟨m1, t1'⟩ := r1
    obtain ⟨m2, t2'⟩ := r2
    obtain ⟨hm, ht'⟩ := hr
    simp only at hm ht'
    subst hm
    dsimp only
    split
    · exact SimC.pure rfl
    · refine SimC.bind (csim_matchAny cap stop _ ht') fun r1 r2 hr => ?_
      obtain ⟨s1, t1''⟩ := r1
      obtain ⟨s2, t2''⟩ := r2
      obtain ⟨hs, -⟩ := hr
      simp only at hs
      subst hs
      dsimp only
      split
      · exact ih (n + 1) (by omega)
      · exact SimC.pure rfl


/-! ### the look-ahead skips the inserted comment line -/

/-- the kinds a comment line is matched as (apart from `Language`) -/
def commentTestK (K : Kind) : Bool := K == .Comment || K == .Other

/-- what the per-line lemmas need of the dialect in force -/
def KwOk (μ : MState) : Prop :=
  (∀ kw ∈ μ.dialect.allKeywords, plainStart kw = true) ∧ (∀ kw ∈ μ.dialect.stepKeywords, kw ≠ [])

theorem kwOk_of (hD : Spec.stepKeywordsOk D = true) (hP : Spec.keywordsPlainStart D = true) {μ : MState}
    (hμ : Sane D μ) : KwOk μ :=
  ⟨fun _ h => keywordsPlainStart_spec hP hμ.2 h, kw_ne_nil hD hμ⟩

/-- tests on a comment line (no `Language` among them): the kinds before the first
    `Comment`/`Other` fail, leaving everything but the call counter alone -/
theorem hash_matchAny (cap : Nat) (stop : Bool) {l r : Str} (hl : trimmed l = 35 :: r) :
    ∀ (ks : List Kind) (t : Token) (c : Ctx), Kind.Language ∉ ks → t.line = some l → KwOk c.μ → SepOk c.μ →
      ∃ t' j, run (matchAny D cap stop ks t) c = (.ok (ks.any commentTestK, t'), { c with calls := c.calls + j }) ∧
        (ks.any commentTestK = false → t' = t) := by
  intro ks
  induction ks with
  | nil => intro t c _ _ _ _; exact ⟨t, 0, rfl, fun _ => rfl⟩
  | cons K ks ih =>
    intro t c hlang htl hkw hsep
    have hlang' : Kind.Language ∉ ks := fun h => hlang (List.mem_cons_of_mem _ h)
    have hKL : K ≠ .Language := fun h => hlang (h ▸ List.mem_cons_self)
    unfold matchAny
    rw [prun_bind, run_matchP]
    have e : matchTok D K c.μ t = (matchLine D K c.μ t l, true) := by unfold matchTok; rw [htl]
    by_cases hK : commentTestK K = true
    · have hm : (matchLine D K c.μ t l).res = .matched ∧ (matchLine D K c.μ t l).μ = c.μ := by
        unfold commentTestK at hK
        simp only [Bool.or_eq_true, beq_iff_eq] at hK
        rcases hK with rfl | rfl
        · have : lineStartsWith l [35] = true := by unfold lineStartsWith; rw [hl]; rfl
          simp only [matchLine, this, ↓reduceIte, and_self]
        · exact ⟨rfl, rfl⟩
      simp only [e, hm.1, hm.2, ↓reduceIte, prun_pure, List.any_cons, hK, Bool.true_or]
      exact ⟨_, 1, rfl, fun h => by cases h⟩
    · have hne : K ≠ .Comment ∧ K ≠ .Other ∧ K ≠ .Language := by
        unfold commentTestK at hK
        simp only [Bool.or_eq_true, beq_iff_eq, not_or] at hK
        exact ⟨hK.1, hK.2, hKL⟩
      have hno := matchLine_hash_no D K c.μ t hl hne hkw.1 hkw.2 hsep
      simp only [e, hno, ↓reduceIte, Bool.false_eq_true, List.any_cons]
      obtain ⟨t', j, hr, hl'⟩ := ih t { c with calls := c.calls + 1 } hlang' htl hkw hsep
      have hKf : commentTestK K = false := by simpa using hK
      refine ⟨t', 1 + j, ?_, ?_⟩
      rotate_left
      · rw [hKf, Bool.false_or]; exact hl'
      rw [hKf, Bool.false_or]
      have ec : ({ c with μ := c.μ, calls := c.calls + 1 } : Ctx) = { c with calls := c.calls + 1 } := rfl
      rw [ec, hr]
      simp only [Nat.add_assoc]

/-- a look-ahead that skips comment lines, does not expect them and does not test `Language` -/
def LaOkC (la : LookAhead) : Prop :=
  la.expected.any commentTestK = false ∧ la.skip.any commentTestK = true ∧
  Kind.Language ∉ la.expected ∧ Kind.Language ∉ la.skip

theorem peek_comment (hD : Spec.stepKeywordsOk D = true) (hP : Spec.keywordsPlainStart D = true) (cap : Nat)
    (stop : Bool) {la : LookAhead} (hla : LaOkC la) {r : Str} (hb : trimmed b = 35 :: r) (ls : List Str) (n : Nat)
    (c : Ctx) (hμ : Sane D c.μ) :
    ∃ j, run (peekLoop D cap stop la (b :: ls) n) c =
      run (peekLoop D cap stop la ls (n + 1)) { c with calls := c.calls + j } := by
  have hkw := kwOk_of hD hP hμ
  obtain ⟨t1, j1, h1, ht1⟩ := hash_matchAny (D := D) cap stop hb la.expected
    { line := some b, lineNo := n } c hla.2.2.1 rfl hkw hμ.1
  rw [hla.1] at h1
  have e1 := ht1 hla.1
  subst e1
  obtain ⟨t2, j2, h2, -⟩ := hash_matchAny (D := D) cap stop hb la.skip
    { line := some b, lineNo := n } { c with calls := c.calls + j1 } hla.2.2.2 rfl hkw hμ.1
  rw [hla.2.1] at h2
  refine ⟨j1 + j2, ?_⟩
  conv => lhs; unfold peekLoop
  rw [prun_bind, h1]
  simp only [Bool.false_eq_true, ↓reduceIte]
  rw [prun_bind, h2]
  simp only [↓reduceIte, Nat.add_assoc]

theorem csim_peek_before (hD : Spec.stepKeywordsOk D = true) (hP : Spec.keywordsPlainStart D = true) (cap : Nat)
    (stop : Bool) {la : LookAhead} (hla : LaOkC la) {r : Str} (hb : trimmed b = 35 :: r) (q : List Str) :
    ∀ (p : List Str) (n : Nat), n + p.length = k + 1 →
      SimC D b k xo Eq (peekLoop D cap stop la (p ++ q) n) (peekLoop D cap stop la (p ++ b :: q) n) := by
  intro p
  induction p with
  | nil =>
    intro n hn c1 c2 hc hl
    simp only [List.nil_append]
    obtain ⟨j, hj⟩ := peek_comment hD hP cap stop hla hb q n c2 (hc.μ ▸ hc.sane)
    rw [hj]
    exact (csim_peek_after cap stop la q n (by simp at hn; omega) c1 { c2 with calls := c2.calls + j }
      (hc.calls2 _) hl).frame2 ⟨rfl, rfl⟩
  | cons l p ih =>
    intro n hn
    simp only [List.cons_append]
    unfold peekLoop
    have hn' : n ≤ k := by simp at hn; omega
    have ht : TokIns k { line := some l, lineNo := n } { line := some l, lineNo := n } := by
      unfold TokIns reNo; simp only [insertMap_ln_le k hn']
    refine SimC.bind (csim_matchAny cap stop _ ht) fun r1 r2 hr => ?_
    obtain ⟨m1, t1'⟩ := r1
    obtain ⟨m2, t2'⟩ := r2
    obtain ⟨hm, ht'⟩ := hr
    simp only at hm ht'
    subst hm
    dsimp only
    split
    · exact SimC.pure rfl
    · refine SimC.bind (csim_matchAny cap stop _ ht') fun r1 r2 hr => ?_
      obtain ⟨s1, t1''⟩ := r1
      obtain ⟨s2, t2''⟩ := r2
      obtain ⟨hs, -⟩ := hr
      simp only at hs
      subst hs
      dsimp only
      split
      · exact ih (n + 1) (by simp at hn ⊢; omega)
      · exact SimC.pure rfl

theorem csim_lookaheadPure (hD : Spec.stepKeywordsOk D = true) (hP : Spec.keywordsPlainStart D = true) (cap : Nat)
    (stop : Bool) {la : LookAhead} (hla : LaOkC la) {r : Str} (hb : trimmed b = 35 :: r) :
    SimC D b k xo Eq (lookaheadPure D cap stop la) (lookaheadPure D cap stop la) := by
  intro c1 c2 hc hl
  unfold lookaheadPure
  rw [prun_bind, prun_bind, run_get, run_get]
  simp only []
  rcases hl with ⟨hn, p, q, h1, h2, hk⟩ | ⟨hn, hk, hls⟩
  · rw [h1, h2, hn]
    exact csim_peek_before hD hP cap stop hla hb q p _ (by omega) c1 c2 hc (.inl ⟨hn, p, q, h1, h2, hk⟩)
  · rw [hls, hn]
    exact csim_peek_after (b := b) cap stop la _ _ (by omega) c1 c2 hc (.inr ⟨hn, hk, hls⟩)

/-! ### productions -/

theorem csim_liftB (cap : Nat) (stop : Bool) (r : Except BErr Unit) :
    SimC D b k xo (fun _ _ => True) (liftB cap stop r) (liftB cap stop (r.mapError (mapBErr (insertMap k)))) := by
  intro c1 c2 hc hl
  rw [run_liftB, run_liftB]
  rcases r with (w | e) | u
  · exact .inr ⟨_, _, _, rfl, rfl, hc⟩
  · simp only [Except.mapError, mapBErr]
    cases stop with
    | true => exact .inr ⟨_, _, _, rfl, rfl, hc⟩
    | false => exact csim_addError cap e c1 c2 hc hl
  · exact .inl ⟨_, _, _, _, rfl, rfl, trivial, hc, Frame.refl _, Frame.refl _⟩

theorem okProds_cons {p : Prod} {ps : List Prod} {d : Nat} (h : okProds (p :: ps) d = true) :
    okProds [p] d = true ∧ okProds ps (applyProd p d) = true := by
  cases p <;> simp only [okProds, applyProd, Bool.and_eq_true, Bool.and_true] at h ⊢
  · exact h
  · exact h
  · exact ⟨trivial, h⟩

/-- one production, at a depth at which it may run -/
theorem csim_runProd (cap : Nat) (stop : Bool) {t1 t2 : Token} (p : Prod)
    (ht : p = .build → TokMap (insertMap k) t1 t2 ∧ LineOk k xo t1.lineNo) (c1 c2 : Ctx)
    (hc : CtxR D k xo c1 c2) (hl : LinesIns b k c1.lines c1.lineNo c2.lines c2.lineNo)
    (hp : okProds [p] c1.β.stack.length = true) :
    PostC D k xo (fun _ _ => True) c1 c2 (run (runProd cap stop t1 p) c1) (run (runProd cap stop t2 p) c2) := by
  rw [run_runProd, run_runProd]
  cases p with
  | start r =>
    have hr : r ≠ .GherkinDocument := by
      simp only [okProds, Bool.and_true, bne_iff_ne, ne_eq] at hp
      exact hp
    exact .inl ⟨_, _, _, _, rfl, rfl, trivial,
      ⟨hc.errors, hc.μ, hc.β.startRule hr, hc.ids, hc.unexpected, hc.sane⟩, ⟨rfl, rfl⟩, ⟨rfl, rfl⟩⟩
  | end_ r =>
    have hlen : 3 ≤ c1.β.stack.length := by
      simp only [okProds, Bool.and_true, decide_eq_true_eq] at hp
      exact hp
    simp only []
    rw [hc.ids]
    obtain ⟨h1, h2, h3, -⟩ := hc.β.endRule hlen c1.ids
    rw [h1, h3]
    have hc' : CtxR D k xo { c1 with β := (c1.β.endRule c1.ids).2.1, ids := (c1.β.endRule c1.ids).2.2 }
        { c2 with β := (c2.β.endRule c1.ids).2.1, ids := (c1.β.endRule c1.ids).2.2 } :=
      ⟨hc.errors, hc.μ, h2, rfl, hc.unexpected, hc.sane⟩
    exact (csim_liftB cap stop _ _ _ hc' hl).frame2 ⟨rfl, rfl⟩ |>.frame1 ⟨rfl, rfl⟩
  | build =>
    simp only []
    obtain ⟨htm, hln⟩ := ht rfl
    rcases hc.β.build htm hln with ⟨w, e1, e2⟩ | ⟨β1, β2, e1, e2, hβ⟩
    · rw [e1, e2]
      exact csim_liftB cap stop (.error (.crash w)) c1 c2 hc hl
    · rw [e1, e2]
      exact .inl ⟨_, _, _, _, rfl, rfl, trivial,
        ⟨hc.errors, hc.μ, hβ, hc.ids, hc.unexpected, hc.sane⟩, ⟨rfl, rfl⟩, ⟨rfl, rfl⟩⟩

theorem csim_runProds (cap : Nat) (stop : Bool) {t1 t2 : Token} (ht : TokMap (insertMap k) t1 t2)
    (hln : LineOk k xo t1.lineNo) :
    ∀ (ps : List Prod) (c1 c2 : Ctx), CtxR D k xo c1 c2 → LinesIns b k c1.lines c1.lineNo c2.lines c2.lineNo →
      okProds ps c1.β.stack.length = true →
      PostC D k xo (fun _ _ => True) c1 c2 (run (runProds cap stop t1 ps) c1) (run (runProds cap stop t2 ps) c2) := by
  intro ps
  induction ps with
  | nil => intro c1 c2 hc _ _; exact .inl ⟨_, _, c1, c2, rfl, rfl, trivial, hc, Frame.refl _, Frame.refl _⟩
  | cons p ps ih =>
    intro c1 c2 hc hl hp
    obtain ⟨hp1, hp2⟩ := okProds_cons hp
    unfold runProds
    rw [prun_bind, prun_bind]
    rcases csim_runProd cap stop p (fun _ => ⟨ht, hln⟩) c1 c2 hc hl hp1 with
      ⟨a1, a2, c1', c2', e1, e2, -, hc', fr1, fr2⟩ | ⟨e, c1', c2', e1, e2, hc'⟩
    · have hd := depthTo_runProd cap stop t1 p c1 a1 c1' e1
      rw [e1, e2]
      have hl' : LinesIns b k c1'.lines c1'.lineNo c2'.lines c2'.lineNo := by
        rw [fr1.1, fr1.2, fr2.1, fr2.2]; exact hl
      exact ((ih c1' c2' hc' hl' (by rw [hd]; exact hp2)).frame1 fr1).frame2 fr2
    · rw [e1, e2]
      exact .inr ⟨e, c1', c2', rfl, rfl, hc'⟩

/-! ### `match_token` -/

theorem matchP_lineNo (cap : Nat) (stop : Bool) (K : Kind) (t : Token) (c : Ctx) (r : Bool × Token) (c' : Ctx)
    (h : run (matchP D cap stop K t) c = (.ok r, c')) : r.2.lineNo = t.lineNo := by
  rw [run_matchP] at h
  simp only [] at h
  have hn := matchTok_lineNo' (D := D) K c.μ t
  split at h
  · cases h; exact hn
  · cases h; exact hn
  · split at h
    · cases h
    · rename_i e _ _
      rcases hr : run (addError cap e)
        { c with μ := (matchTok D K c.μ t).1.μ, calls := c.calls + (if (matchTok D K c.μ t).2 then 1 else 0) }
        with ⟨x, c2⟩
      rw [hr] at h
      cases x with
      | error e => cases h
      | ok u => cases h; exact hn

theorem run_beta {α} {m : PM α} (hk : KeepsB m) {c c' : Ctx} {r : Except Abort α} (h : run m c = (r, c')) :
    c'.β = c.β := by
  have := hk c
  rw [h] at this
  exact this

theorem csim_tryBranchesPure (hD : Spec.stepKeywordsOk D = true) (hP : Spec.keywordsPlainStart D = true) {T : Table}
    (hL : ∀ (i : Nat) (la : LookAhead), T.lookaheads[i]? = some la → LaOkC la) {r : Str}
    (hb : trimmed b = 35 :: r) (stop : Bool) (row : StateRow) (d0 : Nat) :
    ∀ (bs : List Branch), (∀ br ∈ bs, okProds br.prods d0 = true) → ∀ {t1 t2 : Token}, TokIns k t1 t2 →
      LineOk k xo t1.lineNo → ∀ (c1 c2 : Ctx), CtxR D k xo c1 c2 →
      LinesIns b k c1.lines c1.lineNo c2.lines c2.lineNo → c1.β.stack.length = d0 →
      PostC D k xo Eq c1 c2 (run (tryBranchesPure D T stop row bs t1) c1)
        (run (tryBranchesPure D T stop row bs t2) c2) := by
  intro bs
  induction bs with
  | nil =>
    intro _ t1 t2 ht _ c1 c2 hc hl _
    have key : SimC D b k xo Eq (tryBranchesPure D T stop row [] t1) (tryBranchesPure D T stop row [] t2) := by
      unfold tryBranchesPure
      rw [unexpectedErr_ins row ht]
      have hno : t2.lineNo = (insertMap k).ln t1.lineNo := by rw [ht]; rfl
      rw [hno]
      refine SimC.bind (SimC.modify (fun c1 c2 hc => ?_) (fun _ => ⟨rfl, rfl⟩) (fun _ => ⟨rfl, rfl⟩)) fun _ _ _ => ?_
      · exact ⟨hc.errors, hc.μ, hc.β, hc.ids, by simp [hc.unexpected], hc.sane⟩
      · cases stop with
        | true => exact SimC.throw (.single _)
        | false =>
          simp only [Bool.false_eq_true, ↓reduceIte]
          exact SimC.bind (csim_addError _ _) fun _ _ _ => SimC.pure rfl
    exact key c1 c2 hc hl
  | cons br bs ih =>
    intro hbs t1 t2 ht hln c1 c2 hc hl hd
    have hbs' : ∀ b' ∈ bs, okProds b'.prods d0 = true := fun b' h => hbs b' (List.mem_cons_of_mem _ h)
    unfold tryBranchesPure
    rw [prun_bind, prun_bind]
    rcases csim_matchP T.errorCap stop br.kind ht c1 c2 hc hl with
      ⟨⟨m1, t1'⟩, ⟨m2, t2'⟩, c1', c2', e1, e2, ⟨hm, ht', hcol⟩, hc', fr1, fr2⟩ | ⟨e, c1', c2', e1, e2, hc'⟩
    · simp only at hm ht' hcol
      subst hm
      have hβ1 : c1'.β = c1.β := run_beta (keepsB_matchP D T.errorCap stop br.kind t1) e1
      have hd1 : c1'.β.stack.length = d0 := by rw [hβ1]; exact hd
      have hln' : LineOk k xo t1'.lineNo := by
        rw [show t1'.lineNo = t1.lineNo from matchP_lineNo _ _ _ _ _ _ _ e1]; exact hln
      have hl' : LinesIns b k c1'.lines c1'.lineNo c2'.lines c2'.lineNo := by
        rw [fr1.1, fr1.2, fr2.1, fr2.2]; exact hl
      rw [e1, e2]
      simp only []
      -- the productions of the branch, then its target
      have take : ∀ (d1 d2 : Ctx), CtxR D k xo d1 d2 → LinesIns b k d1.lines d1.lineNo d2.lines d2.lineNo →
          d1.β.stack.length = d0 → m1 = true →
          PostC D k xo Eq d1 d2
            (run (do runProds T.errorCap stop t1' br.prods; Pure.pure br.target : PM Nat) d1)
            (run (do runProds T.errorCap stop t2' br.prods; Pure.pure br.target : PM Nat) d2) := by
        intro d1 d2 hdc hdl hdd hm1
        rw [prun_bind, prun_bind]
        rcases csim_runProds T.errorCap stop (ht'.tokMap (hcol hm1)) hln' br.prods d1 d2 hdc hdl
            (by rw [hdd]; exact hbs br List.mem_cons_self) with
          ⟨_, _, d1', d2', r1, r2, -, hc'', g1, g2⟩ | ⟨e, d1', d2', r1, r2, hc''⟩
        · rw [r1, r2]
          exact .inl ⟨_, _, d1', d2', rfl, rfl, rfl, hc'', g1, g2⟩
        · rw [r1, r2]
          exact .inr ⟨e, d1', d2', rfl, rfl, hc''⟩
      cases m1 with
      | false =>
        simp only [Bool.false_eq_true, ↓reduceIte]
        exact ((ih hbs' ht' hln' c1' c2' hc' hl' hd1).frame1 fr1).frame2 fr2
      | true =>
        simp only [↓reduceIte]
        cases hg : br.guard with
        | none =>
          simp only []
          rw [prun_bind, prun_bind, prun_pure, prun_pure]
          simp only [↓reduceIte]
          exact ((take c1' c2' hc' hl' hd1 rfl).frame1 fr1).frame2 fr2
        | some i =>
          simp only []
          cases hla : T.lookaheads[i]? with
          | none =>
            simp only []
            rw [prun_bind, prun_bind, prun_throw, prun_throw]
            exact .inr ⟨_, _, _, rfl, rfl, hc'⟩
          | some la =>
            simp only []
            rw [prun_bind, prun_bind]
            rcases csim_lookaheadPure hD hP T.errorCap stop (hL i la hla) hb c1' c2' hc' hl' with
              ⟨o1, o2, c1'', c2'', q1, q2, ho, hc'', g1, g2⟩ | ⟨e, c1'', c2'', q1, q2, hc''⟩
            · subst ho
              have hβ2 : c1''.β = c1'.β := run_beta (keepsB_lookaheadPure D T.errorCap stop la) q1
              have hd2 : c1''.β.stack.length = d0 := by rw [hβ2]; exact hd1
              have hl'' : LinesIns b k c1''.lines c1''.lineNo c2''.lines c2''.lineNo := by
                rw [g1.1, g1.2, g2.1, g2.2]; exact hl'
              rw [q1, q2]
              simp only []
              cases o1 with
              | true =>
                simp only [↓reduceIte]
                exact ((take c1'' c2'' hc'' hl'' hd2 rfl).frame1 (fr1.trans g1)).frame2 (fr2.trans g2)
              | false =>
                simp only [Bool.false_eq_true, ↓reduceIte]
                exact ((ih hbs' ht' hln' c1'' c2'' hc'' hl'' hd2).frame1 (fr1.trans g1)).frame2 (fr2.trans g2)
            · rw [q1, q2]
              exact .inr ⟨_, _, _, rfl, rfl, hc''⟩
    · rw [e1, e2]
      exact .inr ⟨e, c1', c2', rfl, rfl, hc'⟩

/-- the table facts the simulation uses -/
structure TableOkC (T : Table) (ds : List (Nat × Nat)) : Prop where
  la : ∀ (i : Nat) (la : LookAhead), T.lookaheads[i]? = some la → LaOkC la
  depths : Spec.depthsOk T ds = true
  prods : Spec.prodsOk T ds = true

theorem csim_matchTokenPure (hD : Spec.stepKeywordsOk D = true) (hP : Spec.keywordsPlainStart D = true) {T : Table}
    {ds : List (Nat × Nat)} (hT : TableOkC T ds) {r : Str} (hb : trimmed b = 35 :: r) (stop : Bool) (state : Nat)
    {t1 t2 : Token} (ht : TokIns k t1 t2) (hln : LineOk k xo t1.lineNo) (c1 c2 : Ctx) (hc : CtxR D k xo c1 c2)
    (hl : LinesIns b k c1.lines c1.lineNo c2.lines c2.lineNo) (hd : c1.β.stack.length = depthAt ds state) :
    PostC D k xo Eq c1 c2 (run (matchTokenPure D T stop state t1) c1) (run (matchTokenPure D T stop state t2) c2) := by
  unfold matchTokenPure
  cases hrow : T.row? state with
  | none => exact SimC.throw (.crash _) c1 c2 hc hl
  | some row =>
    simp only []
    have hmem : row ∈ T.rows := List.mem_of_find?_eq_some hrow
    have hid : row.id = state := by
      have := List.find?_some hrow
      simpa using this
    have hp := hT.prods
    unfold Spec.prodsOk at hp
    rw [List.all_eq_true] at hp
    have h1 := hp row hmem
    rw [List.all_eq_true, hid] at h1
    exact csim_tryBranchesPure hD hP hT.la hb stop row _ row.branches h1 ht hln c1 c2 hc hl hd

/-! ### the main loop -/

/-- both loops end the same way, in related contexts -/
def PostLC (D : List Dialect) (k : Nat) (xo : Option Comment) {α} (Q : α → Ctx → Ctx → Prop)
    (x1 x2 : Except Abort α × Ctx) : Prop :=
  (∃ a c1' c2', x1 = (.ok a, c1') ∧ x2 = (.ok a, c2') ∧ CtxR D k xo c1' c2' ∧ Q a c1' c2') ∨
  (∃ e c1' c2', x1 = (.error e, c1') ∧ x2 = (.error (mapAbort (insertMap k) e), c2') ∧ ∃ xo', CtxR D k xo' c1' c2')

/-- phase A: both runs consume the lines before the insertion point -/
theorem csim_prefix (hD : Spec.stepKeywordsOk D = true) (hP : Spec.keywordsPlainStart D = true) {T : Table}
    {ds : List (Nat × Nat)} (hT : TableOkC T ds) {r : Str} (hb : trimmed b = 35 :: r) (stop : Bool)
    (q : List Str) :
    ∀ (p : List Str) (s : Nat) (c1 c2 : Ctx), CtxR D k none c1 c2 → c1.lines = p ++ q → c2.lines = p ++ b :: q →
      c2.lineNo = c1.lineNo → c1.lineNo + p.length = k → c1.β.stack.length = depthAt ds s →
      PostLC D k none (fun a c1' c2' => a.2 = false ∧ c1'.lines = q ∧ c2'.lines = b :: q ∧ c1'.lineNo = k ∧
          c2'.lineNo = k ∧ c1'.β.stack.length = depthAt ds a.1)
        (run (parsePrefixPure D T stop p.length s) c1) (run (parsePrefixPure D T stop p.length s) c2) := by
  intro p
  induction p with
  | nil =>
    intro s c1 c2 hc h1 h2 hn hk hd
    exact .inl ⟨(s, false), c1, c2, rfl, rfl, hc, rfl, h1, h2, by simpa using hk, by rw [hn]; simpa using hk, hd⟩
  | cons l p ih =>
    intro s c1 c2 hc h1 h2 hn hk hd
    simp only [List.length_cons, List.cons_append] at hk h1 h2 ⊢
    rw [run_prefix_cons T stop _ s c1 h1, run_prefix_cons T stop _ s c2 h2, hn]
    have ht : TokIns k { line := some l, lineNo := c1.lineNo + 1 } { line := some l, lineNo := c1.lineNo + 1 } := by
      unfold TokIns reNo; simp only [insertMap_ln_le k (show c1.lineNo + 1 ≤ k by omega)]
    have hc' : CtxR D k none
        { c1 with lines := p ++ q, lineNo := c1.lineNo + 1, reads := c1.reads ++ [c1.lineNo + 1] }
        { c2 with lines := p ++ b :: q, lineNo := c1.lineNo + 1, reads := c2.reads ++ [c1.lineNo + 1] } :=
      ⟨hc.errors, hc.μ, hc.β, hc.ids, hc.unexpected, hc.sane⟩
    rcases csim_matchTokenPure hD hP hT hb stop s ht (xo := none) (show c1.lineNo + 1 ≤ k by omega) _ _ hc'
        (.inl ⟨rfl, p, q, rfl, rfl, by simp only; omega⟩) hd with
      ⟨s1, s2, c1', c2', e1, e2, hs, hc'', fr1, fr2⟩ | ⟨e, c1', c2', e1, e2, hc''⟩
    · have hd' := depth_matchTokenPure D hT.depths stop s _
        { c1 with lines := p ++ q, lineNo := c1.lineNo + 1, reads := c1.reads ++ [c1.lineNo + 1] } s1 c1' hd e1
      rw [e1, e2]
      subst hs
      exact ih s1 c1' c2' hc'' fr1.1 fr2.1 (by rw [fr1.2, fr2.2]) (by rw [fr1.2]; simp only; omega) hd'
    · rw [e1, e2]
      exact .inr ⟨e, c1', c2', rfl, rfl, none, hc''⟩

/-- phase C: both runs consume the lines after the inserted one -/
theorem csim_rest (hD : Spec.stepKeywordsOk D = true) (hP : Spec.keywordsPlainStart D = true) {T : Table}
    {ds : List (Nat × Nat)} (hT : TableOkC T ds) {r : Str} (hb : trimmed b = 35 :: r) (stop : Bool) (x : Comment) :
    ∀ (fuel s : Nat) (c1 c2 : Ctx), CtxR D k (some x) c1 c2 → c2.lines = c1.lines → c2.lineNo = c1.lineNo + 1 →
      k ≤ c1.lineNo → c1.β.stack.length = depthAt ds s →
      PostLC D k (some x) (fun a c1' c2' => LinesIns b k c1'.lines c1'.lineNo c2'.lines c2'.lineNo ∧
          c1'.β.stack.length = depthAt ds a)
        (run (parseLinesPure D T stop fuel s) c1) (run (parseLinesPure D T stop fuel s) c2) := by
  intro fuel
  induction fuel with
  | zero =>
    intro s c1 c2 hc _ _ _ _
    exact .inr ⟨.fuel, c1, c2, rfl, rfl, _, hc⟩
  | succ fuel ih =>
    intro s c1 c2 hc hls hn hk hd
    cases h1 : c1.lines with
    | nil =>
      have h2 : c2.lines = [] := by rw [hls, h1]
      rw [run_lines_nil T stop _ s c1 h1, run_lines_nil T stop _ s c2 h2, hn]
      have ht : TokIns k { line := none, lineNo := c1.lineNo + 1 } { line := none, lineNo := c1.lineNo + 1 + 1 } := by
        unfold TokIns reNo; simp only [insertMap_ln_gt k (show k < c1.lineNo + 1 by omega)]
      have hc' : CtxR D k (some x)
          { c1 with lineNo := c1.lineNo + 1, reads := c1.reads ++ [c1.lineNo + 1] }
          { c2 with lineNo := c1.lineNo + 1 + 1, reads := c2.reads ++ [c1.lineNo + 1 + 1] } :=
        ⟨hc.errors, hc.μ, hc.β, hc.ids, hc.unexpected, hc.sane⟩
      have hl' : LinesIns b k c1.lines (c1.lineNo + 1) c2.lines (c1.lineNo + 1 + 1) :=
        .inr ⟨rfl, by omega, hls⟩
      rcases csim_matchTokenPure hD hP hT hb stop s ht (xo := some x) (show k < c1.lineNo + 1 by omega) _ _ hc' hl' hd with
        ⟨s1, s2, c1', c2', e1, e2, hs, hc'', fr1, fr2⟩ | ⟨e, c1', c2', e1, e2, hc''⟩
      · have hd' := depth_matchTokenPure D hT.depths stop s _
          { c1 with lineNo := c1.lineNo + 1, reads := c1.reads ++ [c1.lineNo + 1] } s1 c1' hd e1
        rw [e1, e2]
        subst hs
        refine .inl ⟨s1, c1', c2', rfl, rfl, hc'', ?_, hd'⟩
        show LinesIns b k c1'.lines c1'.lineNo c2'.lines c2'.lineNo
        rw [fr1.1, fr1.2, fr2.1, fr2.2]; exact hl'
      · rw [e1, e2]
        exact .inr ⟨e, c1', c2', rfl, rfl, _, hc''⟩
    | cons l ls =>
      have h2 : c2.lines = l :: ls := by rw [hls, h1]
      rw [run_lines_cons T stop _ s c1 h1, run_lines_cons T stop _ s c2 h2, hn]
      have ht : TokIns k { line := some l, lineNo := c1.lineNo + 1 } { line := some l, lineNo := c1.lineNo + 1 + 1 } := by
        unfold TokIns reNo; simp only [insertMap_ln_gt k (show k < c1.lineNo + 1 by omega)]
      have hc' : CtxR D k (some x)
          { c1 with lines := ls, lineNo := c1.lineNo + 1, reads := c1.reads ++ [c1.lineNo + 1] }
          { c2 with lines := ls, lineNo := c1.lineNo + 1 + 1, reads := c2.reads ++ [c1.lineNo + 1 + 1] } :=
        ⟨hc.errors, hc.μ, hc.β, hc.ids, hc.unexpected, hc.sane⟩
      rcases csim_matchTokenPure hD hP hT hb stop s ht (xo := some x) (show k < c1.lineNo + 1 by omega) _ _ hc'
          (.inr ⟨rfl, by simp only; omega, rfl⟩) hd with
        ⟨s1, s2, c1', c2', e1, e2, hs, hc'', fr1, fr2⟩ | ⟨e, c1', c2', e1, e2, hc''⟩
      · have hd' := depth_matchTokenPure D hT.depths stop s _
          { c1 with lines := ls, lineNo := c1.lineNo + 1, reads := c1.reads ++ [c1.lineNo + 1] } s1 c1' hd e1
        rw [e1, e2]
        subst hs
        exact ih s1 c1' c2' hc'' (by rw [fr1.1, fr2.1]) (by rw [fr1.2, fr2.2]) (by rw [fr1.2]; simp only; omega) hd'
      · rw [e1, e2]
        exact .inr ⟨e, c1', c2', rfl, rfl, _, hc''⟩

/-! ### phase B: the second run reads the inserted comment line -/

/-- the token the test `Comment` makes of a `#` line -/
def commentTok (μ : MState) (t : Token) (l : Str) : Token := setMatched μ t .Comment (text := some l) (indent := some 0)

/-- `match_token` on a comment line, in a list of tests whose first `Comment`/`Other` test is an
    unguarded build-only `Comment` test with target `s`: the tests before it fail, the `Comment`
    test succeeds, the token is built, the new state is `s` -/
theorem tryBranchesPure_comment (T : Table) (stop : Bool) (row : StateRow) (μ : MState)
    {t : Token} {l r : Str} (hl : t.line = some l) (hb : trimmed l = 35 :: r) (hkw : KwOk μ) (hsep : SepOk μ)
    (s : Nat) :
    ∀ (bs : List Branch) (b0 : Branch), bs.find? (fun br => passes .Comment br.kind) = some b0 →
      b0.kind = .Comment → b0.target = s → b0.prods = [.build] → b0.guard = none →
      ((∃ br ∈ bs, br.kind = .Language) → languageRe (lineText l none) = none) → ∀ c : Ctx, c.μ = μ →
      ∃ n, run (tryBranchesPure D T stop row bs t) c =
        match run (runProd T.errorCap stop (commentTok μ t l) .build) { c with calls := c.calls + (n + 1) } with
        | (.ok _, c') => (.ok s, c')
        | (.error e, c') => (.error e, c') := by
  intro bs
  induction bs with
  | nil => intro b0 hf; cases hf
  | cons br bs ih =>
    intro b0 hf hk ht hp hg hlang c hμ
    simp only [List.find?] at hf
    cases he : passes .Comment br.kind with
    | true =>
      rw [he] at hf
      cases hf
      have hs : lineStartsWith l [35] = true := by unfold lineStartsWith; rw [hb]; rfl
      have e : matchTok D br.kind c.μ t = (⟨commentTok μ t l, μ, .matched⟩, true) := by
        unfold matchTok; rw [hl, hk, hμ]; simp only [matchLine, hs, ↓reduceIte]; rfl
      refine ⟨0, ?_⟩
      unfold tryBranchesPure
      rw [prun_bind, run_matchP]
      simp only [e, hg, ↓reduceIte, prun_bind, prun_pure, hp, runProds]
      have ec : ({ c with μ := μ, calls := c.calls + 1 } : Ctx) = { c with calls := c.calls + (0 + 1) } := by
        rw [← hμ]
      rw [ec]
      rcases run (runProd T.errorCap stop (commentTok μ t l) Prod.build) { c with calls := c.calls + (0 + 1) } with ⟨x, c'⟩
      cases x with
      | ok a => simp only [ht]
      | error e => rfl
    | false =>
      rw [he] at hf
      have hne : br.kind ≠ .Comment ∧ br.kind ≠ .Other := by
        rw [passes_comment] at he
        simp only [Bool.or_eq_false_iff, beq_eq_false_iff_ne, ne_eq] at he
        exact he
      have e : matchTok D br.kind c.μ t = (⟨t, μ, .no⟩, true) := by
        unfold matchTok; rw [hl, hμ]; simp only []
        by_cases hL : br.kind = .Language
        · rw [hL]
          have := hlang ⟨br, List.mem_cons_self, hL⟩
          simp only [matchLine, this]
        · rw [matchLine_hash_no D br.kind μ t hb ⟨hne.1, hne.2, hL⟩ hkw.1 hkw.2 hsep]
      obtain ⟨n, hn⟩ := ih b0 hf hk ht hp hg
        (fun ⟨b', hb', hk'⟩ => hlang ⟨b', List.mem_cons_of_mem _ hb', hk'⟩) { c with calls := c.calls + 1 } hμ
      refine ⟨n + 1, ?_⟩
      unfold tryBranchesPure
      rw [prun_bind, run_matchP]
      simp only [e, ↓reduceIte, Bool.false_eq_true]
      have ec : ({ c with μ := μ, calls := c.calls + 1 } : Ctx) = { c with calls := c.calls + 1 } := by
        rw [← hμ]
      rw [ec, hn]
      have ec2 : ({ c with calls := c.calls + 1 + (n + 1) } : Ctx) = { c with calls := c.calls + (n + 1 + 1) } := by
        have : c.calls + 1 + (n + 1) = c.calls + (n + 1 + 1) := by omega
        rw [this]
      show (match run (runProd T.errorCap stop (commentTok μ t l) Prod.build) { c with calls := c.calls + 1 + (n + 1) } with
        | (.ok _, c') => (Except.ok s, c')
        | (.error e, c') => (.error e, c')) = _
      rw [ec2]

/-- … for a state of the table whose comment test is a build-only self-loop -/
theorem matchTokenPure_comment (T : Table) (stop : Bool) {s : Nat} (hs : Spec.commentSelfLoop T s = true)
    {t : Token} {l r : Str} (hl : t.line = some l) (hb : trimmed l = 35 :: r) (c : Ctx) (hkw : KwOk c.μ)
    (hsep : SepOk c.μ) (hlang : Spec.languageTested T s = true → languageRe (lineText l none) = none) :
    ∃ n, run (matchTokenPure D T stop s t) c =
      match run (runProd T.errorCap stop (commentTok c.μ t l) .build) { c with calls := c.calls + (n + 1) } with
      | (.ok _, c') => (.ok s, c')
      | (.error e, c') => (.error e, c') := by
  unfold Spec.commentSelfLoop at hs
  unfold Spec.languageTested at hlang
  unfold matchTokenPure
  cases hrow : T.row? s with
  | none => rw [hrow] at hs; cases hs
  | some row =>
    rw [hrow] at hs hlang
    simp only [] at hs hlang ⊢
    unfold commentBranch at hs
    cases hfind : row.branches.find? (fun b => passes .Comment b.kind) with
    | none => rw [hfind] at hs; cases hs
    | some b0 =>
      rw [hfind] at hs
      simp only [Bool.and_eq_true, beq_iff_eq, Option.isNone_iff_eq_none] at hs
      obtain ⟨⟨⟨hk, hg⟩, hp⟩, htg⟩ := hs
      refine tryBranchesPure_comment T stop row c.μ hl hb hkw hsep s row.branches b0 hfind hk htg hp hg
        (fun ⟨br, hbr, hkL⟩ => hlang ?_) c rfl
      rw [List.any_eq_true]
      exact ⟨br, hbr, by rw [hkL]; rfl⟩

/-- the second run reads the inserted comment: it comes back to the same state with the line read
    and the comment in the builder's list -/
theorem comment_step (hD : Spec.stepKeywordsOk D = true) (hP : Spec.keywordsPlainStart D = true) {T : Table}
    {r : Str} (hb : trimmed b = 35 :: r) (stop : Bool) {s : Nat} (hs : Spec.commentSelfLoop T s = true)
    (hlang : Spec.languageTested T s = true → languageRe (lineText b none) = none) (fuel : Nat)
    {c1 c2 : Ctx} (hc : CtxR D k none c1 c2) {q : List Str} (h2 : c2.lines = b :: q) :
    ∃ c2', run (parseLinesPure D T stop (fuel + 1) s) c2 = run (parseLinesPure D T stop fuel s) c2' ∧
      CtxR D k (some ⟨⟨c2.lineNo + 1, some 1⟩, rstripCRLF b⟩) c1 c2' ∧ c2'.lines = q ∧ c2'.lineNo = c2.lineNo + 1 := by
  rw [run_lines_cons T stop fuel s c2 h2]
  have hsane : Sane D c2.μ := hc.μ ▸ hc.sane
  have hkw := kwOk_of hD hP hsane
  obtain ⟨n, hn⟩ := matchTokenPure_comment (D := D) T stop hs (t := { line := some b, lineNo := c2.lineNo + 1 })
    rfl hb { c2 with lines := q, lineNo := c2.lineNo + 1, reads := c2.reads ++ [c2.lineNo + 1] } hkw hsane.1 hlang
  rw [hn, run_runProd]
  simp only []
  obtain ⟨β2', e2, hβ⟩ := hc.β.build_extra
    (t := commentTok c2.μ { line := some b, lineNo := c2.lineNo + 1 } b) (tx := rstripCRLF b) rfl rfl
  rw [e2]
  exact ⟨_, rfl, ⟨hc.errors, hc.μ, hβ, hc.ids, hc.unexpected, hc.sane⟩, rfl, rfl⟩

/-! ### the whole parse -/

theorem csim_lines (hD : Spec.stepKeywordsOk D = true) (hP : Spec.keywordsPlainStart D = true) {T : Table}
    {ds : List (Nat × Nat)} (hT : TableOkC T ds) {r : Str} (hb : trimmed b = 35 :: r)
    (stop : Bool) (pre post : List Str) {c1 c2 : Ctx} (hc : CtxR D pre.length none c1 c2)
    (h1 : c1.lines = pre ++ post) (h2 : c2.lines = pre ++ b :: post) (hn1 : c1.lineNo = 0) (hn2 : c2.lineNo = 0)
    (hd : c1.β.stack.length = depthAt ds 0)
    (hst : ∀ s flag c, run (parsePrefixPure D T stop pre.length 0) c1 = (.ok (s, flag), c) →
      Spec.commentSelfLoop T s = true ∧ (Spec.languageTested T s = true → languageRe (lineText b none) = none)) :
    PostLC D pre.length (some ⟨⟨pre.length + 1, some 1⟩, rstripCRLF b⟩) (fun _ _ _ => True)
      (run (parseLinesPure D T stop ((pre ++ post).length + 2) 0) c1)
      (run (parseLinesPure D T stop ((pre ++ b :: post).length + 2) 0) c2) := by
  have e1 : (pre ++ post).length + 2 = pre.length + (post.length + 2) := by simp; omega
  have e2 : (pre ++ b :: post).length + 2 = pre.length + (post.length + 2 + 1) := by simp; omega
  rw [e1, e2, parseLinesPure_split, parseLinesPure_split, prun_bind, prun_bind]
  rcases csim_prefix hD hP hT hb stop post pre 0 c1 c2 hc h1 h2 (by rw [hn1, hn2]) (by rw [hn1]; simp) hd with
    ⟨a, c1', c2', r1, r2, hc', hflag, hl1, hl2, hno1, hno2, hd'⟩ | ⟨e, c1', c2', r1, r2, xo', hc'⟩
  · obtain ⟨hs, hlang⟩ := hst a.1 a.2 c1' r1
    rw [r1, r2]
    simp only [hflag, Bool.false_eq_true, if_false]
    obtain ⟨c2'', hr, hc'', hl2', hno2'⟩ := comment_step hD hP hb stop hs hlang (post.length + 2) hc' hl2
    rw [hr, hno2] at *
    rcases csim_rest hD hP hT hb stop _ _ _ c1' c2'' hc'' (by rw [hl2', hl1]) (by rw [hno2', hno1])
        (by rw [hno1]; exact Nat.le_refl _) hd' with
      ⟨a', d1, d2, q1, q2, hq, -⟩ | ⟨e, d1, d2, q1, q2, hq⟩
    · rw [q1, q2]; exact .inl ⟨a', d1, d2, rfl, rfl, hq, trivial⟩
    · rw [q1, q2]; exact .inr ⟨e, d1, d2, rfl, rfl, hq⟩
  · rw [r1, r2]
    exact .inr ⟨e, c1', c2', rfl, rfl, xo', hc'⟩

theorem CtxR.obs {c1 c2 : Ctx} (h : CtxR D k xo c1 c2) : CtxObs (insertMap k) c1 c2 :=
  ⟨h.errors, h.μ, h.ids, h.unexpected⟩

/-- `add_error` on contexts of which only the observable part is related -/
theorem addError_obs (cap : Nat) (e : PErr) {c1 c2 : Ctx} (hc : CtxObs (insertMap k) c1 c2) :
    (∃ c1' c2', run (addError cap e) c1 = (.ok (), c1') ∧
      run (addError cap (mapErr (insertMap k) e)) c2 = (.ok (), c2') ∧ CtxObs (insertMap k) c1' c2' ∧
      c1'.β = c1.β ∧ c2'.β = c2.β) ∨
    (∃ a c1' c2', run (addError cap e) c1 = (.error a, c1') ∧
      run (addError cap (mapErr (insertMap k) e)) c2 = (.error (mapAbort (insertMap k) a), c2') ∧
      CtxObs (insertMap k) c1' c2') := by
  rw [run_addError, run_addError, hc.errors]
  have hany : (c1.errors.map (mapErr (insertMap k))).any
      (fun e' => e'.message == (mapErr (insertMap k) e).message) =
      c1.errors.any (fun e' => e'.message == e.message) := by
    rw [List.any_map]
    congr 1
    funext e'
    exact insertMap_msg k e e'
  have hlen : (c1.errors.map (mapErr (insertMap k)) ++ [mapErr (insertMap k) e]).length =
      (c1.errors ++ [e]).length := by simp
  have hc' : CtxObs (insertMap k) { c1 with errors := c1.errors ++ [e] }
      { c2 with errors := c1.errors.map (mapErr (insertMap k)) ++ [mapErr (insertMap k) e] } :=
    ⟨by simp, hc.μ, hc.ids, hc.unexpected⟩
  rw [hany, hlen]
  split
  · exact .inl ⟨_, _, rfl, rfl, hc, rfl, rfl⟩
  · split
    · refine .inr ⟨_, _, _, rfl, ?_, hc'⟩
      simp [mapAbort]
    · exact .inl ⟨_, _, rfl, rfl, hc', rfl, rfl⟩

theorem liftB_obs (cap : Nat) (stop : Bool) (r : Except BErr Unit) {c1 c2 : Ctx} (hc : CtxObs (insertMap k) c1 c2) :
    (∃ c1' c2', run (liftB cap stop r) c1 = (.ok (), c1') ∧
      run (liftB cap stop (r.mapError (mapBErr (insertMap k)))) c2 = (.ok (), c2') ∧ CtxObs (insertMap k) c1' c2' ∧
      c1'.β = c1.β ∧ c2'.β = c2.β) ∨
    (∃ a c1' c2', run (liftB cap stop r) c1 = (.error a, c1') ∧
      run (liftB cap stop (r.mapError (mapBErr (insertMap k)))) c2 = (.error (mapAbort (insertMap k) a), c2') ∧
      CtxObs (insertMap k) c1' c2') := by
  rw [run_liftB, run_liftB]
  rcases r with (w | e) | u
  · exact .inr ⟨_, _, _, rfl, rfl, hc⟩
  · simp only [Except.mapError, mapBErr]
    cases stop with
    | true => exact .inr ⟨_, _, _, rfl, rfl, hc⟩
    | false => exact addError_obs cap e hc
  · exact .inl ⟨_, _, rfl, rfl, hc, rfl, rfl⟩

/-- the renamed comment list with the inserted comment is what `insertComment` makes -/
theorem commRel_insert {x : Comment} {cs1 cs2 : List Comment} (h : CommRel (insertMap k) k (some x) cs1 cs2) :
    cs2 = (cs1.map (mapComment (insertMap k))).takeWhile (fun c => decide (c.loc.line ≤ k)) ++
      x :: (cs1.map (mapComment (insertMap k))).dropWhile (fun c => decide (c.loc.line ≤ k)) := by
  obtain ⟨A, B, e1, e2, hA, hB⟩ := h
  have pA : ∀ a ∈ A.map (mapComment (insertMap k)), decide (a.loc.line ≤ k) = true := by
    intro a ha
    obtain ⟨a0, ha0, rfl⟩ := List.mem_map.1 ha
    have := hA a0 ha0
    simp only [mapComment, insertMap_loc, decide_eq_true_eq, insertMap_ln_le k this]
    exact this
  have pB : ∀ b' ∈ B.map (mapComment (insertMap k)), decide (b'.loc.line ≤ k) = false := by
    intro b' hb'
    obtain ⟨b0, hb0, rfl⟩ := List.mem_map.1 hb'
    have := hB b0 hb0
    simp only [mapComment, insertMap_loc, decide_eq_false_iff_not, insertMap_ln_gt k this]
    omega
  have tw : ∀ (X Y : List Comment) (p : Comment → Bool), (∀ a ∈ X, p a = true) → (∀ b' ∈ Y, p b' = false) →
      (X ++ Y).takeWhile p = X ∧ (X ++ Y).dropWhile p = Y := by
    intro X Y p hX hY
    induction X with
    | nil =>
      cases Y with
      | nil => exact ⟨rfl, rfl⟩
      | cons y Y => simp [hY y List.mem_cons_self]
    | cons a X ih =>
      obtain ⟨i1, i2⟩ := ih fun a' h' => hX a' (List.mem_cons_of_mem _ h')
      simp [hX a List.mem_cons_self, i1, i2]
  obtain ⟨t1, t2⟩ := tw _ _ _ pA pB
  rw [e1, List.map_append, t1, t2, e2]

theorem csim_body (hD : Spec.stepKeywordsOk D = true) (hP : Spec.keywordsPlainStart D = true) {T : Table}
    {ds : List (Nat × Nat)} (hT : TableOkC T ds) {r : Str} (hb : trimmed b = 35 :: r)
    (stop : Bool) (pre post : List Str) {c1 c2 : Ctx}
    (hc : CtxR D pre.length none { c1 with β := c1.β.startRule T.startRule } { c2 with β := c2.β.startRule T.startRule })
    (h1 : c1.lines = pre ++ post) (h2 : c2.lines = pre ++ b :: post) (hn1 : c1.lineNo = 0) (hn2 : c2.lineNo = 0)
    (hd : (c1.β.startRule T.startRule).stack.length = depthAt ds 0)
    (hst : ∀ s flag c, run (parsePrefixPure D T stop pre.length 0) { c1 with β := c1.β.startRule T.startRule } =
      (.ok (s, flag), c) → Spec.commentSelfLoop T s = true ∧
        (Spec.languageTested T s = true → languageRe (lineText b none) = none)) :
    (∃ d c1' c2', run (parseBodyPure D T stop (pre ++ post).length) c1 = (.ok d, c1') ∧
      run (parseBodyPure D T stop (pre ++ b :: post).length) c2 =
        (.ok { feature := d.feature.map (mapFeature (insertMap pre.length)),
               comments := (d.comments.map (mapComment (insertMap pre.length))).takeWhile
                   (fun c => decide (c.loc.line ≤ pre.length)) ++
                 ⟨⟨pre.length + 1, some 1⟩, rstripCRLF b⟩ ::
                 (d.comments.map (mapComment (insertMap pre.length))).dropWhile
                   (fun c => decide (c.loc.line ≤ pre.length)) }, c2') ∧
      CtxObs (insertMap pre.length) c1' c2') ∨
    (∃ e c1' c2', run (parseBodyPure D T stop (pre ++ post).length) c1 = (.error e, c1') ∧
      run (parseBodyPure D T stop (pre ++ b :: post).length) c2 = (.error (mapAbort (insertMap pre.length) e), c2') ∧
      CtxObs (insertMap pre.length) c1' c2') := by
  unfold parseBodyPure
  rw [prun_bind, prun_bind, run_modify, run_modify]
  simp only []
  rw [prun_bind, prun_bind]
  rcases csim_lines hD hP hT hb stop pre post hc h1 h2 hn1 hn2 hd hst with
    ⟨a, c1', c2', r1, r2, hc', -⟩ | ⟨e, c1', c2', r1, r2, xo', hc'⟩
  · rw [r1, r2]
    simp only []
    rw [prun_bind, prun_bind, run_runProd, run_runProd]
    simp only []
    rw [hc'.ids]
    obtain ⟨q1, q2, -, hres⟩ := hc'.β.endRule_result c1'.ids
    rw [q1, q2]
    have ho : CtxObs (insertMap pre.length)
        { c1' with β := (c1'.β.endRule c1'.ids).2.1, ids := (c1'.β.endRule c1'.ids).2.2 }
        { c2' with β := (c2'.β.endRule c1'.ids).2.1, ids := (c1'.β.endRule c1'.ids).2.2 } :=
      ⟨hc'.errors, hc'.μ, rfl, hc'.unexpected⟩
    rcases liftB_obs T.errorCap stop (c1'.β.endRule c1'.ids).1 ho with
      ⟨d1, d2, p1, p2, hod, hb1, hb2⟩ | ⟨a', d1, d2, p1, p2, hod⟩
    · rw [p1, p2]
      simp only []
      rw [prun_bind, prun_bind, run_get, run_get]
      simp only []
      have hemp : d2.errors.isEmpty = d1.errors.isEmpty := by rw [hod.errors]; simp
      rw [hemp]
      by_cases he : (!d1.errors.isEmpty) = true
      · rw [if_pos he, if_pos he, prun_bind, prun_bind, prun_throw, prun_throw]
        refine .inr ⟨_, _, _, rfl, ?_, hod⟩
        simp only [mapAbort, hod.errors]
      · rw [if_neg he, if_neg he, hb1, hb2]
        simp only []
        rcases hres with ⟨z1, z2⟩ | ⟨x1, x2, z1, z2, hf, hcm⟩
        · rw [z1, z2]
          exact .inr ⟨_, _, _, rfl, rfl, hod⟩
        · rw [z1, z2]
          refine .inl ⟨x1, d1, d2, rfl, ?_, hod⟩
          have : x2 = Doc.mk (x1.feature.map (mapFeature (insertMap pre.length)))
              ((x1.comments.map (mapComment (insertMap pre.length))).takeWhile
                  (fun c => decide (c.loc.line ≤ pre.length)) ++
                ⟨⟨pre.length + 1, some 1⟩, rstripCRLF b⟩ ::
                (x1.comments.map (mapComment (insertMap pre.length))).dropWhile
                  (fun c => decide (c.loc.line ≤ pre.length))) := by
            cases x2 with
            | mk ft cm =>
              simp only at hf hcm
              rw [hf, commRel_insert hcm]
          rw [this]
          rfl
    · rw [p1, p2]
      exact .inr ⟨_, _, _, rfl, rfl, hod⟩
  · rw [r1, r2]
    exact .inr ⟨_, _, _, rfl, rfl, hc'.obs⟩

/-- **Whole queue-free parse.**  The text with the comment line `b` inserted after the first
    `pre.length` lines is parsed to the outcome of the original with the later line numbers moved
    down by one and the comment added to the document. -/
theorem parseWithPure_comment {D : List Dialect} (hD : Spec.stepKeywordsOk D = true)
    (hP : Spec.keywordsPlainStart D = true) {T : Table} {ds : List (Nat × Nat)} (hT : TableOkC T ds)
    {b : Str} (hb : lineStartsWith b [35] = true) (stop : Bool) (μ : MState) (ids : Nat) {src src' : Str}
    (pre post : List Str) (h1 : splitLines src = pre ++ post) (h2 : splitLines src' = pre ++ b :: post)
    (hμ : (μ.reset D).dialect ∈ D)
    (hst : ∀ s c, Spec.runAfter D T stop μ ids src pre.length = some (s, c) →
      Spec.commentSelfLoop T s = true ∧ (Spec.languageTested T s = true → languageRe (lineText b none) = none)) :
    (parseWithPure D T stop μ ids src').1 =
      insertComment pre.length ⟨⟨pre.length + 1, some 1⟩, rstripCRLF b⟩
        (mapOutcome (insertMap pre.length) (parseWithPure D T stop μ ids src).1) ∧
    CtxObs (insertMap pre.length) (parseWithPure D T stop μ ids src).2 (parseWithPure D T stop μ ids src').2 := by
  obtain ⟨r, hr⟩ := (startsWith_iff _ _).1 (show startsWith [35] (trimmed b) = true from hb)
  have hbr : trimmed b = 35 :: r := hr
  unfold parseWithPure
  simp only []
  rw [h1, h2]
  have h0 : depthAt ds 0 = 2 := by
    have := hT.depths
    unfold Spec.depthsOk at this
    simp only [Bool.and_eq_true, beq_iff_eq] at this
    exact this.1
  have hc0 : CtxR D pre.length none
      { ({ lines := pre ++ post, μ := μ.reset D, β := BState.reset, ids := ids } : Ctx) with
        β := BState.reset.startRule T.startRule }
      { ({ lines := pre ++ b :: post, μ := μ.reset D, β := BState.reset, ids := ids } : Ctx) with
        β := BState.reset.startRule T.startRule } :=
    ⟨rfl, rfl, BRel.start0 _ _, rfl, rfl, ⟨(by intro sep hsep; unfold MState.reset at hsep; cases hsep), hμ⟩⟩
  have hst' : ∀ s flag c, run (parsePrefixPure D T stop pre.length 0)
      { ({ lines := pre ++ post, μ := μ.reset D, β := BState.reset, ids := ids } : Ctx) with
        β := BState.reset.startRule T.startRule } = (.ok (s, flag), c) →
      Spec.commentSelfLoop T s = true ∧ (Spec.languageTested T s = true → languageRe (lineText b none) = none) := by
    intro s flag c hrun
    refine hst s c ?_
    unfold Spec.runAfter Spec.startCtx
    rw [h1]
    unfold run at hrun
    rw [hrun]
  rcases csim_body hD hP hT hbr stop pre post hc0 rfl rfl rfl rfl (by rw [h0]; rfl) hst' with
    ⟨d, c1', c2', r1, r2, hc'⟩ | ⟨e, c1', c2', r1, r2, hc'⟩
  · unfold run at r1 r2
    rw [r1, r2]
    exact ⟨rfl, hc'⟩
  · unfold run at r1 r2
    rw [r1, r2]
    cases e <;> exact ⟨rfl, hc'⟩

end simc

/-- **Inserting a comment line**, generic in the dialect table and the transition table. -/
theorem comment_line_parseWith {D : List Dialect} {T : Table} (hD : Spec.stepKeywordsOk D = true)
    (hQD : Spec.queueDialectFacts D = true) (hQT : Spec.queueFacts T = true)
    (hCB : Spec.commentBlankTested T = true) {ds : List (Nat × Nat)} (hT : TableOkC T ds)
    {b : Str} (hb : lineStartsWith b [35] = true) (stop : Bool) (μ : MState) (ids : Nat)
    {src src' : Str} (pre post : List Str)
    (h1 : splitLines src = pre ++ post) (h2 : splitLines src' = pre ++ b :: post)
    (hμ : (μ.reset D).dialect ∈ D)
    (hst : ∀ s, Spec.stateAfter D T stop μ ids src pre.length = some s →
      Spec.commentSelfLoop T s = true ∧ (Spec.languageTested T s = true → languageRe (lineText b none) = none)) :
    (parseWith D T stop μ ids src').1 =
      insertComment pre.length ⟨⟨pre.length + 1, some 1⟩, rstripCRLF b⟩
        (mapOutcome (insertMap pre.length) (parseWith D T stop μ ids src).1) ∧
    CtxObs (insertMap pre.length) (parseWith D T stop μ ids src).2 (parseWith D T stop μ ids src').2 := by
  have hst' : ∀ s c, Spec.runAfter D T stop μ ids src pre.length = some (s, c) →
      Spec.commentSelfLoop T s = true ∧ (Spec.languageTested T s = true → languageRe (lineText b none) = none) :=
    fun s c hr => hst s (by unfold Spec.stateAfter; rw [hr]; rfl)
  obtain ⟨ho, hc⟩ := parseWithPure_comment hD hQD hT hb stop μ ids pre post h1 h2 hμ hst'
  have q1 := queue_refines_peek D T hQD hQT hCB stop μ ids src hμ
  have q2 := queue_refines_peek D T hQD hQT hCB stop μ ids src' hμ
  have o1 := congrArg Spec.Observed.outcome q1
  have o2 := congrArg Spec.Observed.outcome q2
  have e1 := congrArg Spec.Observed.errors q1
  have e2 := congrArg Spec.Observed.errors q2
  have m1 := congrArg Spec.Observed.μ q1
  have m2 := congrArg Spec.Observed.μ q2
  have i1 := congrArg Spec.Observed.ids q1
  have i2 := congrArg Spec.Observed.ids q2
  have u1 := congrArg Spec.Observed.unexpected q1
  have u2 := congrArg Spec.Observed.unexpected q2
  simp only [Spec.observe] at o1 o2 e1 e2 m1 m2 i1 i2 u1 u2
  refine ⟨by rw [o1, o2]; exact ho, ?_, ?_, ?_, ?_⟩
  · rw [e1, e2]; exact hc.errors
  · rw [m1, m2]; exact hc.μ
  · rw [i1, i2]; exact hc.ids
  · rw [u1, u2]; exact hc.unexpected

end Layout4
end GV
