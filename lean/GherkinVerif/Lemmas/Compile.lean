/-
  Lemmas/Compile.lean — refinement proof: the accumulator-threading compiler model
  (Model/Compiler.lean) against the comprehension specification (Spec/Compile.lean), plus the
  facts about the specification that the property files C06, C07, C08, C10, C11 state.
-/
import GherkinVerif.Spec.Compile
namespace GV
namespace Lemmas

open Spec

/-! ### Options and lists -/

theorem allSome_append {α} (a b : List (Option α)) :
    allSome (a ++ b) = match allSome a, allSome b with
      | some x, some y => some (x ++ y)
      | _, _ => none := by
  induction a with
  | nil => simp only [List.nil_append, allSome]; cases allSome b <;> rfl
  | cons o a ih =>
    cases o with
    | none => simp [allSome]
    | some v =>
      simp only [List.cons_append, allSome, ih]
      cases allSome a <;> cases allSome b <;> simp

theorem allSome_length {α} (l : List (Option α)) (r : List α) (h : allSome l = some r) :
    l.length = r.length := by
  induction l generalizing r with
  | nil => simp [allSome] at h; subst h; rfl
  | cons o l ih =>
    cases o with
    | none => simp [allSome] at h
    | some v =>
      simp only [allSome, Option.map_eq_some_iff] at h
      obtain ⟨r', hr', rfl⟩ := h
      simp [ih r' hr']

theorem allSome_eq_none {α} (l : List (Option α)) (h : allSome l = none) : none ∈ l := by
  induction l with
  | nil => simp [allSome] at h
  | cons o l ih =>
    cases o with
    | none => simp
    | some v =>
      simp only [allSome, Option.map_eq_none_iff] at h
      simp [ih h]

theorem range_succ_flatMap {β} (n : Nat) (f : Nat → List β) :
    (List.range (n + 1)).flatMap f = f 0 ++ (List.range n).flatMap (fun j => f (j + 1)) := by
  rw [List.range_succ_eq_map]
  simp [List.flatMap_map]

/-! ### `interp`, `pickleArg` -/

@[simp] theorem interp_nil (name : Str) (vs : List Str) : interp name [] vs = some name := by
  simp [interp]

theorem mapOpt_eq_map {α β} (f : α → Option β) (g : α → β) (l : List α)
    (h : ∀ a ∈ l, f a = some (g a)) : mapOpt f l = some (l.map g) := by
  induction l with
  | nil => simp [mapOpt]
  | cons a l ih =>
    have h1 := h a (by simp)
    have h2 := ih (fun x hx => h x (by simp [hx]))
    simp [mapOpt, h1, h2]

theorem mapOpt_isSome {α β} (f : α → Option β) (l : List α)
    (h : ∀ a ∈ l, ∃ b, f a = some b) : ∃ r, mapOpt f l = some r := by
  induction l with
  | nil => exact ⟨[], by simp [mapOpt]⟩
  | cons a l ih =>
    obtain ⟨b, hb⟩ := h a (by simp)
    obtain ⟨r, hr⟩ := ih (fun x hx => h x (by simp [hx]))
    exact ⟨b :: r, by simp [mapOpt, hb, hr]⟩

theorem pickleArg_plain (arg : StepArg) :
    pickleArg arg [] [] = some (match arg with
      | .none => .none
      | .table t => .table (t.rows.map fun r => r.cells.map (·.value))
      | .doc d => .doc d.content d.mediaType) := by
  cases arg with
  | none => simp [pickleArg]
  | table t =>
    have h : mapOpt (fun (r : Row) => mapOpt (fun (c : Cell) => interp c.value [] []) r.cells) t.rows
        = some (t.rows.map fun r => r.cells.map (·.value)) := by
      apply mapOpt_eq_map
      intro r _
      apply mapOpt_eq_map
      intro c _
      simp
    simp only [pickleArg, h, Option.map_some]
  | doc d =>
    cases hm : d.mediaType <;> simp [pickleArg, hm]

theorem interp_isSome (name : Str) (hs vs : List Str) (h : hs.length ≤ vs.length) :
    ∃ r, interp name hs vs = some r := by
  induction hs generalizing name vs with
  | nil => exact ⟨name, by simp⟩
  | cons a hs ih =>
    cases vs with
    | nil => simp at h
    | cons v vs =>
      simp only [interp]
      exact ih _ vs (by simpa using h)

theorem pickleArg_isSome (arg : StepArg) (hs vs : List Str) (h : hs.length ≤ vs.length) :
    ∃ r, pickleArg arg hs vs = some r := by
  cases arg with
  | none => exact ⟨_, rfl⟩
  | table t =>
    obtain ⟨r, hr⟩ := mapOpt_isSome
      (fun (r : Row) => mapOpt (fun (c : Cell) => interp c.value hs vs) r.cells) t.rows
      (fun r _ => mapOpt_isSome _ _ (fun c _ => interp_isSome _ _ _ h))
    exact ⟨.table r, by simp [pickleArg, hr]⟩
  | doc d =>
    obtain ⟨c, hc⟩ := interp_isSome d.content hs vs h
    cases hm : d.mediaType with
    | none => exact ⟨.doc c none, by simp [pickleArg, hc, hm]⟩
    | some m =>
      obtain ⟨m', hm'⟩ := interp_isSome m hs vs h
      exact ⟨.doc c (some m'), by simp [pickleArg, hc, hm, hm']⟩

/-! ### Step types -/

/-- forget the id of a pickle step -/
def eraseStep (s : PickleStep) : PickleStep := { s with id := 0 }

/-- `last_keyword_type` after a run of steps -/
def lastType (last : KType) (ss : List Step) : KType := ss.foldl nextType last

theorem nextType_eq (last : KType) (s : Step) :
    nextType last s = if s.ktype = .Conjunction then last else s.ktype := by
  simp [nextType]

@[simp] theorem scanTypes_length (last : KType) (ks : List KType) :
    (scanTypes last ks).length = ks.length := by
  induction ks generalizing last with
  | nil => simp [scanTypes]
  | cons k ks ih => simp [scanTypes, ih]

theorem scanTypes_append_map (last : KType) (a b : List Step) :
    scanTypes last ((a ++ b).map (·.ktype)) =
      scanTypes last (a.map (·.ktype)) ++ scanTypes (lastType last a) (b.map (·.ktype)) := by
  induction a generalizing last with
  | nil => simp [scanTypes, lastType]
  | cons s a ih =>
    simp only [List.cons_append, List.map_cons, scanTypes, lastType, List.foldl_cons, nextType_eq]
    rw [ih]
    simp [lastType]

theorem scanTypes_no_conjunction (last : KType) (ks : List KType) (hl : last ≠ .Conjunction) :
    ∀ t ∈ scanTypes last ks, t ≠ .Conjunction := by
  induction ks generalizing last with
  | nil => simp [scanTypes]
  | cons k ks ih =>
    intro t ht
    simp only [scanTypes, List.mem_cons] at ht
    have hk : (if k = .Conjunction then last else k) ≠ .Conjunction := by
      split <;> assumption
    rcases ht with rfl | ht
    · exact hk
    · exact ih _ hk t ht

/-! ### `zipSteps` -/

theorem zipSteps_append (sub : Option (Nat × List Str × List Str)) (a b : List Step)
    (ta tb : List KType) (h : ta.length = a.length) :
    zipSteps sub (a ++ b) (ta ++ tb) = match zipSteps sub a ta, zipSteps sub b tb with
      | some x, some y => some (x ++ y)
      | _, _ => none := by
  induction a generalizing ta with
  | nil =>
    cases ta with
    | nil => simp only [List.nil_append, zipSteps]; cases zipSteps sub b tb <;> rfl
    | cons t ta => simp at h
  | cons s a ih =>
    cases ta with
    | nil => simp at h
    | cons t ta =>
      simp only [List.cons_append, zipSteps, ih ta (by simpa using h)]
      cases pickleStep sub s t <;> cases zipSteps sub a ta <;> cases zipSteps sub b tb <;> simp

/-- the AST nodes a pickle step points back to -/
def srcIds (sub : Option (Nat × List Str × List Str)) (x : Step) : List Nat :=
  match sub with
  | none => [x.id]
  | some (rowId, _, _) => [x.id, rowId]

/-- what `zipSteps` returns, componentwise -/
theorem zipSteps_some (sub : Option (Nat × List Str × List Str)) (ss : List Step) (ts : List KType)
    (st : List PickleStep) (hl : ts.length = ss.length) (h : zipSteps sub ss ts = some st) :
    st.length = ss.length ∧ st.map (·.type) = ts ∧
    st.map (·.astNodeIds) = ss.map (srcIds sub) := by
  induction ss generalizing ts st with
  | nil =>
    cases ts with
    | nil => simp [zipSteps] at h; subst h; simp
    | cons t ts => simp at hl
  | cons s ss ih =>
    cases ts with
    | nil => simp at hl
    | cons t ts =>
      simp only [zipSteps] at h
      cases hp : pickleStep sub s t with
      | none => simp [hp] at h
      | some p =>
        cases hz : zipSteps sub ss ts with
        | none => simp [hp, hz] at h
        | some ps =>
          simp only [hp, hz, Option.some.injEq] at h
          subst h
          obtain ⟨h1, h2, h3⟩ := ih ts ps (by simpa using hl) hz
          have hp' : p.type = t ∧ p.astNodeIds = srcIds sub s := by
            cases sub with
            | none =>
              simp only [pickleStep, Option.map_eq_some_iff] at hp
              obtain ⟨a, _, rfl⟩ := hp
              simp [srcIds]
            | some x =>
              obtain ⟨rowId, hs, vs⟩ := x
              simp only [pickleStep] at hp
              split at hp
              · simp only [Option.some.injEq] at hp; subst hp; simp [srcIds]
              · simp at hp
          simp [h1, h2, h3, hp'.1, hp'.2]

theorem zipSteps_none_isSome (ss : List Step) (ts : List KType) :
    ∃ r, zipSteps none ss ts = some r := by
  induction ss generalizing ts with
  | nil => exact ⟨[], by simp [zipSteps]⟩
  | cons s ss ih =>
    cases ts with
    | nil => exact ⟨[], by simp [zipSteps]⟩
    | cons t ts =>
      obtain ⟨r, hr⟩ := ih ts
      simp [zipSteps, pickleStep, pickleArg_plain, hr]

theorem zipSteps_isSome (rowId : Nat) (hs vs : List Str) (hlen : hs.length ≤ vs.length)
    (ss : List Step) (ts : List KType) :
    ∃ r, zipSteps (some (rowId, hs, vs)) ss ts = some r := by
  induction ss generalizing ts with
  | nil => exact ⟨[], by simp [zipSteps]⟩
  | cons s ss ih =>
    cases ts with
    | nil => exact ⟨[], by simp [zipSteps]⟩
    | cons t ts =>
      obtain ⟨r, hr⟩ := ih ts
      obtain ⟨tx, htx⟩ := interp_isSome s.text hs vs hlen
      obtain ⟨a, ha⟩ := pickleArg_isSome s.arg hs vs hlen
      simp [zipSteps, pickleStep, htx, ha, hr]

/-! ### The two step loops -/

theorem plainSteps_spec (ss : List Step) (last : KType) (n : Nat) :
    (plainSteps ss last n).map (fun r => r.1.map eraseStep) =
      zipSteps none ss (scanTypes last (ss.map (·.ktype))) := by
  induction ss generalizing last n with
  | nil => simp [plainSteps, zipSteps]
  | cons s ss ih =>
    simp only [plainSteps, List.map_cons, scanTypes, zipSteps, pickleStep, pickleArg_plain,
      Option.map_some, ← nextType_eq, ← ih (nextType last s) (n + 1)]
    cases plainSteps ss (nextType last s) (n + 1) <;> simp [eraseStep]

theorem plainSteps_inv (ss : List Step) (last : KType) (n : Nat) (ps : List PickleStep)
    (l' : KType) (n' : Nat) (h : plainSteps ss last n = some (ps, l', n')) :
    l' = lastType last ss ∧ n' = n + ps.length ∧ ps.map (·.id) = List.range' n ps.length := by
  induction ss generalizing last n ps with
  | nil =>
    simp only [plainSteps, Option.some.injEq, Prod.mk.injEq] at h
    obtain ⟨rfl, rfl, rfl⟩ := h
    simp [lastType]
  | cons s ss ih =>
    simp only [plainSteps, pickleArg_plain] at h
    cases hr : plainSteps ss (nextType last s) (n + 1) with
    | none => simp [hr] at h
    | some r =>
      obtain ⟨rest, l1, n1⟩ := r
      simp only [hr, Option.some.injEq, Prod.mk.injEq] at h
      obtain ⟨rfl, rfl, rfl⟩ := h
      obtain ⟨h1, h2, h3⟩ := ih _ _ _ hr
      refine ⟨by simp [h1, lastType], by simp [h2]; omega, ?_⟩
      simp [h3, List.range'_succ]

theorem outlineSteps_spec (rowId : Nat) (hs vs : List Str) (ss : List Step) (last : KType) (n : Nat) :
    (outlineSteps rowId hs vs ss last n).map (fun r => r.1.map eraseStep) =
      zipSteps (some (rowId, hs, vs)) ss (scanTypes last (ss.map (·.ktype))) := by
  induction ss generalizing last n with
  | nil => simp [outlineSteps, zipSteps]
  | cons s ss ih =>
    simp only [outlineSteps, List.map_cons, scanTypes, zipSteps, pickleStep,
      ← nextType_eq, ← ih (nextType last s) (n + 1)]
    cases interp s.text hs vs <;> cases pickleArg s.arg hs vs <;>
      cases outlineSteps rowId hs vs ss (nextType last s) (n + 1) <;> simp [eraseStep]

theorem outlineSteps_inv (rowId : Nat) (hs vs : List Str) (ss : List Step) (last : KType) (n : Nat)
    (ps : List PickleStep) (l' : KType) (n' : Nat)
    (h : outlineSteps rowId hs vs ss last n = some (ps, l', n')) :
    n' = n + ps.length ∧ ps.map (·.id) = List.range' n ps.length := by
  induction ss generalizing last n ps with
  | nil =>
    simp only [outlineSteps, Option.some.injEq, Prod.mk.injEq] at h
    obtain ⟨rfl, rfl, rfl⟩ := h
    simp
  | cons s ss ih =>
    simp only [outlineSteps] at h
    split at h
    · rename_i text arg _ _
      cases hr : outlineSteps rowId hs vs ss (nextType last s) (n + 1) with
      | none => simp [hr] at h
      | some r =>
        obtain ⟨rest, l1, n1⟩ := r
        simp only [hr, Option.some.injEq, Prod.mk.injEq] at h
        obtain ⟨rfl, rfl, rfl⟩ := h
        obtain ⟨h2, h3⟩ := ih _ _ _ hr
        refine ⟨by simp [h2]; omega, ?_⟩
        simp [h3, List.range'_succ]
    · simp at h

/-! ### `Spec.steps` -/

/-- `Spec.steps` with the type scan split at the background / own-steps boundary -/
theorem steps_eq (sc : Scope) (s : Scenario) (sub : Option (Nat × List Str × List Str))
    (hne : s.steps ≠ []) :
    steps sc s sub =
      match zipSteps none sc.bg (scanTypes .Unknown (sc.bg.map (·.ktype))),
            zipSteps sub s.steps (scanTypes (lastType .Unknown sc.bg) (s.steps.map (·.ktype))) with
      | some a, some b => some (a ++ b)
      | _, _ => none := by
  simp only [steps, if_neg hne, scanTypes_append_map]
  rw [List.take_left' (by simp), List.drop_left' (by simp)]
  generalize zipSteps none _ _ = a
  generalize zipSteps sub _ _ = b
  cases a <;> cases b <;> rfl

theorem steps_nil (sc : Scope) (s : Scenario) (sub : Option (Nat × List Str × List Str))
    (he : s.steps = []) : steps sc s sub = some [] := by
  simp [steps, he]

theorem steps_plain (sc : Scope) (s : Scenario) (n : Nat) (hne : s.steps ≠ []) :
    (plainSteps (sc.bg ++ s.steps) .Unknown n).map (fun r => r.1.map eraseStep) =
      steps sc s none := by
  rw [plainSteps_spec, steps_eq sc s none hne, scanTypes_append_map, zipSteps_append _ _ _ _ _ (by simp)]

theorem steps_row (sc : Scope) (s : Scenario) (rowId : Nat) (hs vs : List Str) (n : Nat)
    (hne : s.steps ≠ []) :
    (match plainSteps sc.bg .Unknown n with
      | none => none
      | some (b, last, n1) =>
        match outlineSteps rowId hs vs s.steps last n1 with
        | none => none
        | some (own, _, _) => some ((b ++ own).map eraseStep)) =
      steps sc s (some (rowId, hs, vs)) := by
  rw [steps_eq sc s _ hne, ← plainSteps_spec sc.bg .Unknown n]
  cases hb : plainSteps sc.bg .Unknown n with
  | none => simp
  | some r =>
    obtain ⟨b, last, n1⟩ := r
    obtain ⟨rfl, -, -⟩ := plainSteps_inv _ _ _ _ _ _ hb
    simp only [Option.map_some]
    rw [← outlineSteps_spec rowId hs vs s.steps (lastType .Unknown sc.bg) n1]
    cases outlineSteps rowId hs vs s.steps (lastType .Unknown sc.bg) n1 with
    | none => simp
    | some r => obtain ⟨own, l2, n2⟩ := r; simp

/-! ### One pickle -/

theorem eraseIds_eq (p : Pickle) :
    eraseIds p = { p with id := 0, steps := p.steps.map eraseStep } := rfl

theorem compileScenario_spec (uri language : Str) (sc : Scope) (s : Scenario) (n : Nat) :
    (compileScenario uri language (sc.ftags ++ sc.rtags) sc.bg s n).map (fun r => eraseIds r.1) =
      scenarioPickle uri language sc s := by
  by_cases he : s.steps = []
  · simp [compileScenario, scenarioPickle, steps_nil sc s none he, he, eraseIds_eq]
  · have hs := steps_plain sc s n he
    simp only [compileScenario, scenarioPickle, ← hs, List.isEmpty_iff, if_neg he]
    cases plainSteps (sc.bg ++ s.steps) .Unknown n with
    | none => simp
    | some r => obtain ⟨st, l, n1⟩ := r; simp [eraseIds_eq]

theorem compileScenario_ids (uri language : Str) (tags : List Tag) (bg : List Step) (s : Scenario)
    (n : Nat) (p : Pickle) (n' : Nat) (h : compileScenario uri language tags bg s n = some (p, n')) :
    p.steps.map (·.id) ++ [p.id] = List.range' n (n' - n) ∧ n ≤ n' := by
  simp only [compileScenario] at h
  split at h
  · simp at h
  · rename_i st l n1 hst
    simp only [Option.some.injEq, Prod.mk.injEq] at h
    obtain ⟨rfl, rfl⟩ := h
    have hinv : n1 = n + st.length ∧ st.map (·.id) = List.range' n st.length := by
      split at hst
      · simp only [Option.some.injEq, Prod.mk.injEq] at hst
        obtain ⟨rfl, -, rfl⟩ := hst
        simp
      · exact (plainSteps_inv _ _ _ _ _ _ hst).2
    obtain ⟨rfl, h2⟩ := hinv
    refine ⟨?_, by omega⟩
    have : n + st.length + 1 - n = st.length + 1 := by omega
    simp [h2, this, List.range'_concat]

theorem compileRow_spec (uri language : Str) (sc : Scope) (s : Scenario) (ex : Examples)
    (header row : Row) (n : Nat) :
    (compileRow uri language (sc.ftags ++ sc.rtags) sc.bg s ex header row n).map
        (fun r => eraseIds r.1) =
      rowPickle uri language sc s ex header row := by
  by_cases he : s.steps = []
  · simp only [compileRow, rowPickle, steps_nil sc s _ he, he, List.isEmpty_nil, if_true,
      outlineSteps]
    cases interp s.name (header.cells.map (·.value)) (row.cells.map (·.value)) <;>
      simp [eraseIds_eq]
  · have hs := steps_row sc s row.id (header.cells.map (·.value)) (row.cells.map (·.value)) n he
    simp only [compileRow, rowPickle, ← hs, List.isEmpty_iff, if_neg he]
    cases plainSteps sc.bg .Unknown n with
    | none => simp
    | some r =>
      obtain ⟨b, last, n1⟩ := r
      simp only
      cases outlineSteps row.id (header.cells.map (·.value)) (row.cells.map (·.value))
          s.steps last n1 with
      | none => simp
      | some r =>
        obtain ⟨own, l2, n2⟩ := r
        simp only
        cases interp s.name (header.cells.map (·.value)) (row.cells.map (·.value)) <;>
          simp [eraseIds_eq]

theorem compileRow_ids (uri language : Str) (tags : List Tag) (bg : List Step) (s : Scenario)
    (ex : Examples) (header row : Row) (n : Nat) (p : Pickle) (n' : Nat)
    (h : compileRow uri language tags bg s ex header row n = some (p, n')) :
    p.steps.map (·.id) ++ [p.id] = List.range' n (n' - n) ∧ n ≤ n' := by
  simp only [compileRow] at h
  split at h
  · simp at h
  · rename_i b last n1 hb
    have hinv : n1 = n + b.length ∧ b.map (·.id) = List.range' n b.length := by
      split at hb
      · simp only [Option.some.injEq, Prod.mk.injEq] at hb
        obtain ⟨rfl, -, rfl⟩ := hb
        simp
      · exact (plainSteps_inv _ _ _ _ _ _ hb).2
    obtain ⟨rfl, h2⟩ := hinv
    split at h
    · simp at h
    · rename_i own l2 n2 hown
      obtain ⟨rfl, h3⟩ := outlineSteps_inv _ _ _ _ _ _ _ _ _ hown
      split at h
      · simp at h
      · simp only [Option.some.injEq, Prod.mk.injEq] at h
        obtain ⟨rfl, rfl⟩ := h
        refine ⟨?_, by omega⟩
        have : n + b.length + own.length + 1 - n = b.length + (own.length + 1) := by omega
        simp only [List.map_append, h2, h3, this, List.append_assoc]
        rw [← List.range'_append_1, List.range'_concat]
        simp

/-! ### Lists of pickles -/

/-- the erased pickle list of a compiler result -/
abbrev erased (r : Option (List Pickle × Nat)) : Option (List Pickle) :=
  r.map (fun r => r.1.map eraseIds)

/-- consecutive ids from `n` up to (excluding) `n'` -/
def IdsFrom (n : Nat) (ps : List Pickle) (n' : Nat) : Prop :=
  idOrder ps = List.range' n (n' - n) ∧ n ≤ n'

theorem idsFrom_nil (n : Nat) : IdsFrom n [] n := by simp [IdsFrom, idOrder]

theorem idsFrom_append (n n1 n2 : Nat) (ps qs : List Pickle) (h1 : IdsFrom n ps n1)
    (h2 : IdsFrom n1 qs n2) : IdsFrom n (ps ++ qs) n2 := by
  obtain ⟨a, b⟩ := h1
  obtain ⟨c, d⟩ := h2
  refine ⟨?_, by omega⟩
  have e : n2 - n = (n1 - n) + (n2 - n1) := by omega
  have e1 : n + (n1 - n) = n1 := by omega
  have : idOrder (ps ++ qs) = idOrder ps ++ idOrder qs := by simp [idOrder]
  rw [this, a, c, e, ← List.range'_append_1, e1]

theorem idsFrom_single (n n' : Nat) (p : Pickle)
    (h : p.steps.map (·.id) ++ [p.id] = List.range' n (n' - n) ∧ n ≤ n') : IdsFrom n [p] n' := by
  refine ⟨?_, h.2⟩
  simp only [idOrder, List.flatMap_cons, List.flatMap_nil, List.append_nil]
  exact h.1

theorem compileRows_spec (uri language : Str) (sc : Scope) (s : Scenario) (ex : Examples)
    (header : Row) (rows : List Row) (n : Nat) :
    erased (compileRows uri language (sc.ftags ++ sc.rtags) sc.bg s ex header rows n) =
      allSome (rows.map fun row => rowPickle uri language sc s ex header row) := by
  induction rows generalizing n with
  | nil => simp [compileRows, allSome]
  | cons r rows ih =>
    simp only [compileRows, List.map_cons, ← compileRow_spec uri language sc s ex header r n]
    cases compileRow uri language (sc.ftags ++ sc.rtags) sc.bg s ex header r n with
    | none => simp [allSome]
    | some x =>
      obtain ⟨p, n1⟩ := x
      simp only [Option.map_some, allSome, ← ih n1]
      cases compileRows uri language (sc.ftags ++ sc.rtags) sc.bg s ex header rows n1 with
      | none => simp
      | some y => obtain ⟨ps, n2⟩ := y; simp

theorem compileRows_ids (uri language : Str) (tags : List Tag) (bg : List Step) (s : Scenario)
    (ex : Examples) (header : Row) (rows : List Row) (n : Nat) (ps : List Pickle) (n' : Nat)
    (h : compileRows uri language tags bg s ex header rows n = some (ps, n')) : IdsFrom n ps n' := by
  induction rows generalizing n ps with
  | nil =>
    simp only [compileRows, Option.some.injEq, Prod.mk.injEq] at h
    obtain ⟨rfl, rfl⟩ := h
    exact idsFrom_nil n
  | cons r rows ih =>
    simp only [compileRows] at h
    split at h
    · simp at h
    · rename_i p n1 hp
      split at h
      · simp at h
      · rename_i qs n2 hq
        simp only [Option.some.injEq, Prod.mk.injEq] at h
        obtain ⟨rfl, rfl⟩ := h
        exact idsFrom_append n n1 n2 [p] qs
          (idsFrom_single _ _ _ (compileRow_ids _ _ _ _ _ _ _ _ _ _ _ hp)) (ih _ _ hq)

/-- the rows of an outline, block by block -/
def outlineRows (uri language : Str) (sc : Scope) (s : Scenario) (exs : List Examples) :
    List (Option Pickle) :=
  exs.flatMap fun ex =>
    match ex.header with
    | none => []
    | some h => ex.body.map fun row => rowPickle uri language sc s ex h row

theorem scenarioPickles_eq (uri language : Str) (sc : Scope) (s : Scenario) :
    scenarioPickles uri language sc s =
      if s.examples = [] then [scenarioPickle uri language sc s]
      else outlineRows uri language sc s s.examples := rfl

theorem compileOutline_spec (uri language : Str) (sc : Scope) (s : Scenario)
    (exs : List Examples) (n : Nat) :
    erased (compileOutline uri language (sc.ftags ++ sc.rtags) sc.bg s exs n) =
      allSome (outlineRows uri language sc s exs) := by
  induction exs generalizing n with
  | nil => simp [compileOutline, outlineRows, allSome]
  | cons ex exs ih =>
    have hcons : outlineRows uri language sc s (ex :: exs) =
        (match ex.header with
          | none => []
          | some h => ex.body.map fun row => rowPickle uri language sc s ex h row) ++
        outlineRows uri language sc s exs := by
      simp [outlineRows]
    rw [hcons, allSome_append]
    simp only [compileOutline]
    cases hh : ex.header with
    | none =>
      simp only [allSome, ← ih n]
      cases compileOutline uri language (sc.ftags ++ sc.rtags) sc.bg s exs n with
      | none => simp
      | some y => obtain ⟨qs, n2⟩ := y; simp
    | some hd =>
      simp only [← compileRows_spec uri language sc s ex hd ex.body n]
      cases compileRows uri language (sc.ftags ++ sc.rtags) sc.bg s ex hd ex.body n with
      | none => simp
      | some x =>
        obtain ⟨ps, n1⟩ := x
        simp only [erased, Option.map_some, ← ih n1]
        cases compileOutline uri language (sc.ftags ++ sc.rtags) sc.bg s exs n1 with
        | none => simp
        | some y => obtain ⟨qs, n2⟩ := y; simp

theorem compileOutline_ids (uri language : Str) (tags : List Tag) (bg : List Step) (s : Scenario)
    (exs : List Examples) (n : Nat) (ps : List Pickle) (n' : Nat)
    (h : compileOutline uri language tags bg s exs n = some (ps, n')) : IdsFrom n ps n' := by
  induction exs generalizing n ps with
  | nil =>
    simp only [compileOutline, Option.some.injEq, Prod.mk.injEq] at h
    obtain ⟨rfl, rfl⟩ := h
    exact idsFrom_nil n
  | cons ex exs ih =>
    simp only [compileOutline] at h
    split at h
    · simp at h
    · rename_i p n1 hp
      split at h
      · simp at h
      · rename_i qs n2 hq
        simp only [Option.some.injEq, Prod.mk.injEq] at h
        obtain ⟨rfl, rfl⟩ := h
        refine idsFrom_append n n1 n2 p qs ?_ (ih _ _ hq)
        split at hp
        · simp only [Option.some.injEq, Prod.mk.injEq] at hp
          obtain ⟨rfl, rfl⟩ := hp
          exact idsFrom_nil n
        · exact compileRows_ids _ _ _ _ _ _ _ _ _ _ _ hp

theorem compileScenarioDef_spec (uri language : Str) (sc : Scope) (s : Scenario) (n : Nat) :
    erased (compileScenarioDef uri language (sc.ftags ++ sc.rtags) sc.bg s n) =
      allSome (scenarioPickles uri language sc s) := by
  rw [scenarioPickles_eq]
  by_cases he : s.examples = []
  · simp only [compileScenarioDef, he, List.isEmpty_nil, if_true,
      ← compileScenario_spec uri language sc s n]
    cases compileScenario uri language (sc.ftags ++ sc.rtags) sc.bg s n with
    | none => simp [allSome]
    | some x => obtain ⟨p, n1⟩ := x; simp [allSome]
  · simp only [compileScenarioDef, List.isEmpty_iff, if_neg he]
    exact compileOutline_spec uri language sc s s.examples n

theorem compileScenarioDef_ids (uri language : Str) (tags : List Tag) (bg : List Step)
    (s : Scenario) (n : Nat) (ps : List Pickle) (n' : Nat)
    (h : compileScenarioDef uri language tags bg s n = some (ps, n')) : IdsFrom n ps n' := by
  simp only [compileScenarioDef] at h
  split at h
  · simp only [Option.map_eq_some_iff] at h
    obtain ⟨⟨p, n1⟩, hp, he⟩ := h
    simp only [Prod.mk.injEq] at he
    obtain ⟨rfl, rfl⟩ := he
    exact idsFrom_single _ _ _ (compileScenario_ids _ _ _ _ _ _ _ _ hp)
  · exact compileOutline_ids _ _ _ _ _ _ _ _ _ h

/-! ### Recursive characterisation of the scenario comprehensions -/

def bgOfRuleChild : RuleChild → List Step
  | .background b => b.steps
  | _ => []

def bgOfFeatureChild : FeatureChild → List Step
  | .background b => b.steps
  | _ => []

/-- scenarios of a rule's children, threading the background accumulator -/
def ruleScen (ft rt : List Tag) : List RuleChild → List Step → List (Scope × Scenario)
  | [], _ => []
  | .background b :: cs, bg => ruleScen ft rt cs (bg ++ b.steps)
  | .scenario sc :: cs, bg => (⟨ft, rt, bg⟩, sc) :: ruleScen ft rt cs bg

/-- scenarios of a feature's children, threading the background accumulator -/
def featScen (ft : List Tag) : List FeatureChild → List Step → List (Scope × Scenario)
  | [], _ => []
  | .background b :: cs, bg => featScen ft cs (bg ++ b.steps)
  | .scenario sc :: cs, bg => (⟨ft, [], bg⟩, sc) :: featScen ft cs bg
  | .rule r :: cs, bg => ruleScen ft r.tags r.children bg ++ featScen ft cs bg

def ruleAt (ft rt : List Tag) (bg : List Step) : Option RuleChild → List (Scope × Scenario)
  | some (.scenario sc) => [(⟨ft, rt, bg⟩, sc)]
  | _ => []

def featAt (ft : List Tag) (bg : List Step) : Option FeatureChild → List (Scope × Scenario)
  | some (.scenario sc) => [(⟨ft, [], bg⟩, sc)]
  | some (.rule r) => ruleScen ft r.tags r.children bg
  | _ => []

theorem ruleBgBefore_zero (cs : List RuleChild) : ruleBgBefore cs 0 = [] := by
  simp [ruleBgBefore]

theorem ruleBgBefore_succ (c : RuleChild) (cs : List RuleChild) (j : Nat) :
    ruleBgBefore (c :: cs) (j + 1) = bgOfRuleChild c ++ ruleBgBefore cs j := by
  cases c <;> simp [ruleBgBefore, bgOfRuleChild]

theorem featureBgBefore_zero (cs : List FeatureChild) : featureBgBefore cs 0 = [] := by
  simp [featureBgBefore]

theorem featureBgBefore_succ (c : FeatureChild) (cs : List FeatureChild) (j : Nat) :
    featureBgBefore (c :: cs) (j + 1) = bgOfFeatureChild c ++ featureBgBefore cs j := by
  cases c <;> simp [featureBgBefore, bgOfFeatureChild]

theorem ruleScen_range (ft rt : List Tag) (cs : List RuleChild) (bg0 : List Step) :
    (List.range cs.length).flatMap (fun j => ruleAt ft rt (bg0 ++ ruleBgBefore cs j) cs[j]?) =
      ruleScen ft rt cs bg0 := by
  induction cs generalizing bg0 with
  | nil => simp [ruleScen]
  | cons c cs ih =>
    rw [List.length_cons, range_succ_flatMap]
    simp only [List.getElem?_cons_zero, List.getElem?_cons_succ, ruleBgBefore_zero,
      ruleBgBefore_succ, List.append_nil]
    cases c with
    | background b =>
      rw [ruleScen, ← ih (bg0 ++ b.steps)]
      simp [ruleAt, bgOfRuleChild, List.append_assoc]
    | scenario sc =>
      rw [ruleScen, ← ih bg0]
      simp [ruleAt, bgOfRuleChild]

theorem ruleScenarios_eq (f : Feature) (i : Nat) (r : Rule) :
    ruleScenarios f i r = ruleScen f.tags r.tags r.children (featureBgBefore f.children i) := by
  rw [← ruleScen_range]
  rfl

theorem featScen_range (ft : List Tag) (cs : List FeatureChild) (bg0 : List Step) :
    (List.range cs.length).flatMap (fun i => featAt ft (bg0 ++ featureBgBefore cs i) cs[i]?) =
      featScen ft cs bg0 := by
  induction cs generalizing bg0 with
  | nil => simp [featScen]
  | cons c cs ih =>
    rw [List.length_cons, range_succ_flatMap]
    simp only [List.getElem?_cons_zero, List.getElem?_cons_succ, featureBgBefore_zero,
      featureBgBefore_succ, List.append_nil]
    cases c with
    | background b =>
      rw [featScen, ← ih (bg0 ++ b.steps)]
      simp [featAt, bgOfFeatureChild, List.append_assoc]
    | scenario sc =>
      rw [featScen, ← ih bg0]
      simp [featAt, bgOfFeatureChild]
    | rule r =>
      rw [featScen, ← ih bg0]
      simp [featAt, bgOfFeatureChild]

theorem featureScenarios_eq (f : Feature) :
    featureScenarios f = featScen f.tags f.children [] := by
  rw [← featScen_range]
  unfold featureScenarios
  congr 1
  funext i
  cases f.children[i]? with
  | none => rfl
  | some c =>
    cases c with
    | background b => rfl
    | scenario sc => simp [featAt]
    | rule r => simp [featAt, ruleScenarios_eq]

/-! ### The child loops -/

theorem compileRuleChildren_spec (uri language : Str) (ft rt : List Tag) (cs : List RuleChild)
    (bg : List Step) (n : Nat) :
    erased (compileRuleChildren uri language (ft ++ rt) cs bg n) =
      allSome ((ruleScen ft rt cs bg).flatMap fun x => scenarioPickles uri language x.1 x.2) := by
  induction cs generalizing bg n with
  | nil => simp [compileRuleChildren, ruleScen, allSome]
  | cons c cs ih =>
    cases c with
    | background b => simp only [compileRuleChildren, ruleScen, ih]
    | scenario sc =>
      simp only [compileRuleChildren, ruleScen, List.flatMap_cons]
      rw [allSome_append, ← compileScenarioDef_spec uri language ⟨ft, rt, bg⟩ sc n]
      cases compileScenarioDef uri language (ft ++ rt) bg sc n with
      | none => simp
      | some x =>
        obtain ⟨ps, n1⟩ := x
        simp only [erased, Option.map_some, ← ih bg n1]
        cases compileRuleChildren uri language (ft ++ rt) cs bg n1 with
        | none => simp
        | some y => obtain ⟨qs, n2⟩ := y; simp

theorem compileRuleChildren_ids (uri language : Str) (tags : List Tag) (cs : List RuleChild)
    (bg : List Step) (n : Nat) (ps : List Pickle) (n' : Nat)
    (h : compileRuleChildren uri language tags cs bg n = some (ps, n')) : IdsFrom n ps n' := by
  induction cs generalizing bg n ps with
  | nil =>
    simp only [compileRuleChildren, Option.some.injEq, Prod.mk.injEq] at h
    obtain ⟨rfl, rfl⟩ := h
    exact idsFrom_nil n
  | cons c cs ih =>
    cases c with
    | background b => exact ih _ _ _ (by simpa only [compileRuleChildren] using h)
    | scenario sc =>
      simp only [compileRuleChildren] at h
      split at h
      · simp at h
      · rename_i p n1 hp
        split at h
        · simp at h
        · rename_i qs n2 hq
          simp only [Option.some.injEq, Prod.mk.injEq] at h
          obtain ⟨rfl, rfl⟩ := h
          exact idsFrom_append n n1 n2 p qs (compileScenarioDef_ids _ _ _ _ _ _ _ _ hp) (ih _ _ _ hq)

theorem compileFeatureChildren_spec (uri language : Str) (ft : List Tag) (cs : List FeatureChild)
    (bg : List Step) (n : Nat) :
    erased (compileFeatureChildren uri language ft cs bg n) =
      allSome ((featScen ft cs bg).flatMap fun x => scenarioPickles uri language x.1 x.2) := by
  induction cs generalizing bg n with
  | nil => simp [compileFeatureChildren, featScen, allSome]
  | cons c cs ih =>
    cases c with
    | background b => simp only [compileFeatureChildren, featScen, ih]
    | scenario sc =>
      have hsc := compileScenarioDef_spec uri language ⟨ft, [], bg⟩ sc n
      simp only [List.append_nil] at hsc
      simp only [compileFeatureChildren, featScen, List.flatMap_cons]
      rw [allSome_append, ← hsc]
      cases compileScenarioDef uri language ft bg sc n with
      | none => simp
      | some x =>
        obtain ⟨ps, n1⟩ := x
        simp only [erased, Option.map_some, ← ih bg n1]
        cases compileFeatureChildren uri language ft cs bg n1 with
        | none => simp
        | some y => obtain ⟨qs, n2⟩ := y; simp
    | rule r =>
      simp only [compileFeatureChildren, featScen, List.flatMap_append]
      rw [allSome_append, ← compileRuleChildren_spec uri language ft r.tags r.children bg n]
      cases compileRuleChildren uri language (ft ++ r.tags) r.children bg n with
      | none => simp
      | some x =>
        obtain ⟨ps, n1⟩ := x
        simp only [erased, Option.map_some, ← ih bg n1]
        cases compileFeatureChildren uri language ft cs bg n1 with
        | none => simp
        | some y => obtain ⟨qs, n2⟩ := y; simp

theorem compileFeatureChildren_ids (uri language : Str) (ft : List Tag) (cs : List FeatureChild)
    (bg : List Step) (n : Nat) (ps : List Pickle) (n' : Nat)
    (h : compileFeatureChildren uri language ft cs bg n = some (ps, n')) : IdsFrom n ps n' := by
  induction cs generalizing bg n ps with
  | nil =>
    simp only [compileFeatureChildren, Option.some.injEq, Prod.mk.injEq] at h
    obtain ⟨rfl, rfl⟩ := h
    exact idsFrom_nil n
  | cons c cs ih =>
    cases c with
    | background b => exact ih _ _ _ (by simpa only [compileFeatureChildren] using h)
    | scenario sc =>
      simp only [compileFeatureChildren] at h
      split at h
      · simp at h
      · rename_i p n1 hp
        split at h
        · simp at h
        · rename_i qs n2 hq
          simp only [Option.some.injEq, Prod.mk.injEq] at h
          obtain ⟨rfl, rfl⟩ := h
          exact idsFrom_append n n1 n2 p qs (compileScenarioDef_ids _ _ _ _ _ _ _ _ hp) (ih _ _ _ hq)
    | rule r =>
      simp only [compileFeatureChildren] at h
      split at h
      · simp at h
      · rename_i p n1 hp
        split at h
        · simp at h
        · rename_i qs n2 hq
          simp only [Option.some.injEq, Prod.mk.injEq] at h
          obtain ⟨rfl, rfl⟩ := h
          exact idsFrom_append n n1 n2 p qs (compileRuleChildren_ids _ _ _ _ _ _ _ _ hp) (ih _ _ _ hq)

/-! ### The document -/

theorem pickles_some (uri : Str) (doc : Doc) (f : Feature) (hf : doc.feature = some f) :
    pickles uri doc =
      allSome ((featureScenarios f).flatMap fun x => scenarioPickles uri f.language x.1 x.2) := by
  simp only [pickles, hf]

theorem compile_spec (uri : Str) (doc : Doc) (n : Nat) :
    erased (compile uri doc n) = pickles uri doc := by
  cases hf : doc.feature with
  | none => simp [compile, pickles, hf]
  | some f =>
    rw [pickles_some uri doc f hf, featureScenarios_eq,
      ← compileFeatureChildren_spec uri f.language f.tags f.children [] n]
    simp only [compile, hf]

theorem compile_eq_spec (uri : Str) (doc : Doc) (n : Nat) (ps : List Pickle) (n' : Nat)
    (h : compile uri doc n = some (ps, n')) :
    Spec.pickles uri doc = some (ps.map Spec.eraseIds) := by
  rw [← compile_spec uri doc n, h]
  rfl

theorem compile_none_iff (uri : Str) (doc : Doc) (n : Nat) :
    compile uri doc n = none ↔ Spec.pickles uri doc = none := by
  rw [← compile_spec uri doc n]
  simp

theorem compile_ids (uri : Str) (doc : Doc) (n : Nat) (ps : List Pickle) (n' : Nat)
    (h : compile uri doc n = some (ps, n')) :
    Spec.idOrder ps = List.range' n (n' - n) ∧ n ≤ n' := by
  simp only [compile] at h
  split at h
  · simp only [Option.some.injEq, Prod.mk.injEq] at h
    obtain ⟨rfl, rfl⟩ := h
    exact idsFrom_nil n
  · exact compileFeatureChildren_ids _ _ _ _ _ _ _ _ h

/-! ### Totality and count -/

theorem steps_none_isSome (sc : Scope) (s : Scenario) : ∃ st, steps sc s none = some st := by
  by_cases he : s.steps = []
  · exact ⟨[], steps_nil sc s none he⟩
  · obtain ⟨a, ha⟩ := zipSteps_none_isSome sc.bg (scanTypes .Unknown (sc.bg.map (·.ktype)))
    obtain ⟨b, hb⟩ := zipSteps_none_isSome s.steps
      (scanTypes (lastType .Unknown sc.bg) (s.steps.map (·.ktype)))
    exact ⟨a ++ b, by rw [steps_eq sc s none he, ha, hb]⟩

theorem steps_isSome (sc : Scope) (s : Scenario) (rowId : Nat) (hs vs : List Str)
    (hlen : hs.length ≤ vs.length) : ∃ st, steps sc s (some (rowId, hs, vs)) = some st := by
  by_cases he : s.steps = []
  · exact ⟨[], steps_nil sc s _ he⟩
  · obtain ⟨a, ha⟩ := zipSteps_none_isSome sc.bg (scanTypes .Unknown (sc.bg.map (·.ktype)))
    obtain ⟨b, hb⟩ := zipSteps_isSome rowId hs vs hlen s.steps
      (scanTypes (lastType .Unknown sc.bg) (s.steps.map (·.ktype)))
    exact ⟨a ++ b, by rw [steps_eq sc s _ he, ha, hb]⟩

theorem scenarioPickle_ne_none (uri language : Str) (sc : Scope) (s : Scenario) :
    scenarioPickle uri language sc s ≠ none := by
  obtain ⟨st, hst⟩ := steps_none_isSome sc s
  simp [scenarioPickle, hst]

theorem rowPickle_ne_none (uri language : Str) (sc : Scope) (s : Scenario) (ex : Examples)
    (header row : Row) (hlen : header.cells.length ≤ row.cells.length) :
    rowPickle uri language sc s ex header row ≠ none := by
  have hl : (header.cells.map (·.value)).length ≤ (row.cells.map (·.value)).length := by
    simpa using hlen
  obtain ⟨st, hst⟩ := steps_isSome sc s row.id _ _ hl
  obtain ⟨nm, hnm⟩ := interp_isSome s.name _ _ hl
  simp [rowPickle, hst, hnm]

theorem compile_total (uri : Str) (doc : Doc) (n : Nat) (h : Spec.rectangular doc) :
    ∃ r, compile uri doc n = some r := by
  cases hc : compile uri doc n with
  | some r => exact ⟨r, rfl⟩
  | none =>
    exfalso
    have hp := (compile_none_iff uri doc n).1 hc
    cases hf : doc.feature with
    | none => simp [pickles, hf] at hp
    | some f =>
      rw [pickles_some uri doc f hf] at hp
      have hmem := allSome_eq_none _ hp
      simp only [List.mem_flatMap] at hmem
      obtain ⟨x, hx, hnone⟩ := hmem
      rw [scenarioPickles_eq] at hnone
      split at hnone
      · simp only [List.mem_singleton] at hnone
        exact scenarioPickle_ne_none _ _ _ _ hnone.symm
      · simp only [outlineRows, List.mem_flatMap] at hnone
        obtain ⟨ex, hex, hrow⟩ := hnone
        split at hrow
        · simp at hrow
        · rename_i hd hhd
          simp only [List.mem_map] at hrow
          obtain ⟨row, hrow, hr⟩ := hrow
          exact rowPickle_ne_none _ _ _ _ _ _ _ (h f hf x hx ex hex hd hhd row hrow) hr

theorem scenarioPickles_length (uri language : Str) (sc : Scope) (s : Scenario) :
    (scenarioPickles uri language sc s).length =
      if s.examples = [] then 1
      else (s.examples.map fun ex =>
        match ex.header with | none => 0 | some _ => ex.body.length).sum := by
  rw [scenarioPickles_eq]
  split
  · simp
  · simp only [outlineRows, List.length_flatMap]
    congr 1
    apply List.map_congr_left
    intro ex _
    cases ex.header <;> simp

theorem compile_count (uri : Str) (doc : Doc) (f : Feature) (n : Nat) (ps : List Pickle) (n' : Nat)
    (hf : doc.feature = some f) (h : compile uri doc n = some (ps, n')) :
    ps.length = ((Spec.featureScenarios f).map fun x =>
      if x.2.examples = [] then 1
      else (x.2.examples.map fun ex =>
        match ex.header with | none => 0 | some _ => ex.body.length).sum).sum := by
  have hp := compile_eq_spec uri doc n ps n' h
  rw [pickles_some uri doc f hf] at hp
  have hl := allSome_length _ _ hp
  simp only [List.length_map, List.length_flatMap, scenarioPickles_length] at hl
  exact hl.symm

/-! ### What the specification says: fields, tags -/

theorem spec_fields (uri language : Str) (sc : Spec.Scope) (s : Scenario) (p : Pickle) :
    (Spec.scenarioPickle uri language sc s = some p →
        p.astNodeIds = [s.id] ∧ p.uri = uri ∧ p.language = language ∧ p.name = s.name) ∧
    (∀ ex h row, Spec.rowPickle uri language sc s ex h row = some p →
        p.astNodeIds = [s.id, row.id] ∧ p.uri = uri ∧ p.language = language ∧
        some p.name = interp s.name (h.cells.map (·.value)) (row.cells.map (·.value))) := by
  constructor
  · intro h
    simp only [scenarioPickle, Option.map_eq_some_iff] at h
    obtain ⟨st, _, rfl⟩ := h
    simp
  · intro ex h row hp
    simp only [rowPickle] at hp
    split at hp
    · rename_i st name hst hname
      simp only [Option.some.injEq] at hp
      subst hp
      simp [hname]
    · simp at hp

theorem spec_tags_scenario (uri language : Str) (sc : Spec.Scope) (s : Scenario) (p : Pickle)
    (h : Spec.scenarioPickle uri language sc s = some p) :
    p.tags = (sc.ftags ++ sc.rtags ++ s.tags).map (fun t => ⟨t.id, t.name⟩) := by
  simp only [scenarioPickle, Option.map_eq_some_iff] at h
  obtain ⟨st, _, rfl⟩ := h
  simp [pickleTags]

theorem spec_tags_row (uri language : Str) (sc : Spec.Scope) (s : Scenario) (ex : Examples)
    (hd row : Row) (p : Pickle) (h : Spec.rowPickle uri language sc s ex hd row = some p) :
    p.tags = (sc.ftags ++ sc.rtags ++ s.tags ++ ex.tags).map (fun t => ⟨t.id, t.name⟩) := by
  simp only [rowPickle] at h
  split at h
  · simp only [Option.some.injEq] at h
    subst h
    simp [pickleTags]
  · simp at h

/-! ### What the specification says: scopes -/

theorem mem_ruleScenarios (f : Feature) (i : Nat) (r : Rule) (x : Scope × Scenario)
    (h : x ∈ ruleScenarios f i r) :
    ∃ j, r.children[j]? = some (.scenario x.2) ∧
      x.1 = ⟨f.tags, r.tags, featureBgBefore f.children i ++ ruleBgBefore r.children j⟩ := by
  simp only [ruleScenarios, List.mem_flatMap] at h
  obtain ⟨j, _, hx⟩ := h
  split at hx
  · rename_i sc hj
    simp only [List.mem_singleton] at hx
    subst hx
    exact ⟨j, hj, rfl⟩
  · simp at hx

theorem mem_featureScenarios (f : Feature) (x : Scope × Scenario) (h : x ∈ featureScenarios f) :
    (∃ i, f.children[i]? = some (.scenario x.2) ∧
      x.1 = ⟨f.tags, [], featureBgBefore f.children i⟩) ∨
    (∃ i r j, f.children[i]? = some (.rule r) ∧ r.children[j]? = some (.scenario x.2) ∧
      x.1 = ⟨f.tags, r.tags, featureBgBefore f.children i ++ ruleBgBefore r.children j⟩) := by
  simp only [featureScenarios, List.mem_flatMap] at h
  obtain ⟨i, _, hx⟩ := h
  split at hx
  · rename_i sc hi
    simp only [List.mem_singleton] at hx
    subst hx
    exact Or.inl ⟨i, hi, rfl⟩
  · rename_i r hi
    obtain ⟨j, hj, hs⟩ := mem_ruleScenarios f i r x hx
    exact Or.inr ⟨i, r, j, hi, hj, hs⟩
  · simp at hx

theorem spec_scopes (f : Feature) (x : Spec.Scope × Scenario) (h : x ∈ Spec.featureScenarios f) :
    (∃ i, f.children[i]? = some (.scenario x.2) ∧ x.1.bg = Spec.featureBgBefore f.children i) ∨
    (∃ i r j, f.children[i]? = some (.rule r) ∧ r.children[j]? = some (.scenario x.2) ∧
      x.1.bg = Spec.featureBgBefore f.children i ++ Spec.ruleBgBefore r.children j) := by
  rcases mem_featureScenarios f x h with ⟨i, hi, hs⟩ | ⟨i, r, j, hi, hj, hs⟩
  · exact Or.inl ⟨i, hi, by rw [hs]⟩
  · exact Or.inr ⟨i, r, j, hi, hj, by rw [hs]⟩

theorem spec_scope_tags (f : Feature) (x : Spec.Scope × Scenario) (h : x ∈ Spec.featureScenarios f) :
    x.1.ftags = f.tags ∧ (x.1.rtags = [] ∨ ∃ r, FeatureChild.rule r ∈ f.children ∧ x.1.rtags = r.tags ∧
      RuleChild.scenario x.2 ∈ r.children) := by
  rcases mem_featureScenarios f x h with ⟨i, hi, hs⟩ | ⟨i, r, j, hi, hj, hs⟩
  · exact ⟨by rw [hs], Or.inl (by rw [hs])⟩
  · exact ⟨by rw [hs], Or.inr ⟨r, List.mem_of_getElem? hi, by rw [hs], List.mem_of_getElem? hj⟩⟩

/-! ### What the specification says: steps -/

/-- a defined `Spec.steps` splits into the background part and the own part -/
theorem steps_some (sc : Scope) (s : Scenario) (sub : Option (Nat × List Str × List Str))
    (st : List PickleStep) (hne : s.steps ≠ []) (h : steps sc s sub = some st) :
    ∃ a b, st = a ++ b ∧ a.length = sc.bg.length ∧ b.length = s.steps.length ∧
      st.map (·.type) = scanTypes .Unknown ((sc.bg ++ s.steps).map (·.ktype)) ∧
      a.map (·.astNodeIds) = sc.bg.map (srcIds none) ∧
      b.map (·.astNodeIds) = s.steps.map (srcIds sub) := by
  rw [steps_eq sc s sub hne] at h
  split at h
  · rename_i a b ha hb
    simp only [Option.some.injEq] at h
    subst h
    obtain ⟨a1, a2, a3⟩ := zipSteps_some _ _ _ _ (by simp) ha
    obtain ⟨b1, b2, b3⟩ := zipSteps_some _ _ _ _ (by simp) hb
    refine ⟨a, b, rfl, a1, b1, ?_, a3, b3⟩
    rw [scanTypes_append_map, List.map_append, a2, b2]
  · simp at h

theorem head_srcIds (sub : Option (Nat × List Str × List Str)) (x : Step) :
    (srcIds sub x).head? = some x.id := by
  cases sub <;> simp [srcIds]

theorem spec_steps_sources (sc : Spec.Scope) (s : Scenario) (sub : Option (Nat × List Str × List Str))
    (st : List PickleStep) (h : Spec.steps sc s sub = some st) :
    st.map (fun p => p.astNodeIds.head?) =
      if s.steps = [] then [] else (sc.bg ++ s.steps).map (fun x => some x.id) := by
  by_cases he : s.steps = []
  · rw [steps_nil sc s sub he] at h
    simp only [Option.some.injEq] at h
    subst h
    simp [he]
  · obtain ⟨a, b, rfl, _, _, _, ha, hb⟩ := steps_some sc s sub _ he h
    have hm : ∀ l : List PickleStep,
        l.map (fun p => p.astNodeIds.head?) = (l.map (·.astNodeIds)).map List.head? := by
      intro l; simp
    rw [if_neg he, List.map_append, hm a, hm b, ha, hb]
    simp only [List.map_map, List.map_append, Function.comp_def, head_srcIds]

theorem spec_steps_row (sc : Spec.Scope) (s : Scenario) (rowId : Nat) (hs vs : List Str)
    (st : List PickleStep) (hne : s.steps ≠ []) (h : Spec.steps sc s (some (rowId, hs, vs)) = some st) :
    (st.take sc.bg.length).map (·.astNodeIds) = sc.bg.map (fun x => [x.id]) ∧
    (st.drop sc.bg.length).map (·.astNodeIds) = s.steps.map (fun x => [x.id, rowId]) := by
  obtain ⟨a, b, rfl, hla, _, _, ha, hb⟩ := steps_some sc s _ _ hne h
  rw [List.take_left' hla, List.drop_left' hla, ha, hb]
  exact ⟨rfl, rfl⟩

theorem spec_steps_types (sc : Spec.Scope) (s : Scenario) (sub : Option (Nat × List Str × List Str))
    (st : List PickleStep) (hne : s.steps ≠ []) (h : Spec.steps sc s sub = some st) :
    st.map (·.type) = Spec.scanTypes .Unknown ((sc.bg ++ s.steps).map (·.ktype)) := by
  obtain ⟨a, b, rfl, _, _, ht, _, _⟩ := steps_some sc s sub _ hne h
  exact ht

theorem spec_steps_types_indep (sc : Spec.Scope) (s : Scenario) (sub : Option (Nat × List Str × List Str))
    (a b : List PickleStep) (ha : Spec.steps sc s none = some a) (hb : Spec.steps sc s sub = some b) :
    a.map (·.type) = b.map (·.type) := by
  by_cases he : s.steps = []
  · rw [steps_nil sc s _ he] at ha hb
    simp only [Option.some.injEq] at ha hb
    subst ha hb
    rfl
  · rw [spec_steps_types sc s none a he ha, spec_steps_types sc s sub b he hb]

end Lemmas
end GV
