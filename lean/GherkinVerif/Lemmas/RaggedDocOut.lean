/-
  Lemmas/RaggedDocOut.lean — from the run invariant (`parseWith_r`, Lemmas/RaggedDocLoop.lean) to
  statements about the outcome of `parseWith`: generic in the dialect table and in any transition
  table that passes `Spec.raggedCheck`.
-/
import GherkinVerif.Lemmas.RaggedDocLoop
import GherkinVerif.Lemmas.Cells
namespace GV
namespace Lemmas
open Spec

namespace RaggedMsg

theorem natToStr_digit (n : Nat) : ∀ c ∈ natToStr n, 48 ≤ c ∧ c ≤ 57 := by
  intro c hc
  unfold natToStr at hc
  obtain ⟨ch, hch, rfl⟩ := List.mem_map.1 hc
  have hd : ch ∈ Nat.toDigits 10 n := by
    have : (toString n).toList = Nat.toDigits 10 n := by
      rw [Nat.toString_eq_repr, Nat.toList_repr]
    rw [← this]; exact hch
  have := Nat.isDigit_of_mem_toDigits (by decide) (by decide) hd
  simp only [Char.isDigit, Bool.and_eq_true, decide_eq_true_eq] at this
  exact this

theorem natToStr_inj {a b : Nat} (h : natToStr a = natToStr b) : a = b := by
  unfold natToStr at h
  have e : ∀ n : Nat, (toString n).toList = Nat.toDigits 10 n := fun n => by
    rw [Nat.toString_eq_repr, Nat.toList_repr]
  rw [e, e] at h
  have minj : ∀ (l1 l2 : List Char), l1.map Char.toNat = l2.map Char.toNat → l1 = l2 := by
    intro l1
    induction l1 with
    | nil => intro l2 h; cases l2 with
      | nil => rfl
      | cons _ _ => simp at h
    | cons x l1 ih =>
      intro l2 h
      cases l2 with
      | nil => simp at h
      | cons y l2 =>
        simp only [List.map_cons, List.cons.injEq] at h
        have hxy : x = y := Char.ext (UInt32.toNat_inj.1 h.1)
        rw [hxy, ih l2 h.2]
  have h' : Nat.toDigits 10 a = Nat.toDigits 10 b := minj _ _ h
  have := congrArg (fun l => Nat.ofDigitChars 10 l 0) h'
  simpa [Nat.ofDigitChars_ten_toDigits] using this

theorem split_at_sep (x : Nat) : ∀ (u u' r r' : Str), (∀ c ∈ u, c ≠ x) → (∀ c ∈ u', c ≠ x) →
    u ++ x :: r = u' ++ x :: r' → u = u' ∧ r = r' := by
  intro u
  induction u with
  | nil =>
    intro u' r r' _ hu' h
    cases u' with
    | nil => simpa using h
    | cons a u' =>
      simp only [List.nil_append, List.cons_append, List.cons.injEq] at h
      exact absurd h.1.symm (hu' a (List.mem_cons_self ..))
  | cons a u ih =>
    intro u' r r' hu hu' h
    cases u' with
    | nil =>
      simp only [List.nil_append, List.cons_append, List.cons.injEq] at h
      exact absurd h.1 (hu a (List.mem_cons_self ..))
    | cons b u' =>
      simp only [List.cons_append, List.cons.injEq] at h
      obtain ⟨e1, e2⟩ := ih u' r r' (fun c hc => hu c (List.mem_cons_of_mem _ hc))
        (fun c hc => hu' c (List.mem_cons_of_mem _ hc)) h.2
      exact ⟨by rw [h.1, e1], e2⟩

/-- two errors with the same message agree on line, printed column and body (copied from
    Lemmas/LayoutDoc3.lean, which cannot be imported together with Lemmas/Cells.lean) -/
theorem message_eq_parts (e e' : PErr) (h : e.message = e'.message) :
    e.loc.line = e'.loc.line ∧ e.loc.col.getD 0 = e'.loc.col.getD 0 ∧ e.body = e'.body := by
  unfold PErr.message at h
  have hl : lit "): " = [41, 58, 32] := by decide
  rw [hl] at h
  simp only [List.append_assoc, List.cons_append, List.nil_append, List.cons.injEq, true_and] at h
  have d58 : ∀ n : Nat, ∀ c ∈ natToStr n, c ≠ 58 := fun n c hc => by have := natToStr_digit n c hc; omega
  have d41 : ∀ n : Nat, ∀ c ∈ natToStr n, c ≠ 41 := fun n c hc => by have := natToStr_digit n c hc; omega
  obtain ⟨h1, h2⟩ := split_at_sep 58 _ _ _ _ (d58 _) (d58 _) h
  obtain ⟨h3, h4⟩ := split_at_sep 41 _ _ _ _ (d41 _) (d41 _) h2
  simp only [List.cons.injEq, true_and] at h4
  exact ⟨natToStr_inj h1, natToStr_inj h3, h4⟩

end RaggedMsg

/-! ### the tokens of the groups are row tokens of the list -/

theorem runState_mem_aux (bs : List Token) : ∀ (s0 : List (List Token) × List Token) (bs0 : List Token),
    ((∀ run ∈ s0.1, ∀ t ∈ run, t ∈ bs0 ∧ isRowTok t = true) ∧ (∀ t ∈ s0.2, t ∈ bs0 ∧ isRowTok t = true)) →
    ((∀ run ∈ (bs.foldl runStep s0).1, ∀ t ∈ run, t ∈ bs0 ++ bs ∧ isRowTok t = true) ∧
     (∀ t ∈ (bs.foldl runStep s0).2, t ∈ bs0 ++ bs ∧ isRowTok t = true)) := by
  induction bs with
  | nil => intro s0 bs0 h; simpa using h
  | cons b bs ih =>
    intro s0 bs0 h
    have := ih (runStep s0 b) (bs0 ++ [b]) (by
      obtain ⟨h1, h2⟩ := h
      unfold runStep
      split
      · rename_i hb
        refine ⟨fun run hr t ht => ⟨List.mem_append_left _ (h1 run hr t ht).1, (h1 run hr t ht).2⟩, fun t ht => ?_⟩
        rcases List.mem_append.1 ht with ht | ht
        · exact ⟨List.mem_append_left _ (h2 t ht).1, (h2 t ht).2⟩
        · rw [List.mem_singleton] at ht; subst ht
          exact ⟨by simp, hb⟩
      · split
        · exact ⟨fun run hr t ht => ⟨List.mem_append_left _ (h1 run hr t ht).1, (h1 run hr t ht).2⟩,
            fun t ht => ⟨List.mem_append_left _ (h2 t ht).1, (h2 t ht).2⟩⟩
        · refine ⟨fun run hr t ht => ?_, fun t ht => by cases ht⟩
          rcases List.mem_append.1 hr with hr | hr
          · exact ⟨List.mem_append_left _ (h1 run hr t ht).1, (h1 run hr t ht).2⟩
          · obtain ⟨rfl, -⟩ := mem_flushRun.1 hr
            exact ⟨List.mem_append_left _ (h2 t ht).1, (h2 t ht).2⟩)
    simpa [List.foldl_cons, List.append_assoc] using this

/-- every token of every group is a token of the list that was built as a `TableRow` -/
theorem mem_tableRuns_tok {bs : List Token} {run : List Token} (hr : run ∈ tableRuns bs) {t : Token} (ht : t ∈ run) :
    t ∈ bs ∧ t.mtype = some .TableRow := by
  have h := runState_mem_aux bs ([], []) [] ⟨fun _ h => (nomatch h), fun _ h => (nomatch h)⟩
  simp only [List.nil_append] at h
  have key : t ∈ bs ∧ isRowTok t = true := by
    rcases mem_tableRuns.1 hr with hr | ⟨rfl, -⟩
    · exact h.1 run hr t ht
    · exact h.2 t ht
  exact ⟨key.1, by simpa [isRowTok] using key.2⟩

theorem closedRuns_sub {bs : List Token} {run : List Token} (h : run ∈ closedRuns bs) : run ∈ tableRuns bs :=
  mem_tableRuns.2 (.inl h)

/-! ### from "an error with that message" to "that error" -/

theorem bad_not_RB {e : PErr} (h : badE e) (hb : e.body = lit "inconsistent cell count within the table") : False :=
  h.2 (by rw [hb]; exact RB_head)

theorem ragged_mem_of_message {c : Ctx} (hf : RFin c) {run : List Token} (hr : run ∈ tableRuns c.builds)
    {t : Token} (ht : firstDeviating run = some t) {e : PErr} (he : e ∈ c.errors)
    (hm : e.message = (raggedErrAt t).message) : raggedErrAt t ∈ c.errors := by
  have hcol : ∀ {run' : List Token} {t' : Token}, run' ∈ tableRuns c.builds → firstDeviating run' = some t' →
      ∃ col, t'.col = some col := by
    intro run' t' hr' ht'
    obtain ⟨hmem, hty⟩ := mem_tableRuns_tok hr' (firstDeviating_mem ht')
    obtain ⟨l, -, -, h3⟩ := hf.rows t' hmem hty
    exact ⟨_, h3⟩
  rcases hf.err e he with ⟨run', t', hr', ht', rfl⟩ | hbad
  · obtain ⟨h1, h2, -⟩ := RaggedMsg.message_eq_parts _ _ hm
    obtain ⟨c1, hc1⟩ := hcol hr ht
    obtain ⟨c2, hc2⟩ := hcol hr' ht'
    have hloc : t'.loc = t.loc := by
      simp only [raggedErrAt, Token.loc, hc1, hc2, Option.getD_some] at h1 h2
      simp only [Token.loc, hc1, hc2, h1, h2]
    have : raggedErrAt t' = raggedErrAt t := by simp only [raggedErrAt, hloc]
    rw [← this]; exact he
  · exact (bad_not_RB hbad (body_of_message hm)).elim

/-! ### the generic statements -/

section
variable (D : List Dialect) (T : Table) (fuel : Nat) (hT : raggedCheck T fuel = true)
include hT

/-- soundness: a ragged-table error of the outcome is at the first deviating token of a table of `builds` -/
theorem ragged_sound (stop : Bool) (μ : MState) (ids : Nat) (src : Str) (es : List PErr) (comp : Bool)
    (h : (parseWith D T stop μ ids src).1 = .rejected es comp) (e : PErr) (he : e ∈ es)
    (hb : e.body = lit "inconsistent cell count within the table") :
    ∃ run t l, run ∈ tableRuns (parseWith D T stop μ ids src).2.builds ∧ firstDeviating run = some t ∧
      e = raggedErrAt t ∧ t ∈ (parseWith D T stop μ ids src).2.builds ∧ t.mtype = some .TableRow ∧
      t.line = some l ∧ t.items = Spec.cells l ∧ e.loc = ⟨t.lineNo, some (lineIndent l + 1)⟩ := by
  have hr := parseWith_r D T fuel hT stop μ ids src
  rw [h] at hr
  obtain ⟨a, hab, hcase⟩ := hr
  have key : (∃ run t, run ∈ tableRuns (parseWith D T stop μ ids src).2.builds ∧ firstDeviating run = some t ∧
      e = raggedErrAt t) ∧ RFin (parseWith D T stop μ ids src).2 := by
    rcases hcase with ⟨-, e', rfl, rfl⟩ | ⟨-, rfl⟩
    · rw [List.mem_singleton] at he; subst he
      obtain ⟨-, hf, hx⟩ := hab
      rcases hx with hx | hx
      · exact ⟨hx, hf⟩
      · exact (bad_not_RB hx hb).elim
    · obtain ⟨rfl, hf, -⟩ := hab
      rcases hf.err e he with hx | hx
      · exact ⟨hx, hf⟩
      · exact (bad_not_RB hx hb).elim
  obtain ⟨⟨run, t, hrun, ht, rfl⟩, hf⟩ := key
  obtain ⟨hmem, hty⟩ := mem_tableRuns_tok hrun (firstDeviating_mem ht)
  obtain ⟨l, h1, h2, h3⟩ := hf.rows t hmem hty
  refine ⟨run, t, l, hrun, ht, rfl, hmem, hty, h1, by rw [h2, tableCells_eq_spec], ?_⟩
  simp only [raggedErrAt, Token.loc, h3]

/-- completeness, collecting mode -/
theorem ragged_complete (μ : MState) (ids : Nat) (src : Str) (es : List PErr)
    (h : (parseWith D T false μ ids src).1 = .rejected es true) :
    (∀ run ∈ closedRuns (parseWith D T false μ ids src).2.builds, ∀ t, firstDeviating run = some t →
      raggedErrAt t ∈ es) ∧
    (es.length ≤ T.errorCap → ∀ run ∈ tableRuns (parseWith D T false μ ids src).2.builds, ∀ t,
      firstDeviating run = some t → raggedErrAt t ∈ es) := by
  have hr := parseWith_r D T fuel hT false μ ids src
  rw [h] at hr
  obtain ⟨a, hab, hcase⟩ := hr
  rcases hcase with ⟨hc, -⟩ | ⟨-, rfl⟩
  · cases hc
  · obtain ⟨rfl, hf, hall⟩ := hab
    refine ⟨fun run hrun t ht => ?_, fun hle run hrun t ht => ?_⟩
    · obtain ⟨e, he, hm⟩ := hf.comp run hrun t ht
      exact ragged_mem_of_message hf (closedRuns_sub hrun) ht he hm
    · obtain ⟨e, he, hm⟩ := hall hle run hrun t ht
      exact ragged_mem_of_message hf hrun ht he hm

/-- stop mode: whatever the outcome, every table that has been closed by a later built token is
    rectangular -/
theorem ragged_stop (μ : MState) (ids : Nat) (src : Str) (d : Option Doc) (e : PErr)
    (h : (parseWith D T true μ ids src).1 = (match d with | some d => .ok d | none => .rejected [e] false)) :
    ∀ run ∈ closedRuns (parseWith D T true μ ids src).2.builds, firstDeviating run = none := by
  have hr := parseWith_r D T fuel hT true μ ids src
  rw [h] at hr
  have key : RFin (parseWith D T true μ ids src).2 ∧ (parseWith D T true μ ids src).2.errors = [] := by
    cases d with
    | some d => exact ⟨hr.1.1, hr.2⟩
    | none =>
      obtain ⟨a, hab, hcase⟩ := hr
      rcases hcase with ⟨-, e', rfl, -⟩ | ⟨hc, -⟩
      · exact ⟨hab.2.1, hab.1⟩
      · cases hc
  intro run hrun
  cases hd : firstDeviating run with
  | none => rfl
  | some t =>
    obtain ⟨e', he', -⟩ := key.1.comp run hrun t hd
    rw [key.2] at he'; cases he'

/-- accepted documents: every table of `builds` is rectangular, and its row tokens carry the
    cells of their lines -/
theorem ragged_accepted (stop : Bool) (μ : MState) (ids : Nat) (src : Str) (d : Doc)
    (h : (parseWith D T stop μ ids src).1 = .ok d) :
    ∀ run ∈ tableRuns (parseWith D T stop μ ids src).2.builds,
      firstDeviating run = none ∧
      ∀ t ∈ run, t ∈ (parseWith D T stop μ ids src).2.builds ∧ t.mtype = some .TableRow ∧
        ∃ l, t.line = some l ∧ t.items = Spec.cells l ∧ t.col = some (lineIndent l + 1) := by
  have hr := parseWith_r D T fuel hT stop μ ids src
  rw [h] at hr
  obtain ⟨⟨hf, hall⟩, herr⟩ := hr
  intro run hrun
  refine ⟨?_, fun t ht => ?_⟩
  · cases hd : firstDeviating run with
    | none => rfl
    | some t =>
      obtain ⟨e', he', -⟩ := hall run hrun t hd
      rw [herr] at he'; cases he'
  · obtain ⟨hmem, hty⟩ := mem_tableRuns_tok hrun ht
    obtain ⟨l, h1, h2, h3⟩ := hf.rows t hmem hty
    exact ⟨hmem, hty, l, h1, by rw [h2, tableCells_eq_spec], h3⟩

end

end Lemmas
end GV
