/-
  Lemmas/LayoutDoc6Step.lean — case (b2) of goal G3 of property C16, the step for the line BEHIND the
  inserted comment.  Two runs on the same token `t` (not a blank line): the first in a
  description-opening state `s` (row `row1`), the second in its description state `s'` (row `row2`)
  with one open node more — the `Description` the inserted comment has opened.  By the table fact
  `Spec.rowsMatchD` the second run does what the first does, except that
   * it has no `Empty` test (the first run's fails: the line is not blank),
   * for a `Comment`/`Other` line it only builds, where the first opens the description and builds —
     afterwards the builder states are EQUAL;
   * for any other line it first closes the (empty) `Description`, which leaves an extra
     `(Description, "")` item in the node below — afterwards the builder states are related by `BD`.
  The error tail is not reached (`Spec.rowCatches`): `Other` catches every line, `EOF` the end.
-/
import GherkinVerif.Lemmas.LayoutDoc6Sim
import GherkinVerif.Lemmas.LayoutDoc3Indent
namespace GV
namespace Layout6
open Lemmas Spec Layout3 Layout4 Layout5

/-- the second builder state is the first with a `Description` node opened; everything else agrees -/
def R2 (fs2 : List ANode) (c c' : Ctx) : Prop :=
  CtxE c c' ∧ c'.β = c.β.startRule .Description ∧ StackA c'.β.stack fs2

theorem R2.keep {fs2 : List ANode} {c c' d d' : Ctx} (h : R2 fs2 c c') (hE : CtxE d d') (h1 : d.β = c.β)
    (h2 : d'.β = c'.β) : R2 fs2 d d' := ⟨hE, by rw [h1, h2]; exact h.2.1, by rw [h2]; exact h.2.2⟩

theorem Indep.simR2 {α} {m : PM α} (h : Indep m) (fs2 : List ANode) : SimG (R2 fs2) (fun _ d d' => R2 fs2 d d') m m :=
  h.simG (fun _ _ hr => hr.1) fun _ _ _ _ hr hE h1 h2 => hr.keep hE h1 h2

theorem SimG.assume {α} {R : Ctx → Ctx → Prop} {Q : α → Ctx → Ctx → Prop} {m1 m2 : PM α} {P : Prop}
    (h : ∀ c c', R c c' → P) (hs : P → SimG R Q m1 m2) : SimG R Q m1 m2 := fun c c' hr => hs (h c c' hr) c c' hr

/-- the token is not a blank line -/
def NotBlank (ln : Option Str) : Prop := ∀ l, ln = some l → lineIsEmpty l = false

/-- an unguarded test that every line (`Other`) resp. the end of the text (`EOF`) passes -/
def Catches (b : Branch) (ln : Option Str) : Prop :=
  b.guard = none ∧ ((b.kind = .Other ∧ ln ≠ none) ∨ (b.kind = .EOF ∧ ln = none))

def Catch (ln : Option Str) (bs : List Branch) : Prop := ∃ b ∈ bs, Catches b ln

theorem catch_of_rowCatches {bs : List Branch} (h : rowCatches bs = true) (ln : Option Str) : Catch ln bs := by
  unfold rowCatches at h
  simp only [Bool.and_eq_true, List.any_eq_true, beq_iff_eq, Option.isNone_iff_eq_none] at h
  obtain ⟨⟨b1, hb1, hk1, hg1⟩, ⟨b2, hb2, hk2, hg2⟩⟩ := h
  cases ln with
  | none => exact ⟨b1, hb1, hg1, .inr ⟨hk1, rfl⟩⟩
  | some l => exact ⟨b2, hb2, hg2, .inl ⟨hk2, by simp⟩⟩

section step
variable {D : List Dialect}

theorem matchP_line (cap : Nat) (stop : Bool) (K : Kind) (t : Token) (c : Ctx) (r : Bool × Token) (c' : Ctx)
    (h : run (matchP D cap stop K t) c = (.ok r, c')) : r.2.line = t.line := by
  rw [run_matchP] at h
  simp only [] at h
  have hn := matchTok_line' D K c.μ t
  split at h
  · cases h; exact hn
  · cases h; exact hn
  · split at h
    · cases h
    · rename_i e _ _
      rcases hr : run (addError cap e)
        { c with μ := (matchTok D K c.μ t).1.μ, calls := c.calls + (if (matchTok D K c.μ t).2 then 1 else 0) }
        with ⟨x, c2⟩
      rw [hr] at h
      cases x with
      | error e => cases h
      | ok u => cases h; exact hn

theorem matchP_catch (cap : Nat) (stop : Bool) (K : Kind) (t : Token) (c : Ctx) (r : Bool × Token) (c' : Ctx)
    (hc : (K = .Other ∧ t.line ≠ none) ∨ (K = .EOF ∧ t.line = none))
    (h : run (matchP D cap stop K t) c = (.ok r, c')) : r.1 = true := by
  rw [run_matchP] at h
  have hm : (matchTok D K c.μ t).1.res = .matched := by
    unfold matchTok
    rcases hc with ⟨rfl, hl⟩ | ⟨rfl, hl⟩
    · cases hl' : t.line with
      | none => exact absurd hl' hl
      | some l => rfl
    · rw [hl]; rfl
  simp only [hm] at h
  cases h
  rfl

theorem matchP_empty_no (cap : Nat) (stop : Bool) (t : Token) (hn : NotBlank t.line) (c : Ctx) :
    ∃ j, run (matchP D cap stop .Empty t) c = (.ok (false, t), { c with calls := j }) := by
  rw [run_matchP]
  unfold matchTok
  cases hl : t.line with
  | none => exact ⟨_, rfl⟩
  | some l =>
    have he : lineIsEmpty l = false := hn l hl
    simp only [matchLine, he, Bool.false_eq_true, ↓reduceIte]
    exact ⟨_, rfl⟩

end step

/-! ### the builder side -/

theorem itemsD_snoc : ∀ xs : List (Key × Val), ItemsD ValD xs (xs ++ [(.rule .Description, .descr [])])
  | [] => .extraD .nil rfl
  | (k, v) :: xs => .cons k (.refl v) (itemsD_snoc xs)

/-- closing an empty `Description` node puts a `(Description, "")` item into the node below, draws no
    id and raises nothing -/
theorem endRule_emptyDesc (β : BState) (b : Node) (bs : List Node) (hs : β.stack = b :: bs) (n : Nat) :
    (β.startRule .Description).endRule n =
      (.ok (), { β with stack := { b with items := b.items ++ [(.rule .Description, .descr [])] } :: bs }, n) := by
  obtain ⟨st, cm⟩ := β
  simp only at hs
  subst hs
  rfl

/-- the second run closes the description the inserted comment has opened -/
theorem endDesc_step (cap : Nat) (stop : Bool) (t : Token) {fs2 fs' : List ANode}
    (h1 : applyProdA (.end_ .Description) fs2 = some fs') :
    ∀ c c', R2 fs2 c c' → ∃ d', run (runProd cap stop t (.end_ .Description)) c' = (.ok (), d') ∧ RD fs' c d' := by
  intro c c' hr
  obtain ⟨hE, hβ, hA⟩ := hr
  obtain ⟨f, r', g, rest, hfs, -⟩ := applyProdA_end h1
  have hA' : StackA (⟨.Description, []⟩ :: c.β.stack) fs2 := by rw [hβ] at hA; exact hA
  rw [hfs] at hA'
  cases hA' with
  | cons _ ht =>
    cases hs : c.β.stack with
    | nil => rw [hs] at ht; cases ht
    | cons b bs =>
      have hrun : run (runProd cap stop t (.end_ .Description)) c' =
          (.ok (), { c' with β := { c.β with stack := { b with items := b.items ++ [(.rule .Description, .descr [])] } :: bs },
                             ids := c'.ids }) := by
        rw [run_runProd]
        simp only []
        rw [hβ, endRule_emptyDesc c.β b bs hs c'.ids]
        rfl
      refine ⟨_, hrun, ⟨⟨hE.lines, hE.lineNo, hE.errors, hE.μ, hE.ids, hE.unexpected⟩, ?_, rfl⟩, ?_⟩
      · show All2 NodeD c.β.stack _
        rw [hs]
        exact .cons ⟨rfl, itemsD_snoc b.items⟩ (All2.refl (fun a => ⟨rfl, ItemsD.refl _⟩) bs)
      · exact stackA_runProd cap stop t (.end_ .Description) hA h1 hrun

theorem simE_build (cap : Nat) (stop : Bool) (t : Token) :
    SimG (fun d d' => CtxE d d' ∧ d'.β = d.β) (fun _ d d' => CtxD d d') (runProds cap stop t [.build])
      (runProds cap stop t [.build]) := by
  unfold runProds
  refine SimG.bind (Q := fun _ d d' => CtxD d d') ?_ fun _ => ?_
  · intro c c' hr
    obtain ⟨hE, hβ⟩ := hr
    rw [run_runProd, run_runProd]
    simp only []
    rw [hβ]
    cases c.β.build t with
    | ok β' => exact ⟨rfl, ⟨hE.lines, hE.lineNo, hE.errors, hE.μ, hE.ids, hE.unexpected⟩, BD.refl _⟩
    | error e => exact (indep_liftB cap stop _).simD _ _ ⟨hE, by rw [hβ]; exact BD.refl _⟩
  · unfold runProds
    exact SimG.pure _ fun _ _ h => h

/-! ### `match_token`: description-opening state against its description state -/

theorem stepD (D : List Dialect) (T : Table) (stop : Bool) (row1 row2 : StateRow) (fs2 : List ANode) :
    ∀ (bs1 bs2 : List Branch), rowsMatchD bs1 bs2 = true → (∀ b ∈ bs2, ∃ d, applyProdsA b.prods fs2 = some d) →
      ∀ (t : Token), NotBlank t.line → Catch t.line bs1 →
      SimG (R2 fs2) (fun _ d d' => CtxD d d') (tryBranchesPure D T stop row1 bs1 t)
        (tryBranchesPure D T stop row2 bs2 t) := by
  intro bs1
  induction bs1 with
  | nil =>
    intro bs2 _ _ t _ hc
    obtain ⟨b, hb, -⟩ := hc
    cases hb
  | cons b1 r1 ih =>
    intro bs2 hm hbs t hnb hcatch
    unfold rowsMatchD at hm
    by_cases hE : (b1.kind == .Empty) = true
    · rw [if_pos hE] at hm
      have hk : b1.kind = .Empty := beq_kind hE
      have hcatch' : Catch t.line r1 := by
        obtain ⟨b, hb, hc⟩ := hcatch
        cases hb with
        | head =>
          exfalso
          rcases hc.2 with ⟨h, -⟩ | ⟨h, -⟩ <;> rw [hk] at h <;> cases h
        | tail _ hb' => exact ⟨b, hb', hc⟩
      rw [tryBranchesPure, hk]
      refine SimG.skip_left (R' := R2 fs2) (false, t) ?_ ?_
      · intro c c' hr
        obtain ⟨j, hj⟩ := matchP_empty_no (D := D) T.errorCap stop t hnb c
        exact ⟨_, hj, ⟨hr.1.lines, hr.1.lineNo, hr.1.errors, hr.1.μ, hr.1.ids, hr.1.unexpected⟩, hr.2.1, hr.2.2⟩
      · simp only [Bool.false_eq_true, ↓reduceIte]
        exact ih bs2 hm hbs t hnb hcatch'
    · rw [if_neg hE] at hm
      cases bs2 with
      | nil => cases hm
      | cons b2 r2 =>
        simp only [Bool.and_eq_true, beq_iff_eq] at hm
        obtain ⟨⟨⟨⟨hk, hg⟩, htg⟩, hprods⟩, hrec⟩ := hm
        have hbs' : ∀ b ∈ r2, ∃ d, applyProdsA b.prods fs2 = some d := fun b h => hbs b (List.mem_cons_of_mem _ h)
        obtain ⟨d2, hd2⟩ := hbs b2 List.mem_cons_self
        unfold tryBranchesPure
        rw [← hk, ← hg, ← htg]
        refine SimG.bind ((((indep_matchP D T.errorCap stop b1.kind t).simR2 fs2)).and_right
          (P := fun mt _ => mt.2.line = t.line ∧ (Catches b1 t.line → mt.1 = true))
          fun c c' a d' _ hrun => ⟨matchP_line _ _ _ _ _ _ _ hrun,
            fun hc => matchP_catch _ _ _ _ _ _ _ hc.2 hrun⟩) fun mt => ?_
        obtain ⟨m, t'⟩ := mt
        dsimp only
        refine SimG.assume (fun _ _ h => h.2) fun hfacts => ?_
        obtain ⟨hline, hm1⟩ := hfacts
        refine SimG.weaken ?_ (fun _ _ h => h.1) (fun _ _ _ h => h)
        have recur : ¬ Catches b1 t.line → SimG (R2 fs2) (fun _ d d' => CtxD d d')
            (tryBranchesPure D T stop row1 r1 t') (tryBranchesPure D T stop row2 r2 t') := by
          intro hnc
          refine ih r2 hrec hbs' t' (by rw [hline]; exact hnb) ?_
          rw [hline]
          obtain ⟨b, hb, hc⟩ := hcatch
          cases hb with
          | head => exact absurd hc hnc
          | tail _ hb' => exact ⟨b, hb', hc⟩
        -- the branch is taken
        have take : SimG (R2 fs2) (fun _ d d' => CtxD d d')
            (do runProds T.errorCap stop t' b1.prods; Pure.pure b1.target : PM Nat)
            (do runProds T.errorCap stop t' b2.prods; Pure.pure b1.target : PM Nat) := by
          by_cases hCO : (b1.kind == .Comment || b1.kind == .Other) = true
          · rw [if_pos hCO] at hprods
            simp only [Bool.and_eq_true, beq_iff_eq] at hprods
            obtain ⟨hp1, hp2⟩ := hprods
            rw [hp1, hp2]
            refine SimG.bind (Q := fun _ d d' => CtxD d d') ?_ fun _ => SimG.pure _ fun _ _ h => h
            rw [show runProds T.errorCap stop t' [.start .Description, .build] =
              (runProd T.errorCap stop t' (.start .Description) >>= fun _ => runProds T.errorCap stop t' [.build]) from rfl]
            refine SimG.skip_left (R' := fun d d' => CtxE d d' ∧ d'.β = d.β) () ?_ (simE_build _ _ _)
            intro c c' hr
            refine ⟨{ c with β := c.β.startRule .Description }, by rw [run_runProd], ?_, hr.2.1⟩
            exact ⟨hr.1.lines, hr.1.lineNo, hr.1.errors, hr.1.μ, hr.1.ids, hr.1.unexpected⟩
          · rw [if_neg hCO] at hprods
            simp only [beq_iff_eq] at hprods
            rw [hprods] at hd2 ⊢
            simp only [applyProdsA] at hd2
            cases h1 : applyProdA (.end_ .Description) fs2 with
            | none => rw [h1] at hd2; cases hd2
            | some fs' =>
              rw [h1] at hd2
              simp only [Option.bind_some] at hd2
              refine SimG.bind (Q := fun _ d d' => RD d2 d d') ?_ fun _ => SimG.pure _ fun _ _ h => h.1
              rw [show runProds T.errorCap stop t' (.end_ .Description :: b1.prods) =
                (runProd T.errorCap stop t' (.end_ .Description) >>= fun _ => runProds T.errorCap stop t' b1.prods) from rfl]
              exact SimG.skip_right (R' := RD fs') () (endDesc_step T.errorCap stop t' h1)
                (simD_runProds T.errorCap stop t' b1.prods hd2)
        have cont : ∀ ok : Bool, (ok = false → ¬ Catches b1 t.line) → SimG (R2 fs2) (fun _ d d' => CtxD d d')
            (if ok = true then (do runProds T.errorCap stop t' b1.prods; Pure.pure b1.target : PM Nat)
              else tryBranchesPure D T stop row1 r1 t')
            (if ok = true then (do runProds T.errorCap stop t' b2.prods; Pure.pure b1.target : PM Nat)
              else tryBranchesPure D T stop row2 r2 t') := by
          intro ok hok
          cases ok with
          | false =>
            simp only [Bool.false_eq_true, ↓reduceIte]
            exact recur (hok rfl)
          | true =>
            simp only [↓reduceIte]
            exact take
        cases m with
        | false =>
          simp only [Bool.false_eq_true, ↓reduceIte]
          exact recur fun hc => by cases hm1 hc
        | true =>
          simp only [↓reduceIte]
          cases hgd : b1.guard with
          | none =>
            refine SimG.bind (Q := fun ok d d' => R2 fs2 d d' ∧ ok = true) (SimG.pure true fun _ _ h => ⟨h, rfl⟩) fun ok => ?_
            refine SimG.assume (fun _ _ h => h.2) fun hok => ?_
            exact (cont ok fun hf => by rw [hok] at hf; cases hf).weaken (fun _ _ h => h.1) (fun _ _ _ h => h)
          | some i =>
            have hnc : ¬ Catches b1 t.line := fun hc => by have := hc.1; rw [hgd] at this; cases this
            simp only []
            cases T.lookaheads[i]? with
            | none => exact SimG.bind (SimG.throw _ fun _ _ h => h.1) fun ok => cont ok fun _ => hnc
            | some la =>
              exact SimG.bind ((indep_lookaheadPure D T.errorCap stop la).simR2 fs2) fun ok => cont ok fun _ => hnc

end Layout6
end GV
