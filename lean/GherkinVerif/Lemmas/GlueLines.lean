/-
  Lemmas/GlueLines.lean — every reported error lies within the document (C01_error_lines).

  Invariants: the tokens in the queue and in the builder carry line numbers between 1 and
  (number of lines + 1); the scanner makes the end-of-file token only once as long as the main
  loop has not consumed it (a look-ahead stops at it and re-queues it); the errors of the matcher,
  of the error tail and of the builder are located at such tokens.
-/
import GherkinVerif.Lemmas.GlueTerm
import GherkinVerif.Lemmas.GlueBuilder
namespace GV
namespace Lemmas

/-- a line number within a document of `nL` lines (the end-of-file token is on line `nL + 1`) -/
def InR (nL x : Nat) : Prop := 1 ≤ x ∧ x ≤ nL + 1

def ErrsOK (nL : Nat) (c : Ctx) : Prop := ∀ e ∈ c.errors, InR nL e.loc.line

def ThrownOK (nL : Nat) (a : Abort) : Prop :=
  match a with
  | .single e => InR nL e.loc.line
  | .composite es => ∀ e ∈ es, InR nL e.loc.line
  | .crash _ => True
  | .fuel => True

/-- weak token condition: line tokens are in range (an end-of-file token never raises) -/
def TokW (nL : Nat) (t : Token) : Prop := t.line ≠ none → InR nL t.lineNo

/-- always true of the scanner: queued line tokens are in range, unread lines are counted -/
def ScanW (nL : Nat) (q : List Token) (c : Ctx) : Prop :=
  (∀ t ∈ q, TokW nL t) ∧ (c.lines = [] ∨ c.lineNo + c.lines.length = nL)

/-- true until the main loop consumes the end-of-file token: all queued tokens are in range and
    the scanner has made at most one end-of-file token, which is still around -/
def ScanK (nL : Nat) (q : List Token) (c : Ctx) : Prop :=
  (∀ t ∈ q, InR nL t.lineNo) ∧
  (c.lineNo + c.lines.length = nL ∨ (c.lines = [] ∧ c.lineNo = nL + 1 ∧ ∃ t ∈ q, t.line = none))

/-- the invariant, for the tokens `q` (queue plus what a look-ahead holds in hand) -/
def LIq (nL : Nat) (s : Prop) (q : List Token) (c : Ctx) : Prop :=
  ErrsOK nL c ∧ StackOK (fun t => InR nL t.lineNo) c.β.stack ∧ ScanW nL q c ∧ (s → ScanK nL q c)

def LI (nL : Nat) (s : Prop) (c : Ctx) : Prop := LIq nL s c.queue c

theorem LI.weaken {nL : Nat} {s : Prop} {c : Ctx} (h : LI nL s c) : LI nL False c :=
  ⟨h.1, h.2.1, h.2.2.1, fun hf => hf.elim⟩

/-! ### errors -/

/-- `m` keeps the error list in range and throws only in-range errors -/
def ErrStep {α} (nL : Nat) (m : PM α) : Prop :=
  ∀ c r c', run m c = (r, c') → ErrsOK nL c →
    ErrsOK nL c' ∧ match r with | .ok _ => True | .error a => ThrownOK nL a

theorem addError_errStep (nL cap : Nat) (e : PErr) (he : InR nL e.loc.line) : ErrStep nL (addError cap e) := by
  intro c r c' hr hc
  rw [run_addError] at hr
  have hall : ∀ x ∈ c.errors ++ [e], InR nL x.loc.line := by
    intro x hx
    rcases List.mem_append.1 hx with hx | hx
    · exact hc x hx
    · simp only [List.mem_singleton] at hx; subst hx; exact he
  split at hr
  · cases hr; exact ⟨hc, trivial⟩
  · split at hr
    · cases hr; exact ⟨hall, hall⟩
    · cases hr; exact ⟨hall, trivial⟩

theorem matchLine_raised (D : List Dialect) (k : Kind) (μ : MState) (t : Token) (l : Str) (e : PErr)
    (h : (matchLine D k μ t l).res = .raised e) : e.loc.line = t.lineNo := by
  cases k <;> simp only [matchLine] at h
  all_goals repeat' split at h
  all_goals first | (cases h; done) | (cases h; rfl)

theorem matchTok_raised (D : List Dialect) (k : Kind) (μ : MState) (t : Token) (e : PErr)
    (h : (matchTok D k μ t).1.res = .raised e) : t.line ≠ none ∧ e.loc.line = t.lineNo := by
  unfold matchTok at h
  split at h
  · split at h <;> cases h
  · rename_i l hl
    exact ⟨(by rw [hl]; intro h'; cases h'), matchLine_raised D k μ t l e h⟩

theorem matchP_errStep (nL : Nat) (D : List Dialect) (cap : Nat) (stop : Bool) (k : Kind) (t : Token)
    (ht : TokW nL t) : ErrStep nL (matchP D cap stop k t) := by
  intro c r c' hr hc
  rw [run_matchP] at hr
  dsimp only at hr
  split at hr
  · cases hr; exact ⟨hc, trivial⟩
  · cases hr; exact ⟨hc, trivial⟩
  · rename_i e he
    obtain ⟨hline, hloc⟩ := matchTok_raised D k c.μ t e he
    have hin : InR nL e.loc.line := by rw [hloc]; exact ht hline
    split at hr
    · cases hr; exact ⟨hc, hin⟩
    · rcases hr2 : run (addError cap e) _ with ⟨r2, c2⟩
      rw [hr2] at hr
      have := addError_errStep nL cap e hin _ _ _ hr2 hc
      cases r2 with
      | ok _ => cases hr; exact ⟨this.1, trivial⟩
      | error a => cases hr; exact this

theorem TokKeep.tokW {nL : Nat} {t : Token} {r : Bool × Token} (h : TokKeep t r) (ht : TokW nL t) : TokW nL r.2 := by
  intro hl
  rw [h.2]
  exact ht (by rw [← h.1]; exact hl)

theorem matchAny_errStep (nL : Nat) (D : List Dialect) (cap : Nat) (stop : Bool) (ks : List Kind) (t : Token)
    (ht : TokW nL t) : ErrStep nL (matchAny D cap stop ks t) := by
  induction ks generalizing t with
  | nil => intro c r c' hr hc; rw [GV.matchAny, prun_pure] at hr; cases hr; exact ⟨hc, trivial⟩
  | cons k ks ih =>
    intro c r c' hr hc
    rw [GV.matchAny, prun_bind] at hr
    rcases hr1 : run (matchP D cap stop k t) c with ⟨r1, c1⟩
    rw [hr1] at hr
    have h1 := matchP_errStep nL D cap stop k t ht _ _ _ hr1 hc
    cases r1 with
    | error a => cases hr; exact h1
    | ok r1 =>
      obtain ⟨m, t'⟩ := r1
      have ht' := (matchP_tok D cap stop k t c _ c1 hr1).tokW ht
      dsimp only at hr ht'
      split at hr
      · rw [prun_pure] at hr; cases hr; exact ⟨h1.1, trivial⟩
      · exact ih t' ht' _ _ _ hr h1.1

/-! ### transport of the invariant -/

theorem LIq.footM {nL : Nat} {s : Prop} {q : List Token} {c c' : Ctx} (h : LIq nL s q c) (hf : FootM c c')
    (he : ErrsOK nL c') : LIq nL s q c' := by
  obtain ⟨_, _, _, rfl⟩ := hf
  exact ⟨he, h.2.1, h.2.2.1, h.2.2.2⟩

theorem unexpectedErr_line (row : StateRow) (t : Token) : (unexpectedErr row t).loc.line = t.lineNo := by
  unfold unexpectedErr
  split
  · rfl
  · dsimp only
    split
    · split <;> rfl
    · rfl

/-! ### the look-ahead -/

/-- what one `read_token` of a look-ahead does to the invariant (tokens `acc` in hand) -/
theorem li_read_step (nL : Nat) (s : Prop) (c c1 : Ctx) (t : Token) (acc : List Token)
    (hacc : ∀ x ∈ acc, x.line ≠ none) (h : LIq nL s (c.queue ++ acc) c)
    (hread : (∃ q, c.queue = t :: q ∧ c1 = { c with queue := q }) ∨
     (c.queue = [] ∧ t = { line := c.lines.head?, lineNo := c.lineNo + 1 } ∧
      c1 = { c with lines := c.lines.tail, lineNo := c.lineNo + 1 })) :
    TokW nL t ∧ ErrsOK nL c1 ∧
    ∀ t2 : Token, t2.line = t.line → t2.lineNo = t.lineNo → ∀ c3, FootM c1 c3 → ErrsOK nL c3 →
      LIq nL s (c3.queue ++ (acc ++ [t2])) c3 := by
  obtain ⟨herr, hst, ⟨hw1, hw2⟩, hk⟩ := h
  rcases hread with ⟨q, hq, rfl⟩ | ⟨hq, rfl, rfl⟩
  · rw [hq] at hw1 hk
    have htw : TokW nL t := hw1 t (by simp)
    refine ⟨htw, herr, ?_⟩
    intro t2 hl2 hn2 c3 hf he3
    obtain ⟨_, _, _, rfl⟩ := hf
    dsimp only
    have hmem : ∀ x ∈ q ++ (acc ++ [t2]), x = t2 ∨ x ∈ (t :: q) ++ acc := by
      intro x hx
      simp only [List.mem_append, List.mem_cons, List.not_mem_nil, or_false] at hx ⊢
      rcases hx with hx | hx | hx
      · exact .inr (.inl (.inr hx))
      · exact .inr (.inr hx)
      · exact .inl hx
    refine ⟨he3, hst, ⟨?_, hw2⟩, fun hs => ?_⟩
    · intro x hx
      rcases hmem x hx with rfl | hx
      · intro hl; rw [hn2]; exact htw (by rw [← hl2]; exact hl)
      · exact hw1 x hx
    · obtain ⟨hk1, hk2⟩ := hk hs
      refine ⟨?_, ?_⟩
      · intro x hx
        rcases hmem x hx with rfl | hx
        · rw [hn2]; exact hk1 t (by simp)
        · exact hk1 x hx
      · rcases hk2 with hk2 | ⟨h1, h2, x, hx, hxl⟩
        · exact .inl hk2
        · refine .inr ⟨h1, h2, ?_⟩
          simp only [List.mem_append, List.mem_cons] at hx
          rcases hx with (rfl | hx) | hx
          · exact ⟨t2, by simp, by rw [hl2]; exact hxl⟩
          · exact ⟨x, by simp [hx], hxl⟩
          · exact ⟨x, by simp [hx], hxl⟩
  · rw [hq] at hw1 hk
    simp only [List.nil_append] at hw1 hk
    have htw : TokW nL { line := c.lines.head?, lineNo := c.lineNo + 1 } := by
      intro hl
      dsimp only at hl ⊢
      cases hls : c.lines with
      | nil => rw [hls] at hl; exact absurd rfl hl
      | cons l ls =>
        rw [hls] at hw2
        rcases hw2 with hw2 | hw2
        · cases hw2
        · simp only [List.length_cons] at hw2
          exact ⟨by omega, by omega⟩
    refine ⟨htw, herr, ?_⟩
    intro t2 hl2 hn2 c3 hf he3
    obtain ⟨_, _, _, rfl⟩ := hf
    dsimp only at hl2 hn2 ⊢
    rw [hq]
    simp only [List.nil_append]
    have hw2' : c.lines.tail = [] ∨ c.lineNo + 1 + c.lines.tail.length = nL := by
      cases hls : c.lines with
      | nil => exact .inl rfl
      | cons l ls =>
        rw [hls] at hw2
        rcases hw2 with hw2 | hw2
        · cases hw2
        · simp only [List.length_cons] at hw2
          right; simp only [List.tail_cons]; omega
    refine ⟨he3, hst, ⟨?_, hw2'⟩, fun hs => ?_⟩
    · intro x hx
      rcases List.mem_append.1 hx with hx | hx
      · exact hw1 x hx
      · simp only [List.mem_singleton] at hx
        subst hx
        intro hl; rw [hn2]; exact htw (by rw [← hl2]; exact hl)
    · obtain ⟨hk1, hk2⟩ := hk hs
      have hk2 : c.lineNo + c.lines.length = nL := by
        rcases hk2 with hk2 | ⟨_, _, x, hx, hxl⟩
        · exact hk2
        · exact absurd hxl (hacc x hx)
      refine ⟨?_, ?_⟩
      · intro x hx
        rcases List.mem_append.1 hx with hx | hx
        · exact hk1 x hx
        · simp only [List.mem_singleton] at hx
          subst hx
          rw [hn2]; exact ⟨by omega, by omega⟩
      · cases hls : c.lines with
        | nil =>
          rw [hls] at hk2 hl2
          simp only [List.length_nil, Nat.add_zero] at hk2
          refine .inr ⟨rfl, (by show c.lineNo + 1 = nL + 1; omega), t2, by simp, ?_⟩
          rw [hl2]; rfl
        | cons l ls =>
          rw [hls] at hk2
          simp only [List.length_cons] at hk2
          left; simp only [List.tail_cons]; omega

theorem lookaheadLoop_lines (nL : Nat) (s : Prop) (D : List Dialect) (cap : Nat) (stop : Bool) (la : LookAhead)
    (h2 : Kind.EOF ∉ la.skip) :
    ∀ (fuel : Nat) (acc : List Token) (c : Ctx), (∀ x ∈ acc, x.line ≠ none) →
      LIq nL s (c.queue ++ acc) c →
      ∀ r c', run (lookaheadLoop D cap stop la fuel acc) c = (r, c') →
        match r with
        | .ok (_, read) => LIq nL s (c'.queue ++ read) c'
        | .error a => ThrownOK nL a := by
  intro fuel
  induction fuel with
  | zero => intro acc c _ _ r c' h; rw [lookaheadLoop, prun_throw] at h; cases h; trivial
  | succ n ih =>
    intro acc c hacc hli r c' h
    rw [lookaheadLoop, prun_bind] at h
    obtain ⟨t, c1, hr0, hread⟩ := readToken_cases c
    rw [hr0] at h
    dsimp only at h
    obtain ⟨htw, he1, hstep⟩ := li_read_step nL s c c1 t acc hacc hli hread
    rw [prun_bind] at h
    rcases hr1 : run (matchAny D cap stop la.expected t) c1 with ⟨r1, c2⟩
    rw [hr1] at h
    have hE1 := matchAny_errStep nL D cap stop _ t htw _ _ _ hr1 he1
    have hf1 := matchAny_foot D cap stop _ _ _ _ _ hr1
    cases r1 with
    | error a => cases h; exact hE1.2
    | ok r1 =>
      obtain ⟨m1, t1⟩ := r1
      have hts1 := matchAny_tok D cap stop _ _ _ _ _ hr1
      have htw1 := hts1.tokW htw
      dsimp only at h htw1
      split at h
      · rw [prun_pure] at h; cases h
        exact hstep t1 hts1.1 hts1.2 _ hf1 hE1.1
      · rw [prun_bind] at h
        rcases hr2 : run (matchAny D cap stop la.skip t1) c2 with ⟨r2, c3⟩
        rw [hr2] at h
        have hE2 := matchAny_errStep nL D cap stop _ t1 htw1 _ _ _ hr2 hE1.1
        have hf2 := hf1.trans (matchAny_foot D cap stop _ _ _ _ _ hr2)
        cases r2 with
        | error a => cases h; exact hE2.2
        | ok r2 =>
          obtain ⟨sk, t2⟩ := r2
          have hts2 := matchAny_tok D cap stop _ _ _ _ _ hr2
          have hl2 : t2.line = t.line := hts2.1.trans hts1.1
          have hn2 : t2.lineNo = t.lineNo := hts2.2.trans hts1.2
          dsimp only at h
          split at h
          · rename_i hsk
            have hline : t2.line ≠ none := by
              intro hnone
              obtain ⟨_, he⟩ := matchAny_eof D cap stop la.skip h2 t1 (by rw [← hts2.1]; exact hnone) c2
              rw [hr2] at he
              cases he
              cases hsk
            refine ih (acc ++ [t2]) c3 ?_ (hstep t2 hl2 hn2 _ hf2 hE2.1) r c' h
            intro x hx
            rcases List.mem_append.1 hx with hx | hx
            · exact hacc x hx
            · simp only [List.mem_singleton] at hx; subst hx; exact hline
          · rw [prun_pure] at h; cases h
            exact hstep t2 hl2 hn2 _ hf2 hE2.1

theorem lookahead_lines (nL : Nat) (s : Prop) (D : List Dialect) (cap : Nat) (stop : Bool) (la : LookAhead)
    (h2 : Kind.EOF ∉ la.skip) :
    Inv (LI nL s) (fun a _ => ThrownOK nL a) (lookahead D cap stop la) := by
  refine Triple.intro fun c r c' hc hr => ?_
  rw [lookahead, prun_bind, run_get] at hr
  dsimp only at hr
  rw [prun_bind] at hr
  rcases hl : run (lookaheadLoop D cap stop la (c.queue.length + c.lines.length + 2) []) c with ⟨r1, c1⟩
  rw [hl] at hr
  have := lookaheadLoop_lines nL s D cap stop la h2 _ [] c (fun _ hx => by cases hx)
    (by rw [List.append_nil]; exact hc) _ _ hl
  cases r1 with
  | error e => cases hr; exact this
  | ok r1 =>
    obtain ⟨m, read⟩ := r1
    dsimp only at hr this
    rw [prun_bind, run_modify] at hr
    dsimp only at hr
    rw [prun_pure] at hr
    cases hr
    exact this

/-! ### productions -/

theorem liftB_lines (nL : Nat) (s : Prop) (cap : Nat) (stop : Bool) (x : Except BErr Unit)
    (hx : ∀ e, x = .error (.ast e) → InR nL e.loc.line) :
    Inv (LI nL s) (fun a _ => ThrownOK nL a) (liftB cap stop x) := by
  refine Triple.intro fun c r c' hc hr => ?_
  rw [run_liftB] at hr
  split at hr
  · cases hr; exact hc
  · cases hr; trivial
  · rename_i e
    split at hr
    · cases hr; exact hx e rfl
    · have := addError_errStep nL cap e (hx e rfl) _ _ _ hr hc.1
      have hf := (addError_foot _ _ _ _ _ hr).toM
      cases r with
      | ok _ => exact LIq.footM (by obtain ⟨_, _, _, rfl⟩ := hf; exact hc) hf this.1
      | error a => exact this.2

theorem runProd_lines (nL : Nat) (s : Prop) (cap : Nat) (stop : Bool) (t : Token) (p : Prod)
    (ht : p = .build → InR nL t.lineNo) :
    Inv (LI nL s) (fun a _ => ThrownOK nL a) (runProd cap stop t p) := by
  refine Triple.intro fun c r c' hc hr => ?_
  rw [run_runProd] at hr
  split at hr
  · cases hr
    exact ⟨hc.1, hc.2.1.startRule _, hc.2.2.1, hc.2.2.2⟩
  · have hend := hc.2.1.endRule c.ids
    have hc1 : LI nL s { c with β := (c.β.endRule c.ids).2.1, ids := (c.β.endRule c.ids).2.2 } :=
      ⟨hc.1, hend.1, hc.2.2.1, hc.2.2.2⟩
    have := liftB_lines nL s cap stop (c.β.endRule c.ids).1
      (fun e he => by obtain ⟨t', ht', hl⟩ := hend.2 e he; rw [hl]; exact ht') _ hc1
    cases r with
    | ok a => exact this.1 _ _ hr
    | error a => exact this.2 _ _ hr
  · split at hr
    · rename_i β' hb
      cases hr
      exact ⟨hc.1, hc.2.1.build (ht rfl) hb, hc.2.2.1, hc.2.2.2⟩
    · rename_i e hb
      obtain ⟨w, rfl⟩ := build_error _ _ _ hb
      rw [run_liftB] at hr
      cases hr
      trivial

/-! ### the state functions -/

theorem matchP_lines (nL : Nat) (s : Prop) (D : List Dialect) (cap : Nat) (stop : Bool) (k : Kind) (t : Token)
    (ht : TokW nL t) :
    Triple (LI nL s) (matchP D cap stop k t) (fun r c => TokKeep t r ∧ LI nL s c) (fun a _ => ThrownOK nL a) := by
  refine Triple.intro fun c r c' hc hr => ?_
  have hE := matchP_errStep nL D cap stop k t ht _ _ _ hr hc.1
  have hf := matchP_foot D cap stop k t _ _ _ hr
  cases r with
  | ok a =>
    exact ⟨matchP_tok D cap stop k t _ _ _ hr, LIq.footM (by obtain ⟨_, _, _, rfl⟩ := hf; exact hc) hf hE.1⟩
  | error a => exact hE.2

/-- what the main loop's `read_token` does to the invariant -/
theorem li_main_read (nL : Nat) (c c1 : Ctx) (t : Token) (h : LI nL True c)
    (hread : (∃ q, c.queue = t :: q ∧ c1 = { c with queue := q }) ∨
     (c.queue = [] ∧ t = { line := c.lines.head?, lineNo := c.lineNo + 1 } ∧
      c1 = { c with lines := c.lines.tail, lineNo := c.lineNo + 1 })) :
    InR nL t.lineNo ∧ LI nL (t.line ≠ none) c1 := by
  obtain ⟨herr, hst, ⟨hw1, hw2⟩, hk⟩ := h
  obtain ⟨hk1, hk2⟩ := hk trivial
  rcases hread with ⟨q, hq, rfl⟩ | ⟨hq, rfl, rfl⟩
  · rw [hq] at hw1 hk1 hk2
    refine ⟨hk1 t (by simp), herr, hst, ⟨fun x hx => hw1 x (by simp [hx]), hw2⟩, fun hs => ?_⟩
    refine ⟨fun x hx => hk1 x (by simp [hx]), ?_⟩
    rcases hk2 with hk2 | ⟨h1, h2, x, hx, hxl⟩
    · exact .inl hk2
    · refine .inr ⟨h1, h2, x, ?_, hxl⟩
      rcases List.mem_cons.1 hx with rfl | hx
      · exact absurd hxl hs
      · exact hx
  · rw [hq] at hk2
    have hk2 : c.lineNo + c.lines.length = nL := by
      rcases hk2 with hk2 | ⟨_, _, x, hx, _⟩
      · exact hk2
      · cases hx
    refine ⟨⟨by dsimp only; omega, by dsimp only; omega⟩, herr, hst, ?_, fun hs => ?_⟩
    · dsimp only [LI]
      rw [hq]
      refine ⟨fun x hx => (by cases hx), ?_⟩
      cases hls : c.lines with
      | nil => exact .inl rfl
      | cons l ls =>
        rw [hls] at hk2
        simp only [List.length_cons] at hk2
        right; simp only [List.tail_cons]; omega
    · dsimp only at hs ⊢
      rw [hq]
      refine ⟨fun x hx => (by cases hx), ?_⟩
      cases hls : c.lines with
      | nil => rw [hls] at hs; exact absurd rfl hs
      | cons l ls =>
        rw [hls] at hk2
        simp only [List.length_cons] at hk2
        left; simp only [List.tail_cons]; omega

section
variable (nL : Nat) (D : List Dialect) (T : Table) (hT : Spec.lookaheadsStopAtEOF T = true) (stop : Bool)
include hT

theorem tryBranches_lines (s : Prop) (row : StateRow) (bs : List Branch) (t : Token) (ht : InR nL t.lineNo) :
    Inv (LI nL s) (fun a _ => ThrownOK nL a) (tryBranches D T stop row bs t) := by
  induction bs generalizing t with
  | nil =>
    unfold tryBranches
    have hin : InR nL (unexpectedErr row t).loc.line := by rw [unexpectedErr_line]; exact ht
    refine Triple.bind (Q := fun _ => LI nL s) (Triple.modify _ fun c hc => hc) fun _ => ?_
    split
    · exact Triple.throw _ fun _ _ => hin
    · refine Inv.bind (Triple.intro fun c r c' hc hr => ?_) fun _ => Inv.pure _
      have := addError_errStep nL _ _ hin _ _ _ hr hc.1
      have hf := (addError_foot _ _ _ _ _ hr).toM
      cases r with
      | ok _ => exact LIq.footM (by obtain ⟨_, _, _, rfl⟩ := hf; exact hc) hf this.1
      | error a => exact this.2
  | cons b bs ih =>
    unfold tryBranches
    refine Triple.bind (matchP_lines nL s D T.errorCap stop b.kind t fun _ => ht) fun r => ?_
    obtain ⟨m, t'⟩ := r
    refine Triple.of_forall fun c0 hc0 => ?_
    have ht' : InR nL t'.lineNo := by rw [hc0.1.2]; exact ht
    refine Triple.conseq (P := LI nL s) ?_ (fun c h => by rw [h]; exact hc0.2) (fun _ _ h => h) (fun _ _ h => h)
    dsimp only
    split
    · have cont : ∀ ok : Bool, Inv (LI nL s) (fun a _ => ThrownOK nL a) (if ok = true then do
            GV.runProds T.errorCap stop t' b.prods
            pure b.target
          else GV.tryBranches D T stop row bs t') := by
        intro ok
        split
        · exact Inv.bind (Inv.runProds _ fun p _ => runProd_lines nL s _ stop t' p fun _ => ht') fun _ => Inv.pure _
        · exact ih t' ht'
      split
      · exact Inv.bind (Inv.pure _) cont
      · split
        · rename_i hla
          exact Inv.bind (lookahead_lines nL s D _ stop _ (lookaheads_noEOF T hT _ _ hla).2) cont
        · exact Inv.bind (Triple.throw _ fun _ _ => trivial) cont
    · exact ih t' ht'

theorem matchToken_lines (s : Prop) (state : Nat) (t : Token) (ht : InR nL t.lineNo) :
    Inv (LI nL s) (fun a _ => ThrownOK nL a) (matchToken D T stop state t) := by
  unfold matchToken
  split
  · exact tryBranches_lines nL D T hT stop s _ _ t ht
  · exact Triple.throw _ fun _ _ => trivial

theorem parseLoop_lines (fuel state : Nat) :
    Triple (LI nL True) (parseLoop D T stop fuel state) (fun _ => LI nL False) (fun a _ => ThrownOK nL a) := by
  induction fuel generalizing state with
  | zero => exact Triple.throw _ fun _ _ => trivial
  | succ n ih =>
    unfold parseLoop
    refine Triple.bind (Q := fun t c => InR nL t.lineNo ∧ LI nL (t.line ≠ none) c) ?_ fun t => ?_
    · refine Triple.intro fun c r c' hc hr => ?_
      obtain ⟨t, c1, hr0, hread⟩ := readToken_cases c
      rw [hr0] at hr; cases hr
      exact li_main_read nL c c' t hc hread
    refine Triple.of_forall fun c0 hc0 => ?_
    have ht := hc0.1
    refine Triple.conseq (P := LI nL (t.line ≠ none)) ?_ (fun c h => by rw [h]; exact hc0.2)
      (fun _ _ h => h) (fun _ _ h => h)
    refine Triple.bind (Q := fun _ => LI nL (t.line ≠ none)) (Triple.modify _ fun c hc => hc) fun _ => ?_
    refine Triple.bind (matchToken_lines nL D T hT stop _ _ t ht) fun st => ?_
    split
    · exact Triple.pure _ fun _ h => h.weaken
    · rename_i heof
      have hline : t.line ≠ none := by
        intro hl; simp [Token.eof, hl] at heof
      exact Triple.conseq (ih st) (fun c h => ⟨h.1, h.2.1, h.2.2.1, fun _ => h.2.2.2 hline⟩)
        (fun _ _ h => h) (fun _ _ h => h)

theorem parseBody_lines (n : Nat) :
    Triple (LI nL True) (parseBody D T stop n) (fun _ _ => True) (fun a _ => ThrownOK nL a) := by
  unfold parseBody
  refine Triple.bind (Q := fun _ => LI nL True)
    (Triple.modify _ fun c hc => ⟨hc.1, hc.2.1.startRule _, hc.2.2.1, hc.2.2.2⟩) fun _ => ?_
  refine Triple.bind (parseLoop_lines nL D T hT stop _ _) fun _ => ?_
  refine Triple.bind (runProd_lines nL False _ stop _ _ fun h => by cases h) fun _ => ?_
  refine Triple.bind Triple.get fun c0 => ?_
  dsimp only
  split
  · refine Triple.bind (Q := fun _ _ => False) (Triple.throw _ fun c hc => ?_) fun _ _ h => h.elim
    obtain ⟨rfl, hc⟩ := hc
    exact hc.1
  · split
    · exact Triple.pure _ fun _ _ => trivial
    · exact Triple.throw _ fun _ _ => trivial
    · exact Triple.throw _ fun _ _ => trivial
    · rename_i e he
      exact absurd he (result_not_ast _ _)

end

theorem li_ctx0 (D : List Dialect) (μ : MState) (ids : Nat) (src : Str) :
    LI (splitLines src).length True (ctx0 D μ ids src) := by
  refine ⟨fun e he => (by cases he), ?_, ⟨fun x hx => (by cases hx), .inr (by simp [ctx0])⟩,
    fun _ => ⟨fun x hx => (by cases hx), .inl (by simp [ctx0])⟩⟩
  intro node hn k t hm
  simp only [ctx0, BState.reset, List.mem_singleton] at hn
  subst hn
  cases hm

theorem parse_error_lines (D : List Dialect) (T : Table) (hT : Spec.lookaheadsStopAtEOF T = true)
    (stop : Bool) (μ : MState) (ids : Nat) (src : Str) (es : List PErr) (comp : Bool)
    (h : (parseWith D T stop μ ids src).1 = .rejected es comp) :
    ∀ e ∈ es, 1 ≤ e.loc.line ∧ e.loc.line ≤ (splitLines src).length + 1 := by
  have hb := parseBody_lines (splitLines src).length D T hT stop (splitLines src).length
    (ctx0 D μ ids src) (li_ctx0 D μ ids src)
  rw [parseWith_eq] at h
  rcases hr : run (parseBody D T stop (splitLines src).length) (ctx0 D μ ids src) with ⟨r, c⟩
  rw [hr] at h
  cases r with
  | ok d => cases h
  | error a =>
    have ha := hb.2 a c hr
    cases a with
    | single e =>
      cases h
      intro e' he'
      simp only [List.mem_singleton] at he'
      subst he'
      exact ha
    | composite es' => cases h; exact ha
    | crash w => cases h
    | fuel => cases h

end Lemmas
end GV
