/-
  Lemmas/QueueFacts.lean — the Boolean table facts of Spec/QueueFacts.lean in the form the
  queue argument uses them (`QF`).
-/
import GherkinVerif.Lemmas.QueueOrder
namespace GV
namespace Lemmas
open Spec

/-- number of guarded tests in a list of tests -/
def nG (bs : List Branch) : Nat := (bs.filter fun b => b.guard.isSome).length

theorem nG_cons_none {b : Branch} {bs : List Branch} (h : b.guard = none) : nG (b :: bs) = nG bs := by
  unfold nG; rw [List.filter_cons_of_neg (by simp [h])]

theorem nG_cons_some {b : Branch} {bs : List Branch} {i : Nat} (h : b.guard = some i) : nG (b :: bs) = nG bs + 1 := by
  unfold nG; rw [List.filter_cons_of_pos (by simp [h])]; rfl

theorem nG_cons_le (b : Branch) (bs : List Branch) : nG bs ≤ nG (b :: bs) := by
  cases h : b.guard with
  | none => rw [nG_cons_none h]; exact Nat.le_refl _
  | some i => rw [nG_cons_some h]; exact Nat.le_succ _

theorem le_foldl_max (l : List Nat) : ∀ (init : Nat), init ≤ l.foldl max init ∧ ∀ x ∈ l, x ≤ l.foldl max init := by
  induction l with
  | nil => intro init; exact ⟨Nat.le_refl _, fun x hx => by cases hx⟩
  | cons a l ih =>
    intro init
    rw [List.foldl_cons]
    obtain ⟨h1, h2⟩ := ih (max init a)
    refine ⟨Nat.le_trans (Nat.le_max_left _ _) h1, fun x hx => ?_⟩
    rcases List.mem_cons.1 hx with rfl | hx
    · exact Nat.le_trans (Nat.le_max_right _ _) h1
    · exact h2 x hx

/-- the facts, unfolded -/
structure QF (D : List Dialect) (T : Table) : Prop where
  plain : keywordsPlainStart D = true
  skAll : (skipList T).all isSkipKind = true
  la : ∀ (i : Nat) (la : LookAhead), T.lookaheads[i]? = some la →
    la.skip = skipList T ∧ la.expected.all Kind.isTitle = true ∧ laCost la ≤ maxLookaheadTests T
  tagRow : ∀ s row, isTag T s = true → T.row? s = some row →
    (∀ b ∈ row.branches, b.guard = none ∧ stableKind b.kind = true ∧
      (isSkipKind b.kind = true → isTag T b.target = true)) ∧ isTag T row.errTarget = true
  rows : ∀ s row, T.row? s = some row →
    guardTail T row.branches = true ∧ row.branches.length ≤ maxTests T ∧ nG row.branches ≤ maxGuards T

theorem QF.of_facts {D : List Dialect} {T : Table} (hD : queueDialectFacts D = true) (hT : queueFacts T = true) :
    QF D T := by
  simp only [queueFacts, Bool.and_eq_true] at hT
  obtain ⟨⟨hU, hC⟩, hG⟩ := hT
  simp only [lookaheadsUniform, List.all_eq_true, Bool.and_eq_true, beq_iff_eq] at hU
  simp only [tagClosed, List.all_eq_true, Bool.or_eq_true, Bool.not_eq_true', Bool.and_eq_true] at hC
  simp only [guardsFollowed, List.all_eq_true] at hG
  refine ⟨hD, ?_, ?_, ?_, ?_⟩
  · cases hl : T.lookaheads with
    | nil => simp [skipList, hl]
    | cons la rest =>
      have := hU la (by rw [hl]; exact List.mem_cons_self ..)
      simp only [skipList, hl]
      rw [List.all_eq_true]
      exact this.1.2
  · intro i la hla
    have hmem : la ∈ T.lookaheads := List.mem_of_getElem? hla
    obtain ⟨⟨h1, -⟩, h3⟩ := hU la hmem
    refine ⟨h1, by rw [List.all_eq_true]; exact h3, ?_⟩
    exact (le_foldl_max _ 0).2 _ (List.mem_map.2 ⟨la, hmem, rfl⟩)
  · intro s row hs hrow
    have hmem : row ∈ T.rows := List.mem_of_find?_eq_some hrow
    have htr : isTagRow row = true := by
      unfold isTag at hs; rw [hrow] at hs; exact hs
    rcases hC row hmem with h | ⟨h1, h2⟩
    · rw [htr] at h; cases h
    · refine ⟨fun b hb => ?_, h2⟩
      simp only [isTagRow, List.all_eq_true, Bool.and_eq_true, Option.isNone_iff_eq_none] at htr
      refine ⟨(htr b hb).1, (htr b hb).2, fun hk => ?_⟩
      rcases h1 b hb with h | h
      · rw [hk] at h; cases h
      · exact h
  · intro s row hrow
    have hmem : row ∈ T.rows := List.mem_of_find?_eq_some hrow
    refine ⟨hG row hmem, ?_, ?_⟩
    · exact (le_foldl_max _ 0).2 _ (List.mem_map.2 ⟨row, hmem, rfl⟩)
    · exact (le_foldl_max _ 0).2 _ (List.mem_map.2 ⟨row, hmem, rfl⟩)

theorem mm_tagLine_none (D : List Dialect) (μ : MState) : mm D .TagLine μ none = false := rfl

end Lemmas
end GV
