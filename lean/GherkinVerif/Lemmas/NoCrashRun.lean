/-
  Lemmas/NoCrashRun.lean — crash-freedom of the parser for EVERY run (property C01, "no other
  exception type ever escapes"), part 1: the abstract interpretation and the builder side.

  The builder's stack of open nodes is abstracted to a list of frames `(rule, present)`:
  the rule type of the open node and the `Spec.required` children it is KNOWN to hold already
  (must-information); the matcher is abstracted to one Boolean, "inside a doc string".
  `nexecProd` executes one production symbolically and fails where the builder could crash:
  `end_rule` on a node whose required children are not all known to be present, `build` /
  `end_rule` on a too short stack, `build` of a doc-string separator as the first separator of a
  `DocString` node while the matcher is inside a doc string (that separator would be a closing
  one, without media type).  A node whose `transform_node` may raise the ragged-table error is
  dropped in collecting mode (recorded, popped, not added to its parent), so a finished child is
  only *known* to be present when its rule type is in `sureRules` (`transform_node` cannot raise).

  A typing `σ` maps each state of the table to an abstract stack and the doc-string flag;
  `noCrashCheck` computes it by exploration from the start state and checks every branch of every
  state, the glue's own crash sites (a target without row, a guard without look-ahead), and what
  the final `end_rule` after the loop needs of EVERY state (the loop may end anywhere on an
  unexpected end of file).  Generic: no reference to the generated table.

  This file: definitions; `STyped` (the concrete stack is typed by an abstract one: same rule
  types, known children present, `NodeInv` on every open node); one production preserves it or
  raises the ragged-table error, never a crash (`runProd_safe`, `runProds_safe`).
-/
import GherkinVerif.Lemmas.NoCrash
import GherkinVerif.Lemmas.GlueBase
namespace GV
namespace Spec
open GV.Lemmas

/-- an abstract frame: the rule type of an open node and the required children known present -/
abbrev NFrame := RuleType × List Sym
/-- abstract stack (innermost first, the builder's `None` root last) and "inside a doc string" -/
abbrev NTy := List NFrame × Bool
abbrev NTyping := List (Nat × NTy)

/-- rule types whose `transform_node` cannot raise: the raw ones and the document -/
def sureRules : List RuleType :=
  [.None_, .StepArg, .DescriptionHelper, .FeatureHeader, .RuleHeader, .Scenario, .Examples, .Tags,
   .GherkinDocument]

/-- record a child as present if the rule requires it -/
def addSym (r : RuleType) (ks : List Sym) (x : Sym) : List Sym :=
  if (required r).contains x && !ks.contains x then ks ++ [x] else ks

/-- one production on an abstract stack; `k` is the kind of the test that succeeded, `d` whether
    the matcher was inside a doc string before that test -/
def nexecProd (k : Kind) (d : Bool) : List NFrame → Prod → Option (List NFrame)
  | st, .start r => some ((r, []) :: st)
  | (r, ks) :: st, .build =>
    if k = .Comment then some ((r, ks) :: st)
    else if r = .DocString ∧ k = .DocStringSeparator ∧ ks.contains (Sym.tok k) = false ∧ d = true then none
    else some ((r, addSym r ks (.tok k)) :: st)
  | (r, ks) :: (p, ps) :: st, .end_ _ =>
    if (required r).all ks.contains then
      some ((p, if sureRules.contains r then addSym p ps (.rule r) else ps) :: st)
    else none
  | _, _ => none

def nexecProds (k : Kind) (d : Bool) : List NFrame → List Prod → Option (List NFrame)
  | a, [] => some a
  | a, p :: ps =>
    match nexecProd k d a p with
    | none => none
    | some a' => nexecProds k d a' ps

def nlookup : NTyping → Nat → Option NTy
  | [], _ => none
  | (s', a) :: rest, s => if s' = s then some a else nlookup rest s

/-- `a'` knows at least what `a` knows -/
def subFrames : List NFrame → List NFrame → Bool
  | [], [] => true
  | (r', ks') :: a', (r, ks) :: a => decide (r' = r) && ks.all ks'.contains && subFrames a' a
  | _, _ => false

/-- what the final `end_rule` needs: the top node has its required children and is not the root -/
def topOK : List NFrame → Bool
  | (r, ks) :: _ :: _ => (required r).all ks.contains
  | _ => false

/-- after an end-of-file branch only the document node is open -/
def eofFinal : List NFrame → Bool
  | [(r, _), _] => decide (r = .GherkinDocument)
  | _ => false

/-- a successful `match_DocStringSeparator` toggles the doc-string mode; no other test touches it -/
def flipD (k : Kind) (d : Bool) : Bool := if k = .DocStringSeparator then !d else d

/-- one branch: a guard refers to an existing look-ahead that does not test doc-string
    separators (and the guarded test is not that test either); the productions run without
    crash and lead to (something at least as informative as) the typing of the target; the
    target has a row, or — on end of file — is left with the document node only -/
def nbranchOK (T : Table) (σ : NTyping) (a : List NFrame) (d : Bool) (b : Branch) : Bool :=
  (match b.guard with
   | none => true
   | some i => decide (b.kind ≠ .DocStringSeparator) &&
      match T.lookaheads[i]? with
      | some la => !(la.expected ++ la.skip).contains .DocStringSeparator
      | none => false) &&
  (match nexecProds b.kind d a b.prods with
   | none => false
   | some a' =>
     match nlookup σ b.target with
     | none => false
     | some (a'', d'') => decide (d'' = flipD b.kind d) && subFrames a' a'' &&
        (if b.kind = .EOF then eofFinal a'' else (T.row? b.target).isSome))

def nstateOK (T : Table) (σ : NTyping) (p : Nat × NTy) : Bool :=
  topOK p.2.1 &&
  match T.row? p.1 with
  | none => true
  | some row => decide (row.errTarget = p.1) && row.branches.all (nbranchOK T σ p.2.1 p.2.2)

def ntypingOK (T : Table) (σ : NTyping) : Bool :=
  decide (nlookup σ 0 = some ([(T.startRule, []), (.None_, [])], false)) && (T.row? 0).isSome &&
  σ.all (nstateOK T σ)

def nsucc (T : Table) (s : Nat) (a : List NFrame) (d : Bool) : NTyping :=
  match T.row? s with
  | none => []
  | some row => row.branches.filterMap fun b =>
      match nexecProds b.kind d a b.prods with
      | some a' => some (b.target, (a', flipD b.kind d))
      | none => none

def nexplore (T : Table) : Nat → NTyping → NTyping → NTyping
  | 0, _, σ => σ
  | _ + 1, [], σ => σ
  | n + 1, (s, (a, d)) :: todo, σ =>
    match nlookup σ s with
    | some _ => nexplore T n todo σ
    | none => nexplore T n (nsucc T s a d ++ todo) ((s, (a, d)) :: σ)

/-- the typing computed from the start state: the start rule's node on the builder's root -/
def ncompute (T : Table) (fuel : Nat) : NTyping :=
  nexplore T fuel [(0, ([(T.startRule, []), (.None_, [])], false))] []

/-- the whole check: compute the typing, then verify it -/
def noCrashCheck (T : Table) (fuel : Nat) : Bool := ntypingOK T (ncompute T fuel)

end Spec

namespace Lemmas
namespace NC
open Spec

/-! ### the typing relation -/

/-- invariant on an open node: `GoodItems`; the first separator of a `DocString` node is an
    opening one; whatever is stored under `GherkinDocument` is a document -/
def NodeInv (n : Node) : Prop :=
  GoodItems n.items ∧
  (n.rt = .DocString → ∀ sep rest, getTokens n.items .DocStringSeparator = sep :: rest → sep.text.isSome = true) ∧
  (∀ v, (Key.rule .GherkinDocument, v) ∈ n.items → ∃ d, v = .doc d)

def FrameTyped (f : NFrame) (n : Node) : Prop :=
  f.1 = n.rt ∧ (∀ x ∈ f.2, getItems n.items (symKey x) ≠ []) ∧ NodeInv n

def STyped : List NFrame → List Node → Prop
  | [], [] => True
  | f :: a, n :: c => FrameTyped f n ∧ STyped a c
  | _, _ => False

theorem FrameTyped.weaken {r : RuleType} {ks ks' : List Sym} {n : Node} (h : FrameTyped (r, ks') n)
    (hs : ∀ x ∈ ks, x ∈ ks') : FrameTyped (r, ks) n :=
  ⟨h.1, fun x hx => h.2.1 x (hs x hx), h.2.2⟩

theorem STyped.sub : ∀ {a' a : List NFrame} {c : List Node}, subFrames a' a = true → STyped a' c → STyped a c
  | [], [], c, _, h => h
  | [], _ :: _, _, hs, _ => by simp [subFrames] at hs
  | _ :: _, [], _, hs, _ => by simp [subFrames] at hs
  | (r', ks') :: a', (r, ks) :: a, [], _, h => h.elim
  | (r', ks') :: a', (r, ks) :: a, n :: c, hs, h => by
    simp only [subFrames, Bool.and_eq_true, decide_eq_true_eq, List.all_eq_true, List.contains_iff_mem] at hs
    obtain ⟨⟨rfl, hk⟩, hrest⟩ := hs
    exact ⟨h.1.weaken hk, STyped.sub hrest h.2⟩

theorem STyped.weakenTop {p : RuleType} {ks ks' : List Sym} {a : List NFrame} {c : List Node}
    (h : STyped ((p, ks') :: a) c) (hs : ∀ x ∈ ks, x ∈ ks') : STyped ((p, ks) :: a) c := by
  cases c with
  | nil => exact h.elim
  | cons n c => exact ⟨h.1.weaken hs, h.2⟩

theorem mem_addSym {r : RuleType} {ks : List Sym} {x y : Sym} (h : y ∈ addSym r ks x) : y ∈ ks ∨ y = x := by
  unfold addSym at h
  split at h
  · rcases List.mem_append.1 h with h | h
    · exact Or.inl h
    · exact Or.inr (by simpa using h)
  · exact Or.inl h

theorem nodeInv_empty (r : RuleType) : NodeInv ⟨r, []⟩ :=
  ⟨goodItems_nil, fun _ sep rest h => by simp [getTokens, getItems] at h, fun _ h => (nomatch h)⟩

theorem styped_start {a : List NFrame} {st : List Node} (r : RuleType) (h : STyped a st) :
    STyped ((r, []) :: a) (⟨r, []⟩ :: st) :=
  ⟨⟨rfl, fun _ hx => (nomatch hx), nodeInv_empty r⟩, h⟩

/-! ### `build` -/

/-- what a successful test of kind `k`, made while the matcher's doc-string mode was `d`, hands
    to the builder -/
def TokOK (k : Kind) (d : Bool) (t : Token) : Prop :=
  t.mtype = some k ∧ WellMatched t ∧ (k = .DocStringSeparator → t.text.isSome = !d)

theorem getTokens_rule_item (r : RuleType) (v : Val) (k : Kind) : getTokens [(Key.rule r, v)] k = [] := by
  simp [getTokens, getItems]

theorem getTokens_tok_item (k k' : Kind) (t : Token) :
    getTokens [(Key.tok k, Val.tok t)] k' = if k = k' then [t] else [] := by
  by_cases h : k = k'
  · subst h; simp [getTokens, getItems]
  · simp [getTokens, getItems, h]

/-- adding a well-matched token of kind `k` to an open node -/
theorem frameTyped_addTok {r : RuleType} {ks : List Sym} {n : Node} {k : Kind} {d : Bool} {t : Token}
    (h : FrameTyped (r, ks) n) (ht : TokOK k d t)
    (hdoc : ¬ (r = .DocString ∧ k = .DocStringSeparator ∧ ks.contains (Sym.tok k) = false ∧ d = true)) :
    FrameTyped (r, addSym r ks (.tok k)) { n with items := n.items ++ [(.tok k, .tok t)] } := by
  obtain ⟨hr, hp, hg, hd, hdc⟩ := h
  simp only at hr
  refine ⟨hr, ?_, ⟨?_, ?_⟩, ?_, ?_⟩
  · intro x hx
    show getItems (n.items ++ _) (symKey x) ≠ []
    rw [getItems_append]
    rcases mem_addSym hx with hx | rfl
    · intro e; exact hp x hx (List.append_eq_nil_iff.1 e).1
    · intro e
      have := (List.append_eq_nil_iff.1 e).2
      simp [getItems, symKey] at this
  · intro k' v hm
    rcases List.mem_append.1 hm with hm | hm
    · exact hg.1 k' v hm
    · simp only [List.mem_singleton, Prod.mk.injEq, Key.tok.injEq] at hm
      obtain ⟨rfl, rfl⟩ := hm
      exact ⟨t, rfl, ht.1, ht.2.1⟩
  · intro r' v hm
    rcases List.mem_append.1 hm with hm | hm
    · exact hg.2 r' v hm
    · simp only [List.mem_singleton, Prod.mk.injEq, reduceCtorEq, false_and] at hm
  · intro hrt sep rest hs
    have hrt' : n.rt = .DocString := hrt
    rw [show ({ n with items := n.items ++ [(Key.tok k, Val.tok t)] } : Node).items
      = n.items ++ [(Key.tok k, Val.tok t)] from rfl, getTokens_append, getTokens_tok_item] at hs
    cases hold : getTokens n.items .DocStringSeparator with
    | cons s0 r0 =>
      rw [hold] at hs
      simp only [List.cons_append, List.cons.injEq] at hs
      rw [← hs.1]
      exact hd hrt' s0 r0 hold
    | nil =>
      rw [hold] at hs
      by_cases hk : k = .DocStringSeparator
      · subst hk
        simp only [if_true, List.nil_append, List.cons.injEq] at hs
        rw [← hs.1]
        have hks : ks.contains (Sym.tok .DocStringSeparator) = false := by
          cases hc : ks.contains (Sym.tok .DocStringSeparator) with
          | false => rfl
          | true =>
            exfalso
            have := hp _ (List.contains_iff_mem.1 hc)
            exact getTokens_ne_nil hg.1 .DocStringSeparator this hold
        have hd' : d = false := by
          cases d with
          | false => rfl
          | true => exact absurd ⟨hr.trans hrt', rfl, hks, rfl⟩ hdoc
        rw [ht.2.2 rfl, hd']; rfl
      · simp [hk] at hs
  · intro v hm
    rcases List.mem_append.1 hm with hm | hm
    · exact hdc v hm
    · simp only [List.mem_singleton, Prod.mk.injEq, reduceCtorEq, false_and] at hm

/-- `build` on a typed stack -/
theorem build_typed {k : Kind} {d : Bool} {a a' : List NFrame} {β : BState} {t : Token}
    (hex : nexecProd k d a .build = some a') (hty : STyped a β.stack) (ht : TokOK k d t) :
    ∃ β', β.build t = .ok β' ∧ STyped a' β'.stack := by
  cases a with
  | nil => simp [nexecProd] at hex
  | cons f a =>
    obtain ⟨r, ks⟩ := f
    cases hst : β.stack with
    | nil => rw [hst] at hty; exact hty.elim
    | cons n st =>
      rw [hst] at hty
      obtain ⟨hf, hrest⟩ := hty
      simp only [nexecProd] at hex
      by_cases hc : k = .Comment
      · subst hc
        simp only [if_true, Option.some.injEq] at hex
        subst hex
        have hf' := fieldsRead_of t _ ht.1 ht.2.1
        simp only [fieldsRead, Option.isSome_iff_exists] at hf'
        obtain ⟨tx, htx⟩ := hf'
        refine ⟨{ β with comments := β.comments ++ [{ loc := getLocation t, text := tx }] }, ?_, ?_⟩
        · simp only [BState.build, ht.1, htx]
        · show STyped _ β.stack
          rw [hst]; exact ⟨hf, hrest⟩
      · simp only [hc, if_false] at hex
        split at hex
        · cases hex
        · next hdoc =>
          simp only [Option.some.injEq] at hex
          subst hex
          refine ⟨{ β with stack := { n with items := n.items ++ [(.tok k, .tok t)] } :: st }, ?_, ?_⟩
          · unfold BState.build
            rw [ht.1]
            split
            · next heq => simp only [Option.some.injEq] at heq; exact absurd heq hc
            · next k' _ heq =>
              simp only [Option.some.injEq] at heq; subst heq
              simp only [hst, addToTop]
            · next heq => cases heq
          · exact ⟨frameTyped_addTok hf ht hdoc, hrest⟩

/-! ### `end_rule` -/

theorem sure_ok (cs : List Comment) (r : RuleType) (is : List (Key × Val)) (n : Nat)
    (h : sureRules.contains r = true) : ∃ v, ((transformNode cs ⟨r, is⟩).run.run n).1 = .ok v := by
  cases r <;> first | exact ⟨_, rfl⟩ | exact absurd h (by decide)

theorem doc_val (cs : List Comment) (is : List (Key × Val)) (n : Nat) (v : Val)
    (h : ((transformNode cs ⟨.GherkinDocument, is⟩).run.run n).1 = .ok v) : ∃ d, v = .doc d := by
  rw [document_eq] at h
  simp only [Except.ok.injEq] at h
  exact ⟨_, h.symm⟩

/-- adding the value of a finished child to its parent -/
theorem frameTyped_addVal {p : RuleType} {ps : List Sym} {m : Node} {R : RuleType} {v : Val}
    (h : FrameTyped (p, ps) m) (hv : GoodVal R v) (hdv : R = .GherkinDocument → ∃ d, v = .doc d) :
    FrameTyped (p, addSym p ps (.rule R)) { m with items := m.items ++ [(.rule R, v)] } := by
  obtain ⟨hr, hp, hg, hd, hdc⟩ := h
  simp only at hr
  refine ⟨hr, ?_, ⟨?_, ?_⟩, ?_, ?_⟩
  · intro x hx
    show getItems (m.items ++ _) (symKey x) ≠ []
    rw [getItems_append]
    rcases mem_addSym hx with hx | rfl
    · intro e; exact hp x hx (List.append_eq_nil_iff.1 e).1
    · intro e
      have := (List.append_eq_nil_iff.1 e).2
      simp [getItems, symKey] at this
  · intro k' v' hm
    rcases List.mem_append.1 hm with hm | hm
    · exact hg.1 k' v' hm
    · simp only [List.mem_singleton, Prod.mk.injEq, reduceCtorEq, false_and] at hm
  · intro r' v' hm
    rcases List.mem_append.1 hm with hm | hm
    · exact hg.2 r' v' hm
    · simp only [List.mem_singleton, Prod.mk.injEq, Key.rule.injEq] at hm
      obtain ⟨rfl, rfl⟩ := hm
      exact hv
  · intro hrt sep rest hs
    have hrt' : m.rt = .DocString := hrt
    rw [show ({ m with items := m.items ++ [(Key.rule R, v)] } : Node).items
      = m.items ++ [(Key.rule R, v)] from rfl, getTokens_append, getTokens_rule_item, List.append_nil] at hs
    exact hd hrt' sep rest hs
  · intro v' hm
    rcases List.mem_append.1 hm with hm | hm
    · exact hdc v' hm
    · simp only [List.mem_singleton, Prod.mk.injEq, Key.rule.injEq] at hm
      obtain ⟨rfl, rfl⟩ := hm
      exact hdv rfl

/-- `end_rule` on a typed stack whose top node has its required children: the node's value is
    added to the parent, or the ragged-table error is raised (never for a rule in `sureRules`)
    and the node is dropped -/
theorem endRule_typed {r p : RuleType} {ks ps : List Sym} {a : List NFrame} {β : BState} (ids : Nat)
    (hreq : (required r).all ks.contains = true) (hty : STyped ((r, ks) :: (p, ps) :: a) β.stack) :
    ((β.endRule ids).1 = .ok () ∧ STyped ((p, addSym p ps (.rule r)) :: a) (β.endRule ids).2.1.stack ∧
      ∀ m' st', (β.endRule ids).2.1.stack = m' :: st' → getItems m'.items (.rule r) ≠ []) ∨
    (∃ e, (β.endRule ids).1 = .error (.ast e) ∧ sureRules.contains r = false ∧
      STyped ((p, ps) :: a) (β.endRule ids).2.1.stack) := by
  cases hst : β.stack with
  | nil => rw [hst] at hty; exact hty.elim
  | cons n st =>
    cases st with
    | nil => rw [hst] at hty; exact hty.2.elim
    | cons m st =>
      rw [hst] at hty
      obtain ⟨hf, hfm, hrest⟩ := hty
      obtain ⟨R, is⟩ := n
      obtain ⟨hR, hpres, hinv⟩ := hf
      simp only at hR hpres
      subst hR
      have hreq' : NodeReq r is := by
        refine ⟨?_, fun hd => hinv.2.1 hd⟩
        intro x hx
        exact hpres x (List.contains_iff_mem.1 (List.all_eq_true.1 hreq x hx))
      have hno := node_outcome β.comments r is ids hinv.1 hreq'
      unfold BState.endRule
      simp only [hst]
      rcases hrun : (transformNode β.comments ⟨r, is⟩).run.run ids with ⟨res, n'⟩
      rw [hrun] at hno
      cases res with
      | ok v =>
        left
        rcases hno with ⟨v', hv', hgv⟩ | ⟨_, h, _⟩
        · simp only [Except.ok.injEq] at hv'; subst hv'
          simp only [addToTop]
          refine ⟨trivial, ⟨frameTyped_addVal hfm hgv ?_, hrest⟩, ?_⟩
          · intro hr; subst hr
            exact doc_val β.comments is ids v (by rw [hrun])
          · intro m' st' he
            simp only [List.cons.injEq] at he
            rw [← he.1]
            show getItems (m.items ++ [(Key.rule r, v)]) (.rule r) ≠ []
            rw [getItems_snoc_same]; simp
        · cases h
      | error e =>
        right
        rcases hno with ⟨_, h, _⟩ | ⟨e', he', _⟩
        · cases h
        · simp only [Except.error.injEq] at he'
          subst he'
          refine ⟨e', rfl, ?_, hfm, hrest⟩
          cases hs : sureRules.contains r with
          | false => rfl
          | true =>
            obtain ⟨v, hv⟩ := sure_ok β.comments r is ids hs
            rw [hrun] at hv; cases hv

/-! ### one production through the glue -/

/-- an abort that is not the crash outcome -/
def NoCrashE (e : Abort) (_ : Ctx) : Prop := ∀ w, e ≠ .crash w

theorem addError_nocrash (cap : Nat) (e : PErr) (c : Ctx) (r : Except Abort Unit) (c' : Ctx)
    (h : run (addError cap e) c = (r, c')) :
    c'.β = c.β ∧ c'.μ = c.μ ∧ c'.errors ≠ [] ∧ match r with | .ok _ => True | .error x => NoCrashE x c' := by
  rw [run_addError] at h
  split at h
  · next hany =>
    cases h
    refine ⟨rfl, rfl, ?_, trivial⟩
    intro he; rw [he] at hany; simp at hany
  · split at h
    · cases h; exact ⟨rfl, rfl, by simp, fun w hw => by cases hw⟩
    · cases h; exact ⟨rfl, rfl, by simp, trivial⟩

/-- One production on a typed stack: the stack stays typed (by the symbolic result) and the
    matcher is untouched, or the run aborts with a parser error — never with a crash. -/
theorem runProd_safe {k : Kind} {d : Bool} {a a' : List NFrame} {p : Prod} (cap : Nat) (stop : Bool) (t : Token)
    (μ0 : MState) (hex : nexecProd k d a p = some a') (ht : TokOK k d t) :
    Triple (fun c => STyped a c.β.stack ∧ c.μ = μ0) (runProd cap stop t p)
      (fun _ c => STyped a' c.β.stack ∧ c.μ = μ0) NoCrashE := by
  refine Triple.intro fun c r c' hc hr => ?_
  obtain ⟨hty, hμ⟩ := hc
  rw [run_runProd] at hr
  cases p with
  | start x =>
    dsimp only at hr
    cases hr
    simp only [nexecProd, Option.some.injEq] at hex
    subst hex
    exact ⟨styped_start x hty, hμ⟩
  | build =>
    dsimp only at hr
    obtain ⟨β', hb, hty'⟩ := build_typed hex hty ht
    rw [hb] at hr
    dsimp only at hr
    cases hr
    exact ⟨hty', hμ⟩
  | end_ x =>
    dsimp only at hr
    cases a with
    | nil => simp [nexecProd] at hex
    | cons f a =>
      obtain ⟨r0, ks⟩ := f
      cases a with
      | nil => simp [nexecProd] at hex
      | cons g a =>
        obtain ⟨p0, ps⟩ := g
        simp only [nexecProd] at hex
        split at hex
        · next hreq =>
          simp only [Option.some.injEq] at hex
          subst hex
          rcases endRule_typed c.ids hreq hty with ⟨hok, hty', -⟩ | ⟨e, herr, hns, hty'⟩
          · rw [hok, run_liftB] at hr
            dsimp only at hr
            cases hr
            refine ⟨?_, hμ⟩
            split
            · exact hty'
            · exact hty'.weakenTop fun x hx => by unfold addSym; split <;> simp [hx]
          · rw [herr, run_liftB] at hr
            dsimp only at hr
            simp only [hns, Bool.false_eq_true, if_false]
            cases stop with
            | true =>
              simp only [if_true] at hr
              cases hr
              intro w hw; cases hw
            | false =>
              simp only [Bool.false_eq_true, if_false] at hr
              obtain ⟨hβ, hμ', _, hres⟩ := addError_nocrash _ _ _ _ _ hr
              cases r with
              | ok u => exact ⟨by rw [hβ]; exact hty', by rw [hμ']; exact hμ⟩
              | error e' => exact hres
        · cases hex

theorem runProds_safe {k : Kind} {d : Bool} (cap : Nat) (stop : Bool) (t : Token) (μ0 : MState) (ht : TokOK k d t) :
    ∀ (ps : List Prod) {a a' : List NFrame}, nexecProds k d a ps = some a' →
      Triple (fun c => STyped a c.β.stack ∧ c.μ = μ0) (runProds cap stop t ps)
        (fun _ c => STyped a' c.β.stack ∧ c.μ = μ0) NoCrashE
  | [], a, a', hex => by
    simp only [nexecProds, Option.some.injEq] at hex
    subst hex
    exact Triple.pure _ fun _ h => h
  | p :: ps, a, a', hex => by
    simp only [nexecProds] at hex
    split at hex
    · cases hex
    · next a1 h1 =>
      unfold runProds
      exact Triple.bind (runProd_safe cap stop t μ0 h1 ht) fun _ => runProds_safe cap stop t μ0 ht ps hex

end NC
end Lemmas
end GV
