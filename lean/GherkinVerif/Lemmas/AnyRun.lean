/-
  Lemmas/AnyRun.lean — a run invariant of the queue-free parse (Spec/PureParse.lean) that holds on
  EVERY run: accepted, rejected in either error mode, aborted by the error cap, crashed.

  `Spec.BuiltOK D L t`: the token `t` is the end-of-file token of the document with the physical
  lines `L`, or the output of a successful `match_<K>` on the FRESH token of its own physical line
  (the vocabulary of `Spec.LineToks`, Lemmas/ParseDoc.lean) under a matcher state whose dialect is
  one of the table.

  `Core D L n c`: the main loop has taken `n` lines: scanner position, `reads = 1 … n`, matcher
  dialect in the table, every built token `BuiltOK`.  `J n G c = Core n c ∧ G c` with `G` one of the
  ghost-only predicates `Full` / `Pending n` of Lemmas/GluePartition.lean (every line read has been
  built or reported / all but the line in hand).  Aborts satisfy `AE`: every built token is
  `BuiltOK`, and a composite abort with at most `cap` errors happened at the very end of the parse
  (`Full`, all `|L| + 1` tokens read).
-/
import GherkinVerif.Lemmas.ParseDoc
import GherkinVerif.Lemmas.GluePartition
namespace GV
namespace Spec

/-- a raw token of the document with the physical lines `L`: the end-of-file token, or line
    `t.lineNo` with its text -/
def SrcTok (L : List Str) (t : Token) : Prop :=
  (t.line = none ∧ t.lineNo = L.length + 1) ∨
  (∃ l, L[t.lineNo - 1]? = some l ∧ 1 ≤ t.lineNo ∧ t.line = some l)

/-- the end-of-file token as handed to the builder -/
def EofTok (L : List Str) (t : Token) : Prop :=
  t.line = none ∧ t.mtype = some .EOF ∧ t.lineNo = L.length + 1

/-- the matcher's output on the fresh token of the physical line `t.lineNo` -/
def LineTok (D : List Dialect) (L : List Str) (t : Token) : Prop :=
  ∃ l, L[t.lineNo - 1]? = some l ∧ 1 ≤ t.lineNo ∧ t.line = some l ∧
    ∃ K μi, μi.dialect ∈ D ∧ (matchLine D K μi (freshTok l t.lineNo) l).res = .matched ∧
      t = (matchLine D K μi (freshTok l t.lineNo) l).tok ∧ t.mtype = some K

def BuiltOK (D : List Dialect) (L : List Str) (t : Token) : Prop := EofTok L t ∨ LineTok D L t

end Spec

namespace AnyRun
open Lemmas Spec

theorem assumeT {α} {P : Ctx → Prop} {m : PM α} {Q : α → Ctx → Prop} {E} {φ : Prop}
    (hφ : ∀ c, P c → φ) (h : φ → Triple P m Q E) : Triple P m Q E := fun c hc => h (hφ c hc) c hc

/-! ### one test on a token of the source -/

theorem srcTok_match {D : List Dialect} {L : List Str} {k : Kind} {μ : MState} {t : Token} (ht : SrcTok L t) :
    SrcTok L (matchTok D k μ t).1.tok := by
  obtain ⟨h1, h2⟩ := matchTok_tok D k μ t
  rcases ht with ⟨hl, hn⟩ | ⟨l, hL, h1n, hl⟩
  · exact .inl ⟨h1.trans hl, h2.trans hn⟩
  · exact .inr ⟨l, by rw [h2]; exact hL, by rw [h2]; exact h1n, h1.trans hl⟩

theorem built_of_match {D : List Dialect} {L : List Str} {k : Kind} {μ : MState} {t : Token} (ht : SrcTok L t)
    (hμ : μ.dialect ∈ D) (hres : (matchTok D k μ t).1.res = .matched) :
    BuiltOK D L (matchTok D k μ t).1.tok := by
  obtain ⟨h1, h2⟩ := matchTok_tok D k μ t
  have hm := (matchTok_well_matched D k μ t hres).1
  rcases ht with ⟨hl, hn⟩ | ⟨l, hL, h1n, hl⟩
  · have hk : k = .EOF := by
      unfold matchTok at hres
      simp only [hl] at hres
      split at hres
      · rename_i h; exact beq_iff_eq.1 h
      · cases hres
    exact .inl ⟨h1.trans hl, hm.trans (by rw [hk]), h2.trans hn⟩
  · obtain ⟨hfres, hftok⟩ := matchTok_fresh hl hres
    refine .inr ⟨l, by rw [h2]; exact hL, by rw [h2]; exact h1n, h1.trans hl, k, μ, hμ, ?_, ?_, hm⟩
    · rw [h2]; exact hfres
    · rw [h2]; exact hftok

/-! ### the invariant -/

structure Core (D : List Dialect) (L : List Str) (n : Nat) (c : Ctx) : Prop where
  dial : c.μ.dialect ∈ D
  le : n ≤ L.length + 1
  lineNo : c.lineNo = n
  lines : c.lines = L.drop n
  reads : c.reads = List.range' 1 n
  builds : ∀ t ∈ c.builds, BuiltOK D L t

def J (D : List Dialect) (L : List Str) (n : Nat) (G : Ctx → Prop) (c : Ctx) : Prop := Core D L n c ∧ G c

/-- aborts -/
def AE (D : List Dialect) (L : List Str) (cap : Nat) (a : Abort) (c : Ctx) : Prop :=
  (∃ n, Core D L n c) ∧
  ∀ es, a = .composite es → es.length ≤ cap → Full c ∧ c.reads = List.range' 1 (L.length + 1)

section
variable {D : List Dialect} {L : List Str} {n : Nat} {G : Ctx → Prop}

theorem J.same (hG : GhostOnly G) {c c' : Ctx} (h : J D L n G c) (hμ : c'.μ.dialect ∈ D)
    (h1 : c'.lineNo = c.lineNo) (h2 : c'.lines = c.lines) (h3 : c'.reads = c.reads)
    (h4 : c'.builds = c.builds) (h5 : c'.unexpected = c.unexpected) : J D L n G c' :=
  ⟨⟨hμ, h.1.le, h1.trans h.1.lineNo, h2.trans h.1.lines, h3.trans h.1.reads, by rw [h4]; exact h.1.builds⟩,
   hG c c' ⟨h4, h3, h5⟩ h.2⟩

theorem J.ae_of {cap : Nat} {a : Abort} {c : Ctx} (h : J D L n G c) (ha : ∀ es, a ≠ .composite es) : AE D L cap a c :=
  ⟨⟨n, h.1⟩, fun es he => absurd he (ha es)⟩

theorem addError_j (hG : GhostOnly G) (cap : Nat) (e : PErr) :
    Triple (J D L n G) (addError cap e) (fun _ => J D L n G) (AE D L cap) := by
  refine Triple.intro fun c r c' hc hr => ?_
  rw [run_addError] at hr
  split at hr
  · cases hr; exact hc
  · split at hr
    · rename_i hlen
      cases hr
      refine ⟨⟨n, (hc.same hG (c' := { c with errors := c.errors ++ [e] }) hc.1.dial rfl rfl rfl rfl rfl).1⟩,
        fun es he hle => ?_⟩
      cases he
      exact absurd hle (by simpa using hlen)
    · cases hr
      exact hc.same hG hc.1.dial rfl rfl rfl rfl rfl

theorem matchP_j (hG : GhostOnly G) (cap : Nat) (stop : Bool) (k : Kind) (t : Token) :
    Triple (J D L n G) (matchP D cap stop k t)
      (fun r c => J D L n G c ∧ ∃ μ0, μ0.dialect ∈ D ∧ r.2 = (matchTok D k μ0 t).1.tok ∧
        (r.1 = true → (matchTok D k μ0 t).1.res = .matched)) (AE D L cap) := by
  refine Triple.intro fun c r c' hc hr => ?_
  rw [run_matchP] at hr
  dsimp only at hr
  have hd := matchTok_dialect D k c.μ t hc.1.dial
  have hc1' : ∀ (μ' : MState) (m : Nat), μ'.dialect ∈ D → J D L n G { c with μ := μ', calls := m } :=
    fun _ _ h => hc.same hG h rfl rfl rfl rfl rfl
  have hc1 := hc1' (matchTok D k c.μ t).1.μ (c.calls + (if (matchTok D k c.μ t).2 then 1 else 0)) hd
  split at hr
  · rename_i hres
    cases hr
    exact ⟨hc1, c.μ, hc.1.dial, rfl, fun _ => hres⟩
  · cases hr
    exact ⟨hc1, c.μ, hc.1.dial, rfl, fun h => by cases h⟩
  · rename_i e hres
    split at hr
    · cases hr
      exact hc1.ae_of (fun es h => by cases h)
    · rcases hr2 : run (addError cap e) _ with ⟨r2, c2⟩
      rw [hr2] at hr
      have ha := addError_j (D := D) (L := L) (n := n) hG cap e _ hc1
      cases r2 with
      | ok u => cases hr; exact ⟨ha.1 _ _ hr2, c.μ, hc.1.dial, rfl, fun h => by cases h⟩
      | error x => cases hr; exact ha.2 _ _ hr2

/-- the token after a test: still the same line of the source; the builder's if the test matched -/
theorem tok_after {k : Kind} {t : Token} (ht : SrcTok L t) {r : Bool × Token}
    (h : ∃ μ0, μ0.dialect ∈ D ∧ r.2 = (matchTok D k μ0 t).1.tok ∧ (r.1 = true → (matchTok D k μ0 t).1.res = .matched)) :
    SrcTok L r.2 ∧ r.2.lineNo = t.lineNo ∧ (r.1 = true → BuiltOK D L r.2) := by
  obtain ⟨μ0, hμ, hr, hm⟩ := h
  rw [hr]
  exact ⟨srcTok_match ht, (matchTok_tok D k μ0 t).2, fun h => built_of_match ht hμ (hm h)⟩

theorem matchP_inv (hG : GhostOnly G) (cap : Nat) (stop : Bool) (k : Kind) (t : Token) :
    Inv (J D L n G) (AE D L cap) (matchP D cap stop k t) :=
  Triple.conseq (matchP_j hG cap stop k t) (fun _ h => h) (fun _ _ h => h.1) (fun _ _ h => h)

theorem matchAny_inv (hG : GhostOnly G) (cap : Nat) (stop : Bool) (ks : List Kind) (t : Token) :
    Inv (J D L n G) (AE D L cap) (matchAny D cap stop ks t) :=
  Inv.matchAny (fun k t => matchP_inv hG cap stop k t) ks t

theorem peekLoop_inv (hG : GhostOnly G) (cap : Nat) (stop : Bool) (la : LookAhead) (ls : List Str) (m : Nat) :
    Inv (J D L n G) (AE D L cap) (peekLoop D cap stop la ls m) := by
  induction ls generalizing m with
  | nil =>
    unfold peekLoop
    refine Inv.bind (matchAny_inv hG _ _ _ _) fun r => ?_
    obtain ⟨b, t1⟩ := r
    dsimp only
    split
    · exact Inv.pure _
    · exact Inv.bind (matchAny_inv hG _ _ _ _) fun _ => Inv.pure _
  | cons l ls ih =>
    unfold peekLoop
    refine Inv.bind (matchAny_inv hG _ _ _ _) fun r => ?_
    obtain ⟨b, t1⟩ := r
    dsimp only
    split
    · exact Inv.pure _
    · refine Inv.bind (matchAny_inv hG _ _ _ _) fun r => ?_
      obtain ⟨s, t2⟩ := r
      dsimp only
      split
      · exact ih _
      · exact Inv.pure _

theorem lookaheadPure_inv (hG : GhostOnly G) (cap : Nat) (stop : Bool) (la : LookAhead) :
    Inv (J D L n G) (AE D L cap) (lookaheadPure D cap stop la) := by
  unfold lookaheadPure
  refine Triple.bind Triple.get fun c0 => ?_
  exact Triple.conseq (peekLoop_inv hG cap stop la _ _) (fun _ h => h.2) (fun _ _ h => h) (fun _ _ h => h)

theorem liftB_inv (hG : GhostOnly G) (cap : Nat) (stop : Bool) (x : Except BErr Unit) :
    Inv (J D L n G) (AE D L cap) (liftB cap stop x) := by
  refine Triple.intro fun c r c' hc hr => ?_
  rw [run_liftB] at hr
  split at hr
  · cases hr; exact hc
  · cases hr; exact hc.ae_of (fun es h => by cases h)
  · split at hr
    · cases hr; exact hc.ae_of (fun es h => by cases h)
    · rename_i e hs
      have ha := addError_j (D := D) (L := L) (n := n) hG cap e _ hc
      cases r with
      | ok u => exact ha.1 _ _ hr
      | error x => exact ha.2 _ _ hr

/-- a production that is not `build` -/
theorem runProd_inv (hG : GhostOnly G) (cap : Nat) (stop : Bool) (t : Token) (p : Prod) (hp : p ≠ .build) :
    Inv (J D L n G) (AE D L cap) (runProd cap stop t p) := by
  refine Triple.intro fun c r c' hc hr => ?_
  rw [run_runProd] at hr
  cases p with
  | start rr =>
    dsimp only at hr
    cases hr
    exact hc.same hG hc.1.dial rfl rfl rfl rfl rfl
  | end_ rr =>
    dsimp only at hr
    have hc1 : J D L n G { c with β := (c.β.endRule c.ids).2.1, ids := (c.β.endRule c.ids).2.2 } :=
      hc.same hG hc.1.dial rfl rfl rfl rfl rfl
    have ha := liftB_inv (D := D) (L := L) (n := n) hG cap stop (c.β.endRule c.ids).1 _ hc1
    cases r with
    | ok u => exact ha.1 _ _ hr
    | error x => exact ha.2 _ _ hr
  | build => exact absurd rfl hp

/-- `build`: the token in hand goes to the builder -/
theorem runProd_build (cap : Nat) (stop : Bool) (t : Token) (ht : t.lineNo = n) (hb : BuiltOK D L t) :
    Triple (J D L n (Pending n)) (runProd cap stop t .build) (fun _ => J D L n Full) (AE D L cap) := by
  refine Triple.intro fun c r c' hc hr => ?_
  rw [run_runProd] at hr
  dsimp only at hr
  split at hr
  · rename_i β' hβ
    cases hr
    refine ⟨⟨hc.1.dial, hc.1.le, hc.1.lineNo, hc.1.lines, hc.1.reads, fun t' ht' => ?_⟩, hc.2.build t ht _⟩
    rcases List.mem_append.1 ht' with ht' | ht'
    · exact hc.1.builds t' ht'
    · rw [List.mem_singleton] at ht'; subst ht'; exact hb
  · rename_i e he
    obtain ⟨w, rfl⟩ := build_error _ _ _ he
    rw [run_liftB] at hr
    cases hr
    exact hc.ae_of (fun es h => by cases h)

theorem runProds_nobuild (hG : GhostOnly G) (cap : Nat) (stop : Bool) (t : Token) (ps : List Prod)
    (hps : ∀ p ∈ ps, p ≠ .build) : Inv (J D L n G) (AE D L cap) (runProds cap stop t ps) :=
  Inv.runProds ps fun p hp => runProd_inv hG cap stop t p (hps p hp)

theorem runProds_j (cap : Nat) (stop : Bool) (t : Token) (ht : t.lineNo = n) (hb : BuiltOK D L t) (ps : List Prod)
    (hps : (ps.filter (· == .build)).length = 1) :
    Triple (J D L n (Pending n)) (runProds cap stop t ps) (fun _ => J D L n Full) (AE D L cap) := by
  induction ps with
  | nil => simp at hps
  | cons p ps ih =>
    unfold runProds
    by_cases hp : p = .build
    · subst hp
      have hno : ∀ p ∈ ps, p ≠ Prod.build := by
        intro p hp hpb
        subst hpb
        have hmem : Prod.build ∈ ps.filter (· == .build) := List.mem_filter.2 ⟨hp, by simp⟩
        rw [List.filter_cons_of_pos (by simp), List.length_cons] at hps
        have h0 : ps.filter (· == .build) = [] := List.eq_nil_of_length_eq_zero (by omega)
        rw [h0] at hmem
        cases hmem
      exact Triple.bind (runProd_build cap stop t ht hb) fun _ =>
        runProds_nobuild Full.ghostOnly cap stop t ps hno
    · have hps' : (ps.filter (· == .build)).length = 1 := by
        rw [List.filter_cons_of_neg (by simpa using hp)] at hps
        exact hps
      exact Triple.bind (runProd_inv (Pending.ghostOnly n) cap stop t p hp) fun _ => ih hps'

/-! ### `match_token` -/

theorem tail_j (T : Table) (stop : Bool) (row : StateRow) (t : Token) (ht : t.lineNo = n) :
    Triple (J D L n (Pending n)) (tryBranchesPure D T stop row [] t) (fun _ => J D L n Full) (AE D L T.errorCap) := by
  unfold tryBranchesPure
  refine Triple.bind (Q := fun _ => J D L n Full) (Triple.modify _ fun c hc => ?_) fun _ => ?_
  · refine ⟨⟨hc.1.dial, hc.1.le, hc.1.lineNo, hc.1.lines, hc.1.reads, hc.1.builds⟩, ?_⟩
    have := hc.2.report
    rw [ht]
    exact this
  · split
    · exact Triple.throw _ fun c hc => hc.ae_of (fun es h => by cases h)
    · exact Triple.bind (addError_j Full.ghostOnly _ _) fun _ => Triple.pure _ fun _ h => h

theorem tryBranchesPure_j (T : Table) (stop : Bool) (row : StateRow) (bs : List Branch)
    (hbs : ∀ b ∈ bs, (b.prods.filter (· == .build)).length = 1) (t : Token) (hs : SrcTok L t) (ht : t.lineNo = n) :
    Triple (J D L n (Pending n)) (tryBranchesPure D T stop row bs t) (fun _ => J D L n Full) (AE D L T.errorCap) := by
  induction bs generalizing t with
  | nil => exact tail_j T stop row t ht
  | cons b bs ih =>
    have ih' := ih fun b hb => hbs b (List.mem_cons_of_mem _ hb)
    unfold tryBranchesPure
    refine Triple.bind (matchP_j (Pending.ghostOnly n) T.errorCap stop b.kind t) fun r => ?_
    obtain ⟨m, t'⟩ := r
    dsimp only
    refine assumeT (φ := SrcTok L t' ∧ t'.lineNo = n ∧ (m = true → BuiltOK D L t'))
      (fun c hc => by
        obtain ⟨h1, h2, h3⟩ := tok_after (r := (m, t')) hs hc.2
        exact ⟨h1, h2.trans ht, h3⟩) fun hφ => ?_
    obtain ⟨hs', ht', hb'⟩ := hφ
    refine Triple.conseq (P := J D L n (Pending n)) ?_ (fun c hc => hc.1) (fun _ _ h => h) (fun _ _ h => h)
    cases m with
    | false =>
      simp only [Bool.false_eq_true, if_false]
      exact ih' t' hs' ht'
    | true =>
      simp only [if_true]
      have cont : ∀ ok : Bool, Triple (J D L n (Pending n))
          (if ok = true then do
              GV.runProds T.errorCap stop t' b.prods
              pure b.target
            else tryBranchesPure D T stop row bs t') (fun _ => J D L n Full) (AE D L T.errorCap) := by
        intro ok
        cases ok with
        | false =>
          simp only [Bool.false_eq_true, if_false]
          exact ih' t' hs' ht'
        | true =>
          simp only [if_true]
          exact Triple.bind (runProds_j T.errorCap stop t' ht' (hb' rfl) b.prods (hbs b List.mem_cons_self))
            fun _ => Triple.pure _ fun _ h => h
      split
      · exact Triple.bind (Q := fun _ => J D L n (Pending n)) (Triple.pure _ fun _ h => h) cont
      · split
        · exact Triple.bind (lookaheadPure_inv (Pending.ghostOnly n) _ _ _) cont
        · exact Triple.bind (Q := fun _ => J D L n (Pending n))
            (Triple.throw _ fun c hc => hc.ae_of (fun es h => by cases h)) cont

theorem matchTokenPure_j {T : Table} (hT : oneBuildLast T = true) (stop : Bool) (s : Nat) (t : Token)
    (hs : SrcTok L t) (ht : t.lineNo = n) :
    Triple (J D L n (Pending n)) (matchTokenPure D T stop s t) (fun _ => J D L n Full) (AE D L T.errorCap) := by
  unfold matchTokenPure
  split
  · rename_i row hrow
    refine tryBranchesPure_j T stop row row.branches ?_ t hs ht
    intro b hb
    have hmem : row ∈ T.rows := List.mem_of_find?_eq_some hrow
    simp only [oneBuildLast, List.all_eq_true, Bool.and_eq_true, beq_iff_eq] at hT
    exact (hT row hmem b hb).2
  · exact Triple.throw _ fun c hc => hc.ae_of (fun es h => by cases h)

end

/-! ### the main loop -/

theorem run_lines_cons (D : List Dialect) (T : Table) (stop : Bool) (j s : Nat) (c : Ctx) {l : Str} {ls : List Str}
    (hl : c.lines = l :: ls) :
    run (parseLinesPure D T stop (j + 1) s) c =
      match run (matchTokenPure D T stop s { line := some l, lineNo := c.lineNo + 1 })
          { c with lines := ls, lineNo := c.lineNo + 1, reads := c.reads ++ [c.lineNo + 1] } with
      | (.ok s', c') => run (parseLinesPure D T stop j s') c'
      | (.error e, c') => (.error e, c') := by
  conv => lhs; unfold parseLinesPure
  simp only [prun_bind, run_get, hl, run_set, prun_pure, run_modify]
  have he : ({ line := some l, lineNo := c.lineNo + 1 } : Token).eof = false := rfl
  simp only [he, Bool.false_eq_true, if_false]
  rcases run (matchTokenPure D T stop s { line := some l, lineNo := c.lineNo + 1 }) _ with ⟨r, c'⟩
  cases r <;> rfl

theorem run_lines_nil (D : List Dialect) (T : Table) (stop : Bool) (j s : Nat) (c : Ctx) (hl : c.lines = []) :
    run (parseLinesPure D T stop (j + 1) s) c =
      run (matchTokenPure D T stop s { line := none, lineNo := c.lineNo + 1 })
          { c with lineNo := c.lineNo + 1, reads := c.reads ++ [c.lineNo + 1] } := by
  conv => lhs; unfold parseLinesPure
  simp only [prun_bind, run_get, hl, run_set, prun_pure, run_modify]
  rcases run (matchTokenPure D T stop s { line := none, lineNo := c.lineNo + 1 }) _ with ⟨r, c'⟩
  cases r <;> rfl

theorem range'_snoc (n : Nat) : List.range' 1 n ++ [n + 1] = List.range' 1 (n + 1) := by
  rw [List.range'_concat]
  simp [Nat.add_comm]

theorem parseLinesPure_j {D : List Dialect} {L : List Str} {T : Table} (hT : oneBuildLast T = true) (stop : Bool) :
    ∀ (fuel s : Nat) (c : Ctx) (n : Nat), n ≤ L.length → J D L n Full c →
      ∀ r c', run (parseLinesPure D T stop fuel s) c = (r, c') →
        match r with
        | .ok _ => J D L (L.length + 1) Full c'
        | .error e => AE D L T.errorCap e c' := by
  intro fuel
  induction fuel with
  | zero =>
    intro s c n _ hc r c' hr
    rw [parseLinesPure, prun_throw] at hr
    cases hr
    exact hc.ae_of (fun es h => by cases h)
  | succ fuel ih =>
    intro s c n hn hc r c' hr
    have hln := hc.1.lineNo
    cases hl : c.lines with
    | nil =>
      rw [run_lines_nil D T stop fuel s c hl] at hr
      have hdrop : L.drop n = [] := by rw [← hc.1.lines]; exact hl
      have hnL : n = L.length := by
        have := List.drop_eq_nil_iff.1 hdrop
        omega
      have hc1 : J D L (n + 1) (Pending (n + 1))
          { c with lineNo := c.lineNo + 1, reads := c.reads ++ [c.lineNo + 1] } := by
        refine ⟨⟨hc.1.dial, by omega, ?_, ?_, ?_, hc.1.builds⟩, ?_⟩
        · show c.lineNo + 1 = n + 1; rw [hln]
        · show c.lines = L.drop (n + 1)
          rw [hl]; exact (List.drop_eq_nil_iff.2 (by omega)).symm
        · show c.reads ++ [c.lineNo + 1] = _
          rw [hln, hc.1.reads]; exact range'_snoc n
        · have := hc.2.read (n + 1)
          rw [hln]
          exact Pending.ghostOnly _ _ _ ⟨rfl, rfl, rfl⟩ this
      have hs : SrcTok L { line := none, lineNo := c.lineNo + 1 } := .inl ⟨rfl, by show c.lineNo + 1 = _; omega⟩
      have ha := matchTokenPure_j (D := D) (L := L) (n := n + 1) hT stop s _ hs (by show c.lineNo + 1 = n + 1; omega) _ hc1
      cases r with
      | ok a => rw [← hnL]; exact ha.1 _ _ hr
      | error e => exact ha.2 _ _ hr
    | cons l ls =>
      rw [run_lines_cons D T stop fuel s c hl] at hr
      have hdrop : L.drop n = l :: ls := by rw [← hc.1.lines]; exact hl
      have hnL : n < L.length := by
        rcases Nat.lt_or_ge n L.length with h | h
        · exact h
        · rw [List.drop_eq_nil_iff.2 h] at hdrop; cases hdrop
      have hget : L[n]? = some l := by
        have := List.getElem?_drop (xs := L) (i := n) (j := 0)
        rw [hdrop] at this
        simpa using this.symm
      have hc1 : J D L (n + 1) (Pending (n + 1))
          { c with lines := ls, lineNo := c.lineNo + 1, reads := c.reads ++ [c.lineNo + 1] } := by
        refine ⟨⟨hc.1.dial, by omega, ?_, ?_, ?_, hc.1.builds⟩, ?_⟩
        · show c.lineNo + 1 = n + 1; rw [hln]
        · show ls = L.drop (n + 1)
          rw [← List.tail_drop, hdrop]; rfl
        · show c.reads ++ [c.lineNo + 1] = _
          rw [hln, hc.1.reads]; exact range'_snoc n
        · have := hc.2.read (n + 1)
          rw [hln]
          exact Pending.ghostOnly _ _ _ ⟨rfl, rfl, rfl⟩ this
      have hs : SrcTok L { line := some l, lineNo := c.lineNo + 1 } :=
        .inr ⟨l, by show L[c.lineNo + 1 - 1]? = some l; rw [hln]; simpa using hget, Nat.le_add_left _ _, rfl⟩
      have ha := matchTokenPure_j (D := D) (L := L) (n := n + 1) hT stop s _ hs (by show c.lineNo + 1 = n + 1; omega) _ hc1
      rcases hr1 : run (matchTokenPure D T stop s { line := some l, lineNo := c.lineNo + 1 })
          { c with lines := ls, lineNo := c.lineNo + 1, reads := c.reads ++ [c.lineNo + 1] } with ⟨r1, c1⟩
      rw [hr1] at hr
      cases r1 with
      | ok s' =>
        dsimp only at hr
        exact ih s' c1 (n + 1) hnL (ha.1 _ _ hr1) r c' hr
      | error e =>
        dsimp only at hr
        cases hr
        exact ha.2 _ _ hr1

theorem parseBodyPure_j {D : List Dialect} {L : List Str} {T : Table} (hT : oneBuildLast T = true) (stop : Bool) (k : Nat) :
    Triple (J D L 0 Full) (parseBodyPure D T stop k) (fun _ => J D L (L.length + 1) Full) (AE D L T.errorCap) := by
  unfold parseBodyPure
  refine Triple.bind (Q := fun _ => J D L 0 Full)
    (Triple.modify _ fun c hc => hc.same Full.ghostOnly hc.1.dial rfl rfl rfl rfl rfl) fun _ => ?_
  refine Triple.bind (Q := fun _ => J D L (L.length + 1) Full)
    (Triple.intro fun c r c' hc hr => by
      have := parseLinesPure_j hT stop _ _ c 0 (Nat.zero_le _) hc r c' hr
      cases r <;> exact this) fun _ => ?_
  refine Triple.bind (runProd_inv Full.ghostOnly _ _ _ _ (by simp)) fun _ => ?_
  refine Triple.bind Triple.get fun c0 => ?_
  dsimp only
  split
  · refine Triple.bind (Q := fun _ _ => False) (Triple.throw _ fun c hc => ?_) fun _ _ hf => hf.elim
    exact ⟨⟨_, hc.2.1⟩, fun _ _ _ => ⟨hc.2.2, hc.2.1.reads⟩⟩
  · split
    · exact Triple.pure _ fun c hc => hc.2
    · exact Triple.throw _ fun c hc => hc.2.ae_of (fun es h => by cases h)
    · exact Triple.throw _ fun c hc => hc.2.ae_of (fun es h => by cases h)
    · exact Triple.throw _ fun c hc => hc.2.ae_of (fun es h => by cases h)

/-! ### the whole parse, queue-free and with the queue -/

/-- the run reached the end of the source: accepted, or rejected with a composite error within the cap -/
def Finished (cap : Nat) (o : Outcome) : Prop :=
  (∃ d, o = .ok d) ∨ (∃ es, o = .rejected es true ∧ es.length ≤ cap)

theorem anyrun_pure {D : List Dialect} {T : Table} (hT : oneBuildLast T = true) (stop : Bool) (μ : MState) (ids : Nat)
    (src : Str) (hμ : (μ.reset D).dialect ∈ D) :
    (∀ t ∈ (parseWithPure D T stop μ ids src).2.builds, BuiltOK D (splitLines src) t) ∧
    (∃ n, n ≤ (splitLines src).length + 1 ∧ (parseWithPure D T stop μ ids src).2.reads = List.range' 1 n) ∧
    (Finished T.errorCap (parseWithPure D T stop μ ids src).1 →
      Full (parseWithPure D T stop μ ids src).2 ∧
      (parseWithPure D T stop μ ids src).2.reads = List.range' 1 ((splitLines src).length + 1)) := by
  have h0 : J D (splitLines src) 0 Full (ctx0 D μ ids src) :=
    ⟨⟨hμ, Nat.zero_le _, rfl, rfl, rfl, fun t ht => by cases ht⟩, full_ctx0 D μ ids src⟩
  have hb := parseBodyPure_j (L := splitLines src) hT stop (splitLines src).length (ctx0 D μ ids src) h0
  rw [parseWithPure_eq]
  rcases hr : run (parseBodyPure D T stop (splitLines src).length) (ctx0 D μ ids src) with ⟨r, c⟩
  cases r with
  | ok d =>
    have hj := hb.1 _ _ hr
    exact ⟨hj.1.builds, ⟨_, hj.1.le, hj.1.reads⟩, fun _ => ⟨hj.2, hj.1.reads⟩⟩
  | error e =>
    obtain ⟨⟨n, hcore⟩, ha⟩ := hb.2 _ _ hr
    cases e with
    | crash w =>
      refine ⟨hcore.builds, ⟨n, hcore.le, hcore.reads⟩, fun hf => ?_⟩
      rcases hf with ⟨d, hd⟩ | ⟨es, hd, -⟩ <;> cases hd
    | fuel =>
      refine ⟨hcore.builds, ⟨n, hcore.le, hcore.reads⟩, fun hf => ?_⟩
      rcases hf with ⟨d, hd⟩ | ⟨es, hd, -⟩ <;> cases hd
    | single e =>
      refine ⟨hcore.builds, ⟨n, hcore.le, hcore.reads⟩, fun hf => ?_⟩
      rcases hf with ⟨d, hd⟩ | ⟨es, hd, -⟩ <;> cases hd
    | composite es =>
      refine ⟨hcore.builds, ⟨n, hcore.le, hcore.reads⟩, fun hf => ?_⟩
      rcases hf with ⟨d, hd⟩ | ⟨es', hd, hle⟩
      · cases hd
      · cases hd
        exact ha es rfl hle

/-- the same for the parser with its token queue -/
theorem anyrun {D : List Dialect} {T : Table} (hD : queueDialectFacts D = true) (hQ : queueFacts T = true)
    (hCB : commentBlankTested T = true) (hT : oneBuildLast T = true) (stop : Bool) (μ : MState) (ids : Nat)
    (src : Str) (hμ : (μ.reset D).dialect ∈ D) :
    (∀ t ∈ (parseWith D T stop μ ids src).2.builds, BuiltOK D (splitLines src) t) ∧
    (∃ n, n ≤ (splitLines src).length + 1 ∧ (parseWith D T stop μ ids src).2.reads = List.range' 1 n) ∧
    (Finished T.errorCap (parseWith D T stop μ ids src).1 →
      Full (parseWith D T stop μ ids src).2 ∧
      (parseWith D T stop μ ids src).2.reads = List.range' 1 ((splitLines src).length + 1)) := by
  have hobs := queue_refines_peek D T hD hQ hCB stop μ ids src hμ
  have ho : (parseWith D T stop μ ids src).1 = (parseWithPure D T stop μ ids src).1 := congrArg Observed.outcome hobs
  have hb : (parseWith D T stop μ ids src).2.builds = (parseWithPure D T stop μ ids src).2.builds :=
    congrArg Observed.builds hobs
  have hrd : (parseWith D T stop μ ids src).2.reads = (parseWithPure D T stop μ ids src).2.reads :=
    congrArg Observed.reads hobs
  have hun : (parseWith D T stop μ ids src).2.unexpected = (parseWithPure D T stop μ ids src).2.unexpected :=
    congrArg Observed.unexpected hobs
  obtain ⟨h1, ⟨n, hn, hrn⟩, h2⟩ := anyrun_pure hT stop μ ids src hμ
  refine ⟨by rw [hb]; exact h1, ⟨n, hn, hrd.trans hrn⟩, fun hf => ?_⟩
  rw [ho] at hf
  obtain ⟨h3, h4⟩ := h2 hf
  exact ⟨Full.ghostOnly _ _ ⟨hb, hrd, hun⟩ h3, hrd.trans h4⟩

end AnyRun
end GV
