/-
  Lemmas/ParseDocNode.lean — document-level corollaries of the link, part 3c: the value of a
  `DocString` node with the children described by `Spec.DocSeq` (`docNode_value`), the line numbers of
  its children are consecutive (`docNodes_lineNo`), and the link extended by the description of the
  `DocString` nodes (`pure_link_doc`, `parse_link_doc`).
-/
import GherkinVerif.Lemmas.ParseDocTree
namespace GV
namespace Spec

/-- `s` is a subtree of `t` (possibly `t` itself) -/
inductive SubT : TTree → TTree → Prop
  | refl (t : TTree) : SubT t t
  | child {s c : TTree} {r : RuleType} {cs : List TTree} : c ∈ cs → SubT s c → SubT s (.node r cs)

/-- the tokens of one doc string (`DocSeq`) are consecutive physical lines -/
def DocSeqNo (bs : List Token) : Prop :=
  DocSeq bs ∧ ∃ a, bs.map (·.lineNo) = List.range' a bs.length

end Spec

namespace Lemmas
open Spec

/-! ### subtrees -/

theorem docNodesListP_mem {P : List Token → Prop} {cs : List TTree} (h : docNodesListP P cs) :
    ∀ c ∈ cs, docNodesP P c := by
  induction cs with
  | nil => intro c hc; cases hc
  | cons a cs ih =>
    intro c hc
    rcases List.mem_cons.1 hc with rfl | hc
    · exact h.1
    · exact ih h.2 c hc

theorem docNodesP_sub {P : List Token → Prop} {s t : TTree} (h : SubT s t) (ht : docNodesP P t) : docNodesP P s := by
  induction h with
  | refl => exact ht
  | child hc _ ih => exact ih (docNodesListP_mem ht.2 _ hc)

/-- every `DocString` node anywhere in the tree -/
theorem docNodesP_at {P : List Token → Prop} {t : TTree} (ht : docNodesP P t) {ch : List TTree}
    (h : SubT (.node .DocString ch) t) : ∃ bs, ch = bs.map .leaf ∧ P bs :=
  (docNodesP_sub h ht).1 rfl

/-! ### line numbers -/

theorem leavesList_leaves (bs : List Token) : leavesList (bs.map .leaf) = bs := by
  induction bs with
  | nil => rfl
  | cons b bs ih => simp [leavesList, leaves, ih]

theorem range'_split {l1 l2 : List Nat} {a : Nat} (h : l1 ++ l2 = List.range' a (l1.length + l2.length)) :
    l1 = List.range' a l1.length ∧ l2 = List.range' (a + l1.length) l2.length := by
  have : List.range' a (l1.length + l2.length) = List.range' a l1.length ++ List.range' (a + l1.length) l2.length := by
    rw [List.range'_append_1]
  rw [this] at h
  exact List.append_inj h (by simp)

mutual
theorem docNodes_lineNo (P : List Token → Prop) : ∀ (t : TTree) (a : Nat), docNodesP P t →
    (leaves t).map (·.lineNo) = List.range' a (leaves t).length →
    docNodesP (fun bs => P bs ∧ ∃ a, bs.map (·.lineNo) = List.range' a bs.length) t
  | .leaf _, _, _, _ => trivial
  | .node r ch, a, h, hno => by
    refine ⟨fun hr => ?_, docNodesList_lineNo P ch a h.2 hno⟩
    obtain ⟨bs, hch, hp⟩ := h.1 hr
    refine ⟨bs, hch, hp, a, ?_⟩
    have : leaves (.node r ch) = bs := by rw [leaves, hch, leavesList_leaves]
    rw [this] at hno
    exact hno
theorem docNodesList_lineNo (P : List Token → Prop) : ∀ (ts : List TTree) (a : Nat), docNodesListP P ts →
    (leavesList ts).map (·.lineNo) = List.range' a (leavesList ts).length →
    docNodesListP (fun bs => P bs ∧ ∃ a, bs.map (·.lineNo) = List.range' a bs.length) ts
  | [], _, _, _ => trivial
  | c :: cs, a, h, hno => by
    simp only [leavesList, List.map_append, List.length_append] at hno
    have hsplit := range'_split (l1 := (leaves c).map (·.lineNo)) (l2 := (leavesList cs).map (·.lineNo)) (a := a)
      (by simpa using hno)
    simp only [List.length_map] at hsplit
    exact ⟨docNodes_lineNo P c a h.1 hsplit.1, docNodesList_lineNo P cs _ h.2 hsplit.2⟩
end

/-! ### the value of a `DocString` node -/

theorem leafItems_ok (t : Token) (hw : WellMatched t) (n : Nat) : ∃ is, (leafItems t).run.run n = (.ok is, n) := by
  obtain ⟨k, hm, hf⟩ := (wellMatched_iff t).1 hw
  by_cases hc : k = .Comment
  · subst hc
    simp only [fieldsRead, Option.isSome_iff_exists] at hf
    obtain ⟨tx, htx⟩ := hf
    exact ⟨[], by unfold leafItems; rw [hm]; simp only [htx]; rfl⟩
  · exact ⟨_, run_leafItems_token t k n hm hc⟩

theorem itemsOfList_leaves_ok (cs : List Comment) (bs : List Token) (hw : ∀ t ∈ bs, WellMatched t) (n : Nat) :
    ∃ is, (itemsOfList cs (bs.map .leaf)).run.run n = (.ok is, n) := by
  induction bs with
  | nil => exact ⟨[], by rw [List.map_nil, itemsOfList]; rfl⟩
  | cons b bs ih =>
    obtain ⟨i1, h1⟩ := leafItems_ok b (hw b (List.mem_cons_self ..)) n
    obtain ⟨i2, h2⟩ := ih fun t ht => hw t (List.mem_cons_of_mem _ ht)
    refine ⟨i1 ++ i2, ?_⟩
    rw [List.map_cons, run_itemsOfList_cons, itemsOf, h1]
    dsimp only
    rw [h2]

theorem completeList_leaves (bs : List Token) : completeList (bs.map .leaf) = true := by
  induction bs with
  | nil => rfl
  | cons b bs ih => simp [completeList, complete, ih]

theorem openedList_leaves (bs : List Token) : openedList (bs.map .leaf) = true := by
  induction bs with
  | nil => rfl
  | cons b bs ih => simp [openedList, opened, ih]

theorem childTokens_leaves (k : Kind) (bs : List Token) :
    childTokens k (bs.map .leaf) = bs.filter fun t => decide (t.mtype = some k) := by
  induction bs with
  | nil => rfl
  | cons b bs ih =>
    have hc : childTokens k (TTree.leaf b :: bs.map .leaf) =
        childTokens k [.leaf b] ++ childTokens k (bs.map .leaf) := childTokens_cons k _ _
    rw [List.map_cons, hc, ih]
    by_cases hb : b.mtype = some k
    · rw [List.filter_cons_of_pos (by simpa using hb)]
      simp [childTokens, hb]
    · rw [List.filter_cons_of_neg (by simpa using hb)]
      simp [childTokens, hb]

/-- **the value of a `DocString` node** whose children are the leaves of `DocSeq`: location of the
    opening separator, content = the content lines' texts (`docLineText`) joined by line feeds,
    delimiter = the opening delimiter, media type = the rest of the opening line, absent iff empty;
    no id is drawn.  Blank / comment lines after the closing separator contribute nothing. -/
theorem docNode_value (cs : List Comment) (o : Token) (xs : List Token) (c : Token) (ys : List Token)
    (sep lo : Str) (ho : DocOpen o sep lo) (hxs : ∀ x ∈ xs, DocLine sep (lineIndent lo) x)
    (hc : DocClose sep c) (hys : ∀ y ∈ ys, DocTrail y) (n : Nat) :
    (astOf cs (.node .DocString ((o :: (xs ++ c :: ys)).map .leaf))).run.run n =
      (.ok (.docString
        { loc := o.loc,
          content := joinWith [10] (xs.map fun x => docLineText sep (lineIndent lo) (x.line.getD [])),
          delimiter := sep,
          mediaType := if rstripCRLF (strip ((trimmed lo).drop 3)) = [] then none
                       else some (rstripCRLF (strip ((trimmed lo).drop 3))) }), n) := by
  obtain ⟨-, -, -, homt, hokw, hotx, howm⟩ := ho
  obtain ⟨-, hcmt, -, -, hcwm⟩ := hc
  have hw : ∀ t ∈ o :: (xs ++ c :: ys), WellMatched t := by
    intro t ht
    rcases List.mem_cons.1 ht with rfl | ht
    · exact howm
    · rcases List.mem_append.1 ht with ht | ht
      · obtain ⟨_, _, _, _, _, h⟩ := hxs t ht; exact h
      · rcases List.mem_cons.1 ht with rfl | ht
        · exact hcwm
        · exact (hys t ht).2
  obtain ⟨is, hrun⟩ := itemsOfList_leaves_ok cs _ hw n
  have hout := safeSpecList_all ((o :: (xs ++ c :: ys)).map .leaf)
    ⟨completeList_leaves _, openedList_leaves _, by rw [leavesList_leaves]; exact hw⟩ cs n
  rw [hrun] at hout
  rcases hout with ⟨is', h, hspec⟩ | ⟨e, h, -⟩
  · cases h
    have hxo : ∀ x ∈ xs, x.mtype = some .Other := fun x hx => by
      obtain ⟨_, _, _, h, _⟩ := hxs x hx; exact h
    have hsepTok : getTokens is .DocStringSeparator =
        o :: (xs ++ c :: ys).filter fun t => decide (t.mtype = some .DocStringSeparator) := by
      rw [hspec.toks _ (by decide), childTokens_leaves, List.filter_cons_of_pos (by simpa using homt)]
    have hoth : getTokens is .Other = xs := by
      rw [hspec.toks _ (by decide), childTokens_leaves, List.filter_cons_of_neg (by rw [homt]; simp),
        List.filter_append, List.filter_cons_of_neg (by rw [hcmt]; simp)]
      have h1 : xs.filter (fun t => decide (t.mtype = some .Other)) = xs :=
        List.filter_eq_self.2 fun x hx => by simpa using hxo x hx
      have h2 : ys.filter (fun t => decide (t.mtype = some .Other)) = [] :=
        List.filter_eq_nil_iff.2 fun y hy => by
          rcases (hys y hy).1 with h | h <;> (rw [h]; simp)
      rw [h1, h2, List.append_nil]
    have hls : (getTokens is .Other).map (·.text) =
        (xs.map fun x => docLineText sep (lineIndent lo) (x.line.getD [])).map some := by
      rw [hoth, List.map_map]
      refine List.map_congr_left fun x hx => ?_
      obtain ⟨lx, hl, -, -, htx, -⟩ := hxs x hx
      simp only [Function.comp, hl, Option.getD_some]
      exact htx
    rw [run_astOf_node, hrun]
    dsimp only
    rw [transformNode_docString cs is o _ _ sep _ hsepTok hotx hokw hls]
    rfl
  · cases h

/-! ### the link, with the `DocString` nodes described -/

theorem pure_link_doc {D : List Dialect} {T : Table} {G : Grammar} {fuel : Nat} (L : LinkFacts D T G fuel)
    (F : DocFacts D T) (μ : MState) (ids : Nat) (src : Str) (hμ : (μ.reset D).dialect ∈ D) (d : Doc)
    (h : (parseWithPure D T false μ ids src).1 = .ok d) :
    ∃ t, LinkTree D T G (μ.reset D) (splitLines src) d (parseWithPure D T false μ ids src).2.builds ids
      (parseWithPure D T false μ ids src).2.ids t ∧ docNodesP DocSeq t := by
  have QFf := QF.of_facts (queueDialectFacts_of_text L.dialects) L.queue
  have hpw := parseWithPure_eq D T false μ ids src
  rcases hr : run (parseBodyPure D T false (splitLines src).length) (ctx0 D μ ids src) with ⟨r, c⟩
  rw [hr] at hpw
  have hμ0 : MuOK D (ctx0 D μ ids src).μ := ⟨hμ, reset_sepOK D μ⟩
  cases r with
  | error e =>
    exfalso
    rw [hpw] at h
    cases e <;> cases h
  | ok d' =>
    dsimp only at hpw
    rw [hpw] at h ⊢
    dsimp only at h ⊢
    cases h
    obtain ⟨steps, sf, htr, hops, hbuilds, hres⟩ := body_clean L.dialects QFf _ _ hμ0 hr
    have htr' : Trace D T 0 (μ.reset D) (splitLines src) sf steps := htr
    have hops' : applyOps (.start T.startRule :: (stepsOps steps ++ [.end_])) BState.reset ids = (.ok (), c.β, c.ids) := hops
    have hbuilds' : c.builds = opToks (stepsOps steps) := by
      rw [hbuilds]; rfl
    have hrun := trace_runAbs QFf htr'
    have heva : eventsAbs T (textKinds D T 0 (μ.reset D) (splitLines src)) =
        some ([.start T.startRule] ++ stepsEvs steps ++ [.end_ T.startRule]) := by
      unfold eventsAbs; rw [hrun]; rfl
    obtain ⟨tk, htree, hvalid, -⟩ := events_valid_tree_gen L.typed _
      (textKinds_no_EOF D T (splitLines src) 0 (μ.reset D)) _ heva
    have htoks := trace_tokens htr'
    have hoe : OpsEvs (.start T.startRule :: (stepsOps steps ++ [.end_]))
        ([.start T.startRule] ++ stepsEvs steps ++ [.end_ T.startRule]) := by
      have h1 := opsEvs_steps steps fun p hp => (htoks p hp).1
      have h2 : OpsEvs [.end_] [.end_ T.startRule] := .cons (.end_ _) .nil
      simpa using OpsEvs.cons (.start T.startRule) (OpsEvs.append h1 h2)
    obtain ⟨t, ht, hk⟩ := ttreeOf_kinds _ _ hoe tk htree
    obtain ⟨hopsOf, hleaves⟩ := ttreeOf_flat _ t ht
    have hleaves' : leaves t = opToks (stepsOps steps) := by
      rw [hleaves]; simp [opToks, opToks_append]
    have hv : ValidTree G .GherkinDocument t.kinds := by rw [hk, ← L.start]; exact hvalid
    have hs : shaped t = true := shaped_of_validTree L.shape _ t hv
    have hdoc : t.isDocument = true := by
      obtain ⟨ch, rfl⟩ := root_of_validTree t hv
      exact isDocument_of_shaped ch hs
    have hinv : (μ.reset D).inDocString = (contentStates T).contains 0 := by
      rw [reset_inDocString]
      have := L.docOpens
      simp only [docStringOpens, Bool.and_eq_true, Bool.not_eq_true'] at this
      exact this.1.symm
    have hadj : adjOK (.start T.startRule :: (stepsOps steps ++ [.end_])) := by
      refine ⟨fun hr => ?_, adjOK_append (adjOK_steps steps (trace_adj L.dialects L.content L.docOpens htr' hμ0 hinv)) trivial⟩
      rw [L.start] at hr; cases hr
    have hdo : docOps (.start T.startRule :: (stepsOps steps ++ [.end_])) := by
      refine ⟨fun hr => ?_, docOps_append (trace_docOps F htr' hμ0 hinv) trivial⟩
      rw [L.start] at hr; cases hr
    refine ⟨t, ⟨hdoc, by rw [hleaves', hbuilds'], hv, ⟨_, heva, by rw [hk]; exact htree⟩, ?_,
      ttreeOf_opened _ t hadj ht, ?_⟩, ttreeOf_docNodes _ t hdo ht⟩
    · intro x hx
      rw [hleaves'] at hx
      obtain ⟨p, hp, rfl⟩ := mem_opToks_steps steps x hx
      exact (htoks p hp).2
    · rw [← hopsOf] at hops'
      obtain ⟨hok, herr⟩ := ast_of_tree t hdoc ids
      rcases hra : (astOf (commentsOf t) t).run.run ids with ⟨ra, n'⟩
      cases ra with
      | error e =>
        obtain ⟨β, hβ⟩ := herr e n' hra
        rw [hops'] at hβ
        cases hβ
      | ok v =>
        obtain ⟨β, hβ, -, -, d', rfl, hres', -⟩ := hok v n' hra
        rw [hops'] at hβ
        cases hβ
        rw [hres] at hres'
        cases hres'
        rfl

theorem parse_link_doc {D : List Dialect} {T : Table} {G : Grammar} {fuel : Nat} (L : LinkFacts D T G fuel)
    (F : DocFacts D T) (hB : oneBuildLast T = true)
    (μ : MState) (ids : Nat) (src : Str) (hμ : (μ.reset D).dialect ∈ D) (d : Doc)
    (h : (parseWith D T false μ ids src).1 = .ok d) :
    ∃ t, LinkTree D T G (μ.reset D) (splitLines src) d (parseWith D T false μ ids src).2.builds ids
      (parseWith D T false μ ids src).2.ids t ∧ docNodesP DocSeqNo t := by
  have hD := queueDialectFacts_of_text L.dialects
  have hobs := queue_refines_peek D T hD L.queue L.commentBlank false μ ids src hμ
  have ho : (parseWith D T false μ ids src).1 = (parseWithPure D T false μ ids src).1 := congrArg Spec.Observed.outcome hobs
  have hb : (parseWith D T false μ ids src).2.builds = (parseWithPure D T false μ ids src).2.builds :=
    congrArg Spec.Observed.builds hobs
  have hi : (parseWith D T false μ ids src).2.ids = (parseWithPure D T false μ ids src).2.ids :=
    congrArg Spec.Observed.ids hobs
  have hseq := (accepted_sequence D T hD L.queue hB false μ ids src hμ d h).1
  rw [hb] at hseq ⊢
  rw [hi]
  obtain ⟨t, hlt, hdn⟩ := pure_link_doc L F μ ids src hμ d (ho ▸ h)
  refine ⟨t, hlt, docNodes_lineNo DocSeq t 1 hdn ?_⟩
  have hlen : (parseWithPure D T false μ ids src).2.builds.length = (splitLines src).length + 1 := by
    have := congrArg List.length hseq
    simpa using this
  rw [hlt.2.1, hseq, hlen]

end Lemmas
end GV
