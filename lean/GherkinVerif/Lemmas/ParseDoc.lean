/-
  Lemmas/ParseDoc.lean — document-level corollaries of the link (Lemmas/ParseLink.lean), part 1:
  every token handed to the builder is the matcher's output on its own physical line.

  `Spec.LineToks D μ n ls toks μf`: the tokens `toks` are, line by line, the output of a successful
  `match_<K>` on the FRESH token of the line (text `l`, number `n`, `n+1`, …) under the matcher
  state in force when the line is reached; `K` is a kind of the fallback chain of the line's
  intrinsic kind; inside a doc string `K` is `DocStringSeparator`, or `Other` and the line is not
  a separator; the matcher state evolves by `Spec.muAfter` and is `μf` after the last line.
  `parse_tokens`: for an accepted document `ctx.builds = toks ++ [eof]` with
  `LineToks D (μ.reset D) 1 (splitLines src) toks μf` and `μf` outside a doc string.
-/
import GherkinVerif.Lemmas.ParseLink
namespace GV
namespace Spec

/-- the fresh token the scanner makes of line `l`, the `n`-th of the document -/
def freshTok (l : Str) (n : Nat) : Token := { line := some l, lineNo := n }

/-- line by line: the built token is what a successful `match_<K>` makes of the fresh token of the
    line under the matcher state in force (which is one the matcher can be in: `μ.dialect ∈ D`,
    `sepOK μ`), `K` passes for the line's intrinsic kind, and the state moves on by `muAfter` -/
inductive LineToks (D : List Dialect) : MState → Nat → List Str → List Token → MState → Prop
  | nil (μ : MState) (n : Nat) : LineToks D μ n [] [] μ
  | cons {μ : MState} {n : Nat} {l : Str} {ls : List Str} {toks : List Token} {μf : MState} (K : Kind) :
      μ.dialect ∈ D → sepOK μ = true →
      (matchLine D K μ (freshTok l n) l).res = .matched →
      passes (intrinsicKind D μ l) K = true →
      (μ.inDocString = true →
        K = .DocStringSeparator ∨ (K = .Other ∧ verdict D μ l .DocStringSeparator = false)) →
      LineToks D (muAfter D μ l K) (n + 1) ls toks μf →
      LineToks D μ n (l :: ls) ((matchLine D K μ (freshTok l n) l).tok :: toks) μf

end Spec

namespace Lemmas
open Spec

/-! ### one build per branch -/

theorem opToks_prodOps_one (t : Token) (ps : List Prod) :
    opToks (prodOps t ps) = List.replicate (ps.filter (· == .build)).length t := by
  induction ps with
  | nil => rfl
  | cons p ps ih =>
    cases p with
    | start r =>
      rw [List.filter_cons_of_neg (by simp)]; exact ih
    | end_ r =>
      rw [List.filter_cons_of_neg (by simp)]; exact ih
    | build =>
      rw [List.filter_cons_of_pos (by simp)]
      simp only [prodOps, opToks, List.length_cons, List.replicate_succ, ih]

theorem trace_branch_mem {D : List Dialect} {T : Table} {s : Nat} {μ : MState} {ls : List Str} {sf : Nat}
    {steps : List (Branch × Token)} (h : Trace D T s μ ls sf steps) :
    ∀ p ∈ steps, ∃ row ∈ T.rows, p.1 ∈ row.branches := by
  induction h with
  | eof hrow hpick _ _ =>
    intro p hp
    rw [List.mem_singleton] at hp
    subst hp
    exact ⟨_, (row_id_of_row? hrow).2, (pick_mem hpick).1⟩
  | line hrow hpick _ _ _ ih =>
    intro p hp
    rcases List.mem_cons.1 hp with rfl | hp
    · exact ⟨_, (row_id_of_row? hrow).2, (pick_mem hpick).1⟩
    · exact ih p hp

/-- with one `build` per branch the built tokens are the tokens of the steps -/
theorem opToks_steps {T : Table} (hB : oneBuildLast T = true) (steps : List (Branch × Token))
    (h : ∀ p ∈ steps, ∃ row ∈ T.rows, p.1 ∈ row.branches) :
    opToks (stepsOps steps) = steps.map (·.2) := by
  induction steps with
  | nil => rfl
  | cons p steps ih =>
    simp only [stepsOps, List.flatMap_cons, opToks_append, List.map_cons]
    obtain ⟨row, hrow, hb⟩ := h p (List.mem_cons_self ..)
    simp only [oneBuildLast, List.all_eq_true, Bool.and_eq_true, beq_iff_eq] at hB
    have h1 := (hB row hrow p.1 hb).2
    rw [opToks_prodOps_one, h1]
    have := ih fun q hq => h q (List.mem_cons_of_mem _ hq)
    simp only [stepsOps] at this
    rw [this]
    rfl

/-! ### from a trace to `LineToks` -/

theorem matched_of_isMatched {r r' : MRes} (h : r = r') (hm : r = .matched) : r' = .matched := h ▸ hm

/-- the output of a successful test depends on the token only through its line and number -/
theorem matchTok_fresh {D : List Dialect} {K : Kind} {μ : MState} {t0 : Token} {l : Str}
    (hl : t0.line = some l) (hres : (matchTok D K μ t0).1.res = .matched) :
    (matchLine D K μ (freshTok l t0.lineNo) l).res = .matched ∧
    (matchTok D K μ t0).1.tok = (matchLine D K μ (freshTok l t0.lineNo) l).tok := by
  have hk : sameKey t0 (freshTok l t0.lineNo) := ⟨hl, rfl⟩
  obtain ⟨⟨-, hr, htok⟩, -⟩ := matchTok_rel D K μ hk
  have hfr : matchTok D K μ (freshTok l t0.lineNo) = (matchLine D K μ (freshTok l t0.lineNo) l, true) :=
    matchTok_line (t := freshTok l t0.lineNo) rfl
  rw [hfr] at hr htok
  dsimp only at hr htok
  refine ⟨hr ▸ hres, ?_⟩
  rcases htok with h | ⟨h, -, -⟩
  · exact h
  · rw [hres] at h; cases h

/-- in a content row the branch taken is the separator test, or the `Other` test after the separator
    test has failed -/
theorem content_pick {T : Table} {row : StateRow} (hr : isContentRow row = true) {k : Kind} {fut : List Kind}
    {b : Branch} (hp : pickBranch T k fut row.branches = some b) :
    b.kind = .DocStringSeparator ∨ (b.kind = .Other ∧ passes k .DocStringSeparator = false) := by
  unfold isContentRow at hr
  split at hr
  · rename_i b1 b2 hb
    simp only [Bool.and_eq_true, beq_iff_eq] at hr
    obtain ⟨⟨⟨⟨⟨⟨k1, g1⟩, -⟩, k2⟩, -⟩, -⟩, -⟩ := hr
    rw [hb] at hp
    simp only [pickBranch] at hp
    split at hp
    · cases hp; exact .inl k1
    · rename_i hc
      split at hp
      · cases hp
        refine .inr ⟨k2, ?_⟩
        rw [k1, guardOk_unguarded g1] at hc
        simpa using hc
      · cases hp
  · cases hr

/-- the matcher is inside a doc string exactly in the content states: one line further -/
theorem inv_next {D : List Dialect} {T : Table} (hf : textDialectFacts D = true) (hCE : contentEntry T = true)
    {s : Nat} {row : StateRow} {b : Branch} {μ : MState} {l : Str} (hrow : T.row? s = some row)
    (hbm : b ∈ row.branches) (hμ : MuOK D μ) (hpass : passes (intrinsicKind D μ l) b.kind = true)
    (hinv : μ.inDocString = (contentStates T).contains s) :
    (muAfter D μ l b.kind).inDocString = (contentStates T).contains b.target := by
  simp only [contentEntry, List.all_eq_true] at hCE
  obtain ⟨hid, hmem⟩ := row_id_of_row? hrow
  have hce := hCE row hmem b hbm
  rw [hid] at hce
  have hv : verdict D μ l b.kind = true := by rw [kind_unique hf D μ hμ.1 hμ.2 l]; exact hpass
  by_cases hk : b.kind = .DocStringSeparator
  · have hm := verdict_matched hv
    rw [hk] at hm
    have := (docsep_match D μ (probe l) l hm).2.2.2
    unfold muAfter
    rw [hk, this, hinv]
    cases hc : (contentStates T).contains s with
    | true =>
      rw [hc] at hce
      simp only [if_true, hk, beq_self_eq_true, Bool.true_and, Bool.or_eq_true, Bool.not_eq_true',
        Bool.and_eq_true, beq_iff_eq] at hce
      rcases hce with h1 | h1
      · rw [h1]; rfl
      · exact absurd h1.1 (by decide)
    | false =>
      rw [hc] at hce
      simp only [Bool.false_eq_true, if_false, hk, beq_self_eq_true, beq_iff_eq] at hce
      rw [← hce]; rfl
  · have hsep : (muAfter D μ l b.kind).activeSep = μ.activeSep := keeps_activeSep D b.kind μ (probe l) l hk
    rw [inDocString_congr hsep, hinv]
    have hkb : (b.kind == Kind.DocStringSeparator) = false := by simpa using hk
    cases hc : (contentStates T).contains s with
    | true =>
      rw [hc] at hce
      simp only [if_true, hkb, Bool.false_and, Bool.false_or, Bool.and_eq_true, beq_iff_eq] at hce
      rw [hce.2, hc]
    | false =>
      rw [hc] at hce
      simp only [Bool.false_eq_true, if_false, hkb] at hce
      exact (by simpa using hce.symm : (contentStates T).contains b.target = false).symm

theorem content_row_of {T : Table} (hCR : ((contentStates T).all fun s => (T.row? s).any isContentRow) = true)
    {s : Nat} {row : StateRow} (hrow : T.row? s = some row) (hs : (contentStates T).contains s = true) :
    isContentRow row = true := by
  rw [List.all_eq_true] at hCR
  have := hCR s (List.contains_iff_mem.1 hs)
  rw [hrow] at this
  simpa using this

theorem trace_lineToks {D : List Dialect} {T : Table} (hf : textDialectFacts D = true) (hCE : contentEntry T = true)
    (hCR : ((contentStates T).all fun s => (T.row? s).any isContentRow) = true)
    {s : Nat} {μ : MState} {ls : List Str} {sf : Nat}
    {steps : List (Branch × Token)} (h : Trace D T s μ ls sf steps) (hμ : MuOK D μ)
    (hinv : μ.inDocString = (contentStates T).contains s) (n : Nat)
    (hno : steps.map (·.2.lineNo) = List.range' n (ls.length + 1)) :
    ∃ toks e μf, steps.map (·.2) = toks ++ [e] ∧ LineToks D μ n ls toks μf ∧ μf.inDocString = false ∧
      e.line = none ∧ e.mtype = some .EOF ∧ e.lineNo = n + ls.length := by
  induction h generalizing n with
  | @eof s μ row b t0 hrow hpick ht0 hres =>
    have hbk : b.kind = .EOF := by
      have := (pick_mem hpick).2.1
      rw [passes_EOF] at this
      exact beq_iff_eq.1 this
    refine ⟨[], _, μ, rfl, .nil μ n, ?_, ?_, ?_, ?_⟩
    · rw [hinv]
      cases hc : (contentStates T).contains s with
      | false => rfl
      | true =>
        exfalso
        rcases content_pick (content_row_of hCR hrow hc) hpick with h1 | ⟨h1, -⟩ <;> (rw [hbk] at h1; cases h1)
    · rw [(matchTok_tok D b.kind μ t0).1]; exact ht0
    · exact (matchTok_well_matched D _ _ _ hres).1.trans (by rw [hbk])
    · simp only [List.map_cons, List.map_nil, List.length_nil, List.range', List.cons.injEq, and_true] at hno
      simpa using hno
  | @line s μ l ls row b t0 sf rest hrow hpick ht0 hres _ ih =>
    simp only [List.map_cons, List.length_cons] at hno
    rw [List.range'_succ] at hno
    obtain ⟨hn, hrest⟩ := List.cons.inj hno
    have hn0 : t0.lineNo = n := by rw [← (matchTok_tok D b.kind μ t0).2]; exact hn
    obtain ⟨hfres, hftok⟩ := matchTok_fresh ht0 hres
    rw [hn0] at hfres hftok
    obtain ⟨hbm, hpass, -⟩ := pick_mem hpick
    obtain ⟨toks, e, μf, hsteps, hlt, hμf, he1, he2, he3⟩ :=
      ih (muAfter_ok D μ hμ l b.kind) (inv_next hf hCE hrow hbm hμ hpass hinv) (n + 1) hrest
    refine ⟨(matchLine D b.kind μ (freshTok l n) l).tok :: toks, e, μf, ?_, ?_, hμf, he1, he2, ?_⟩
    · simp only [List.map_cons, List.cons_append, hsteps, hftok]
    · refine .cons b.kind hμ.1 hμ.2 hfres hpass (fun hin => ?_) hlt
      rw [hinv] at hin
      rcases content_pick (content_row_of hCR hrow hin) hpick with h1 | ⟨h1, h2⟩
      · exact .inl h1
      · exact .inr ⟨h1, by rw [kind_unique hf D μ hμ.1 hμ.2 l]; exact h2⟩
    · rw [he3, List.length_cons]; omega

/-! ### every built token is the matcher's output on its own line -/

theorem parse_tokens {D : List Dialect} {T : Table} {G : Grammar} {fuel : Nat} (L : LinkFacts D T G fuel)
    (hB : oneBuildLast T = true)
    (hCR : ((contentStates T).all fun s => (T.row? s).any isContentRow) = true)
    (μ : MState) (ids : Nat) (src : Str) (hμ : (μ.reset D).dialect ∈ D) (d : Doc)
    (h : (parseWith D T false μ ids src).1 = .ok d) :
    ∃ toks e μf, (parseWith D T false μ ids src).2.builds = toks ++ [e] ∧
      LineToks D (μ.reset D) 1 (splitLines src) toks μf ∧ μf.inDocString = false ∧
      e.line = none ∧ e.mtype = some .EOF ∧ e.lineNo = (splitLines src).length + 1 := by
  have hD := queueDialectFacts_of_text L.dialects
  have F := QF.of_facts hD L.queue
  have hobs := queue_refines_peek D T hD L.queue L.commentBlank false μ ids src hμ
  have ho : (parseWith D T false μ ids src).1 = (parseWithPure D T false μ ids src).1 := congrArg Spec.Observed.outcome hobs
  have hb : (parseWith D T false μ ids src).2.builds = (parseWithPure D T false μ ids src).2.builds :=
    congrArg Spec.Observed.builds hobs
  have hseq := (accepted_sequence D T hD L.queue hB false μ ids src hμ d h).1
  rw [hb] at hseq ⊢
  rw [ho] at h
  have hpw := parseWithPure_eq D T false μ ids src
  rcases hr : run (parseBodyPure D T false (splitLines src).length) (ctx0 D μ ids src) with ⟨r, c⟩
  rw [hr] at hpw
  have hμ0 : MuOK D (ctx0 D μ ids src).μ := ⟨hμ, reset_sepOK D μ⟩
  cases r with
  | error e =>
    exfalso
    rw [hpw] at h
    cases e <;> cases h
  | ok d' =>
    dsimp only at hpw
    rw [hpw] at hseq ⊢
    dsimp only at hseq ⊢
    obtain ⟨steps, sf, htr, -, hbuilds, -⟩ := body_clean L.dialects F _ _ hμ0 hr
    have htr' : Trace D T 0 (μ.reset D) (splitLines src) sf steps := htr
    have hbuilds' : c.builds = steps.map (·.2) := by
      rw [hbuilds, opToks_steps hB steps (trace_branch_mem htr')]; rfl
    rw [hbuilds'] at hseq ⊢
    rw [List.map_map] at hseq
    have hinv : (μ.reset D).inDocString = (contentStates T).contains 0 := by
      rw [reset_inDocString]
      have := L.docOpens
      simp only [docStringOpens, Bool.and_eq_true, Bool.not_eq_true'] at this
      exact this.1.symm
    obtain ⟨toks, e, μf, h1, h2, hf', h3, h4, h5⟩ :=
      trace_lineToks L.dialects L.content hCR htr' hμ0 hinv 1 hseq
    exact ⟨toks, e, μf, h1, h2, hf', h3, h4, by rw [h5]; omega⟩

/-! ### `LineToks`, read off -/

theorem LineToks.length {D : List Dialect} {μ μf : MState} {n : Nat} {ls : List Str} {toks : List Token}
    (h : LineToks D μ n ls toks μf) : toks.length = ls.length := by
  induction h with
  | nil => rfl
  | cons _ _ _ _ _ _ _ ih => simp [ih]

/-- the `i`-th token: some kind `K` and some matcher state `μᵢ` the matcher can be in, with
    `match_<K>` successful on the fresh token of line `i` and the built token its output -/
theorem LineToks.at {D : List Dialect} {μ μf : MState} {n : Nat} {ls : List Str} {toks : List Token}
    (h : LineToks D μ n ls toks μf) : ∀ (i : Nat) (l : Str), ls[i]? = some l →
      ∃ K μi, μi.dialect ∈ D ∧ sepOK μi = true ∧
        (matchLine D K μi (freshTok l (n + i)) l).res = .matched ∧
        toks[i]? = some (matchLine D K μi (freshTok l (n + i)) l).tok ∧
        passes (intrinsicKind D μi l) K = true ∧
        (matchLine D K μi (freshTok l (n + i)) l).tok.mtype = some K := by
  induction h with
  | nil => intro i l hi; simp at hi
  | @cons μ n l0 ls toks μf K hd hs hres hp _ _ ih =>
    intro i l hi
    cases i with
    | zero =>
      simp only [List.getElem?_cons_zero, Option.some.injEq] at hi
      subst hi
      exact ⟨K, μ, hd, hs, hres, rfl, hp, (match_well_matched D K μ _ _ hres).1⟩
    | succ i =>
      simp only [List.getElem?_cons_succ] at hi
      obtain ⟨K', μi, h1, h2, h3, h4, h5, h6⟩ := ih i l hi
      have : n + 1 + i = n + (i + 1) := by omega
      rw [this] at h3 h4 h6
      exact ⟨K', μi, h1, h2, h3, by simpa using h4, h5, h6⟩

/-- every token of the list comes from some line -/
theorem LineToks.mem {D : List Dialect} {μ μf : MState} {n : Nat} {ls : List Str} {toks : List Token}
    (h : LineToks D μ n ls toks μf) : ∀ tk ∈ toks, ∃ (i : Nat) (l : Str) (K : Kind) (μi : MState),
      ls[i]? = some l ∧ μi.dialect ∈ D ∧ sepOK μi = true ∧
      (matchLine D K μi (freshTok l (n + i)) l).res = .matched ∧
      tk = (matchLine D K μi (freshTok l (n + i)) l).tok ∧ tk.mtype = some K := by
  induction h with
  | nil => intro tk hk; cases hk
  | @cons μ n l0 ls toks μf K hd hs hres hp _ _ ih =>
    intro tk hk
    rcases List.mem_cons.1 hk with rfl | hk
    · exact ⟨0, l0, K, μ, rfl, hd, hs, hres, rfl, (match_well_matched D K μ _ _ hres).1⟩
    · obtain ⟨i, l, K', μi, h0, h1, h2, h3, h4, h5⟩ := ih tk hk
      have : n + 1 + i = n + (i + 1) := by omega
      rw [this] at h3 h4
      exact ⟨i + 1, l, K', μi, by simpa using h0, h1, h2, h3, h4, h5⟩

end Lemmas
end GV
