/-
  Lemmas/LayoutDoc2.lean — property C16, trailing blanks, lifted to the whole parse.

  The lock-step simulation of Lemmas/LayoutDoc.lean again, for two texts whose physical lines agree
  pairwise up to their trailing WHITESPACE (`rstrip` equal).  A line whose tail differs by more than
  CR/LF ("modified", marked by a set `M` of line numbers) is matched alike by every `match_<k>`
  except `Other` (and `Comment` if it is a `#` line, `StepLine` if it is a step keyword cut short,
  both excluded statically).  The test `Other` always succeeds and its branch always builds the
  token, so the simulation has an escape: either both runs end alike, or the second run has built
  a modified line as `Other` (`Bad`).  Tokens handed to the builder are only ever appended
  (`Grows`), so `Bad` can be read off the final context.
-/
import GherkinVerif.Lemmas.LayoutDoc
namespace GV

namespace Spec

/-- every `Other` test of the table is unguarded -/
def otherUnguarded (T : Table) : Bool :=
  T.rows.all fun r => r.branches.all fun b => !(b.kind == .Other) || b.guard.isNone

/-- no look-ahead tests `Other` -/
def lookaheadsNoOther (T : Table) : Bool :=
  T.lookaheads.all fun la => !la.expected.contains .Other && !la.skip.contains .Other

/-- the dialects named by the `# language:` headers among these lines -/
def langDialects (D : List Dialect) (lines : List Str) : List Dialect :=
  lines.filterMap fun l => (languageRe (lineText l none)).bind (findDialect D)

end Spec

namespace Lemmas

/-! ### strings -/

theorem dropWhileEnd_decomp (p : Nat → Bool) (l : Str) :
    ∃ w, l = dropWhileEnd p l ++ w ∧ ∀ c ∈ w, p c = true := by
  induction l with
  | nil => exact ⟨[], rfl, fun c hc => by cases hc⟩
  | cons c cs ih =>
    obtain ⟨w, hw, hall⟩ := ih
    cases hr : dropWhileEnd p cs with
    | nil =>
      rw [hr] at hw
      by_cases hc : p c = true
      · refine ⟨c :: cs, by simp [dropWhileEnd, hr, hc], fun d hd => ?_⟩
        rcases List.mem_cons.1 hd with rfl | hd
        · exact hc
        · rw [hw] at hd; exact hall d (by simpa using hd)
      · refine ⟨cs, by simp [dropWhileEnd, hr, hc], fun d hd => ?_⟩
        rw [hw] at hd; exact hall d (by simpa using hd)
    | cons a r =>
      refine ⟨w, ?_, hall⟩
      simp only [dropWhileEnd, hr]
      rw [← hr, List.cons_append, ← hw]

theorem rstrip_decomp (l : Str) : ∃ w, l = rstrip l ++ w ∧ AllSpace w := dropWhileEnd_decomp isSpace l

theorem LineRel.rstrip_eq {l1 l2 : Str} (h : LineRel l1 l2) : rstrip l1 = rstrip l2 := by
  obtain ⟨s, w1, w2, rfl, rfl, h1, h2⟩ := h
  rw [rstrip_append_allSpace s h1.allSpace, rstrip_append_allSpace s h2.allSpace]

/-! ### more that matching never changes -/

theorem matchTitle_lineNo {μ : MState} {t t' : Token} {l : Str} {ty : Kind} {kws : List Str}
    (h : matchTitle μ t l ty kws = some t') : t'.lineNo = t.lineNo := by
  unfold matchTitle at h
  split at h
  · cases h; rfl
  · cases h

theorem matchDocSep_lineNo {μ μ' : MState} {t t' : Token} {l sep : Str} {o : Bool}
    (h : matchDocSep μ t l sep o = some (t', μ')) : t'.lineNo = t.lineNo ∧ μ'.dialect = μ.dialect := by
  unfold matchDocSep at h
  split at h
  · split at h <;> (cases h; exact ⟨rfl, rfl⟩)
  · cases h

theorem matchLine_lineNo (D : List Dialect) (k : Kind) (μ : MState) (t : Token) (l : Str) :
    (matchLine D k μ t l).tok.lineNo = t.lineNo := by
  have hopt : ∀ (o : Option Token), (∀ t', o = some t' → t'.lineNo = t.lineNo) →
      (match o with | some t' => (⟨t', μ, .matched⟩ : MOut) | none => ⟨t, μ, .no⟩).tok.lineNo = t.lineNo := by
    intro o ho
    cases o with
    | none => rfl
    | some t' => exact ho t' rfl
  have opening : ∀ r, ((matchDocSep μ t l dq3 true).orElse fun _ => matchDocSep μ t l bt3 true) = r →
      (match r with | some (t', μ') => (⟨t', μ', .matched⟩ : MOut) | none => ⟨t, μ, .no⟩).tok.lineNo = t.lineNo := by
    intro r hr
    cases r with
    | none => rfl
    | some x =>
      obtain ⟨t', μ'⟩ := x
      cases h1 : matchDocSep μ t l dq3 true with
      | some y => rw [h1] at hr; simp only [Option.orElse] at hr; cases hr; exact (matchDocSep_lineNo h1).1
      | none => rw [h1] at hr; simp only [Option.orElse] at hr; exact (matchDocSep_lineNo hr).1
  cases k with
  | EOF => rfl
  | FeatureLine => exact hopt _ fun t' h => matchTitle_lineNo h
  | RuleLine => exact hopt _ fun t' h => matchTitle_lineNo h
  | BackgroundLine => exact hopt _ fun t' h => matchTitle_lineNo h
  | ExamplesLine => exact hopt _ fun t' h => matchTitle_lineNo h
  | ScenarioLine =>
    simp only [matchLine]
    split
    · rename_i h; exact matchTitle_lineNo h
    · exact hopt _ fun t' h => matchTitle_lineNo h
  | TableRow => simp only [matchLine]; split <;> rfl
  | StepLine => simp only [matchLine]; split <;> rfl
  | Comment => simp only [matchLine]; split <;> rfl
  | Empty => simp only [matchLine]; split <;> rfl
  | Other => rfl
  | Language =>
    simp only [matchLine]
    split
    · rfl
    · split <;> rfl
  | TagLine =>
    simp only [matchLine]
    split
    · split <;> rfl
    · rfl
  | DocStringSeparator =>
    simp only [matchLine]
    cases hsep : μ.activeSep with
    | none => exact opening _ rfl
    | some sep =>
      simp only []
      cases sep.isEmpty with
      | true => exact opening _ rfl
      | false =>
        simp only [Bool.false_eq_true, ↓reduceIte]
        cases hm : matchDocSep μ t l sep false with
        | none => rfl
        | some x => exact (matchDocSep_lineNo hm).1

theorem matchTok_lineNo (D : List Dialect) (k : Kind) (μ : MState) (t : Token) :
    (matchTok D k μ t).1.tok.lineNo = t.lineNo := by
  unfold matchTok
  split
  · split <;> rfl
  · exact matchLine_lineNo D k μ t _

/-- the dialect after a match is the one before, or the one a `# language:` header on that very
    line names -/
theorem matchLine_dialect (D : List Dialect) (k : Kind) (μ : MState) (t : Token) (l : Str) :
    (matchLine D k μ t l).μ.dialect = μ.dialect ∨
    ∃ name d, languageRe (lineText l none) = some name ∧ findDialect D name = some d ∧
      (matchLine D k μ t l).μ.dialect = d := by
  have opening : ∀ r, ((matchDocSep μ t l dq3 true).orElse fun _ => matchDocSep μ t l bt3 true) = r →
      (match r with | some (t', μ') => (⟨t', μ', .matched⟩ : MOut) | none => ⟨t, μ, .no⟩).μ.dialect = μ.dialect := by
    intro r hr
    cases r with
    | none => rfl
    | some x =>
      obtain ⟨t', μ'⟩ := x
      cases h1 : matchDocSep μ t l dq3 true with
      | some y => rw [h1] at hr; simp only [Option.orElse] at hr; cases hr; exact (matchDocSep_lineNo h1).2
      | none => rw [h1] at hr; simp only [Option.orElse] at hr; exact (matchDocSep_lineNo hr).2
  cases k with
  | EOF => exact .inl rfl
  | FeatureLine => simp only [matchLine]; split <;> exact .inl rfl
  | RuleLine => simp only [matchLine]; split <;> exact .inl rfl
  | BackgroundLine => simp only [matchLine]; split <;> exact .inl rfl
  | ExamplesLine => simp only [matchLine]; split <;> exact .inl rfl
  | ScenarioLine =>
    simp only [matchLine]
    split
    · exact .inl rfl
    · split <;> exact .inl rfl
  | TableRow => simp only [matchLine]; split <;> exact .inl rfl
  | StepLine => simp only [matchLine]; split <;> exact .inl rfl
  | Comment => simp only [matchLine]; split <;> exact .inl rfl
  | Empty => simp only [matchLine]; split <;> exact .inl rfl
  | Other => exact .inl rfl
  | TagLine =>
    simp only [matchLine]
    split
    · split <;> exact .inl rfl
    · exact .inl rfl
  | Language =>
    simp only [matchLine]
    split
    · exact .inl rfl
    · rename_i name hname
      split
      · rename_i d hd; exact .inr ⟨name, d, hname, hd, rfl⟩
      · exact .inl rfl
  | DocStringSeparator =>
    simp only [matchLine]
    cases hsep : μ.activeSep with
    | none => exact .inl (opening _ rfl)
    | some sep =>
      simp only []
      cases sep.isEmpty with
      | true => exact .inl (opening _ rfl)
      | false =>
        simp only [Bool.false_eq_true, ↓reduceIte]
        cases hm : matchDocSep μ t l sep false with
        | none => exact .inl rfl
        | some x => exact .inl (matchDocSep_lineNo hm).2

theorem matchTok_dialect (D : List Dialect) (k : Kind) (μ : MState) (t : Token) :
    (matchTok D k μ t).1.μ.dialect = μ.dialect ∨
    ∃ l name d, t.line = some l ∧ languageRe (lineText l none) = some name ∧ findDialect D name = some d ∧
      (matchTok D k μ t).1.μ.dialect = d := by
  cases hl : t.line with
  | none =>
    have e : matchTok D k μ t =
        if k == .EOF then (⟨setMatched μ t .EOF, μ, .matched⟩, true) else (⟨t, μ, .no⟩, false) := by
      unfold matchTok; rw [hl]
    rw [e]; split <;> exact .inl rfl
  | some l =>
    have e : matchTok D k μ t = (matchLine D k μ t l, true) := by unfold matchTok; rw [hl]
    rw [e]
    rcases matchLine_dialect D k μ t l with h | ⟨name, d, h1, h2, h3⟩
    · exact .inl h
    · exact .inr ⟨l, name, d, rfl, h1, h2, h3⟩

/-! ### lines and tokens that differ in their trailing whitespace -/

/-- parameters of the simulation: the line numbers of the modified lines, the physical lines of
    the second text, the dialects that can be in force -/
structure BlankParams where
  M : Nat → Prop
  L2 : List Str
  DS : List Dialect

/-- line `i`, modified: same content up to trailing whitespace; not a `#` line; cutting it short
    or padding it cannot make or unmake a step keyword of any dialect in force -/
def ModOk (P : BlankParams) (i : Nat) (l1 l2 : Str) : Prop :=
  rstrip l1 = rstrip l2 ∧ P.M i ∧ lineStartsWith l2 [35] = false ∧
  ∀ d ∈ P.DS, stepTailFreeB d.stepKeywords (rstrip l2) = true

/-- the two versions of line `i`: they differ in their line ending only, or the line is modified -/
def PairRel (P : BlankParams) (i : Nat) (l1 l2 : Str) : Prop :=
  l2 ∈ P.L2 ∧ (LineRel l1 l2 ∨ ModOk P i l1 l2)

/-- unread lines, the first of them being line `n + 1` -/
inductive LinesRel (P : BlankParams) : Nat → List Str → List Str → Prop
  | nil (n : Nat) : LinesRel P n [] []
  | cons {n : Nat} {l1 l2 : Str} {ls1 ls2 : List Str} (h : PairRel P (n + 1) l1 l2)
      (t : LinesRel P (n + 1) ls1 ls2) : LinesRel P n (l1 :: ls1) (l2 :: ls2)

theorem LinesRel.length_eq {P : BlankParams} {n : Nat} {ls1 ls2 : List Str} (h : LinesRel P n ls1 ls2) :
    ls1.length = ls2.length := by
  induction h with
  | nil => rfl
  | cons _ _ ih => simp [ih]

theorem LinesRel.nil_left {P : BlankParams} {n : Nat} {ls2 : List Str} (h : LinesRel P n [] ls2) : ls2 = [] := by
  cases h; rfl

theorem LinesRel.cons_left {P : BlankParams} {n : Nat} {l1 : Str} {ls1 ls2 : List Str}
    (h : LinesRel P n (l1 :: ls1) ls2) :
    ∃ l2 ls2', ls2 = l2 :: ls2' ∧ PairRel P (n + 1) l1 l2 ∧ LinesRel P (n + 1) ls1 ls2' := by
  cases h with
  | cons hp ht => exact ⟨_, _, rfl, hp, ht⟩

def OPairRel (P : BlankParams) (i : Nat) : Option Str → Option Str → Prop
  | none, none => True
  | some l1, some l2 => PairRel P i l1 l2
  | _, _ => False

/-- two tokens: all matcher-written fields equal, physical lines related -/
def TokRelU (P : BlankParams) (t1 t2 : Token) : Prop := TokSame t1 t2 ∧ OPairRel P t2.lineNo t1.line t2.line

/-- both tokens have been matched as `Other`, on a modified line -/
def BadPair (P : BlankParams) (t1 t2 : Token) : Prop :=
  t1.mtype = some .Other ∧ t2.mtype = some .Other ∧ P.M t2.lineNo

/-- a modified line has been handed to the builder as `Other` -/
def Bad (P : BlankParams) (c : Ctx) : Prop := ∃ t ∈ c.builds, t.mtype = some .Other ∧ P.M t.lineNo

/-- the dialects in force include every dialect a `# language:` header of the text names -/
def Closed (D : List Dialect) (P : BlankParams) : Prop :=
  ∀ l ∈ P.L2, ∀ name d, languageRe (lineText l none) = some name → findDialect D name = some d → d ∈ P.DS

theorem TokRelU.blank_iff {P : BlankParams} {t1 t2 : Token} (h : TokRelU P t1 t2) : Blank t1 ↔ Blank t2 := by
  obtain ⟨-, hl⟩ := h
  have key : ∀ l1 l2, rstrip l1 = rstrip l2 → lstrip l1 = [] → lstrip l2 = [] := by
    intro l1 l2 hr h1
    obtain ⟨w2, e2, hw2⟩ := rstrip_decomp l2
    have : rstrip l1 = [] := dropWhileEnd_all (allSpace_of_lstrip_nil h1)
    rw [← hr, this] at e2
    rw [e2]; exact lstrip_allSpace hw2
  cases h1 : t1.line with
  | none =>
    cases h2 : t2.line with
    | none => exact ⟨fun ⟨l, hl', _⟩ => (by rw [h1] at hl'; cases hl'), fun ⟨l, hl', _⟩ => (by rw [h2] at hl'; cases hl')⟩
    | some l2 => rw [h1, h2] at hl; exact hl.elim
  | some l1 =>
    cases h2 : t2.line with
    | none => rw [h1, h2] at hl; exact hl.elim
    | some l2 =>
      rw [h1, h2] at hl
      have hr : rstrip l1 = rstrip l2 := by
        rcases hl.2 with h | h
        · exact h.rstrip_eq
        · exact h.1
      constructor
      · rintro ⟨l, hl', hb⟩
        rw [h1] at hl'; cases hl'
        exact ⟨l2, h2, key _ _ hr hb⟩
      · rintro ⟨l, hl', hb⟩
        rw [h2] at hl'; cases hl'
        exact ⟨l1, h1, key _ _ hr.symm hb⟩

/-- what one matcher call on related tokens yields: same verdict, same new state, related tokens —
    or the test was `Other` on a modified line, which succeeds on both -/
def MatchOutU (D : List Dialect) (P : BlankParams) (k : Kind) (μ : MState) (t1 t2 : Token) : Prop :=
  (matchTok D k μ t1).2 = (matchTok D k μ t2).2 ∧
  (matchTok D k μ t1).1.res = (matchTok D k μ t2).1.res ∧
  (matchTok D k μ t1).1.μ = (matchTok D k μ t2).1.μ ∧
  Sane D (matchTok D k μ t1).1.μ ∧ (matchTok D k μ t1).1.μ.dialect ∈ P.DS ∧
  (TokRelU P (matchTok D k μ t1).1.tok (matchTok D k μ t2).1.tok ∨
    (k = .Other ∧ (matchTok D k μ t1).1.res = .matched ∧
      BadPair P (matchTok D k μ t1).1.tok (matchTok D k μ t2).1.tok))

theorem matchTok_relU {D : List Dialect} (hD : Spec.stepKeywordsOk D = true) {P : BlankParams}
    (hcl : Closed D P) (k : Kind) {μ : MState} (hμ : Sane D μ) (hds : μ.dialect ∈ P.DS)
    {t1 t2 : Token} (ht : TokRelU P t1 t2) : MatchOutU D P k μ t1 t2 := by
  unfold MatchOutU
  obtain ⟨hs, hl⟩ := ht
  have hline : OPairRel P (matchTok D k μ t2).1.tok.lineNo (matchTok D k μ t1).1.tok.line
      (matchTok D k μ t2).1.tok.line := by
    rw [matchTok_line, matchTok_line, matchTok_lineNo]; exact hl
  -- the dialect stays in force
  have hdial : (matchTok D k μ t1).1.μ = (matchTok D k μ t2).1.μ → (matchTok D k μ t1).1.μ.dialect ∈ P.DS := by
    intro e
    rw [e]
    rcases matchTok_dialect D k μ t2 with h | ⟨l, name, d, h1, h2, h3, h4⟩
    · rw [h]; exact hds
    · rw [h4]
      refine hcl l ?_ name d h2 h3
      rw [h1] at hl
      cases h0 : t1.line with
      | none => rw [h0] at hl; exact hl.elim
      | some l1 => rw [h0] at hl; exact hl.1
  -- lines related by their line ending only (or both absent): Lemmas/LayoutDoc.lean
  have easy : TokRel t1 t2 → MatchOutU D P k μ t1 t2 := fun hrel => by
    obtain ⟨a, b, c, d, e⟩ := matchTok_rel hD k hμ hrel
    exact ⟨a, b, c, e, hdial c, .inl ⟨d.1, hline⟩⟩
  cases h1 : t1.line with
  | none =>
    cases h2 : t2.line with
    | some l2 => rw [h1, h2] at hl; exact hl.elim
    | none => exact easy ⟨hs, by rw [h1, h2]; trivial⟩
  | some l1 =>
    cases h2 : t2.line with
    | none => rw [h1, h2] at hl; exact hl.elim
    | some l2 =>
      rw [h1, h2] at hl
      rcases hl.2 with hrel | ⟨hr, hM, hhash, htf⟩
      · exact easy ⟨hs, by rw [h1, h2]; exact hrel⟩
      · have e1 : matchTok D k μ t1 = (matchLine D k μ t1 l1, true) := by unfold matchTok; rw [h1]
        have e2 : matchTok D k μ t2 = (matchLine D k μ t2 l2, true) := by unfold matchTok; rw [h2]
        have hlineNo2 := matchTok_lineNo D k μ t2
        simp only [e1, e2] at hline hdial hlineNo2 ⊢
        by_cases ho : k = .Other
        · subst ho
          refine ⟨trivial, rfl, rfl, hμ, hds, .inr ⟨rfl, rfl, rfl, rfl, ?_⟩⟩
          rw [hlineNo2]; exact hM
        · have htf' : StepTailFree μ (rstrip l2) := stepTailFree_of_B (htf _ hds)
          obtain ⟨w1, q1, hw1⟩ := rstrip_decomp l1
          obtain ⟨w2, q2, hw2⟩ := rstrip_decomp l2
          rw [hr] at q1
          generalize rstrip l2 = s at q1 q2 htf'
          subst q1 q2
          have p1 : t1 = withLine t1 (s ++ w1) := tok_eq_withLine (TokSame.refl t1) h1
          have p2 : t2 = withLine t1 (s ++ w2) := tok_eq_withLine hs h2
          by_cases hc : k = .Comment
          · subst hc
            have c2 : lineStartsWith (s ++ w2) [35] = false := hhash
            have c1 : lineStartsWith (s ++ w1) [35] = false := by
              rw [lineStartsWith_tail_noTrail hw1 (by intro c hc; cases hc; decide)]
              rw [lineStartsWith_tail_noTrail hw2 (by intro c hc; cases hc; decide)] at c2
              exact c2
            have r1 : matchLine D .Comment μ t1 (s ++ w1) = ⟨t1, μ, .no⟩ := by simp [matchLine, c1]
            have r2 : matchLine D .Comment μ t2 (s ++ w2) = ⟨t2, μ, .no⟩ := by simp [matchLine, c2]
            rw [r1, r2] at hline ⊢
            exact ⟨trivial, rfl, rfl, hμ, hds, .inl ⟨hs, hline⟩⟩
          · have key := sameMatch_blanks D k μ t1 s w1 w2 hw1 hw2 ⟨hc, ho⟩ (fun _ => htf') hμ.1
            rw [← p1, ← p2] at key
            exact ⟨trivial, key.1, key.2.1, sane_matchLine D k μ t1 _ hμ, hdial key.2.1, .inl ⟨key.2.2, hline⟩⟩

theorem unexpectedErr_relU {P : BlankParams} (row : StateRow) {t1 t2 : Token} (ht : TokRelU P t1 t2)
    (hb : ¬ Blank t1) : unexpectedErr row t1 = unexpectedErr row t2 := by
  obtain ⟨hs, hl⟩ := ht
  cases h1 : t1.line with
  | none =>
    cases h2 : t2.line with
    | some l2 => rw [h1, h2] at hl; exact hl.elim
    | none => unfold unexpectedErr; rw [h1, h2]; simp only [hs.loc_eq]
  | some l1 =>
    cases h2 : t2.line with
    | none => rw [h1, h2] at hl; exact hl.elim
    | some l2 =>
      rw [h1, h2] at hl
      have hr : rstrip l1 = rstrip l2 := by
        rcases hl.2 with h | h
        · exact h.rstrip_eq
        · exact h.1
      obtain ⟨w1, q1, hw1⟩ := rstrip_decomp l1
      obtain ⟨w2, q2, hw2⟩ := rstrip_decomp l2
      rw [hr] at q1
      generalize rstrip l2 = s at q1 q2
      subst q1 q2
      have p1 : t1 = withLine t1 (s ++ w1) := tok_eq_withLine (TokSame.refl t1) h1
      have p2 : t2 = withLine t1 (s ++ w2) := tok_eq_withLine hs h2
      have hne : lstrip s ≠ [] := fun h0 => hb ⟨_, h1, lstrip_append_nil h0 hw1⟩
      calc unexpectedErr row t1 = unexpectedErr row (withLine t1 (s ++ w1)) := congrArg _ p1
        _ = unexpectedErr row (withLine t1 s) := unexpectedErr_tail row t1 s w1 hw1 hne
        _ = unexpectedErr row (withLine t1 (s ++ w2)) := (unexpectedErr_tail row t1 s w2 hw2 hne).symm
        _ = unexpectedErr row t2 := (congrArg _ p2).symm

/-! ### tokens handed to the builder are only ever appended -/

/-- the computation only appends to the ghost list of built tokens -/
def Grows {α} (m : PM α) : Prop := ∀ c, ∃ suf, (lrun m c).2.builds = c.builds ++ suf

theorem Grows.pure {α} (a : α) : Grows (pure a : PM α) := fun c => ⟨[], by simp [lrun_pure]⟩
theorem Grows.throw {α} (e : Abort) : Grows (throw e : PM α) := fun c => ⟨[], by simp [lrun_throw]⟩
theorem Grows.get : Grows (get : PM Ctx) := fun c => ⟨[], by simp [lrun_get]⟩
theorem Grows.modify {f : Ctx → Ctx} (h : ∀ c, (f c).builds = c.builds) : Grows (modify f : PM PUnit) :=
  fun c => ⟨[], by simp [lrun_modify, h]⟩

theorem Grows.bind {α β} {m : PM α} {f : α → PM β} (h1 : Grows m) (h2 : ∀ a, Grows (f a)) : Grows (m >>= f) := by
  intro c
  rw [lrun_bind]
  obtain ⟨s1, e1⟩ := h1 c
  rcases hr : lrun m c with ⟨r, c'⟩
  rw [hr] at e1
  cases r with
  | error e => exact ⟨s1, e1⟩
  | ok a =>
    obtain ⟨s2, e2⟩ := h2 a c'
    exact ⟨s1 ++ s2, by simp only [e2]; rw [e1, List.append_assoc]⟩

theorem Grows.bad {α} {m : PM α} (h : Grows m) {P : BlankParams} {c : Ctx} (hb : Bad P c) :
    Bad P (lrun m c).2 := by
  obtain ⟨suf, e⟩ := h c
  obtain ⟨t, ht, h1, h2⟩ := hb
  exact ⟨t, by rw [e]; exact List.mem_append_left _ ht, h1, h2⟩

theorem grows_readToken : Grows readToken := by
  intro c
  rw [lrun_readToken]
  split
  · exact ⟨[], by simp⟩
  · split <;> exact ⟨[], by simp⟩

theorem grows_addError (cap : Nat) (e : PErr) : Grows (addError cap e) := by
  intro c
  rw [lrun_addError]
  split
  · exact ⟨[], by simp⟩
  · split <;> exact ⟨[], by simp⟩

theorem grows_liftB (cap : Nat) (stop : Bool) (r : Except BErr Unit) : Grows (liftB cap stop r) := by
  intro c
  rw [lrun_liftB]
  split
  · exact ⟨[], by simp⟩
  · exact ⟨[], by simp⟩
  · split
    · exact ⟨[], by simp⟩
    · exact grows_addError cap _ c

theorem grows_matchP (D : List Dialect) (cap : Nat) (stop : Bool) (k : Kind) (t : Token) :
    Grows (matchP D cap stop k t) := by
  intro c
  rw [lrun_matchP]
  simp only []
  split
  · exact ⟨[], by simp⟩
  · exact ⟨[], by simp⟩
  · split
    · exact ⟨[], by simp⟩
    · rename_i e _ _
      obtain ⟨suf, hs⟩ := grows_addError cap e
        { c with μ := (matchTok D k c.μ t).1.μ, calls := c.calls + (if (matchTok D k c.μ t).2 then 1 else 0) }
      rcases hr : lrun (addError cap e)
        { c with μ := (matchTok D k c.μ t).1.μ, calls := c.calls + (if (matchTok D k c.μ t).2 then 1 else 0) }
        with ⟨r, c2⟩
      rw [hr] at hs
      cases r <;> exact ⟨suf, hs⟩

theorem grows_runProd (cap : Nat) (stop : Bool) (t : Token) (p : Prod) : Grows (runProd cap stop t p) := by
  intro c
  rw [lrun_runProd]
  cases p with
  | start r => exact ⟨[], by simp⟩
  | end_ r =>
    exact grows_liftB cap stop _ { c with β := (c.β.endRule c.ids).2.1, ids := (c.β.endRule c.ids).2.2 }
  | build =>
    simp only []
    cases c.β.build t with
    | ok β' => exact ⟨[t], rfl⟩
    | error e => exact grows_liftB cap stop _ c

theorem grows_runProds (cap : Nat) (stop : Bool) (t : Token) (ps : List Prod) : Grows (runProds cap stop t ps) := by
  induction ps with
  | nil => exact Grows.pure _
  | cons p ps ih => unfold runProds; exact Grows.bind (grows_runProd cap stop t p) fun _ => ih

theorem grows_matchAny (D : List Dialect) (cap : Nat) (stop : Bool) (ks : List Kind) (t : Token) :
    Grows (matchAny D cap stop ks t) := by
  induction ks generalizing t with
  | nil => exact Grows.pure _
  | cons k ks ih =>
    unfold matchAny
    refine Grows.bind (grows_matchP D cap stop k t) fun r => ?_
    obtain ⟨m, t'⟩ := r
    dsimp only
    split
    · exact Grows.pure _
    · exact ih _

theorem grows_lookaheadLoop (D : List Dialect) (cap : Nat) (stop : Bool) (la : LookAhead) (fuel : Nat)
    (acc : List Token) : Grows (lookaheadLoop D cap stop la fuel acc) := by
  induction fuel generalizing acc with
  | zero => exact Grows.throw _
  | succ n ih =>
    unfold lookaheadLoop
    refine Grows.bind grows_readToken fun t => Grows.bind (grows_matchAny _ _ _ _ _) fun r => ?_
    obtain ⟨m, t1⟩ := r
    dsimp only
    split
    · exact Grows.pure _
    · refine Grows.bind (grows_matchAny _ _ _ _ _) fun r => ?_
      obtain ⟨s, t2⟩ := r
      dsimp only
      split
      · exact ih _
      · exact Grows.pure _

theorem grows_lookahead (D : List Dialect) (cap : Nat) (stop : Bool) (la : LookAhead) :
    Grows (lookahead D cap stop la) := by
  unfold lookahead
  refine Grows.bind Grows.get fun c0 => Grows.bind (grows_lookaheadLoop _ _ _ _ _ _) fun r => ?_
  exact Grows.bind (Grows.modify fun c => rfl) fun _ => Grows.pure _

theorem grows_tryBranches (D : List Dialect) (T : Table) (stop : Bool) (row : StateRow) (bs : List Branch)
    (t : Token) : Grows (tryBranches D T stop row bs t) := by
  induction bs generalizing t with
  | nil =>
    unfold tryBranches
    refine Grows.bind (Grows.modify fun c => rfl) fun _ => ?_
    split
    · exact Grows.throw _
    · exact Grows.bind (grows_addError _ _) fun _ => Grows.pure _
  | cons b bs ih =>
    unfold tryBranches
    refine Grows.bind (grows_matchP _ _ _ _ _) fun r => ?_
    obtain ⟨m, t'⟩ := r
    dsimp only
    have cont : ∀ ok : Bool, Grows (if ok = true then do
          runProds T.errorCap stop t' b.prods
          Pure.pure b.target
        else tryBranches D T stop row bs t') := by
      intro ok
      split
      · exact Grows.bind (grows_runProds _ _ _ _) fun _ => Grows.pure _
      · exact ih _
    split
    · split
      · exact Grows.bind (Grows.pure _) cont
      · split
        · exact Grows.bind (grows_lookahead _ _ _ _) cont
        · exact Grows.bind (Grows.throw _) cont
    · exact ih _

theorem grows_matchToken (D : List Dialect) (T : Table) (stop : Bool) (state : Nat) (t : Token) :
    Grows (matchToken D T stop state t) := by
  unfold matchToken
  split
  · exact grows_tryBranches _ _ _ _ _ _
  · exact Grows.throw _

theorem grows_parseLoop (D : List Dialect) (T : Table) (stop : Bool) (fuel state : Nat) :
    Grows (parseLoop D T stop fuel state) := by
  induction fuel generalizing state with
  | zero => exact Grows.throw _
  | succ n ih =>
    unfold parseLoop
    refine Grows.bind grows_readToken fun t => ?_
    refine Grows.bind (Grows.modify fun c => rfl) fun _ => ?_
    refine Grows.bind (grows_matchToken _ _ _ _ _) fun s => ?_
    split
    · exact Grows.pure _
    · exact ih _

/-! ### related contexts, simulation with an escape -/

/-- the two runs' contexts (compare `CtxRel`): unread lines related as lines `lineNo + 1, …` -/
structure CtxRelU (D : List Dialect) (P : BlankParams) (c1 c2 : Ctx) : Prop where
  lines : LinesRel P c2.lineNo c1.lines c2.lines
  lineNo : c1.lineNo = c2.lineNo
  queue : All2 (TokRelU P) c1.queue c2.queue
  errors : c1.errors = c2.errors
  μ : c1.μ = c2.μ
  β : BSame c1.β c2.β
  ids : c1.ids = c2.ids
  calls : c1.calls = c2.calls
  builds : All2 TokSame c1.builds c2.builds
  reads : c1.reads = c2.reads
  unexpected : c1.unexpected = c2.unexpected
  sane : Sane D c1.μ
  dialect : c1.μ.dialect ∈ P.DS

/-- both runs end the same way in related contexts -/
def SameEnd (D : List Dialect) (P : BlankParams) {α} (R : α → α → Prop)
    (x1 x2 : Except Abort α × Ctx) : Prop :=
  (∃ a1 a2 c1' c2', x1 = (.ok a1, c1') ∧ x2 = (.ok a2, c2') ∧ R a1 a2 ∧ CtxRelU D P c1' c2') ∨
  (∃ e c1' c2', x1 = (.error e, c1') ∧ x2 = (.error e, c2') ∧ CtxRelU D P c1' c2')

/-- strict simulation -/
def SimS (D : List Dialect) (P : BlankParams) {α} (R : α → α → Prop) (m1 m2 : PM α) : Prop :=
  ∀ c1 c2, CtxRelU D P c1 c2 → SameEnd D P R (lrun m1 c1) (lrun m2 c2)

/-- simulation with an escape: or the second run has built a modified line as `Other` -/
def SimU (D : List Dialect) (P : BlankParams) {α} (R : α → α → Prop) (m1 m2 : PM α) : Prop :=
  ∀ c1 c2, CtxRelU D P c1 c2 → SameEnd D P R (lrun m1 c1) (lrun m2 c2) ∨ Bad P (lrun m2 c2).2

section simU
variable {D : List Dialect} {P : BlankParams}

theorem SimS.toU {α} {R : α → α → Prop} {m1 m2 : PM α} (h : SimS D P R m1 m2) : SimU D P R m1 m2 :=
  fun c1 c2 hc => .inl (h c1 c2 hc)

theorem SimS.pure {α} {R : α → α → Prop} {a1 a2 : α} (h : R a1 a2) : SimS D P R (pure a1) (pure a2) :=
  fun c1 c2 hc => .inl ⟨a1, a2, c1, c2, rfl, rfl, h, hc⟩

theorem SimS.throw {α} {R : α → α → Prop} (e : Abort) : SimS D P R (throw e : PM α) (throw e) :=
  fun c1 c2 hc => .inr ⟨e, c1, c2, rfl, rfl, hc⟩

theorem SimS.get : SimS D P (CtxRelU D P) (get : PM Ctx) get :=
  fun c1 c2 hc => .inl ⟨c1, c2, c1, c2, rfl, rfl, hc, hc⟩

theorem SimS.modify {f1 f2 : Ctx → Ctx} (h : ∀ c1 c2, CtxRelU D P c1 c2 → CtxRelU D P (f1 c1) (f2 c2)) :
    SimS D P (fun _ _ => True) (modify f1 : PM PUnit) (modify f2) :=
  fun c1 c2 hc => .inl ⟨⟨⟩, ⟨⟩, f1 c1, f2 c2, rfl, rfl, trivial, h c1 c2 hc⟩

theorem SimS.bind {α β} {R : α → α → Prop} {S : β → β → Prop} {m1 m2 : PM α} {f1 f2 : α → PM β}
    (h1 : SimS D P R m1 m2) (h2 : ∀ a1 a2, R a1 a2 → SimS D P S (f1 a1) (f2 a2)) :
    SimS D P S (m1 >>= f1) (m2 >>= f2) := by
  intro c1 c2 hc
  rcases h1 c1 c2 hc with ⟨a1, a2, c1', c2', e1, e2, hr, hc'⟩ | ⟨e, c1', c2', e1, e2, hc'⟩
  · rw [lrun_bind, lrun_bind, e1, e2]; exact h2 a1 a2 hr c1' c2' hc'
  · rw [lrun_bind, lrun_bind, e1, e2]; exact .inr ⟨e, c1', c2', rfl, rfl, hc'⟩

theorem SimS.mono {α} {R S : α → α → Prop} {m1 m2 : PM α} (h : SimS D P R m1 m2) (hRS : ∀ a b, R a b → S a b) :
    SimS D P S m1 m2 := by
  intro c1 c2 hc
  rcases h c1 c2 hc with ⟨a1, a2, c1', c2', e1, e2, hr, hc'⟩ | h
  · exact .inl ⟨a1, a2, c1', c2', e1, e2, hRS _ _ hr, hc'⟩
  · exact .inr h

/-- a strict step, then anything -/
theorem SimU.bindS {α β} {R : α → α → Prop} {S : β → β → Prop} {m1 m2 : PM α} {f1 f2 : α → PM β}
    (h1 : SimS D P R m1 m2) (h2 : ∀ a1 a2, R a1 a2 → SimU D P S (f1 a1) (f2 a2)) :
    SimU D P S (m1 >>= f1) (m2 >>= f2) := by
  intro c1 c2 hc
  rcases h1 c1 c2 hc with ⟨a1, a2, c1', c2', e1, e2, hr, hc'⟩ | ⟨e, c1', c2', e1, e2, hc'⟩
  · rw [lrun_bind, lrun_bind, e1, e2]; exact h2 a1 a2 hr c1' c2' hc'
  · rw [lrun_bind, lrun_bind, e1, e2]; exact .inl (.inr ⟨e, c1', c2', rfl, rfl, hc'⟩)

/-- a step that may escape, then anything that only appends to the built tokens -/
theorem SimU.bindU {α β} {R : α → α → Prop} {S : β → β → Prop} {m1 m2 : PM α} {f1 f2 : α → PM β}
    (h1 : SimU D P R m1 m2) (hg : ∀ a, Grows (f2 a)) (h2 : ∀ a1 a2, R a1 a2 → SimU D P S (f1 a1) (f2 a2)) :
    SimU D P S (m1 >>= f1) (m2 >>= f2) := by
  intro c1 c2 hc
  rcases h1 c1 c2 hc with (⟨a1, a2, c1', c2', e1, e2, hr, hc'⟩ | ⟨e, c1', c2', e1, e2, hc'⟩) | hbad
  · rw [lrun_bind, lrun_bind, e1, e2]; exact h2 a1 a2 hr c1' c2' hc'
  · rw [lrun_bind, lrun_bind, e1, e2]; exact .inl (.inr ⟨e, c1', c2', rfl, rfl, hc'⟩)
  · refine .inr ?_
    rw [lrun_bind]
    rcases hr : lrun m2 c2 with ⟨r, c2'⟩
    rw [hr] at hbad
    cases r with
    | error e => exact hbad
    | ok a => exact (hg a).bad hbad

theorem simS_readToken : SimS D P (TokRelU P) readToken readToken := by
  intro c1 c2 hc
  rw [lrun_readToken, lrun_readToken]
  cases hq1 : c1.queue with
  | cons t1 q1 =>
    have hq0 := hc.queue
    rw [hq1] at hq0
    obtain ⟨t2, q2, hq2, ht, hq⟩ := All2.cons_left hq0
    rw [hq2]
    exact .inl ⟨_, _, _, _, rfl, rfl, ht,
      ⟨hc.lines, hc.lineNo, hq, hc.errors, hc.μ, hc.β, hc.ids, hc.calls, hc.builds, hc.reads, hc.unexpected,
        hc.sane, hc.dialect⟩⟩
  | nil =>
    have hq0 := hc.queue
    rw [hq1] at hq0
    rw [All2.nil_left hq0]
    simp only []
    cases hl1 : c1.lines with
    | cons l1 ls1 =>
      have hl0 := hc.lines
      rw [hl1] at hl0
      obtain ⟨l2, ls2, hl2, hl, hls⟩ := LinesRel.cons_left hl0
      rw [hl2, hc.lineNo]
      exact .inl ⟨_, _, _, _, rfl, rfl, ⟨⟨rfl, rfl, rfl, rfl, rfl, rfl, rfl, rfl, rfl⟩, hl⟩,
        ⟨hls, rfl, .nil, hc.errors, hc.μ, hc.β, hc.ids, hc.calls, hc.builds, hc.reads, hc.unexpected, hc.sane,
          hc.dialect⟩⟩
    | nil =>
      have hl0 := hc.lines
      rw [hl1] at hl0
      rw [LinesRel.nil_left hl0, hc.lineNo]
      exact .inl ⟨_, _, _, _, rfl, rfl, ⟨⟨rfl, rfl, rfl, rfl, rfl, rfl, rfl, rfl, rfl⟩, trivial⟩,
        ⟨.nil _, rfl, .nil, hc.errors, hc.μ, hc.β, hc.ids, hc.calls, hc.builds, hc.reads, hc.unexpected, hc.sane,
          hc.dialect⟩⟩

theorem simS_addError (cap : Nat) (e : PErr) : SimS D P (fun _ _ => True) (addError cap e) (addError cap e) := by
  intro c1 c2 hc
  rw [lrun_addError, lrun_addError, ← hc.errors]
  have hc' : CtxRelU D P { c1 with errors := c1.errors ++ [e] } { c2 with errors := c1.errors ++ [e] } :=
    ⟨hc.lines, hc.lineNo, hc.queue, rfl, hc.μ, hc.β, hc.ids, hc.calls, hc.builds, hc.reads, hc.unexpected,
      hc.sane, hc.dialect⟩
  split
  · exact .inl ⟨_, _, _, _, rfl, rfl, trivial, hc⟩
  · split
    · exact .inr ⟨_, _, _, rfl, rfl, hc'⟩
    · exact .inl ⟨_, _, _, _, rfl, rfl, trivial, hc'⟩

theorem simS_liftB (cap : Nat) (stop : Bool) (r : Except BErr Unit) :
    SimS D P (fun _ _ => True) (liftB cap stop r) (liftB cap stop r) := by
  intro c1 c2 hc
  rw [lrun_liftB, lrun_liftB]
  split
  · exact .inl ⟨_, _, _, _, rfl, rfl, trivial, hc⟩
  · exact .inr ⟨_, _, _, rfl, rfl, hc⟩
  · split
    · exact .inr ⟨_, _, _, rfl, rfl, hc⟩
    · exact simS_addError cap _ c1 c2 hc

/-- what two related `match_<k>` calls return -/
def MatchRelU (P : BlankParams) (k : Kind) (t1 : Token) (r1 r2 : Bool × Token) : Prop :=
  r1.1 = r2.1 ∧ r1.2.line = t1.line ∧ (Blank t1 → (k = .Empty ∨ k = .Other) → r1.1 = true) ∧
  (TokRelU P r1.2 r2.2 ∨ (k = .Other ∧ r1.1 = true ∧ BadPair P r1.2 r2.2))

theorem simS_matchP (hD : Spec.stepKeywordsOk D = true) (hcl : Closed D P) (cap : Nat) (stop : Bool) (k : Kind)
    {t1 t2 : Token} (ht : TokRelU P t1 t2) :
    SimS D P (MatchRelU P k t1) (matchP D cap stop k t1) (matchP D cap stop k t2) := by
  intro c1 c2 hc
  rw [lrun_matchP, lrun_matchP, ← hc.μ, ← hc.calls]
  obtain ⟨hinv, hres, hμ', hsane, hds, htok⟩ := matchTok_relU hD hcl k hc.sane hc.dialect ht
  have hline := matchTok_line D k c1.μ t1
  simp only []
  rw [← hinv, ← hres, ← hμ']
  have hc' : CtxRelU D P
      { c1 with μ := (matchTok D k c1.μ t1).1.μ, calls := c1.calls + (if (matchTok D k c1.μ t1).2 then 1 else 0) }
      { c2 with μ := (matchTok D k c1.μ t1).1.μ, calls := c1.calls + (if (matchTok D k c1.μ t1).2 then 1 else 0) } :=
    ⟨hc.lines, hc.lineNo, hc.queue, hc.errors, rfl, hc.β, hc.ids, rfl, hc.builds, hc.reads, hc.unexpected, hsane, hds⟩
  cases hr : (matchTok D k c1.μ t1).1.res with
  | matched =>
    refine .inl ⟨_, _, _, _, rfl, rfl, ⟨rfl, hline, fun _ _ => rfl, ?_⟩, hc'⟩
    rcases htok with h | ⟨h1, _, h3⟩
    · exact .inl h
    · exact .inr ⟨h1, rfl, h3⟩
  | no =>
    refine .inl ⟨_, _, _, _, rfl, rfl, ⟨rfl, hline, fun hb hk => ?_, ?_⟩, hc'⟩
    · rw [matchTok_blank D hk c1.μ hb] at hr; cases hr
    · rcases htok with h | ⟨_, h2, _⟩
      · exact .inl h
      · rw [hr] at h2; cases h2
  | raised e =>
    simp only []
    have htok' : TokRelU P (matchTok D k c1.μ t1).1.tok (matchTok D k c1.μ t2).1.tok := by
      rcases htok with h | ⟨_, h2, _⟩
      · exact h
      · rw [hr] at h2; cases h2
    cases stop with
    | true => exact .inr ⟨_, _, _, rfl, rfl, hc'⟩
    | false =>
      simp only [Bool.false_eq_true, ↓reduceIte]
      rcases simS_addError cap e _ _ hc' with ⟨_, _, c1', c2', e1, e2, -, hc''⟩ | ⟨e', c1', c2', e1, e2, hc''⟩
      · rw [e1, e2]
        refine .inl ⟨_, _, _, _, rfl, rfl, ⟨rfl, hline, fun hb hk => ?_, .inl htok'⟩, hc''⟩
        rw [matchTok_blank D hk c1.μ hb] at hr; cases hr
      · rw [e1, e2]
        exact .inr ⟨_, _, _, rfl, rfl, hc''⟩

/-- the builder is handed two tokens: related ones, or two `Other` tokens of a modified line -/
def BuildPair (P : BlankParams) (t1 t2 : Token) : Prop := TokSame t1 t2 ∨ BadPair P t1 t2

theorem simU_runProd (cap : Nat) (stop : Bool) {t1 t2 : Token} (ht : BuildPair P t1 t2) (p : Prod) :
    SimU D P (fun _ _ => True) (runProd cap stop t1 p) (runProd cap stop t2 p) := by
  intro c1 c2 hc
  rw [lrun_runProd, lrun_runProd]
  cases p with
  | start r =>
    exact .inl (.inl ⟨_, _, _, _, rfl, rfl, trivial,
      ⟨hc.lines, hc.lineNo, hc.queue, hc.errors, hc.μ, hc.β.startRule r, hc.ids, hc.calls, hc.builds, hc.reads,
        hc.unexpected, hc.sane, hc.dialect⟩⟩)
  | end_ r =>
    simp only []
    rw [← hc.ids]
    obtain ⟨h1, h2, h3⟩ := hc.β.endRule c1.ids
    rw [← h1, ← h3]
    exact .inl (simS_liftB cap stop _ _ _
      ⟨hc.lines, hc.lineNo, hc.queue, hc.errors, hc.μ, h2, rfl, hc.calls, hc.builds, hc.reads, hc.unexpected,
        hc.sane, hc.dialect⟩)
  | build =>
    simp only []
    rcases ht with ht | ⟨hm1, hm2, hM⟩
    · rcases hc.β.build ht with ⟨e, e1, e2⟩ | ⟨β1, β2, e1, e2, hβ⟩
      · rw [e1, e2]
        exact .inl (simS_liftB cap stop _ _ _ hc)
      · rw [e1, e2]
        exact .inl (.inl ⟨_, _, _, _, rfl, rfl, trivial,
          ⟨hc.lines, hc.lineNo, hc.queue, hc.errors, hc.μ, hβ, hc.ids, hc.calls,
            hc.builds.append (.cons ht .nil), hc.reads, hc.unexpected, hc.sane, hc.dialect⟩⟩)
    · rw [layBuild_other c1.β t1 .Other (by decide) hm1, layBuild_other c2.β t2 .Other (by decide) hm2]
      have hst := hc.β.1
      revert hst
      generalize c1.β.stack = s1
      generalize c2.β.stack = s2
      intro hst
      cases hst with
      | nil => exact .inl (simS_liftB cap stop _ _ _ hc)
      | cons _ _ =>
        refine .inr ⟨t2, ?_, hm2, hM⟩
        simp [addToTop]

theorem simU_runProds (cap : Nat) (stop : Bool) {t1 t2 : Token} (ht : BuildPair P t1 t2) (ps : List Prod) :
    SimU D P (fun _ _ => True) (runProds cap stop t1 ps) (runProds cap stop t2 ps) := by
  induction ps with
  | nil => exact (SimS.pure trivial).toU
  | cons p ps ih =>
    unfold runProds
    exact SimU.bindU (simU_runProd cap stop ht p) (fun _ => grows_runProds _ _ _ _) fun _ _ _ => ih

theorem simS_matchAny (hD : Spec.stepKeywordsOk D = true) (hcl : Closed D P) (cap : Nat) (stop : Bool)
    (ks : List Kind) (hks : Kind.Other ∉ ks) {t1 t2 : Token} (ht : TokRelU P t1 t2) :
    SimS D P (fun r1 r2 => r1.1 = r2.1 ∧ TokRelU P r1.2 r2.2) (matchAny D cap stop ks t1) (matchAny D cap stop ks t2) := by
  induction ks generalizing t1 t2 with
  | nil => exact SimS.pure ⟨rfl, ht⟩
  | cons k ks ih =>
    unfold matchAny
    refine SimS.bind (simS_matchP hD hcl cap stop k ht) fun r1 r2 hr => ?_
    obtain ⟨m1, t1'⟩ := r1
    obtain ⟨m2, t2'⟩ := r2
    obtain ⟨hm, -, -, ht'⟩ := hr
    simp only at hm ht'
    subst hm
    have ht'' : TokRelU P t1' t2' := by
      rcases ht' with h | ⟨h, _⟩
      · exact h
      · exact absurd (h ▸ List.mem_cons_self) hks
    dsimp only
    split
    · exact SimS.pure ⟨rfl, ht''⟩
    · exact ih (fun h => hks (List.mem_cons_of_mem _ h)) ht''

theorem simS_lookaheadLoop (hD : Spec.stepKeywordsOk D = true) (hcl : Closed D P) (cap : Nat) (stop : Bool)
    (la : LookAhead) (h1 : Kind.Other ∉ la.expected) (h2 : Kind.Other ∉ la.skip) (fuel : Nat)
    {acc1 acc2 : List Token} (hacc : All2 (TokRelU P) acc1 acc2) :
    SimS D P (fun r1 r2 => r1.1 = r2.1 ∧ All2 (TokRelU P) r1.2 r2.2)
      (lookaheadLoop D cap stop la fuel acc1) (lookaheadLoop D cap stop la fuel acc2) := by
  induction fuel generalizing acc1 acc2 with
  | zero => exact SimS.throw _
  | succ n ih =>
    unfold lookaheadLoop
    refine SimS.bind simS_readToken fun t1 t2 ht => ?_
    refine SimS.bind (simS_matchAny hD hcl cap stop _ h1 ht) fun r1 r2 hr => ?_
    obtain ⟨m1, t1'⟩ := r1
    obtain ⟨m2, t2'⟩ := r2
    obtain ⟨hm, ht'⟩ := hr
    simp only at hm ht'
    subst hm
    dsimp only
    split
    · exact SimS.pure ⟨rfl, hacc.append (.cons ht' .nil)⟩
    · refine SimS.bind (simS_matchAny hD hcl cap stop _ h2 ht') fun r1 r2 hr => ?_
      obtain ⟨s1, t1''⟩ := r1
      obtain ⟨s2, t2''⟩ := r2
      obtain ⟨hs, ht''⟩ := hr
      simp only at hs ht''
      subst hs
      dsimp only
      split
      · exact ih (hacc.append (.cons ht'' .nil))
      · exact SimS.pure ⟨rfl, hacc.append (.cons ht'' .nil)⟩

theorem simS_lookahead (hD : Spec.stepKeywordsOk D = true) (hcl : Closed D P) (cap : Nat) (stop : Bool)
    (la : LookAhead) (h1 : Kind.Other ∉ la.expected) (h2 : Kind.Other ∉ la.skip) :
    SimS D P Eq (lookahead D cap stop la) (lookahead D cap stop la) := by
  unfold lookahead
  refine SimS.bind SimS.get fun c1 c2 hc => ?_
  rw [hc.queue.length_eq, hc.lines.length_eq]
  refine SimS.bind (simS_lookaheadLoop hD hcl cap stop la h1 h2 _ .nil) fun r1 r2 hr => ?_
  obtain ⟨m1, rd1⟩ := r1
  obtain ⟨m2, rd2⟩ := r2
  obtain ⟨hm, hrd⟩ := hr
  simp only at hm hrd
  subst hm
  dsimp only
  refine SimS.bind (SimS.modify fun c1 c2 hc => ?_) fun _ _ _ => SimS.pure rfl
  exact ⟨hc.lines, hc.lineNo, hc.queue.append hrd, hc.errors, hc.μ, hc.β, hc.ids, hc.calls, hc.builds, hc.reads,
    hc.unexpected, hc.sane, hc.dialect⟩

/-- the table facts the simulation of `match_token` uses -/
structure TableOkU (T : Table) : Prop where
  blank : Spec.blankTaken T = true
  other : Spec.otherUnguarded T = true
  la : Spec.lookaheadsNoOther T = true

theorem TableOkU.la_mem {T : Table} (h : TableOkU T) {i : Nat} {la : LookAhead} (hla : T.lookaheads[i]? = some la) :
    Kind.Other ∉ la.expected ∧ Kind.Other ∉ la.skip := by
  have hmem : la ∈ T.lookaheads := List.mem_of_getElem? hla
  have := h.la
  unfold Spec.lookaheadsNoOther at this
  rw [List.all_eq_true] at this
  have h0 := this la hmem
  simp only [Bool.and_eq_true, Bool.not_eq_true', List.contains_eq_mem, decide_eq_false_iff_not] at h0
  exact h0

theorem simU_tryBranches (hD : Spec.stepKeywordsOk D = true) (hcl : Closed D P) {T : Table} (hT : TableOkU T)
    (stop : Bool) (row : StateRow) (bs : List Branch) (hog : ∀ b ∈ bs, b.kind = .Other → b.guard = none)
    {t1 t2 : Token} (ht : TokRelU P t1 t2) (hsafe : Safe t1 bs) :
    SimU D P Eq (tryBranches D T stop row bs t1) (tryBranches D T stop row bs t2) := by
  induction bs generalizing t1 t2 with
  | nil =>
    unfold tryBranches
    have hb : ¬ Blank t1 := fun hb => by obtain ⟨b, hm, _⟩ := hsafe hb; cases hm
    rw [unexpectedErr_relU row ht hb, ht.1.lineNo_eq]
    refine (SimS.bind (SimS.modify fun c1 c2 hc => ?_) fun _ _ _ => ?_).toU
    · exact ⟨hc.lines, hc.lineNo, hc.queue, hc.errors, hc.μ, hc.β, hc.ids, hc.calls, hc.builds, hc.reads,
        by simp only [hc.unexpected], hc.sane, hc.dialect⟩
    · split
      · exact SimS.throw _
      · exact SimS.bind (simS_addError _ _) fun _ _ _ => SimS.pure rfl
  | cons b bs ih =>
    unfold tryBranches
    refine SimU.bindS (simS_matchP hD hcl _ stop b.kind ht) fun r1 r2 hr => ?_
    obtain ⟨m1, t1'⟩ := r1
    obtain ⟨m2, t2'⟩ := r2
    obtain ⟨hm, hl, hblank, ht'⟩ := hr
    simp only at hm ht' hl hblank
    subst hm
    dsimp only
    have hog' : ∀ b' ∈ bs, b'.kind = .Other → b'.guard = none := fun b' hb' => hog b' (List.mem_cons_of_mem _ hb')
    have hB : Blank t1' → Blank t1 := fun ⟨l, h1, h2⟩ => ⟨l, hl ▸ h1, h2⟩
    have hrec : (m1 = false ∨ b.guard ≠ none) → Safe t1' bs := by
      intro hcond hb'
      obtain ⟨b', hmem, hk, hg⟩ := hsafe (hB hb')
      rcases List.mem_cons.1 hmem with rfl | hmem
      · rcases hcond with hm | hg'
        · have := hblank (hB hb') hk
          rw [hm] at this; cases this
        · exact absurd hg hg'
      · exact ⟨b', hmem, hk, hg⟩
    rcases ht' with ht' | ⟨hko, hmt, hbad⟩
    · -- related tokens: as in Lemmas/LayoutDoc.lean
      split
      · cases hg : b.guard with
        | none =>
          simp only []
          refine SimU.bindS (R := fun o1 o2 => o1 = true ∧ o2 = true) (SimS.pure ⟨rfl, rfl⟩) fun o1 o2 ho => ?_
          obtain ⟨rfl, rfl⟩ := ho
          simp only [↓reduceIte]
          exact SimU.bindU (simU_runProds _ stop (.inl ht'.1) _) (fun _ => Grows.pure _)
            fun _ _ _ => (SimS.pure rfl).toU
        | some i =>
          simp only []
          cases hla : T.lookaheads[i]? with
          | none => exact (SimS.bind (R := fun _ _ => False) (SimS.throw _) fun _ _ h => h.elim).toU
          | some la =>
            simp only []
            obtain ⟨hl1, hl2⟩ := hT.la_mem hla
            refine SimU.bindS (simS_lookahead hD hcl _ stop la hl1 hl2) fun o1 o2 ho => ?_
            subst ho
            split
            · exact SimU.bindU (simU_runProds _ stop (.inl ht'.1) _) (fun _ => Grows.pure _)
                fun _ _ _ => (SimS.pure rfl).toU
            · exact ih hog' ht' (hrec (.inr (by rw [hg]; exact fun h0 => by cases h0)))
      · rename_i hm
        refine ih hog' ht' (hrec (.inl ?_))
        cases m1 with
        | true => exact absurd rfl hm
        | false => rfl
    · -- the test `Other` on a modified line: the branch is unguarded and is taken
      subst hmt
      have hg : b.guard = none := hog b List.mem_cons_self hko
      simp only [↓reduceIte, hg]
      refine SimU.bindS (R := fun o1 o2 => o1 = true ∧ o2 = true) (SimS.pure ⟨rfl, rfl⟩) fun o1 o2 ho => ?_
      obtain ⟨rfl, rfl⟩ := ho
      simp only [↓reduceIte]
      exact SimU.bindU (simU_runProds _ stop (.inr hbad) _) (fun _ => Grows.pure _)
        fun _ _ _ => (SimS.pure rfl).toU

theorem simU_matchToken (hD : Spec.stepKeywordsOk D = true) (hcl : Closed D P) {T : Table} (hT : TableOkU T)
    (stop : Bool) (state : Nat) {t1 t2 : Token} (ht : TokRelU P t1 t2) :
    SimU D P Eq (matchToken D T stop state t1) (matchToken D T stop state t2) := by
  unfold matchToken
  cases hrow : T.row? state with
  | none => exact (SimS.throw _).toU
  | some row =>
    simp only []
    have hmem : row ∈ T.rows := List.mem_of_find?_eq_some hrow
    refine simU_tryBranches hD hcl hT stop row _ (fun b hb hk => ?_) ht fun _ => ?_
    · have := hT.other
      unfold Spec.otherUnguarded at this
      rw [List.all_eq_true] at this
      have h0 := this row hmem
      rw [List.all_eq_true] at h0
      have h1 := h0 b hb
      simp only [hk, beq_self_eq_true, Bool.not_true, Bool.false_or, Option.isNone_iff_eq_none] at h1
      exact h1
    · have := hT.blank
      unfold Spec.blankTaken at this
      rw [List.all_eq_true] at this
      have h0 := this row hmem
      rw [List.any_eq_true] at h0
      obtain ⟨b, hb, hcond⟩ := h0
      simp only [Bool.and_eq_true, Bool.or_eq_true, beq_iff_eq, Option.isNone_iff_eq_none] at hcond
      exact ⟨b, hb, hcond.1, hcond.2⟩

theorem simU_parseLoop (hD : Spec.stepKeywordsOk D = true) (hcl : Closed D P) {T : Table} (hT : TableOkU T)
    (stop : Bool) (fuel state : Nat) :
    SimU D P Eq (parseLoop D T stop fuel state) (parseLoop D T stop fuel state) := by
  induction fuel generalizing state with
  | zero => exact (SimS.throw _).toU
  | succ n ih =>
    unfold parseLoop
    refine SimU.bindS simS_readToken fun t1 t2 ht => ?_
    refine SimU.bindS (SimS.modify fun c1 c2 hc => ?_) fun _ _ _ => ?_
    · exact ⟨hc.lines, hc.lineNo, hc.queue, hc.errors, hc.μ, hc.β, hc.ids, hc.calls, hc.builds,
        by simp only [hc.reads, ht.1.lineNo_eq], hc.unexpected, hc.sane, hc.dialect⟩
    have heof : t1.eof = t2.eof := by
      unfold Token.eof
      have := ht.2
      revert this
      cases t1.line <;> cases t2.line <;> intro h <;> first | rfl | exact h.elim
    refine SimU.bindU (simU_matchToken hD hcl hT stop state ht) (fun s => ?_) fun s1 s2 hs => ?_
    · split
      · exact Grows.pure _
      · exact grows_parseLoop _ _ _ _ _
    · subst hs
      rw [heof]
      split
      · exact (SimS.pure rfl).toU
      · exact ih _

theorem simU_parseBody (hD : Spec.stepKeywordsOk D = true) (hcl : Closed D P) {T : Table} (hT : TableOkU T)
    (stop : Bool) (n : Nat) : SimU D P Eq (parseBody D T stop n) (parseBody D T stop n) := by
  unfold parseBody
  refine SimU.bindS (SimS.modify fun c1 c2 hc => ?_) fun _ _ _ => ?_
  · exact ⟨hc.lines, hc.lineNo, hc.queue, hc.errors, hc.μ, hc.β.startRule _, hc.ids, hc.calls, hc.builds,
      hc.reads, hc.unexpected, hc.sane, hc.dialect⟩
  refine SimU.bindU (simU_parseLoop hD hcl hT stop _ _) (fun _ => ?_) fun _ _ _ => ?_
  · refine Grows.bind (grows_runProd _ _ _ _) fun _ => Grows.bind Grows.get fun ctx => ?_
    dsimp only
    split
    · exact Grows.bind (Grows.throw _) fun _ => by split <;> first | exact Grows.pure _ | exact Grows.throw _
    · split <;> first | exact Grows.pure _ | exact Grows.throw _
  refine SimU.bindU (simU_runProd _ stop (.inl (TokSame.refl default)) _) (fun _ => ?_) fun _ _ _ => ?_
  · refine Grows.bind Grows.get fun ctx => ?_
    dsimp only
    split
    · exact Grows.bind (Grows.throw _) fun _ => by split <;> first | exact Grows.pure _ | exact Grows.throw _
    · split <;> first | exact Grows.pure _ | exact Grows.throw _
  refine (SimS.bind SimS.get fun c1 c2 hc => ?_).toU
  rw [hc.errors, hc.β.result]
  dsimp only
  by_cases he : (!c2.errors.isEmpty) = true
  · rw [if_pos he]
    exact SimS.bind (R := fun _ _ => False) (SimS.throw _) fun _ _ h => h.elim
  · rw [if_neg he]
    split
    · exact SimS.pure rfl
    · exact SimS.throw _
    · exact SimS.throw _
    · exact SimS.throw _

end simU

/-- **Whole parse.**  Either the two runs end alike — same outcome, related final contexts — or the
    second run has handed a modified line to the builder as `Other`. -/
theorem parseWith_simU {D : List Dialect} (hD : Spec.stepKeywordsOk D = true) {P : BlankParams}
    (hcl : Closed D P) {T : Table} (hT : TableOkU T) (stop : Bool) (μ : MState) (ids : Nat) {src1 src2 : Str}
    (hl : LinesRel P 0 (splitLines src1) (splitLines src2)) (hμ : (μ.reset D).dialect ∈ D)
    (hds : (μ.reset D).dialect ∈ P.DS) :
    ((parseWith D T stop μ ids src1).1 = (parseWith D T stop μ ids src2).1 ∧
      CtxRelU D P (parseWith D T stop μ ids src1).2 (parseWith D T stop μ ids src2).2) ∨
    Bad P (parseWith D T stop μ ids src2).2 := by
  unfold parseWith
  simp only []
  rw [hl.length_eq]
  have hc0 : CtxRelU D P { lines := splitLines src1, μ := μ.reset D, β := BState.reset, ids := ids }
      { lines := splitLines src2, μ := μ.reset D, β := BState.reset, ids := ids } :=
    ⟨hl, rfl, .nil, rfl, rfl, BSame.refl _, rfl, rfl, .nil, rfl, rfl,
      ⟨(by intro sep hsep; unfold MState.reset at hsep; cases hsep), hμ⟩, hds⟩
  rcases simU_parseBody hD hcl hT stop (splitLines src2).length _ _ hc0 with
    (⟨d1, d2, c1', c2', e1, e2, hd, hc'⟩ | ⟨e, c1', c2', e1, e2, hc'⟩) | hbad
  · unfold lrun at e1 e2
    rw [e1, e2]
    subst hd
    exact .inl ⟨rfl, hc'⟩
  · unfold lrun at e1 e2
    rw [e1, e2]
    cases e <;> exact .inl ⟨rfl, hc'⟩
  · refine .inr ?_
    unfold lrun at hbad
    rcases hr : (parseBody D T stop (splitLines src2).length).run.run
      { lines := splitLines src2, μ := μ.reset D, β := BState.reset, ids := ids } with ⟨r, c⟩
    rw [hr] at hbad
    cases r with
    | ok d => exact hbad
    | error e => cases e <;> exact hbad

/-- the line relation from a statement about each line number -/
theorem linesRel_of_index {P : BlankParams} : ∀ (n : Nat) (ls1 ls2 : List Str), ls1.length = ls2.length →
    (∀ k l1 l2, ls1[k]? = some l1 → ls2[k]? = some l2 → PairRel P (n + k + 1) l1 l2) → LinesRel P n ls1 ls2
  | n, [], [], _, _ => .nil n
  | _, [], _ :: _, h, _ => by simp at h
  | _, _ :: _, [], h, _ => by simp at h
  | n, l1 :: ls1, l2 :: ls2, hlen, h => by
    refine .cons (h 0 l1 l2 rfl rfl) (linesRel_of_index (n + 1) ls1 ls2 (by simpa using hlen) fun k a b ha hb => ?_)
    have := h (k + 1) a b (by simpa using ha) (by simpa using hb)
    have e : n + (k + 1) + 1 = n + 1 + k + 1 := by omega
    rw [e] at this
    exact this

theorem zip_all_index {α β} {f : α × β → Bool} : ∀ {as : List α} {bs : List β}, (as.zip bs).all f = true →
    ∀ (k : Nat) (a : α) (b : β), as[k]? = some a → bs[k]? = some b → f (a, b) = true
  | [], _, _, k, a, b, ha, _ => by simp at ha
  | _ :: _, [], _, k, a, b, _, hb => by simp at hb
  | x :: as, y :: bs, h, 0, a, b, ha, hb => by
    simp only [List.zip_cons_cons, List.all_cons, Bool.and_eq_true] at h
    simp only [List.getElem?_cons_zero, Option.some.injEq] at ha hb
    subst ha hb; exact h.1
  | x :: as, y :: bs, h, k + 1, a, b, ha, hb => by
    simp only [List.zip_cons_cons, List.all_cons, Bool.and_eq_true] at h
    exact zip_all_index h.2 k a b (by simpa using ha) (by simpa using hb)

/-! ### one blank line, one step of the real parser (towards blank-line insertion) -/

/-- the token the test `Empty` makes of a whitespace-only line -/
def emptyTok (μ : MState) (t : Token) : Token := setMatched μ t .Empty (indent := some 0)

/-- `match_token` on a whitespace-only line, in a list of tests whose first `Empty`/`Other` test is an
    unguarded build-only `Empty` test with target `s`: the tests before it fail without touching
    the matcher state, the `Empty` test succeeds, the token is built, the new state is `s`. -/
theorem tryBranches_blank_step (D : List Dialect) (T : Table) (stop : Bool) (row : StateRow) (μ : MState)
    {t : Token} {l : Str} (hl : t.line = some l) (hb : lstrip l = [])
    (hkw : ∀ kw ∈ μ.dialect.stepKeywords, kw ≠ []) (s : Nat) :
    ∀ (bs : List Branch) (b0 : Branch), bs.find? Spec.emptyTest = some b0 → b0.kind = .Empty → b0.target = s →
      b0.prods = [.build] → b0.guard = none → ∀ c : Ctx, c.μ = μ →
      ∃ n, lrun (tryBranches D T stop row bs t) c =
        match lrun (runProd T.errorCap stop (emptyTok μ t) .build) { c with calls := c.calls + (n + 1) } with
        | (.ok _, c') => (.ok s, c')
        | (.error e, c') => (.error e, c') := by
  intro bs
  induction bs with
  | nil => intro b0 hf; cases hf
  | cons b bs ih =>
    intro b0 hf hk ht hp hg c hμ
    simp only [List.find?] at hf
    cases he : Spec.emptyTest b with
    | true =>
      rw [he] at hf
      cases hf
      have e : matchTok D b.kind c.μ t = (⟨emptyTok μ t, μ, .matched⟩, true) := by
        unfold matchTok; rw [hl, hk, hμ]; simp only []; rw [matchLine_blank_empty D μ t hb]; rfl
      refine ⟨0, ?_⟩
      unfold tryBranches
      rw [lrun_bind, lrun_matchP]
      simp only [e, hg, ↓reduceIte, lrun_bind, lrun_pure, hp, runProds]
      have ec : ({ c with μ := μ, calls := c.calls + 1 } : Ctx) = { c with calls := c.calls + (0 + 1) } := by
        rw [← hμ]
      rw [ec]
      rcases lrun (runProd T.errorCap stop (emptyTok μ t) Prod.build) { c with calls := c.calls + (0 + 1) } with ⟨r, c'⟩
      cases r with
      | ok a => simp only [ht]
      | error e => rfl
    | false =>
      rw [he] at hf
      have hne : b.kind ≠ .Empty ∧ b.kind ≠ .Other := by
        unfold Spec.emptyTest at he
        simp only [Bool.or_eq_false_iff, beq_eq_false_iff_ne, ne_eq] at he
        exact he
      have e : matchTok D b.kind c.μ t = (⟨t, μ, .no⟩, true) := by
        unfold matchTok; rw [hl, hμ]; simp only []
        rw [matchLine_blank_no D b.kind μ t hb hne (fun _ => hkw)]
      obtain ⟨n, hn⟩ := ih b0 hf hk ht hp hg { c with calls := c.calls + 1 } hμ
      refine ⟨n + 1, ?_⟩
      unfold tryBranches
      rw [lrun_bind, lrun_matchP]
      simp only [e, ↓reduceIte, Bool.false_eq_true]
      have ec : ({ c with μ := μ, calls := c.calls + 1 } : Ctx) = { c with calls := c.calls + 1 } := by
        rw [← hμ]
      rw [ec, hn]
      have ec2 : ({ c with calls := c.calls + 1 + (n + 1) } : Ctx) = { c with calls := c.calls + (n + 1 + 1) } := by
        have : c.calls + 1 + (n + 1) = c.calls + (n + 1 + 1) := by omega
        rw [this]
      show (match lrun (runProd T.errorCap stop (emptyTok μ t) Prod.build) { c with calls := c.calls + 1 + (n + 1) } with
        | (.ok _, c') => (Except.ok s, c')
        | (.error e, c') => (.error e, c')) = _
      rw [ec2]

/-- … for a state of the table that reads a blank line as `Empty` first -/
theorem matchToken_blank_step (D : List Dialect) (T : Table) (hE : Spec.emptySelfLoop T = true) (stop : Bool)
    {s : Nat} (hs : Spec.emptyFirst T s = true) {t : Token} {l : Str} (hl : t.line = some l) (hb : lstrip l = [])
    (c : Ctx) (hkw : ∀ kw ∈ c.μ.dialect.stepKeywords, kw ≠ []) :
    ∃ n, lrun (matchToken D T stop s t) c =
      match lrun (runProd T.errorCap stop (emptyTok c.μ t) .build) { c with calls := c.calls + (n + 1) } with
      | (.ok _, c') => (.ok s, c')
      | (.error e, c') => (.error e, c') := by
  unfold Spec.emptyFirst at hs
  unfold matchToken
  cases hrow : T.row? s with
  | none => rw [hrow] at hs; cases hs
  | some row =>
    rw [hrow] at hs
    simp only [] at hs ⊢
    cases hfind : row.branches.find? Spec.emptyTest with
    | none => rw [hfind] at hs; cases hs
    | some b0 =>
      rw [hfind] at hs
      have hk : b0.kind = .Empty := by simpa using hs
      have hrowmem : row ∈ T.rows := List.mem_of_find?_eq_some hrow
      have hid : row.id = s := by
        have := List.find?_some hrow
        simpa using this
      have hb0 : b0 ∈ row.branches := List.mem_of_find?_eq_some hfind
      unfold Spec.emptySelfLoop at hE
      rw [List.all_eq_true] at hE
      have h1 := hE row hrowmem
      rw [List.all_eq_true] at h1
      have h2 := h1 b0 hb0
      simp only [hk, bne_self_eq_false, Bool.false_or, Bool.and_eq_true, beq_iff_eq] at h2
      exact tryBranches_blank_step D T stop row c.μ hl hb hkw s row.branches b0 hfind hk
        (by rw [h2.1.1, hid]) h2.1.2 h2.2 c rfl

end Lemmas
end GV
