/-
  Lemmas/Regex.lean — regular-expression facts used by property C02 (generic; no reference to
  the generated grammar).

  * `RE.deriv_correct`, `RE.nullable_iff`: the derivative with the smart constructors of
    Spec/Grammar.lean is the semantic one.
  * `specDet`: the reader of Spec/Grammar.lean (`specStep` / `specRun` / `Sentence`) as a total
    deterministic automaton on `Option (RE Kind)` (`none` = rejected), used by the bisimulation
    checker.
  * `ReadsOwn` and `sentence_of_lang_gen`: the sanity link to plain language membership.
-/
import GherkinVerif.Spec.Grammar
namespace GV.Lemmas

open GV.Spec

namespace RE
open GV.Spec.RE
variable {α : Type}

theorem not_lang_emp (w : List α) : ¬ Lang (RE.emp : RE α) w := by intro h; cases h

theorem lang_mkCat {r s : RE α} {w : List α} : Lang (mkCat r s) w ↔ Lang (.cat r s) w := by
  constructor
  · intro h
    unfold mkCat at h
    split at h
    · exact absurd h (not_lang_emp _)
    · exact absurd h (not_lang_emp _)
    · simpa using Lang.cat Lang.eps h
    · have := Lang.cat h Lang.eps; simpa using this
    · exact h
  · intro h
    unfold mkCat
    split
    · cases h with | cat h1 _ => exact absurd h1 (not_lang_emp _)
    · cases h with | cat _ h2 => exact absurd h2 (not_lang_emp _)
    · cases h with | cat h1 h2 => cases h1; simpa using h2
    · cases h with | cat h1 h2 => cases h2; simpa using h1
    · exact h

/-- `nullable` is membership of the empty word -/
theorem nullable_iff (r : RE α) : nullable r = true ↔ Lang r [] := by
  induction r with
  | emp => simp [nullable]; exact not_lang_emp _
  | eps => simp [nullable]; exact Lang.eps
  | sym a => simp [nullable]; intro h; cases h
  | cat r s ihr ihs =>
    simp [nullable, ihr, ihs]
    constructor
    · rintro ⟨h1, h2⟩; simpa using Lang.cat h1 h2
    · intro h
      generalize hw : ([] : List α) = w at h
      cases h with
      | cat h1 h2 =>
        rename_i u v
        have : u = [] ∧ v = [] := by simpa using hw.symm
        obtain ⟨rfl, rfl⟩ := this
        exact ⟨h1, h2⟩
  | alt r s ihr ihs =>
    simp [nullable, ihr, ihs]
    constructor
    · rintro (h | h); exact Lang.altL h; exact Lang.altR h
    · intro h; cases h with | altL h => exact Or.inl h | altR h => exact Or.inr h
  | star r _ => simp [nullable]; exact Lang.starNil

/-- star unrolling: a nonempty word in `star r` splits with a nonempty first factor -/
theorem star_cons_split {r : RE α} {a : α} {w : List α} (h : Lang (.star r) (a :: w)) :
    ∃ u v, w = u ++ v ∧ Lang r (a :: u) ∧ Lang (.star r) v := by
  generalize hx : a :: w = x at h
  generalize hr : RE.star r = q at h
  induction h with
  | eps => cases hr
  | sym => cases hr
  | cat => cases hr
  | altL => cases hr
  | altR => cases hr
  | starNil => cases hx
  | @starCons r' u v h1 h2 _ ih2 =>
    cases hr
    cases u with
    | nil => simp at hx; exact ih2 hx rfl
    | cons b u' =>
      simp at hx
      obtain ⟨rfl, rfl⟩ := hx
      exact ⟨u', v, rfl, h1, h2⟩

variable [DecidableEq α]

theorem lang_mkAlt {r s : RE α} {w : List α} : Lang (mkAlt r s) w ↔ Lang (.alt r s) w := by
  unfold mkAlt
  constructor
  · intro h
    split at h
    · exact Lang.altR h
    · split at h
      · exact Lang.altL h
      · split at h
        · exact Lang.altL h
        · exact h
  · intro h
    split
    · next he => subst he; cases h with | altL h => exact absurd h (not_lang_emp _) | altR h => exact h
    · split
      · next he => subst he; cases h with | altL h => exact h | altR h => exact absurd h (not_lang_emp _)
      · split
        · next he => subst he; cases h with | altL h => exact h | altR h => exact h
        · exact h

theorem deriv_correct' (a : α) (r : RE α) : ∀ w, Lang (deriv a r) w ↔ Lang r (a :: w) := by
  induction r with
  | emp => intro w; simp [deriv]; constructor <;> (intro h; cases h)
  | eps => intro w; simp [deriv]; constructor <;> (intro h; cases h)
  | sym b =>
    intro w; simp only [deriv]
    split
    · next h => subst h; constructor
                · intro h; cases h; exact Lang.sym a
                · intro h; cases h; exact Lang.eps
    · next h => constructor
                · intro h'; cases h'
                · intro h'; cases h'; exact absurd rfl h
  | cat r s ihr ihs =>
    intro w
    have key : Lang (.cat r s) (a :: w) ↔
        (∃ u v, w = u ++ v ∧ Lang r (a :: u) ∧ Lang s v) ∨ (Lang r [] ∧ Lang s (a :: w)) := by
      constructor
      · intro h
        generalize hx : a :: w = x at h
        cases h with
        | cat h1 h2 =>
          rename_i u v
          cases u with
          | nil => simp at hx; subst hx; exact Or.inr ⟨h1, h2⟩
          | cons b u' => simp at hx; obtain ⟨rfl, rfl⟩ := hx; exact Or.inl ⟨u', v, rfl, h1, h2⟩
      · rintro (⟨u, v, rfl, h1, h2⟩ | ⟨h1, h2⟩)
        · exact Lang.cat h1 h2
        · simpa using Lang.cat h1 h2
    have hc : Lang (mkCat (deriv a r) s) w ↔ ∃ u v, w = u ++ v ∧ Lang r (a :: u) ∧ Lang s v := by
      rw [lang_mkCat]
      constructor
      · intro h; cases h with | cat h1 h2 => exact ⟨_, _, rfl, (ihr _).1 h1, h2⟩
      · rintro ⟨u, v, rfl, h1, h2⟩; exact Lang.cat ((ihr _).2 h1) h2
    simp only [deriv]
    split
    · next hn =>
      rw [lang_mkAlt, key]
      have hn' := (nullable_iff r).1 hn
      constructor
      · intro h; cases h with
        | altL h => exact Or.inl (hc.1 h)
        | altR h => exact Or.inr ⟨hn', (ihs _).1 h⟩
      · rintro (h | ⟨_, h⟩)
        · exact Lang.altL (hc.2 h)
        · exact Lang.altR ((ihs _).2 h)
    · next hn =>
      rw [key, hc]
      constructor
      · intro h; exact Or.inl h
      · rintro (h | ⟨h, _⟩)
        · exact h
        · exact absurd ((nullable_iff r).2 h) hn
  | alt r s ihr ihs =>
    intro w; simp only [deriv]; rw [lang_mkAlt]
    constructor
    · intro h; cases h with
      | altL h => exact Lang.altL ((ihr _).1 h)
      | altR h => exact Lang.altR ((ihs _).1 h)
    · intro h; cases h with
      | altL h => exact Lang.altL ((ihr _).2 h)
      | altR h => exact Lang.altR ((ihs _).2 h)
  | star r ih =>
    intro w; simp only [deriv]; rw [lang_mkCat]
    constructor
    · intro h; cases h with | cat h1 h2 => exact Lang.starCons ((ih _).1 h1) h2
    · intro h
      obtain ⟨u, v, rfl, h1, h2⟩ := star_cons_split h
      exact Lang.cat ((ih _).2 h1) h2

/-- the Brzozowski derivative with smart constructors is the semantic derivative -/
theorem deriv_correct (a : α) (r : RE α) (w : List α) : Lang (deriv a r) w ↔ Lang r (a :: w) :=
  deriv_correct' a r w

end RE

/-! ### the reader as a total deterministic automaton -/

/-- one step of the reader on `Option (RE Kind)`; `none` = rejected (absorbing) -/
def specStepO (G : Grammar) (a : Option (Spec.RE Kind)) (k : Kind) : Option (Spec.RE Kind) :=
  match a with
  | none => none
  | some r =>
    match specStep G r k with
    | none => none
    | some (r', _) => some r'

def specAccO (a : Option (Spec.RE Kind)) : Bool :=
  match a with
  | none => false
  | some r => Spec.RE.nullable r

def specRunO (G : Grammar) : Option (Spec.RE Kind) → List Kind → Option (Spec.RE Kind)
  | a, [] => a
  | a, k :: ks => specRunO G (specStepO G a k) ks

theorem specRunO_none (G : Grammar) (ks : List Kind) : specRunO G none ks = none := by
  induction ks with
  | nil => rfl
  | cons k ks ih => simpa [specRunO, specStepO] using ih

theorem specRun_eq (G : Grammar) (r : Spec.RE Kind) (ks : List Kind) :
    specRun G r ks = specRunO G (some r) ks := by
  induction ks generalizing r with
  | nil => rfl
  | cons k ks ih =>
    simp only [specRun, specRunO, specStepO]
    cases h : specStep G r k with
    | none => simp [specRunO_none]
    | some p => obtain ⟨r', o⟩ := p; simpa using ih r'

theorem sentence_eq (G : Grammar) (start : RuleType) (ks : List Kind) :
    Sentence G start ks = specAccO (specRunO G (some (startRE G start)) (ks ++ [.EOF])) := by
  unfold Sentence
  rw [specRun_eq]
  cases specRunO G (some (startRE G start)) (ks ++ [.EOF]) <;> rfl

/-! ### sanity link to plain language membership -/

/-- every line of the sequence is read as its own kind by `specStep`, starting from residual `r`:
    the first test of the line's fallback chain that the grammar can continue with is the line's
    own kind (so the line is neither skipped nor read as a comment / free text instead). -/
def ReadsOwn (G : Grammar) : Spec.RE Kind → List Kind → Prop
  | _, [] => True
  | r, k :: ks => specStep G r k = some (Spec.RE.deriv k r, some k) ∧ ReadsOwn G (Spec.RE.deriv k r) ks

theorem sentence_of_lang_run (G : Grammar) :
    ∀ (w : List Kind) (r : Spec.RE Kind), Spec.RE.Lang r w → ReadsOwn G r w →
      ∃ r', specRun G r w = some r' ∧ Spec.RE.nullable r' = true := by
  intro w
  induction w with
  | nil =>
    intro r hw _
    exact ⟨r, rfl, (RE.nullable_iff r).2 hw⟩
  | cons k ks ih =>
    intro r hw hown
    obtain ⟨h1, h2⟩ := hown
    obtain ⟨r', hr', hn⟩ := ih _ ((RE.deriv_correct k r ks).2 hw) h2
    exact ⟨r', by simp only [specRun, h1]; exact hr', hn⟩

/-- if every line is read as its own kind and the word (with the final `EOF`) is in the language of
    the grammar's regular expression, the sequence is a sentence. -/
theorem sentence_of_lang_gen (G : Grammar) (start : RuleType) (ks : List Kind)
    (hw : Spec.RE.Lang (startRE G start) (ks ++ [.EOF]))
    (hown : ReadsOwn G (startRE G start) (ks ++ [.EOF])) :
    Sentence G start ks = true := by
  obtain ⟨r', hr', hn⟩ := sentence_of_lang_run G _ _ hw hown
  simp [Sentence, hr', hn]

end GV.Lemmas
