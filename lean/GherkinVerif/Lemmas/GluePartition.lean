/-
  Lemmas/GluePartition.lean — the ghost bookkeeping of the parse loop: every token read is handed
  to the builder or reported as unexpected (C18), and the look-ahead re-queues what it reads.
-/
import GherkinVerif.Lemmas.GlueOutcome
namespace GV
namespace Lemmas

/-- line numbers of the tokens handed to the builder -/
def bl (c : Ctx) : List Nat := c.builds.map (·.lineNo)

/-- every token read has been built or reported -/
def Full (c : Ctx) : Prop :=
  (bl c ++ c.unexpected).Perm c.reads ∧ (bl c).Sublist c.reads ∧ c.unexpected.Sublist c.reads

/-- every token read but the last (line `n`) has been built or reported -/
def Pending (n : Nat) (c : Ctx) : Prop :=
  ∃ r, c.reads = r ++ [n] ∧ (bl c ++ c.unexpected).Perm r ∧ (bl c).Sublist r ∧ c.unexpected.Sublist r

def Part (c : Ctx) : Prop := Full c ∨ ∃ n, Pending n c

def GhostEq (c c' : Ctx) : Prop :=
  c'.builds = c.builds ∧ c'.reads = c.reads ∧ c'.unexpected = c.unexpected

def GhostOnly (P : Ctx → Prop) : Prop := ∀ c c', GhostEq c c' → P c → P c'

theorem Full.ghostOnly : GhostOnly Full := by
  intro c c' ⟨h1, h2, h3⟩ h
  unfold Full bl at *
  rw [h1, h2, h3]; exact h

theorem Pending.ghostOnly (n : Nat) : GhostOnly (Pending n) := by
  intro c c' ⟨h1, h2, h3⟩ h
  unfold Pending bl at *
  rw [h1, h2, h3]; exact h

theorem FootL.ghost {c c' : Ctx} (h : FootL c c') : GhostEq c c' := by
  obtain ⟨_, _, _, _, _, _, rfl⟩ := h; exact ⟨rfl, rfl, rfl⟩
theorem FootM.ghost {c c' : Ctx} (h : FootM c c') : GhostEq c c' := h.toL.ghost
theorem FootB.ghost {c c' : Ctx} (h : FootB c c') : GhostEq c c' := by
  obtain ⟨_, _, _, rfl⟩ := h; exact ⟨rfl, rfl, rfl⟩
theorem FootE.ghost {c c' : Ctx} (h : FootE c c') : GhostEq c c' := h.toB.ghost

/-- an operation that leaves the ghost fields alone keeps every ghost-only predicate -/
theorem Triple.of_ghost {α} {m : PM α} {P : Ctx → Prop} {E : Ctx → Prop}
    (hfoot : ∀ c r c', run m c = (r, c') → GhostEq c c') (hP : GhostOnly P) (hE : ∀ c, P c → E c) :
    Triple P m (fun _ => P) (fun _ => E) := by
  refine Triple.intro fun c r c' hc hr => ?_
  cases r with
  | ok a => exact hP _ _ (hfoot _ _ _ hr) hc
  | error e => exact hE _ (hP _ _ (hfoot _ _ _ hr) hc)

theorem Pending.part {n : Nat} {c : Ctx} (h : Pending n c) : Part c := .inr ⟨n, h⟩
theorem Full.part {c : Ctx} (h : Full c) : Part c := .inl h

theorem Pending.build {n : Nat} {c : Ctx} (h : Pending n c) (t : Token) (ht : t.lineNo = n) (β : BState) :
    Full { c with β := β, builds := c.builds ++ [t] } := by
  obtain ⟨r, hr, hp, hs1, hs2⟩ := h
  unfold Full bl at *
  dsimp only
  rw [hr, List.map_append, List.map_cons, List.map_nil, ht]
  refine ⟨?_, List.Sublist.append hs1 (List.Sublist.refl _), hs2.trans (List.sublist_append_left r [n])⟩
  rw [List.append_assoc]
  refine (List.Perm.append_left _ List.perm_append_comm).trans ?_
  rw [← List.append_assoc]
  exact List.Perm.append_right _ hp

theorem Pending.report {n : Nat} {c : Ctx} (h : Pending n c) :
    Full { c with unexpected := c.unexpected ++ [n] } := by
  obtain ⟨r, hr, hp, hs1, hs2⟩ := h
  unfold Full bl at *
  dsimp only
  rw [hr, ← List.append_assoc]
  exact ⟨List.Perm.append_right _ hp, hs1.trans (List.sublist_append_left r [n]),
    List.Sublist.append hs2 (List.Sublist.refl _)⟩

theorem Full.read {c : Ctx} (h : Full c) (n : Nat) : Pending n { c with reads := c.reads ++ [n] } :=
  ⟨c.reads, rfl, h⟩

section
variable (D : List Dialect) (T : Table) (cap : Nat) (stop : Bool)

theorem part_runProd_build (t : Token) :
    Triple (Pending t.lineNo) (runProd cap stop t .build) (fun _ => Full) (fun _ => Part) := by
  refine Triple.intro fun c r c' hc hr => ?_
  rw [run_runProd] at hr
  dsimp only at hr
  split at hr
  · cases hr; exact hc.build t rfl _
  · rename_i e he
    obtain ⟨w, rfl⟩ := build_error _ _ _ he
    rw [run_liftB] at hr
    cases hr
    exact hc.part

theorem part_runProds_nobuild {P : Ctx → Prop} (hP : GhostOnly P) (hE : ∀ c, P c → Part c) (t : Token)
    (ps : List Prod) (hps : ∀ p ∈ ps, p ≠ .build) :
    Triple P (runProds cap stop t ps) (fun _ => P) (fun _ => Part) :=
  Triple.of_ghost (fun c r c' h => (runProds_foot cap stop t ps hps c r c' h).ghost) hP hE

theorem part_runProds (t : Token) (ps : List Prod) (hps : (ps.filter (· == .build)).length = 1) :
    Triple (Pending t.lineNo) (runProds cap stop t ps) (fun _ => Full) (fun _ => Part) := by
  induction ps with
  | nil => simp at hps
  | cons p ps ih =>
    unfold runProds
    by_cases hp : p = .build
    · subst hp
      have hno : ∀ p ∈ ps, p ≠ Prod.build := by
        intro p hp hpb
        subst hpb
        have hmem : Prod.build ∈ ps.filter (· == .build) := List.mem_filter.2 ⟨hp, by simp⟩
        rw [List.filter_cons_of_pos (by simp), List.length_cons] at hps
        have h0 : ps.filter (· == .build) = [] := List.eq_nil_of_length_eq_zero (by omega)
        rw [h0] at hmem
        cases hmem
      exact Triple.bind (part_runProd_build cap stop t) fun _ =>
        part_runProds_nobuild cap stop Full.ghostOnly (fun _ => Full.part) t ps hno
    · have hps' : (ps.filter (· == .build)).length = 1 := by
        rw [List.filter_cons_of_neg (by simpa using hp)] at hps
        exact hps
      exact Triple.bind
        (Triple.of_ghost (fun c r c' h => (runProd_foot cap stop t p hp c r c' h).ghost)
          (Pending.ghostOnly _) (fun _ => Pending.part)) fun _ => ih hps'

theorem part_matchP (k : Kind) (t : Token) :
    Triple (Pending t.lineNo) (matchP D cap stop k t)
      (fun r c => r.2.lineNo = t.lineNo ∧ Pending t.lineNo c) (fun _ => Part) := by
  refine Triple.intro fun c r c' hc hr => ?_
  have hg := (matchP_foot D cap stop k t c r c' hr).ghost
  cases r with
  | ok a => exact ⟨(matchP_tok D cap stop k t c a c' hr).2, Pending.ghostOnly _ _ _ hg hc⟩
  | error e => exact (Pending.ghostOnly _ _ _ hg hc).part

theorem part_addError (e : PErr) : Triple Full (addError cap e) (fun _ => Full) (fun _ => Part) :=
  Triple.of_ghost (fun c r c' h => (addError_foot cap e c r c' h).ghost) Full.ghostOnly fun _ => Full.part

theorem part_tryBranches (row : StateRow) (bs : List Branch)
    (hbs : ∀ b ∈ bs, (b.prods.filter (· == .build)).length = 1) (t : Token) :
    Triple (Pending t.lineNo) (tryBranches D T stop row bs t) (fun _ => Full) (fun _ => Part) := by
  induction bs generalizing t with
  | nil =>
    unfold tryBranches
    refine Triple.bind (Q := fun _ => Full) (Triple.modify _ fun c hc => hc.report) fun _ => ?_
    split
    · exact Triple.throw _ fun _ h => h.part
    · exact Triple.bind (part_addError _ _) fun _ => Triple.pure _ fun _ h => h
  | cons b bs ih =>
    have ih' : ∀ t' : Token, t'.lineNo = t.lineNo →
        Triple (fun c => t'.lineNo = t.lineNo ∧ Pending t.lineNo c) (tryBranches D T stop row bs t')
          (fun _ => Full) (fun _ => Part) := by
      intro t' ht'
      have := ih (fun b hb => hbs b (List.mem_cons_of_mem _ hb)) t'
      rw [ht'] at this
      exact Triple.conseq this (fun _ h => h.2) (fun _ _ h => h) (fun _ _ h => h)
    unfold tryBranches
    refine Triple.bind (part_matchP D T.errorCap stop _ t) fun r => ?_
    obtain ⟨m, t'⟩ := r
    dsimp only
    split
    · have cont : ∀ ok : Bool, Triple (fun c => t'.lineNo = t.lineNo ∧ Pending t.lineNo c)
          (if ok = true then do
            GV.runProds T.errorCap stop t' b.prods
            pure b.target
          else GV.tryBranches D T stop row bs t') (fun _ => Full) (fun _ => Part) := by
        intro ok
        split
        · refine Triple.of_forall fun c0 hc0 => ?_
          have hrp := part_runProds T.errorCap stop t' b.prods (hbs b (List.mem_cons_self ..))
          rw [hc0.1] at hrp
          exact Triple.bind (Triple.conseq hrp (fun c h => by rw [h]; exact hc0.2) (fun _ _ h => h) (fun _ _ h => h))
            fun _ => Triple.pure _ fun _ h => h
        · refine Triple.of_forall fun c0 hc0 => ?_
          exact Triple.conseq (ih' t' hc0.1) (fun c h => by rw [h]; exact hc0) (fun _ _ h => h) (fun _ _ h => h)
      have hP : GhostOnly (fun c => t'.lineNo = t.lineNo ∧ Pending t.lineNo c) :=
        fun c c' hg h => ⟨h.1, Pending.ghostOnly _ _ _ hg h.2⟩
      split
      · exact Triple.bind (Triple.pure _ fun _ h => h) cont
      · split
        · exact Triple.bind
            (Triple.of_ghost (fun c r c' h => (lookahead_foot D T.errorCap stop _ c r c' h).ghost) hP
              fun _ h => h.2.part) cont
        · exact Triple.bind (Q := fun _ _ => False) (Triple.throw _ fun _ h => h.2.part) fun _ _ h => h.elim
    · refine Triple.of_forall fun c0 hc0 => ?_
      exact Triple.conseq (ih' t' hc0.1) (fun c h => by rw [h]; exact hc0) (fun _ _ h => h) (fun _ _ h => h)

theorem part_matchToken (hT : Spec.oneBuildLast T = true) (state : Nat) (t : Token) :
    Triple (Pending t.lineNo) (matchToken D T stop state t) (fun _ => Full) (fun _ => Part) := by
  unfold matchToken
  split
  · rename_i row hrow
    refine part_tryBranches D T stop row row.branches ?_ t
    intro b hb
    have hmem : row ∈ T.rows := List.mem_of_find?_eq_some hrow
    simp only [Spec.oneBuildLast, List.all_eq_true, Bool.and_eq_true, beq_iff_eq] at hT
    exact (hT row hmem b hb).2
  · exact Triple.throw _ fun _ h => h.part

theorem part_parseLoop (hT : Spec.oneBuildLast T = true) (fuel state : Nat) :
    Triple Full (parseLoop D T stop fuel state) (fun _ => Full) (fun _ => Part) := by
  induction fuel generalizing state with
  | zero => exact Triple.throw _ fun _ h => h.part
  | succ n ih =>
    unfold parseLoop
    refine Triple.bind
      (Triple.of_ghost (fun c r c' h => (readToken_foot c r c' h).ghost) Full.ghostOnly fun _ => Full.part)
      fun t => ?_
    refine Triple.bind (Q := fun _ => Pending t.lineNo) (Triple.modify _ fun c hc => hc.read _) fun _ => ?_
    refine Triple.bind (part_matchToken D T stop hT _ t) fun s => ?_
    split
    · exact Triple.pure _ fun _ h => h
    · exact ih _

theorem part_parseBody (hT : Spec.oneBuildLast T = true) (n : Nat) :
    Triple Full (parseBody D T stop n) (fun _ => Full) (fun _ => Part) := by
  unfold parseBody
  refine Triple.bind (Q := fun _ => Full) (Triple.modify _ fun c hc => hc) fun _ => ?_
  refine Triple.bind (part_parseLoop D T stop hT _ _) fun _ => ?_
  refine Triple.bind
    (Triple.of_ghost (fun c r c' h => (runProd_foot _ _ _ _ (by simp) c r c' h).ghost) Full.ghostOnly
      fun _ => Full.part) fun _ => ?_
  refine Triple.bind Triple.get fun c0 => ?_
  dsimp only
  split
  · exact Triple.bind (Q := fun _ _ => False) (Triple.throw _ fun _ h => h.2.part) fun _ _ h => h.elim
  · split
    · exact Triple.pure _ fun _ h => h.2
    · exact Triple.throw _ fun _ h => h.2.part
    · exact Triple.throw _ fun _ h => h.2.part
    · exact Triple.throw _ fun _ h => h.2.part
end

/-! ### C18 statements -/

theorem full_ctx0 (D : List Dialect) (μ : MState) (ids : Nat) (src : Str) : Full (ctx0 D μ ids src) :=
  ⟨List.Perm.nil, List.Sublist.slnil, List.Sublist.slnil⟩

theorem partition (D : List Dialect) (T : Table) (hT : Spec.oneBuildLast T = true)
    (stop : Bool) (μ : MState) (ids : Nat) (src : Str) :
    let ctx := (parseWith D T stop μ ids src).2
    ((ctx.builds.map (·.lineNo) ++ ctx.unexpected).Perm ctx.reads ∨
     (ctx.builds.map (·.lineNo) ++ ctx.unexpected).Perm ctx.reads.dropLast) ∧
    (ctx.builds.map (·.lineNo)).Sublist ctx.reads ∧ ctx.unexpected.Sublist ctx.reads := by
  intro ctx
  have hpart : Part ctx := by
    have hb := part_parseBody D T stop hT (splitLines src).length (ctx0 D μ ids src) (full_ctx0 D μ ids src)
    show Part (parseWith D T stop μ ids src).2
    rw [parseWith_snd]
    rcases hr : run (parseBody D T stop (splitLines src).length) (ctx0 D μ ids src) with ⟨r, c⟩
    cases r with
    | ok d => exact (hb.1 _ _ hr).part
    | error e => exact hb.2 _ _ hr
  rcases hpart with h | ⟨n, r, hr, hp, hs1, hs2⟩
  · exact ⟨.inl h.1, h.2.1, h.2.2⟩
  · refine ⟨.inr ?_, ?_, ?_⟩
    · rw [hr, List.dropLast_concat]; exact hp
    · rw [hr]; exact hs1.trans (List.sublist_append_left r [n])
    · rw [hr]; exact hs2.trans (List.sublist_append_left r [n])

/-- once a token has been reported there is an error in the list -/
def UE (c : Ctx) : Prop := c.unexpected = [] ∨ c.errors ≠ []

theorem addError_nonempty (cap : Nat) (e : PErr) :
    Triple (fun _ => True) (addError cap e) (fun _ c => c.errors ≠ []) (fun _ _ => True) := by
  refine Triple.intro fun c r c' _ hr => ?_
  rw [run_addError] at hr
  split at hr
  · rename_i hany
    cases hr
    intro h0; rw [h0] at hany; simp at hany
  · split at hr
    · cases hr; trivial
    · cases hr; simp

theorem ue_prims (D : List Dialect) (T : Table) (stop : Bool) : Prims D T stop UE (fun _ _ => True) := by
  refine Prims.of_errOnly (fun c c' h1 h2 h => ?_) (fun hs e => ?_) (fun _ _ _ _ => trivial)
    (fun _ _ _ => trivial) (fun _ _ => trivial) (fun row t => ?_)
  · unfold UE at *; rw [h1, h2]; exact h
  · refine Triple.intro fun c r c' hc hr => ?_
    have hn := addError_nonempty T.errorCap e c trivial
    obtain ⟨es, rfl⟩ := addError_foot _ _ _ _ _ hr
    cases r with
    | ok a => exact .inr (hn.1 _ _ hr)
    | error e => trivial
  · unfold GV.tryBranches
    refine Triple.bind (Q := fun _ _ => True) (Triple.modify _ fun _ _ => trivial) fun _ => ?_
    split
    · exact Triple.throw _ fun _ _ => trivial
    · exact Triple.bind (addError_nonempty _ _) fun _ => Triple.pure _ fun _ h => .inr h

theorem accepted_builds_eq_reads (D : List Dialect) (T : Table) (hT : Spec.oneBuildLast T = true)
    (stop : Bool) (μ : MState) (ids : Nat) (src : Str) (d : Doc)
    (h : (parseWith D T stop μ ids src).1 = .ok d) :
    (parseWith D T stop μ ids src).2.builds.map (·.lineNo) = (parseWith D T stop μ ids src).2.reads ∧
    (parseWith D T stop μ ids src).2.unexpected = [] := by
  have hb := part_parseBody D T stop hT (splitLines src).length (ctx0 D μ ids src) (full_ctx0 D μ ids src)
  have hu := (ue_prims D T stop).parseBody (fun _ _ h => h) (fun _ _ _ => trivial)
    (splitLines src).length (ctx0 D μ ids src) (.inl rfl)
  rw [parseWith_snd]
  rw [parseWith_eq] at h
  rcases hr : run (parseBody D T stop (splitLines src).length) (ctx0 D μ ids src) with ⟨r, c⟩
  rw [hr] at h
  cases r with
  | error e => cases e <;> cases h
  | ok d' =>
    dsimp only
    have hfull := hb.1 _ _ hr
    have hue := hu.1 _ _ hr
    have hun : c.unexpected = [] := by
      rcases hue.1 with h1 | h1
      · exact h1
      · exact absurd hue.2 h1
    refine ⟨?_, hun⟩
    obtain ⟨hp, hs, _⟩ := hfull
    rw [hun, List.append_nil] at hp
    exact hs.eq_of_length hp.length_eq

/-! ### the look-ahead re-queues what it read -/

/-- relation between the scanner state before (`c`, tokens `acc` in hand) and after (`c'`, tokens
    `read` in hand) some iterations of the look-ahead loop -/
def Conserve (c : Ctx) (acc : List Token) (c' : Ctx) (read : List Token) : Prop :=
  (c'.queue.map (·.lineNo) ++ read.map (·.lineNo)).Perm
    (c.queue.map (·.lineNo) ++ acc.map (·.lineNo) ++ List.range' (c.lineNo + 1) (c'.lineNo - c.lineNo)) ∧
  c'.lines = c.lines.drop (c'.lineNo - c.lineNo) ∧ c.lineNo ≤ c'.lineNo

/-- same scanner position -/
def ScanEq (c c' : Ctx) : Prop := c'.queue = c.queue ∧ c'.lines = c.lines ∧ c'.lineNo = c.lineNo

theorem FootM.scan {c c' : Ctx} (h : FootM c c') : ScanEq c c' := by
  obtain ⟨_, _, _, rfl⟩ := h; exact ⟨rfl, rfl, rfl⟩
theorem ScanEq.trans {a b c : Ctx} (h1 : ScanEq a b) (h2 : ScanEq b c) : ScanEq a c :=
  ⟨h2.1.trans h1.1, h2.2.1.trans h1.2.1, h2.2.2.trans h1.2.2⟩

/-- one token read (`c` to `c1`), nothing else: the base case -/
theorem conserve_base (c c1 c2 : Ctx) (t t2 : Token) (acc : List Token)
    (hread : (∃ q, c.queue = t :: q ∧ c1 = { c with queue := q }) ∨
     (c.queue = [] ∧ t = { line := c.lines.head?, lineNo := c.lineNo + 1 } ∧
      c1 = { c with lines := c.lines.tail, lineNo := c.lineNo + 1 }))
    (hs : ScanEq c1 c2) (ht : t2.lineNo = t.lineNo) : Conserve c acc c2 (acc ++ [t2]) := by
  obtain ⟨hq, hl, hn⟩ := hs
  unfold Conserve
  rw [hq, hl, hn]
  rcases hread with ⟨q, hcq, rfl⟩ | ⟨hcq, rfl, rfl⟩
  · dsimp only
    rw [hcq]
    refine ⟨?_, by simp, Nat.le_refl _⟩
    rw [List.perm_iff_count]
    intro a
    simp only [Nat.sub_self, List.range'_zero, List.append_nil, List.map_append, List.map_cons,
      List.map_nil, List.count_append, List.count_cons, List.count_nil, ht]
    omega
  · dsimp only at ht ⊢
    rw [hcq]
    refine ⟨?_, by simp, Nat.le_succ _⟩
    rw [List.perm_iff_count]
    intro a
    simp only [Nat.add_sub_cancel_left, List.range'_one, List.map_append, List.map_cons, List.map_nil,
      List.count_append, List.count_cons, List.count_nil, ht, List.nil_append]

/-- one token read (`c` to `c1`), then more iterations from an equivalent position -/
theorem conserve_step (c c1 c3 c' : Ctx) (t t2 : Token) (acc read : List Token)
    (hread : (∃ q, c.queue = t :: q ∧ c1 = { c with queue := q }) ∨
     (c.queue = [] ∧ t = { line := c.lines.head?, lineNo := c.lineNo + 1 } ∧
      c1 = { c with lines := c.lines.tail, lineNo := c.lineNo + 1 }))
    (hs : ScanEq c1 c3) (ht : t2.lineNo = t.lineNo) (h : Conserve c3 (acc ++ [t2]) c' read) :
    Conserve c acc c' read := by
  obtain ⟨hq, hl, hn⟩ := hs
  unfold Conserve at *
  rw [hq, hl, hn] at h
  obtain ⟨hp, hlines, hle⟩ := h
  rcases hread with ⟨q, hcq, rfl⟩ | ⟨hcq, rfl, rfl⟩
  · dsimp only at hp hlines hle
    refine ⟨?_, hlines, hle⟩
    rw [hcq]
    rw [List.perm_iff_count] at hp ⊢
    intro a
    have := hp a
    simp only [List.map_append, List.map_cons, List.map_nil, List.count_append, List.count_cons,
      List.count_nil, ht] at this ⊢
    omega
  · dsimp only at hp hlines hle ht
    have hk : c'.lineNo - c.lineNo = (c'.lineNo - (c.lineNo + 1)) + 1 := by omega
    refine ⟨?_, ?_, by omega⟩
    · rw [hcq] at hp ⊢
      rw [hk, List.range'_succ]
      rw [List.perm_iff_count] at hp ⊢
      intro a
      have := hp a
      simp only [List.map_append, List.map_cons, List.map_nil, List.count_append, List.count_cons,
        List.count_nil, ht, List.nil_append] at this ⊢
      omega
    · rw [hlines, hk, ← List.drop_one, List.drop_drop]
      congr 1
      omega

theorem lookaheadLoop_conserve (D : List Dialect) (cap : Nat) (stop : Bool) (la : LookAhead) :
    ∀ (fuel : Nat) (acc : List Token) (c : Ctx) (m : Bool) (read : List Token) (c' : Ctx),
      run (lookaheadLoop D cap stop la fuel acc) c = (.ok (m, read), c') → Conserve c acc c' read := by
  intro fuel
  induction fuel with
  | zero => intro acc c m read c' h; rw [lookaheadLoop, prun_throw] at h; cases h
  | succ n ih =>
    intro acc c m read c' h
    rw [lookaheadLoop, prun_bind] at h
    obtain ⟨t, c1, hr0, hread⟩ := readToken_cases c
    rw [hr0] at h
    dsimp only at h
    rw [prun_bind] at h
    rcases hr1 : run (matchAny D cap stop la.expected t) c1 with ⟨r1, c2⟩
    rw [hr1] at h
    cases r1 with
    | error e => cases h
    | ok r1 =>
      obtain ⟨m1, t1⟩ := r1
      have hs1 := (matchAny_foot D cap stop _ _ _ _ _ hr1).scan
      have ht1 := (matchAny_tok D cap stop _ _ _ _ _ hr1).2
      dsimp only at h ht1
      split at h
      · rw [prun_pure] at h; cases h
        exact conserve_base c c1 _ t t1 acc hread hs1 ht1
      · rw [prun_bind] at h
        rcases hr2 : run (matchAny D cap stop la.skip t1) c2 with ⟨r2, c3⟩
        rw [hr2] at h
        cases r2 with
        | error e => cases h
        | ok r2 =>
          obtain ⟨s, t2⟩ := r2
          have hs2 := hs1.trans (matchAny_foot D cap stop _ _ _ _ _ hr2).scan
          have ht2 := ((matchAny_tok D cap stop _ _ _ _ _ hr2).2).trans ht1
          dsimp only at h ht2
          split at h
          · exact conserve_step c c1 c3 c' t t2 acc read hread hs2 ht2 (ih _ _ _ _ _ h)
          · rw [prun_pure] at h; cases h
            exact conserve_base c c1 _ t t2 acc hread hs2 ht2

theorem lookahead_conserves (D : List Dialect) (cap : Nat) (stop : Bool) (la : LookAhead) (ctx : Ctx) (b : Bool) (ctx' : Ctx)
    (h : (lookahead D cap stop la).run.run ctx = (.ok b, ctx')) :
    (ctx'.queue.map (·.lineNo)).Perm (ctx.queue.map (·.lineNo) ++
      (List.range' (ctx.lineNo + 1) (ctx'.lineNo - ctx.lineNo))) ∧
    ctx'.lines = ctx.lines.drop (ctx'.lineNo - ctx.lineNo) ∧ ctx.lineNo ≤ ctx'.lineNo ∧
    ctx'.builds = ctx.builds ∧ ctx'.reads = ctx.reads := by
  have h : run (lookahead D cap stop la) ctx = (.ok b, ctx') := h
  have hg := (lookahead_foot D cap stop la _ _ _ h).ghost
  refine ⟨?_, ?_, ?_, hg.1, hg.2.1⟩
  all_goals
    rw [lookahead, prun_bind, run_get] at h
    dsimp only at h
    rw [prun_bind] at h
    rcases hr : run (lookaheadLoop D cap stop la (ctx.queue.length + ctx.lines.length + 2) []) ctx with ⟨r, c1⟩
    rw [hr] at h
    cases r with
    | error e => cases h
    | ok r =>
      obtain ⟨m, read⟩ := r
      dsimp only at h
      rw [prun_bind, run_modify] at h
      dsimp only at h
      rw [prun_pure] at h
      cases h
      obtain ⟨hp, hl, hle⟩ := lookaheadLoop_conserve D cap stop la _ _ _ _ _ _ hr
      dsimp only
      first
        | exact hl
        | exact hle
        | (rw [List.map_append]; simpa using hp)

end Lemmas
end GV
