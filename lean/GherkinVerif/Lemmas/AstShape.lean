/-
  Lemmas/AstShape.lean — the shape `Spec.shaped` (which child nodes a node may have, which at
  most once, which before which, which header lines must be there) follows from the grammar:
  `shapeCheck G` is a Boolean check on the right-hand sides of `G` (rules without `!` inlined),
  lifted to all valid derivation trees of `G` by `shaped_of_validTree` (generic in `G`), and
  evaluated by the kernel on the regenerated `Gen.grammar` (`shapeCheck_gen`).
-/
import GherkinVerif.Lemmas.C02Tree
import GherkinVerif.Lemmas.AstIds
import GherkinVerif.KDecide
namespace GV
namespace Lemmas
open Spec

namespace RE
variable {α : Type} [DecidableEq α]

/-- every word of `r` contains `x` (sound, not complete) -/
def must (x : α) : Spec.RE α → Bool
  | .emp => true
  | .eps => false
  | .sym a => decide (a = x)
  | .cat r s => must x r || must x s
  | .alt r s => must x r && must x s
  | .star _ => false

theorem must_of_lang {x : α} {r : Spec.RE α} {w : List α} (h : Spec.RE.Lang r w) :
    must x r = true → x ∈ w := by
  induction h with
  | eps => intro hm; simp [must] at hm
  | sym a => intro hm; simp only [must, decide_eq_true_eq] at hm; simp [hm]
  | cat _ _ ih1 ih2 =>
    intro hm
    simp only [must, Bool.or_eq_true] at hm
    rw [List.mem_append]
    exact hm.imp ih1 ih2
  | altL _ ih => intro hm; simp only [must, Bool.and_eq_true] at hm; exact ih hm.1
  | altR _ ih => intro hm; simp only [must, Bool.and_eq_true] at hm; exact ih hm.2
  | starNil => intro hm; simp [must] at hm
  | starCons _ _ _ _ => intro hm; simp [must] at hm

end RE

def allRuleTypes : List RuleType :=
  [.None_, .GherkinDocument, .Feature, .FeatureHeader, .Rule, .RuleHeader, .Background,
   .ScenarioDefinition, .Scenario, .ExamplesDefinition, .Examples, .ExamplesTable, .Step,
   .StepArg, .DataTable, .DocString, .Tags, .DescriptionHelper, .Description]

theorem mem_allRuleTypes (r : RuleType) : r ∈ allRuleTypes := by cases r <;> decide

def symNotIgnored (G : Grammar) : Sym → Bool
  | .tok k => !G.ignored.contains k
  | .rule _ => true

/-- the grammar facts behind `Spec.nodeShape`, rule by rule: only allowed nodes and
    element-carrying lines occur in the right-hand side; for an order pair `(a, b)` no `b` can
    stand before an `a` (and neither is an ignorable line); the needed children occur in every
    word -/
def shapeCheckAt (G : Grammar) (r : RuleType) : Bool :=
  ((RE.syms (rhsOf G r)).all fun y =>
    match y with
    | .rule x => (nodeShape r).allowed.contains x
    | .tok k => !elemKinds.contains k || (nodeShape r).lines.contains k) &&
  ((nodeShape r).order.all fun p =>
    symNotIgnored G p.1 && symNotIgnored G p.2 && !(RE.before p.1 (rhsOf G r)).contains p.2) &&
  ((nodeShape r).needs.all fun x => RE.must x (rhsOf G r))

/-- … for all rules, and no ignorable kind carries an element -/
def shapeCheck (G : Grammar) : Bool :=
  (G.ignored.all fun k => !elemKinds.contains k) && allRuleTypes.all (shapeCheckAt G)

/-! ### list facts -/

theorem kindsList_eq_map (ch : List TTree) : kindsList ch = ch.map TTree.kinds := by
  induction ch with
  | nil => rfl
  | cons c ch ih => rw [kindsList, ih]; rfl

theorem noBefore_of_splits {α} (A B : α → Bool) (l : List α)
    (h : ∀ p y q, l = p ++ y :: q → A y = true → ∀ x ∈ p, B x = false) : noBefore A B l = true := by
  induction l with
  | nil => rfl
  | cons x l ih =>
    rw [noBefore_cons]
    constructor
    · intro hb y hy
      obtain ⟨p, q, rfl⟩ := List.append_of_mem hy
      cases hA : A y with
      | false => rfl
      | true =>
        have := h (x :: p) y q rfl hA x List.mem_cons_self
        rw [hb] at this; cases this
    · exact ih fun p y q e hA z hz => h (x :: p) y q (by rw [e]; rfl) hA z (List.mem_cons_of_mem _ hz)

theorem noBefore_snoc_neutral {α} (A B : α → Bool) (l : List α) (x : α) (hA : A x = false)
    (h : noBefore A B l = true) : noBefore A B (l ++ [x]) = true := by
  induction l with
  | nil =>
    rw [List.nil_append, noBefore_cons]
    refine ⟨fun _ y hy => ?_, rfl⟩
    cases hy
  | cons y l ih =>
    rw [noBefore_cons] at h
    rw [List.cons_append, noBefore_cons]
    refine ⟨fun hb z hz => ?_, ih h.2⟩
    rcases List.mem_append.1 hz with hz | hz
    · exact h.1 hb z hz
    · simp only [List.mem_singleton] at hz; subst hz; exact hA

theorem dropIgnored_sub {G : Grammar} {p p' : List Tree} (h : DropIgnored G p p') : ∀ y ∈ p', y ∈ p := by
  induction h with
  | nil => intro y hy; cases hy
  | keep t _ ih =>
    intro y hy
    cases hy with
    | head => exact List.mem_cons_self
    | tail _ hy' => exact List.mem_cons_of_mem _ (ih y hy')
  | drop k _ _ ih => intro y hy; exact List.mem_cons_of_mem _ (ih y hy)

theorem kinds_node_iff (c : TTree) (r : RuleType) (ts : List Tree) :
    c.kinds = .node r ts → ∃ ch, c = .node r ch := by
  cases c with
  | leaf t => intro h; simp [TTree.kinds] at h
  | node r' ch => intro h; simp only [TTree.kinds, Tree.node.injEq] at h; exact ⟨ch, by rw [h.1]⟩

theorem other_not_needed (r : RuleType) : Sym.tok .Other ∉ (nodeShape r).needs := by
  cases r <;> decide

theorem sym_kinds_of_isSym (c : TTree) (a : Sym) (h : c.isSym a = true) : c.kinds.sym = a := by
  cases c with
  | leaf t =>
    cases a with
    | rule r => simp [TTree.isSym] at h
    | tok k => simp only [TTree.isSym, beq_iff_eq] at h; simp [TTree.kinds, Tree.sym, h]
  | node r' ch =>
    cases a with
    | rule r => simp only [TTree.isSym, beq_iff_eq] at h; simp [TTree.kinds, Tree.sym, h]
    | tok k => simp [TTree.isSym] at h

theorem isSym_of_sym_kinds (c : TTree) (a : Sym) (ha : a ≠ .tok .Other) (h : c.kinds.sym = a) :
    c.isSym a = true := by
  cases c with
  | leaf t =>
    simp only [TTree.kinds, Tree.sym] at h
    subst h
    cases hm : t.mtype with
    | none => rw [hm] at ha; exact absurd rfl ha
    | some k => simp [TTree.isSym, hm]
  | node r' ch =>
    simp only [TTree.kinds, Tree.sym] at h
    subst h; simp [TTree.isSym]

/-- `dropIgnored_split` for any element that is not an ignorable line -/
theorem dropIgnored_split' {G : Grammar} {p : List Tree} {t : Tree} {q : List Tree}
    (ht : ∀ k, t = .leaf k → G.ignored.contains k = false) :
    ∀ {kept : List Tree}, DropIgnored G (p ++ t :: q) kept →
      ∃ p' q', kept = p' ++ t :: q' ∧ DropIgnored G p p' ∧ DropIgnored G q q' := by
  induction p with
  | nil =>
    intro kept h
    simp only [List.nil_append] at h
    cases h with
    | keep _ h' => exact ⟨[], _, rfl, DropIgnored.nil, h'⟩
    | drop k hk _ => rw [ht k rfl] at hk; cases hk
  | cons a p ih =>
    intro kept h
    simp only [List.cons_append] at h
    cases h with
    | keep _ h' =>
      obtain ⟨p', q', rfl, hp, hq⟩ := ih h'
      exact ⟨a :: p', q', rfl, DropIgnored.keep a hp, hq⟩
    | drop k hk h' =>
      obtain ⟨p', q', rfl, hp, hq⟩ := ih h'
      exact ⟨p', q', rfl, DropIgnored.drop k hk hp, hq⟩

theorem not_ignored_of_sym {G : Grammar} (t : Tree) (a : Sym) (h : t.sym = a) (hn : symNotIgnored G a = true) :
    ∀ k, t = .leaf k → G.ignored.contains k = false := by
  intro k e
  subst e
  simp only [Tree.sym] at h
  subst h
  simpa [symNotIgnored] using hn

/-! ### one node -/

theorem nodeOK_of_valid {G : Grammar} (hign : (G.ignored.all fun k => !elemKinds.contains k) = true)
    (r : RuleType) (hc : shapeCheckAt G r = true) (ch : List TTree)
    (kept : List Tree) (hd : DropIgnored G (kindsList ch) kept)
    (hl : Spec.RE.Lang (rhsOf G r) (kept.map Tree.sym)) : nodeOK r ch = true := by
  simp only [shapeCheckAt, Bool.and_eq_true, List.all_eq_true] at hc
  obtain ⟨⟨cal, cord⟩, cnn⟩ := hc
  have hmemk : ∀ c ∈ ch, c.kinds ∈ kindsList ch := fun c hc => by
    rw [kindsList_eq_map]; exact List.mem_map_of_mem hc
  simp only [nodeOK, Bool.and_eq_true, List.all_eq_true]
  refine ⟨⟨?_, ?_⟩, ?_⟩
  · intro c hcm
    cases c with
    | leaf t =>
      cases hm : t.mtype with
      | none => simp only [hm]
      | some k =>
        rcases dropIgnored_mem hd _ (hmemk _ hcm) with hin | ⟨k', hk, hk'⟩
        · have := cal _ (RE.syms_of_lang hl _ (List.mem_map_of_mem hin))
          simpa [TTree.kinds, Tree.sym, hm] using this
        · simp only [TTree.kinds, hm, Option.getD_some, Tree.leaf.injEq] at hk
          subst hk
          have := List.all_eq_true.1 hign k (List.contains_iff_mem.1 hk')
          simp only [hm, this, Bool.true_or]
    | node r' ch' =>
      rcases dropIgnored_mem hd _ (hmemk _ hcm) with hin | ⟨k, hk, _⟩
      · have := cal _ (RE.syms_of_lang hl _ (List.mem_map_of_mem hin))
        simpa [TTree.kinds, Tree.sym] using this
      · simp [TTree.kinds] at hk
  · intro p hp
    obtain ⟨⟨hn1, hn2⟩, hbef⟩ := cord p hp
    apply noBefore_of_splits
    intro pre y post hsplit hA x hx
    cases hB : x.isSym p.2 with
    | false => rfl
    | true =>
      exfalso
      have hy := sym_kinds_of_isSym y p.1 hA
      have hxs := sym_kinds_of_isSym x p.2 hB
      have hk : kindsList ch = kindsList pre ++ y.kinds :: kindsList post := by
        rw [hsplit]; simp [kindsList_eq_map]
      rw [hk] at hd
      obtain ⟨p', q', rfl, hp', _⟩ := dropIgnored_split' (not_ignored_of_sym _ _ hy hn1) hd
      have hxin : x.kinds ∈ p' := by
        rcases dropIgnored_mem hp' _ (by rw [kindsList_eq_map]; exact List.mem_map_of_mem hx) with h | ⟨k, hk', hk''⟩
        · exact h
        · rw [not_ignored_of_sym _ _ hxs hn2 k hk'] at hk''; cases hk''
      have hw : (p' ++ y.kinds :: q').map Tree.sym = p'.map Tree.sym ++ p.1 :: q'.map Tree.sym := by
        simp [hy]
      rw [hw] at hl
      have hb := RE.before_of_lang hl _ _ rfl _ (List.mem_map_of_mem hxin)
      rw [hxs] at hb
      rw [List.contains_iff_mem.2 hb] at hbef
      cases hbef
  · intro x hx
    have hm := RE.must_of_lang hl (cnn x hx)
    obtain ⟨t, ht, hs⟩ := List.mem_map.1 hm
    have := dropIgnored_sub hd _ ht
    rw [kindsList_eq_map] at this
    obtain ⟨c, hcm, hck⟩ := List.mem_map.1 this
    refine List.any_eq_true.2 ⟨c, hcm, isSym_of_sym_kinds c x ?_ (by rw [hck, hs])⟩
    rintro rfl
    exact other_not_needed r hx

/-! ### the whole tree -/

theorem validList_cons_inv {G : Grammar} {t : Tree} {ts : List Tree} (h : ValidList G (t :: ts)) :
    ValidNode G t ∧ ValidList G ts := by
  cases h with
  | cons h1 h2 => exact ⟨h1, h2⟩

mutual
theorem shaped_of_validNode {G : Grammar} (hc : shapeCheck G = true) :
    ∀ t : TTree, ValidNode G t.kinds → shaped t = true
  | .leaf _, _ => rfl
  | .node r ch, hv => by
    rw [TTree.kinds] at hv
    cases hv with
    | node _ _ kept hvl hd hl =>
      rw [← rhsOf_eq] at hl
      rw [shaped, Bool.and_eq_true]
      have hc' := hc
      rw [shapeCheck, Bool.and_eq_true] at hc'
      exact ⟨nodeOK_of_valid hc'.1 r (List.all_eq_true.1 hc'.2 r (mem_allRuleTypes r)) ch kept hd hl,
        shapedList_of_validList hc ch hvl⟩
theorem shapedList_of_validList {G : Grammar} (hc : shapeCheck G = true) :
    ∀ ts : List TTree, ValidList G (kindsList ts) → shapedList ts = true
  | [], _ => rfl
  | c :: ts, hv => by
    rw [kindsList] at hv
    obtain ⟨h1, h2⟩ := validList_cons_inv hv
    rw [shapedList, Bool.and_eq_true]
    exact ⟨shaped_of_validNode hc c h1, shapedList_of_validList hc ts h2⟩
end

theorem shapedList_append (a b : List TTree) : shapedList (a ++ b) = (shapedList a && shapedList b) := by
  induction a with
  | nil => rfl
  | cons c a ih => rw [List.cons_append, shapedList, shapedList, ih, Bool.and_assoc]

theorem eof_not_in_order (r : RuleType) : ∀ p ∈ (nodeShape r).order, p.1 ≠ .tok .EOF := by
  cases r <;> decide

theorem nodeOK_snoc_leaf (r : RuleType) (ch : List TTree) (t : Token) (ht : t.mtype = some .EOF)
    (h : nodeOK r ch = true) : nodeOK r (ch ++ [.leaf t]) = true := by
  simp only [nodeOK, Bool.and_eq_true, List.all_eq_true] at h ⊢
  obtain ⟨⟨h1, h2⟩, h3⟩ := h
  refine ⟨⟨?_, ?_⟩, ?_⟩
  · intro c hc
    rcases List.mem_append.1 hc with hc | hc
    · exact h1 c hc
    · simp only [List.mem_singleton] at hc; subst hc; simp only [ht]; rfl
  · intro p hp
    refine noBefore_snoc_neutral _ _ _ _ ?_ (h2 p hp)
    have := eof_not_in_order r p hp
    cases hp1 : p.1 with
    | rule x => rfl
    | tok k =>
      simp only [TTree.isSym, ht, beq_eq_false_iff_ne, ne_eq, Option.some.injEq]
      rintro rfl; exact this hp1
  · intro x hx
    rw [List.any_append, h3 x hx]; rfl

/-- Every token tree whose kind projection is a valid derivation tree of `G` is grammar-shaped,
    provided the Boolean check on `G` holds. -/
theorem shaped_of_validTree {G : Grammar} (hc : shapeCheck G = true) (start : RuleType) (t : TTree)
    (hv : ValidTree G start t.kinds) : shaped t = true := by
  obtain ⟨cs, e, hnode⟩ := hv
  cases t with
  | leaf tk => simp [TTree.kinds] at e
  | node r ch =>
    simp only [TTree.kinds, Tree.node.injEq] at e
    obtain ⟨rfl, e⟩ := e
    rw [kindsList_eq_map] at e
    obtain ⟨ch', l, rfl, e1, e2⟩ := List.map_eq_append_iff.1 e
    cases l with
    | nil => simp at e2
    | cons c l =>
      simp only [List.map_cons, List.cons.injEq, List.map_eq_nil_iff] at e2
      obtain ⟨hc1, rfl⟩ := e2
      cases c with
      | node r' ch'' => simp [TTree.kinds] at hc1
      | leaf tk =>
        have hsh : shaped (.node r ch') = true :=
          shaped_of_validNode hc (.node r ch') (by rw [TTree.kinds, kindsList_eq_map, e1]; exact hnode)
        rw [shaped, Bool.and_eq_true] at hsh ⊢
        have hm : tk.mtype = some .EOF := by
          simp only [TTree.kinds, Tree.leaf.injEq] at hc1
          cases hmt : tk.mtype with
          | none => rw [hmt] at hc1; cases hc1
          | some k => rw [hmt] at hc1; simp only [Option.getD_some] at hc1; rw [hc1]
        refine ⟨nodeOK_snoc_leaf r ch' tk hm hsh.1, ?_⟩
        rw [shapedList_append, hsh.2]; rfl

/-- the kernel-evaluated fact about the regenerated grammar -/
theorem shapeCheck_gen : shapeCheck Gen.grammar = true := by kdecide

/-- the tree of every accepted document is grammar-shaped -/
theorem shaped_of_valid_gen (t : TTree) (hv : ValidTree Gen.grammar .GherkinDocument t.kinds) :
    GrammarShaped t :=
  shaped_of_validTree shapeCheck_gen _ t hv

/-! ### a grammar-shaped tree has no inner document node -/

theorem doc_not_allowed (r : RuleType) : RuleType.GherkinDocument ∉ (nodeShape r).allowed := by
  cases r <;> decide

/-- the children of the root of `t` contain no document node -/
def childrenDocFree : TTree → Bool
  | .leaf _ => true
  | .node _ ch => docFreeList ch

theorem docFreeList_of_forall (ts : List TTree) (h : ∀ c ∈ ts, docFree c = true) : docFreeList ts = true := by
  induction ts with
  | nil => rfl
  | cons c ts ih =>
    rw [docFreeList, Bool.and_eq_true]
    exact ⟨h c List.mem_cons_self, ih fun y hy => h y (List.mem_cons_of_mem _ hy)⟩

mutual
theorem childrenDocFree_of_shaped : ∀ t : TTree, shaped t = true → childrenDocFree t = true
  | .leaf _, _ => rfl
  | .node r ch, h => by
    rw [shaped, Bool.and_eq_true] at h
    have hch := childrenDocFree_of_shapedList ch h.2
    simp only [nodeOK, Bool.and_eq_true, List.all_eq_true] at h
    obtain ⟨⟨⟨hal, -⟩, -⟩, -⟩ := h
    rw [childrenDocFree]
    apply docFreeList_of_forall
    intro c hc
    cases c with
    | leaf t => rfl
    | node r' ch' =>
      have h1 := hal _ hc
      have h2 := hch _ hc
      simp only [List.contains_iff_mem] at h1
      rw [childrenDocFree] at h2
      rw [docFree, Bool.and_eq_true]
      refine ⟨?_, h2⟩
      simp only [bne_iff_ne, ne_eq]
      rintro rfl
      exact doc_not_allowed r h1
theorem childrenDocFree_of_shapedList : ∀ ts : List TTree, shapedList ts = true →
    ∀ c ∈ ts, childrenDocFree c = true
  | [], _ => fun _ h => by cases h
  | c :: ts, h => by
    rw [shapedList, Bool.and_eq_true] at h
    intro y hy
    rcases List.mem_cons.1 hy with e | hy
    · rw [e]; exact childrenDocFree_of_shaped c h.1
    · exact childrenDocFree_of_shapedList ts h.2 y hy
end

theorem isDocument_of_shaped (ch : List TTree) (h : shaped (.node .GherkinDocument ch) = true) :
    (TTree.node .GherkinDocument ch).isDocument = true :=
  childrenDocFree_of_shaped _ h

/-- the root of a valid derivation tree from the start rule `GherkinDocument` -/
theorem root_of_validTree {G : Grammar} (t : TTree) (hv : ValidTree G .GherkinDocument t.kinds) :
    ∃ ch, t = .node .GherkinDocument ch := by
  obtain ⟨cs, e, -⟩ := hv
  cases t with
  | leaf tk => simp [TTree.kinds] at e
  | node r ch => simp only [TTree.kinds, Tree.node.injEq] at e; exact ⟨ch, by rw [e.1]⟩

/-- Accepted documents, end to end on the builder side: if the token tree of the document
    projects to a valid derivation tree of the grammar and the structural recursion `astOf`
    succeeds from counter `n`, then the AST builder run on the tree's call sequence from a fresh
    state ends without error at the same counter, `get_result()` is that document, its comments
    are the tree's comment lines in order, and its ids in canonical order are `n, …, n'-1`. -/
theorem accepted_ast (t : TTree) (hv : ValidTree Gen.grammar .GherkinDocument t.kinds) (n n' : Nat) (v : Val)
    (h : (astOf (commentsOf t) t).run.run n = (.ok v, n')) :
    ∃ β d, applyOps (opsOf t) BState.reset n = (.ok (), β, n') ∧ v = .doc d ∧
      β.result = .ok (some d) ∧ d.comments = commentsOf t ∧
      canonicalIds d = List.range' n (n' - n) := by
  have hs := shaped_of_valid_gen t hv
  obtain ⟨ch, rfl⟩ := root_of_validTree t hv
  obtain ⟨β, h1, -, -, d, rfl, h2, h3⟩ := (ast_of_tree _ (isDocument_of_shaped ch hs) n).1 v n' h
  exact ⟨β, d, h1, rfl, h2, h3, (ast_ids_canonical _ hs _ n n' d h).1⟩


end Lemmas
end GV
