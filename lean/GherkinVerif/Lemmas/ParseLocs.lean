/-
  Lemmas/ParseLocs.lean — document-level corollaries of the link, part 2 (property C04 at document
  level): every location in the AST of an accepted document is the location of the physical line —
  resp. of the tag in that line — it was built from; every comment sits at column 1 of its line
  with the whole line as text.

  Composition of: `srcLocs d = elemLocs t`, `d.comments = commentsOf t` (`LinkTree.ast_facts`);
  the element locations / comments of a tree come from its leaves (`elemLocs_sub`,
  `commentsOf_eq`); the leaves are the built tokens, each the matcher's output on its own line
  (`parse_tokens`); the per-line location theorems of Lemmas/Locations.lean (property C04).
-/
import GherkinVerif.Lemmas.ParseDoc
import GherkinVerif.Lemmas.Locations
namespace GV
namespace Spec

/-- `loc` is the location of an element carried by the physical line `l`, the `n`-th line of the
    document, read under the dialect `dl`:
    * a Feature / Rule / Background / Scenario / Examples line: column `indent + 1`, where the line
      reads one of the dialect's keywords for that role followed by `:`;
    * a step line: column `indent + 1`, where the line reads a step keyword of the dialect;
    * a table row: column `indent + 1`, where the leading `|` is;
    * a doc-string separator: column `indent + 1`, where the delimiter (`"""` or three backticks) is;
    * a tag: some column at or after `indent + 1` of a line whose first non-blank code point is `@`,
      holding an `@`. -/
inductive ElemAt (dl : Dialect) (l : Str) (n : Nat) : Loc → Prop
  | title (K : Kind) (kw : Str) : K.isTitle = true → kw ∈ dl.roleKeywords K →
      startsWith (kw ++ [58]) (l.drop (lineIndent l)) = true → ElemAt dl l n ⟨n, some (lineIndent l + 1)⟩
  | step (kw : Str) : kw ∈ dl.stepKeywords → startsWith kw (l.drop (lineIndent l)) = true →
      ElemAt dl l n ⟨n, some (lineIndent l + 1)⟩
  | row : startsWith [124] (l.drop (lineIndent l)) = true → ElemAt dl l n ⟨n, some (lineIndent l + 1)⟩
  | docsep (sep : Str) : sep = dq3 ∨ sep = bt3 → startsWith sep (l.drop (lineIndent l)) = true →
      ElemAt dl l n ⟨n, some (lineIndent l + 1)⟩
  | tag (c : Nat) : lineStartsWith l [64] = true → lineIndent l + 1 ≤ c → l[c - 1]? = some 64 →
      ElemAt dl l n ⟨n, some c⟩

/-- `loc` is a position inside the document: line `i + 1` for a physical line `i`, and a column
    after that line's indentation and within the line -/
def LocOK (lines : List Str) (loc : Loc) : Prop :=
  ∃ (i : Nat) (l : Str) (c : Nat), lines[i]? = some l ∧ loc = ⟨i + 1, some c⟩ ∧ lineIndent l + 1 ≤ c ∧ c ≤ l.length

end Spec

namespace Lemmas
open Spec

theorem startsWith_drop_lt {p l : Str} {k : Nat} (h : startsWith p (l.drop k) = true) (hp : p ≠ []) :
    k < l.length := by
  cases p with
  | nil => exact absurd rfl hp
  | cons a p =>
    cases hd : l.drop k with
    | nil => rw [hd] at h; simp [startsWith] at h
    | cons b x =>
      have : ¬ l.length ≤ k := fun hle => by rw [List.drop_eq_nil_iff.2 hle] at hd; cases hd
      omega

/-- the column of an element location lies after the indentation and within its line -/
theorem ElemAt.bounds {dl : Dialect} {l : Str} {n : Nat} {loc : Loc} (h : ElemAt dl l n loc)
    (hne : ∀ kw ∈ dl.stepKeywords, kw ≠ []) :
    ∃ c, loc = ⟨n, some c⟩ ∧ lineIndent l + 1 ≤ c ∧ c ≤ l.length := by
  cases h with
  | title K kw _ _ hst => exact ⟨_, rfl, Nat.le_refl _, startsWith_drop_lt hst (by simp)⟩
  | step kw hkw hst => exact ⟨_, rfl, Nat.le_refl _, startsWith_drop_lt hst (hne kw hkw)⟩
  | row hst => exact ⟨_, rfl, Nat.le_refl _, startsWith_drop_lt hst (by simp)⟩
  | docsep sep hs hst =>
    refine ⟨_, rfl, Nat.le_refl _, startsWith_drop_lt hst ?_⟩
    rcases hs with rfl | rfl <;> decide
  | tag c _ h1 h2 =>
    refine ⟨c, rfl, h1, ?_⟩
    have : c - 1 < l.length := by
      cases hl : l[c - 1]? with
      | none => rw [hl] at h2; cases h2
      | some x => exact (List.getElem?_eq_some_iff.1 hl).1
    omega

/-! ### element locations and comments of a tree come from its leaves -/

mutual
theorem elemLocs_sub : ∀ (t : TTree) (loc : Loc), loc ∈ elemLocs t → ∃ tk ∈ leaves t, loc ∈ leafLocs tk
  | .leaf tk, loc, h => ⟨tk, by simp [leaves], by simpa [elemLocs] using h⟩
  | .node r ch, loc, h => by
    have h' : loc ∈ elemLocsList ch := by
      simp only [elemLocs] at h
      split at h
      · cases hh : elemLocsList ch with
        | nil => rw [hh] at h; simp at h
        | cons a as =>
          rw [hh] at h
          simp only [List.head?_cons, Option.toList_some, List.mem_singleton] at h
          rw [h]; exact List.mem_cons_self ..
      · exact h
    exact elemLocsList_sub ch loc h'
theorem elemLocsList_sub : ∀ (ts : List TTree) (loc : Loc), loc ∈ elemLocsList ts →
    ∃ tk ∈ leavesList ts, loc ∈ leafLocs tk
  | [], loc, h => by simp [elemLocsList] at h
  | c :: cs, loc, h => by
    simp only [elemLocsList, List.mem_append] at h
    rcases h with h | h
    · obtain ⟨tk, h1, h2⟩ := elemLocs_sub c loc h
      exact ⟨tk, by simp only [leavesList, List.mem_append]; exact .inl h1, h2⟩
    · obtain ⟨tk, h1, h2⟩ := elemLocsList_sub cs loc h
      exact ⟨tk, by simp only [leavesList, List.mem_append]; exact .inr h1, h2⟩
end

mutual
theorem commentsOf_eq : ∀ (t : TTree), commentsOf t = (leaves t).flatMap leafComments
  | .leaf tk => by simp [commentsOf, leaves]
  | .node r ch => by
    simp only [commentsOf, leaves]
    exact commentsOfList_eq ch
theorem commentsOfList_eq : ∀ (ts : List TTree), commentsOfList ts = (leavesList ts).flatMap leafComments
  | [] => rfl
  | c :: cs => by
    simp only [commentsOfList, leavesList, List.flatMap_append]
    rw [commentsOf_eq c, commentsOfList_eq cs]
end

/-! ### the locations carried by one matched line -/

theorem roleKeywords_of_mem {dl : Dialect} {k : Kind} {kws : List Str}
    (hk : (k, kws) ∈ [(Kind.FeatureLine, dl.feature), (.RuleLine, dl.rule), (.BackgroundLine, dl.background),
                      (.ScenarioLine, dl.scenario ++ dl.scenarioOutline), (.ExamplesLine, dl.examples)]) :
    k.isTitle = true ∧ kws = dl.roleKeywords k := by
  simp only [List.mem_cons, Prod.mk.injEq, List.not_mem_nil, or_false] at hk
  rcases hk with ⟨rfl, rfl⟩ | ⟨rfl, rfl⟩ | ⟨rfl, rfl⟩ | ⟨rfl, rfl⟩ | ⟨rfl, rfl⟩ <;> exact ⟨rfl, rfl⟩

theorem title_pair (dl : Dialect) (k : Kind) (hk : k.isTitle = true) :
    (k, dl.roleKeywords k) ∈ [(Kind.FeatureLine, dl.feature), (.RuleLine, dl.rule), (.BackgroundLine, dl.background),
                      (.ScenarioLine, dl.scenario ++ dl.scenarioOutline), (.ExamplesLine, dl.examples)] := by
  cases k <;> first | exact absurd hk (by decide) | simp [Dialect.roleKeywords]

theorem sepOK_cases {μ : MState} (h : sepOK μ = true) {sep : Str} (hs : μ.activeSep = some sep) : sep = dq3 ∨ sep = bt3 := by
  simp only [sepOK, Bool.or_eq_true, beq_iff_eq] at h
  rcases h with (h | h) | h
  · rw [h] at hs; cases hs
  · rw [h] at hs; cases hs; exact .inl rfl
  · rw [h] at hs; cases hs; exact .inr rfl

/-- the element locations of the token a successful test makes of the fresh token of a line -/
theorem matched_leafLocs (D : List Dialect) (K : Kind) (μ : MState) (hsep : sepOK μ = true) (l : Str) (n : Nat)
    (hm : (matchLine D K μ (freshTok l n) l).res = .matched) :
    ∀ loc ∈ leafLocs (matchLine D K μ (freshTok l n) l).tok, ElemAt μ.dialect l n loc := by
  have hmt := (match_well_matched D K μ (freshTok l n) l hm).1
  have hno : (matchLine D K μ (freshTok l n) l).tok.lineNo = n := (matchLine_tok D K μ (freshTok l n) l).2
  have ht : (freshTok l n).line = some l := rfl
  intro loc hloc
  unfold leafLocs at hloc
  rw [hmt] at hloc
  have hself : ∀ c, (matchLine D K μ (freshTok l n) l).tok.col = some c →
      (matchLine D K μ (freshTok l n) l).tok.loc = ⟨n, some c⟩ := by
    intro c hc; unfold Token.loc; rw [hno, hc]
  by_cases htitle : K.isTitle = true
  · obtain ⟨kw, c, hkw, -, hcol, hc, hst, -, -⟩ :=
      title_col_list D K _ μ (freshTok l n) l ht (title_pair μ.dialect K htitle) hm
    have hl : loc = (matchLine D K μ (freshTok l n) l).tok.loc := by
      cases K <;> first | exact absurd htitle (by decide) | simpa [elemKinds] using hloc
    rw [hl, hself c hcol, hc]
    subst hc
    exact .title K kw htitle hkw (by simpa using hst)
  · cases K <;> first | exact absurd rfl htitle | skip
    case EOF => simp [elemKinds] at hloc
    case Empty => simp [elemKinds] at hloc
    case Comment => simp [elemKinds] at hloc
    case Language => simp [elemKinds] at hloc
    case Other => simp [elemKinds] at hloc
    case TagLine =>
      obtain ⟨hs, hts, -⟩ := tagline_tok D μ (freshTok l n) l ht hm
      obtain ⟨-, hall⟩ := tag_cols l hs _ hts
      simp only [List.mem_map] at hloc
      obtain ⟨it, hit, rfl⟩ := hloc
      obtain ⟨h1, h2, -, -⟩ := hall it hit
      rw [getLocation_item _ it.1 (by omega), hno]
      exact .tag it.1 hs h1 h2
    case StepLine =>
      obtain ⟨kw, hkw, hst, -, hcol, -, -⟩ := step_col D μ (freshTok l n) l ht hm
      have hl : loc = (matchLine D .StepLine μ (freshTok l n) l).tok.loc := by simpa [elemKinds] using hloc
      rw [hl, hself _ hcol]
      exact .step kw hkw hst
    case TableRow =>
      obtain ⟨hcol, hst, -⟩ := row_col D μ (freshTok l n) l ht hm
      have hl : loc = (matchLine D .TableRow μ (freshTok l n) l).tok.loc := by simpa [elemKinds] using hloc
      rw [hl, hself _ hcol]
      exact .row hst
    case DocStringSeparator =>
      obtain ⟨sep, hsepc, hst, -, hcol⟩ := docsep_col D μ (freshTok l n) l ht hm
      have hl : loc = (matchLine D .DocStringSeparator μ (freshTok l n) l).tok.loc := by simpa [elemKinds] using hloc
      rw [hl, hself _ hcol]
      refine .docsep sep ?_ hst
      rcases hsepc with h | h | ⟨h, -⟩
      · exact .inl h
      · exact .inr h
      · exact sepOK_cases hsep h

/-- the comments carried by the token a successful test makes of the fresh token of a line -/
theorem matched_leafComments (D : List Dialect) (K : Kind) (μ : MState) (l : Str) (n : Nat)
    (hm : (matchLine D K μ (freshTok l n) l).res = .matched) :
    ∀ cm ∈ leafComments (matchLine D K μ (freshTok l n) l).tok,
      cm.loc = ⟨n, some 1⟩ ∧ cm.text = rstripCRLF l ∧ startsWith [35] (l.drop (lineIndent l)) = true := by
  have hmt := (match_well_matched D K μ (freshTok l n) l hm).1
  have hno : (matchLine D K μ (freshTok l n) l).tok.lineNo = n := (matchLine_tok D K μ (freshTok l n) l).2
  intro cm hcm
  unfold leafComments at hcm
  rw [hmt] at hcm
  by_cases hK : K = .Comment
  · subst hK
    obtain ⟨hcol, htx, hst⟩ := comment_col D μ (freshTok l n) l hm
    rw [htx] at hcm
    simp only [List.mem_singleton] at hcm
    subst hcm
    refine ⟨?_, rfl, hst⟩
    show getLocation _ = _
    unfold getLocation Token.loc
    rw [hno, hcol]
  · exfalso
    split at hcm
    · rename_i h1 _
      exact hK (Option.some.inj h1)
    · cases hcm

theorem leafLocs_eof {e : Token} (h : e.mtype = some .EOF) : leafLocs e = [] := by
  unfold leafLocs; rw [h]; simp [elemKinds]

theorem leafComments_eof {e : Token} (h : e.mtype = some .EOF) : leafComments e = [] := by
  unfold leafComments; rw [h]

/-! ### the document -/

/-- **C04 at document level.**  Every element location of the AST of an accepted document is the
    location of an element carried by one of its physical lines (`ElemAt`), and every comment is at
    column 1 of a line starting (after blanks) with `#`, with the whole line as text. -/
theorem ast_locations {D : List Dialect} {T : Table} {G : Grammar} {fuel : Nat} (L : LinkFacts D T G fuel)
    (hB : oneBuildLast T = true)
    (hCR : ((contentStates T).all fun s => (T.row? s).any isContentRow) = true)
    (μ : MState) (ids : Nat) (src : Str) (hμ : (μ.reset D).dialect ∈ D) (d : Doc)
    (h : (parseWith D T false μ ids src).1 = .ok d) :
    (∀ loc ∈ srcLocs d, ∃ (i : Nat) (l : Str) (dl : Dialect), (splitLines src)[i]? = some l ∧ dl ∈ D ∧
      ElemAt dl l (i + 1) loc) ∧
    (∀ cm ∈ d.comments, ∃ (i : Nat) (l : Str), (splitLines src)[i]? = some l ∧ cm.loc = ⟨i + 1, some 1⟩ ∧
      cm.text = rstripCRLF l ∧ startsWith [35] (l.drop (lineIndent l)) = true) := by
  obtain ⟨t, ht⟩ := parse_link L μ ids src hμ d h
  obtain ⟨hlocs, -, hcms, -, -⟩ := ht.ast_facts L.shape
  obtain ⟨toks, e, μf, hbuilds, hlt, -, -, he, -⟩ := parse_tokens L hB hCR μ ids src hμ d h
  have hleaves : leaves t = toks ++ [e] := ht.2.1.trans hbuilds
  refine ⟨fun loc hloc => ?_, fun cm hcm => ?_⟩
  · rw [hlocs] at hloc
    obtain ⟨tk, htk, hin⟩ := elemLocs_sub t loc hloc
    rw [hleaves, List.mem_append, List.mem_singleton] at htk
    rcases htk with htk | rfl
    · obtain ⟨i, l, K, μi, hi, hd, hs, hres, rfl, -⟩ := LineToks.mem hlt tk htk
      have := matched_leafLocs D K μi hs l (1 + i) hres loc hin
      rw [Nat.add_comm] at this
      exact ⟨i, l, μi.dialect, hi, hd, this⟩
    · rw [leafLocs_eof he] at hin; cases hin
  · rw [hcms, commentsOf_eq, hleaves, List.mem_flatMap] at hcm
    obtain ⟨tk, htk, hin⟩ := hcm
    rw [List.mem_append, List.mem_singleton] at htk
    rcases htk with htk | rfl
    · obtain ⟨i, l, K, μi, hi, -, -, hres, rfl, -⟩ := LineToks.mem hlt tk htk
      obtain ⟨h1, h2, h3⟩ := matched_leafComments D K μi l (1 + i) hres cm hin
      rw [Nat.add_comm] at h1
      exact ⟨i, l, hi, h1, h2, h3⟩
    · rw [leafComments_eof he] at hin; cases hin

/-- … in particular every element location is a position inside the document -/
theorem ast_locations_bounds {D : List Dialect} {T : Table} {G : Grammar} {fuel : Nat} (L : LinkFacts D T G fuel)
    (hB : oneBuildLast T = true)
    (hCR : ((contentStates T).all fun s => (T.row? s).any isContentRow) = true)
    (μ : MState) (ids : Nat) (src : Str) (hμ : (μ.reset D).dialect ∈ D) (d : Doc)
    (h : (parseWith D T false μ ids src).1 = .ok d) :
    ∀ loc ∈ srcLocs d, LocOK (splitLines src) loc := by
  intro loc hloc
  obtain ⟨i, l, dl, hi, hdl, hel⟩ := (ast_locations L hB hCR μ ids src hμ d h).1 loc hloc
  have hf := L.dialects
  simp only [textDialectFacts, Bool.and_eq_true] at hf
  obtain ⟨c, rfl, h1, h2⟩ := ElemAt.bounds hel fun kw hkw =>
    noEmptyKeyword_spec (keywordFacts_spec hf.1).1 hdl (mem_allKeywords_step hkw)
  exact ⟨i, l, c, hi, rfl, h1, h2⟩

end Lemmas
end GV
