/-
  Lemmas/ParseDocTree.lean — document-level corollaries of the link, part 3b (property C13 at
  document level, tree form): in the token tree of an accepted document every `DocString` node has
  as children exactly the leaves

      opening separator, content lines …, closing separator, then blank / comment lines …

  (the last group: lines after the closing separator that are read while the `DocString` node is
  still open), with the token facts of `C13_open`, `C13_content_line`, `C13_only_own_delimiter`,
  `C13_resume`; and the value of such a node is the doc string with that content.

  Route: along a `Trace` the calls after a `start_rule(DocString)` are `build`s up to the next
  `end_rule` (`trace_docOps`; table facts `Spec.docBodyFacts`, `Spec.docStartFacts`); the rebuilt tree
  then has the `DocString` nodes described (`ttreeOfAux_docNodes`).
-/
import GherkinVerif.Lemmas.ParseDocString
namespace GV
namespace Spec

/-! ### table facts -/

/-- the states entered by the closing separator of a doc string -/
def afterClose (T : Table) : List Nat :=
  (T.rows.filter isContentRow).flatMap fun r =>
    (r.branches.filter (·.kind == .DocStringSeparator)).map (·.target)

def isEndProd : Option Prod → Bool
  | some (.end_ _) => true
  | _ => false

/-- in a state entered by a closing separator every test either starts with an `end_rule` (of the
    `DocString` node) or is a `Comment` / `Empty` test that only builds and stays -/
def docBodyFacts (T : Table) : Bool :=
  T.rows.all fun r => !(afterClose T).contains r.id ||
    r.branches.all fun b => isEndProd b.prods.head? ||
      (b.prods == [.build] && b.target == r.id && (b.kind == .Comment || b.kind == .Empty))

/-- every `start DocString` in a production list is followed by exactly `build`, which ends the list -/
def startsDocLast : List Prod → Bool
  | [] => true
  | p :: rest => (p != .start .DocString || rest == [.build]) && startsDocLast rest

def docStartFacts (T : Table) : Bool := T.rows.all fun r => r.branches.all fun b => startsDocLast b.prods

/-! ### the lines of a doc string, as tokens -/

/-- the text of a content line `lx` of a doc string with delimiter `sep` opened on a line indented
    by `ind` (`C13_content_line`) -/
def docLineText (sep : Str) (ind : Nat) (lx : Str) : Str :=
  rstripCRLF (unescapeDoc (some sep) (lx.drop (min ind (lineIndent lx))))

/-- `o` is the token of an opening separator line `lo` with delimiter `sep` -/
def DocOpen (o : Token) (sep lo : Str) : Prop :=
  o.line = some lo ∧ (sep = dq3 ∨ sep = bt3) ∧ startsWith sep (trimmed lo) = true ∧
  o.mtype = some .DocStringSeparator ∧ o.keyword = some sep ∧
  o.text = some (rstripCRLF (strip ((trimmed lo).drop 3))) ∧ WellMatched o

/-- `x` is the token of a content line: read as `Other`, not starting with the delimiter -/
def DocLine (sep : Str) (ind : Nat) (x : Token) : Prop :=
  ∃ lx, x.line = some lx ∧ startsWith sep (trimmed lx) = false ∧ x.mtype = some .Other ∧
    x.text = some (docLineText sep ind lx) ∧ WellMatched x

/-- `c` is the token of the closing separator line -/
def DocClose (sep : Str) (c : Token) : Prop :=
  (∃ lc, c.line = some lc ∧ startsWith sep (trimmed lc) = true) ∧ c.mtype = some .DocStringSeparator ∧
  c.text = none ∧ c.keyword = some sep ∧ WellMatched c

/-- `y` is a blank or comment line read after the closing separator -/
def DocTrail (y : Token) : Prop := (y.mtype = some .Comment ∨ y.mtype = some .Empty) ∧ WellMatched y

/-- the tokens of one doc string, in order -/
def DocSeq (bs : List Token) : Prop :=
  ∃ (o : Token) (xs : List Token) (c : Token) (ys : List Token) (sep lo : Str),
    bs = o :: (xs ++ c :: ys) ∧ DocOpen o sep lo ∧ (∀ x ∈ xs, DocLine sep (lineIndent lo) x) ∧
    DocClose sep c ∧ ∀ y ∈ ys, DocTrail y

mutual
/-- every `DocString` node of the tree has only leaves as children, and their tokens satisfy `P` -/
def docNodesP (P : List Token → Prop) : TTree → Prop
  | .leaf _ => True
  | .node r ch => (r = .DocString → ∃ bs, ch = bs.map .leaf ∧ P bs) ∧ docNodesListP P ch
def docNodesListP (P : List Token → Prop) : List TTree → Prop
  | [] => True
  | c :: cs => docNodesP P c ∧ docNodesListP P cs
end

/-- in a call sequence every `start_rule(DocString)` is followed by the `build`s of the tokens of one
    doc string and then an `end_rule` -/
def docOps : List BOp → Prop
  | [] => True
  | .start r :: rest =>
    (r = .DocString → ∃ bs rest', rest = bs.map .build ++ .end_ :: rest' ∧ DocSeq bs) ∧ docOps rest
  | .build _ :: rest => docOps rest
  | .end_ :: rest => docOps rest

end Spec

namespace Lemmas
open Spec

/-! ### from the call sequence to the tree -/

theorem docNodesListP_append (P : List Token → Prop) (a b : List TTree) :
    docNodesListP P (a ++ b) ↔ docNodesListP P a ∧ docNodesListP P b := by
  induction a with
  | nil => simp [docNodesListP]
  | cons c a ih => simp only [List.cons_append, docNodesListP, ih, and_assoc]

theorem docNodesListP_leaves (P : List Token → Prop) (bs : List Token) : docNodesListP P (bs.map .leaf) := by
  induction bs with
  | nil => trivial
  | cons b bs ih => exact ⟨trivial, ih⟩

theorem builds_cons_inv {bs : List Token} {rest' es : List BOp} {t : Token}
    (h : bs.map BOp.build ++ .end_ :: rest' = .build t :: es) :
    ∃ bs', bs = t :: bs' ∧ es = bs'.map .build ++ .end_ :: rest' := by
  cases bs with
  | nil => simp at h
  | cons b bs' =>
    simp only [List.map_cons, List.cons_append, List.cons.injEq, BOp.build.injEq] at h
    exact ⟨bs', by rw [h.1], h.2.symm⟩

/-- the invariant of the stack of open nodes against the calls still to come -/
def SInvD : List (RuleType × List TTree) → List BOp → Prop
  | [], _ => True
  | (r, cs) :: rest, ops =>
    docNodesListP DocSeq cs ∧
    (r = .DocString → ∃ pre bs rest', cs = pre.map .leaf ∧ ops = bs.map .build ++ .end_ :: rest' ∧ DocSeq (pre ++ bs)) ∧
    ∀ p ∈ rest, docNodesListP DocSeq p.2 ∧ p.1 ≠ .DocString

theorem ttreeOfAux_docNodes : ∀ (ops : List BOp) (stack : List (RuleType × List TTree)) (t : TTree),
    docOps ops → SInvD stack ops → ttreeOfAux ops stack = some t → docNodesP DocSeq t := by
  intro ops
  induction ops with
  | nil => intro stack t _ _ h; cases h
  | cons o ops ih =>
    intro stack t hdo hinv h
    cases o with
    | start r =>
      simp only [ttreeOfAux] at h
      obtain ⟨hnext, hdo'⟩ := hdo
      refine ih ((r, []) :: stack) t hdo' ?_ h
      refine ⟨trivial, fun hr => ?_, ?_⟩
      · obtain ⟨bs, rest', h1, h2⟩ := hnext hr
        exact ⟨[], bs, rest', rfl, h1, h2⟩
      · intro p hp
        cases stack with
        | nil => cases hp
        | cons top rest =>
          obtain ⟨r0, cs0⟩ := top
          obtain ⟨hd, htop, hrest⟩ := hinv
          rcases List.mem_cons.1 hp with rfl | hp
          · refine ⟨hd, fun hr0 => ?_⟩
            obtain ⟨pre, bs, rest', -, hops, -⟩ := htop hr0
            cases bs <;> simp at hops
          · exact hrest p hp
    | build tk =>
      cases stack with
      | nil => simp [ttreeOfAux] at h
      | cons top rest =>
        obtain ⟨r, cs⟩ := top
        simp only [ttreeOfAux] at h
        obtain ⟨hd, htop, hrest⟩ := hinv
        refine ih ((r, cs ++ [.leaf tk]) :: rest) t hdo ⟨?_, fun hr => ?_, hrest⟩ h
        · exact (docNodesListP_append _ _ _).2 ⟨hd, trivial, trivial⟩
        · obtain ⟨pre, bs, rest', hcs, hops, hseq⟩ := htop hr
          obtain ⟨bs', rfl, hes⟩ := builds_cons_inv hops.symm
          refine ⟨pre ++ [tk], bs', rest', by rw [hcs]; simp, hes, ?_⟩
          simpa using hseq
    | end_ =>
      cases stack with
      | nil => simp [ttreeOfAux] at h
      | cons top rest =>
        obtain ⟨r, cs⟩ := top
        obtain ⟨hd, htop, hrest⟩ := hinv
        have hnode : docNodesP DocSeq (.node r cs) := by
          refine ⟨fun hr => ?_, hd⟩
          obtain ⟨pre, bs, rest', hcs, hops, hseq⟩ := htop hr
          cases bs with
          | nil => exact ⟨pre, hcs, by simpa using hseq⟩
          | cons b bs => simp at hops
        cases rest with
        | nil =>
          simp only [ttreeOfAux] at h
          split at h
          · cases h; exact hnode
          · cases h
        | cons top2 rest2 =>
          obtain ⟨p, ps⟩ := top2
          simp only [ttreeOfAux] at h
          obtain ⟨hpd, hpne⟩ := hrest (p, ps) (List.mem_cons_self ..)
          refine ih ((p, ps ++ [.node r cs]) :: rest2) t hdo
            ⟨(docNodesListP_append _ _ _).2 ⟨hpd, hnode, trivial⟩, fun hp => absurd hp hpne,
             fun q hq => hrest q (List.mem_cons_of_mem _ hq)⟩ h

theorem ttreeOf_docNodes (ops : List BOp) (t : TTree) (hdo : docOps ops) (h : ttreeOf ops = some t) :
    docNodesP DocSeq t :=
  ttreeOfAux_docNodes ops [] t hdo trivial h

theorem docOps_append {a b : List BOp} (ha : docOps a) (hb : docOps b) : docOps (a ++ b) := by
  induction a with
  | nil => exact hb
  | cons o a ih =>
    cases o with
    | start r =>
      obtain ⟨h1, h2⟩ := ha
      refine ⟨fun hr => ?_, ih h2⟩
      obtain ⟨bs, rest', hrest, hseq⟩ := h1 hr
      exact ⟨bs, rest' ++ b, by rw [hrest]; simp, hseq⟩
    | end_ => exact ih ha
    | build t => exact ih ha

/-! ### the calls of a doc string along a trace -/

/-- in a content row: both tests only build; the separator test leaves, the `Other` test stays and
    is taken only when the separator test failed -/
theorem content_pick' {T : Table} {row : StateRow} (hr : isContentRow row = true) {k : Kind} {fut : List Kind}
    {b : Branch} (hp : pickBranch T k fut row.branches = some b) :
    b.prods = [.build] ∧ (b.kind = .DocStringSeparator ∨
      (b.kind = .Other ∧ b.target = row.id ∧ passes k .DocStringSeparator = false)) := by
  unfold isContentRow at hr
  split at hr
  · rename_i b1 b2 hb
    simp only [Bool.and_eq_true, beq_iff_eq] at hr
    obtain ⟨⟨⟨⟨⟨⟨k1, g1⟩, p1⟩, k2⟩, -⟩, p2⟩, t2⟩ := hr
    rw [hb] at hp
    simp only [pickBranch] at hp
    split at hp
    · cases hp; exact ⟨p1, .inl k1⟩
    · rename_i hc
      split at hp
      · cases hp
        refine ⟨p2, .inr ⟨k2, t2, ?_⟩⟩
        rw [k1, guardOk_unguarded g1] at hc
        simpa using hc
      · cases hp
  · cases hr

theorem mem_afterClose {T : Table} {row : StateRow} {b : Branch} (hmem : row ∈ T.rows)
    (hr : isContentRow row = true) (hb : b ∈ row.branches) (hk : b.kind = .DocStringSeparator) :
    (afterClose T).contains b.target = true := by
  rw [List.contains_iff_mem]
  unfold afterClose
  exact List.mem_flatMap.2 ⟨row, List.mem_filter.2 ⟨hmem, hr⟩,
    List.mem_map.2 ⟨b, List.mem_filter.2 ⟨hb, by simp [hk]⟩, rfl⟩⟩

theorem afterClose_branch {T : Table} (hBF : docBodyFacts T = true) {p : Nat} {row : StateRow}
    (hrow : T.row? p = some row) (hp : (afterClose T).contains p = true) {b : Branch} (hb : b ∈ row.branches) :
    (∃ x ps, b.prods = .end_ x :: ps) ∨
    (b.prods = [.build] ∧ b.target = p ∧ (b.kind = .Comment ∨ b.kind = .Empty)) := by
  obtain ⟨hid, hmem⟩ := row_id_of_row? hrow
  simp only [docBodyFacts, List.all_eq_true, Bool.or_eq_true, Bool.not_eq_true', Bool.and_eq_true,
    beq_iff_eq] at hBF
  rcases hBF row hmem with h | h
  · rw [hid, hp] at h; cases h
  · rcases h b hb with h | ⟨⟨h1, h2⟩, h3⟩
    · left
      cases hps : b.prods with
      | nil => rw [hps] at h; cases h
      | cons q ps =>
        rw [hps] at h
        cases q with
        | end_ x => exact ⟨x, ps, rfl⟩
        | start x => cases h
        | build => cases h
    · exact .inr ⟨h1, h2.trans hid, h3⟩

/-- after the closing separator: blank / comment lines are built, then comes an `end_rule` -/
theorem trace_afterClose {D : List Dialect} {T : Table} (hBF : docBodyFacts T = true)
    {p : Nat} {μ : MState} {ls : List Str} {sf : Nat} {steps : List (Branch × Token)}
    (h : Trace D T p μ ls sf steps) (hp : (afterClose T).contains p = true) :
    ∃ (ys : List Token) (rest' : List BOp), stepsOps steps = ys.map .build ++ .end_ :: rest' ∧ ∀ y ∈ ys, DocTrail y := by
  induction h with
  | @eof s μ row b t0 hrow hpick ht0 hres =>
    obtain ⟨hbm, hpass, -⟩ := pick_mem hpick
    rcases afterClose_branch hBF hrow hp hbm with ⟨x, ps, hps⟩ | ⟨-, -, hk⟩
    · exact ⟨[], prodOps (matchTok D b.kind μ t0).1.tok ps ++ [], by simp [stepsOps, hps, prodOps], fun y hy => by cases hy⟩
    · rw [passes_EOF] at hpass
      rcases hk with hk | hk <;> (rw [hk] at hpass; cases hpass)
  | @line s μ l ls row b t0 sf rest hrow hpick ht0 hres _ ih =>
    obtain ⟨hbm, -, -⟩ := pick_mem hpick
    rcases afterClose_branch hBF hrow hp hbm with ⟨x, ps, hps⟩ | ⟨hps, htgt, hk⟩
    · exact ⟨[], prodOps (matchTok D b.kind μ t0).1.tok ps ++ stepsOps rest, by simp [stepsOps, hps, prodOps], fun y hy => by cases hy⟩
    · obtain ⟨ys, rest', hops, hys⟩ := ih (by rw [htgt]; exact hp)
      obtain ⟨hmt, hwm⟩ := matchTok_well_matched D _ _ _ hres
      refine ⟨(matchTok D b.kind μ t0).1.tok :: ys, rest', ?_, ?_⟩
      · simp only [stepsOps, List.flatMap_cons, hps, prodOps, List.map_cons, List.cons_append, List.nil_append]
        simp only [stepsOps] at hops
        rw [hops]
      · intro y hy
        rcases List.mem_cons.1 hy with rfl | hy
        · exact ⟨by rw [hmt]; rcases hk with hk | hk <;> simp [hk], hwm⟩
        · exact hys y hy

/-- inside a doc string: content lines are built, then the closing separator, then (after blank /
    comment lines) comes an `end_rule` -/
theorem trace_body {D : List Dialect} {T : Table} (hf : textDialectFacts D = true)
    (hCR : ((contentStates T).all fun s => (T.row? s).any isContentRow) = true) (hBF : docBodyFacts T = true)
    {s : Nat} {μ : MState} {ls : List Str} {sf : Nat} {steps : List (Branch × Token)}
    (h : Trace D T s μ ls sf steps) (hμ : MuOK D μ) (hs : (contentStates T).contains s = true)
    (sep : Str) (hsep : μ.activeSep = some sep) (hne : sep ≠ []) :
    ∃ (xs : List Token) (c : Token) (ys : List Token) (rest' : List BOp),
      stepsOps steps = (xs ++ c :: ys).map .build ++ .end_ :: rest' ∧
      (∀ x ∈ xs, DocLine sep μ.indentToRemove x) ∧ DocClose sep c ∧ ∀ y ∈ ys, DocTrail y := by
  induction h with
  | @eof s μ row b t0 hrow hpick ht0 hres =>
    exfalso
    have hpass := (pick_mem hpick).2.1
    rw [passes_EOF] at hpass
    rcases (content_pick' (content_row_of hCR hrow hs) hpick).2 with h1 | ⟨h1, -, -⟩ <;>
      (rw [h1] at hpass; cases hpass)
  | @line s μ l ls row b t0 sf rest hrow hpick ht0 hres htail ih =>
    have hcr := content_row_of hCR hrow hs
    obtain ⟨hid, hmem⟩ := row_id_of_row? hrow
    obtain ⟨hbm, -, -⟩ := pick_mem hpick
    obtain ⟨hps, hcase⟩ := content_pick' hcr hpick
    obtain ⟨hmt, hwm⟩ := matchTok_well_matched D _ _ _ hres
    have hline : (matchTok D b.kind μ t0).1.tok.line = some l := by
      rw [(matchTok_tok D b.kind μ t0).1]; exact ht0
    rcases hcase with hk | ⟨hk, htgt, hnp⟩
    · -- the closing separator
      obtain ⟨ys, rest', hops, hys⟩ := trace_afterClose hBF htail (mem_afterClose hmem hcr hbm hk)
      have hres' : (matchLine D .DocStringSeparator μ t0 l).res = .matched := by
        have := hres; rw [matchTok_line ht0, hk] at this; exact this
      have htok : (matchTok D b.kind μ t0).1.tok = (matchLine D .DocStringSeparator μ t0 l).tok := by
        rw [matchTok_line ht0, hk]
      obtain ⟨-, h2, h3, h4⟩ := docsep_close D μ t0 l sep hsep hne hres'
      refine ⟨[], (matchTok D b.kind μ t0).1.tok, ys, rest', ?_, (fun x hx => by cases hx), ?_, hys⟩
      · simp only [stepsOps, List.flatMap_cons, hps, prodOps, List.nil_append, List.map_cons, List.cons_append]
        simp only [stepsOps] at hops
        rw [hops]
      · refine ⟨⟨l, hline, (docsep_active_iff D μ t0 l sep hsep hne).1 hres'⟩, ?_, ?_, ?_, hwm⟩
        · rw [htok]; exact h4
        · rw [htok]; exact h2
        · rw [htok]; exact h3
    · -- a content line
      have hmu : muAfter D μ l b.kind = μ := by rw [hk]; rfl
      rw [hmu, htgt, hid] at htail ih
      obtain ⟨xs, c, ys, rest', hops, hxs, hc, hys⟩ := ih hμ hs hsep
      have htok : (matchTok D b.kind μ t0).1.tok = (matchLine D .Other μ t0 l).tok := by
        rw [matchTok_line ht0, hk]
      have hns : startsWith sep (trimmed l) = false := by
        cases hst : startsWith sep (trimmed l) with
        | false => rfl
        | true =>
          have hm := (docsep_active_iff D μ (probe l) l sep hsep hne).2 hst
          have hv : verdict D μ l .DocStringSeparator = true := by unfold verdict; rw [hm]
          rw [kind_unique hf D μ hμ.1 hμ.2 l, hnp] at hv
          cases hv
      refine ⟨(matchTok D b.kind μ t0).1.tok :: xs, c, ys, rest', ?_, ?_, hc, hys⟩
      · simp only [stepsOps, List.flatMap_cons, hps, prodOps, List.nil_append, List.map_cons, List.cons_append]
        simp only [stepsOps] at hops
        rw [hops]
      · intro x hx
        rcases List.mem_cons.1 hx with rfl | hx
        · refine ⟨l, hline, hns, by rw [hmt, hk], ?_, hwm⟩
          rw [htok, other_text, hsep]; rfl
        · exact hxs x hx

theorem docOps_prodOps (tok : Token) (ps : List Prod) (X : List BOp) (hsl : startsDocLast ps = true)
    (hX : docOps X)
    (hdoc : Prod.start .DocString ∈ ps →
      ∃ (bs : List Token) (rest' : List BOp), X = bs.map .build ++ .end_ :: rest' ∧ DocSeq (tok :: bs)) :
    docOps (prodOps tok ps ++ X) := by
  induction ps with
  | nil => exact hX
  | cons p ps ih =>
    simp only [startsDocLast, Bool.and_eq_true, Bool.or_eq_true, bne_iff_ne, ne_eq, beq_iff_eq] at hsl
    have ih' := ih hsl.2 fun hm => hdoc (List.mem_cons_of_mem _ hm)
    cases p with
    | end_ r => exact ih'
    | build => exact ih'
    | start r =>
      refine ⟨fun hr => ?_, ih'⟩
      subst hr
      rcases hsl.1 with h1 | h1
      · exact absurd rfl h1
      · subst h1
        obtain ⟨bs, rest', hXe, hseq⟩ := hdoc (List.mem_cons_self ..)
        exact ⟨tok :: bs, rest', by simp [prodOps, hXe], hseq⟩

/-- the facts about the tables used for the tree form -/
structure DocFacts (D : List Dialect) (T : Table) : Prop where
  dialects : textDialectFacts D = true
  content : contentEntry T = true
  contentRows : ((contentStates T).all fun s => (T.row? s).any isContentRow) = true
  docOpens : docStringOpens T = true
  body : docBodyFacts T = true
  startLast : docStartFacts T = true

theorem trace_docOps {D : List Dialect} {T : Table} (F : DocFacts D T)
    {s : Nat} {μ : MState} {ls : List Str} {sf : Nat} {steps : List (Branch × Token)}
    (h : Trace D T s μ ls sf steps) (hμ : MuOK D μ)
    (hinv : μ.inDocString = (contentStates T).contains s) : docOps (stepsOps steps) := by
  have hDS := F.docOpens
  simp only [docStringOpens, Bool.and_eq_true, List.all_eq_true, Bool.or_eq_true, Bool.not_eq_true',
    beq_iff_eq] at hDS
  obtain ⟨-, hDS⟩ := hDS
  have hSL := F.startLast
  simp only [docStartFacts, List.all_eq_true] at hSL
  have hCE := F.content
  simp only [contentEntry, List.all_eq_true] at hCE
  induction h with
  | @eof s μ row b t0 hrow hpick ht0 hres =>
    obtain ⟨hid, hmem⟩ := row_id_of_row? hrow
    obtain ⟨hbm, hpass, -⟩ := pick_mem hpick
    simp only [stepsOps, List.flatMap_cons, List.flatMap_nil]
    refine docOps_prodOps _ _ _ (hSL row hmem b hbm) trivial fun hm => ?_
    exfalso
    rcases (hDS row hmem b hbm).2 with hds | hds
    · rw [List.contains_iff_mem.2 hm] at hds; cases hds
    · rw [passes_EOF, hds.1] at hpass; cases hpass
  | @line s μ l ls row b t0 sf rest hrow hpick ht0 hres htail ih =>
    obtain ⟨hid, hmem⟩ := row_id_of_row? hrow
    obtain ⟨hbm, hpass, -⟩ := pick_mem hpick
    have hμ' := muAfter_ok D μ hμ l b.kind
    have hinv' := inv_next F.dialects F.content hrow hbm hμ hpass hinv
    simp only [stepsOps, List.flatMap_cons]
    refine docOps_prodOps _ _ _ (hSL row hmem b hbm) (ih hμ' hinv') fun hm => ?_
    rcases (hDS row hmem b hbm).2 with hds | hds
    · rw [List.contains_iff_mem.2 hm] at hds; cases hds
    · obtain ⟨hk, hnc⟩ := hds
      rw [hid] at hnc
      have hin : μ.inDocString = false := by rw [hinv]; exact hnc
      have hnone := sepOK_notInDoc hμ.2 hin
      have hres' : (matchLine D .DocStringSeparator μ t0 l).res = .matched := by
        have := hres; rw [matchTok_line ht0, hk] at this; exact this
      have htok : (matchTok D b.kind μ t0).1.tok = (matchLine D .DocStringSeparator μ t0 l).tok := by
        rw [matchTok_line ht0, hk]
      obtain ⟨sep, hsepc, hst, hμo, htext, hkw, hmt⟩ := docsep_open D μ t0 l (.inl hnone) hres'
      have hmu : muAfter D μ l b.kind = { μ with activeSep := some sep, indentToRemove := lineIndent l } := by
        rw [hk, ← hμo]
        exact ((matchLine_indep D .DocStringSeparator μ t0 (probe l) l).1).symm
      have hne : sep ≠ [] := by rcases hsepc with rfl | rfl <;> decide
      -- the target is a content state
      have hct : (contentStates T).contains b.target = true := by
        have hce := hCE row hmem b hbm
        rw [hid, hnc] at hce
        simp only [Bool.false_eq_true, if_false, hk, beq_self_eq_true, beq_iff_eq] at hce
        exact hce.symm
      obtain ⟨xs, c, ys, rest', hops, hxs, hc, hys⟩ :=
        trace_body F.dialects F.contentRows F.body htail hμ' hct sep (by rw [hmu]) hne
      rw [hmu] at hxs
      obtain ⟨-, hwm⟩ := matchTok_well_matched D _ _ _ hres
      refine ⟨xs ++ c :: ys, rest', hops, _, xs, c, ys, sep, l, rfl, ?_, hxs, hc, hys⟩
      refine ⟨?_, hsepc, hst, ?_, ?_, ?_, hwm⟩
      · rw [(matchTok_tok D b.kind μ t0).1]; exact ht0
      · rw [htok]; exact hmt
      · rw [htok]; exact hkw
      · rw [htok]; exact htext

end Lemmas
end GV
