/-
  Lemmas/LayoutDoc7Indent.lean — property C16, a doc string moving as one block: the matcher.

  The per-test lemma of Lemmas/LayoutDoc4Indent.lean (`matchTok_ind2`) generalised to two matcher
  states that differ in `indentToRemove` by `d`, the shift of the open doc string (`shiftMu d`):
    * every test but `Other` and `DocStringSeparator` does not look at `indentToRemove`;
    * `DocStringSeparator` does not look at it either and overwrites it on a match: an opening
      delimiter on a line moved by `n` makes the difference `n`, a closing one `0` (`nextShift`);
    * `Other` on a line moved by exactly `d` yields the same text (`lineText_indent`) — column 1 in
      both runs; on a line moved by another amount it is the escape (`BadPair7`).
-/
import GherkinVerif.Lemmas.LayoutDoc4IndentSim
import GherkinVerif.Lemmas.LayoutDoc7Builder
import GherkinVerif.Spec.LayoutChecks5
namespace GV
namespace Layout7
open Lemmas Spec Layout3 Layout4

/-- the matcher state with `indentToRemove` grown by `d` -/
def shiftMu (d : Nat) (μ : MState) : MState := { μ with indentToRemove := μ.indentToRemove + d }

theorem shiftMu_zero (μ : MState) : shiftMu 0 μ = μ := by cases μ; rfl

theorem shiftMu_of_muShift {d : Nat} {ν ν' : MState} (h : MuShift d ν ν') : ν' = shiftMu d ν := by
  obtain ⟨h1, h2, h3, h4, h5⟩ := h
  cases ν; cases ν'
  simp only at h1 h2 h3 h4 h5
  subst h1 h2 h3 h4 h5
  rfl

theorem indentableB_eq (K : Kind) : Spec.indentableB K = indentable K := by cases K <;> rfl

/-- the tests other than `Other` and `DocStringSeparator` do not look at the recorded indentation -/
theorem matchLine_shiftMu (D : List Dialect) (K : Kind) (μ : MState) (t : Token) (l : Str) (d : Nat)
    (h1 : K ≠ .Other) (h2 : K ≠ .DocStringSeparator) :
    matchLine D K (shiftMu d μ) t l =
      ⟨(matchLine D K μ t l).tok, shiftMu d (matchLine D K μ t l).μ, (matchLine D K μ t l).res⟩ := by
  cases K <;> first | exact absurd rfl h1 | exact absurd rfl h2 | skip
  all_goals simp only [matchLine, shiftMu, matchTitle, setMatched]
  all_goals (repeat' split) <;> simp_all

theorem matchTok_shiftMu (D : List Dialect) (K : Kind) (μ : MState) (t : Token) (d : Nat)
    (h1 : K ≠ .Other) (h2 : K ≠ .DocStringSeparator) :
    matchTok D K (shiftMu d μ) t =
      (⟨(matchTok D K μ t).1.tok, shiftMu d (matchTok D K μ t).1.μ, (matchTok D K μ t).1.res⟩, (matchTok D K μ t).2) := by
  unfold matchTok
  split
  · split <;> rfl
  · simp only []
    rw [matchLine_shiftMu D K μ t _ d h1 h2]

/-- `DocStringSeparator` does not look at the recorded indentation, and overwrites it on a match -/
theorem matchLine_docsep_shiftMu (D : List Dialect) (μ : MState) (t : Token) (l : Str) (d : Nat) :
    (matchLine D .DocStringSeparator (shiftMu d μ) t l).tok = (matchLine D .DocStringSeparator μ t l).tok ∧
    (matchLine D .DocStringSeparator (shiftMu d μ) t l).res = (matchLine D .DocStringSeparator μ t l).res ∧
    (isMatched (matchLine D .DocStringSeparator μ t l).res = true →
      (matchLine D .DocStringSeparator (shiftMu d μ) t l).μ = (matchLine D .DocStringSeparator μ t l).μ) ∧
    (isMatched (matchLine D .DocStringSeparator μ t l).res = false →
      (matchLine D .DocStringSeparator (shiftMu d μ) t l).μ = shiftMu d (matchLine D .DocStringSeparator μ t l).μ) := by
  simp only [matchLine, shiftMu, matchDocSep, setMatched]
  repeat' split
  all_goals simp_all [isMatched, Option.orElse]

/-- a content line moved by exactly the shift of its doc string: the same text -/
theorem other_blk_text (D : List Dialect) (μ : MState) (t1 t2 : Token) (s ws : Str) (hws : AllSpace ws) :
    (matchLine D .Other (shiftMu ws.length μ) t2 (ws ++ s)).tok.text = (matchLine D .Other μ t1 s).tok.text := by
  simp only [matchLine, shiftMu, setMatched, lineText_indent hws]

/-! ### the outcome of one test under shifted matcher states -/

/-- tokens the builder may be handed: as in `Layout3.BuildOK`, or two `Other` tokens with the same text -/
def BuildOK7 (w : Nat → Nat) (t1 t2 : Token) : Prop :=
  BuildOK w t1 t2 ∨ (t1.mtype = some .Other ∧ t2.mtype = some .Other ∧ t2.text = t1.text)

/-- both tokens have been matched as the same kind, and the first is on a line that may not be
    moved the way it is while the shift of the open doc string is `d` -/
def BadPair7 (w : Nat → Nat) (d : Nat) (t1 t2 : Token) : Prop :=
  ∃ K, t1.mtype = some K ∧ t2.mtype = some K ∧ blockTokOk w d t1 = false ∧
    (K = .Comment → t1.text.isSome = true ∧ t2.text.isSome = true)

/-- the second outcome is the renamed first one; the matcher states differ by the shift of the open
    doc string, before (`d`) and after -/
structure GoodOut7 (w : Nat → Nat) (d : Nat) (K : Kind) (o1 o2 : MOut) : Prop where
  res : o2.res = mapRes (indentMap w) o1.res
  μ : o2.μ = shiftMu (if isMatched o1.res = true then nextShift w d o1.tok else d) o1.μ
  tok : isMatched o1.res = false → TokInd w o1.tok o2.tok
  build : isMatched o1.res = true → BuildOK7 w o1.tok o2.tok
  tokS : isMatched o1.res = true → K ∈ Spec.structural → TokInd w o1.tok o2.tok
  mtype : isMatched o1.res = true → o1.tok.mtype = some K

def BadOut7 (w : Nat → Nat) (d : Nat) (K : Kind) (o1 o2 : MOut) : Prop :=
  o1.res = .matched ∧ o2.res = .matched ∧ BadPair7 w d o1.tok o2.tok ∧ indentable K = false ∧
  (K ≠ .Language → o2.μ = shiftMu d o1.μ)

theorem nextShift_of_ne {w : Nat → Nat} {d : Nat} {t : Token} {K : Kind} (h : t.mtype = some K)
    (hK : K ≠ .DocStringSeparator) : nextShift w d t = d := by
  unfold nextShift
  rw [h]
  cases K <;> first | rfl | exact absurd rfl hK

theorem res_matched_of {r : MRes} (h : isMatched r = true) : r = .matched := by
  cases r <;> first | rfl | cases h

/-- **One test, two matcher states that differ by the shift of the open doc string.** -/
theorem matchTok_blk (w : Nat → Nat) (D : List Dialect) (K : Kind) (μ : MState) (d : Nat) {t1 t2 : Token}
    (ht : TokInd w t1 t2) :
    (matchTok D K μ t1).2 = (matchTok D K (shiftMu d μ) t2).2 ∧
    (GoodOut7 w d K (matchTok D K μ t1).1 (matchTok D K (shiftMu d μ) t2).1 ∨
      BadOut7 w d K (matchTok D K μ t1).1 (matchTok D K (shiftMu d μ) t2).1) := by
  by_cases hO : K = .Other
  · -- `Other`
    subst hO
    -- a line `s` and the line `ws ++ s` (`ws` possibly empty)
    have key : ∀ s ws, t1.line = some s → t2.line = some (ws ++ s) → AllSpace ws → t2.lineNo = t1.lineNo →
        ws.length = w (t1.lineNo - 1) →
        (matchTok D .Other μ t1).2 = (matchTok D .Other (shiftMu d μ) t2).2 ∧
        (GoodOut7 w d .Other (matchTok D .Other μ t1).1 (matchTok D .Other (shiftMu d μ) t2).1 ∨
          BadOut7 w d .Other (matchTok D .Other μ t1).1 (matchTok D .Other (shiftMu d μ) t2).1) := by
      intro s ws hs1 hs2 hws hno hlen
      have e1 : matchTok D .Other μ t1 = (matchLine D .Other μ t1 s, true) := by unfold matchTok; rw [hs1]
      have e2 : matchTok D .Other (shiftMu d μ) t2 = (matchLine D .Other (shiftMu d μ) t2 (ws ++ s), true) := by
        unfold matchTok; rw [hs2]
      rw [e1, e2]
      refine ⟨rfl, ?_⟩
      by_cases hd : ws.length = d
      · subst hd
        refine .inl ⟨rfl, ?_, fun h => (by cases h), fun _ => .inr ⟨rfl, rfl, other_blk_text D μ t1 t2 s ws hws⟩,
          fun _ h => absurd h (by decide), fun _ => rfl⟩
        show shiftMu ws.length μ = shiftMu (nextShift w ws.length (matchLine D .Other μ t1 s).tok) μ
        rw [nextShift_of_ne (K := .Other) rfl (by decide)]
      · refine .inr ⟨rfl, rfl, ⟨.Other, rfl, rfl, ?_, fun h => (by cases h)⟩, rfl, fun _ => rfl⟩
        show (w (t1.lineNo - 1) == d) = false
        rw [← hlen]
        simpa using hd
    rcases ht with ⟨rfl, h0⟩ | ⟨s, ws, hs1, hs2, hws, hne, hlen, hno, hfld⟩
    · rcases h0 with ⟨h0, hl⟩ | ⟨hl, hc⟩
      · cases hline : t2.line with
        | none => exact absurd hline hl
        | some s => exact key s [] hline (by simpa using hline) (fun _ h => by cases h) rfl (by simpa using h0.symm)
      · have e1 : matchTok D .Other μ t2 = (⟨t2, μ, .no⟩, false) := by unfold matchTok; rw [hl]; rfl
        have e2 : matchTok D .Other (shiftMu d μ) t2 = (⟨t2, shiftMu d μ, .no⟩, false) := by
          unfold matchTok; rw [hl]; rfl
        rw [e1, e2]
        exact ⟨rfl, .inl ⟨rfl, rfl, fun _ => .inl ⟨rfl, .inr ⟨hl, hc⟩⟩, fun h => (by cases h), fun h => (by cases h),
          fun h => (by cases h)⟩⟩
    · exact key s ws hs1 hs2 hws hno hlen
  · by_cases hS : K = .DocStringSeparator
    · -- `DocStringSeparator`
      subst hS
      rcases ht with ⟨rfl, h0⟩ | ⟨s, ws, hs1, hs2, hws, hne, hlen, hno, hfld⟩
      · rcases h0 with ⟨h0, hl⟩ | ⟨hl, hc⟩
        · -- a line that is not moved
          cases hline : t2.line with
          | none => exact absurd hline hl
          | some l =>
            have e1 : matchTok D .DocStringSeparator μ t2 = (matchLine D .DocStringSeparator μ t2 l, true) := by
              unfold matchTok; rw [hline]
            have e2 : matchTok D .DocStringSeparator (shiftMu d μ) t2 =
                (matchLine D .DocStringSeparator (shiftMu d μ) t2 l, true) := by unfold matchTok; rw [hline]
            obtain ⟨S1, S2, S3, S4⟩ := matchLine_docsep_shiftMu D μ t2 l d
            obtain ⟨-, hgb⟩ := matchTok_ind2 w D .DocStringSeparator μ (t1 := t2) (t2 := t2) (.inl ⟨rfl, .inl ⟨h0, hl⟩⟩)
            rcases hgb with hg | ⟨m1, -, ⟨K', k1, -, -, hpos, -⟩, -, -⟩
            · have hmt : isMatched (matchTok D .DocStringSeparator μ t2).1.res = true →
                  (matchTok D .DocStringSeparator μ t2).1.tok.mtype = some .DocStringSeparator :=
                fun h => matchTok_matched_mtype D _ μ t2 (res_matched_of h)
              have hln := matchTok_lineNo' (D := D) .DocStringSeparator μ t2
              rw [e1] at hg hmt hln
              rw [e1, e2]
              simp only [] at hg hmt hln ⊢
              refine ⟨trivial, .inl ⟨by rw [S2]; exact hg.res, ?_, fun h => by rw [S1]; exact hg.tok h,
                fun h => by rw [S1]; exact .inl (hg.build h), fun h hK => by rw [S1]; exact hg.tokS h hK, hmt⟩⟩
              cases hm : isMatched (matchLine D .DocStringSeparator μ t2 l).res with
              | true =>
                rw [S3 hm]
                simp only [↓reduceIte]
                have : nextShift w d (matchLine D .DocStringSeparator μ t2 l).tok = 0 := by
                  unfold nextShift
                  rw [hmt hm, hln, h0]
                  simp
                rw [this, shiftMu_zero]
              | false =>
                rw [S4 hm]
                simp
            · exfalso
              rw [matchTok_lineNo'] at hpos
              omega
        · -- end of file
          have e1 : matchTok D .DocStringSeparator μ t2 = (⟨t2, μ, .no⟩, false) := by unfold matchTok; rw [hl]; rfl
          have e2 : matchTok D .DocStringSeparator (shiftMu d μ) t2 = (⟨t2, shiftMu d μ, .no⟩, false) := by
            unfold matchTok; rw [hl]; rfl
          rw [e1, e2]
          exact ⟨rfl, .inl ⟨rfl, rfl, fun _ => .inl ⟨rfl, .inr ⟨hl, hc⟩⟩, fun h => (by cases h), fun h => (by cases h),
            fun h => (by cases h)⟩⟩
      · -- a delimiter line moved right
        have ht : TokInd w t1 t2 := .inr ⟨s, ws, hs1, hs2, hws, hne, hlen, hno, hfld⟩
        have e1 : matchTok D .DocStringSeparator μ t1 = (matchLine D .DocStringSeparator μ t1 s, true) := by
          unfold matchTok; rw [hs1]
        have e2' : matchTok D .DocStringSeparator μ t2 = (matchLine D .DocStringSeparator μ t2 (ws ++ s), true) := by
          unfold matchTok; rw [hs2]
        have e2 : matchTok D .DocStringSeparator (shiftMu d μ) t2 =
            (matchLine D .DocStringSeparator (shiftMu d μ) t2 (ws ++ s), true) := by unfold matchTok; rw [hs2]
        obtain ⟨S1, S2, S3, S4⟩ := matchLine_docsep_shiftMu D μ t2 (ws ++ s) d
        obtain ⟨R1, R2, R3, -⟩ := shift_struct D (K := .DocStringSeparator) (by decide) μ hs1 hs2 hno hws
        have hln1 : (matchLine D .DocStringSeparator μ t1 s).tok.lineNo = t1.lineNo := by
          have := matchTok_lineNo' (D := D) .DocStringSeparator μ t1; rw [e1] at this; exact this
        have hln2 : (matchLine D .DocStringSeparator μ t2 (ws ++ s)).tok.lineNo = t1.lineNo := by
          have := matchTok_lineNo' (D := D) .DocStringSeparator μ t2; rw [e2'] at this; rw [this, hno]
        have hres : shiftRes ws.length (matchLine D .DocStringSeparator μ t1 s).res =
            mapRes (indentMap w) (matchLine D .DocStringSeparator μ t1 s).res := by
          have := mapRes_of_shift (w := w) (D := D) (K := .DocStringSeparator) (μ := μ) (t := t1) hlen
          rw [e1] at this; exact this
        rw [e1, e2]
        refine ⟨rfl, .inl ?_⟩
        simp only []
        cases hm : isMatched (matchLine D .DocStringSeparator μ t1 s).res with
        | true =>
          have m1 := res_matched_of hm
          have hm2 : isMatched (matchLine D .DocStringSeparator μ t2 (ws ++ s)).res = true := by
            rw [R1, m1]; rfl
          have hfr := matchLine_fresh D _ μ t1 s m1
          refine ⟨by rw [S2, R1, hres], ?_, fun h => (by rw [hm] at h; cases h), fun _ => ?_, fun _ _ => ?_,
            fun _ => hfr.1⟩
          · rw [S3 hm2, hm]
            simp only [↓reduceIte]
            have htext := docsep_text D μ t1 s m1
            have : nextShift w d (matchLine D .DocStringSeparator μ t1 s).tok =
                if (matchLine D .DocStringSeparator μ t1 s).μ.activeSep.isSome = true then ws.length else 0 := by
              unfold nextShift
              rw [hfr.1, htext, hln1, hlen]
            rw [this]
            simp only [hm, true_and] at R2
            exact shiftMu_of_muShift R2
          · rw [S1]
            exact .inl (.inl (tokMap_of_shift (R3 hm) (by rw [hln1]; exact hlen) hfr.2.1
              (matchLine_matched_col0 D _ μ t1 s m1)))
          · rw [S1]
            have hl1 : (matchLine D .DocStringSeparator μ t1 s).tok.line = some s := by rw [matchLine_line', hs1]
            have hl2 : (matchLine D .DocStringSeparator μ t2 (ws ++ s)).tok.line = some (ws ++ s) := by
              rw [matchLine_line', hs2]
            exact .inr ⟨s, ws, hl1, hl2, hws, hne, by rw [hln1]; exact hlen, by rw [hln1, hln2],
              .inr ⟨R3 hm, hfr.2.2.2⟩⟩
        | false =>
          have hm2 : isMatched (matchLine D .DocStringSeparator μ t2 (ws ++ s)).res = false := by
            rw [R1, isMatched_shiftRes]; exact hm
          refine ⟨by rw [S2, R1, hres], ?_, fun _ => ?_, fun h => (by rw [hm] at h; cases h),
            fun h => (by rw [hm] at h; cases h), fun h => (by rw [hm] at h; cases h)⟩
          · rw [S4 hm2]
            simp only [hm, Bool.false_eq_true, false_and, and_false, ↓reduceIte] at R2 ⊢
            rw [muShift_zero_eq R2]
          · rw [S1]
            rcases matchLine_unmatched_tok D .DocStringSeparator μ t1 s hm with h1 | ⟨h1, -⟩
            · rcases matchLine_unmatched_tok D .DocStringSeparator μ t2 _ hm2 with h2 | ⟨h2, -⟩
              · rw [h1, h2]; exact ht
              · cases h2
            · cases h1
    · -- the tests that do not look at the recorded indentation
      obtain ⟨hf, hgb⟩ := matchTok_ind2 w D K μ ht
      rw [matchTok_shiftMu D K μ t2 d hO hS]
      refine ⟨hf, ?_⟩
      rcases hgb with hg | ⟨m1, m2, ⟨K', k1, k2, hok, hpos, htxt⟩, hi, hμ⟩
      · have hmt : isMatched (matchTok D K μ t1).1.res = true → (matchTok D K μ t1).1.tok.mtype = some K :=
          fun h => matchTok_matched_mtype D K μ t1 (res_matched_of h)
        refine .inl ⟨hg.res, ?_, hg.tok, fun h => .inl (hg.build h), hg.tokS, hmt⟩
        show shiftMu d (matchTok D K μ t2).1.μ = _
        rw [hg.μ]
        split
        · rename_i h; rw [nextShift_of_ne (hmt h) hS]
        · rfl
      · have hKK : K' = K := by
          have := matchTok_matched_mtype D K μ t1 m1
          rw [k1] at this
          exact Option.some.inj this
        subst hKK
        refine .inr ⟨m1, m2, ⟨K', k1, k2, ?_, htxt⟩, hi, fun hL => ?_⟩
        · unfold indentOkTok at hok
          rw [k1] at hok
          unfold blockTokOk
          rw [k1]
          have hw0 : (w ((matchTok D K' μ t1).1.tok.lineNo - 1) == 0) = false := by
            simp only [beq_eq_false_iff_ne, ne_eq]; omega
          cases K' <;> first | exact absurd rfl hO | exact absurd rfl hS | (simp_all [indentableB, indentable])
        · show shiftMu d (matchTok D K' μ t2).1.μ = _
          rw [hμ ⟨hS, hL⟩]

end Layout7
end GV
