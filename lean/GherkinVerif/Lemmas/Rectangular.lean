/-
  Lemmas/Rectangular.lean — every document the parser returns is rectangular.

  The builder (Model/Builder.lean) makes `Row` lists in one place only: `getTableRows`, which
  returns them only when `raggedRow rows = none` (otherwise it raises the ragged-table
  `AstBuilderException`).  So every `.rows rs` / `.dataTable d` value ever stored in a builder
  node holds rows of equal cell counts, and every value built from such parts (`examples`,
  `step`, `background`, `scenario`, `rule`, `feature`, `doc`, and the raw nodes that
  `transform_node` returns unchanged) is rectangular throughout: `RectVal`.

  `RectVal` of all values in all nodes of the builder stack (`StackRect`) is an invariant of
  `start_rule` / `end_rule` / `build`, hence — the other glue operations do not touch the
  builder — of the whole parse loop (the `Prims` kit of Lemmas/GlueBase.lean), for every
  transition table, dialect table, error mode, matcher state, id counter and source text.
  The document returned by an accepted parse is the `.doc d` value of the root node: `DocRect d`.
-/
import GherkinVerif.Lemmas.GlueBase
import GherkinVerif.Lemmas.GlueBuilder
import GherkinVerif.Lemmas.Cells
import GherkinVerif.Lemmas.Compile
namespace GV
namespace Lemmas
namespace Rect

/-! ### rectangular documents -/

/-- all rows have the cell count of the first row -/
def RowsEq (rows : List Row) : Prop :=
  ∀ r ∈ rows, ∀ r0, rows.head? = some r0 → r.cells.length = r0.cells.length

/-- a data table whose rows all have the same cell count -/
def TableRect (t : DataTable) : Prop := RowsEq t.rows

def ArgRect : StepArg → Prop
  | .table t => TableRect t
  | _ => True

def StepRect (s : Step) : Prop := ArgRect s.arg

/-- an examples block whose body rows have exactly the header's cell count -/
def ExRect (e : Examples) : Prop :=
  ∀ h, e.header = some h → ∀ r ∈ e.body, r.cells.length = h.cells.length

def BgRect (b : Background) : Prop := ∀ s ∈ b.steps, StepRect s

def ScRect (s : Scenario) : Prop := (∀ st ∈ s.steps, StepRect st) ∧ ∀ e ∈ s.examples, ExRect e

def RuleChildRect : RuleChild → Prop
  | .background b => BgRect b
  | .scenario s => ScRect s

def RuleRect (r : Rule) : Prop := ∀ c ∈ r.children, RuleChildRect c

def FeatureChildRect : FeatureChild → Prop
  | .background b => BgRect b
  | .scenario s => ScRect s
  | .rule r => RuleRect r

def FeatureRect (f : Feature) : Prop := ∀ c ∈ f.children, FeatureChildRect c

/-- the strong form: every data table (of every step of every background and scenario, at
    feature level and inside rules) has rows of equal cell counts, and every examples block's
    body rows have exactly the header's cell count -/
def DocRect (d : Doc) : Prop := ∀ f, d.feature = some f → FeatureRect f

/-! ### rectangular builder values -/

inductive RectVal : Val → Prop
  | tok (t : Token) : RectVal (.tok t)
  | none : RectVal .none
  | step {s : Step} : StepRect s → RectVal (.step s)
  | docString (d : DocString) : RectVal (.docString d)
  | dataTable {d : DataTable} : TableRect d → RectVal (.dataTable d)
  | background {b : Background} : BgRect b → RectVal (.background b)
  | scenario {s : Scenario} : ScRect s → RectVal (.scenario s)
  | examples {e : Examples} : ExRect e → RectVal (.examples e)
  | rows {rs : List Row} : RowsEq rs → RectVal (.rows rs)
  | descr (s : Str) : RectVal (.descr s)
  | rule {r : Rule} : RuleRect r → RectVal (.rule r)
  | feature {f : Feature} : FeatureRect f → RectVal (.feature f)
  | doc {d : Doc} : DocRect d → RectVal (.doc d)
  | raw (rt : RuleType) (items : List (Key × Val)) : (∀ kv ∈ items, RectVal kv.2) → RectVal (.raw rt items)

def ItemsRect (items : List (Key × Val)) : Prop := ∀ kv ∈ items, RectVal kv.2

theorem getItems_rect {items : List (Key × Val)} (h : ItemsRect items) (k : Key) :
    ∀ v ∈ getItems items k, RectVal v := by
  intro v hv
  unfold getItems at hv
  obtain ⟨kv, hkv, rfl⟩ := List.mem_map.1 hv
  exact h kv (List.mem_filter.1 hkv).1

theorem getSingle_rect {items : List (Key × Val)} (h : ItemsRect items) (k : Key) :
    RectVal (getSingle items k) := by
  unfold getSingle
  split
  · rename_i v vs hv
    exact getItems_rect h k v (by rw [hv]; exact List.mem_cons_self ..)
  · exact RectVal.none

theorem getSteps_rect {items : List (Key × Val)} (h : ItemsRect items) : ∀ s ∈ getSteps items, StepRect s := by
  intro s hs
  unfold getSteps at hs
  obtain ⟨v, hv, hvs⟩ := List.mem_filterMap.1 hs
  have hr := getItems_rect h _ v hv
  cases hr <;> simp at hvs
  subst hvs
  assumption

theorem getScenarios_rect {items : List (Key × Val)} (h : ItemsRect items) :
    ∀ s ∈ getScenarios items, ScRect s := by
  intro s hs
  unfold getScenarios at hs
  obtain ⟨v, hv, hvs⟩ := List.mem_filterMap.1 hs
  have hr := getItems_rect h _ v hv
  cases hr <;> simp at hvs
  subst hvs
  assumption

theorem getBackground_rect {items : List (Key × Val)} (h : ItemsRect items) :
    ∀ b, getBackground items = some b → BgRect b := by
  intro b hb
  unfold getBackground at hb
  have hr := getSingle_rect h (.rule .Background)
  generalize getSingle items (.rule .Background) = v at hr hb
  cases hr <;> simp at hb
  subst hb
  assumption

/-! ### `get_table_rows` returns equal-length rows -/

theorem getTableRows_rect (items : List (Key × Val)) :
    BSpec (getTableRows items) RowsEq (fun _ => True) := by
  unfold GV.getTableRows
  refine BSpec.bind (Q' := fun _ => True) ?_ fun rows _ => ?_
  · refine BSpec.mapM'_noast _ _ fun t => ?_
    exact BSpec.bind (Q' := fun _ => True) BSpec.nextId fun _ _ => BSpec.pure _ trivial
  · split
    · exact BSpec.throw_ast _ trivial
    · rename_i hr
      exact BSpec.pure _ ((raggedRow_none_iff rows).1 hr)

/-! ### `transform_node` builds rectangular values from rectangular parts -/

macro "rhead" : tactic => `(tactic| first
  | exact BSpec.nextId | exact BSpec.needToken _ _ | exact BSpec.need _ _ | exact BSpec.getDescription _
  | exact BSpec.getTags _ | exact BSpec.mapM'_noast _ _ fun _ => BSpec.need _ _)

/-- walk through the binds whose results carry no information -/
macro "rbinds" : tactic => `(tactic| repeat (first
  | exact BSpec.crash _
  | refine BSpec.bind (Q' := fun _ => True) (by rhead) fun _ _ => ?_))

theorem transformNode_rect (cm : List Comment) (node : Node) (h : ItemsRect node.items) :
    BSpec (transformNode cm node) RectVal (fun _ => True) := by
  unfold transformNode
  dsimp only
  split
  case h_1 =>  -- Step
    rbinds
    refine BSpec.pure _ (RectVal.step ?_)
    unfold StepRect
    dsimp only
    have h1 := getSingle_rect h (.rule .DataTable)
    generalize getSingle node.items (.rule .DataTable) = v at h1
    cases h1
    case dataTable d hd => exact hd
    all_goals (dsimp only; split <;> exact trivial)
  case h_2 =>  -- DocString
    split
    · exact BSpec.crash _
    · rbinds
      exact BSpec.pure _ (RectVal.docString _)
  case h_3 =>  -- DataTable
    refine BSpec.bind (getTableRows_rect _) fun rows hrows => ?_
    split
    · exact BSpec.crash _
    · exact BSpec.pure _ (RectVal.dataTable hrows)
  case h_4 =>  -- Background
    rbinds
    exact BSpec.pure _ (RectVal.background (getSteps_rect h))
  case h_5 =>  -- ScenarioDefinition
    rbinds
    split
    · rename_i rt sc heq
      have hsc : ItemsRect sc := by
        have := getSingle_rect h (.rule .Scenario)
        rw [heq] at this
        cases this
        assumption
      rbinds
      refine BSpec.pure _ (RectVal.scenario ⟨getSteps_rect hsc, ?_⟩)
      intro e he
      dsimp only at he
      obtain ⟨v, hv, hve⟩ := List.mem_filterMap.1 he
      have hr := getItems_rect hsc _ v hv
      cases hr <;> simp at hve
      subst hve
      assumption
    · exact BSpec.crash _
  case h_6 =>  -- ExamplesDefinition
    rbinds
    split
    · rename_i rt ex heq
      have hex : ItemsRect ex := by
        have := getSingle_rect h (.rule .Examples)
        rw [heq] at this
        cases this
        assumption
      rbinds
      refine BSpec.pure _ (RectVal.examples ?_)
      have h1 := getSingle_rect hex (.rule .ExamplesTable)
      generalize getSingle ex (.rule .ExamplesTable) = v at h1
      intro hd hhd r hr
      dsimp only at hhd hr
      cases h1
      case rows rs hrs =>
        dsimp only at hhd hr
        exact hrs r (List.mem_of_mem_drop hr) hd hhd
      all_goals (dsimp only at hhd; cases hhd)
    · exact BSpec.crash _
  case h_7 =>  -- ExamplesTable
    refine BSpec.bind (getTableRows_rect _) fun rows hrows => ?_
    exact BSpec.pure _ (RectVal.rows hrows)
  case h_8 =>  -- Description
    rbinds
    exact BSpec.pure _ (RectVal.descr _)
  case h_9 =>  -- Rule
    split
    · rbinds
      split
      · rbinds
        refine BSpec.pure _ (RectVal.rule ?_)
        intro c hc
        dsimp only at hc
        rcases List.mem_append.1 hc with hc | hc
        · split at hc
          · rename_i b hb
            simp only [List.mem_singleton] at hc
            subst hc
            exact getBackground_rect h b hb
          · cases hc
        · obtain ⟨s, hs, rfl⟩ := List.mem_map.1 hc
          exact getScenarios_rect h s hs
      · exact BSpec.pure _ RectVal.none
    · exact BSpec.pure _ RectVal.none
  case h_10 =>  -- Feature
    split
    · rbinds
      split
      · rbinds
        refine BSpec.pure _ (RectVal.feature ?_)
        intro c hc
        dsimp only at hc
        rcases List.mem_append.1 hc with hc | hc
        · rcases List.mem_append.1 hc with hc | hc
          · split at hc
            · rename_i b hb
              simp only [List.mem_singleton] at hc
              subst hc
              exact getBackground_rect h b hb
            · cases hc
          · obtain ⟨s, hs, rfl⟩ := List.mem_map.1 hc
            exact getScenarios_rect h s hs
        · obtain ⟨r, hr, rfl⟩ := List.mem_map.1 hc
          obtain ⟨v, hv, hvr⟩ := List.mem_filterMap.1 hr
          have hrv := getItems_rect h _ v hv
          cases hrv <;> simp at hvr
          subst hvr
          assumption
      · exact BSpec.pure _ RectVal.none
    · exact BSpec.pure _ RectVal.none
  case h_11 =>  -- GherkinDocument
    refine BSpec.pure _ (RectVal.doc ?_)
    intro f hf
    dsimp only at hf
    have h1 := getSingle_rect h (.rule .Feature)
    generalize getSingle node.items (.rule .Feature) = v at h1 hf
    cases h1 <;> simp at hf
    subst hf
    assumption
  case h_12 =>  -- the rule types returned unchanged
    exact BSpec.pure _ (RectVal.raw _ _ h)

/-! ### the builder stack -/

/-- every value held by every node of the stack is rectangular -/
def StackRect (st : List Node) : Prop := ∀ node ∈ st, ItemsRect node.items

theorem StackRect.reset : StackRect BState.reset.stack := by
  intro node hn kv hkv
  simp only [BState.reset, List.mem_singleton] at hn
  subst hn
  cases hkv

theorem StackRect.addToTop {st st' : List Node} {k : Key} {v : Val}
    (h : StackRect st) (hv : RectVal v) (ha : addToTop st k v = some st') : StackRect st' := by
  unfold GV.addToTop at ha
  split at ha
  · rename_i top rest
    cases ha
    intro node hn kv hm
    rcases List.mem_cons.1 hn with rfl | hn
    · dsimp only at hm
      rcases List.mem_append.1 hm with hm | hm
      · exact h top (List.mem_cons_self ..) kv hm
      · simp only [List.mem_singleton] at hm
        subst hm
        exact hv
    · exact h node (List.mem_cons_of_mem _ hn) kv hm
  · cases ha

theorem StackRect.startRule {β : BState} (h : StackRect β.stack) (r : RuleType) :
    StackRect (β.startRule r).stack := by
  intro node hn kv hm
  unfold BState.startRule at hn
  rcases List.mem_cons.1 hn with rfl | hn
  · cases hm
  · exact h node hn kv hm

theorem StackRect.build {β β' : BState} {t : Token} (h : StackRect β.stack)
    (hb : β.build t = .ok β') : StackRect β'.stack := by
  unfold BState.build at hb
  split at hb
  · split at hb
    · cases hb; exact h
    · cases hb
  · split at hb
    · rename_i st hst
      cases hb
      exact h.addToTop (RectVal.tok t) hst
    · cases hb
  · cases hb

theorem StackRect.endRule {β : BState} (h : StackRect β.stack) (n : Nat) :
    StackRect (β.endRule n).2.1.stack := by
  unfold BState.endRule
  split
  · exact h
  · rename_i node rest hst
    have hrest : StackRect rest := fun nd hn => h nd (by rw [hst]; exact List.mem_cons_of_mem _ hn)
    have hnode : ItemsRect node.items := h node (by rw [hst]; exact List.mem_cons_self ..)
    have hspec := transformNode_rect β.comments node hnode n
    rcases hr : (transformNode β.comments node).run.run n with ⟨r, n'⟩
    have hspec := hspec r n' hr
    dsimp only
    cases r with
    | error e => exact hrest
    | ok v =>
      dsimp only
      split
      · rename_i st hadd
        exact hrest.addToTop hspec hadd
      · exact hrest

theorem result_rect {β : BState} (h : StackRect β.stack) (d : Doc) (hd : β.result = .ok (some d)) :
    DocRect d := by
  unfold BState.result at hd
  split at hd
  · rename_i top rest hst
    have h1 := getSingle_rect (h top (by rw [hst]; exact List.mem_cons_self ..)) (.rule .GherkinDocument)
    generalize getSingle top.items (.rule .GherkinDocument) = v at h1 hd
    cases h1 <;> simp at hd
    subst hd
    assumption
  · cases hd

/-! ### the invariant through the parse loop -/

/-- the loop invariant: the builder stack holds rectangular values only -/
def P (c : Ctx) : Prop := StackRect c.β.stack

/-- aborts are unconstrained -/
def E (_ : Abort) (_ : Ctx) : Prop := True

theorem inv_of_beta {α} {m : PM α} (h : ∀ c r c', run m c = (r, c') → c'.β = c.β) : Inv P E m := by
  refine Triple.intro fun c r c' hc hr => ?_
  have hb := h c r c' hr
  cases r
  · trivial
  · unfold P; rw [hb]; exact hc

theorem addError_beta (cap : Nat) (e : PErr) (c : Ctx) (r : Except Abort Unit) (c' : Ctx)
    (h : run (addError cap e) c = (r, c')) : c'.β = c.β := by
  obtain ⟨es, rfl⟩ := addError_foot cap e c r c' h
  rfl

theorem runProd_rect (cap : Nat) (stop : Bool) (t : Token) (p : Prod) : Inv P E (runProd cap stop t p) := by
  refine Triple.intro fun c r c' hc hr => ?_
  have key : StackRect c'.β.stack := by
    rw [run_runProd] at hr
    split at hr
    · cases hr
      exact StackRect.startRule hc _
    · obtain ⟨es, rfl⟩ := liftB_foot _ _ _ _ _ _ hr
      exact StackRect.endRule hc _
    · split at hr
      · rename_i β' hb
        cases hr
        exact StackRect.build hc hb
      · obtain ⟨es, rfl⟩ := liftB_foot _ _ _ _ _ _ hr
        exact hc
  cases r
  · trivial
  · exact key

theorem tail_rect (D : List Dialect) (T : Table) (stop : Bool) (row : StateRow) (t : Token) :
    Inv P E (tryBranches D T stop row [] t) := by
  unfold GV.tryBranches
  refine Inv.bind (Triple.modify _ fun c hc => hc) fun _ => ?_
  split
  · exact Triple.throw _ fun _ _ => trivial
  · exact Inv.bind (inv_of_beta (addError_beta _ _)) fun _ => Inv.pure _

theorem prims (D : List Dialect) (T : Table) (stop : Bool) : Prims D T stop P E :=
  { readToken := inv_of_beta fun c r c' h => by
      obtain ⟨_, _, _, _, _, _, rfl⟩ := readToken_foot c r c' h; rfl
    matchP := fun k t => inv_of_beta fun c r c' h => by
      obtain ⟨_, _, _, rfl⟩ := matchP_foot D T.errorCap stop k t c r c' h; rfl
    modQ := fun _ _ h => h
    fuel := fun _ _ => trivial
    runProd := fun t p => runProd_rect T.errorCap stop t p
    modR := fun _ _ h => h
    crash := fun _ _ _ => trivial
    tail := fun row t => tail_rect D T stop row t }

/-- the document `parseBody` returns is rectangular -/
theorem parseBody_rect (D : List Dialect) (T : Table) (stop : Bool) (n : Nat) :
    Triple P (parseBody D T stop n) (fun d _ => DocRect d) E := by
  have h := prims D T stop
  unfold GV.parseBody
  refine Triple.bind (Q := fun _ => P) (Triple.modify _ fun c hc => StackRect.startRule hc _) fun _ => ?_
  refine Triple.bind (h.parseLoop _ _) fun _ => ?_
  refine Triple.bind (h.runProd _ _) fun _ => ?_
  refine Triple.bind Triple.get fun c0 => ?_
  dsimp only
  split
  · exact Triple.bind (Q := fun _ _ => False) (Triple.throw _ fun _ _ => trivial) fun _ _ hf => hf.elim
  · split
    · rename_i d hd
      exact Triple.pure _ fun c hc => by obtain ⟨rfl, hc⟩ := hc; exact result_rect hc d hd
    · exact Triple.throw _ fun _ _ => trivial
    · exact Triple.throw _ fun _ _ => trivial
    · exact Triple.throw _ fun _ _ => trivial

/-- **Every accepted parse returns a rectangular document** — for every transition table,
    dialect table, error mode, matcher state, id counter and source text. -/
theorem parsed_docRect (D : List Dialect) (T : Table) (stop : Bool) (μ : MState) (ids : Nat) (src : Str)
    (d : Doc) (h : (parseWith D T stop μ ids src).1 = .ok d) : DocRect d := by
  unfold parseWith at h
  dsimp only at h
  have hb := parseBody_rect D T stop (splitLines src).length
    { lines := splitLines src, μ := μ.reset D, β := BState.reset, ids := ids } StackRect.reset
  rcases hr : (parseBody D T stop (splitLines src).length).run.run
    { lines := splitLines src, μ := μ.reset D, β := BState.reset, ids := ids } with ⟨r, c'⟩
  rw [hr] at h
  cases r with
  | ok d' =>
    dsimp only at h
    cases h
    exact hb.1 d c' hr
  | error e => cases e <;> cases h

/-! ### the strong form implies the compiler's precondition -/

theorem ruleScenarios_rect (f : Feature) (i : Nat) (r : Rule) (hr : RuleRect r) :
    ∀ scs ∈ Spec.ruleScenarios f i r, ScRect scs.2 := by
  intro scs hs
  unfold Spec.ruleScenarios at hs
  obtain ⟨j, _, hj⟩ := List.mem_flatMap.1 hs
  split at hj
  · rename_i sc hc
    simp only [List.mem_singleton] at hj
    subst hj
    exact hr _ (List.mem_of_getElem? hc)
  · cases hj

theorem featureScenarios_rect (f : Feature) (hf : FeatureRect f) :
    ∀ scs ∈ Spec.featureScenarios f, ScRect scs.2 := by
  intro scs hs
  unfold Spec.featureScenarios at hs
  obtain ⟨i, _, hi⟩ := List.mem_flatMap.1 hs
  split at hi
  · rename_i sc hc
    simp only [List.mem_singleton] at hi
    subst hi
    exact hf _ (List.mem_of_getElem? hc)
  · rename_i r hc
    exact ruleScenarios_rect f i r (hf _ (List.mem_of_getElem? hc)) scs hi
  · cases hi

/-- examples blocks, flat: every examples block of every scenario of the document (in or
    outside rules) has body rows with exactly the header's cell count -/
theorem DocRect.examples_exact {d : Doc} (h : DocRect d) :
    ∀ f, d.feature = some f → ∀ scs ∈ Spec.featureScenarios f, ∀ ex ∈ scs.2.examples,
      ∀ hd, ex.header = some hd → ∀ row ∈ ex.body, row.cells.length = hd.cells.length := by
  intro f hf scs hs ex hex hd hhd row hrow
  exact (featureScenarios_rect f (h f hf) scs hs).2 ex hex hd hhd row hrow

/-- the steps of a rule child / feature child / document, backgrounds included -/
def ruleChildSteps : RuleChild → List Step
  | .background b => b.steps
  | .scenario s => s.steps

def featureChildSteps : FeatureChild → List Step
  | .background b => b.steps
  | .scenario s => s.steps
  | .rule r => r.children.flatMap ruleChildSteps

def docSteps (d : Doc) : List Step :=
  match d.feature with
  | none => []
  | some f => f.children.flatMap featureChildSteps

theorem RowsEq.all_equal {rows : List Row} (h : RowsEq rows) :
    ∀ r1 ∈ rows, ∀ r2 ∈ rows, r1.cells.length = r2.cells.length := by
  intro r1 h1 r2 h2
  cases rows with
  | nil => cases h1
  | cons r0 rest => rw [h r1 h1 r0 rfl, h r2 h2 r0 rfl]

theorem DocRect.steps {d : Doc} (h : DocRect d) : ∀ st ∈ docSteps d, StepRect st := by
  intro st hst
  unfold docSteps at hst
  split at hst
  · cases hst
  · rename_i f hf
    obtain ⟨c, hc, hsc⟩ := List.mem_flatMap.1 hst
    have hcr := h f hf c hc
    cases c with
    | background b => exact hcr st hsc
    | scenario s => exact hcr.1 st hsc
    | rule r =>
      obtain ⟨c', hc', hsc'⟩ := List.mem_flatMap.1 hsc
      have hcr' := hcr c' hc'
      cases c' with
      | background b => exact hcr' st hsc'
      | scenario s => exact hcr'.1 st hsc'

/-- data tables, flat: every data table of every step of the document (background and scenario
    steps, in or outside rules) has rows of equal cell counts -/
theorem DocRect.tables_equal {d : Doc} (h : DocRect d) :
    ∀ st ∈ docSteps d, ∀ t, st.arg = .table t →
      ∀ r1 ∈ t.rows, ∀ r2 ∈ t.rows, r1.cells.length = r2.cells.length := by
  intro st hst t ht
  have hsr := h.steps st hst
  unfold StepRect at hsr
  rw [ht] at hsr
  exact RowsEq.all_equal hsr

theorem DocRect.rectangular {d : Doc} (h : DocRect d) : Spec.rectangular d := by
  intro f hf scs hs ex hex hd hhd row hrow
  exact Nat.le_of_eq (h.examples_exact f hf scs hs ex hex hd hhd row hrow).symm

end Rect
end Lemmas
end GV
