/-
  Lemmas/LayoutDoc5.lean — property C16, goal G3, a comment line inserted in a state whose comment
  test OPENS THE DESCRIPTION (directly after a keyword line), for the case that the original run
  goes on into that description state with the next line (PARTIAL: see Props/C16Doc5.lean).

  The second run reads the comment in state `s` (`start Description; build`, new state `s'`), then
  the next line `L` in `s'`; the first run reads `L` in `s`.  The tests of `s'` mirror those of `s`
  (`Spec.rowsMatch`), and none of them touches the builder, so the two `match_token` calls are
  simulated in lock step although the second run's builder has one open node more; the first run
  is KNOWN to end in `s'`, hence to take a `Comment`/`Other` test, whose `start Description` makes
  the builder states related again (`BRel`), and the simulation of Lemmas/LayoutDoc4.lean goes on.
-/
import GherkinVerif.Lemmas.LayoutDoc4
import GherkinVerif.Spec.LayoutChecks3
namespace GV
namespace Layout5
open Lemmas Spec Layout3 Layout4

/-! ### computations that neither read nor write the builder state -/

def withB (c : Ctx) (β : BState) : Ctx := { c with β := β }

/-- the computation runs alike whatever the builder state, and hands it on -/
def BFrame {α} (m : PM α) : Prop := ∀ c β, run m (withB c β) = ((run m c).1, withB (run m c).2 β)

theorem BFrame.pure {α} (a : α) : BFrame (pure a : PM α) := fun _ _ => rfl
theorem BFrame.throw {α} (e : Abort) : BFrame (throw e : PM α) := fun _ _ => rfl

theorem BFrame.bind {α β} {m : PM α} {f : α → PM β} (h1 : BFrame m) (h2 : ∀ a, BFrame (f a)) : BFrame (m >>= f) := by
  intro c b
  rw [prun_bind, prun_bind, h1 c b]
  rcases run m c with ⟨r, c'⟩
  cases r with
  | error e => rfl
  | ok a => exact h2 a c' b

theorem bframe_addError (cap : Nat) (e : PErr) : BFrame (addError cap e) := by
  intro c b
  rw [run_addError, run_addError]
  have e1 : (withB c b).errors = c.errors := rfl
  rw [e1]
  by_cases h1 : (c.errors.any fun e' => e'.message == e.message) = true
  · rw [if_pos h1, if_pos h1]
  · rw [if_neg h1, if_neg h1]
    by_cases h2 : (c.errors ++ [e]).length > cap
    · rw [if_pos h2, if_pos h2]; rfl
    · rw [if_neg h2, if_neg h2]; rfl

theorem bframe_matchP (D : List Dialect) (cap : Nat) (stop : Bool) (K : Kind) (t : Token) :
    BFrame (matchP D cap stop K t) := by
  intro c b
  rw [run_matchP, run_matchP]
  simp only [withB]
  cases hr : (matchTok D K c.μ t).1.res with
  | matched => rfl
  | no => rfl
  | raised e =>
    simp only []
    cases stop with
    | true => rfl
    | false =>
      simp only [Bool.false_eq_true, ↓reduceIte]
      have key : ∀ (tk : Token) (cb c0 : Ctx), cb = withB c0 b →
          (match run (addError cap e) cb with
            | (.ok _, c2) => ((.ok (false, tk) : Except Abort (Bool × Token)), c2)
            | (.error e, c2) => (.error e, c2)) =
          ((match run (addError cap e) c0 with
            | (.ok _, c2) => ((.ok (false, tk) : Except Abort (Bool × Token)), c2)
            | (.error e, c2) => (.error e, c2)).1,
           withB (match run (addError cap e) c0 with
            | (.ok _, c2) => ((.ok (false, tk) : Except Abort (Bool × Token)), c2)
            | (.error e, c2) => (.error e, c2)).2 b) := by
        intro tk cb c0 hcb
        subst hcb
        rw [bframe_addError cap e c0 b]
        rcases run (addError cap e) c0 with ⟨r, c2⟩
        cases r <;> rfl
      exact key _ _ _ rfl

theorem bframe_matchAny (D : List Dialect) (cap : Nat) (stop : Bool) (ks : List Kind) (t : Token) :
    BFrame (matchAny D cap stop ks t) := by
  induction ks generalizing t with
  | nil => exact BFrame.pure _
  | cons k ks ih =>
    unfold matchAny
    refine BFrame.bind (bframe_matchP D cap stop k t) fun r => ?_
    obtain ⟨m, t'⟩ := r
    dsimp only
    split
    · exact BFrame.pure _
    · exact ih _

theorem bframe_peekLoop (D : List Dialect) (cap : Nat) (stop : Bool) (la : LookAhead) (ls : List Str) (n : Nat) :
    BFrame (peekLoop D cap stop la ls n) := by
  induction ls generalizing n with
  | nil =>
    unfold peekLoop
    refine BFrame.bind (bframe_matchAny _ _ _ _ _) fun r => ?_
    obtain ⟨m, t1⟩ := r
    dsimp only
    split
    · exact BFrame.pure _
    · exact BFrame.bind (bframe_matchAny _ _ _ _ _) fun _ => BFrame.pure _
  | cons l ls ih =>
    unfold peekLoop
    refine BFrame.bind (bframe_matchAny _ _ _ _ _) fun r => ?_
    obtain ⟨m, t1⟩ := r
    dsimp only
    split
    · exact BFrame.pure _
    · refine BFrame.bind (bframe_matchAny _ _ _ _ _) fun r => ?_
      obtain ⟨s, t2⟩ := r
      dsimp only
      split
      · exact ih _
      · exact BFrame.pure _

theorem bframe_lookaheadPure (D : List Dialect) (cap : Nat) (stop : Bool) (la : LookAhead) :
    BFrame (lookaheadPure D cap stop la) := by
  intro c b
  unfold lookaheadPure
  rw [prun_bind, prun_bind, run_get, run_get]
  exact bframe_peekLoop D cap stop la c.lines (c.lineNo + 1) c b

/-! ### transporting a simulation step to a second run with another builder state -/

section step
variable {D : List Dialect} {b : Str} {k : Nat} {xo : Option Comment}

theorem frame_sim {α} {R : α → α → Prop} {m1 m2 : PM α} (hf : BFrame m2) {c1 c2h : Ctx} (β' : BState)
    (h : PostC D k xo R c1 c2h (run m1 c1) (run m2 c2h)) :
    (∃ a1 a2 c1' c2h', run m1 c1 = (.ok a1, c1') ∧ run m2 (withB c2h β') = (.ok a2, withB c2h' β') ∧
      run m2 c2h = (.ok a2, c2h') ∧ R a1 a2 ∧ CtxR D k xo c1' c2h' ∧ Frame c1 c1' ∧ Frame c2h c2h') ∨
    (∃ e c1' c2h', run m1 c1 = (.error e, c1') ∧
      run m2 (withB c2h β') = (.error (mapAbort (insertMap k) e), withB c2h' β') ∧ CtxR D k xo c1' c2h') := by
  rcases h with ⟨a1, a2, c1', c2', e1, e2, hr, hc, f1, f2⟩ | ⟨e, c1', c2', e1, e2, hc⟩
  · exact .inl ⟨a1, a2, c1', c2', e1, by rw [hf c2h β', e2], e2, hr, hc, f1, f2⟩
  · exact .inr ⟨e, c1', c2', e1, by rw [hf c2h β', e2], hc⟩

/-- a failed `Empty` test leaves token and matcher alone -/
theorem matchP_empty (cap : Nat) (stop : Bool) (t : Token) (c : Ctx) :
    (∃ t', run (matchP D cap stop .Empty t) c = (.ok (true, t'), { c with calls := c.calls + 1 })) ∨
    (∃ j, run (matchP D cap stop .Empty t) c = (.ok (false, t), { c with calls := c.calls + j })) := by
  rw [run_matchP]
  unfold matchTok
  cases hl : t.line with
  | none => exact .inr ⟨0, rfl⟩
  | some l =>
    simp only [matchLine]
    by_cases he : lineIsEmpty l = true
    · rw [if_pos he]; exact .inl ⟨_, rfl⟩
    · rw [if_neg he]; exact .inr ⟨1, rfl⟩

theorem ctxR_calls1 {c1 c2 : Ctx} (h : CtxR D k xo c1 c2) (j : Nat) : CtxR D k xo { c1 with calls := j } c2 :=
  ⟨h.errors, h.μ, h.β, h.ids, h.unexpected, h.sane⟩

/-- the productions `start Description; build` of the first run against `build` of the second,
    whose builder has the `Description` node already -/
theorem take_desc (cap : Nat) (stop : Bool) {t1 t2 : Token} (ht : TokMap (insertMap k) t1 t2)
    (hln : LineOk k xo t1.lineNo) (tg : Nat) {c1 c2h : Ctx} (hc : CtxR D k xo c1 c2h)
    (hl : LinesIns b k c1.lines c1.lineNo c2h.lines c2h.lineNo) :
    PostC D k xo Eq c1 c2h
      (run (do runProds cap stop t1 [.start .Description, .build]; Pure.pure tg : PM Nat) c1)
      (run (do runProds cap stop t2 [.build]; Pure.pure tg : PM Nat) (withB c2h (c2h.β.startRule .Description))) := by
  simp only [runProds, prun_bind]
  rw [run_runProd]
  simp only []
  have hc' : CtxR D k xo { c1 with β := c1.β.startRule .Description } (withB c2h (c2h.β.startRule .Description)) :=
    ⟨hc.errors, hc.μ, hc.β.startRule (by decide), hc.ids, hc.unexpected, hc.sane⟩
  rcases csim_runProd (D := D) (b := b) cap stop .build (fun _ => ⟨ht, hln⟩)
      { c1 with β := c1.β.startRule .Description } (withB c2h (c2h.β.startRule .Description)) hc' hl rfl with
    ⟨_, _, d1, d2, r1, r2, -, hd, f1, f2⟩ | ⟨e, d1, d2, r1, r2, hd⟩
  · rw [r1, r2]
    simp only [prun_pure]
    exact .inl ⟨tg, tg, d1, d2, rfl, rfl, rfl, hd, ⟨f1.1, f1.2⟩, ⟨f2.1, f2.2⟩⟩
  · rw [r1, r2]
    exact .inr ⟨e, d1, d2, rfl, rfl, hd⟩

theorem bind_pure_target {m : PM Unit} {tg s' : Nat} {d c' : Ctx}
    (h : run (do m; Pure.pure tg : PM Nat) d = (.ok s', c')) : tg = s' := by
  rw [prun_bind] at h
  rcases hx : run m d with ⟨x, cx⟩
  rw [hx] at h
  cases x with
  | error e => cases h
  | ok u =>
    simp only [prun_pure, Prod.mk.injEq, Except.ok.injEq] at h
    exact h.1

theorem beq_kind {a b : Kind} (h : (a == b) = true) : a = b := by simpa using h

/-- `match_token` for the same line in a state `s` whose comment test opens the description (first
    run) and in its description state `s'` (second run, with the `Description` node open): if the
    first run ends in `s'`, so does the second, in related contexts -/
theorem desc_step2 (hD : Spec.stepKeywordsOk D = true) (hP : Spec.keywordsPlainStart D = true) {T : Table}
    (hL : ∀ (i : Nat) (la : LookAhead), T.lookaheads[i]? = some la → LaOkC la) {r : Str}
    (hb : trimmed b = 35 :: r) (stop : Bool) (row1 row2 : StateRow) (s' : Nat) (herr : row1.errTarget ≠ s') :
    ∀ (bs1 bs2 : List Branch), rowsMatch s' bs1 bs2 = true → ∀ {t1 t2 : Token}, TokIns k t1 t2 →
      LineOk k xo t1.lineNo → ∀ (c1 c2h c1' : Ctx), CtxR D k xo c1 c2h →
      LinesIns b k c1.lines c1.lineNo c2h.lines c2h.lineNo →
      run (tryBranchesPure D T stop row1 bs1 t1) c1 = (.ok s', c1') →
      ∃ c2', run (tryBranchesPure D T stop row2 bs2 t2) (withB c2h (c2h.β.startRule .Description)) = (.ok s', c2') ∧
        CtxR D k xo c1' c2' ∧ Frame c1 c1' ∧ Frame c2h c2' := by
  intro bs1
  induction bs1 with
  | nil =>
    intro bs2 _ t1 t2 _ _ c1 c2h c1' _ _ hrun
    exfalso
    rcases depth_tryBranchesPure D T stop row1 [] t1 c1 s' c1' hrun with ⟨br, hbr, -⟩ | ⟨h, -⟩
    · cases hbr
    · exact herr h.symm
  | cons b1 r1 ih =>
    intro bs2 hm t1 t2 ht hln c1 c2h c1' hc hl hrun
    unfold rowsMatch at hm
    by_cases hE : (b1.kind == .Empty) = true
    · -- the `Empty` test of the first run: it fails (or the run would not end in `s'`)
      rw [if_pos hE] at hm
      simp only [Bool.and_eq_true, Option.isNone_iff_eq_none, bne_iff_ne, ne_eq] at hm
      obtain ⟨⟨hg, htg⟩, hrec⟩ := hm
      have hk : b1.kind = .Empty := beq_kind hE
      unfold tryBranchesPure at hrun
      rw [prun_bind, hk] at hrun
      rcases matchP_empty (D := D) T.errorCap stop t1 c1 with ⟨t', hmp⟩ | ⟨j, hmp⟩
      · exfalso
        rw [hmp] at hrun
        simp only [↓reduceIte, hg] at hrun
        rw [prun_bind, prun_pure] at hrun
        simp only [↓reduceIte] at hrun
        exact htg (bind_pure_target hrun)
      · rw [hmp] at hrun
        simp only [Bool.false_eq_true, ↓reduceIte] at hrun
        obtain ⟨c2', h1, h2, h3, h4⟩ := ih bs2 hrec ht hln { c1 with calls := c1.calls + j } c2h c1' (ctxR_calls1 hc _) hl hrun
        exact ⟨c2', h1, h2, ⟨h3.1, h3.2⟩, h4⟩
    · rw [if_neg hE] at hm
      cases bs2 with
      | nil => cases hm
      | cons b2 r2 =>
        simp only [Bool.and_eq_true, beq_iff_eq] at hm
        obtain ⟨⟨⟨hk, hg⟩, hkind⟩, hrec⟩ := hm
        unfold tryBranchesPure at hrun ⊢
        rw [prun_bind] at hrun
        rw [prun_bind, ← hk]
        rcases frame_sim (bframe_matchP D T.errorCap stop b1.kind t2) (c2h.β.startRule .Description)
            (csim_matchP T.errorCap stop b1.kind ht c1 c2h hc hl) with
          ⟨⟨m1, t1'⟩, ⟨m2, t2'⟩, c1a, c2a, e1, e2, e2h, ⟨hmm, ht', hcol⟩, hca, f1, f2⟩ | ⟨e, c1a, c2a, e1, e2, hca⟩
        · simp only at hmm ht' hcol
          subst hmm
          rw [e1] at hrun
          rw [e2]
          simp only [] at hrun ⊢
          have hβ2 : c2a.β = c2h.β := run_beta (keepsB_matchP D T.errorCap stop b1.kind t2) e2h
          have hln' : LineOk k xo t1'.lineNo := by
            rw [show t1'.lineNo = t1.lineNo from matchP_lineNo _ _ _ _ _ _ _ e1]; exact hln
          have hla : LinesIns b k c1a.lines c1a.lineNo c2a.lines c2a.lineNo := by
            rw [f1.1, f1.2, f2.1, f2.2]; exact hl
          rw [← hβ2]
          -- the branch is taken: it is a `Comment`/`Other` branch, since the run ends in `s'`
          have take : ∀ (d1 d2 : Ctx), CtxR D k xo d1 d2 → LinesIns b k d1.lines d1.lineNo d2.lines d2.lineNo →
              m1 = true →
              run (do runProds T.errorCap stop t1' b1.prods; Pure.pure b1.target : PM Nat) d1 = (.ok s', c1') →
              ∃ c2', run (do runProds T.errorCap stop t2' b2.prods; Pure.pure b2.target : PM Nat)
                  (withB d2 (d2.β.startRule .Description)) = (.ok s', c2') ∧
                CtxR D k xo c1' c2' ∧ Frame d1 c1' ∧ Frame d2 c2' := by
            intro d1 d2 hdc hdl hm1 hr1
            have htgt : b1.target = s' := bind_pure_target hr1
            by_cases hCO : (b1.kind == .Comment || b1.kind == .Other) = true
            · rw [if_pos hCO] at hkind
              simp only [Bool.and_eq_true, beq_iff_eq, Option.isNone_iff_eq_none] at hkind
              obtain ⟨⟨⟨⟨-, hp1⟩, hp2⟩, ht1⟩, ht2⟩ := hkind
              rw [hp1, ht1] at hr1
              rw [hp2, ht2]
              rcases take_desc (D := D) (b := b) T.errorCap stop (ht'.tokMap (hcol hm1)) hln' s' hdc hdl with
                ⟨_, a2, x1, x2, q1, q2, ha, hx, g1, g2⟩ | ⟨e, x1, x2, q1, q2, hx⟩
              · rw [q1] at hr1
                simp only [Prod.mk.injEq, Except.ok.injEq] at hr1
                obtain ⟨ha1, hx1⟩ := hr1
                subst hx1
                rw [← ha, ha1] at q2
                exact ⟨x2, q2, hx, g1, ⟨g2.1, g2.2⟩⟩
              · rw [q1] at hr1; cases hr1
            · exfalso
              rw [if_neg hCO] at hkind
              simp only [bne_iff_ne, ne_eq] at hkind
              exact hkind htgt
          cases m1 with
          | false =>
            simp only [Bool.false_eq_true, ↓reduceIte] at hrun ⊢
            obtain ⟨c2', h1, h2, h3, h4⟩ := ih r2 hrec ht' hln' c1a c2a c1' hca hla hrun
            exact ⟨c2', h1, h2, f1.trans h3, f2.trans h4⟩
          | true =>
            simp only [↓reduceIte] at hrun ⊢
            rw [← hg]
            cases hgd : b1.guard with
            | none =>
              rw [hgd] at hrun
              simp only [] at hrun ⊢
              rw [prun_bind, prun_pure] at hrun
              rw [prun_bind, prun_pure]
              simp only [↓reduceIte] at hrun ⊢
              obtain ⟨c2', h1, h2, h3, h4⟩ := take c1a c2a hca hla rfl hrun
              exact ⟨c2', h1, h2, f1.trans h3, f2.trans h4⟩
            | some i =>
              rw [hgd] at hrun
              simp only [] at hrun ⊢
              cases hlk : T.lookaheads[i]? with
              | none =>
                rw [hlk] at hrun
                simp only [] at hrun
                rw [prun_bind, prun_throw] at hrun
                cases hrun
              | some la =>
                rw [hlk] at hrun
                simp only [] at hrun ⊢
                rw [prun_bind] at hrun
                rw [prun_bind]
                rcases frame_sim (bframe_lookaheadPure D T.errorCap stop la) (c2a.β.startRule .Description)
                    (csim_lookaheadPure hD hP T.errorCap stop (hL i la hlk) hb c1a c2a hca hla) with
                  ⟨o1, o2, c1b, c2b, q1, q2, q2h, ho, hcb, g1, g2⟩ | ⟨e, c1b, c2b, q1, q2, hcb⟩
                · subst ho
                  rw [q1] at hrun
                  rw [q2]
                  simp only [] at hrun ⊢
                  have hβ3 : c2b.β = c2a.β := run_beta (keepsB_lookaheadPure D T.errorCap stop la) q2h
                  have hlb : LinesIns b k c1b.lines c1b.lineNo c2b.lines c2b.lineNo := by
                    rw [g1.1, g1.2, g2.1, g2.2]; exact hla
                  rw [← hβ3]
                  cases o1 with
                  | true =>
                    simp only [↓reduceIte] at hrun ⊢
                    obtain ⟨c2', h1, h2, h3, h4⟩ := take c1b c2b hcb hlb rfl hrun
                    exact ⟨c2', h1, h2, (f1.trans g1).trans h3, (f2.trans g2).trans h4⟩
                  | false =>
                    simp only [Bool.false_eq_true, ↓reduceIte] at hrun ⊢
                    obtain ⟨c2', h1, h2, h3, h4⟩ := ih r2 hrec ht' hln' c1b c2b c1' hcb hlb hrun
                    exact ⟨c2', h1, h2, (f1.trans g1).trans h3, (f2.trans g2).trans h4⟩
                · rw [q1] at hrun; cases hrun
        · rw [e1] at hrun; cases hrun

/-! ### the second run reads the comment in a state whose comment test opens the description -/

/-- `tryBranchesPure_comment` for a comment test with arbitrary productions -/
theorem tryBranchesPure_comment_gen (T : Table) (stop : Bool) (row : StateRow) (μ : MState)
    {t : Token} {l r : Str} (hl : t.line = some l) (hb : trimmed l = 35 :: r) (hkw : KwOk μ) (hsep : SepOk μ) :
    ∀ (bs : List Branch) (b0 : Branch), bs.find? (fun br => passes .Comment br.kind) = some b0 →
      b0.kind = .Comment → b0.guard = none →
      ((∃ br ∈ bs, br.kind = .Language) → languageRe (lineText l none) = none) → ∀ c : Ctx, c.μ = μ →
      ∃ n, run (tryBranchesPure D T stop row bs t) c =
        run (do runProds T.errorCap stop (commentTok μ t l) b0.prods; Pure.pure b0.target : PM Nat)
          { c with calls := c.calls + (n + 1) } := by
  intro bs
  induction bs with
  | nil => intro b0 hf; cases hf
  | cons br bs ih =>
    intro b0 hf hk hg hlang c hμ
    simp only [List.find?] at hf
    cases he : passes .Comment br.kind with
    | true =>
      rw [he] at hf
      cases hf
      have hs : lineStartsWith l [35] = true := by unfold lineStartsWith; rw [hb]; rfl
      have e : matchTok D br.kind c.μ t = (⟨commentTok μ t l, μ, .matched⟩, true) := by
        unfold matchTok; rw [hl, hk, hμ]; simp only [matchLine, hs, ↓reduceIte]; rfl
      refine ⟨0, ?_⟩
      conv => lhs; unfold tryBranchesPure
      rw [prun_bind, run_matchP]
      simp only [e, hg, ↓reduceIte, prun_bind, prun_pure]
      have ec : ({ c with μ := μ, calls := c.calls + 1 } : Ctx) = { c with calls := c.calls + (0 + 1) } := by
        rw [← hμ]
      rw [ec]
    | false =>
      rw [he] at hf
      have hne : br.kind ≠ .Comment ∧ br.kind ≠ .Other := by
        rw [passes_comment] at he
        simp only [Bool.or_eq_false_iff, beq_eq_false_iff_ne, ne_eq] at he
        exact he
      have e : matchTok D br.kind c.μ t = (⟨t, μ, .no⟩, true) := by
        unfold matchTok; rw [hl, hμ]; simp only []
        by_cases hL : br.kind = .Language
        · rw [hL]
          have := hlang ⟨br, List.mem_cons_self, hL⟩
          simp only [matchLine, this]
        · rw [matchLine_hash_no D br.kind μ t hb ⟨hne.1, hne.2, hL⟩ hkw.1 hkw.2 hsep]
      obtain ⟨n, hn⟩ := ih b0 hf hk hg
        (fun ⟨b', hb', hk'⟩ => hlang ⟨b', List.mem_cons_of_mem _ hb', hk'⟩) { c with calls := c.calls + 1 } hμ
      refine ⟨n + 1, ?_⟩
      conv => lhs; unfold tryBranchesPure
      rw [prun_bind, run_matchP]
      simp only [e, ↓reduceIte, Bool.false_eq_true]
      have ec : ({ c with μ := μ, calls := c.calls + 1 } : Ctx) = { c with calls := c.calls + 1 } := by
        rw [← hμ]
      rw [ec, hn]
      have ec2 : ({ c with calls := c.calls + 1 + (n + 1) } : Ctx) = { c with calls := c.calls + (n + 1 + 1) } := by
        have : c.calls + 1 + (n + 1) = c.calls + (n + 1 + 1) := by omega
        rw [this]
      show run _ { c with calls := c.calls + 1 + (n + 1) } = _
      rw [ec2]

/-- phase B for a state whose comment test opens the description: the second run reads the comment
    and then the next line `L` in the description state; the first run reads `L` and — by
    hypothesis — ends in the description state too -/
theorem desc_step (hD : Spec.stepKeywordsOk D = true) (hP : Spec.keywordsPlainStart D = true) {T : Table}
    (hL : ∀ (i : Nat) (la : LookAhead), T.lookaheads[i]? = some la → LaOkC la) {r : Str}
    (hb : trimmed b = 35 :: r) (stop : Bool) {s : Nat} (hs : Spec.commentOpensDescription T s = true)
    (hlang : Spec.languageTested T s = true → languageRe (lineText b none) = none) (fuel : Nat)
    {c1 c2 : Ctx} (hc : CtxR D k none c1 c2) {L : Str} {q : List Str} (h1 : c1.lines = L :: q)
    (h2 : c2.lines = b :: L :: q) (hn : c2.lineNo = c1.lineNo) (hk : c1.lineNo = k) {c1s : Ctx}
    (hnext : run (matchTokenPure D T stop s { line := some L, lineNo := c1.lineNo + 1 })
      { c1 with lines := q, lineNo := c1.lineNo + 1, reads := c1.reads ++ [c1.lineNo + 1] } =
        (.ok (Spec.descTarget T s), c1s)) :
    ∃ c2s, run (parseLinesPure D T stop (fuel + 1 + 1) s) c2 = run (parseLinesPure D T stop fuel (Spec.descTarget T s)) c2s ∧
      run (parseLinesPure D T stop (fuel + 1) s) c1 = run (parseLinesPure D T stop fuel (Spec.descTarget T s)) c1s ∧
      CtxR D k (some ⟨⟨k + 1, some 1⟩, rstripCRLF b⟩) c1s c2s ∧ c2s.lines = c1s.lines ∧
      c2s.lineNo = c1s.lineNo + 1 ∧ k ≤ c1s.lineNo := by
  -- the table facts
  unfold Spec.commentOpensDescription at hs
  unfold Spec.descTarget at hnext ⊢
  unfold Spec.languageTested at hlang
  cases hrow : T.row? s with
  | none => rw [hrow] at hs; cases hs
  | some row1 =>
    rw [hrow] at hs hlang hnext
    simp only [] at hs hlang hnext ⊢
    have hcb : commentBranch row1 = row1.branches.find? (fun br => passes .Comment br.kind) := rfl
    cases hfind : commentBranch row1 with
    | none => rw [hfind] at hs; cases hs
    | some b0 =>
      rw [hfind] at hs hnext
      simp only [Bool.and_eq_true, beq_iff_eq, Option.isNone_iff_eq_none] at hs hnext ⊢
      obtain ⟨⟨⟨hk0, hg0⟩, hp0⟩, hrest⟩ := hs
      cases hrow2 : T.row? b0.target with
      | none => rw [hrow2] at hrest; cases hrest
      | some row2 =>
        rw [hrow2] at hrest
        simp only [Bool.and_eq_true, bne_iff_ne, ne_eq] at hrest
        obtain ⟨⟨hrm, herr⟩, -⟩ := hrest
        -- the first run
        have r1 : run (parseLinesPure D T stop (fuel + 1) s) c1 = run (parseLinesPure D T stop fuel b0.target) c1s := by
          rw [run_lines_cons T stop fuel s c1 h1, hnext]
        -- the second run reads the comment
        have hsane : Sane D c2.μ := hc.μ ▸ hc.sane
        have hkw := kwOk_of hD hP hsane
        obtain ⟨n, hn1⟩ := tryBranchesPure_comment_gen (D := D) T stop row1 c2.μ
          (t := { line := some b, lineNo := c2.lineNo + 1 }) rfl hb hkw hsane.1 row1.branches b0
          (hcb ▸ hfind) hk0 hg0
          (fun ⟨br, hbr, hkL⟩ => hlang (by rw [List.any_eq_true]; exact ⟨br, hbr, by rw [hkL]; rfl⟩))
          { c2 with lines := L :: q, lineNo := c2.lineNo + 1, reads := c2.reads ++ [c2.lineNo + 1] } rfl
        obtain ⟨β2x, e2x, hβx⟩ := hc.β.build_extra
          (t := commentTok c2.μ { line := some b, lineNo := c2.lineNo + 1 } b) (tx := rstripCRLF b) rfl rfl
        have hbuild : (c2.β.startRule .Description).build (commentTok c2.μ { line := some b, lineNo := c2.lineNo + 1 } b) =
            .ok (β2x.startRule .Description) := by
          rw [layBuild_comment _ _ rfl] at e2x ⊢
          have ht : (commentTok c2.μ { line := some b, lineNo := c2.lineNo + 1 } b).text = some (rstripCRLF b) := rfl
          rw [ht] at e2x ⊢
          simp only [Except.ok.injEq] at e2x
          rw [← e2x]
          rfl
        have r2a : run (parseLinesPure D T stop (fuel + 1 + 1) s) c2 =
            run (parseLinesPure D T stop (fuel + 1) b0.target)
              { c2 with lines := L :: q, lineNo := c2.lineNo + 1, reads := c2.reads ++ [c2.lineNo + 1],
                        calls := c2.calls + (n + 1), β := β2x.startRule .Description,
                        builds := c2.builds ++ [commentTok c2.μ { line := some b, lineNo := c2.lineNo + 1 } b] } := by
          rw [run_lines_cons T stop (fuel + 1) s c2 h2]
          unfold matchTokenPure
          rw [hrow]
          simp only []
          rw [hn1, hp0]
          simp only [runProds, prun_bind, run_runProd, hbuild, prun_pure]
        -- then the next line, in the description state
        obtain ⟨c2s, e2s, hcs, f1s, f2s⟩ := desc_step2 hD hP hL hb stop row1 row2 b0.target herr row1.branches
          row2.branches hrm
          (t1 := { line := some L, lineNo := c1.lineNo + 1 }) (t2 := { line := some L, lineNo := c1.lineNo + 1 + 1 })
          (by unfold TokIns reNo; simp only [insertMap_ln_gt k (show k < c1.lineNo + 1 by omega)])
          (xo := some ⟨⟨k + 1, some 1⟩, rstripCRLF b⟩) (show k < c1.lineNo + 1 by omega)
          { c1 with lines := q, lineNo := c1.lineNo + 1, reads := c1.reads ++ [c1.lineNo + 1] }
          { c2 with lines := q, lineNo := c1.lineNo + 1 + 1,
                    reads := c2.reads ++ [c2.lineNo + 1] ++ [c1.lineNo + 1 + 1],
                    calls := c2.calls + (n + 1), β := β2x,
                    builds := c2.builds ++ [commentTok c2.μ { line := some b, lineNo := c2.lineNo + 1 } b] }
          c1s
          ⟨hc.errors, hc.μ, by rw [hn, hk] at hβx; exact hβx, hc.ids, hc.unexpected, hc.sane⟩
          (.inr ⟨rfl, by simp only; omega, rfl⟩)
          (by
            have := hnext
            unfold matchTokenPure at this
            rw [hrow] at this
            exact this)
        refine ⟨c2s, ?_, r1, hcs, ?_, ?_, ?_⟩
        · rw [r2a, run_lines_cons T stop fuel b0.target _ (l := L) (ls := q) rfl]
          unfold matchTokenPure
          rw [hrow2]
          simp only []
          have := e2s
          unfold withB at this
          simp only [] at this ⊢
          rw [hn] at this ⊢
          rw [this]
        · rw [f2s.1, f1s.1]
        · rw [f2s.2, f1s.2]
        · rw [f1s.2]; simp only; omega

/-! ### the whole parse -/

/-- the position at which the comment is inserted is good: the state `s` in which the original run
    stands there does not read the comment as a language header, and its comment test builds and
    stays, or opens the description and the original run goes on into that description state with
    the next line -/
def PosOk (D : List Dialect) (T : Table) (stop : Bool) (b : Str) (s : Nat) (c : Ctx) : Prop :=
  (Spec.languageTested T s = true → languageRe (lineText b none) = none) ∧
  (Spec.commentSelfLoop T s = true ∨
    (Spec.commentOpensDescription T s = true ∧ ∃ L q c',
      c.lines = L :: q ∧
      run (matchTokenPure D T stop s { line := some L, lineNo := c.lineNo + 1 })
        { c with lines := q, lineNo := c.lineNo + 1, reads := c.reads ++ [c.lineNo + 1] } =
          (.ok (Spec.descTarget T s), c')))

theorem csim_lines2 (hD : Spec.stepKeywordsOk D = true) (hP : Spec.keywordsPlainStart D = true) {T : Table}
    {ds : List (Nat × Nat)} (hT : TableOkC T ds) {r : Str} (hb : trimmed b = 35 :: r)
    (stop : Bool) (pre post : List Str) {c1 c2 : Ctx} (hc : CtxR D pre.length none c1 c2)
    (h1 : c1.lines = pre ++ post) (h2 : c2.lines = pre ++ b :: post) (hn1 : c1.lineNo = 0) (hn2 : c2.lineNo = 0)
    (hd : c1.β.stack.length = depthAt ds 0)
    (hst : ∀ s flag c, run (parsePrefixPure D T stop pre.length 0) c1 = (.ok (s, flag), c) → PosOk D T stop b s c) :
    PostLC D pre.length (some ⟨⟨pre.length + 1, some 1⟩, rstripCRLF b⟩) (fun _ _ _ => True)
      (run (parseLinesPure D T stop ((pre ++ post).length + 2) 0) c1)
      (run (parseLinesPure D T stop ((pre ++ b :: post).length + 2) 0) c2) := by
  have e1 : (pre ++ post).length + 2 = pre.length + (post.length + 2) := by simp; omega
  have e2 : (pre ++ b :: post).length + 2 = pre.length + (post.length + 2 + 1) := by simp; omega
  rw [e1, e2, parseLinesPure_split, parseLinesPure_split, prun_bind, prun_bind]
  rcases csim_prefix hD hP hT hb stop post pre 0 c1 c2 hc h1 h2 (by rw [hn1, hn2]) (by rw [hn1]; simp) hd with
    ⟨a, c1', c2', r1, r2, hc', hflag, hl1, hl2, hno1, hno2, hd'⟩ | ⟨e, c1', c2', r1, r2, xo', hc'⟩
  · obtain ⟨hlang, hpos⟩ := hst a.1 a.2 c1' r1
    rw [r1, r2]
    simp only [hflag, Bool.false_eq_true, if_false]
    rcases hpos with hs | ⟨hs, L, q, c1s, hL, hnext⟩
    · obtain ⟨c2'', hr, hc'', hl2', hno2'⟩ := comment_step hD hP hb stop hs hlang (post.length + 2) hc' hl2
      rw [hr, hno2] at *
      rcases csim_rest hD hP hT hb stop _ _ _ c1' c2'' hc'' (by rw [hl2', hl1]) (by rw [hno2', hno1])
          (by rw [hno1]; exact Nat.le_refl _) hd' with
        ⟨a', d1, d2, q1, q2, hq, -⟩ | ⟨e, d1, d2, q1, q2, hq⟩
      · rw [q1, q2]; exact .inl ⟨a', d1, d2, rfl, rfl, hq, trivial⟩
      · rw [q1, q2]; exact .inr ⟨e, d1, d2, rfl, rfl, hq⟩
    · -- the comment opens the description
      have hpost : post = L :: q := by rw [← hl1, hL]
      subst hpost
      have hds := depth_matchTokenPure D hT.depths stop a.1 _
        { c1' with lines := q, lineNo := c1'.lineNo + 1, reads := c1'.reads ++ [c1'.lineNo + 1] } _ c1s hd' hnext
      obtain ⟨c2s, q2, q1, hcs, hls, hns, hks⟩ := desc_step hD hP hT.la hb stop hs hlang (q.length + 1 + 1) hc' hL hl2
        (by rw [hno1, hno2]) hno1 hnext
      have ef1 : (L :: q).length + 2 = (q.length + 1 + 1) + 1 := by simp
      rw [ef1, q1, q2]
      rcases csim_rest hD hP hT hb stop _ _ _ c1s c2s hcs hls hns hks hds with
        ⟨a', d1, d2, p1, p2, hq, -⟩ | ⟨e, d1, d2, p1, p2, hq⟩
      · rw [p1, p2]; exact .inl ⟨a', d1, d2, rfl, rfl, hq, trivial⟩
      · rw [p1, p2]; exact .inr ⟨e, d1, d2, rfl, rfl, hq⟩
  · rw [r1, r2]
    exact .inr ⟨e, c1', c2', rfl, rfl, xo', hc'⟩

theorem csim_body2 (hD : Spec.stepKeywordsOk D = true) (hP : Spec.keywordsPlainStart D = true) {T : Table}
    {ds : List (Nat × Nat)} (hT : TableOkC T ds) {r : Str} (hb : trimmed b = 35 :: r)
    (stop : Bool) (pre post : List Str) {c1 c2 : Ctx}
    (hc : CtxR D pre.length none { c1 with β := c1.β.startRule T.startRule } { c2 with β := c2.β.startRule T.startRule })
    (h1 : c1.lines = pre ++ post) (h2 : c2.lines = pre ++ b :: post) (hn1 : c1.lineNo = 0) (hn2 : c2.lineNo = 0)
    (hd : (c1.β.startRule T.startRule).stack.length = depthAt ds 0)
    (hst : ∀ s flag c, run (parsePrefixPure D T stop pre.length 0) { c1 with β := c1.β.startRule T.startRule } =
      (.ok (s, flag), c) → PosOk D T stop b s c) :
    (∃ d c1' c2', run (parseBodyPure D T stop (pre ++ post).length) c1 = (.ok d, c1') ∧
      run (parseBodyPure D T stop (pre ++ b :: post).length) c2 =
        (.ok { feature := d.feature.map (mapFeature (insertMap pre.length)),
               comments := (d.comments.map (mapComment (insertMap pre.length))).takeWhile
                   (fun c => decide (c.loc.line ≤ pre.length)) ++
                 ⟨⟨pre.length + 1, some 1⟩, rstripCRLF b⟩ ::
                 (d.comments.map (mapComment (insertMap pre.length))).dropWhile
                   (fun c => decide (c.loc.line ≤ pre.length)) }, c2') ∧
      CtxObs (insertMap pre.length) c1' c2') ∨
    (∃ e c1' c2', run (parseBodyPure D T stop (pre ++ post).length) c1 = (.error e, c1') ∧
      run (parseBodyPure D T stop (pre ++ b :: post).length) c2 = (.error (mapAbort (insertMap pre.length) e), c2') ∧
      CtxObs (insertMap pre.length) c1' c2') := by
  unfold parseBodyPure
  rw [prun_bind, prun_bind, run_modify, run_modify]
  simp only []
  rw [prun_bind, prun_bind]
  rcases csim_lines2 hD hP hT hb stop pre post hc h1 h2 hn1 hn2 hd hst with
    ⟨a, c1', c2', r1, r2, hc', -⟩ | ⟨e, c1', c2', r1, r2, xo', hc'⟩
  · rw [r1, r2]
    simp only []
    rw [prun_bind, prun_bind, run_runProd, run_runProd]
    simp only []
    rw [hc'.ids]
    obtain ⟨q1, q2, -, hres⟩ := hc'.β.endRule_result c1'.ids
    rw [q1, q2]
    have ho : CtxObs (insertMap pre.length)
        { c1' with β := (c1'.β.endRule c1'.ids).2.1, ids := (c1'.β.endRule c1'.ids).2.2 }
        { c2' with β := (c2'.β.endRule c1'.ids).2.1, ids := (c1'.β.endRule c1'.ids).2.2 } :=
      ⟨hc'.errors, hc'.μ, rfl, hc'.unexpected⟩
    rcases liftB_obs T.errorCap stop (c1'.β.endRule c1'.ids).1 ho with
      ⟨d1, d2, p1, p2, hod, hb1, hb2⟩ | ⟨a', d1, d2, p1, p2, hod⟩
    · rw [p1, p2]
      simp only []
      rw [prun_bind, prun_bind, run_get, run_get]
      simp only []
      have hemp : d2.errors.isEmpty = d1.errors.isEmpty := by rw [hod.errors]; simp
      rw [hemp]
      by_cases he : (!d1.errors.isEmpty) = true
      · rw [if_pos he, if_pos he, prun_bind, prun_bind, prun_throw, prun_throw]
        refine .inr ⟨_, _, _, rfl, ?_, hod⟩
        simp only [mapAbort, hod.errors]
      · rw [if_neg he, if_neg he, hb1, hb2]
        simp only []
        rcases hres with ⟨z1, z2⟩ | ⟨x1, x2, z1, z2, hf, hcm⟩
        · rw [z1, z2]
          exact .inr ⟨_, _, _, rfl, rfl, hod⟩
        · rw [z1, z2]
          refine .inl ⟨x1, d1, d2, rfl, ?_, hod⟩
          have : x2 = Doc.mk (x1.feature.map (mapFeature (insertMap pre.length)))
              ((x1.comments.map (mapComment (insertMap pre.length))).takeWhile
                  (fun c => decide (c.loc.line ≤ pre.length)) ++
                ⟨⟨pre.length + 1, some 1⟩, rstripCRLF b⟩ ::
                (x1.comments.map (mapComment (insertMap pre.length))).dropWhile
                  (fun c => decide (c.loc.line ≤ pre.length))) := by
            cases x2 with
            | mk ft cm =>
              simp only at hf hcm
              rw [hf, commRel_insert hcm]
          rw [this]
          rfl
    · rw [p1, p2]
      exact .inr ⟨_, _, _, rfl, rfl, hod⟩
  · rw [r1, r2]
    exact .inr ⟨_, _, _, rfl, rfl, hc'.obs⟩


theorem parseWithPure_comment2 {D : List Dialect} (hD : Spec.stepKeywordsOk D = true)
    (hP : Spec.keywordsPlainStart D = true) {T : Table} {ds : List (Nat × Nat)} (hT : TableOkC T ds)
    {b : Str} (hb : lineStartsWith b [35] = true) (stop : Bool) (μ : MState) (ids : Nat) {src src' : Str}
    (pre post : List Str) (h1 : splitLines src = pre ++ post) (h2 : splitLines src' = pre ++ b :: post)
    (hμ : (μ.reset D).dialect ∈ D)
    (hst : ∀ s c, Spec.runAfter D T stop μ ids src pre.length = some (s, c) →
      PosOk D T stop b s c) :
    (parseWithPure D T stop μ ids src').1 =
      insertComment pre.length ⟨⟨pre.length + 1, some 1⟩, rstripCRLF b⟩
        (mapOutcome (insertMap pre.length) (parseWithPure D T stop μ ids src).1) ∧
    CtxObs (insertMap pre.length) (parseWithPure D T stop μ ids src).2 (parseWithPure D T stop μ ids src').2 := by
  obtain ⟨r, hr⟩ := (startsWith_iff _ _).1 (show startsWith [35] (trimmed b) = true from hb)
  have hbr : trimmed b = 35 :: r := hr
  unfold parseWithPure
  simp only []
  rw [h1, h2]
  have h0 : depthAt ds 0 = 2 := by
    have := hT.depths
    unfold Spec.depthsOk at this
    simp only [Bool.and_eq_true, beq_iff_eq] at this
    exact this.1
  have hc0 : CtxR D pre.length none
      { ({ lines := pre ++ post, μ := μ.reset D, β := BState.reset, ids := ids } : Ctx) with
        β := BState.reset.startRule T.startRule }
      { ({ lines := pre ++ b :: post, μ := μ.reset D, β := BState.reset, ids := ids } : Ctx) with
        β := BState.reset.startRule T.startRule } :=
    ⟨rfl, rfl, BRel.start0 _ _, rfl, rfl, ⟨(by intro sep hsep; unfold MState.reset at hsep; cases hsep), hμ⟩⟩
  have hst' : ∀ s flag c, run (parsePrefixPure D T stop pre.length 0)
      { ({ lines := pre ++ post, μ := μ.reset D, β := BState.reset, ids := ids } : Ctx) with
        β := BState.reset.startRule T.startRule } = (.ok (s, flag), c) →
      PosOk D T stop b s c := by
    intro s flag c hrun
    refine hst s c ?_
    unfold Spec.runAfter Spec.startCtx
    rw [h1]
    unfold run at hrun
    rw [hrun]
  rcases csim_body2 hD hP hT hbr stop pre post hc0 rfl rfl rfl rfl (by rw [h0]; rfl) hst' with
    ⟨d, c1', c2', r1, r2, hc'⟩ | ⟨e, c1', c2', r1, r2, hc'⟩
  · unfold run at r1 r2
    rw [r1, r2]
    exact ⟨rfl, hc'⟩
  · unfold run at r1 r2
    rw [r1, r2]
    cases e <;> exact ⟨rfl, hc'⟩


end step

/-! ### from the prefix runs to the position hypothesis -/

/-- the prefix run for `k + 1` lines is the prefix run for `k` lines and one more step -/
theorem prefix_succ (D : List Dialect) (T : Table) (stop : Bool) : ∀ (k s0 : Nat) (c0 : Ctx),
    run (parsePrefixPure D T stop (k + 1) s0) c0 =
      match run (parsePrefixPure D T stop k s0) c0 with
      | (.ok (s, false), c) => run (parsePrefixPure D T stop 1 s) c
      | (.ok (s, true), c) => (.ok (s, true), c)
      | (.error e, c) => (.error e, c) := by
  intro k
  induction k with
  | zero => intro s0 c0; rfl
  | succ k ih =>
    intro s0 c0
    cases hl : c0.lines with
    | nil =>
      rw [run_prefix_nil T stop (k + 1) s0 c0 hl, run_prefix_nil T stop k s0 c0 hl]
      rcases run (matchTokenPure D T stop s0 { line := none, lineNo := c0.lineNo + 1 }) _ with ⟨x, c⟩
      cases x <;> rfl
    | cons l ls =>
      rw [run_prefix_cons T stop (k + 1) s0 c0 hl, run_prefix_cons T stop k s0 c0 hl]
      rcases run (matchTokenPure D T stop s0 { line := some l, lineNo := c0.lineNo + 1 }) _ with ⟨x, c⟩
      cases x with
      | error e => rfl
      | ok s1 => exact ih s1 c

/-- **Inserting a comment line**, self-loop states and (partially) description-opening states;
    generic in the dialect table and the transition table. -/
theorem comment_line_parseWith2 {D : List Dialect} {T : Table} (hD : Spec.stepKeywordsOk D = true)
    (hQD : Spec.queueDialectFacts D = true) (hQT : Spec.queueFacts T = true)
    (hCB : Spec.commentBlankTested T = true) {ds : List (Nat × Nat)} (hT : TableOkC T ds)
    {b : Str} (hb : lineStartsWith b [35] = true) (stop : Bool) (μ : MState) (ids : Nat)
    {src src' : Str} (pre post : List Str)
    (h1 : splitLines src = pre ++ post) (h2 : splitLines src' = pre ++ b :: post)
    (hμ : (μ.reset D).dialect ∈ D)
    (hst : ∀ s, Spec.stateAfter D T stop μ ids src pre.length = some s →
      (Spec.languageTested T s = true → languageRe (lineText b none) = none) ∧
      (Spec.commentSelfLoop T s = true ∨
        (Spec.commentOpensDescription T s = true ∧ Spec.moreLines D T stop μ ids src pre.length = true ∧
          Spec.stateAfter D T stop μ ids src (pre.length + 1) = some (Spec.descTarget T s)))) :
    (parseWith D T stop μ ids src').1 =
      insertComment pre.length ⟨⟨pre.length + 1, some 1⟩, rstripCRLF b⟩
        (mapOutcome (insertMap pre.length) (parseWith D T stop μ ids src).1) ∧
    CtxObs (insertMap pre.length) (parseWith D T stop μ ids src).2 (parseWith D T stop μ ids src').2 := by
  have hst' : ∀ s c, Spec.runAfter D T stop μ ids src pre.length = some (s, c) → PosOk D T stop b s c := by
    intro s c hr
    obtain ⟨hlang, hpos⟩ := hst s (by unfold Spec.stateAfter; rw [hr]; rfl)
    refine ⟨hlang, ?_⟩
    rcases hpos with hs | ⟨hs, hmore, hnext⟩
    · exact .inl hs
    · refine .inr ⟨hs, ?_⟩
      unfold Spec.moreLines at hmore
      rw [hr] at hmore
      simp only [Bool.not_eq_true', List.isEmpty_eq_false_iff] at hmore
      obtain ⟨L, q, hL⟩ := List.exists_cons_of_ne_nil hmore
      -- the prefix run for one more line
      unfold Spec.stateAfter Spec.runAfter at hnext
      unfold Spec.runAfter at hr
      have hps := prefix_succ D T stop pre.length 0 (Spec.startCtx D T μ ids src)
      unfold run at hps
      rw [hps] at hnext
      rcases hp : (parsePrefixPure D T stop pre.length 0).run.run (Spec.startCtx D T μ ids src) with ⟨x, c0⟩
      rw [hp] at hr hnext
      cases x with
      | error e => cases hr
      | ok sf =>
        obtain ⟨s0, fl⟩ := sf
        simp only [Option.some.injEq, Prod.mk.injEq] at hr
        obtain ⟨rfl, rfl⟩ := hr
        cases fl with
        | true =>
          exfalso
          simp only [Option.map_some, Option.some.injEq] at hnext
          unfold Spec.commentOpensDescription at hs
          unfold Spec.descTarget at hnext
          cases hrow : T.row? s0 with
          | none => rw [hrow] at hs; cases hs
          | some row1 =>
            rw [hrow] at hs hnext
            simp only [] at hs hnext
            cases hfind : commentBranch row1 with
            | none => rw [hfind] at hs; cases hs
            | some b0 =>
              rw [hfind] at hs hnext
              simp only [Bool.and_eq_true] at hs
              cases hrow2 : T.row? b0.target with
              | none => rw [hrow2] at hs; simp at hs
              | some row2 =>
                rw [hrow2] at hs
                simp only [Bool.and_eq_true, bne_iff_ne, ne_eq] at hs
                exact hs.2.2 hnext.symm
        | false =>
          simp only [] at hnext
          have hstep := run_prefix_cons (D := D) T stop 0 s0 c0 hL
          unfold run at hstep
          rw [hstep] at hnext
          rcases hm : (matchTokenPure D T stop s0 { line := some L, lineNo := c0.lineNo + 1 }).run.run
            { c0 with lines := q, lineNo := c0.lineNo + 1, reads := c0.reads ++ [c0.lineNo + 1] } with ⟨y, c'⟩
          rw [hm] at hnext
          cases y with
          | error e => cases hnext
          | ok s1 =>
            have : s1 = Spec.descTarget T s0 := by
              simpa [parsePrefixPure, pure, ExceptT.pure, ExceptT.mk, StateT.pure, ExceptT.run, StateT.run] using hnext
            subst this
            exact ⟨L, q, c', hL, hm⟩
  obtain ⟨ho, hc⟩ := parseWithPure_comment2 hD hQD hT hb stop μ ids pre post h1 h2 hμ hst'
  have q1 := queue_refines_peek D T hQD hQT hCB stop μ ids src hμ
  have q2 := queue_refines_peek D T hQD hQT hCB stop μ ids src' hμ
  have o1 := congrArg Spec.Observed.outcome q1
  have o2 := congrArg Spec.Observed.outcome q2
  have e1 := congrArg Spec.Observed.errors q1
  have e2 := congrArg Spec.Observed.errors q2
  have m1 := congrArg Spec.Observed.μ q1
  have m2 := congrArg Spec.Observed.μ q2
  have i1 := congrArg Spec.Observed.ids q1
  have i2 := congrArg Spec.Observed.ids q2
  have u1 := congrArg Spec.Observed.unexpected q1
  have u2 := congrArg Spec.Observed.unexpected q2
  simp only [Spec.observe] at o1 o2 e1 e2 m1 m2 i1 i2 u1 u2
  refine ⟨by rw [o1, o2]; exact ho, ?_, ?_, ?_, ?_⟩
  · rw [e1, e2]; exact hc.errors
  · rw [m1, m2]; exact hc.μ
  · rw [i1, i2]; exact hc.ids
  · rw [u1, u2]; exact hc.unexpected

end Layout5
end GV
