/-
  Lemmas/RaggedDocLoop.lean — the invariant of Lemmas/RaggedDocInv.lean through the whole parse.

  `Spec.raggedCheck T fuel` is a Boolean fact about a transition table: an assignment `σ` of
  rule-type stacks to the states (computed breadth-first from the start state) such that every
  branch's productions, executed by `Spec.rProd` from the stack of its state with no pending
  group, end in the stack of its target with no pending group; every error tail returns its own
  state; in every state the final `end_rule` can be executed.  For every such table, every dialect
  table, both error modes, every matcher state, counter and source text: `parseWith_r`.
-/
import GherkinVerif.Lemmas.RaggedDocInv
import GherkinVerif.Lemmas.NoCrash
import GherkinVerif.Lemmas.Locations
import GherkinVerif.Lemmas.TextMain
import GherkinVerif.Lemmas.GlueOutcome
namespace GV
namespace Spec

abbrev RTyping := List (Nat × List RuleType)

def rlookup (σ : RTyping) (s : Nat) : Option (List RuleType) := (σ.find? (·.1 == s)).map (·.2)

def rbranchOK (σ : RTyping) (a : List RuleType) (b : Branch) : Bool :=
  match rProds b.kind (a, false) b.prods with
  | some (a', false) => rlookup σ b.target == some a'
  | _ => false

def rstateOK (T : Table) (σ : RTyping) (p : Nat × List RuleType) : Bool :=
  (rProd .EOF (p.2, false) (.end_ .None_)).isSome &&
  match T.row? p.1 with
  | some row => row.errTarget == p.1 && row.branches.all (rbranchOK σ p.2)
  | none => true

def rtypingOK (T : Table) (σ : RTyping) : Bool :=
  rlookup σ 0 == some [T.startRule, .None_] && !isTableRt T.startRule && σ.all (rstateOK T σ)

def rcompute (T : Table) : Nat → RTyping → RTyping → RTyping
  | 0, _, acc => acc
  | _, [], acc => acc
  | fuel + 1, (s, a) :: todo, acc =>
    if acc.any (·.1 == s) then rcompute T fuel todo acc
    else
      let next := match T.row? s with
        | some r => r.branches.filterMap fun b =>
            (rProds b.kind (a, false) b.prods).map fun s' => (b.target, s'.1)
        | none => []
      rcompute T fuel (todo ++ next) (acc ++ [(s, a)])

/-- the table fact behind the document-level ragged-table theorems -/
def raggedCheck (T : Table) (fuel : Nat) : Bool :=
  rtypingOK T (rcompute T fuel [(0, [T.startRule, .None_])] [])

end Spec

namespace Lemmas
open Spec

/-! ### what the check says -/

theorem rlookup_mem {σ : RTyping} {s : Nat} {a : List RuleType} (h : rlookup σ s = some a) : (s, a) ∈ σ := by
  unfold rlookup at h
  cases hf : σ.find? (·.1 == s) with
  | none => rw [hf] at h; cases h
  | some p =>
    rw [hf] at h
    simp only [Option.map_some, Option.some.injEq] at h
    have hm := List.mem_of_find?_eq_some hf
    have hp := List.find?_some hf
    have : p.1 = s := by simpa using hp
    obtain ⟨p1, p2⟩ := p
    dsimp only at h this
    subst h; subst this
    exact hm

structure RChecked (T : Table) (σ : RTyping) : Prop where
  start : rlookup σ 0 = some [T.startRule, .None_]
  startRt : isTableRt T.startRule = false
  fin : ∀ s a, rlookup σ s = some a → ∃ s', rProd .EOF (a, false) (.end_ .None_) = some s'
  rows : ∀ s a, rlookup σ s = some a → ∀ row, T.row? s = some row →
    row.errTarget = s ∧ ∀ b ∈ row.branches, rbranchOK σ a b = true

theorem rchecked_of_ok {T : Table} {σ : RTyping} (h : rtypingOK T σ = true) : RChecked T σ := by
  simp only [rtypingOK, Bool.and_eq_true, beq_iff_eq, Bool.not_eq_true', List.all_eq_true] at h
  obtain ⟨⟨h0, h1⟩, hall⟩ := h
  refine ⟨h0, h1, ?_, ?_⟩
  · intro s a hs
    have := hall _ (rlookup_mem hs)
    simp only [rstateOK, Bool.and_eq_true] at this
    exact Option.isSome_iff_exists.1 this.1
  · intro s a hs row hrow
    have := hall _ (rlookup_mem hs)
    simp only [rstateOK, Bool.and_eq_true, hrow, beq_iff_eq, List.all_eq_true] at this
    exact this.2

/-! ### the scanner side -/

theorem Triple.assume' {α} {P : Ctx → Prop} {m : PM α} {Q : α → Ctx → Prop} {E} {φ : Prop}
    (hφ : ∀ c, P c → φ) (h : φ → Triple P m Q E) : Triple P m Q E := fun c hc => h (hφ c hc) c hc

theorem matchTok_raised_bad (D : List Dialect) (k : Kind) (μ : MState) (t : Token) (e : PErr)
    (h : (matchTok D k μ t).1.res = .raised e) : badE e := by
  unfold matchTok at h
  split at h
  · split at h <;> cases h
  · exact raised_bad D k μ t _ e h

theorem matchTok_rowTok (D : List Dialect) (k : Kind) (μ : MState) (t : Token)
    (h : (matchTok D k μ t).1.res = .matched) :
    (matchTok D k μ t).1.tok.mtype = some k ∧ RowTok (matchTok D k μ t).1.tok := by
  have hm := (matchTok_well_matched D k μ t h).1
  refine ⟨hm, fun hrow => ?_⟩
  rw [hm] at hrow
  simp only [Option.some.injEq] at hrow
  subst hrow
  unfold matchTok at h ⊢
  cases hl : t.line with
  | none =>
    simp only [hl] at h
    simp at h
  | some l =>
    simp only [hl] at h ⊢
    obtain ⟨h1, -, h3⟩ := row_col D μ t l hl h
    exact ⟨l, (matchLine_tok D .TableRow μ t l).1.trans hl, h3, h1⟩

theorem matchP_r (D : List Dialect) (cap : Nat) (stop : Bool) (k : Kind) (t : Token) (s : RState) :
    Triple (RInv stop s) (matchP D cap stop k t)
      (fun r c => RInv stop s c ∧ (r.1 = true → r.2.mtype = some k ∧ RowTok r.2)) (RAb cap) := by
  refine Triple.intro fun c r c' hc hr => ?_
  rw [run_matchP] at hr
  dsimp only at hr
  have hc1' : ∀ (μ' : MState) (n : Nat), RInv stop s { c with μ := μ', calls := n } :=
    fun _ _ => hc.congr rfl rfl rfl
  have hc1 := hc1' (matchTok D k c.μ t).1.μ (c.calls + (if (matchTok D k c.μ t).2 then 1 else 0))
  split at hr
  · rename_i hres
    cases hr
    exact ⟨hc1, fun _ => matchTok_rowTok D k c.μ t hres⟩
  · cases hr
    exact ⟨hc1, fun h => by cases h⟩
  · rename_i e hres
    have hbad := matchTok_raised_bad D k c.μ t e hres
    split at hr
    · rename_i hs
      cases hr
      exact single_r hs hc1 hbad
    · rename_i hs
      have hs : stop = false := by simpa using hs
      rcases hr2 : run (addError cap e) _ with ⟨r2, c2⟩
      rw [hr2] at hr
      obtain ⟨h1, h2⟩ := addError_bad_r hs hr2 hc1 hbad
      cases r2 with
      | ok u => cases hr; exact ⟨h1, fun h => by cases h⟩
      | error x => cases hr; exact h2 x rfl

theorem matchP_inv (D : List Dialect) (cap : Nat) (stop : Bool) (s : RState) (k : Kind) (t : Token) :
    Inv (RInv stop s) (RAb cap) (matchP D cap stop k t) :=
  Triple.conseq (matchP_r D cap stop k t s) (fun _ h => h) (fun _ _ h => h.1) (fun _ _ h => h)

theorem readToken_inv (cap : Nat) (stop : Bool) (s : RState) : Inv (RInv stop s) (RAb cap) readToken := by
  refine Triple.intro fun c r c' hc hr => ?_
  rw [run_readToken] at hr
  split at hr
  · cases hr; exact hc.congr rfl rfl rfl
  · split at hr <;> (cases hr; exact hc.congr rfl rfl rfl)

theorem primsL_r (D : List Dialect) (cap : Nat) (stop : Bool) (s : RState) :
    PrimsL D cap stop (RInv stop s) (RAb cap) :=
  { readToken := readToken_inv cap stop s
    matchP := matchP_inv D cap stop s
    modQ := fun _ _ h => h.congr rfl rfl rfl
    fuel := fun _ _ => trivial }

/-! ### `match_token` and the loop -/

/-- the loop invariant: the state is typed and the run invariant holds with its stack -/
def J (σ : RTyping) (stop : Bool) (s : Nat) (c : Ctx) : Prop :=
  ∃ a, rlookup σ s = some a ∧ RInv stop (a, false) c

theorem tail_r (D : List Dialect) (T : Table) (stop : Bool) (σ : RTyping) {s : Nat} {a : List RuleType}
    (hs : rlookup σ s = some a) (row : StateRow) (herr : row.errTarget = s) (t : Token) :
    Triple (RInv stop (a, false)) (tryBranches D T stop row [] t) (fun s' c' => J σ stop s' c') (RAb T.errorCap) := by
  unfold GV.tryBranches
  refine Triple.bind (Q := fun _ => RInv stop (a, false)) (Triple.modify _ fun c hc => hc.congr rfl rfl rfl) fun _ => ?_
  split
  · rename_i hstop
    exact Triple.throw _ fun c hc => single_r hstop hc (unexpectedErr_bad row t)
  · rename_i hstop
    have hstop : stop = false := by simpa using hstop
    refine Triple.bind (Q := fun _ => RInv stop (a, false)) ?_ fun _ => ?_
    · refine Triple.intro fun c r c' hc hr => ?_
      obtain ⟨h1, h2⟩ := addError_bad_r hstop hr hc (unexpectedErr_bad row t)
      cases r with
      | ok u => exact h1
      | error x => exact h2 x rfl
    · exact Triple.pure _ fun c hc => ⟨a, herr ▸ hs, hc⟩

theorem tryBranches_r (D : List Dialect) (T : Table) (stop : Bool) (σ : RTyping) {s : Nat} {a : List RuleType}
    (hs : rlookup σ s = some a) (row : StateRow) (herr : row.errTarget = s) :
    ∀ (bs : List Branch) (t : Token), (∀ b ∈ bs, rbranchOK σ a b = true) →
      Triple (RInv stop (a, false)) (tryBranches D T stop row bs t) (fun s' c' => J σ stop s' c') (RAb T.errorCap)
  | [], t, _ => tail_r D T stop σ hs row herr t
  | b :: bs, t, hbs => by
    have hb := hbs b List.mem_cons_self
    have ih := fun t' => tryBranches_r D T stop σ hs row herr bs t' (fun b' hb' => hbs b' (List.mem_cons_of_mem _ hb'))
    unfold GV.tryBranches
    refine Triple.bind (matchP_r D T.errorCap stop b.kind t (a, false)) fun r => ?_
    obtain ⟨m, t'⟩ := r
    dsimp only
    cases m with
    | false =>
      simp only [Bool.false_eq_true, if_false]
      exact Triple.conseq (ih t') (fun c hc => hc.1) (fun _ _ h => h) (fun _ _ h => h)
    | true =>
      simp only [if_true]
      refine Triple.assume' (φ := t'.mtype = some b.kind ∧ RowTok t') (fun c hc => hc.2 (by trivial)) fun hφ => ?_
      obtain ⟨hk, hrow⟩ := hφ
      refine Triple.conseq (P := RInv stop (a, false)) ?_ (fun c hc => hc.1) (fun _ _ h => h) (fun _ _ h => h)
      have cont : ∀ ok : Bool, Triple (RInv stop (a, false))
          (if ok = true then do
              GV.runProds T.errorCap stop t' b.prods
              pure b.target
            else GV.tryBranches D T stop row bs t') (fun s' c' => J σ stop s' c') (RAb T.errorCap) := by
        intro ok
        cases ok with
        | false =>
          simp only [Bool.false_eq_true, if_false]
          exact ih t'
        | true =>
          simp only [if_true]
          unfold rbranchOK at hb
          split at hb
          · rename_i a' hx
            have hl : rlookup σ b.target = some a' := by simpa using hb
            refine Triple.bind (runProds_r T.errorCap stop b.kind t' hk hrow b.prods _ _ hx) fun _ => ?_
            exact Triple.pure _ fun c hc => ⟨a', hl, hc⟩
          · cases hb
      split
      · exact Triple.bind (Q := fun _ => RInv stop (a, false)) (Triple.pure _ fun _ h => h) cont
      · split
        · exact Triple.bind ((primsL_r D T.errorCap stop (a, false)).lookahead _) cont
        · exact Triple.bind (Q := fun _ => RInv stop (a, false)) (Triple.throw _ fun _ _ => trivial) cont

theorem matchToken_r (D : List Dialect) {T : Table} (stop : Bool) {σ : RTyping} (hC : RChecked T σ)
    (s : Nat) (t : Token) :
    Triple (J σ stop s) (matchToken D T stop s t) (fun s' c' => J σ stop s' c') (RAb T.errorCap) := by
  unfold GV.matchToken
  cases hr : T.row? s with
  | none => exact Triple.throw _ fun _ _ => trivial
  | some row =>
    dsimp only
    intro c hc
    obtain ⟨a, hs, hinv⟩ := hc
    obtain ⟨herr, hall⟩ := hC.rows s a hs row hr
    exact tryBranches_r D T stop σ hs row herr row.branches t hall c hinv

theorem J.congr {σ : RTyping} {stop : Bool} {s : Nat} {c c' : Ctx} (h : J σ stop s c)
    (hβ : c'.β = c.β) (hb : c'.builds = c.builds) (he : c'.errors = c.errors) : J σ stop s c' := by
  obtain ⟨a, hs, hinv⟩ := h
  exact ⟨a, hs, hinv.congr hβ hb he⟩

theorem parseLoop_r (D : List Dialect) {T : Table} (stop : Bool) {σ : RTyping} (hC : RChecked T σ) :
    ∀ (fuel s : Nat), Triple (J σ stop s) (parseLoop D T stop fuel s) (fun s' c' => J σ stop s' c') (RAb T.errorCap)
  | 0, s => by
    unfold GV.parseLoop
    exact Triple.throw _ fun _ _ => trivial
  | fuel + 1, s => by
    unfold GV.parseLoop
    refine Triple.bind (Q := fun _ => J σ stop s) ?_ fun t => ?_
    · refine Triple.intro fun c r c' hc hr => ?_
      rw [run_readToken] at hr
      split at hr
      · cases hr; exact hc.congr rfl rfl rfl
      · split at hr <;> (cases hr; exact hc.congr rfl rfl rfl)
    refine Triple.bind (Q := fun _ => J σ stop s) (Triple.modify _ fun c hc => hc.congr rfl rfl rfl) fun _ => ?_
    refine Triple.bind (matchToken_r D stop hC s t) fun s' => ?_
    split
    · exact Triple.pure _ fun _ h => h
    · exact parseLoop_r D stop hC fuel s'

/-! ### the whole parse -/

/-- the end of an accepted or fully collected parse -/
def REnd (c : Ctx) : Prop := RFin c ∧ FinAll c

theorem parseBody_r (D : List Dialect) {T : Table} (stop : Bool) {σ : RTyping} (hC : RChecked T σ) (n : Nat) :
    Triple (fun c => c.β.stack = [⟨.None_, []⟩] ∧ c.builds = [] ∧ c.errors = []) (parseBody D T stop n)
      (fun _ c => REnd c ∧ c.errors = []) (RAb T.errorCap) := by
  unfold GV.parseBody
  refine Triple.bind (Q := fun _ => J σ stop 0) (Triple.modify _ fun c hc => ?_) fun _ => ?_
  · obtain ⟨h1, h2, h3⟩ := hc
    refine ⟨_, hC.start, ?_, ?_, ?_, ?_, ?_, ?_, ?_⟩
    · show (c.β.startRule T.startRule).stack.map (·.rt) = _
      simp only [BState.startRule, h1, List.map_cons, List.map_nil]
    · intro h
      have h : isTableRt T.startRule = true := h
      rw [hC.startRt] at h; cases h
    · intro _ _; show openRun c.builds = []; rw [h2]; rfl
    · intro e he
      have he : e ∈ c.errors := he
      rw [h3] at he; cases he
    · intro run hr
      have hr : Live false c.builds run := hr
      rw [h2] at hr
      rcases hr with hr | ⟨hr, -⟩
      · cases hr
      · cases hr
    · intro _; exact h3
    · intro t ht
      have ht : t ∈ c.builds := ht
      rw [h2] at ht; cases ht
  refine Triple.bind (parseLoop_r D stop hC _ 0) fun s => ?_
  refine Triple.bind (Q := fun _ c => REnd c ∧ (stop = true → c.errors = [])) ?_ fun _ => ?_
  · intro c hc
    obtain ⟨a, hs, hinv⟩ := hc
    obtain ⟨s', hs'⟩ := hC.fin s a hs
    have hs'' : rProd .EOF (a, false) (.end_ T.startRule) = some s' := hs'
    have htop : topTable s'.1 = false := by
      simp only [rProd] at hs'
      split at hs'
      · split at hs'
        · cases hs'
        · rename_i h
          cases hs'
          simpa [topTable] using h
      · cases hs'
    have hrow : RowTok (default : Token) := fun h => by cases h
    exact Triple.conseq (runProd_r (p := .end_ T.startRule) T.errorCap stop .EOF default (fun h => by cases h) hrow
      (a, false) s' hs'') (fun _ h => h) (fun _ c' h => ⟨⟨h.fin, h.finAll htop⟩, h.stopE⟩) (fun _ _ h => h) c hinv
  refine Triple.bind Triple.get fun c0 => ?_
  dsimp only
  split
  · refine Triple.bind (Q := fun _ _ => False) (Triple.throw _ fun c hc => ?_) fun _ _ hf => hf.elim
    obtain ⟨rfl, hc⟩ := hc
    exact ⟨rfl, hc.1.1, fun _ => hc.1.2⟩
  · rename_i hne
    have he : c0.errors = [] := by
      cases he : c0.errors with
      | nil => rfl
      | cons a l => simp [he] at hne
    split
    · exact Triple.pure _ fun c hc => by obtain ⟨rfl, hc⟩ := hc; exact ⟨hc.1, he⟩
    · exact Triple.throw _ fun _ _ => trivial
    · exact Triple.throw _ fun _ _ => trivial
    · rename_i e he'
      exact absurd he' (result_not_ast _ _)

/-- what the outcome and the final context of a parse satisfy -/
def ROut (cap : Nat) (o : Outcome) (c : Ctx) : Prop :=
  match o with
  | .ok _ => REnd c ∧ c.errors = []
  | .rejected es comp => ∃ a, RAb cap a c ∧
      ((comp = false ∧ ∃ e, a = .single e ∧ es = [e]) ∨ (comp = true ∧ a = .composite es))
  | .crash _ => True
  | .fuel => True

theorem parseWith_r (D : List Dialect) (T : Table) (fuel : Nat) (hT : raggedCheck T fuel = true)
    (stop : Bool) (μ : MState) (ids : Nat) (src : Str) :
    ROut T.errorCap (parseWith D T stop μ ids src).1 (parseWith D T stop μ ids src).2 := by
  have hC := rchecked_of_ok hT
  have hb := parseBody_r D stop hC (splitLines src).length (ctx0 D μ ids src) ⟨rfl, rfl, rfl⟩
  rw [parseWith_eq]
  rcases hr : run (parseBody D T stop (splitLines src).length) (ctx0 D μ ids src) with ⟨r, c⟩
  cases r with
  | ok d => exact hb.1 _ _ hr
  | error e =>
    have := hb.2 _ _ hr
    cases e with
    | crash w => trivial
    | fuel => trivial
    | single e => exact ⟨_, this, .inl ⟨rfl, e, rfl, rfl⟩⟩
    | composite es => exact ⟨_, this, .inr ⟨rfl, rfl⟩⟩

end Lemmas
end GV
