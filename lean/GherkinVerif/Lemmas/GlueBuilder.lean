/-
  Lemmas/GlueBuilder.lean — what the parser glue needs to know about the AST builder: an
  `AstBuilderException` is always located at a table-row token held by the node being closed,
  and the tokens held directly by the nodes of the stack are exactly those handed to `build`.
-/
import GherkinVerif.Model.Builder
namespace GV
namespace Lemmas

def brun {α} (m : BM α) (n : Nat) : Except BErr α × Nat := m.run.run n

theorem brun_pure {α} (a : α) (n : Nat) : brun (pure a : BM α) n = (.ok a, n) := rfl
theorem brun_bind {α β} (m : BM α) (f : α → BM β) (n : Nat) :
    brun (m >>= f) n = match brun m n with
      | (.ok a, n') => brun (f a) n'
      | (.error e, n') => (.error e, n') := by
  simp only [brun, bind, ExceptT.bind, ExceptT.mk, ExceptT.run, ExceptT.bindCont, StateT.bind, StateT.run]
  rcases h : m n with ⟨r, c'⟩
  cases r <;> rfl
theorem brun_throw {α} (e : BErr) (n : Nat) : brun (throw e : BM α) n = (.error e, n) := rfl

/-- builder computation: results satisfy `Q`, `AstBuilderException`s satisfy `E` -/
def BSpec {α} (m : BM α) (Q : α → Prop) (E : PErr → Prop) : Prop :=
  ∀ n r n', brun m n = (r, n') → match r with
    | .ok a => Q a
    | .error (.ast e) => E e
    | .error (.crash _) => True

theorem BSpec.pure {α} {Q : α → Prop} {E} (a : α) (h : Q a) : BSpec (pure a : BM α) Q E := by
  intro n r n' hr; rw [brun_pure] at hr; cases hr; exact h

theorem BSpec.crash {α} {Q : α → Prop} {E} (w : String) : BSpec (crash w : BM α) Q E := by
  intro n r n' hr; unfold GV.crash at hr; rw [brun_throw] at hr; cases hr; trivial

theorem BSpec.throw_ast {α} {Q : α → Prop} {E : PErr → Prop} (e : PErr) (h : E e) : BSpec (throw (.ast e) : BM α) Q E := by
  intro n r n' hr; rw [brun_throw] at hr; cases hr; exact h

theorem BSpec.bind {α β} {m : BM α} {f : α → BM β} {Q' : α → Prop} {Q : β → Prop} {E}
    (h1 : BSpec m Q' E) (h2 : ∀ a, Q' a → BSpec (f a) Q E) : BSpec (m >>= f) Q E := by
  intro n r n' hr
  rw [brun_bind] at hr
  rcases hm : brun m n with ⟨r1, n1⟩
  rw [hm] at hr
  have := h1 n r1 n1 hm
  cases r1 with
  | ok a => exact h2 a this _ _ _ hr
  | error e => cases hr; cases e <;> exact this

theorem BSpec.weaken {α} {m : BM α} {Q Q' : α → Prop} {E E' : PErr → Prop} (h : BSpec m Q E)
    (hq : ∀ a, Q a → Q' a) (he : ∀ e, E e → E' e) : BSpec m Q' E' := by
  intro n r n' hr
  have := h n r n' hr
  cases r with
  | ok a => exact hq _ this
  | error e => cases e with
    | crash w => trivial
    | ast e => exact he _ this

theorem BSpec.nextId {E} : BSpec nextId (fun _ => True) E := by
  intro n r n' hr
  have : brun GV.nextId n = (.ok n, n + 1) := rfl
  rw [this] at hr; cases hr; trivial

theorem BSpec.need {α} {E} (w : String) (o : Option α) : BSpec (need w o) (fun _ => True) E := by
  unfold GV.need
  split
  · exact BSpec.pure _ trivial
  · exact BSpec.crash _

theorem BSpec.needToken {E} (items : List (Key × Val)) (k : Kind) : BSpec (needToken items k) (fun _ => True) E := by
  unfold GV.needToken
  split
  · exact BSpec.pure _ trivial
  · exact BSpec.crash _

theorem BSpec.getDescription {E} (items : List (Key × Val)) : BSpec (getDescription items) (fun _ => True) E := by
  unfold GV.getDescription
  split
  · exact BSpec.pure _ trivial
  · exact BSpec.pure _ trivial
  · exact BSpec.crash _

theorem BSpec.mapM' {α β} {E} (f : α → BM β) (R : α → β → Prop) (l : List α)
    (h : ∀ a ∈ l, BSpec (f a) (R a) E) : BSpec (mapM' f l) (fun bs => ∀ b ∈ bs, ∃ a ∈ l, R a b) E := by
  induction l with
  | nil => exact BSpec.pure _ (by intro b hb; cases hb)
  | cons a l ih =>
    unfold GV.mapM'
    refine BSpec.bind (h a (List.mem_cons_self ..)) fun b hb => ?_
    refine BSpec.bind (ih fun a' ha' => h a' (List.mem_cons_of_mem _ ha')) fun bs hbs => ?_
    refine BSpec.pure _ ?_
    intro b' hb'
    rcases List.mem_cons.1 hb' with rfl | hb'
    · exact ⟨a, List.mem_cons_self .., hb⟩
    · obtain ⟨a', ha', hr⟩ := hbs b' hb'
      exact ⟨a', List.mem_cons_of_mem _ ha', hr⟩

theorem BSpec.getTags {E} (items : List (Key × Val)) : BSpec (getTags items) (fun _ => True) E := by
  unfold GV.getTags
  split
  · refine BSpec.bind (Q' := fun _ => True) ?_ fun _ _ => BSpec.pure _ trivial
    refine BSpec.weaken (BSpec.mapM' _ (fun _ _ => True) _ fun t _ => ?_) (fun _ _ => trivial) (fun _ h => h)
    refine BSpec.weaken (BSpec.mapM' _ (fun _ _ => True) _ fun it _ => ?_) (fun _ _ => trivial) (fun _ h => h)
    exact BSpec.bind (Q' := fun _ => True) BSpec.nextId fun _ _ => BSpec.pure _ trivial
  · exact BSpec.pure _ trivial
  · exact BSpec.crash _

theorem gmem_getTokens {items : List (Key × Val)} {k : Kind} {t : Token} (h : t ∈ getTokens items k) :
    (Key.tok k, Val.tok t) ∈ items := by
  unfold getTokens getItems at h
  obtain ⟨v, hv, hvt⟩ := List.mem_filterMap.1 h
  obtain ⟨kv, hkv, rfl⟩ := List.mem_map.1 hv
  obtain ⟨hmem, hk⟩ := List.mem_filter.1 hkv
  obtain ⟨k', v'⟩ := kv
  dsimp only at hvt hk
  have hk' : k' = .tok k := by simpa using hk
  subst hk'
  cases v' <;> simp at hvt
  subst hvt
  exact hmem

theorem BSpec.getTableRows (items : List (Key × Val)) :
    BSpec (getTableRows items) (fun _ => True)
      (fun e => ∃ t, (Key.tok .TableRow, Val.tok t) ∈ items ∧ e.loc.line = t.lineNo) := by
  unfold GV.getTableRows
  refine BSpec.bind (BSpec.mapM' _ (fun (t : Token) (r : Row) => r.loc = t.loc) _ fun t _ => ?_) fun rows hrows => ?_
  · exact BSpec.bind (Q' := fun _ => True) BSpec.nextId fun _ _ => BSpec.pure _ rfl
  · split
    · rename_i r hr
      refine BSpec.throw_ast _ ?_
      have hmem : r ∈ rows := by
        unfold raggedRow at hr
        split at hr
        · cases hr
        · exact List.mem_of_find?_eq_some hr
      obtain ⟨t, ht, hloc⟩ := hrows r hmem
      exact ⟨t, gmem_getTokens ht, by dsimp only; rw [hloc]; rfl⟩
    · exact BSpec.pure _ trivial

theorem BSpec.mapM'_noast {α β} {E} (f : α → BM β) (l : List α)
    (h : ∀ a, BSpec (f a) (fun _ => True) E) : BSpec (GV.mapM' f l) (fun _ => True) E :=
  BSpec.weaken (BSpec.mapM' f (fun _ _ => True) l fun a _ => h a) (fun _ _ => trivial) (fun _ h => h)

/-- a value `transform_node` can return: anything but a bare token -/
def NotTok (v : Val) : Prop := ∀ t, v ≠ .tok t

macro "bhead" : tactic => `(tactic| first
  | exact BSpec.nextId | exact BSpec.needToken _ _ | exact BSpec.need _ _ | exact BSpec.getDescription _
  | exact BSpec.getTags _ | exact BSpec.mapM'_noast _ _ fun _ => BSpec.need _ _)

macro "bwalk" : tactic => `(tactic| repeat (first
  | exact BSpec.pure _ (fun t h => by cases h)
  | exact BSpec.crash _
  | refine BSpec.bind (Q' := fun _ => True) (by bhead) fun _ _ => ?_
  | split))

theorem transformNode_spec (cm : List Comment) (node : Node) :
    BSpec (transformNode cm node) NotTok
      (fun e => ∃ t, (Key.tok .TableRow, Val.tok t) ∈ node.items ∧ e.loc.line = t.lineNo) := by
  unfold transformNode
  dsimp only
  split
  case h_3 =>
    refine BSpec.bind (BSpec.getTableRows _) fun rows _ => ?_
    bwalk
  case h_7 =>
    refine BSpec.bind (BSpec.getTableRows _) fun rows _ => ?_
    bwalk
  all_goals bwalk

/-! ### tokens held by the nodes of the builder stack -/

/-- every token held directly by a node of the stack satisfies `G` -/
def StackOK (G : Token → Prop) (st : List Node) : Prop :=
  ∀ node ∈ st, ∀ k t, (k, Val.tok t) ∈ node.items → G t

theorem StackOK.addToTop {G : Token → Prop} {st st' : List Node} {k : Key} {v : Val}
    (h : StackOK G st) (hv : ∀ t, v = .tok t → G t) (ha : addToTop st k v = some st') : StackOK G st' := by
  unfold GV.addToTop at ha
  split at ha
  · rename_i top rest
    cases ha
    intro node hn k' t hm
    rcases List.mem_cons.1 hn with rfl | hn
    · dsimp only at hm
      rcases List.mem_append.1 hm with hm | hm
      · exact h top (List.mem_cons_self ..) k' t hm
      · simp only [List.mem_singleton, Prod.mk.injEq] at hm
        exact hv t hm.2.symm
    · exact h node (List.mem_cons_of_mem _ hn) k' t hm
  · cases ha

theorem StackOK.startRule {G : Token → Prop} {β : BState} (h : StackOK G β.stack) (r : RuleType) :
    StackOK G (β.startRule r).stack := by
  intro node hn k t hm
  unfold BState.startRule at hn
  rcases List.mem_cons.1 hn with rfl | hn
  · cases hm
  · exact h node hn k t hm

theorem StackOK.build {G : Token → Prop} {β β' : BState} {t : Token} (h : StackOK G β.stack) (ht : G t)
    (hb : β.build t = .ok β') : StackOK G β'.stack := by
  unfold BState.build at hb
  split at hb
  · split at hb
    · cases hb; exact h
    · cases hb
  · split at hb
    · rename_i st hst
      cases hb
      exact h.addToTop (fun t' ht' => by cases ht'; exact ht) hst
    · cases hb
  · cases hb

theorem StackOK.endRule {G : Token → Prop} {β : BState} (h : StackOK G β.stack) (n : Nat) :
    StackOK G (β.endRule n).2.1.stack ∧
    ∀ e, (β.endRule n).1 = .error (.ast e) → ∃ t, G t ∧ e.loc.line = t.lineNo := by
  unfold BState.endRule
  split
  · exact ⟨h, fun e he => by cases he⟩
  · rename_i node rest hst
    have hrest : StackOK G rest := fun nd hn => h nd (by rw [hst]; exact List.mem_cons_of_mem _ hn)
    have hspec := transformNode_spec β.comments node n
    rcases hr : (transformNode β.comments node).run.run n with ⟨r, n'⟩
    have hspec := hspec r n' hr
    dsimp only
    cases r with
    | error e =>
      dsimp only
      refine ⟨hrest, fun e' he' => ?_⟩
      cases he'
      obtain ⟨t, hm, hl⟩ := hspec
      exact ⟨t, h node (by rw [hst]; exact List.mem_cons_self ..) _ t hm, hl⟩
    | ok v =>
      dsimp only
      split
      · rename_i st hadd
        exact ⟨hrest.addToTop (fun t ht => absurd ht (hspec t)) hadd, fun e he => by cases he⟩
      · exact ⟨hrest, fun e he => by cases he⟩

end Lemmas
end GV
