/-
  Lemmas/RecoverSim.lean — property C14, recovery at document level: lock-step simulation of two
  runs of the queue-free parse, the text with lines `pre ++ post` and the text `pre ++ u :: post`
  where `u` is reported unexpected.  Generalises the simulation of Lemmas/LayoutDoc3.lean (blank-line
  insertion): the error list of the second run may hold ONE extra error (that for `u`) at a fixed
  position, so the two runs can differ at the error cap (third alternative of `PostU`).  A
  look-ahead of the second run never comes across `u`: the last line of `pre` is a barrier line.
-/
import GherkinVerif.Lemmas.LayoutDoc3
import GherkinVerif.Spec.RecoverChecks
namespace GV
namespace Recover
open Lemmas Spec Layout3

/-- the extra error of the second run: its positions in the error list and in `unexpected` -/
structure Extra where
  je : Nat
  ju : Nat
  e : PErr

def insErrs (k : Nat) : Option Extra → List PErr → List PErr
  | none, es => es.map (mapErr (insertMap k))
  | some x, es => insertErr k x.je x.e es

def insUn (k : Nat) : Option Extra → List Nat → List Nat
  | none, us => us.map (insertMap k).ln
  | some x, us => insertLine k x.ju us

def Valid (k : Nat) (x : Option Extra) (c1 : Ctx) : Prop :=
  ∀ y, x = some y → y.je ≤ c1.errors.length ∧ y.ju ≤ c1.unexpected.length ∧ y.e.loc.line = k + 1

theorem insertMap_ln_ne (k a : Nat) : (insertMap k).ln a ≠ k + 1 := by
  simp only [insertMap]; split <;> omega

theorem insErrs_append (k : Nat) (x : Option Extra) (es : List PErr) (e : PErr)
    (hv : ∀ y, x = some y → y.je ≤ es.length) :
    insErrs k x (es ++ [e]) = insErrs k x es ++ [mapErr (insertMap k) e] := by
  cases x with
  | none => simp [insErrs]
  | some y =>
    have := hv y rfl
    simp only [insErrs, insertErr, List.take_append_of_le_length this, List.drop_append_of_le_length this,
      List.map_append, List.map_cons, List.map_nil, List.append_assoc, List.cons_append]

theorem insUn_append (k : Nat) (x : Option Extra) (us : List Nat) (n : Nat)
    (hv : ∀ y, x = some y → y.ju ≤ us.length) :
    insUn k x (us ++ [n]) = insUn k x us ++ [(insertMap k).ln n] := by
  cases x with
  | none => simp [insUn]
  | some y =>
    have := hv y rfl
    simp only [insUn, insertLine, List.take_append_of_le_length this, List.drop_append_of_le_length this,
      List.map_append, List.map_cons, List.map_nil, List.append_assoc, List.cons_append]

theorem insErrs_length (k : Nat) (x : Option Extra) (es : List PErr) :
    es.length ≤ (insErrs k x es).length := by
  cases x with
  | none => simp [insErrs]
  | some y =>
    simp only [insErrs, insertErr, List.length_append, List.length_map, List.length_cons, List.length_take,
      List.length_drop]
    omega

theorem insErrs_any (k : Nat) (x : Option Extra) (es : List PErr) (e : PErr)
    (hv : ∀ y, x = some y → y.e.loc.line = k + 1) :
    (insErrs k x es).any (fun e' => e'.message == (mapErr (insertMap k) e).message) =
      es.any (fun e' => e'.message == e.message) := by
  have hmap : ∀ l : List PErr, (l.map (mapErr (insertMap k))).any
      (fun e' => e'.message == (mapErr (insertMap k) e).message) = l.any (fun e' => e'.message == e.message) := by
    intro l
    rw [List.any_map]
    congr 1
    funext e'
    exact insertMap_msg k e e'
  cases x with
  | none => exact hmap es
  | some y =>
    have hy := hv y rfl
    have hne : (y.e.message == (mapErr (insertMap k) e).message) = false := by
      rw [beq_eq_false_iff_ne]
      intro h
      have := ((message_eq_iff _ _).1 h).1
      simp only [mapErr, insertMap_loc] at this
      rw [hy] at this
      exact insertMap_ln_ne k _ this.symm
    simp only [insErrs, insertErr, List.any_append, List.any_cons, hmap, hne, Bool.false_or]
    conv => rhs; rw [← List.take_append_drop y.je es, List.any_append]

/-- the token of the second run: that of the first with its line renumbered -/
theorem renumber_eq (k : Nat) (t : Token) : renumber k t = reNo ((insertMap k).ln t.lineNo) t := rfl

def mapAbortU (k : Nat) (x : Option Extra) : Abort → Abort
  | .single e => .single (mapErr (insertMap k) e)
  | .composite es => .composite (insErrs k x es)
  | .crash w => .crash w
  | .fuel => .fuel

/-- everything of the two contexts but the unread lines -/
structure CtxU (D : List Dialect) (k : Nat) (x : Option Extra) (c1 c2 : Ctx) : Prop where
  errors : c2.errors = insErrs k x c1.errors
  μ : c2.μ = c1.μ
  β : BMap (insertMap k) c1.β c2.β
  ids : c2.ids = c1.ids
  unexpected : c2.unexpected = insUn k x c1.unexpected
  builds : c2.builds = c1.builds.map (renumber k)
  sane : Sane D c1.μ
  valid : Valid k x c1

/-- unread lines of the two runs: the line `u` is still ahead (as line `k + 1` of the second text;
    the lines `p` before it end in a barrier line, and if there is none the current token is not a
    tag line: `NT`), or has been read by the second run -/
def LinesU (u : Str) (k : Nat) (NT : Prop) (ls1 : List Str) (n1 : Nat) (ls2 : List Str) (n2 : Nat) : Prop :=
  (n2 = n1 ∧ ∃ p q, ls1 = p ++ q ∧ ls2 = p ++ u :: q ∧ n1 + p.length = k ∧ (p = [] → NT) ∧
    (∀ l, p.getLast? = some l → barrierLine l = true)) ∨
  (n2 = n1 + 1 ∧ k ≤ n1 ∧ ls2 = ls1)

/-- both runs end the same way, or the second has run into the error cap -/
def PostU (D : List Dialect) (k : Nat) (x : Option Extra) (cap : Nat) {α} (R : α → α → Prop) (c1 c2 : Ctx)
    (x1 x2 : Except Abort α × Ctx) : Prop :=
  (∃ a1 a2 c1' c2', x1 = (.ok a1, c1') ∧ x2 = (.ok a2, c2') ∧ R a1 a2 ∧ CtxU D k x c1' c2' ∧
    Frame c1 c1' ∧ Frame c2 c2') ∨
  (∃ e c1' c2', x1 = (.error e, c1') ∧ x2 = (.error (mapAbortU k x e), c2') ∧ CtxU D k x c1' c2') ∨
  (∃ e c2', x2 = (.error e, c2') ∧ cap < c2'.errors.length)

def SimU (D : List Dialect) (u : Str) (k : Nat) (x : Option Extra) (cap : Nat) (NT : Prop) {α}
    (R : α → α → Prop) (m1 m2 : PM α) : Prop :=
  ∀ c1 c2, CtxU D k x c1 c2 → LinesU u k NT c1.lines c1.lineNo c2.lines c2.lineNo →
    PostU D k x cap R c1 c2 (run m1 c1) (run m2 c2)

section sim
variable {D : List Dialect} {u : Str} {k : Nat} {x : Option Extra} {cap : Nat} {NT : Prop}

theorem SimU.pure {α} {R : α → α → Prop} {a1 a2 : α} (h : R a1 a2) : SimU D u k x cap NT R (pure a1) (pure a2) :=
  fun c1 c2 hc _ => .inl ⟨a1, a2, c1, c2, rfl, rfl, h, hc, Frame.refl _, Frame.refl _⟩

theorem SimU.throw {α} {R : α → α → Prop} (e : Abort) :
    SimU D u k x cap NT R (throw e : PM α) (throw (mapAbortU k x e)) :=
  fun c1 c2 hc _ => .inr (.inl ⟨e, c1, c2, rfl, rfl, hc⟩)

theorem SimU.bind {α β} {R : α → α → Prop} {S : β → β → Prop} {m1 m2 : PM α} {f1 f2 : α → PM β}
    (h1 : SimU D u k x cap NT R m1 m2) (h2 : ∀ a1 a2, R a1 a2 → SimU D u k x cap NT S (f1 a1) (f2 a2)) :
    SimU D u k x cap NT S (m1 >>= f1) (m2 >>= f2) := by
  intro c1 c2 hc hl
  rcases h1 c1 c2 hc hl with ⟨a1, a2, c1', c2', e1, e2, hr, hc', fr1, fr2⟩ | ⟨e, c1', c2', e1, e2, hc'⟩ |
    ⟨e, c2', e2, hcap⟩
  · rw [prun_bind, prun_bind, e1, e2]
    have hl' : LinesU u k NT c1'.lines c1'.lineNo c2'.lines c2'.lineNo := by
      rw [fr1.1, fr1.2, fr2.1, fr2.2]; exact hl
    rcases h2 a1 a2 hr c1' c2' hc' hl' with ⟨b1, b2, c1'', c2'', e1', e2', hs, hc'', fr1', fr2'⟩ | h | h
    · exact .inl ⟨b1, b2, c1'', c2'', e1', e2', hs, hc'', fr1.trans fr1', fr2.trans fr2'⟩
    · exact .inr (.inl h)
    · exact .inr (.inr h)
  · rw [prun_bind, prun_bind, e1, e2]; exact .inr (.inl ⟨e, c1', c2', rfl, rfl, hc'⟩)
  · rw [prun_bind (m := m2), e2]; exact .inr (.inr ⟨e, c2', rfl, hcap⟩)

theorem SimU.modify {f1 f2 : Ctx → Ctx} (h : ∀ c1 c2, CtxU D k x c1 c2 → CtxU D k x (f1 c1) (f2 c2))
    (hf1 : ∀ c, Frame c (f1 c)) (hf2 : ∀ c, Frame c (f2 c)) :
    SimU D u k x cap NT (fun _ _ => True) (modify f1 : PM PUnit) (modify f2) :=
  fun c1 c2 hc _ => .inl ⟨⟨⟩, ⟨⟩, f1 c1, f2 c2, rfl, rfl, trivial, h c1 c2 hc, hf1 c1, hf2 c2⟩

theorem PostU.frame2 {α} {R : α → α → Prop} {c1 c2 c2' : Ctx} {x1 x2 : Except Abort α × Ctx}
    (h : PostU D k x cap R c1 c2' x1 x2) (fr : Frame c2 c2') : PostU D k x cap R c1 c2 x1 x2 := by
  rcases h with ⟨a1, a2, c1', c2'', e1, e2, hr, hc, fr1, fr2⟩ | h | h
  · exact .inl ⟨a1, a2, c1', c2'', e1, e2, hr, hc, fr1, fr.trans fr2⟩
  · exact .inr (.inl h)
  · exact .inr (.inr h)

theorem PostU.frame1 {α} {R : α → α → Prop} {c1 c1' c2 : Ctx} {x1 x2 : Except Abort α × Ctx}
    (h : PostU D k x cap R c1' c2 x1 x2) (fr : Frame c1 c1') : PostU D k x cap R c1 c2 x1 x2 := by
  rcases h with ⟨a1, a2, c1'', c2'', e1, e2, hr, hc, fr1, fr2⟩ | h | h
  · exact .inl ⟨a1, a2, c1'', c2'', e1, e2, hr, hc, fr.trans fr1, fr2⟩
  · exact .inr (.inl h)
  · exact .inr (.inr h)

theorem sim_addError (e : PErr) :
    SimU D u k x cap NT (fun _ _ => True) (addError cap e) (addError cap (mapErr (insertMap k) e)) := by
  intro c1 c2 hc _
  rw [run_addError, run_addError, hc.errors, insErrs_any k x _ _ (fun y hy => (hc.valid y hy).2.2)]
  by_cases hd : c1.errors.any (fun e' => e'.message == e.message) = true
  · rw [if_pos hd, if_pos hd]
    refine .inl ⟨_, _, _, _, rfl, rfl, trivial, ?_, Frame.refl _, Frame.refl _⟩
    exact ⟨by rw [← hc.errors], hc.μ, hc.β, hc.ids, hc.unexpected, hc.builds, hc.sane, hc.valid⟩
  · rw [if_neg hd, if_neg hd]
    have happ := insErrs_append k x c1.errors e (fun y hy => (hc.valid y hy).1)
    have hc' : CtxU D k x { c1 with errors := c1.errors ++ [e] }
        { c2 with errors := insErrs k x c1.errors ++ [mapErr (insertMap k) e] } :=
      ⟨happ.symm, hc.μ, hc.β, hc.ids, hc.unexpected, hc.builds, hc.sane, fun y hy => by
        obtain ⟨h1, h2, h3⟩ := hc.valid y hy
        exact ⟨by simp only [List.length_append]; omega, h2, h3⟩⟩
    by_cases h2 : (insErrs k x c1.errors ++ [mapErr (insertMap k) e]).length > cap
    · rw [if_pos h2]
      exact .inr (.inr ⟨_, _, rfl, h2⟩)
    · rw [if_neg h2]
      have h1 : ¬ (c1.errors ++ [e]).length > cap := by
        have := insErrs_length k x c1.errors
        simp only [List.length_append, List.length_cons, List.length_nil] at h2 ⊢
        omega
      rw [if_neg h1]
      exact .inl ⟨_, _, _, _, rfl, rfl, trivial, hc', ⟨rfl, rfl⟩, ⟨rfl, rfl⟩⟩

/-- what two related `match_<K>` calls on `t1`, `t2` return -/
def MatchRel (D : List Dialect) (k : Nat) (K : Kind) (t1 : Token) (r1 r2 : Bool × Token) : Prop :=
  r1.1 = r2.1 ∧ TokIns k r1.2 r2.2 ∧ (r1.1 = true → r1.2.col ≠ some 0) ∧ r1.2.line = t1.line ∧
    (r1.1 = true → ∃ μ, mm D K μ t1.line = true)

theorem MatchRel.mk_false {D : List Dialect} {k : Nat} {K : Kind} {t1 a b : Token} (h1 : TokIns k a b)
    (h2 : a.line = t1.line) : MatchRel D k K t1 (false, a) (false, b) :=
  ⟨rfl, h1, fun h => Bool.noConfusion h, h2, fun h => Bool.noConfusion h⟩

theorem sim_matchP (stop : Bool) (K : Kind) {t1 t2 : Token} (ht : TokIns k t1 t2) :
    SimU D u k x cap NT (MatchRel D k K t1) (matchP D cap stop K t1) (matchP D cap stop K t2) := by
  intro c1 c2 hc hl
  rw [run_matchP, run_matchP, hc.μ, ht.matchTok]
  simp only [reOut]
  have hsane := sane_matchTok D K c1.μ t1 hc.sane
  have htok : TokIns k (matchTok D K c1.μ t1).1.tok (reNo ((insertMap k).ln t1.lineNo) (matchTok D K c1.μ t1).1.tok) := by
    unfold TokIns; rw [matchTok_lineNo']
  have hline := (matchTok_tok D K c1.μ t1).1
  have hc' : CtxU D k x
      { c1 with μ := (matchTok D K c1.μ t1).1.μ, calls := c1.calls + (if (matchTok D K c1.μ t1).2 then 1 else 0) }
      { c2 with μ := (matchTok D K c1.μ t1).1.μ, calls := c2.calls + (if (matchTok D K c1.μ t1).2 then 1 else 0) } :=
    ⟨hc.errors, rfl, hc.β, hc.ids, hc.unexpected, hc.builds, hsane, hc.valid⟩
  cases hr : (matchTok D K c1.μ t1).1.res with
  | matched =>
    have hmm : mm D K c1.μ t1.line = true := by
      rw [← matchTok_isMatched, hr]; rfl
    exact .inl ⟨_, _, _, _, rfl, rfl, ⟨rfl, htok, fun _ => matchTok_matched_col0 D K c1.μ t1 hr, hline,
      fun _ => ⟨_, hmm⟩⟩, hc', ⟨rfl, rfl⟩, ⟨rfl, rfl⟩⟩
  | no =>
    exact .inl ⟨_, _, _, _, rfl, rfl, MatchRel.mk_false htok hline, hc',
      ⟨rfl, rfl⟩, ⟨rfl, rfl⟩⟩
  | raised e =>
    rw [reRes_raised hr]
    simp only []
    cases stop with
    | true => exact .inr (.inl ⟨_, _, _, rfl, rfl, hc'⟩)
    | false =>
      simp only [Bool.false_eq_true, ↓reduceIte]
      have hl' : LinesU u k NT c1.lines c1.lineNo c2.lines c2.lineNo := hl
      rcases sim_addError (D := D) (u := u) (NT := NT) e _ _ hc' hl' with
        ⟨_, _, c1', c2', e1, e2, -, hc'', fr1, fr2⟩ | ⟨e', c1', c2', e1, e2, hc''⟩ | ⟨e', c2', e2, hcap⟩
      · rw [e1, e2]
        exact .inl ⟨_, _, _, _, rfl, rfl, MatchRel.mk_false htok hline, hc'',
          fr1, fr2⟩
      · rw [e1, e2]
        exact .inr (.inl ⟨_, _, _, rfl, rfl, hc''⟩)
      · rw [e2]
        exact .inr (.inr ⟨_, _, rfl, hcap⟩)

def AnyRel (D : List Dialect) (k : Nat) (ks : List Kind) (t1 : Token) (r1 r2 : Bool × Token) : Prop :=
  r1.1 = r2.1 ∧ TokIns k r1.2 r2.2 ∧ r1.2.line = t1.line ∧
    (r1.1 = true → ∃ K ∈ ks, ∃ μ, mm D K μ t1.line = true)

theorem sim_matchAny (stop : Bool) (ks : List Kind) {t1 t2 : Token} (ht : TokIns k t1 t2) :
    SimU D u k x cap NT (AnyRel D k ks t1) (matchAny D cap stop ks t1) (matchAny D cap stop ks t2) := by
  induction ks generalizing t1 t2 with
  | nil => exact SimU.pure ⟨rfl, ht, rfl, fun h => by cases h⟩
  | cons K ks ih =>
    unfold matchAny
    refine SimU.bind (sim_matchP stop K ht) fun r1 r2 hr => ?_
    obtain ⟨m1, t1'⟩ := r1
    obtain ⟨m2, t2'⟩ := r2
    obtain ⟨hm, ht', -, hline, hmm⟩ := hr
    simp only at hm ht' hline hmm
    subst hm
    dsimp only
    split
    · rename_i hm1
      exact SimU.pure ⟨rfl, ht', hline, fun _ => by
        obtain ⟨μ, hμ⟩ := hmm hm1
        exact ⟨K, List.mem_cons_self .., μ, hμ⟩⟩
    · intro c1 c2 hc hl
      rcases ih ht' c1 c2 hc hl with ⟨a1, a2, c1', c2', e1, e2, hr, hc', fr⟩ | h | h
      · obtain ⟨h1, h2, h3, h4⟩ := hr
        refine .inl ⟨a1, a2, c1', c2', e1, e2, ⟨h1, h2, h3.trans hline, fun ha => ?_⟩, hc', fr⟩
        obtain ⟨K', hK', μ, hμ⟩ := h4 ha
        exact ⟨K', List.mem_cons_of_mem _ hK', μ, by rw [← hline]; exact hμ⟩
      · exact .inr (.inl h)
      · exact .inr (.inr h)

/-! ### look-ahead -/

theorem sim_peek_after (stop : Bool) (la : LookAhead) :
    ∀ (ls : List Str) (n : Nat), k < n →
      SimU D u k x cap NT Eq (peekLoop D cap stop la ls n) (peekLoop D cap stop la ls (n + 1)) := by
  intro ls
  induction ls with
  | nil =>
    intro n hn
    unfold peekLoop
    have ht : TokIns k { line := none, lineNo := n } { line := none, lineNo := n + 1 } := by
      unfold TokIns reNo; simp only [insertMap_ln_gt k hn]
    refine SimU.bind (sim_matchAny stop _ ht) fun r1 r2 hr => ?_
    obtain ⟨m1, t1'⟩ := r1
    obtain ⟨m2, t2'⟩ := r2
    obtain ⟨hm, ht', -⟩ := hr
    simp only at hm ht'
    subst hm
    dsimp only
    split
    · exact SimU.pure rfl
    · exact SimU.bind (sim_matchAny stop _ ht') fun _ _ _ => SimU.pure rfl
  | cons l ls ih =>
    intro n hn
    unfold peekLoop
    have ht : TokIns k { line := some l, lineNo := n } { line := some l, lineNo := n + 1 } := by
      unfold TokIns reNo; simp only [insertMap_ln_gt k hn]
    refine SimU.bind (sim_matchAny stop _ ht) fun r1 r2 hr => ?_
    obtain ⟨m1, t1'⟩ := r1
    obtain ⟨m2, t2'⟩ := r2
    obtain ⟨hm, ht', -⟩ := hr
    simp only at hm ht'
    subst hm
    dsimp only
    split
    · exact SimU.pure rfl
    · refine SimU.bind (sim_matchAny stop _ ht') fun r1 r2 hr => ?_
      obtain ⟨s1, t1''⟩ := r1
      obtain ⟨s2, t2''⟩ := r2
      obtain ⟨hs, -⟩ := hr
      simp only at hs
      subst hs
      dsimp only
      split
      · exact ih (n + 1) (by omega)
      · exact SimU.pure rfl

/-- a barrier line is matched by no skip kind -/
theorem barrier_not_skip {l : Str} (hb : barrierLine l = true) (K : Kind) (hK : isSkipKind K = true) (μ : MState) :
    mm D K μ (some l) = false := by
  cases h : mm D K μ (some l) with
  | false => rfl
  | true =>
    exfalso
    unfold barrierLine at hb
    rcases skip_head D K hK μ l h with he | ⟨r, he | he⟩
    · rw [he] at hb; cases hb
    · rw [he] at hb; simp at hb
    · rw [he] at hb; simp at hb

/-- a look-ahead before the inserted line stops at the barrier line at the latest -/
theorem sim_peek_before (stop : Bool) {la : LookAhead} (hsk : la.skip.all isSkipKind = true) (q : List Str) :
    ∀ (p : List Str) (n : Nat), p ≠ [] → n + p.length = k + 1 → (∀ l, p.getLast? = some l → barrierLine l = true) →
      SimU D u k x cap NT Eq (peekLoop D cap stop la (p ++ q) n) (peekLoop D cap stop la (p ++ u :: q) n) := by
  intro p
  induction p with
  | nil => intro n h; exact absurd rfl h
  | cons l p ih =>
    intro n _ hn hbar
    simp only [List.cons_append]
    unfold peekLoop
    have hn' : n ≤ k := by simp at hn; omega
    have ht : TokIns k { line := some l, lineNo := n } { line := some l, lineNo := n } := by
      unfold TokIns reNo; simp only [insertMap_ln_le k hn']
    refine SimU.bind (sim_matchAny stop _ ht) fun r1 r2 hr => ?_
    obtain ⟨m1, t1'⟩ := r1
    obtain ⟨m2, t2'⟩ := r2
    obtain ⟨hm, ht', hline, -⟩ := hr
    simp only at hm ht' hline
    subst hm
    dsimp only
    split
    · exact SimU.pure rfl
    · refine SimU.bind (sim_matchAny stop _ ht') fun r1 r2 hr => ?_
      obtain ⟨s1, t1''⟩ := r1
      obtain ⟨s2, t2''⟩ := r2
      obtain ⟨hs, -, -, hmm⟩ := hr
      simp only at hs hmm
      subst hs
      dsimp only
      split
      · rename_i hs1
        cases p with
        | nil =>
          exfalso
          obtain ⟨K, hK, μ, hμ⟩ := hmm hs1
          rw [hline] at hμ
          have := barrier_not_skip (D := D) (hbar l rfl) K (List.all_eq_true.1 hsk K hK) μ
          rw [this] at hμ; cases hμ
        | cons l' p' =>
          exact ih (n + 1) (by simp) (by simp at hn ⊢; omega) (fun z hz => hbar z (by
            rw [List.getLast?_cons_cons]; exact hz))
      · exact SimU.pure rfl

theorem sim_lookaheadPure (stop : Bool) {la : LookAhead} (hsk : la.skip.all isSkipKind = true) (hnt : ¬ NT) :
    SimU D u k x cap NT Eq (lookaheadPure D cap stop la) (lookaheadPure D cap stop la) := by
  intro c1 c2 hc hl
  unfold lookaheadPure
  rw [prun_bind, prun_bind, run_get, run_get]
  simp only []
  rcases hl with ⟨hn, p, q, h1, h2, hk, hp, hbar⟩ | ⟨hn, hk, hls⟩
  · rw [h1, h2, hn]
    exact sim_peek_before stop hsk q p _ (fun hp' => hnt (hp hp')) (by omega) hbar c1 c2 hc
      (.inl ⟨hn, p, q, h1, h2, hk, hp, hbar⟩)
  · rw [hls, hn]
    exact sim_peek_after (u := u) (NT := NT) stop la _ _ (by omega) c1 c2 hc (.inr ⟨hn, hk, hls⟩)

/-! ### productions -/

theorem sim_liftB (stop : Bool) (r : Except BErr Unit) :
    SimU D u k x cap NT (fun _ _ => True) (liftB cap stop r) (liftB cap stop (r.mapError (mapBErr (insertMap k)))) := by
  intro c1 c2 hc hl
  rw [run_liftB, run_liftB]
  rcases r with (w | e) | v
  · exact .inr (.inl ⟨_, _, _, rfl, rfl, hc⟩)
  · simp only [Except.mapError, mapBErr]
    cases stop with
    | true => exact .inr (.inl ⟨_, _, _, rfl, rfl, hc⟩)
    | false => exact sim_addError e c1 c2 hc hl
  · exact .inl ⟨_, _, _, _, rfl, rfl, trivial, hc, Frame.refl _, Frame.refl _⟩

theorem sim_runProd (stop : Bool) {t1 t2 : Token} (p : Prod)
    (ht : p = .build → TokIns k t1 t2 ∧ t1.col ≠ some 0) :
    SimU D u k x cap NT (fun _ _ => True) (runProd cap stop t1 p) (runProd cap stop t2 p) := by
  intro c1 c2 hc hl
  rw [run_runProd, run_runProd]
  cases p with
  | start r =>
    exact .inl ⟨_, _, _, _, rfl, rfl, trivial,
      ⟨hc.errors, hc.μ, hc.β.startRule r, hc.ids, hc.unexpected, hc.builds, hc.sane, hc.valid⟩, ⟨rfl, rfl⟩, ⟨rfl, rfl⟩⟩
  | end_ r =>
    simp only []
    rw [hc.ids]
    obtain ⟨h1, h2, h3, -⟩ := hc.β.endRule c1.ids
    rw [h1, h3]
    have hc' : CtxU D k x { c1 with β := (c1.β.endRule c1.ids).2.1, ids := (c1.β.endRule c1.ids).2.2 }
        { c2 with β := (c2.β.endRule c1.ids).2.1, ids := (c1.β.endRule c1.ids).2.2 } :=
      ⟨hc.errors, hc.μ, h2, rfl, hc.unexpected, hc.builds, hc.sane, hc.valid⟩
    exact (sim_liftB stop _ _ _ hc' hl).frame2 ⟨rfl, rfl⟩ |>.frame1 ⟨rfl, rfl⟩
  | build =>
    simp only []
    obtain ⟨hti, hcol⟩ := ht rfl
    rcases hc.β.build (hti.tokMap hcol) with ⟨w, e1, e2⟩ | ⟨β1, β2, e1, e2, hβ⟩
    · rw [e1, e2]
      exact sim_liftB stop (.error (.crash w)) c1 c2 hc hl
    · rw [e1, e2]
      refine .inl ⟨_, _, _, _, rfl, rfl, trivial,
        ⟨hc.errors, hc.μ, hβ, hc.ids, hc.unexpected, ?_, hc.sane, hc.valid⟩, ⟨rfl, rfl⟩, ⟨rfl, rfl⟩⟩
      show c2.builds ++ [t2] = (c1.builds ++ [t1]).map (renumber k)
      rw [hc.builds, List.map_append, hti]
      rfl

theorem sim_runProds (stop : Bool) {t1 t2 : Token} (ht : TokIns k t1 t2) (hcol : t1.col ≠ some 0) (ps : List Prod) :
    SimU D u k x cap NT (fun _ _ => True) (runProds cap stop t1 ps) (runProds cap stop t2 ps) := by
  induction ps with
  | nil => exact SimU.pure trivial
  | cons p ps ih =>
    unfold runProds
    exact SimU.bind (sim_runProd stop p fun _ => ⟨ht, hcol⟩) fun _ _ _ => ih

/-! ### `match_token` -/

/-- the table facts used: guards sit on `TagLine` tests only; look-aheads step over skip kinds only -/
structure TableOkU (T : Table) : Prop where
  guards : ∀ s row, T.row? s = some row → ∀ b ∈ row.branches, b.guard = none ∨ b.kind = .TagLine
  skips : ∀ (i : Nat) (la : LookAhead), T.lookaheads[i]? = some la → la.skip.all isSkipKind = true

theorem sim_tryBranchesPure {T : Table} (hcap : T.errorCap = cap)
    (hS : ∀ (i : Nat) (la : LookAhead), T.lookaheads[i]? = some la → la.skip.all isSkipKind = true)
    (stop : Bool) (row : StateRow)
    (bs : List Branch) (hG : ∀ b ∈ bs, b.guard = none ∨ b.kind = .TagLine) {t1 t2 : Token} (ht : TokIns k t1 t2)
    (hNT : NT → ∀ μ, mm D .TagLine μ t1.line = false) :
    SimU D u k x cap NT Eq (tryBranchesPure D T stop row bs t1) (tryBranchesPure D T stop row bs t2) := by
  subst hcap
  induction bs generalizing t1 t2 with
  | nil =>
    unfold tryBranchesPure
    rw [unexpectedErr_ins row ht]
    have hno : t2.lineNo = (insertMap k).ln t1.lineNo := by rw [ht]; rfl
    rw [hno]
    refine SimU.bind (SimU.modify (fun c1 c2 hc => ?_) (fun _ => ⟨rfl, rfl⟩) (fun _ => ⟨rfl, rfl⟩)) fun _ _ _ => ?_
    · refine ⟨hc.errors, hc.μ, hc.β, hc.ids, ?_, hc.builds, hc.sane, fun y hy => ?_⟩
      · show c2.unexpected ++ _ = insUn k x (c1.unexpected ++ _)
        rw [insUn_append k x _ _ (fun y hy => (hc.valid y hy).2.1), hc.unexpected]
      · obtain ⟨h1, h2, h3⟩ := hc.valid y hy
        exact ⟨h1, by simp only [List.length_append]; omega, h3⟩
    · cases stop with
      | true => exact SimU.throw (.single _)
      | false =>
        simp only [Bool.false_eq_true, ↓reduceIte]
        exact SimU.bind (sim_addError _) fun _ _ _ => SimU.pure rfl
  | cons br bs ih =>
    unfold tryBranchesPure
    have hG' : ∀ b ∈ bs, b.guard = none ∨ b.kind = .TagLine := fun b hb => hG b (List.mem_cons_of_mem _ hb)
    refine SimU.bind (sim_matchP stop br.kind ht) fun r1 r2 hr => ?_
    obtain ⟨m1, t1'⟩ := r1
    obtain ⟨m2, t2'⟩ := r2
    obtain ⟨hm, ht', hcol, hline, hmm⟩ := hr
    simp only at hm ht' hcol hline hmm
    subst hm
    have hNT' : NT → ∀ μ, mm D .TagLine μ t1'.line = false := by rw [hline]; exact hNT
    dsimp only
    split
    · rename_i hm1
      have hcol' := hcol hm1
      cases hg : br.guard with
      | none =>
        simp only []
        refine SimU.bind (R := fun o1 o2 => o1 = true ∧ o2 = true) (SimU.pure ⟨rfl, rfl⟩) fun o1 o2 ho => ?_
        obtain ⟨rfl, rfl⟩ := ho
        simp only [↓reduceIte]
        exact SimU.bind (sim_runProds stop ht' hcol' _) fun _ _ _ => SimU.pure rfl
      | some i =>
        simp only []
        have hkind : br.kind = .TagLine := by
          rcases hG br (List.mem_cons_self ..) with h | h
          · rw [hg] at h; cases h
          · exact h
        have hnt : ¬ NT := by
          intro h
          obtain ⟨μ, hμ⟩ := hmm hm1
          rw [hkind, hNT h μ] at hμ
          cases hμ
        cases hla : T.lookaheads[i]? with
        | none => exact SimU.bind (R := fun _ _ => False) (SimU.throw (.crash _)) fun _ _ h => h.elim
        | some la =>
          simp only []
          refine SimU.bind (sim_lookaheadPure stop (hS i la hla) hnt) fun o1 o2 ho => ?_
          subst ho
          split
          · exact SimU.bind (sim_runProds stop ht' hcol' _) fun _ _ _ => SimU.pure rfl
          · exact ih hG' ht' hNT'
    · exact ih hG' ht' hNT'

theorem sim_matchTokenPure {T : Table} (hcap : T.errorCap = cap) (hT : TableOkU T) (stop : Bool) (state : Nat)
    {t1 t2 : Token} (ht : TokIns k t1 t2) (hNT : NT → ∀ μ, mm D .TagLine μ t1.line = false) :
    SimU D u k x cap NT Eq (matchTokenPure D T stop state t1) (matchTokenPure D T stop state t2) := by
  unfold matchTokenPure
  cases hrow : T.row? state with
  | none => exact SimU.throw (.crash _)
  | some row => exact sim_tryBranchesPure hcap hT.skips stop row _ (hT.guards state row hrow) ht hNT

end sim
end Recover
end GV
