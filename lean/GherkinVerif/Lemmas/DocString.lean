/-
  Lemmas/DocString.lean — helper lemmas for property C13 (doc strings are opaque).

  Three layers:
    * abstract table level (generic in the table): in a content row every line that is neither
      a doc-string separator nor end of file is taken by the `Other` self-loop;
    * matcher level: `match_Other` always matches and leaves the matcher state alone,
      `match_DocStringSeparator` in active mode matches exactly the lines whose trimmed text
      starts with the active delimiter; shape of the token text; open / close state updates;
    * builder level: `transform_node` on a `DocString` node.
-/
import GherkinVerif.Model.Abstract
import GherkinVerif.Spec.TableFacts
namespace GV.Lemmas

/-! ### string primitives -/

theorem lstrip_eq_drop (l : Str) : lstrip l = l.drop (indentOf l) := by
  induction l with
  | nil => rfl
  | cons c cs ih =>
    unfold lstrip indentOf
    split <;> simp_all

theorem trimmed_eq_drop (l : Str) : trimmed l = l.drop (lineIndent l) := lstrip_eq_drop l

/-- `get_line_text(k)`: drop `k` code points, or all of the line's own indentation if it has less -/
theorem lineText_some (l : Str) (k : Nat) :
    lineText l (some k) = l.drop (min k (lineIndent l)) := by
  unfold lineText
  simp only
  split
  · rename_i h
    rw [trimmed_eq_drop, Nat.min_eq_right (Nat.le_of_lt h)]
  · rename_i h
    rw [Nat.min_eq_left (Nat.le_of_not_gt h)]

/-! ### abstract level -/

theorem passes_docsep_false (k : Kind) (h : k ≠ .DocStringSeparator) :
    passes k .DocStringSeparator = false := by
  cases k <;> first | (exact absurd rfl h) | decide

theorem passes_other_true (k : Kind) (h : k ≠ .EOF) : passes k .Other = true := by
  cases k <;> first | (exact absurd rfl h) | decide

/-- in a content row, a line of any kind but separator / end of file takes the `Other` loop -/
theorem pickBranch_content (T : Table) (r : StateRow) (hr : Spec.isContentRow r = true)
    (k : Kind) (fut : List Kind) (h1 : k ≠ .DocStringSeparator) (h2 : k ≠ .EOF) :
    pickBranch T k fut r.branches = some ⟨.Other, none, [.build], r.id⟩ := by
  unfold Spec.isContentRow at hr
  split at hr
  · rename_i b1 b2 hb
    simp only [Bool.and_eq_true, beq_iff_eq] at hr
    obtain ⟨⟨⟨⟨⟨⟨k1, _⟩, _⟩, k2⟩, g2⟩, p2⟩, t2⟩ := hr
    rw [hb]
    have e2 : b2 = ⟨.Other, none, [.build], r.id⟩ := by
      cases b2; simp_all
    simp [pickBranch, k1, e2, passes_docsep_false k h1, passes_other_true k h2, guardOkAbs]
  · simp at hr

theorem row?_id (T : Table) (s : Nat) (r : StateRow) (h : T.row? s = some r) : r.id = s := by
  unfold Table.row? at h
  have := List.find?_some h
  simpa using this

/-- one step from a content state on such a line -/
theorem stepAbs_content (T : Table) (s : Nat) (r : StateRow) (hs : T.row? s = some r)
    (hr : Spec.isContentRow r = true) (k : Kind) (fut : List Kind)
    (h1 : k ≠ .DocStringSeparator) (h2 : k ≠ .EOF) :
    stepAbs T s k fut = some ⟨.Other, none, [.build], s⟩ := by
  unfold stepAbs
  rw [hs]
  simp only
  rw [pickBranch_content T r hr k fut h1 h2, row?_id T s r hs]

/-- any sequence of such lines is consumed entirely as `Other`, staying in the content state -/
theorem runAbs_content (T : Table) (s : Nat) (r : StateRow) (hs : T.row? s = some r)
    (hr : Spec.isContentRow r = true) (ks rest : List Kind)
    (h : ∀ k ∈ ks, k ≠ .DocStringSeparator ∧ k ≠ .EOF) :
    runAbs T s (ks ++ rest) =
      (runAbs T s rest).map fun p => (p.1, ks.map (fun _ => Ev.build .Other) ++ p.2) := by
  induction ks with
  | nil =>
    simp only [List.nil_append, List.map_nil]
    cases runAbs T s rest <;> rfl
  | cons k ks ih =>
    have hk := h k (by simp)
    have ih' := ih (fun k' hk' => h k' (by simp [hk']))
    simp only [List.cons_append, runAbs]
    rw [stepAbs_content T s r hs hr k (ks ++ rest) hk.1 hk.2]
    simp only
    rw [ih']
    cases runAbs T s rest <;> simp [prodEvents]

/-- in collecting mode no such line is reported as unexpected -/
theorem errorsAbs_content (T : Table) (s : Nat) (r : StateRow) (hs : T.row? s = some r)
    (hr : Spec.isContentRow r = true) (ks rest : List Kind) (i : Nat)
    (h : ∀ k ∈ ks, k ≠ .DocStringSeparator ∧ k ≠ .EOF) :
    errorsAbs T s i (ks ++ rest) = errorsAbs T s (i + ks.length) rest := by
  induction ks generalizing i with
  | nil => simp
  | cons k ks ih =>
    have hk := h k (by simp)
    have ih' := ih (i + 1) (fun k' hk' => h k' (by simp [hk']))
    simp only [List.cons_append, errorsAbs]
    rw [stepAbs_content T s r hs hr k (ks ++ rest) hk.1 hk.2]
    simp only
    rw [ih']
    simp only [List.length_cons]
    congr 1
    omega

/-! ### matcher level -/

theorem matchLine_other (D : List Dialect) (μ : MState) (t : Token) (l : Str) :
    matchLine D .Other μ t l =
      ⟨setMatched μ t .Other (text := some (unescapeDoc μ.activeSep (lineText l (some μ.indentToRemove))))
        (indent := some 0), μ, .matched⟩ := rfl

theorem other_text (D : List Dialect) (μ : MState) (t : Token) (l : Str) :
    (matchLine D .Other μ t l).tok.text =
      some (rstripCRLF (unescapeDoc μ.activeSep (l.drop (min μ.indentToRemove (lineIndent l))))) := by
  rw [matchLine_other, ← lineText_some]
  rfl

theorem matchLine_docsep_active (D : List Dialect) (μ : MState) (t : Token) (l sep : Str)
    (ha : μ.activeSep = some sep) (hne : sep ≠ []) :
    matchLine D .DocStringSeparator μ t l =
      if startsWith sep (trimmed l) = true then
        ⟨setMatched { μ with activeSep := none, indentToRemove := 0 } t .DocStringSeparator
            (text := none) (keyword := some sep),
          { μ with activeSep := none, indentToRemove := 0 }, .matched⟩
      else ⟨t, μ, .no⟩ := by
  have he : sep.isEmpty = false := by cases sep <;> simp_all
  by_cases hs : startsWith sep (trimmed l) = true <;>
    simp [matchLine, ha, he, matchDocSep, lineStartsWith, hs]

theorem docsep_active_iff (D : List Dialect) (μ : MState) (t : Token) (l sep : Str)
    (ha : μ.activeSep = some sep) (hne : sep ≠ []) :
    (matchLine D .DocStringSeparator μ t l).res = .matched ↔ startsWith sep (trimmed l) = true := by
  rw [matchLine_docsep_active D μ t l sep ha hne]
  split <;> simp_all

/-- the opening branch: no active delimiter (or the empty one, which Python treats as falsy) -/
def opening (μ : MState) : Prop := μ.activeSep = none ∨ μ.activeSep = some []

theorem matchLine_docsep_opening (D : List Dialect) (μ : MState) (t : Token) (l : Str)
    (ho : opening μ) :
    matchLine D .DocStringSeparator μ t l =
      if startsWith dq3 (trimmed l) = true then
        ⟨setMatched { μ with activeSep := some dq3, indentToRemove := lineIndent l } t .DocStringSeparator
            (text := some (restTrimmed l 3)) (keyword := some dq3),
          { μ with activeSep := some dq3, indentToRemove := lineIndent l }, .matched⟩
      else if startsWith bt3 (trimmed l) = true then
        ⟨setMatched { μ with activeSep := some bt3, indentToRemove := lineIndent l } t .DocStringSeparator
            (text := some (restTrimmed l 3)) (keyword := some bt3),
          { μ with activeSep := some bt3, indentToRemove := lineIndent l }, .matched⟩
      else ⟨t, μ, .no⟩ := by
  have l1 : dq3.length = 3 := rfl
  have l2 : bt3.length = 3 := rfl
  rcases ho with ho | ho <;>
  · by_cases h1 : startsWith dq3 (trimmed l) = true
    · simp [matchLine, ho, matchDocSep, lineStartsWith, h1, Option.orElse, l1]
    · by_cases h2 : startsWith bt3 (trimmed l) = true
      · simp [matchLine, ho, matchDocSep, lineStartsWith, h1, h2, Option.orElse, l2]
      · simp [matchLine, ho, matchDocSep, lineStartsWith, h1, h2, Option.orElse]

/-- what an opening match does -/
theorem docsep_open (D : List Dialect) (μ : MState) (t : Token) (l : Str) (ho : opening μ)
    (hm : (matchLine D .DocStringSeparator μ t l).res = .matched) :
    ∃ sep, (sep = dq3 ∨ sep = bt3) ∧ startsWith sep (trimmed l) = true ∧
      (matchLine D .DocStringSeparator μ t l).μ =
        { μ with activeSep := some sep, indentToRemove := lineIndent l } ∧
      (matchLine D .DocStringSeparator μ t l).tok.text =
        some (rstripCRLF (strip ((trimmed l).drop 3))) ∧
      (matchLine D .DocStringSeparator μ t l).tok.keyword = some sep ∧
      (matchLine D .DocStringSeparator μ t l).tok.mtype = some .DocStringSeparator := by
  rw [matchLine_docsep_opening D μ t l ho] at hm ⊢
  by_cases h1 : startsWith dq3 (trimmed l) = true
  · exact ⟨dq3, .inl rfl, h1, by simp [h1], by simp [h1, setMatched, restTrimmed],
      by simp [h1, setMatched], by simp [h1, setMatched]⟩
  · by_cases h2 : startsWith bt3 (trimmed l) = true
    · exact ⟨bt3, .inr rfl, h2, by simp [h1, h2], by simp [h1, h2, setMatched, restTrimmed],
        by simp [h1, h2, setMatched], by simp [h1, h2, setMatched]⟩
    · simp [h1, h2] at hm

/-- what a closing match does -/
theorem docsep_close (D : List Dialect) (μ : MState) (t : Token) (l sep : Str)
    (ha : μ.activeSep = some sep) (hne : sep ≠ [])
    (hm : (matchLine D .DocStringSeparator μ t l).res = .matched) :
    (matchLine D .DocStringSeparator μ t l).μ = { μ with activeSep := none, indentToRemove := 0 } ∧
    (matchLine D .DocStringSeparator μ t l).tok.text = none ∧
    (matchLine D .DocStringSeparator μ t l).tok.keyword = some sep ∧
    (matchLine D .DocStringSeparator μ t l).tok.mtype = some .DocStringSeparator := by
  have hs := (docsep_active_iff D μ t l sep ha hne).1 hm
  rw [matchLine_docsep_active D μ t l sep ha hne]
  simp [hs, setMatched]

/-- every other kind of test leaves the delimiter state alone -/
theorem matchLine_keeps_docstate (D : List Dialect) (k : Kind) (μ : MState) (t : Token) (l : Str)
    (hk : k ≠ .DocStringSeparator) :
    (matchLine D k μ t l).μ.activeSep = μ.activeSep ∧
    (matchLine D k μ t l).μ.indentToRemove = μ.indentToRemove := by
  cases k <;> first | (exact absurd rfl hk) | skip
  all_goals simp only [matchLine]
  all_goals (repeat' split) <;> simp

/-! ### `unescapeDoc` -/

theorem unescapeDoc_none (text : Str) : unescapeDoc none text = text := by
  simp [unescapeDoc]

theorem unescapeDoc_dq (text : Str) :
    unescapeDoc (some dq3) text = replaceAll [92, 34, 92, 34, 92, 34] dq3 text := by
  simp [unescapeDoc]

theorem unescapeDoc_bt (text : Str) :
    unescapeDoc (some bt3) text = replaceAll [92, 96, 92, 96, 92, 96] bt3 text := by
  simp [unescapeDoc, dq3, bt3]

theorem unescapeDoc_other (sep : Option Str) (text : Str) (h1 : sep ≠ some dq3) (h2 : sep ≠ some bt3) :
    unescapeDoc sep text = text := by
  simp [unescapeDoc, h1, h2]

/-! ### builder level -/

theorem need_some {α} (what : String) (a : α) : need what (some a) = (pure a : BM α) := rfl

theorem mapM'_need_text (what : String) (ts : List Token) (ls : List Str)
    (h : ts.map (·.text) = ls.map some) :
    mapM' (fun (t : Token) => need what t.text) ts = (pure ls : BM (List Str)) := by
  induction ts generalizing ls with
  | nil =>
    cases ls with
    | nil => rfl
    | cons _ _ => simp at h
  | cons t ts ih =>
    cases ls with
    | nil => simp at h
    | cons x xs =>
      simp only [List.map_cons, List.cons.injEq] at h
      simp only [mapM', h.1, need_some, ih xs h.2, pure_bind]

theorem getLocation_none (t : Token) : getLocation t = t.loc := rfl

/-- `transform_node` on a `DocString` node -/
theorem transformNode_docString (comments : List Comment) (items : List (Key × Val))
    (sep : Token) (rest : List Token) (m d : Str) (ls : List Str)
    (hsep : getTokens items .DocStringSeparator = sep :: rest)
    (hm : sep.text = some m) (hd : sep.keyword = some d)
    (hls : (getTokens items .Other).map (·.text) = ls.map some) :
    transformNode comments ⟨.DocString, items⟩ =
      pure (.docString { loc := sep.loc, content := joinWith [10] ls, delimiter := d,
                         mediaType := if m = [] then none else some m }) := by
  unfold transformNode
  simp only [hsep, hm, hd, need_some, pure_bind, mapM'_need_text _ _ ls hls, getLocation_none]
  cases m <;> simp

theorem dgetTokens_append (a b : List (Key × Val)) (k : Kind) :
    getTokens (a ++ b) k = getTokens a k ++ getTokens b k := by
  simp [getTokens, getItems]

theorem getTokens_others_self (others : List Token) :
    getTokens (others.map (fun t => (Key.tok .Other, Val.tok t))) .Other = others := by
  induction others with
  | nil => rfl
  | cons t ts ih =>
    have := dgetTokens_append [(Key.tok .Other, Val.tok t)]
      (ts.map (fun t => (Key.tok .Other, Val.tok t))) .Other
    simp only [List.map_cons, List.singleton_append] at this ⊢
    rw [this, ih]
    rfl

theorem getTokens_others_sep (others : List Token) :
    getTokens (others.map (fun t => (Key.tok .Other, Val.tok t))) .DocStringSeparator = [] := by
  induction others with
  | nil => rfl
  | cons t ts ih =>
    have := dgetTokens_append [(Key.tok .Other, Val.tok t)]
      (ts.map (fun t => (Key.tok .Other, Val.tok t))) .DocStringSeparator
    simp only [List.map_cons, List.singleton_append] at this ⊢
    rw [this, ih]
    rfl

theorem getTokens_shape_sep (op cl : Token) (others : List Token) :
    getTokens ([(Key.tok .DocStringSeparator, Val.tok op)] ++
        others.map (fun t => (Key.tok .Other, Val.tok t)) ++
        [(Key.tok .DocStringSeparator, Val.tok cl)]) .DocStringSeparator = [op, cl] := by
  rw [dgetTokens_append, dgetTokens_append, getTokens_others_sep]
  rfl

theorem getTokens_shape_other (op cl : Token) (others : List Token) :
    getTokens ([(Key.tok .DocStringSeparator, Val.tok op)] ++
        others.map (fun t => (Key.tok .Other, Val.tok t)) ++
        [(Key.tok .DocStringSeparator, Val.tok cl)]) .Other = others := by
  rw [dgetTokens_append, dgetTokens_append, getTokens_others_self]
  simp [getTokens, getItems]

end GV.Lemmas
