/-
  Lemmas/LayoutDoc7IndentSim.lean — property C16, a doc string moving as one block: the lock-step
  simulation of Lemmas/LayoutDoc3IndentSim.lean / LayoutDoc4IndentSim.lean generalised.

  The matcher states of the two runs are no longer equal: that of the second run has
  `indentToRemove` larger by the SHIFT OF THE OPEN DOC STRING (`CtxS w d`, `shiftMu d`), and that
  shift is a function of the ghost list `builds` of the first run (`Spec.openShift`, invariant
  `CtxB` of the main loop: `d = openShift w c1.builds`).  The builder states are related by the
  relation of Lemmas/LayoutDoc7Builder.lean (`BMapO`: `Other` tokens need only agree in their
  text).  The escape (`BadB`): the scan `Spec.blockScan` of the first run's `builds` fails.
  Per-test lemma: `matchTok_blk` (Lemmas/LayoutDoc7Indent.lean).
-/
import GherkinVerif.Lemmas.LayoutDoc7Indent
namespace GV
namespace Layout7
open Lemmas Spec Layout3 Layout4

/-! ### computations that hand nothing to the builder -/

def SameB {α} (m : PM α) : Prop := ∀ c, (run m c).2.builds = c.builds

theorem SameB.of_run {α} {m : PM α} (h : SameB m) {c c' : Ctx} {r : Except Abort α} (e : run m c = (r, c')) :
    c'.builds = c.builds := by
  have := h c; rw [e] at this; exact this

theorem SameB.pure {α} (a : α) : SameB (pure a : PM α) := fun c => by simp [prun_pure]
theorem SameB.throw {α} (e : Abort) : SameB (throw e : PM α) := fun c => by simp [prun_throw]
theorem SameB.get : SameB (get : PM Ctx) := fun c => by simp [run_get]
theorem SameB.modify {f : Ctx → Ctx} (h : ∀ c, (f c).builds = c.builds) : SameB (modify f : PM PUnit) :=
  fun c => by simp [run_modify, h]

theorem SameB.bind {α β} {m : PM α} {f : α → PM β} (h1 : SameB m) (h2 : ∀ a, SameB (f a)) : SameB (m >>= f) := by
  intro c
  rw [prun_bind]
  have e1 := h1 c
  rcases hr : run m c with ⟨r, c'⟩
  rw [hr] at e1
  cases r with
  | error e => exact e1
  | ok a => simp only []; rw [h2 a c', e1]

theorem sameB_addError (cap : Nat) (e : PErr) : SameB (addError cap e) := by
  intro c
  rw [run_addError]
  split
  · rfl
  · split <;> rfl

theorem sameB_liftB (cap : Nat) (stop : Bool) (r : Except BErr Unit) : SameB (liftB cap stop r) := by
  intro c
  rw [run_liftB]
  split
  · rfl
  · rfl
  · split
    · rfl
    · exact sameB_addError cap _ c

theorem sameB_matchP (D : List Dialect) (cap : Nat) (stop : Bool) (k : Kind) (t : Token) :
    SameB (matchP D cap stop k t) := by
  intro c
  rw [run_matchP]
  simp only []
  split
  · rfl
  · rfl
  · split
    · rfl
    · rename_i e _ _
      have hs := sameB_addError cap e
        { c with μ := (matchTok D k c.μ t).1.μ, calls := c.calls + (if (matchTok D k c.μ t).2 then 1 else 0) }
      rcases hr : run (addError cap e)
        { c with μ := (matchTok D k c.μ t).1.μ, calls := c.calls + (if (matchTok D k c.μ t).2 then 1 else 0) }
        with ⟨r, c2⟩
      rw [hr] at hs
      cases r <;> exact hs

theorem sameB_matchAny (D : List Dialect) (cap : Nat) (stop : Bool) (ks : List Kind) (t : Token) :
    SameB (matchAny D cap stop ks t) := by
  induction ks generalizing t with
  | nil => exact SameB.pure _
  | cons k ks ih =>
    unfold matchAny
    refine SameB.bind (sameB_matchP D cap stop k t) fun r => ?_
    obtain ⟨m, t'⟩ := r
    dsimp only
    split
    · exact SameB.pure _
    · exact ih _

theorem sameB_peekLoop (D : List Dialect) (cap : Nat) (stop : Bool) (la : LookAhead) (ls : List Str) (n : Nat) :
    SameB (peekLoop D cap stop la ls n) := by
  induction ls generalizing n with
  | nil =>
    unfold peekLoop
    refine SameB.bind (sameB_matchAny _ _ _ _ _) fun r => ?_
    obtain ⟨m, t1⟩ := r
    dsimp only
    split
    · exact SameB.pure _
    · exact SameB.bind (sameB_matchAny _ _ _ _ _) fun _ => SameB.pure _
  | cons l ls ih =>
    unfold peekLoop
    refine SameB.bind (sameB_matchAny _ _ _ _ _) fun r => ?_
    obtain ⟨m, t1⟩ := r
    dsimp only
    split
    · exact SameB.pure _
    · refine SameB.bind (sameB_matchAny _ _ _ _ _) fun r => ?_
      obtain ⟨s, t2⟩ := r
      dsimp only
      split
      · exact ih _
      · exact SameB.pure _

theorem sameB_lookaheadPure (D : List Dialect) (cap : Nat) (stop : Bool) (la : LookAhead) :
    SameB (lookaheadPure D cap stop la) := by
  unfold lookaheadPure
  exact SameB.bind SameB.get fun _ => sameB_peekLoop _ _ _ _ _ _

/-- a production other than `build` hands nothing to the builder -/
theorem sameB_runProd (cap : Nat) (stop : Bool) (t : Token) (p : Prod) (hp : p ≠ .build) :
    SameB (runProd cap stop t p) := by
  intro c
  rw [run_runProd]
  cases p with
  | start r => rfl
  | end_ r =>
    exact sameB_liftB cap stop _ { c with β := (c.β.endRule c.ids).2.1, ids := (c.β.endRule c.ids).2.2 }
  | build => exact absurd rfl hp

theorem build_ok_or_crash (β : BState) (t : Token) :
    (∃ β', β.build t = .ok β') ∨ (∃ x, β.build t = .error (.crash x)) := by
  cases hm : t.mtype with
  | none => exact .inr ⟨_, layBuild_unmatched β t hm⟩
  | some k =>
    by_cases hk : k = .Comment
    · subst hk
      rw [layBuild_comment β t hm]
      cases t.text with
      | none => exact .inr ⟨_, rfl⟩
      | some tx => exact .inl ⟨_, rfl⟩
    · rw [layBuild_other β t k hk hm]
      cases addToTop β.stack (.tok k) (.tok t) with
      | none => exact .inr ⟨_, rfl⟩
      | some st => exact .inl ⟨_, rfl⟩

/-- `build` that goes on has handed exactly the token to the builder -/
theorem build_builds (cap : Nat) (stop : Bool) (t : Token) {c c' : Ctx} {a : Unit}
    (e : run (runProd cap stop t .build) c = (.ok a, c')) : c'.builds = c.builds ++ [t] := by
  rw [run_runProd] at e
  simp only [] at e
  rcases build_ok_or_crash c.β t with ⟨β', hb⟩ | ⟨x, hb⟩
  · rw [hb] at e
    cases e
    rfl
  · rw [hb] at e
    simp only [run_liftB] at e
    cases e

theorem openShift_snoc (w : Nat → Nat) (ts : List Token) (t : Token) :
    openShift w (ts ++ [t]) = nextShift w (openShift w ts) t := by
  unfold openShift
  rw [List.foldl_append]
  rfl

theorem nextShift_idem (w : Nat → Nat) (d : Nat) (t : Token) :
    nextShift w (nextShift w d t) t = nextShift w d t := by
  unfold nextShift
  split
  · rfl
  · rename_i h
    split
    · rename_i h'; exact absurd h' h
    · rfl

/-- productions that go on: the shift of the open doc string is that after the token, if they build it -/
theorem runProds_builds (w : Nat → Nat) (cap : Nat) (stop : Bool) (t : Token) :
    ∀ (ps : List Prod) (c c' : Ctx) (a : Unit), run (runProds cap stop t ps) c = (.ok a, c') →
      (.build ∈ ps → openShift w c'.builds = nextShift w (openShift w c.builds) t) ∧
      (.build ∉ ps → c'.builds = c.builds) := by
  intro ps
  induction ps with
  | nil =>
    intro c c' a e
    unfold runProds at e
    rw [prun_pure] at e
    cases e
    exact ⟨fun h => (by cases h), fun _ => rfl⟩
  | cons p ps ih =>
    intro c c' a e
    unfold runProds at e
    rw [prun_bind] at e
    rcases hr : run (runProd cap stop t p) c with ⟨r, c1⟩
    rw [hr] at e
    cases r with
    | error x => cases e
    | ok u =>
      simp only [] at e
      obtain ⟨ih1, ih2⟩ := ih c1 c' a e
      by_cases hp : p = .build
      · subst hp
        have hb := build_builds cap stop t hr
        refine ⟨fun _ => ?_, fun h => absurd List.mem_cons_self h⟩
        by_cases hmem : Prod.build ∈ ps
        · rw [ih1 hmem, hb, openShift_snoc, nextShift_idem]
        · rw [ih2 hmem, hb, openShift_snoc]
      · have hb : c1.builds = c.builds := (sameB_runProd cap stop t p hp).of_run hr
        refine ⟨fun h => ?_, fun h => ?_⟩
        · have hmem : Prod.build ∈ ps := by
            rcases List.mem_cons.1 h with h | h
            · exact absurd h.symm hp
            · exact h
          rw [ih1 hmem, hb]
        · rw [ih2 (fun h' => h (List.mem_cons_of_mem _ h')), hb]

/-! ### related contexts -/

/-- the scan of the first run's built tokens has failed: some line was moved in a way it may not -/
def BadB (w : Nat → Nat) (c : Ctx) : Prop := blockScan w 0 c.builds = false

theorem blockScan_append (w : Nat → Nat) : ∀ (d : Nat) (a b : List Token),
    blockScan w d (a ++ b) = (blockScan w d a && blockScan w (a.foldl (nextShift w) d) b)
  | _, [], _ => rfl
  | d, t :: a, b => by
    simp only [List.cons_append, blockScan, List.foldl_cons, blockScan_append w _ a b, Bool.and_assoc]

theorem growsB_badB {α} {m : PM α} (h : GrowsB m) {w : Nat → Nat} {c : Ctx} (hb : BadB w c) : BadB w (run m c).2 := by
  obtain ⟨suf, e⟩ := h c
  unfold BadB at hb ⊢
  rw [e, blockScan_append, hb]
  rfl

/-- what the two contexts have in common apart from the matcher state: renamed error list (no error
    has column 0), related builder states (`BMapO`), same id counter, same reported lines -/
structure CtxW (w : Nat → Nat) (c1 c2 : Ctx) : Prop where
  errors : c2.errors = c1.errors.map (mapErr (indentMap w))
  errs0 : ∀ e ∈ c1.errors, e.loc.col ≠ some 0
  β : BMapO (indentMap w) c1.β c2.β
  ids : c2.ids = c1.ids
  unexpected : c2.unexpected = c1.unexpected

/-- … and matcher states that differ by `d` in the recorded indentation -/
structure CtxS (w : Nat → Nat) (d : Nat) (c1 c2 : Ctx) : Prop extends CtxW w c1 c2 where
  μ : c2.μ = shiftMu d c1.μ

/-- the invariant of the main loop: the matcher states differ by the shift of the open doc string -/
def CtxB (w : Nat → Nat) (c1 c2 : Ctx) : Prop := CtxS w (openShift w c1.builds) c1 c2

section simB
variable {w : Nat → Nat}

/-- outcome of two computations that touch neither scanner nor matcher -/
def PostW (w : Nat → Nat) {α} (R : α → α → Prop) (c1 c2 : Ctx) (x1 x2 : Except Abort α × Ctx) : Prop :=
  (∃ a1 a2 c1' c2', x1 = (.ok a1, c1') ∧ x2 = (.ok a2, c2') ∧ R a1 a2 ∧ CtxW w c1' c2' ∧
    Frame c1 c1' ∧ Frame c2 c2' ∧ c1'.μ = c1.μ ∧ c2'.μ = c2.μ) ∨
  (∃ e c1' c2', x1 = (.error e, c1') ∧ x2 = (.error (mapAbort (indentMap w) e), c2') ∧ CtxW w c1' c2')

def SimW (w : Nat → Nat) {α} (R : α → α → Prop) (m1 m2 : PM α) : Prop :=
  ∀ c1 c2, CtxW w c1 c2 → PostW w R c1 c2 (run m1 c1) (run m2 c2)


theorem SimW.pure {α} {R : α → α → Prop} {a1 a2 : α} (h : R a1 a2) : SimW w R (pure a1) (pure a2) :=
  fun c1 c2 hc => .inl ⟨a1, a2, c1, c2, rfl, rfl, h, hc, Frame.refl _, Frame.refl _, rfl, rfl⟩


theorem simW_addError (cap : Nat) (e : PErr) (he : e.loc.col ≠ some 0) :
    SimW w (fun _ _ => True) (addError cap e) (addError cap (mapErr (indentMap w) e)) := by
  intro c1 c2 hc
  rw [run_addError, run_addError, hc.errors, any_msg_ind w e he c1.errors hc.errs0]
  have hlen : (c1.errors.map (mapErr (indentMap w)) ++ [mapErr (indentMap w) e]).length =
      (c1.errors ++ [e]).length := by simp
  have hc' : CtxW w { c1 with errors := c1.errors ++ [e] }
      { c2 with errors := c1.errors.map (mapErr (indentMap w)) ++ [mapErr (indentMap w) e] } :=
    ⟨by simp, fun x hx => by
      rcases List.mem_append.1 hx with hx | hx
      · exact hc.errs0 x hx
      · simp only [List.mem_singleton] at hx; rw [hx]; exact he, hc.β, hc.ids, hc.unexpected⟩
  rw [hlen]
  split
  · exact .inl ⟨_, _, _, _, rfl, rfl, trivial, hc, Frame.refl _, Frame.refl _, rfl, rfl⟩
  · split
    · refine .inr ⟨_, _, _, rfl, ?_, hc'⟩
      simp [mapAbort]
    · exact .inl ⟨_, _, _, _, rfl, rfl, trivial, hc', ⟨rfl, rfl⟩, ⟨rfl, rfl⟩, rfl, rfl⟩

theorem simW_liftB (cap : Nat) (stop : Bool) (r : Except BErr Unit) (hr : ∀ e, r = .error e → BErrOk e) :
    SimW w (fun _ _ => True) (liftB cap stop r) (liftB cap stop (r.mapError (mapBErr (indentMap w)))) := by
  intro c1 c2 hc
  rw [run_liftB, run_liftB]
  rcases r with (x | e) | u
  · exact .inr ⟨_, _, _, rfl, rfl, hc⟩
  · simp only [Except.mapError, mapBErr]
    cases stop with
    | true => exact .inr ⟨_, _, _, rfl, rfl, hc⟩
    | false => exact simW_addError cap e (hr _ rfl) c1 c2 hc
  · exact .inl ⟨_, _, _, _, rfl, rfl, trivial, hc, Frame.refl _, Frame.refl _, rfl, rfl⟩

theorem PostW.frames {α} {R : α → α → Prop} {c1 c2 d1 d2 : Ctx} {x1 x2 : Except Abort α × Ctx}
    (h : PostW w R d1 d2 x1 x2) (f1 : Frame c1 d1) (f2 : Frame c2 d2) (m1 : d1.μ = c1.μ) (m2 : d2.μ = c2.μ) :
    PostW w R c1 c2 x1 x2 := by
  rcases h with ⟨a1, a2, c1', c2', e1, e2, hr, hc, fr1, fr2, hm1, hm2⟩ | h
  · exact .inl ⟨a1, a2, c1', c2', e1, e2, hr, hc, f1.trans fr1, f2.trans fr2, hm1.trans m1, hm2.trans m2⟩
  · exact .inr h

/-- a production other than `build`, or `build` of tokens the builder may be handed -/
theorem simW_runProd (cap : Nat) (stop : Bool) {t1 t2 : Token} (p : Prod) (ht : p = .build → BuildOK7 w t1 t2) :
    SimW w (fun _ _ => True) (runProd cap stop t1 p) (runProd cap stop t2 p) := by
  intro c1 c2 hc
  rw [run_runProd, run_runProd]
  cases p with
  | start r =>
    exact .inl ⟨_, _, _, _, rfl, rfl, trivial,
      ⟨hc.errors, hc.errs0, hc.β.startRule r, hc.ids, hc.unexpected⟩, ⟨rfl, rfl⟩, ⟨rfl, rfl⟩, rfl, rfl⟩
  | end_ r =>
    simp only []
    rw [hc.ids]
    obtain ⟨h1, h2, h3, h4⟩ := hc.β.endRule c1.ids
    rw [h1, h3]
    have hc' : CtxW w { c1 with β := (c1.β.endRule c1.ids).2.1, ids := (c1.β.endRule c1.ids).2.2 }
        { c2 with β := (c2.β.endRule c1.ids).2.1, ids := (c1.β.endRule c1.ids).2.2 } :=
      ⟨hc.errors, hc.errs0, h2, rfl, hc.unexpected⟩
    exact (simW_liftB cap stop _ h4 _ _ hc').frames ⟨rfl, rfl⟩ ⟨rfl, rfl⟩ rfl rfl
  | build =>
    simp only []
    have hb : (∃ x, c1.β.build t1 = .error (.crash x) ∧ c2.β.build t2 = .error (.crash x)) ∨
        (∃ β1' β2', c1.β.build t1 = .ok β1' ∧ c2.β.build t2 = .ok β2' ∧ BMapO (indentMap w) β1' β2') := by
      rcases ht rfl with (ht | ⟨k, hk, m1, m2⟩) | ⟨m1, m2, htx⟩
      · exact hc.β.build ht
      · exact hc.β.build_free hk m1 m2
      · exact hc.β.build_other m1 m2 htx
    rcases hb with ⟨x, e1, e2⟩ | ⟨β1, β2, e1, e2, hβ⟩
    · rw [e1, e2]
      exact simW_liftB cap stop (.error (.crash x)) (fun e he => by cases he; trivial) c1 c2 hc
    · rw [e1, e2]
      exact .inl ⟨_, _, _, _, rfl, rfl, trivial,
        ⟨hc.errors, hc.errs0, hβ, hc.ids, hc.unexpected⟩, ⟨rfl, rfl⟩, ⟨rfl, rfl⟩, rfl, rfl⟩

theorem SimW.bind {α β} {R : α → α → Prop} {S : β → β → Prop} {m1 m2 : PM α} {f1 f2 : α → PM β}
    (h1 : SimW w R m1 m2) (h2 : ∀ a1 a2, R a1 a2 → SimW w S (f1 a1) (f2 a2)) :
    SimW w S (m1 >>= f1) (m2 >>= f2) := by
  intro c1 c2 hc
  rcases h1 c1 c2 hc with ⟨a1, a2, c1', c2', e1, e2, hr, hc', fr1, fr2, hm1, hm2⟩ | ⟨e, c1', c2', e1, e2, hc'⟩
  · rw [prun_bind, prun_bind, e1, e2]
    exact (h2 a1 a2 hr c1' c2' hc').frames fr1 fr2 hm1 hm2
  · rw [prun_bind, prun_bind, e1, e2]; exact .inr ⟨e, c1', c2', rfl, rfl, hc'⟩

theorem simW_runProds (cap : Nat) (stop : Bool) {t1 t2 : Token} (ht : BuildOK7 w t1 t2) (ps : List Prod) :
    SimW w (fun _ _ => True) (runProds cap stop t1 ps) (runProds cap stop t2 ps) := by
  induction ps with
  | nil => exact SimW.pure trivial
  | cons p ps ih =>
    unfold runProds
    exact SimW.bind (simW_runProd cap stop p fun _ => ht) fun _ _ _ => ih

/-- the error half of `PostW` -/
def ErrW (w : Nat → Nat) {α} (x1 x2 : Except Abort α × Ctx) : Prop :=
  ∃ e c1' c2', x1 = (.error e, c1') ∧ x2 = (.error (mapAbort (indentMap w) e), c2') ∧ CtxW w c1' c2'


/-- `build` of a bad pair: the first run records the token (escape), unless both crash alike -/
theorem build_bad7 (cap : Nat) (stop : Bool) {d : Nat} {t1 t2 : Token} (ht : BadPair7 w d t1 t2) (c1 c2 : Ctx)
    (hc : CtxW w c1 c2) (hd : openShift w c1.builds = d) :
    ErrW w (run (runProd cap stop t1 .build) c1) (run (runProd cap stop t2 .build) c2) ∨
    BadB w (run (runProd cap stop t1 .build) c1).2 := by
  rw [run_runProd, run_runProd]
  simp only []
  obtain ⟨K, m1, m2, hK, htext⟩ := ht
  have bad : ∀ β', c1.β.build t1 = .ok β' →
      BadB w (match c1.β.build t1 with
        | .ok β' => ((.ok () : Except Abort Unit), { c1 with β := β', builds := c1.builds ++ [t1] })
        | .error e => run (liftB cap stop (.error e)) c1).2 := by
    intro β' hb
    rw [hb]
    show blockScan w 0 (c1.builds ++ [t1]) = false
    unfold openShift at hd
    rw [blockScan_append, hd]
    simp [blockScan, hK]
  by_cases hKc : K = .Comment
  · subst hKc
    obtain ⟨x1, x2⟩ := htext rfl
    cases h1 : t1.text with
    | none => rw [h1] at x1; cases x1
    | some tx =>
      exact .inr (bad _ (by rw [layBuild_comment _ _ m1, h1]))
  · rw [layBuild_other _ _ K hKc m1, layBuild_other _ _ K hKc m2] at *
    have hst := hc.β.1
    revert hst bad
    generalize c1.β.stack = s1
    generalize c2.β.stack = s2
    intro bad hst
    cases hst with
    | nil =>
      left
      simp only [addToTop, run_liftB]
      exact ⟨_, c1, c2, rfl, rfl, hc⟩
    | cons _ _ => exact .inr (bad _ rfl)

/-- productions that hand a bad pair to the builder: both runs abort alike before that, or the
    first run records the token -/
theorem runProds_bad7 (cap : Nat) (stop : Bool) {d : Nat} {t1 t2 : Token} (ht : BadPair7 w d t1 t2) :
    ∀ (ps : List Prod), .build ∈ ps → ∀ c1 c2, CtxW w c1 c2 → openShift w c1.builds = d →
      ErrW w (run (runProds cap stop t1 ps) c1) (run (runProds cap stop t2 ps) c2) ∨
      BadB w (run (runProds cap stop t1 ps) c1).2 := by
  intro ps
  induction ps with
  | nil => intro h; cases h
  | cons p ps ih =>
    intro hmem c1 c2 hc hd
    unfold runProds
    rw [prun_bind, prun_bind]
    by_cases hp : p = .build
    · subst hp
      rcases build_bad7 cap stop ht c1 c2 hc hd with h | hbad
      · obtain ⟨e, c1', c2', e1, e2, hc'⟩ := h
        rw [e1, e2]
        exact .inl ⟨e, c1', c2', rfl, rfl, hc'⟩
      · right
        rcases hr : run (runProd cap stop t1 .build) c1 with ⟨r, c1'⟩
        rw [hr] at hbad
        cases r with
        | error e => exact hbad
        | ok a => exact growsB_badB (growsB_runProds cap stop t1 ps) hbad
    · have hmem' : .build ∈ ps := by
        rcases List.mem_cons.1 hmem with h | h
        · exact absurd h.symm hp
        · exact h
      rcases simW_runProd (w := w) cap stop (t1 := t1) (t2 := t2) p (fun h => absurd h hp) c1 c2 hc with
        ⟨a1, a2, c1', c2', e1, e2, -, hc', -⟩ | ⟨e, c1', c2', e1, e2, hc'⟩
      · have hb : c1'.builds = c1.builds := (sameB_runProd cap stop t1 p hp).of_run e1
        rw [e1, e2]
        exact ih hmem' c1' c2' hc' (by rw [hb]; exact hd)
      · rw [e1, e2]
        exact .inl ⟨e, c1', c2', rfl, rfl, hc'⟩

/-! ### simulation with the matcher: the shift `d` of the open doc string is fixed -/

def PostI (w : Nat → Nat) (d : Nat) {α} (R : α → α → Prop) (c1 c2 : Ctx) (x1 x2 : Except Abort α × Ctx) : Prop :=
  (∃ a1 a2 c1' c2', x1 = (.ok a1, c1') ∧ x2 = (.ok a2, c2') ∧ R a1 a2 ∧ CtxS w d c1' c2' ∧
    Frame c1 c1' ∧ Frame c2 c2') ∨
  ErrW w x1 x2

/-- strict simulation of computations that do not consume lines -/
def SimI (w : Nat → Nat) (d : Nat) {α} (R : α → α → Prop) (m1 m2 : PM α) : Prop :=
  ∀ c1 c2, CtxS w d c1 c2 → LinesRel w c1 c2 → PostI w d R c1 c2 (run m1 c1) (run m2 c2)

variable {d : Nat}

theorem PostW.toI {α} {R : α → α → Prop} {c1 c2 : Ctx} {x1 x2 : Except Abort α × Ctx}
    (h : PostW w R c1 c2 x1 x2) (hμ : c2.μ = shiftMu d c1.μ) : PostI w d R c1 c2 x1 x2 := by
  rcases h with ⟨a1, a2, c1', c2', e1, e2, hr, hc, fr1, fr2, hm1, hm2⟩ | h
  · exact .inl ⟨a1, a2, c1', c2', e1, e2, hr, ⟨hc, by rw [hm2, hm1, hμ]⟩, fr1, fr2⟩
  · exact .inr h

theorem SimW.toI {α} {R : α → α → Prop} {m1 m2 : PM α} (h : SimW w R m1 m2) : SimI w d R m1 m2 :=
  fun c1 c2 hc _ => (h c1 c2 hc.toCtxW).toI hc.μ

theorem SimI.pure {α} {R : α → α → Prop} {a1 a2 : α} (h : R a1 a2) : SimI w d R (pure a1) (pure a2) :=
  fun c1 c2 hc _ => .inl ⟨a1, a2, c1, c2, rfl, rfl, h, hc, Frame.refl _, Frame.refl _⟩

theorem SimI.throw {α} {R : α → α → Prop} (e : Abort) :
    SimI w d R (throw e : PM α) (throw (mapAbort (indentMap w) e)) :=
  fun c1 c2 hc _ => .inr ⟨e, c1, c2, rfl, rfl, hc.toCtxW⟩

theorem SimI.bind {α β} {R : α → α → Prop} {S : β → β → Prop} {m1 m2 : PM α} {f1 f2 : α → PM β}
    (h1 : SimI w d R m1 m2) (h2 : ∀ a1 a2, R a1 a2 → SimI w d S (f1 a1) (f2 a2)) :
    SimI w d S (m1 >>= f1) (m2 >>= f2) := by
  intro c1 c2 hc hl
  rcases h1 c1 c2 hc hl with ⟨a1, a2, c1', c2', e1, e2, hr, hc', fr1, fr2⟩ | ⟨e, c1', c2', e1, e2, hc'⟩
  · rw [prun_bind, prun_bind, e1, e2]
    rcases h2 a1 a2 hr c1' c2' hc' (hl.frame fr1 fr2) with ⟨b1, b2, c1'', c2'', e1', e2', hs, hc'', fr1', fr2'⟩ | h
    · exact .inl ⟨b1, b2, c1'', c2'', e1', e2', hs, hc'', fr1.trans fr1', fr2.trans fr2'⟩
    · exact .inr h
  · rw [prun_bind, prun_bind, e1, e2]; exact .inr ⟨e, c1', c2', rfl, rfl, hc'⟩

theorem PostI.frames {α} {R : α → α → Prop} {c1 c2 d1 d2 : Ctx} {x1 x2 : Except Abort α × Ctx}
    (h : PostI w d R d1 d2 x1 x2) (f1 : Frame c1 d1) (f2 : Frame c2 d2) : PostI w d R c1 c2 x1 x2 := by
  rcases h with ⟨a1, a2, c1', c2', e1, e2, hr, hc, fr1, fr2⟩ | h
  · exact .inl ⟨a1, a2, c1', c2', e1, e2, hr, hc, f1.trans fr1, f2.trans fr2⟩
  · exact .inr h

/-- what two related `match_<k>` calls return: the same verdict, and either everything stays
    related (the shift of the open doc string becomes that after the matched token), or both
    succeeded on a line that may not be moved the way it is -/
def MatchPost7 (w : Nat → Nat) (d : Nat) (K : Kind) (c1 c2 : Ctx) (x1 x2 : Except Abort (Bool × Token) × Ctx) : Prop :=
  (∃ m t1' t2' c1' c2', x1 = (.ok (m, t1'), c1') ∧ x2 = (.ok (m, t2'), c2') ∧ Frame c1 c1' ∧ Frame c2 c2' ∧
    CtxW w c1' c2' ∧
    ((c2'.μ = shiftMu (if m = true then nextShift w d t1' else d) c1'.μ ∧ (m = false → TokInd w t1' t2') ∧
        (m = true → BuildOK7 w t1' t2') ∧ (m = true → K ∈ Spec.structural → TokInd w t1' t2') ∧
        (m = true → t1'.mtype = some K)) ∨
      (m = true ∧ BadPair7 w d t1' t2' ∧ indentable K = false ∧ (K ≠ .Language → c2'.μ = shiftMu d c1'.μ)))) ∨
  ErrW w x1 x2

theorem blk_matchP {D : List Dialect} (cap : Nat) (stop : Bool) (K : Kind) {t1 t2 : Token} (ht : TokInd w t1 t2)
    (c1 c2 : Ctx) (hc : CtxS w d c1 c2) :
    MatchPost7 w d K c1 c2 (run (matchP D cap stop K t1) c1) (run (matchP D cap stop K t2) c2) := by
  rw [run_matchP, run_matchP, hc.μ]
  obtain ⟨hinv, hgb⟩ := matchTok_blk w D K c1.μ d ht
  simp only []
  have hcW : ∀ μ1 μ2 n1 n2, CtxW w { c1 with μ := μ1, calls := n1 } { c2 with μ := μ2, calls := n2 } :=
    fun _ _ _ _ => ⟨hc.errors, hc.errs0, hc.β, hc.ids, hc.unexpected⟩
  rcases hgb with hg | ⟨m1, m2, hbp, hK, hμ⟩
  · cases hr : (matchTok D K c1.μ t1).1.res with
    | matched =>
      have hr2 := hg.res; rw [hr] at hr2
      have hμ := hg.μ; rw [hr] at hμ
      rw [hr2]
      exact .inl ⟨true, _, _, _, _, rfl, rfl, ⟨rfl, rfl⟩, ⟨rfl, rfl⟩, hcW _ _ _ _,
        .inl ⟨hμ, fun h => (by cases h), fun _ => hg.build (by rw [hr]; rfl),
          fun _ hK => hg.tokS (by rw [hr]; rfl) hK, fun _ => hg.mtype (by rw [hr]; rfl)⟩⟩
    | no =>
      have hr2 := hg.res; rw [hr] at hr2
      have hμ := hg.μ; rw [hr] at hμ
      rw [hr2]
      exact .inl ⟨false, _, _, _, _, rfl, rfl, ⟨rfl, rfl⟩, ⟨rfl, rfl⟩, hcW _ _ _ _,
        .inl ⟨hμ, fun _ => hg.tok (by rw [hr]; rfl), fun h => (by cases h), fun h => (by cases h),
          fun h => (by cases h)⟩⟩
    | raised e =>
      have hr2 := hg.res; rw [hr] at hr2
      have hμ := hg.μ; rw [hr] at hμ
      rw [hr2]
      simp only [mapRes]
      cases stop with
      | true => exact .inr ⟨_, _, _, rfl, rfl, hcW _ _ _ _⟩
      | false =>
        simp only [Bool.false_eq_true, ↓reduceIte]
        rcases simW_addError cap e (matchTok_raised_col0 D K c1.μ t1 e hr) _ _ (hcW (matchTok D K c1.μ t1).1.μ
            (matchTok D K (shiftMu d c1.μ) t2).1.μ (c1.calls + if (matchTok D K c1.μ t1).2 = true then 1 else 0)
            (c2.calls + if (matchTok D K (shiftMu d c1.μ) t2).2 = true then 1 else 0)) with
          ⟨_, _, c1', c2', e1, e2, -, hc', fr1, fr2, hm1, hm2⟩ | ⟨e', c1', c2', e1, e2, hc'⟩
        · rw [e1, e2]
          refine .inl ⟨false, _, _, _, _, rfl, rfl, fr1, fr2, hc',
            .inl ⟨?_, fun _ => hg.tok (by rw [hr]; rfl), fun h => (by cases h), fun h => (by cases h),
              fun h => (by cases h)⟩⟩
          rw [hm2, hm1]; exact hμ
        · rw [e1, e2]
          exact .inr ⟨_, _, _, rfl, rfl, hc'⟩
  · rw [m1, m2]
    exact .inl ⟨true, _, _, _, _, rfl, rfl, ⟨rfl, rfl⟩, ⟨rfl, rfl⟩, hcW _ _ _ _, .inr ⟨rfl, hbp, hK, hμ⟩⟩

theorem blk_matchAny {D : List Dialect} (cap : Nat) (stop : Bool) (ks : List Kind)
    (hks : ∀ K ∈ ks, K ≠ .DocStringSeparator ∧ K ≠ .Language) {t1 t2 : Token} (ht : TokInd w t1 t2) :
    SimI w d (AnyRelI w) (matchAny D cap stop ks t1) (matchAny D cap stop ks t2) := by
  induction ks generalizing t1 t2 with
  | nil => exact SimI.pure ⟨rfl, fun _ => ht⟩
  | cons K ks ih =>
    intro c1 c2 hc hl
    unfold matchAny
    rw [prun_bind, prun_bind]
    rcases blk_matchP (D := D) cap stop K ht c1 c2 hc with
      ⟨m, t1', t2', c1', c2', e1, e2, fr1, fr2, hcW, hcase⟩ | ⟨e, c1', c2', e1, e2, hc'⟩
    · rw [e1, e2]
      simp only []
      have hμ : c2'.μ = shiftMu d c1'.μ := by
        rcases hcase with ⟨h, -, -, -, hmt⟩ | ⟨-, -, -, h⟩
        · cases m with
          | true =>
            rw [h]
            simp only [↓reduceIte]
            rw [nextShift_of_ne (hmt rfl) (hks K List.mem_cons_self).1]
          | false => exact h
        · exact h (hks K List.mem_cons_self).2
      cases m with
      | true =>
        simp only [↓reduceIte, prun_pure]
        exact .inl ⟨_, _, _, _, rfl, rfl, ⟨rfl, fun h => by cases h⟩, ⟨hcW, hμ⟩, fr1, fr2⟩
      | false =>
        simp only [Bool.false_eq_true, ↓reduceIte]
        have ht' : TokInd w t1' t2' := by
          rcases hcase with ⟨-, h, -⟩ | ⟨h, -⟩
          · exact h rfl
          · cases h
        exact (ih (fun K' hK' => hks K' (List.mem_cons_of_mem _ hK')) ht' c1' c2' ⟨hcW, hμ⟩ (hl.frame fr1 fr2)).frames
          fr1 fr2
    · rw [e1, e2]
      exact .inr ⟨e, c1', c2', rfl, rfl, hc'⟩

theorem blk_peek {D : List Dialect} (cap : Nat) (stop : Bool) {la : LookAhead} (hla : LaOkI la) :
    ∀ (n : Nat) (ls1 ls2 : List Str), LinesInd w n ls1 ls2 →
      SimI w d Eq (peekLoop D cap stop la ls1 (n + 1)) (peekLoop D cap stop la ls2 (n + 1)) := by
  intro n ls1 ls2 h
  induction h with
  | nil n =>
    unfold peekLoop
    refine SimI.bind (blk_matchAny cap stop _ hla.1 (tokInd_eof (n + 1))) fun r1 r2 hr => ?_
    obtain ⟨m1, t1'⟩ := r1
    obtain ⟨m2, t2'⟩ := r2
    obtain ⟨hm, ht'⟩ := hr
    simp only at hm ht'
    subst hm
    dsimp only
    split
    · exact SimI.pure rfl
    · rename_i hm1
      have : m1 = false := by cases m1 <;> simp_all
      exact SimI.bind (blk_matchAny cap stop _ hla.2 (ht' this)) fun _ _ _ => SimI.pure rfl
  | cons ws hws hlen _ ih =>
    unfold peekLoop
    refine SimI.bind (blk_matchAny cap stop _ hla.1 (tokInd_fresh hws hlen)) fun r1 r2 hr => ?_
    obtain ⟨m1, t1'⟩ := r1
    obtain ⟨m2, t2'⟩ := r2
    obtain ⟨hm, ht'⟩ := hr
    simp only at hm ht'
    subst hm
    dsimp only
    split
    · exact SimI.pure rfl
    · rename_i hm1
      have : m1 = false := by cases m1 <;> simp_all
      refine SimI.bind (blk_matchAny cap stop _ hla.2 (ht' this)) fun r1 r2 hr => ?_
      obtain ⟨s1, t1''⟩ := r1
      obtain ⟨s2, t2''⟩ := r2
      obtain ⟨hs, -⟩ := hr
      simp only at hs
      subst hs
      dsimp only
      split
      · exact ih
      · exact SimI.pure rfl

theorem blk_lookaheadPure {D : List Dialect} (cap : Nat) (stop : Bool) {la : LookAhead} (hla : LaOkI la) :
    SimI w d Eq (lookaheadPure D cap stop la) (lookaheadPure D cap stop la) := by
  intro c1 c2 hc hl
  unfold lookaheadPure
  rw [prun_bind, prun_bind, run_get, run_get]
  simp only []
  rw [hl.1]
  exact blk_peek cap stop hla c1.lineNo c1.lines c2.lines hl.2 c1 c2 hc hl

/-! ### `match_token`: the shift of the open doc string follows the built tokens -/

def PostB (w : Nat → Nat) {α} (c1 c2 : Ctx) (x1 x2 : Except Abort α × Ctx) : Prop :=
  (∃ a c1' c2', x1 = (.ok a, c1') ∧ x2 = (.ok a, c2') ∧ CtxB w c1' c2' ∧ Frame c1 c1' ∧ Frame c2 c2') ∨
  ErrW w x1 x2

theorem PostB.frames {α} {c1 c2 d1 d2 : Ctx} {x1 x2 : Except Abort α × Ctx} {y : Ctx}
    (h : PostB w d1 d2 x1 x2 ∨ BadB w y) (f1 : Frame c1 d1) (f2 : Frame c2 d2) :
    PostB w c1 c2 x1 x2 ∨ BadB w y := by
  rcases h with (⟨a, c1', c2', e1, e2, hc, fr1, fr2⟩ | h) | h
  · exact .inl (.inl ⟨a, c1', c2', e1, e2, hc, f1.trans fr1, f2.trans fr2⟩)
  · exact .inl (.inr h)
  · exact .inr h

/-- a computation that touches neither matcher nor `builds` keeps the loop invariant -/
theorem PostW.toB {α} {c1 c2 : Ctx} {x1 x2 : Except Abort α × Ctx} (h : PostW w Eq c1 c2 x1 x2)
    (hμ : c2.μ = shiftMu d c1.μ) (hb : ∀ a c1', x1 = (.ok a, c1') → openShift w c1'.builds = d) :
    PostB w c1 c2 x1 x2 := by
  rcases h with ⟨a1, a2, c1', c2', e1, e2, hr, hc, fr1, fr2, hm1, hm2⟩ | h
  · subst hr
    refine .inl ⟨a1, c1', c2', e1, e2, ⟨hc, ?_⟩, fr1, fr2⟩
    rw [hb a1 c1' e1, hm2, hm1, hμ]
  · exact .inr h

theorem blk_tryBranchesPure {D : List Dialect} {T : Table}
    (hL : ∀ (i : Nat) (la : LookAhead), T.lookaheads[i]? = some la → LaOkI la) (stop : Bool) (row : StateRow)
    (bs : List Branch) (hbs : BranchesOk bs) {t1 t2 : Token} (ht : TokInd w t1 t2) :
    ∀ c1 c2, CtxB w c1 c2 → LinesRel w c1 c2 →
      PostB w c1 c2 (run (tryBranchesPure D T stop row bs t1) c1) (run (tryBranchesPure D T stop row bs t2) c2) ∨
      BadB w (run (tryBranchesPure D T stop row bs t1) c1).2 := by
  induction bs generalizing t1 t2 with
  | nil =>
    intro c1 c2 hc hl
    unfold tryBranchesPure
    obtain ⟨he, hcol, hno⟩ := unexpectedErr_ind (w := w) row ht
    rw [he, hno]
    have hsim : SimW w Eq
        (do modify (fun c => { c with unexpected := c.unexpected ++ [t1.lineNo] })
            if stop = true then throw (Abort.single (unexpectedErr row t1))
            else do addError T.errorCap (unexpectedErr row t1); Pure.pure row.errTarget : PM Nat)
        (do modify (fun c => { c with unexpected := c.unexpected ++ [t1.lineNo] })
            if stop = true then throw (Abort.single (mapErr (indentMap w) (unexpectedErr row t1)))
            else do addError T.errorCap (mapErr (indentMap w) (unexpectedErr row t1)); Pure.pure row.errTarget : PM Nat) := by
      refine SimW.bind (R := fun _ _ => True) ?_ fun _ _ _ => ?_
      · intro c1 c2 hc
        rw [run_modify, run_modify]
        exact .inl ⟨⟨⟩, ⟨⟩, _, _, rfl, rfl, trivial,
          ⟨hc.errors, hc.errs0, hc.β, hc.ids, by simp [hc.unexpected]⟩, ⟨rfl, rfl⟩, ⟨rfl, rfl⟩, rfl, rfl⟩
      · cases stop with
        | true => exact fun c1 c2 hc => .inr ⟨_, c1, c2, rfl, rfl, hc⟩
        | false =>
          simp only [Bool.false_eq_true, ↓reduceIte]
          exact SimW.bind (simW_addError _ _ hcol) fun _ _ _ => SimW.pure rfl
    have hsame : SameB
        (do modify (fun c => { c with unexpected := c.unexpected ++ [t1.lineNo] })
            if stop = true then throw (Abort.single (unexpectedErr row t1))
            else do addError T.errorCap (unexpectedErr row t1); Pure.pure row.errTarget : PM Nat) := by
      refine SameB.bind (SameB.modify fun c => rfl) fun _ => ?_
      split
      · exact SameB.throw _
      · exact SameB.bind (sameB_addError _ _) fun _ => SameB.pure _
    exact .inl ((hsim c1 c2 hc.toCtxW).toB hc.μ fun a c1' e => by rw [hsame.of_run e])
  | cons br bs ih =>
    have hbs' : BranchesOk bs := fun b hb => hbs b (List.mem_cons_of_mem _ hb)
    obtain ⟨hguard, hbuild⟩ := hbs br List.mem_cons_self
    intro c1 c2 hc hl
    unfold tryBranchesPure
    rw [prun_bind, prun_bind]
    rcases blk_matchP (D := D) T.errorCap stop br.kind ht c1 c2 hc with
      ⟨m, t1', t2', c1', c2', e1, e2, fr1, fr2, hcW, hcase⟩ | ⟨e, c1', c2', e1, e2, hc'⟩
    · have hb1 : c1'.builds = c1.builds := (sameB_matchP D T.errorCap stop br.kind t1).of_run e1
      rw [e1, e2]
      simp only []
      have hl' := hl.frame fr1 fr2
      cases m with
      | false =>
        simp only [Bool.false_eq_true, ↓reduceIte]
        rcases hcase with ⟨hμ, htok, -, -⟩ | ⟨h, -⟩
        · simp only [Bool.false_eq_true, ↓reduceIte] at hμ
          exact PostB.frames (ih hbs' (htok rfl) c1' c2' ⟨hcW, by rw [hb1]; exact hμ⟩ hl') fr1 fr2
        · cases h
      | true =>
        simp only [↓reduceIte]
        rcases hcase with ⟨hμ, -, hbuildOK, htokS, hmt⟩ | ⟨-, hbp, hK, -⟩
        · -- related tokens: the guard, then the productions or the next test
          simp only [↓reduceIte] at hμ
          have take : ∀ c1' c2', CtxW w c1' c2' →
              c2'.μ = shiftMu (nextShift w (openShift w c1'.builds) t1') c1'.μ →
              PostB w c1' c2' (run (do runProds T.errorCap stop t1' br.prods; Pure.pure br.target : PM Nat) c1')
                (run (do runProds T.errorCap stop t2' br.prods; Pure.pure br.target : PM Nat) c2') := by
            intro d1 d2 hdW hdμ
            rw [prun_bind, prun_bind]
            rcases simW_runProds (w := w) T.errorCap stop (hbuildOK rfl) br.prods d1 d2 hdW with
              ⟨a1, a2, d1', d2', r1, r2, -, hd', g1, g2, hm1, hm2⟩ | ⟨e, d1', d2', r1, r2, hd'⟩
            · rw [r1, r2]
              simp only [prun_pure]
              refine .inl ⟨_, d1', d2', rfl, rfl, ⟨hd', ?_⟩, g1, g2⟩
              rw [(runProds_builds w T.errorCap stop t1' br.prods d1 d1' a1 r1).1 hbuild, hm2, hm1, hdμ]
            · rw [r1, r2]
              exact .inr ⟨e, d1', d2', rfl, rfl, hd'⟩
          refine PostB.frames ?_ fr1 fr2
          cases hg : br.guard with
          | none =>
            simp only []
            rw [prun_bind, prun_bind, prun_pure, prun_pure]
            simp only [↓reduceIte]
            exact .inl (take c1' c2' hcW (by rw [hb1]; exact hμ))
          | some i =>
            simp only []
            obtain ⟨hks, hind⟩ := hguard (by rw [hg]; exact fun h => by cases h)
            have hKd : br.kind ≠ .DocStringSeparator := by
              intro h; rw [h] at hind; cases hind
            have hd' : nextShift w (openShift w c1.builds) t1' = openShift w c1.builds :=
              nextShift_of_ne (hmt rfl) hKd
            have hcS : CtxS w (openShift w c1.builds) c1' c2' := ⟨hcW, by rw [hμ, hd']⟩
            cases hla : T.lookaheads[i]? with
            | none =>
              simp only []
              rw [prun_bind, prun_bind, prun_throw, prun_throw]
              exact .inl (.inr ⟨_, c1', c2', rfl, rfl, hcW⟩)
            | some la =>
              simp only []
              rw [prun_bind, prun_bind]
              rcases blk_lookaheadPure (w := w) (d := openShift w c1.builds) (D := D) T.errorCap stop (hL i la hla)
                  c1' c2' hcS hl' with
                ⟨o1, o2, c1'', c2'', r1, r2, ho, hc'', g1, g2⟩ | ⟨e, c1'', c2'', r1, r2, hc''⟩
              · have hb2 : c1''.builds = c1'.builds := (sameB_lookaheadPure D T.errorCap stop la).of_run r1
                rw [r1, r2]
                subst ho
                simp only []
                refine PostB.frames ?_ g1 g2
                split
                · refine .inl (take c1'' c2'' hc''.toCtxW ?_)
                  rw [hb2, hb1, hd']
                  exact hc''.μ
                · exact ih hbs' (htokS rfl hks) c1'' c2'' ⟨hc''.toCtxW, by rw [hb2, hb1]; exact hc''.μ⟩ (hl'.frame g1 g2)
              · rw [r1, r2]
                exact .inl (.inr ⟨e, c1'', c2'', rfl, rfl, hc''⟩)
        · -- a line that may not be moved the way it is has been matched: unguarded, built
          have hg : br.guard = none := by
            cases hg : br.guard with
            | none => rfl
            | some i =>
              have := (hguard (by rw [hg]; exact fun h => by cases h)).2
              rw [hK] at this; cases this
          rw [hg]
          simp only []
          rw [prun_bind, prun_bind, prun_pure, prun_pure]
          simp only [↓reduceIte]
          rw [prun_bind, prun_bind]
          rcases runProds_bad7 T.errorCap stop hbp br.prods hbuild c1' c2' hcW (by rw [hb1]) with
            ⟨e, c1'', c2'', r1, r2, hc''⟩ | hbad
          · rw [r1, r2]
            exact .inl (.inr ⟨e, c1'', c2'', rfl, rfl, hc''⟩)
          · refine .inr ?_
            rcases hr : run (runProds T.errorCap stop t1' br.prods) c1' with ⟨r, c1''⟩
            rw [hr] at hbad
            cases r with
            | error e => exact hbad
            | ok a => exact hbad
    · rw [e1, e2]
      exact .inl (.inr ⟨e, c1', c2', rfl, rfl, hc'⟩)


theorem blk_matchTokenPure {D : List Dialect} {T : Table} (hT : TableOkInd T) (stop : Bool) (state : Nat)
    {t1 t2 : Token} (ht : TokInd w t1 t2) :
    ∀ c1 c2, CtxB w c1 c2 → LinesRel w c1 c2 →
      PostB w c1 c2 (run (matchTokenPure D T stop state t1) c1) (run (matchTokenPure D T stop state t2) c2) ∨
      BadB w (run (matchTokenPure D T stop state t1) c1).2 := by
  unfold matchTokenPure
  cases hrow : T.row? state with
  | none =>
    intro c1 c2 hc _
    simp only []
    rw [prun_throw, prun_throw]
    exact .inl (.inr ⟨_, c1, c2, rfl, rfl, hc.toCtxW⟩)
  | some row =>
    exact blk_tryBranchesPure hT.la stop row _ (hT.rows row (List.mem_of_find?_eq_some hrow)) ht

/-- both loops end the same way -/
def PostLB (w : Nat → Nat) {α} (x1 x2 : Except Abort α × Ctx) : Prop :=
  (∃ a c1' c2', x1 = (.ok a, c1') ∧ x2 = (.ok a, c2') ∧ CtxB w c1' c2') ∨ ErrW w x1 x2

theorem CtxB.lines {c1 c2 : Ctx} (hc : CtxB w c1 c2) (ls1 ls2 : List Str) (n : Nat) (r1 r2 : List Nat) :
    CtxB w { c1 with lines := ls1, lineNo := n, reads := r1 } { c2 with lines := ls2, lineNo := n, reads := r2 } :=
  ⟨⟨hc.errors, hc.errs0, hc.β, hc.ids, hc.unexpected⟩, hc.μ⟩

theorem blk_lines {D : List Dialect} {T : Table} (hT : TableOkInd T) (stop : Bool) :
    ∀ (fuel s : Nat) (c1 c2 : Ctx), CtxB w c1 c2 → LinesRel w c1 c2 →
      PostLB w (run (parseLinesPure D T stop fuel s) c1) (run (parseLinesPure D T stop fuel s) c2) ∨
      BadB w (run (parseLinesPure D T stop fuel s) c1).2 := by
  intro fuel
  induction fuel with
  | zero =>
    intro s c1 c2 hc _
    exact .inl (.inr ⟨.fuel, c1, c2, rfl, rfl, hc.toCtxW⟩)
  | succ fuel ih =>
    intro s c1 c2 hc hl
    obtain ⟨hno, hls⟩ := hl
    cases h1 : c1.lines with
    | nil =>
      rw [h1] at hls
      have h2 : c2.lines = [] := hls.nil_left
      rw [run_lines_nil T stop _ s c1 h1, run_lines_nil T stop _ s c2 h2, hno]
      have hc' : CtxB w { c1 with lineNo := c1.lineNo + 1, reads := c1.reads ++ [c1.lineNo + 1] }
          { c2 with lineNo := c1.lineNo + 1, reads := c2.reads ++ [c1.lineNo + 1] } :=
        hc.lines _ _ _ _ _
      have hl' : LinesRel w { c1 with lineNo := c1.lineNo + 1, reads := c1.reads ++ [c1.lineNo + 1] }
          { c2 with lineNo := c1.lineNo + 1, reads := c2.reads ++ [c1.lineNo + 1] } := by
        refine ⟨rfl, ?_⟩
        show LinesInd w (c1.lineNo + 1) c1.lines c2.lines
        rw [h1, h2]; exact .nil _
      rcases blk_matchTokenPure hT stop s (tokInd_eof (c1.lineNo + 1)) _ _ hc' hl' with
        (⟨s1, c1', c2', e1, e2, hc'', -, -⟩ | ⟨e, c1', c2', e1, e2, hc''⟩) | hbad
      · rw [e1, e2]
        exact .inl (.inl ⟨s1, c1', c2', rfl, rfl, hc''⟩)
      · rw [e1, e2]
        exact .inl (.inr ⟨e, c1', c2', rfl, rfl, hc''⟩)
      · exact .inr hbad
    | cons l ls =>
      rw [h1] at hls
      obtain ⟨ws, ls2, h2, hws, hlen, hrest⟩ := hls.cons_left
      rw [run_lines_cons T stop _ s c1 h1, run_lines_cons T stop _ s c2 h2, hno]
      have hc' : CtxB w { c1 with lines := ls, lineNo := c1.lineNo + 1, reads := c1.reads ++ [c1.lineNo + 1] }
          { c2 with lines := ls2, lineNo := c1.lineNo + 1, reads := c2.reads ++ [c1.lineNo + 1] } :=
        hc.lines _ _ _ _ _
      have hl' : LinesRel w { c1 with lines := ls, lineNo := c1.lineNo + 1, reads := c1.reads ++ [c1.lineNo + 1] }
          { c2 with lines := ls2, lineNo := c1.lineNo + 1, reads := c2.reads ++ [c1.lineNo + 1] } :=
        ⟨rfl, hrest⟩
      rcases blk_matchTokenPure hT stop s (tokInd_fresh (l := l) hws hlen) _ _ hc' hl' with
        (⟨s1, c1', c2', e1, e2, hc'', fr1, fr2⟩ | ⟨e, c1', c2', e1, e2, hc''⟩) | hbad
      · rw [e1, e2]
        exact ih s1 c1' c2' hc'' (LinesRel.frame hl' fr1 fr2)
      · rw [e1, e2]
        exact .inl (.inr ⟨e, c1', c2', rfl, rfl, hc''⟩)
      · refine .inr ?_
        rcases hr : run (matchTokenPure D T stop s { line := some l, lineNo := c1.lineNo + 1 })
          { c1 with lines := ls, lineNo := c1.lineNo + 1, reads := c1.reads ++ [c1.lineNo + 1] } with ⟨r, c1'⟩
        rw [hr] at hbad
        cases r with
        | error e => exact hbad
        | ok s' => exact growsB_badB (growsB_parseLinesPure D T stop fuel s') hbad
theorem blk_body {D : List Dialect} {T : Table} (hT : TableOkInd T) (stop : Bool) (n : Nat) {c1 c2 : Ctx}
    (hc : CtxB w c1 c2) (hl : LinesRel w c1 c2) :
    ((∃ d c1' c2', run (parseBodyPure D T stop n) c1 = (.ok d, c1') ∧
        run (parseBodyPure D T stop n) c2 = (.ok (mapDoc (indentMap w) d), c2') ∧ CtxW w c1' c2') ∨
      ErrW w (run (parseBodyPure D T stop n) c1) (run (parseBodyPure D T stop n) c2)) ∨
    BadB w (run (parseBodyPure D T stop n) c1).2 := by
  unfold parseBodyPure
  rw [prun_bind, prun_bind, run_modify, run_modify]
  simp only []
  rw [prun_bind, prun_bind]
  have hc0 : CtxB w { c1 with β := c1.β.startRule T.startRule } { c2 with β := c2.β.startRule T.startRule } :=
    ⟨⟨hc.errors, hc.errs0, hc.β.startRule _, hc.ids, hc.unexpected⟩, hc.μ⟩
  have hl0 : LinesRel w { c1 with β := c1.β.startRule T.startRule } { c2 with β := c2.β.startRule T.startRule } := hl
  -- the rest of the body only appends to the built tokens
  have tail_grows : ∀ a : Nat, GrowsB (do
      runProd T.errorCap stop default (.end_ T.startRule)
      let ctx ← get
      if !ctx.errors.isEmpty then throw (.composite ctx.errors)
      match ctx.β.result with
      | .ok (some d) => Pure.pure d
      | .ok none => throw (.crash "get_result returned None")
      | .error (.crash w) => throw (.crash w)
      | .error (.ast e) => throw (.single e) : PM Doc) := by
    intro _
    refine GrowsB.bind (growsB_runProd _ _ _ _) fun _ => GrowsB.bind GrowsB.get fun ctx => ?_
    dsimp only
    split
    · exact GrowsB.bind (GrowsB.throw _) fun _ => by split <;> first | exact GrowsB.pure _ | exact GrowsB.throw _
    · split <;> first | exact GrowsB.pure _ | exact GrowsB.throw _
  rcases blk_lines hT stop (n + 2) 0 _ _ hc0 hl0 with (⟨a, c1', c2', r1, r2, hc'⟩ | ⟨e, c1', c2', r1, r2, hc'⟩) | hbad
  · rw [r1, r2]
    simp only []
    rw [prun_bind, prun_bind]
    rcases simW_runProd (w := w) T.errorCap stop (t1 := default) (t2 := default) (.end_ T.startRule)
        (fun h => by cases h) c1' c2' hc'.toCtxW with
      ⟨_, _, c1'', c2'', r1', r2', -, hc'', -, -, -, -⟩ | ⟨e, c1'', c2'', r1', r2', hc''⟩
    · rw [r1', r2']
      simp only []
      rw [prun_bind, prun_bind, run_get, run_get]
      simp only []
      have hemp : c2''.errors.isEmpty = c1''.errors.isEmpty := by rw [hc''.errors]; simp
      rw [hemp]
      by_cases he : (!c1''.errors.isEmpty) = true
      · rw [if_pos he, if_pos he, prun_bind, prun_bind, prun_throw, prun_throw]
        refine .inl (.inr ⟨_, _, _, rfl, ?_, hc''⟩)
        simp only [mapAbort, hc''.errors]
      · rw [if_neg he, if_neg he, hc''.β.result]
        cases hres : c1''.β.result with
        | error e =>
          cases e with
          | crash x => exact .inl (.inr ⟨_, _, _, rfl, rfl, hc''⟩)
          | ast e => exact absurd hres (result_not_ast _ _)
        | ok o =>
          cases o with
          | none => exact .inl (.inr ⟨_, _, _, rfl, rfl, hc''⟩)
          | some d => exact .inl (.inl ⟨_, _, _, rfl, rfl, hc''⟩)
    · rw [r1', r2']
      exact .inl (.inr ⟨_, _, _, rfl, rfl, hc''⟩)
  · rw [r1, r2]
    exact .inl (.inr ⟨_, _, _, rfl, rfl, hc'⟩)
  · refine .inr ?_
    rcases hr : run (parseLinesPure D T stop (n + 2) 0) { c1 with β := c1.β.startRule T.startRule } with ⟨r, c1'⟩
    rw [hr] at hbad
    cases r with
    | error e => exact hbad
    | ok a => exact growsB_badB (tail_grows a) hbad

/-- **Whole queue-free parse.**  The text whose lines are those of the original with blanks in
    front is parsed to the outcome of the original with the columns moved — or the scan of the
    original run's built tokens fails (`BadB`: some line was moved in a way it may not). -/
theorem parseWithPure_block {D : List Dialect} {T : Table} (hT : TableOkInd T) (stop : Bool) (μ : MState)
    (ids : Nat) {src src' : Str} (hl : LinesInd w 0 (splitLines src) (splitLines src')) :
    ((parseWithPure D T stop μ ids src').1 = mapOutcome (indentMap w) (parseWithPure D T stop μ ids src).1 ∧
      CtxW w (parseWithPure D T stop μ ids src).2 (parseWithPure D T stop μ ids src').2) ∨
    BadB w (parseWithPure D T stop μ ids src).2 := by
  unfold parseWithPure
  simp only []
  rw [← hl.length_eq]
  have hc0 : CtxB w { lines := splitLines src, μ := μ.reset D, β := BState.reset, ids := ids }
      { lines := splitLines src', μ := μ.reset D, β := BState.reset, ids := ids } :=
    ⟨⟨rfl, fun e he => (by cases he), BMapO.reset, rfl, rfl⟩, (shiftMu_zero _).symm⟩
  have hl0 : LinesRel w ({ lines := splitLines src, μ := μ.reset D, β := BState.reset, ids := ids } : Ctx)
      { lines := splitLines src', μ := μ.reset D, β := BState.reset, ids := ids } := ⟨rfl, hl⟩
  rcases blk_body hT stop (splitLines src).length hc0 hl0 with
    (⟨d, c1', c2', r1, r2, hc'⟩ | ⟨e, c1', c2', r1, r2, hc'⟩) | hbad
  · unfold run at r1 r2
    rw [r1, r2]
    exact .inl ⟨rfl, hc'⟩
  · unfold run at r1 r2
    rw [r1, r2]
    cases e <;> exact .inl ⟨rfl, hc'⟩
  · refine .inr ?_
    unfold run at hbad
    rcases hr : (parseBodyPure D T stop (splitLines src).length).run.run
      { lines := splitLines src, μ := μ.reset D, β := BState.reset, ids := ids } with ⟨r, c⟩
    rw [hr] at hbad
    cases r with
    | ok d => exact hbad
    | error e => cases e <;> exact hbad

end simB

/-- **Indenting lines, a doc string moving as one block**, generic in the dialect table and the
    transition table. -/
theorem indent_parseWith7 {D : List Dialect} {T : Table}
    (hQD : Spec.queueDialectFacts D = true) (hQT : Spec.queueFacts T = true)
    (hCB : Spec.commentBlankTested T = true) (hT : TableOkInd T) (w : Nat → Nat) (stop : Bool) (μ : MState)
    (ids : Nat) {src src' : Str} (hl : LinesInd w 0 (splitLines src) (splitLines src'))
    (hμ : (μ.reset D).dialect ∈ D)
    (hok : blockScan w 0 (parseWith D T stop μ ids src).2.builds = true) :
    (parseWith D T stop μ ids src').1 = mapOutcome (indentMap w) (parseWith D T stop μ ids src).1 ∧
    (parseWith D T stop μ ids src').2.errors = (parseWith D T stop μ ids src).2.errors.map (mapErr (indentMap w)) ∧
    (parseWith D T stop μ ids src').2.ids = (parseWith D T stop μ ids src).2.ids ∧
    (parseWith D T stop μ ids src').2.unexpected = (parseWith D T stop μ ids src).2.unexpected := by
  have q1 := queue_refines_peek D T hQD hQT hCB stop μ ids src hμ
  have q2 := queue_refines_peek D T hQD hQT hCB stop μ ids src' hμ
  have o1 := congrArg Spec.Observed.outcome q1
  have o2 := congrArg Spec.Observed.outcome q2
  have e1 := congrArg Spec.Observed.errors q1
  have e2 := congrArg Spec.Observed.errors q2
  have i1 := congrArg Spec.Observed.ids q1
  have i2 := congrArg Spec.Observed.ids q2
  have u1 := congrArg Spec.Observed.unexpected q1
  have u2 := congrArg Spec.Observed.unexpected q2
  have b1 := congrArg Spec.Observed.builds q1
  simp only [Spec.observe] at o1 o2 e1 e2 i1 i2 u1 u2 b1
  rcases parseWithPure_block (w := w) hT stop μ ids hl with ⟨ho, hc⟩ | hbad
  · exact ⟨by rw [o1, o2]; exact ho, by rw [e1, e2]; exact hc.errors, by rw [i1, i2]; exact hc.ids,
      by rw [u1, u2]; exact hc.unexpected⟩
  · exfalso
    unfold BadB at hbad
    rw [← b1, hok] at hbad
    cases hbad

/-- the scan from its reading "token by token": every token is on a line that may be moved, the
    shift of the open doc string being that after the tokens before it -/
theorem blockScan_of_forall (w : Nat → Nat) : ∀ (ts : List Token) (d : Nat),
    (∀ pre t post, ts = pre ++ t :: post → blockTokOk w (pre.foldl (nextShift w) d) t = true) →
    blockScan w d ts = true
  | [], _, _ => rfl
  | t :: ts, d, h => by
    simp only [blockScan, Bool.and_eq_true]
    refine ⟨h [] t ts rfl, blockScan_of_forall w ts _ fun pre t' post e => ?_⟩
    have := h (t :: pre) t' post (by rw [e]; rfl)
    simpa using this

end Layout7
end GV
