/-
  Lemmas/History.lean — helper definitions and lemmas for C15 (no hidden state).

  * `Consistent`: the matcher's `name`/`dialect` pair is an entry of the dialect table and the
    default name can be looked up — what `MState.reset` needs to restore the default dialect.
  * a small Hoare-style framework for the parser monad `PM` (`PresAt`): a predicate on the
    matcher state that every `match_*` call preserves is preserved by a whole parse.
  * `reset` of consistent states depends on `defaultName` only.
  * the interleaving frame lemma (`runSchedule`) and its instance for parser instances stepped
    one token at a time (`parseStep`).
-/
import GherkinVerif.Model.Parser
namespace GV

/-- The matcher state is consistent with the dialect table: its current dialect is the table's
    entry for its current name, and the default name has an entry. -/
def Consistent (D : List Dialect) (μ : MState) : Prop :=
  findDialect D μ.name = some μ.dialect ∧ (findDialect D μ.defaultName).isSome

/-- run a parser computation from a context: its result or abort, and the context afterwards -/
def runPM {α} (m : PM α) (c : Ctx) : Except Abort α × Ctx := m.run.run c

/-- `f` applied `n` times -/
def iter {σ} (f : σ → σ) : Nat → σ → σ
  | 0, x => x
  | n + 1, x => iter f n (f x)

/-- A system of components stepped by a schedule: entry `i` of the schedule applies `f` to
    component `i` and leaves every other component alone; out-of-range entries do nothing. -/
def runSchedule {σ} (f : σ → σ) (sched : List Nat) (sys : List σ) : List σ :=
  sched.foldl (fun s i => s.modify i f) sys

/-- where a parser instance is in its `while True` loop -/
inductive PStatus
  | running (state : Nat)
  | done (r : Except Abort Nat)

/-- a parser instance between two token reads: its loop status and its whole context (scanner
    position, queue, errors, its own matcher and builder state, its id counter) -/
structure Inst where
  status : PStatus
  ctx : Ctx

/-- one iteration of the loop of `parse`: read a token, match it; returns the next state and
    whether the token was the end of file -/
def parseIter (D : List Dialect) (T : Table) (stop : Bool) (state : Nat) : PM (Nat × Bool) := do
  let t ← readToken
  modify fun c => { c with reads := c.reads ++ [t.lineNo] }
  let state' ← matchToken D T stop state t
  pure (state', t.eof)

/-- one scheduler step of an instance: one loop iteration, or nothing once the loop has ended -/
def parseStep (D : List Dialect) (T : Table) (stop : Bool) (x : Inst) : Inst :=
  match x.status with
  | .done _ => x
  | .running s =>
    match runPM (parseIter D T stop s) x.ctx with
    | (.ok (s', true), c) => ⟨.done (.ok s'), c⟩
    | (.ok (s', false), c) => ⟨.running s', c⟩
    | (.error e, c) => ⟨.done (.error e), c⟩

def Inst.isDone (x : Inst) : Bool :=
  match x.status with
  | .done _ => true
  | .running _ => false

/-- what the loop returns for an instance (still running = the model's fuel ran out) -/
def Inst.result (x : Inst) : Except Abort Nat × Ctx :=
  match x.status with
  | .done r => (r, x.ctx)
  | .running _ => (.error .fuel, x.ctx)

namespace Lemmas

/-! ### Running `PM` computations -/

theorem runPM_pure {α} (a : α) (c : Ctx) : runPM (pure a) c = (.ok a, c) := rfl
theorem runPM_bind {α β} (m : PM α) (f : α → PM β) (c : Ctx) :
    runPM (m >>= f) c = match runPM m c with
      | (.ok a, c') => runPM (f a) c'
      | (.error e, c') => (.error e, c') := by
  simp only [runPM, ExceptT.run_bind, StateT.run_bind]
  show _ = _
  generalize (StateT.run (ExceptT.run m) c) = r
  obtain ⟨r, c'⟩ := r
  cases r <;> rfl
theorem runPM_get (c : Ctx) : runPM (get : PM Ctx) c = (.ok c, c) := rfl
theorem runPM_set (c' c : Ctx) : runPM (set c' : PM PUnit) c = (.ok ⟨⟩, c') := rfl
theorem runPM_modify (g : Ctx → Ctx) (c : Ctx) : runPM (modify g : PM PUnit) c = (.ok ⟨⟩, g c) := rfl
theorem runPM_throw {α} (e : Abort) (c : Ctx) : runPM (throw e : PM α) c = (.error e, c) := rfl

/-! ### Predicates on the matcher state preserved by a computation -/

/-- after running `m` from `c`, the matcher state satisfies `Q` -/
def PresAt {α} (Q : MState → Prop) (m : PM α) (c : Ctx) : Prop := Q (runPM m c).2.μ

section
variable {Q : MState → Prop}

theorem presAt_pure {α} {a : α} {c : Ctx} (h : Q c.μ) : PresAt Q (pure a : PM α) c := h
theorem presAt_throw {α} {e : Abort} {c : Ctx} (h : Q c.μ) : PresAt Q (throw e : PM α) c := h
theorem presAt_set {c' c : Ctx} (h : Q c'.μ) : PresAt Q (set c' : PM PUnit) c := h
theorem presAt_modify {g : Ctx → Ctx} {c : Ctx} (h : Q (g c).μ) : PresAt Q (modify g : PM PUnit) c := h
theorem presAt_bind {α β} {m : PM α} {f : α → PM β} {c : Ctx} (hm : PresAt Q m c)
    (hf : ∀ a c', Q c'.μ → PresAt Q (f a) c') : PresAt Q (m >>= f) c := by
  unfold PresAt at *
  rw [runPM_bind]
  generalize runPM m c = r at hm
  obtain ⟨r, c'⟩ := r
  cases r with
  | ok a => exact hf a c' hm
  | error e => exact hm
theorem presAt_get_bind {β} {f : Ctx → PM β} {c : Ctx} (h : PresAt Q (f c) c) :
    PresAt Q (get >>= f) c := by
  unfold PresAt at *
  rw [runPM_bind, runPM_get]
  exact h

theorem readToken_pres (c : Ctx) (h : Q c.μ) : PresAt Q readToken c := by
  unfold readToken
  apply presAt_get_bind
  split
  · exact presAt_bind (presAt_set h) (fun _ _ h => presAt_pure h)
  · split
    · exact presAt_bind (presAt_set h) (fun _ _ h => presAt_pure h)
    · exact presAt_bind (presAt_set h) (fun _ _ h => presAt_pure h)

theorem addError_pres (cap : Nat) (e : PErr) (c : Ctx) (h : Q c.μ) : PresAt Q (addError cap e) c := by
  unfold addError
  apply presAt_get_bind
  split
  · exact presAt_pure h
  · refine presAt_bind (presAt_set h) (fun _ _ h => ?_)
    split
    · exact presAt_throw h
    · exact presAt_pure h

variable {D : List Dialect} (hQ : ∀ k μ t, Q μ → Q (matchTok D k μ t).1.μ)
include hQ

theorem matchP_pres (cap : Nat) (stop : Bool) (k : Kind) (t : Token) (c : Ctx) (h : Q c.μ) :
    PresAt Q (matchP D cap stop k t) c := by
  unfold matchP
  apply presAt_get_bind
  split
  rename_i out invoked heq
  have hout : Q out.μ := by
    have := hQ k c.μ t h
    rw [heq] at this
    exact this
  refine presAt_bind (presAt_set hout) (fun _ c' h' => ?_)
  split
  · exact presAt_pure h'
  · exact presAt_pure h'
  · split
    · exact presAt_throw h'
    · exact presAt_bind (addError_pres cap _ c' h') (fun _ _ h => presAt_pure h)
omit hQ

theorem liftB_pres (cap : Nat) (stop : Bool) (r : Except BErr Unit) (c : Ctx) (h : Q c.μ) :
    PresAt Q (liftB cap stop r) c := by
  unfold liftB
  split
  · exact presAt_pure h
  · exact presAt_throw h
  · split
    · exact presAt_throw h
    · exact addError_pres cap _ c h

theorem runProd_pres (cap : Nat) (stop : Bool) (t : Token) (p : Prod) (c : Ctx) (h : Q c.μ) :
    PresAt Q (runProd cap stop t p) c := by
  unfold runProd
  apply presAt_get_bind
  split
  · exact presAt_set h
  · split
    exact presAt_bind (presAt_set h) (fun _ c' h' => liftB_pres cap stop _ c' h')
  · split
    · exact presAt_set h
    · exact liftB_pres cap stop _ c h

theorem runProds_pres (cap : Nat) (stop : Bool) (t : Token) (ps : List Prod) (c : Ctx) (h : Q c.μ) :
    PresAt Q (runProds cap stop t ps) c := by
  induction ps generalizing c with
  | nil => exact presAt_pure h
  | cons p ps ih =>
    unfold runProds
    exact presAt_bind (runProd_pres cap stop t p c h) (fun _ c' h' => ih c' h')

include hQ
theorem matchAny_pres (cap : Nat) (stop : Bool) (ks : List Kind) (t : Token) (c : Ctx) (h : Q c.μ) :
    PresAt Q (matchAny D cap stop ks t) c := by
  induction ks generalizing t c with
  | nil => exact presAt_pure h
  | cons k ks ih =>
    unfold matchAny
    refine presAt_bind (matchP_pres hQ cap stop k t c h) (fun a c' h' => ?_)
    split
    split
    · exact presAt_pure h'
    · exact ih _ c' h'

theorem lookaheadLoop_pres (cap : Nat) (stop : Bool) (la : LookAhead) (fuel : Nat) (acc : List Token)
    (c : Ctx) (h : Q c.μ) : PresAt Q (lookaheadLoop D cap stop la fuel acc) c := by
  induction fuel generalizing acc c with
  | zero => exact presAt_throw h
  | succ fuel ih =>
    unfold lookaheadLoop
    refine presAt_bind (readToken_pres c h) (fun t c1 h1 => ?_)
    refine presAt_bind (matchAny_pres hQ cap stop _ t c1 h1) (fun a c2 h2 => ?_)
    split
    split
    · exact presAt_pure h2
    · refine presAt_bind (matchAny_pres hQ cap stop _ _ c2 h2) (fun b c3 h3 => ?_)
      split
      split
      · exact ih _ c3 h3
      · exact presAt_pure h3

theorem lookahead_pres (cap : Nat) (stop : Bool) (la : LookAhead) (c : Ctx) (h : Q c.μ) :
    PresAt Q (lookahead D cap stop la) c := by
  unfold lookahead
  apply presAt_get_bind
  refine presAt_bind (lookaheadLoop_pres hQ cap stop la _ _ c h) (fun a c1 h1 => ?_)
  split
  exact presAt_bind (presAt_modify h1) (fun _ _ h => presAt_pure h)

theorem tryBranches_pres (T : Table) (stop : Bool) (row : StateRow) (bs : List Branch) (t : Token)
    (c : Ctx) (h : Q c.μ) : PresAt Q (tryBranches D T stop row bs t) c := by
  induction bs generalizing t c with
  | nil =>
    unfold tryBranches
    refine presAt_bind (presAt_modify h) (fun _ c1 h1 => ?_)
    split
    · exact presAt_throw h1
    · exact presAt_bind (addError_pres _ _ c1 h1) (fun _ _ h => presAt_pure h)
  | cons b bs ih =>
    unfold tryBranches
    refine presAt_bind (matchP_pres hQ _ stop b.kind t c h) (fun a c1 h1 => ?_)
    split
    split
    · rename_i _ m t' hm
      dsimp only
      have hk : ∀ (ok : Bool) (c2 : Ctx), Q c2.μ →
          PresAt Q (if ok = true then do
              runProds T.errorCap stop t' b.prods
              pure b.target
            else tryBranches D T stop row bs t') c2 := by
        intro ok c2 h2
        split
        · exact presAt_bind (runProds_pres _ stop _ _ c2 h2) (fun _ _ h => presAt_pure h)
        · exact ih _ c2 h2
      split
      · exact presAt_bind (presAt_pure h1) hk
      · split
        · exact presAt_bind (lookahead_pres hQ _ stop _ c1 h1) hk
        · exact presAt_bind (presAt_throw h1) hk
    · exact ih _ c1 h1

theorem matchToken_pres (T : Table) (stop : Bool) (state : Nat) (t : Token)
    (c : Ctx) (h : Q c.μ) : PresAt Q (matchToken D T stop state t) c := by
  unfold matchToken
  split
  · exact tryBranches_pres hQ T stop _ _ t c h
  · exact presAt_throw h

theorem parseLoop_pres (T : Table) (stop : Bool) (fuel state : Nat)
    (c : Ctx) (h : Q c.μ) : PresAt Q (parseLoop D T stop fuel state) c := by
  induction fuel generalizing state c with
  | zero => exact presAt_throw h
  | succ fuel ih =>
    unfold parseLoop
    refine presAt_bind (readToken_pres c h) (fun t c1 h1 => ?_)
    refine presAt_bind (presAt_modify h1) (fun _ c2 h2 => ?_)
    refine presAt_bind (matchToken_pres hQ T stop state t c2 h2) (fun s' c3 h3 => ?_)
    split
    · exact presAt_pure h3
    · exact ih _ c3 h3

theorem parseBody_pres (T : Table) (stop : Bool) (n : Nat)
    (c : Ctx) (h : Q c.μ) : PresAt Q (parseBody D T stop n) c := by
  unfold parseBody
  refine presAt_bind (presAt_modify h) (fun _ c1 h1 => ?_)
  refine presAt_bind (parseLoop_pres hQ T stop _ _ c1 h1) (fun _ c2 h2 => ?_)
  refine presAt_bind (runProd_pres _ stop _ _ c2 h2) (fun _ c3 h3 => ?_)
  apply presAt_get_bind
  dsimp only
  split
  · refine presAt_bind (presAt_throw h3) (fun _ c4 h4 => ?_)
    split <;> first | exact presAt_pure h4 | exact presAt_throw h4
  · split <;> first | exact presAt_pure h3 | exact presAt_throw h3

theorem parseWith_pres (T : Table) (stop : Bool) (μ : MState) (ids : Nat) (src : Str)
    (h : Q (μ.reset D)) : Q (parseWith D T stop μ ids src).2.μ := by
  unfold parseWith
  have := parseBody_pres hQ T stop (splitLines src).length
    { lines := splitLines src, μ := μ.reset D, β := BState.reset, ids := ids } h
  unfold PresAt runPM at this
  simp only
  split <;> simp_all
end

/-! ### Consistency of the matcher state -/

/-- the invariant carried through a parse: consistent, with a fixed default dialect name -/
def MInv (D : List Dialect) (dn : Str) (μ : MState) : Prop := Consistent D μ ∧ μ.defaultName = dn

theorem init_consistent (D : List Dialect) (name : Str) (μ : MState) (h : MState.init D name = some μ) :
    Consistent D μ ∧ μ.defaultName = name ∧ μ.name = name ∧ μ.indentToRemove = 0 ∧ μ.activeSep = none := by
  simp only [MState.init, Option.map_eq_some_iff] at h
  obtain ⟨d, hd, rfl⟩ := h
  simp [Consistent, hd]

theorem matchDocSep_same (μ : MState) (t : Token) (l sep : Str) (isOpen : Bool) (t' : Token) (μ' : MState)
    (h : matchDocSep μ t l sep isOpen = some (t', μ')) :
    μ'.name = μ.name ∧ μ'.dialect = μ.dialect ∧ μ'.defaultName = μ.defaultName := by
  unfold matchDocSep at h
  split at h
  · split at h <;> (simp only [Option.some.injEq, Prod.mk.injEq] at h; obtain ⟨_, rfl⟩ := h; simp)
  · simp at h

theorem minv_of_same {D : List Dialect} {dn : Str} {μ μ' : MState} (h : MInv D dn μ)
    (hs : μ'.name = μ.name ∧ μ'.dialect = μ.dialect ∧ μ'.defaultName = μ.defaultName) : MInv D dn μ' := by
  obtain ⟨⟨h1, h2⟩, h3⟩ := h
  obtain ⟨s1, s2, s3⟩ := hs
  subst h3
  simp [MInv, Consistent, s1, s2, s3, h1, h2]

theorem matchLine_minv (D : List Dialect) (dn : Str) (k : Kind) (μ : MState) (t : Token) (l : Str)
    (h : MInv D dn μ) : MInv D dn (matchLine D k μ t l).μ := by
  cases k
  case Language =>
    simp only [matchLine]
    split
    · exact h
    · split
      · rename_i name _ d hd
        exact ⟨⟨hd, h.1.2⟩, h.2⟩
      · exact h
  case DocStringSeparator =>
    simp only [matchLine]
    split
    · rename_i t' μ' hr
      refine minv_of_same h ?_
      split at hr
      · rcases hm : matchDocSep μ t l dq3 true with _ | ⟨t1, μ1⟩
        · rw [hm] at hr
          exact matchDocSep_same _ _ _ _ _ _ _ hr
        · rw [hm] at hr
          simp only [Option.orElse, Option.some.injEq, Prod.mk.injEq] at hr
          obtain ⟨_, rfl⟩ := hr
          exact matchDocSep_same _ _ _ _ _ _ _ hm
      · split at hr
        · rcases hm : matchDocSep μ t l dq3 true with _ | ⟨t1, μ1⟩
          · rw [hm] at hr
            exact matchDocSep_same _ _ _ _ _ _ _ hr
          · rw [hm] at hr
            simp only [Option.orElse, Option.some.injEq, Prod.mk.injEq] at hr
            obtain ⟨_, rfl⟩ := hr
            exact matchDocSep_same _ _ _ _ _ _ _ hm
        · exact matchDocSep_same _ _ _ _ _ _ _ hr
    · exact h
  all_goals
    simp only [matchLine]
    repeat' split
    all_goals exact h

theorem matchTok_minv (D : List Dialect) (dn : Str) (k : Kind) (μ : MState) (t : Token)
    (h : MInv D dn μ) : MInv D dn (matchTok D k μ t).1.μ := by
  unfold matchTok
  split
  · split <;> exact h
  · exact matchLine_minv D dn k μ t _ h

theorem reset_minv (D : List Dialect) (dn : Str) (μ : MState) (h : MInv D dn μ) : MInv D dn (μ.reset D) := by
  obtain ⟨⟨h1, h2⟩, h3⟩ := h
  subst h3
  unfold MState.reset
  split
  · split
    · rename_i d hd
      simp [MInv, Consistent, hd]
    · simp [MInv, Consistent, h1, h2]
  · simp [MInv, Consistent, h1, h2]

/-- `reset` of a consistent state: the default dialect, no doc-string state. -/
theorem reset_eq (D : List Dialect) (μ : MState) (h : Consistent D μ) (d : Dialect)
    (hd : findDialect D μ.defaultName = some d) :
    μ.reset D = { defaultName := μ.defaultName, name := μ.defaultName, dialect := d } := by
  obtain ⟨h1, h2⟩ := h
  unfold MState.reset
  by_cases hn : μ.name = μ.defaultName
  · have : d = μ.dialect := by
      rw [hn, hd] at h1
      exact Option.some.inj h1
    cases μ
    simp_all
  · simp [hn, hd]


/-! ### The invariant through a whole parse -/

theorem parseWith_minv (D : List Dialect) (T : Table) (stop : Bool) (dn : Str) (μ : MState) (ids : Nat)
    (src : Str) (h : MInv D dn μ) : MInv D dn (parseWith D T stop μ ids src).2.μ :=
  parseWith_pres (Q := MInv D dn) (fun k μ t hμ => matchTok_minv D dn k μ t hμ) T stop μ ids src
    (reset_minv D dn μ h)

theorem parseWith_consistent (D : List Dialect) (T : Table) (stop : Bool) (μ : MState) (ids : Nat)
    (src : Str) (h : Consistent D μ) :
    Consistent D (parseWith D T stop μ ids src).2.μ ∧
      (parseWith D T stop μ ids src).2.μ.defaultName = μ.defaultName :=
  parseWith_minv D T stop μ.defaultName μ ids src ⟨h, rfl⟩

/-! ### `reset` forgets everything but the default name -/

theorem reset_eq_of_consistent (D : List Dialect) (μ₁ μ₂ : MState) (h₁ : Consistent D μ₁)
    (h₂ : Consistent D μ₂) (hd : μ₁.defaultName = μ₂.defaultName) : μ₁.reset D = μ₂.reset D := by
  obtain ⟨d, hfd⟩ := Option.isSome_iff_exists.mp h₁.2
  rw [reset_eq D μ₁ h₁ d hfd, reset_eq D μ₂ h₂ d (hd ▸ hfd), hd]

theorem parseWith_reset (D : List Dialect) (T : Table) (stop : Bool) (μ₁ μ₂ : MState) (ids : Nat)
    (src : Str) (h : μ₁.reset D = μ₂.reset D) :
    parseWith D T stop μ₁ ids src = parseWith D T stop μ₂ ids src := by
  unfold parseWith
  rw [h]

theorem parseWith_history_independent (D : List Dialect) (T : Table) (stop : Bool) (μ₁ μ₂ : MState)
    (ids : Nat) (src : Str) (h₁ : Consistent D μ₁) (h₂ : Consistent D μ₂)
    (hd : μ₁.defaultName = μ₂.defaultName) :
    parseWith D T stop μ₁ ids src = parseWith D T stop μ₂ ids src :=
  parseWith_reset D T stop μ₁ μ₂ ids src (reset_eq_of_consistent D μ₁ μ₂ h₁ h₂ hd)

/-- the matcher state after a history of parses (each with its own error mode, counter and text) -/
def afterHistory (D : List Dialect) (T : Table) (μ : MState) : List (Bool × Nat × Str) → MState
  | [] => μ
  | (stop, ids, src) :: rest => afterHistory D T (parseWith D T stop μ ids src).2.μ rest

theorem afterHistory_minv (D : List Dialect) (T : Table) (dn : Str) (μ : MState)
    (hist : List (Bool × Nat × Str)) (h : MInv D dn μ) : MInv D dn (afterHistory D T μ hist) := by
  induction hist generalizing μ with
  | nil => exact h
  | cons x rest ih =>
    obtain ⟨stop, ids, src⟩ := x
    exact ih _ (parseWith_minv D T stop dn μ ids src h)

theorem parseWith_after_history (D : List Dialect) (T : Table) (name : Str) (μ₀ : MState)
    (h₀ : MState.init D name = some μ₀) (hist : List (Bool × Nat × Str)) (stop : Bool) (ids : Nat)
    (src : Str) :
    parseWith D T stop (afterHistory D T μ₀ hist) ids src = parseWith D T stop μ₀ ids src := by
  have hi := init_consistent D name μ₀ h₀
  have h := afterHistory_minv D T name μ₀ hist ⟨hi.1, hi.2.1⟩
  exact parseWith_history_independent D T stop _ _ ids src h.1 hi.1 (h.2.trans hi.2.1.symm)

/-- a parse starts from the builder's reset state and an empty queue and error list, whatever
    happened before: the initial context mentions the incoming matcher only through `reset`. -/
theorem parseWith_eq_run (D : List Dialect) (T : Table) (stop : Bool) (μ : MState) (ids : Nat) (src : Str) :
    parseWith D T stop μ ids src =
      (match runPM (parseBody D T stop (splitLines src).length)
          { lines := splitLines src, lineNo := 0, queue := [], errors := [], μ := μ.reset D,
            β := BState.reset, ids := ids, calls := 0, builds := [], reads := [], unexpected := [] } with
       | (.ok d, ctx) => (.ok d, ctx)
       | (.error (.single e), ctx) => (.rejected [e] false, ctx)
       | (.error (.composite es), ctx) => (.rejected es true, ctx)
       | (.error (.crash w), ctx) => (.crash w, ctx)
       | (.error .fuel, ctx) => (.fuel, ctx)) := rfl

/-! ### Interleaving: the frame lemma -/

theorem iter_add {σ} (f : σ → σ) (m n : Nat) (x : σ) : iter f (m + n) x = iter f n (iter f m x) := by
  induction m generalizing x with
  | zero => simp [iter]
  | succ m ih =>
    rw [Nat.add_right_comm]
    exact ih (f x)

theorem iter_succ' {σ} (f : σ → σ) (n : Nat) (x : σ) : iter f (n + 1) x = f (iter f n x) := by
  rw [iter_add]
  rfl

theorem iter_fixed {σ} (f : σ → σ) (n : Nat) (x : σ) (h : f x = x) : iter f n x = x := by
  induction n with
  | zero => rfl
  | succ n ih => simp only [iter, h, ih]

theorem runSchedule_frame {σ} (f : σ → σ) (sched : List Nat) (sys : List σ) (i : Nat) :
    (runSchedule f sched sys)[i]? = sys[i]?.map (iter f (sched.count i)) := by
  induction sched generalizing sys with
  | nil =>
    show sys[i]? = _
    cases sys[i]? <;> rfl
  | cons j rest ih =>
    show (runSchedule f rest (sys.modify j f))[i]? = _
    rw [ih, List.getElem?_modify, List.count_cons]
    by_cases hji : j = i
    · subst hji
      cases sys[j]? with
      | none => rfl
      | some a => simp [iter]
    · cases sys[i]? with
      | none => rfl
      | some a => simp [hji]

theorem runSchedule_length {σ} (f : σ → σ) (sched : List Nat) (sys : List σ) :
    (runSchedule f sched sys).length = sys.length := by
  induction sched generalizing sys with
  | nil => rfl
  | cons j rest ih =>
    show (runSchedule f rest (sys.modify j f)).length = _
    rw [ih, List.length_modify]

/-! ### Parser instances -/

theorem parseLoop_succ (D : List Dialect) (T : Table) (stop : Bool) (fuel state : Nat) :
    parseLoop D T stop (fuel + 1) state =
      parseIter D T stop state >>= fun r => if r.2 then pure r.1 else parseLoop D T stop fuel r.1 := by
  simp only [parseLoop, parseIter, bind_assoc, pure_bind]

theorem parseStep_done (D : List Dialect) (T : Table) (stop : Bool) (x : Inst) (h : x.isDone = true) :
    parseStep D T stop x = x := by
  unfold parseStep
  unfold Inst.isDone at h
  split
  · rfl
  · simp_all

theorem iter_parseStep_done (D : List Dialect) (T : Table) (stop : Bool) (n : Nat) (x : Inst)
    (h : x.isDone = true) : iter (parseStep D T stop) n x = x :=
  iter_fixed _ n x (parseStep_done D T stop x h)

theorem parseStep_running (D : List Dialect) (T : Table) (stop : Bool) (s : Nat) (c : Ctx) :
    parseStep D T stop ⟨.running s, c⟩ =
      match runPM (parseIter D T stop s) c with
      | (.ok (s', true), c) => ⟨.done (.ok s'), c⟩
      | (.ok (s', false), c) => ⟨.running s', c⟩
      | (.error e, c) => ⟨.done (.error e), c⟩ := rfl

/-- the loop of `parse` is the step function iterated -/
theorem parseLoop_eq_iter (D : List Dialect) (T : Table) (stop : Bool) (fuel state : Nat) (c : Ctx) :
    runPM (parseLoop D T stop fuel state) c =
      (iter (parseStep D T stop) fuel ⟨.running state, c⟩).result := by
  induction fuel generalizing state c with
  | zero => rfl
  | succ fuel ih =>
    rw [parseLoop_succ, runPM_bind]
    simp only [iter]
    rw [parseStep_running]
    generalize runPM (parseIter D T stop state) c = r
    obtain ⟨r, c'⟩ := r
    cases r with
    | error e =>
      simp only
      rw [iter_parseStep_done _ _ _ _ _ rfl]
      rfl
    | ok a =>
      obtain ⟨s', eof⟩ := a
      cases eof with
      | true =>
        simp only [if_true]
        rw [iter_parseStep_done _ _ _ _ _ rfl]
        rfl
      | false =>
        simp only [Bool.false_eq_true, if_false]
        exact ih s' c'

theorem isDone_of_result (x : Inst) (h : x.result.1 ≠ .error .fuel) : x.isDone = true := by
  unfold Inst.result at h
  unfold Inst.isDone
  split
  · rfl
  · simp_all

theorem iter_parseStep_ge (D : List Dialect) (T : Table) (stop : Bool) (n m : Nat) (x : Inst)
    (h : (iter (parseStep D T stop) n x).isDone = true) (hm : n ≤ m) :
    iter (parseStep D T stop) m x = iter (parseStep D T stop) n x := by
  obtain ⟨k, rfl⟩ := Nat.exists_eq_add_of_le hm
  rw [iter_add, iter_parseStep_done _ _ _ _ _ h]

theorem interleave_inst (D : List Dialect) (T : Table) (stop : Bool) (sys : List Inst) (sched : List Nat)
    (i : Nat) (x : Inst) (hx : sys[i]? = some x) (n : Nat)
    (hdone : (iter (parseStep D T stop) n x).isDone = true) (hn : n ≤ sched.count i) :
    (runSchedule (parseStep D T stop) sched sys)[i]? = some (iter (parseStep D T stop) n x) := by
  rw [runSchedule_frame, hx, Option.map_some, iter_parseStep_ge D T stop n _ x hdone hn]

theorem interleave_parseLoop (D : List Dialect) (T : Table) (stop : Bool) (sys : List Inst)
    (sched : List Nat) (i state : Nat) (c : Ctx) (hx : sys[i]? = some ⟨.running state, c⟩) (fuel : Nat)
    (hfuel : (runPM (parseLoop D T stop fuel state) c).1 ≠ .error .fuel) (hn : fuel ≤ sched.count i) :
    ((runSchedule (parseStep D T stop) sched sys)[i]?).map Inst.result =
      some (runPM (parseLoop D T stop fuel state) c) := by
  rw [parseLoop_eq_iter] at hfuel ⊢
  rw [interleave_inst D T stop sys sched i _ hx fuel (isDone_of_result _ hfuel) hn]
  rfl

end Lemmas
end GV
