/-
  Lemmas/C02Cert.lean — property C02 on the regenerated table and grammar.

  Generic part: the table side (look-ahead eliminated, `Lemmas/LookAhead.lean`) and the grammar
  side (derivative reader, `Lemmas/Regex.lean`) are total deterministic automata; if the Boolean
  checker `c02Check` succeeds — the future classes are closed (`clsOK`) and the pairs explored
  from the two start states form a closed relation (`bisimCheck`) — then `acceptsAbs` and
  `Sentence` agree on every document (`accept_iff_sentence_gen`).

  Concrete part: `c02Check` evaluated on `Gen.parserTable` / `Gen.grammar` by the kernel
  (`decide +kernel`).  Nothing here is specific to today's table: the certificate (set of future
  classes, reachable pairs) is computed by `classes` / `explore`, then checked.
-/
import GherkinVerif.Lemmas.Regex
import GherkinVerif.Lemmas.LookAhead
import GherkinVerif.Lemmas.Bisim
import GherkinVerif.Gen.ParserTable
import GherkinVerif.Gen.Grammar
import GherkinVerif.KDecide
namespace GV.Lemmas

open GV.Spec

/-! ### generic combination -/

/-- the table with its look-aheads eliminated, as a total deterministic automaton on sets of
    (state, claimed future class) -/
def tableDet (T : Table) (C : List Cls) : TDet (List St) Kind := ⟨setStep T C, setAcc T⟩

/-- the derivative reader of the grammar as a total deterministic automaton -/
def specDet (G : Grammar) : TDet (Option (Spec.RE Kind)) Kind := ⟨specStepO G, specAccO⟩

theorem tableDet_run (T : Table) (C : List Cls) (S : List St) (ks : List Kind) :
    (tableDet T C).run S ks = setRun T C S ks := by
  induction ks generalizing S with
  | nil => rfl
  | cons k ks ih => exact ih _

theorem specDet_run (G : Grammar) (a : Option (Spec.RE Kind)) (ks : List Kind) :
    (specDet G).run a ks = specRunO G a ks := by
  induction ks generalizing a with
  | nil => rfl
  | cons k ks ih => exact ih _

/-- the whole Boolean check for a table against a grammar -/
def c02Check (T : Table) (G : Grammar) (start : RuleType) (fuel : Nat) : Bool :=
  clsOK T (classes T) &&
  bisimCheck (tableDet T (classes T)) (specDet G) Kind.all .EOF fuel
    (setStart (classes T) 0) (some (startRE G start))

theorem accept_iff_sentence_gen (T : Table) (G : Grammar) (start : RuleType) (fuel : Nat)
    (h : c02Check T G start fuel = true) (ks : List Kind) (hks : Kind.EOF ∉ ks) :
    acceptsAbs T ks = Sentence G start ks := by
  simp only [c02Check, Bool.and_eq_true] at h
  have hb := bisimCheck_sound _ _ _ _ _ _ _ kind_mem_all h.2 ks hks
  simp only [TDet.accepts, tableDet_run, specDet_run] at hb
  have hs : (specDet G).acc (specRunO G (some (startRE G start)) (ks ++ [.EOF])) = Sentence G start ks :=
    (sentence_eq G start ks).symm
  rw [← hs, ← hb]
  exact accepts_iff_setRun h.1 0 (ks ++ [.EOF])

/-! ### the regenerated table and grammar -/

/-- the kernel-evaluated certificate -/
theorem c02Check_gen : c02Check Gen.parserTable Gen.grammar .GherkinDocument 100000 = true := by
  kdecide

theorem accept_iff_sentence (ks : List Kind) (h : Kind.EOF ∉ ks) :
    acceptsAbs Gen.parserTable ks = Spec.Sentence Gen.grammar .GherkinDocument ks :=
  accept_iff_sentence_gen _ _ _ _ c02Check_gen ks h

theorem sentence_of_lang (ks : List Kind) (_h : Kind.EOF ∉ ks)
    (hw : Spec.RE.Lang (Spec.startRE Gen.grammar .GherkinDocument) (ks ++ [.EOF]))
    (hown : ReadsOwn Gen.grammar (Spec.startRE Gen.grammar .GherkinDocument) (ks ++ [.EOF])) :
    Spec.Sentence Gen.grammar .GherkinDocument ks = true :=
  sentence_of_lang_gen _ _ ks hw hown

end GV.Lemmas
