/-
  Lemmas/ParseClean.lean — an ACCEPTED run of the queue-free parse (Spec/PureParse.lean, collecting
  mode), line by line: when the error list is empty at the end, it was empty all the way, no test
  raised, no error tail was reached, no builder call failed; at each line the branch taken is
  `pickBranch` on the intrinsic kinds (as in Lemmas/TextMain.lean `line_step`, restricted to clean
  runs, but now ALSO recording the token that was built and what the builder did): the builder
  state and the id counter evolve by `Spec.applyOps` on the branch's calls `Spec.prodOps`.

  `Trace D T s μ ls sf steps`: the pure description of such a run from state `s`, matcher state `μ`,
  remaining lines `ls`: the list of (branch taken, token built) per line, then for the end of file.
  From a trace: the kind-level run `runAbs` on `textKinds` (`trace_runAbs`), the tokens are well
  matched (`trace_tokens`), and — with the doc-string facts about the table — every
  `start_rule(DocString)` is followed by the `build` of an OPENING separator (`trace_adj`).

-/
import GherkinVerif.Lemmas.TextMain
import GherkinVerif.Lemmas.ParseTree
namespace GV
namespace Spec

/-- in a production list every `start DocString` is directly followed by `build` -/
def prodsAdj : List Prod → Bool
  | [] => true
  | .start r :: rest => (r != .DocString || rest.head? == some .build) && prodsAdj rest
  | .end_ _ :: rest => prodsAdj rest
  | .build :: rest => prodsAdj rest

/-- doc strings are opened by their first line: the start state is not a doc-string content state;
    `start_rule(DocString)` occurs only in `DocStringSeparator` tests of NON-content states and is
    directly followed by the `build` of that separator line -/
def docStringOpens (T : Table) : Bool :=
  !(contentStates T).contains 0 &&
  T.rows.all fun r => r.branches.all fun b =>
    prodsAdj b.prods &&
    (!b.prods.contains (.start .DocString) ||
      (b.kind == .DocStringSeparator && !(contentStates T).contains r.id))

end Spec

namespace Lemmas
open Spec

/-! ### small facts -/

theorem errors_nil_of_grow {c c' : Ctx} (h : Grow c c') (h' : c'.errors = []) : c.errors = [] := by
  obtain ⟨es, hes⟩ := h
  rw [h'] at hes
  cases hc : c.errors with
  | nil => rfl
  | cons a l => rw [hc] at hes; cases hes

theorem AR_of_nil {c : Ctx} (h : c.errors = []) : AR c := fun e he => by rw [h] at he; cases he

theorem not_NR_of_nil {c : Ctx} (h : c.errors = []) : ¬ NR c := by
  rintro ⟨e, he, -⟩
  rw [h] at he; cases he

/-- no test other than `match_DocStringSeparator` touches the active delimiter
    (= `Lemmas.matchLine_keeps_docstate` of Lemmas/DocString.lean, which cannot be imported here) -/
theorem keeps_activeSep (D : List Dialect) (k : Kind) (μ : MState) (t : Token) (l : Str)
    (hk : k ≠ .DocStringSeparator) : (matchLine D k μ t l).μ.activeSep = μ.activeSep := by
  cases k <;> first | (exact absurd rfl hk) | skip
  all_goals simp only [matchLine]
  all_goals (repeat' split) <;> simp

theorem inDocString_congr {μ μ' : MState} (h : μ'.activeSep = μ.activeSep) : μ'.inDocString = μ.inDocString := by
  unfold MState.inDocString; rw [h]

theorem verdict_matched {D : List Dialect} {μ : MState} {l : Str} {K : Kind} (h : verdict D μ l K = true) :
    (matchLine D K μ (probe l) l).res = .matched := by
  unfold verdict at h
  cases hr : (matchLine D K μ (probe l) l).res with
  | matched => rfl
  | no => rw [hr] at h; cases h
  | raised e => rw [hr] at h; cases h

/-- a successful test hands on the token the matcher made -/
theorem matchP_true {D : List Dialect} {cap : Nat} {K : Kind} {t t' : Token} {c c' : Ctx}
    (h : run (matchP D cap false K t) c = (.ok (true, t'), c')) :
    (matchTok D K c.μ t).1.res = .matched ∧ t' = (matchTok D K c.μ t).1.tok := by
  rw [run_matchP] at h
  dsimp only at h
  split at h
  · rename_i hres
    cases h
    exact ⟨hres, rfl⟩
  · cases h
  · simp only [Bool.false_eq_true, if_false] at h
    rcases hr : run (addError cap _) _ with ⟨r2, c2⟩
    rw [hr] at h
    cases r2 <;> cases h

/-! ### the builder calls of a clean step -/

/-- from `c` to `c'` the builder ran the calls `ops` without error (state and counter), the built
    tokens were appended to the ghost list, the scanner was left alone -/
def CleanStep (c c' : Ctx) (ops : List BOp) : Prop :=
  applyOps ops c.β c.ids = (.ok (), c'.β, c'.ids) ∧ c'.builds = c.builds ++ opToks ops ∧
  c'.lines = c.lines ∧ c'.lineNo = c.lineNo

theorem CleanStep.of_footM {c c1 c' : Ctx} {ops : List BOp} (hf : FootM c c1) (h : CleanStep c1 c' ops) :
    CleanStep c c' ops := by
  obtain ⟨_, _, _, rfl⟩ := hf
  exact h

theorem prodOps_cons (t : Token) (p : Prod) (ps : List Prod) : prodOps t (p :: ps) = prodOps t [p] ++ prodOps t ps := by
  cases p <;> rfl

theorem runProd_clean {cap : Nat} {t : Token} {p : Prod} {c c' : Ctx}
    (h : run (runProd cap false t p) c = (.ok (), c')) (hc : c'.errors = []) :
    CleanStep c c' (prodOps t [p]) ∧ c'.μ = c.μ ∧ c.errors = [] := by
  rw [run_runProd] at h
  cases p with
  | start r =>
    dsimp only at h
    cases h
    exact ⟨⟨rfl, by simp [prodOps, opToks], rfl, rfl⟩, rfl, hc⟩
  | end_ r =>
    dsimp only at h
    rcases he : c.β.endRule c.ids with ⟨r0, β', n'⟩
    rw [he] at h
    dsimp only at h
    rw [run_liftB] at h
    cases r0 with
    | ok u =>
      cases u
      dsimp only at h
      cases h
      refine ⟨⟨?_, by simp [prodOps, opToks], rfl, rfl⟩, rfl, hc⟩
      simp only [prodOps, applyOps, applyOp, he]
    | error e =>
      cases e with
      | crash w => cases h
      | ast e =>
        dsimp only at h
        simp only [Bool.false_eq_true, if_false] at h
        exfalso
        obtain ⟨-, -, hcase⟩ := addError_spec h
        rcases hcase with ⟨h1, e', he', -⟩ | h1
        · rw [← h1, hc] at he'; cases he'
        · rw [hc] at h1
          have := congrArg List.length h1
          simp at this
  | build =>
    dsimp only at h
    cases hb : c.β.build t with
    | ok β' =>
      rw [hb] at h
      dsimp only at h
      cases h
      refine ⟨⟨?_, by simp [prodOps, opToks], rfl, rfl⟩, rfl, hc⟩
      simp only [prodOps, applyOps, applyOp, hb]
    | error e =>
      rw [hb] at h
      dsimp only at h
      obtain ⟨w, rfl⟩ := build_error _ _ _ hb
      rw [run_liftB] at h
      cases h

theorem runProds_clean {cap : Nat} {t : Token} (ps : List Prod) {c c' : Ctx}
    (h : run (runProds cap false t ps) c = (.ok (), c')) (hc : c'.errors = []) :
    CleanStep c c' (prodOps t ps) ∧ c'.μ = c.μ ∧ c.errors = [] := by
  induction ps generalizing c with
  | nil =>
    rw [runProds, prun_pure] at h
    cases h
    exact ⟨⟨rfl, by simp [prodOps, opToks], rfl, rfl⟩, rfl, hc⟩
  | cons p ps ih =>
    rw [runProds, prun_bind] at h
    rcases hr : run (runProd cap false t p) c with ⟨r1, c1⟩
    rw [hr] at h
    cases r1 with
    | error e => cases h
    | ok u =>
      cases u
      dsimp only at h
      obtain ⟨⟨ha2, hb2, hl2, hn2⟩, hμ2, he2⟩ := ih h
      obtain ⟨⟨ha1, hb1, hl1, hn1⟩, hμ1, he1⟩ := runProd_clean hr he2
      refine ⟨⟨?_, ?_, hl2.trans hl1, hn2.trans hn1⟩, hμ2.trans hμ1, he1⟩
      · rw [prodOps_cons, applyOps_append_ok _ _ _ _ _ _ ha1]; exact ha2
      · rw [prodOps_cons, opToks_append, hb2, hb1, List.append_assoc]

/-- `runProds …; pure target` in a clean run -/
theorem finish_step {cap : Nat} {t : Token} {ps : List Prod} {tgt : Nat} {c : Ctx} {s' : Nat} {c' : Ctx}
    (h : run (do runProds cap false t ps; Pure.pure tgt : PM Nat) c = (.ok s', c')) (hc : c'.errors = []) :
    s' = tgt ∧ c'.μ = c.μ ∧ CleanStep c c' (prodOps t ps) ∧ c.errors = [] := by
  rw [prun_bind] at h
  rcases hr : run (runProds cap false t ps) c with ⟨r1, c1⟩
  rw [hr] at h
  cases r1 with
  | error e => cases h
  | ok u =>
    cases u
    dsimp only at h
    rw [prun_pure] at h
    cases h
    obtain ⟨h1, h2, h3⟩ := runProds_clean ps hr hc
    exact ⟨rfl, h2, h1, h3⟩

/-! ### one line of a clean run -/

theorem try_clean {D : List Dialect} {T : Table} (hf : textDialectFacts D = true) (F : QF D T) (row : StateRow)
    (μ : MState) (hμ : MuOK D μ) (l : Str) (ls : List Str) :
    ∀ (bs : List Branch), guardTail T bs = true → ∀ (t : Token), t.line = some l →
      ∀ (c : Ctx), c.μ = μ → c.lines = ls →
      ∀ s' c', run (tryBranchesPure D T false row bs t) c = (.ok s', c') → c'.errors = [] →
        ∃ b t0, pickBranch T (intrinsicKind D μ l) (kindsOf D μ ls) bs = some b ∧ s' = b.target ∧
          t0.line = some l ∧ (matchTok D b.kind μ t0).1.res = .matched ∧ c'.μ = muAfter D μ l b.kind ∧
          CleanStep c c' (prodOps (matchTok D b.kind μ t0).1.tok b.prods) := by
  intro bs
  induction bs with
  | nil =>
    intro _ t _ c _ _ s' c' h hc'
    exfalso
    have hce : c.errors = [] := errors_nil_of_grow (EffM.tryBranchesPure D T row [] t c _ c' h).1 hc'
    rw [tail_pure_eq D T false row (t := t) (t' := t) rfl rfl, tryBranches, prun_bind, run_modify] at h
    dsimp only at h
    simp only [Bool.false_eq_true, if_false] at h
    rw [prun_bind] at h
    rcases ha : run (addError T.errorCap (unexpectedErr row t)) { c with unexpected := c.unexpected ++ [t.lineNo] }
      with ⟨r2, c2⟩
    rw [ha] at h
    have hnr := addError_bad ha (unexpectedErr_bad row t) (AR_of_nil (c := { c with unexpected := c.unexpected ++ [t.lineNo] }) hce)
    cases r2 with
    | ok _ => dsimp only at h; rw [prun_pure] at h; cases h; exact not_NR_of_nil hc' hnr
    | error a => cases h
  | cons b0 rest ih =>
    intro hgt t hl c hcμ hcl s' c' h hc'
    simp only [guardTail, Bool.and_eq_true, Bool.or_eq_true, beq_iff_eq] at hgt
    obtain ⟨hhead, hgt'⟩ := hgt
    have hce : c.errors = [] := errors_nil_of_grow (EffM.tryBranchesPure D T row (b0 :: rest) t c _ c' h).1 hc'
    rw [tryBranchesPure, prun_bind] at h
    rcases hr1 : run (matchP D T.errorCap false b0.kind t) c with ⟨r1, c1⟩
    rw [hr1] at h
    obtain ⟨hf1, heff1, hyes, hno⟩ := matchP_text hl hr1
    rw [hcμ] at hyes hno
    have hsc1 := hf1.scan
    have hl1' : c1.lines = ls := hsc1.2.1.trans hcl
    have hvp : verdict D μ l b0.kind = passes (intrinsicKind D μ l) b0.kind := kind_unique hf D μ hμ.1 hμ.2 l b0.kind
    cases hv : verdict D μ l b0.kind with
    | false =>
      obtain ⟨hμ1, hval, -, -⟩ := hno hv
      have hpass : passes (intrinsicKind D μ l) b0.kind = false := by rw [← hvp]; exact hv
      cases r1 with
      | error a => cases h
      | ok x =>
        obtain ⟨m1, t1⟩ := x
        obtain ⟨hm1, ht1⟩ := hval _ rfl
        dsimp only at hm1 ht1 h
        subst hm1
        simp only [Bool.false_eq_true, if_false] at h
        obtain ⟨b, t0, hpick, hs', ht0, hres, hμ', hstep⟩ := ih hgt' t1 ht1 c1 hμ1 hl1' s' c' h hc'
        refine ⟨b, t0, ?_, hs', ht0, hres, hμ', hstep.of_footM hf1⟩
        simp only [pickBranch, hpass, Bool.false_and, Bool.false_eq_true, if_false]
        exact hpick
    | true =>
      obtain ⟨hμ1, -, t1, rfl, ht1⟩ := hyes hv
      have hpass : passes (intrinsicKind D μ l) b0.kind = true := by rw [← hvp]; exact hv
      obtain ⟨hres, ht1eq⟩ := matchP_true hr1
      rw [hcμ] at hres ht1eq
      dsimp only at h
      simp only [if_true] at h
      cases hg : b0.guard with
      | none =>
        rw [hg] at h
        dsimp only at h
        rw [prun_bind, prun_pure] at h
        dsimp only at h
        simp only [if_true] at h
        obtain ⟨hs', hμ2, hstep, -⟩ := finish_step h hc'
        subst ht1eq
        refine ⟨b0, t, ?_, hs', hl, hres, hμ2.trans hμ1, hstep.of_footM hf1⟩
        simp only [pickBranch, hpass, guardOk_unguarded hg, Bool.and_self, if_true]
      | some i =>
        rw [hg] at h
        dsimp only at h
        obtain ⟨⟨hkind, -⟩, hnext⟩ : (b0.kind = .TagLine ∧ isTag T b0.target = true) ∧ tagNext T rest = true := by
          rcases hhead with hh | hh
          · rw [hg] at hh; cases hh
          · exact hh
        have hmu : muAfter D μ l b0.kind = μ := by rw [hkind]; exact muAfter_stable D μ l .TagLine rfl
        rw [hmu] at hμ1
        cases hla : T.lookaheads[i]? with
        | none =>
          rw [hla] at h
          dsimp only at h
          rw [prun_bind, prun_throw] at h
          cases h
        | some la =>
          rw [hla] at h
          dsimp only at h
          rw [prun_bind] at h
          rcases hrl : run (lookaheadPure D T.errorCap false la) c1 with ⟨r2, c2⟩
          rw [hrl] at h
          rw [run_lookaheadPure, hl1'] at hrl
          obtain ⟨hf2, hμ2, hval2, -⟩ := peek_text hf F hla ls _ c1 (by rw [hμ1]; exact hμ) r2 c2 hrl
          rw [hμ1] at hval2
          have hgoeq : guardOkAbs T b0 (kindsOf D μ ls) = peekAbs la (kindsOf D μ ls) := by
            unfold guardOkAbs; rw [hg]; dsimp only; rw [hla]
          have hl2' : c2.lines = ls := hf2.scan.2.1.trans hl1'
          cases r2 with
          | error a => cases h
          | ok ok =>
            have hok := hval2 ok rfl
            dsimp only at h
            cases hgo : peekAbs la (kindsOf D μ ls) with
            | true =>
              rw [hgo] at hok
              subst hok
              simp only [if_true] at h
              obtain ⟨hs', hμ3, hstep, -⟩ := finish_step h hc'
              subst ht1eq
              refine ⟨b0, t, ?_, hs', hl, hres, ?_, (hstep.of_footM hf2).of_footM hf1⟩
              · simp only [pickBranch, hpass, hgoeq, hgo, Bool.and_self, if_true]
              · rw [hmu]; exact hμ3.trans (hμ2.trans hμ1)
            | false =>
              rw [hgo] at hok
              subst hok
              simp only [Bool.false_eq_true, if_false] at h
              obtain ⟨b, t0, hpick, hs', ht0, hres', hμ', hstep⟩ :=
                ih hgt' t1 ht1 c2 (hμ2.trans hμ1) hl2' s' c' h hc'
              refine ⟨b, t0, ?_, hs', ht0, hres', hμ', (hstep.of_footM hf2).of_footM hf1⟩
              simp only [pickBranch, hgoeq, hgo, Bool.and_false, Bool.false_eq_true, if_false]
              exact hpick

/-! ### the end-of-file token of a clean run -/

theorem eof_clean {D : List Dialect} {T : Table} (row : StateRow) :
    ∀ (bs : List Branch), guardTail T bs = true → ∀ (t : Token), t.line = none →
      ∀ (c : Ctx) s' c', run (tryBranchesPure D T false row bs t) c = (.ok s', c') → c'.errors = [] →
        ∃ b t0, pickBranch T .EOF [] bs = some b ∧ s' = b.target ∧ t0.line = none ∧
          (matchTok D b.kind c.μ t0).1.res = .matched ∧
          CleanStep c c' (prodOps (matchTok D b.kind c.μ t0).1.tok b.prods) := by
  intro bs
  induction bs with
  | nil =>
    intro _ t _ c s' c' h hc'
    exfalso
    have hce : c.errors = [] := errors_nil_of_grow (EffM.tryBranchesPure D T row [] t c _ c' h).1 hc'
    rw [tail_pure_eq D T false row (t := t) (t' := t) rfl rfl, tryBranches, prun_bind, run_modify] at h
    dsimp only at h
    simp only [Bool.false_eq_true, if_false] at h
    rw [prun_bind] at h
    rcases ha : run (addError T.errorCap (unexpectedErr row t)) { c with unexpected := c.unexpected ++ [t.lineNo] }
      with ⟨r2, c2⟩
    rw [ha] at h
    have hnr := addError_bad ha (unexpectedErr_bad row t) (AR_of_nil (c := { c with unexpected := c.unexpected ++ [t.lineNo] }) hce)
    cases r2 with
    | ok _ => dsimp only at h; rw [prun_pure] at h; cases h; exact not_NR_of_nil hc' hnr
    | error a => cases h
  | cons b0 rest ih =>
    intro hgt t hl c s' c' h hc'
    simp only [guardTail, Bool.and_eq_true, Bool.or_eq_true, beq_iff_eq] at hgt
    rw [tryBranchesPure, prun_bind] at h
    rcases hr1 : run (matchP D T.errorCap false b0.kind t) c with ⟨r1, c1⟩
    rw [hr1] at h
    obtain ⟨hf1, hμ1, -, t1, rfl, hl1⟩ := matchP_eofTok hl hr1
    cases hk : b0.kind == Kind.EOF with
    | false =>
      rw [hk] at h hr1
      dsimp only at h
      simp only [Bool.false_eq_true, if_false] at h
      obtain ⟨b, t0, hpick, hs', ht0, hres, hstep⟩ := ih hgt.2 t1 hl1 c1 s' c' h hc'
      rw [hμ1] at hres hstep
      refine ⟨b, t0, ?_, hs', ht0, hres, hstep.of_footM hf1⟩
      simp only [pickBranch, passes_EOF, hk, Bool.false_and, Bool.false_eq_true, if_false]
      exact hpick
    | true =>
      rw [hk] at h hr1
      obtain ⟨hres, ht1eq⟩ := matchP_true hr1
      dsimp only at h
      simp only [if_true] at h
      have hg : b0.guard = none := by
        rcases hgt.1 with hn | hn
        · simpa using hn
        · rw [hn.1.1] at hk; cases hk
      rw [hg] at h
      dsimp only at h
      rw [prun_bind, prun_pure] at h
      dsimp only at h
      simp only [if_true] at h
      obtain ⟨hs', -, hstep, -⟩ := finish_step h hc'
      subst ht1eq
      refine ⟨b0, t, ?_, hs', hl, hres, hstep.of_footM hf1⟩
      simp only [pickBranch, passes_EOF, hk, guardOk_unguarded hg, Bool.and_self, if_true]

/-! ### the trace of a clean run -/

/-- the pure description of an accepted run from state `s` with matcher state `μ` over the lines
    `ls`: per line the branch `pickBranch` takes for the line's intrinsic kind and the token the
    successful test made of it; then the same for the end-of-file token; `sf` is the final state -/
inductive Trace (D : List Dialect) (T : Table) : Nat → MState → List Str → Nat → List (Branch × Token) → Prop
  | eof {s : Nat} {μ : MState} {row : StateRow} {b : Branch} {t0 : Token} :
      T.row? s = some row → pickBranch T .EOF [] row.branches = some b → t0.line = none →
      (matchTok D b.kind μ t0).1.res = .matched →
      Trace D T s μ [] b.target [(b, (matchTok D b.kind μ t0).1.tok)]
  | line {s : Nat} {μ : MState} {l : Str} {ls : List Str} {row : StateRow} {b : Branch} {t0 : Token}
      {sf : Nat} {rest : List (Branch × Token)} :
      T.row? s = some row →
      pickBranch T (intrinsicKind D μ l) (kindsOf D μ ls) row.branches = some b →
      t0.line = some l → (matchTok D b.kind μ t0).1.res = .matched →
      Trace D T b.target (muAfter D μ l b.kind) ls sf rest →
      Trace D T s μ (l :: ls) sf ((b, (matchTok D b.kind μ t0).1.tok) :: rest)

/-- the builder calls of a trace -/
def stepsOps (steps : List (Branch × Token)) : List BOp := steps.flatMap fun p => prodOps p.2 p.1.prods

/-- the kind-level events of a trace -/
def stepsEvs (steps : List (Branch × Token)) : List Ev := steps.flatMap fun p => prodEvents p.1.kind p.1.prods

theorem CleanStep.trans {a b c : Ctx} {x y : List BOp} (h1 : CleanStep a b x)
    (h2 : applyOps y b.β b.ids = (.ok (), c.β, c.ids)) (h2' : c.builds = b.builds ++ opToks y) :
    applyOps (x ++ y) a.β a.ids = (.ok (), c.β, c.ids) ∧ c.builds = a.builds ++ opToks (x ++ y) := by
  refine ⟨?_, ?_⟩
  · rw [applyOps_append_ok _ _ _ _ _ _ h1.1]; exact h2
  · rw [opToks_append, h2', h1.2.1, List.append_assoc]

/-- the main loop of an accepted queue-free parse is a trace, and the builder ran its calls -/
theorem lines_clean {D : List Dialect} {T : Table} (hf : textDialectFacts D = true) (F : QF D T) :
    ∀ (fuel s : Nat) (p : Ctx), MuOK D p.μ →
      ∀ sf c', run (parseLinesPure D T false fuel s) p = (.ok sf, c') → c'.errors = [] →
        ∃ steps, Trace D T s p.μ p.lines sf steps ∧
          applyOps (stepsOps steps) p.β p.ids = (.ok (), c'.β, c'.ids) ∧
          c'.builds = p.builds ++ opToks (stepsOps steps) := by
  intro fuel
  induction fuel with
  | zero =>
    intro s p _ sf c' h _
    rw [parseLinesPure, prun_throw] at h
    cases h
  | succ fuel ih =>
    intro s p hμ sf c' h hc'
    rw [pure_step, prun_bind] at h
    rcases hr1 : run (matchTokenPure D T false s { line := p.lines.head?, lineNo := p.lineNo + 1 })
      { p with lines := p.lines.tail, lineNo := p.lineNo + 1, reads := p.reads ++ [p.lineNo + 1] } with ⟨r1, c1⟩
    rw [hr1] at h
    cases r1 with
    | error a => cases h
    | ok s1 =>
      dsimp only at h
      unfold matchTokenPure at hr1
      cases hrow : T.row? s with
      | none =>
        rw [hrow] at hr1
        dsimp only at hr1
        rw [prun_throw] at hr1
        cases hr1
      | some row =>
        rw [hrow] at hr1
        dsimp only at hr1
        have hgt := (F.rows s row hrow).1
        cases hl : p.lines with
        | nil =>
          rw [hl] at hr1 h
          have heof : ({ line := ([] : List Str).head?, lineNo := p.lineNo + 1 } : Token).eof = true := rfl
          rw [if_pos heof, prun_pure] at h
          cases h
          obtain ⟨b, t0, hpick, hs', ht0, hres, hstep⟩ := eof_clean row row.branches hgt _ rfl _ _ _ hr1 hc'
          subst hs'
          refine ⟨[(b, (matchTok D b.kind p.μ t0).1.tok)], Trace.eof hrow hpick ht0 hres, ?_, ?_⟩
          · simp only [stepsOps, List.flatMap_cons, List.flatMap_nil, List.append_nil]
            exact hstep.1
          · simp only [stepsOps, List.flatMap_cons, List.flatMap_nil, List.append_nil]
            exact hstep.2.1
        | cons l ls =>
          rw [hl] at hr1 h
          have hneof : ({ line := (l :: ls).head?, lineNo := p.lineNo + 1 } : Token).eof = false := rfl
          rw [if_neg (by rw [hneof]; simp)] at h
          have hc1 : c1.errors = [] := errors_nil_of_grow (EffM.parseLinesPure D T fuel s1 c1 _ c' h).1 hc'
          obtain ⟨b, t0, hpick, hs', ht0, hres, hμ1, hstep⟩ :=
            try_clean hf F row p.μ hμ l ls row.branches hgt
              { line := (l :: ls).head?, lineNo := p.lineNo + 1 } rfl
              { p with lines := (l :: ls).tail, lineNo := p.lineNo + 1, reads := p.reads ++ [p.lineNo + 1] }
              rfl rfl s1 c1 hr1 hc1
          subst hs'
          obtain ⟨rest, htr, hops, hbuilds⟩ :=
            ih b.target c1 (by rw [hμ1]; exact muAfter_ok D p.μ hμ l b.kind) sf c' h hc'
          have hlines1 : c1.lines = ls := hstep.2.2.1
          rw [hμ1, hlines1] at htr
          refine ⟨(b, (matchTok D b.kind p.μ t0).1.tok) :: rest, Trace.line hrow hpick ht0 hres htr, ?_⟩
          have := CleanStep.trans (a := { p with lines := (l :: ls).tail, lineNo := p.lineNo + 1, reads := p.reads ++ [p.lineNo + 1] })
            hstep hops hbuilds
          simpa only [stepsOps, List.flatMap_cons] using this

/-! ### what a trace says -/

theorem row_id_of_row? {T : Table} {s : Nat} {row : StateRow} (h : T.row? s = some row) : row.id = s ∧ row ∈ T.rows := by
  unfold Table.row? at h
  exact ⟨by simpa using List.find?_some h, List.mem_of_find?_eq_some h⟩

/-- the kind-level run on the intrinsic kinds takes the same branches -/
theorem trace_runAbs {D' D : List Dialect} {T : Table} (F : QF D' T) {s : Nat} {μ : MState} {ls : List Str} {sf : Nat}
    {steps : List (Branch × Token)} (h : Trace D T s μ ls sf steps) :
    runAbs T s (textKinds D T s μ ls ++ [.EOF]) = some (sf, stepsEvs steps) := by
  induction h with
  | @eof s μ row b t0 hrow hpick _ _ =>
    have hst : stepAbs T s .EOF [] = some b := by unfold stepAbs; rw [hrow]; exact hpick
    simp only [textKinds, List.nil_append, runAbs, hst, stepsEvs, List.flatMap_cons, List.flatMap_nil, List.append_nil]
  | @line s μ l ls row b t0 sf rest hrow hpick _ _ _ ih =>
    have hst : stepAbs T s (intrinsicKind D μ l) (ls.map (intrinsicKind D μ) ++ [.EOF]) = some b := by
      unfold stepAbs; rw [hrow]; exact hpick
    have hst' : stepAbs T s (intrinsicKind D μ l) (textKinds D T b.target (muAfter D μ l b.kind) ls ++ [.EOF]) = some b := by
      unfold stepAbs; rw [hrow]; exact pick_textKinds F D s row hrow μ l ls b hpick
    have htk : textKinds D T s μ (l :: ls) = intrinsicKind D μ l :: textKinds D T b.target (muAfter D μ l b.kind) ls := by
      simp only [textKinds, hst]
    rw [htk, List.cons_append, runAbs, hst']
    dsimp only
    rw [ih]
    simp only [stepsEvs, List.flatMap_cons]

/-- every token of a trace is the result of a successful test of its branch's kind -/
theorem trace_tokens {D : List Dialect} {T : Table} {s : Nat} {μ : MState} {ls : List Str} {sf : Nat}
    {steps : List (Branch × Token)} (h : Trace D T s μ ls sf steps) :
    ∀ p ∈ steps, p.2.mtype = some p.1.kind ∧ WellMatched p.2 := by
  induction h with
  | eof _ _ _ hres =>
    intro p hp
    rw [List.mem_singleton] at hp
    subst hp
    exact matchTok_well_matched D _ _ _ hres
  | line _ _ _ hres _ ih =>
    intro p hp
    rcases List.mem_cons.1 hp with rfl | hp
    · exact matchTok_well_matched D _ _ _ hres
    · exact ih p hp

theorem adjOK_prodOps (t : Token) (ps : List Prod) (h : prodsAdj ps = true)
    (ht : Prod.start .DocString ∈ ps → openingSep t) : adjOK (prodOps t ps) := by
  induction ps with
  | nil => trivial
  | cons p ps ih =>
    have ih' := fun h' => ih h' fun hm => ht (List.mem_cons_of_mem _ hm)
    cases p with
    | end_ r => exact ih' h
    | build => exact ih' h
    | start r =>
      simp only [prodsAdj, Bool.and_eq_true, Bool.or_eq_true, bne_iff_ne, ne_eq, beq_iff_eq] at h
      refine ⟨fun hr => ?_, ih' h.2⟩
      subst hr
      rcases h.1 with h1 | h1
      · exact absurd rfl h1
      · cases ps with
        | nil => cases h1
        | cons q qs =>
          simp only [List.head?_cons, Option.some.injEq] at h1
          subst h1
          exact ⟨t, prodOps t qs, rfl, ht (List.mem_cons_self ..)⟩

/-- with the doc-string facts of the table: along a trace the matcher is inside a doc string exactly
    in the content states, so every `start_rule(DocString)` is followed by the `build` of an opening
    separator -/
theorem trace_adj {D : List Dialect} {T : Table} (hf : textDialectFacts D = true)
    (hCE : contentEntry T = true) (hDS : docStringOpens T = true)
    {s : Nat} {μ : MState} {ls : List Str} {sf : Nat} {steps : List (Branch × Token)}
    (h : Trace D T s μ ls sf steps) (hμ : MuOK D μ)
    (hinv : μ.inDocString = (contentStates T).contains s) :
    ∀ p ∈ steps, adjOK (prodOps p.2 p.1.prods) := by
  simp only [docStringOpens, Bool.and_eq_true, List.all_eq_true, Bool.or_eq_true, Bool.not_eq_true',
    beq_iff_eq] at hDS
  obtain ⟨-, hDS⟩ := hDS
  simp only [contentEntry, List.all_eq_true] at hCE
  induction h with
  | @eof s μ row b t0 hrow hpick _ _ =>
    intro p hp
    rw [List.mem_singleton] at hp
    subst hp
    obtain ⟨hid, hmem⟩ := row_id_of_row? hrow
    obtain ⟨hbm, hpass, -⟩ := pick_mem hpick
    obtain ⟨hadj, hds⟩ := hDS row hmem b hbm
    refine adjOK_prodOps _ _ hadj fun hm => ?_
    exfalso
    rcases hds with hds | hds
    · have : b.prods.contains (Prod.start .DocString) = true := List.contains_iff_mem.2 hm
      rw [this] at hds; cases hds
    · rw [passes_EOF, hds.1] at hpass; cases hpass
  | @line s μ l ls row b t0 sf rest hrow hpick ht0 hres _ ih =>
    obtain ⟨hid, hmem⟩ := row_id_of_row? hrow
    obtain ⟨hbm, hpass, -⟩ := pick_mem hpick
    obtain ⟨hadj, hds⟩ := hDS row hmem b hbm
    have hce := hCE row hmem b hbm
    rw [hid] at hce hds
    have hv : verdict D μ l b.kind = true := by rw [kind_unique hf D μ hμ.1 hμ.2 l]; exact hpass
    -- the invariant after the line
    have hnext : (muAfter D μ l b.kind).inDocString = (contentStates T).contains b.target := by
      by_cases hk : b.kind = .DocStringSeparator
      · have hm := verdict_matched hv
        rw [hk] at hm
        have := (docsep_match D μ (probe l) l hm).2.2.2
        unfold muAfter
        rw [hk, this, hinv]
        cases hc : (contentStates T).contains s with
        | true =>
          rw [hc] at hce
          simp only [if_true, hk, beq_self_eq_true, Bool.true_and, Bool.or_eq_true, Bool.not_eq_true',
            Bool.and_eq_true, beq_iff_eq] at hce
          rcases hce with h1 | h1
          · rw [h1]; rfl
          · exact absurd h1.1 (by decide)
        | false =>
          rw [hc] at hce
          simp only [Bool.false_eq_true, if_false, hk, beq_self_eq_true, beq_iff_eq] at hce
          rw [← hce]; rfl
      · have hsep : (muAfter D μ l b.kind).activeSep = μ.activeSep := keeps_activeSep D b.kind μ (probe l) l hk
        rw [inDocString_congr hsep, hinv]
        have hkb : (b.kind == Kind.DocStringSeparator) = false := by simpa using hk
        cases hc : (contentStates T).contains s with
        | true =>
          rw [hc] at hce
          simp only [if_true, hkb, Bool.false_and, Bool.false_or, Bool.and_eq_true, beq_iff_eq] at hce
          rw [hce.2, hc]
        | false =>
          rw [hc] at hce
          simp only [Bool.false_eq_true, if_false, hkb] at hce
          exact (by simpa using hce.symm : (contentStates T).contains b.target = false).symm
    intro p hp
    rcases List.mem_cons.1 hp with rfl | hp
    · refine adjOK_prodOps _ _ hadj fun hm => ?_
      have hcon : b.prods.contains (Prod.start .DocString) = true := List.contains_iff_mem.2 hm
      rcases hds with hds | hds
      · rw [hcon] at hds; cases hds
      · obtain ⟨hk, hnc⟩ := hds
        have hin : μ.inDocString = false := by rw [hinv]; exact hnc
        rw [matchTok_line ht0] at hres ⊢
        dsimp only at hres ⊢
        rw [hk] at hres ⊢
        obtain ⟨h1, -, h3, -⟩ := docsep_match D μ t0 l hres
        exact ⟨h1, by rw [h3, hin]; rfl⟩
    · exact ih (muAfter_ok D μ hμ l b.kind) hnext p hp

end Lemmas
end GV
