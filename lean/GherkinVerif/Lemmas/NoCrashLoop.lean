/-
  Lemmas/NoCrashLoop.lean — crash-freedom of the parser for EVERY run (property C01), part 2:
  the glue.  Under `Spec.noCrashCheck T fuel = true` (Lemmas/NoCrashRun.lean) the invariant

      `J σ s c`:  the typing `σ` has an entry `(a, d)` for the current state `s`, the builder's
                  stack is typed by `a` (`STyped`) and the matcher is inside a doc string iff `d`

  holds at every turn of the parse loop, in both error modes, for accepted and rejected runs
  alike: a successful test hands a well-matched token of its kind to the builder
  (`matchP_spec`), a look-ahead touches neither the builder nor the doc-string mode
  (`lookahead_keeps`), the productions of the branch taken are safe (`runProds_safe`), an
  unexpected line changes nothing and stays in the same state, an error either is recorded
  (collecting mode) or aborts with a parser error (stop mode, or the error limit).  After the loop
  the final `end_rule` pops a node that has its required children whatever state the loop ended in
  (`topOK`), and `get_result()` is consulted only when no error was recorded — then the last test
  was the end-of-file test and the root holds the document.

  Result: `parseWith_no_crash`.
-/
import GherkinVerif.Lemmas.NoCrashRun
import GherkinVerif.Lemmas.GlueOutcome
namespace GV
namespace Lemmas
namespace NC
open Spec

/-! ### the matcher's doc-string mode -/

/-- no test other than `match_DocStringSeparator` touches the active delimiter -/
theorem matchLine_keeps_sep (D : List Dialect) (k : Kind) (μ : MState) (t : Token) (l : Str)
    (hk : k ≠ .DocStringSeparator) : (matchLine D k μ t l).μ.activeSep = μ.activeSep := by
  cases k <;> first | (exact absurd rfl hk) | skip
  all_goals simp only [matchLine]
  all_goals (repeat' split) <;> simp

theorem matchTok_keeps_sep (D : List Dialect) (k : Kind) (μ : MState) (t : Token)
    (hk : k ≠ .DocStringSeparator) : (matchTok D k μ t).1.μ.activeSep = μ.activeSep := by
  unfold matchTok
  split
  · split <;> rfl
  · exact matchLine_keeps_sep D k μ t _ hk

theorem inDoc_congr {μ μ' : MState} (h : μ'.activeSep = μ.activeSep) : μ'.inDocString = μ.inDocString := by
  unfold MState.inDocString; rw [h]

/-- a successful `match_DocStringSeparator` toggles the mode and sets the text iff it opens -/
theorem matchTok_docsep (D : List Dialect) (μ : MState) (t : Token)
    (h : (matchTok D .DocStringSeparator μ t).1.res = .matched) :
    (matchTok D .DocStringSeparator μ t).1.tok.text.isSome = !μ.inDocString ∧
    (matchTok D .DocStringSeparator μ t).1.μ.inDocString = !μ.inDocString := by
  unfold matchTok at h ⊢
  cases hl : t.line with
  | none => simp only [hl] at h; exact absurd h (by simp)
  | some l =>
    simp only [hl] at h ⊢
    obtain ⟨-, -, h3, h4⟩ := docsep_match D μ t l h
    exact ⟨h3, h4⟩

/-- an unsuccessful one changes nothing -/
theorem matchTok_docsep_no (D : List Dialect) (μ : MState) (t : Token)
    (h : (matchTok D .DocStringSeparator μ t).1.res ≠ .matched) :
    (matchTok D .DocStringSeparator μ t).1.μ = μ := by
  unfold matchTok at h ⊢
  cases hl : t.line with
  | none => dsimp only; split <;> rfl
  | some l =>
    simp only [hl] at h ⊢
    unfold matchLine at h ⊢
    simp only at h ⊢
    split
    · next heq => rw [heq] at h; exact absurd rfl h
    · rfl

/-- a test matches the end-of-file token iff it is the end-of-file test -/
theorem matchTok_eof_iff (D : List Dialect) (k : Kind) (μ : MState) (t : Token)
    (h : (matchTok D k μ t).1.res = .matched) : t.line = none ↔ k = .EOF := by
  unfold matchTok at h
  cases hl : t.line with
  | none =>
    simp only [hl] at h
    by_cases hk : (k == .EOF) = true
    · exact ⟨fun _ => by simpa using hk, fun _ => rfl⟩
    · simp only [hk] at h; cases h
  | some l =>
    simp only [hl] at h
    refine ⟨fun e => (by cases e), fun e => ?_⟩
    subst e
    unfold matchLine at h
    cases h

/-- the mode after a test: toggled by a successful separator test, kept otherwise -/
theorem matchTok_mode_matched (D : List Dialect) (k : Kind) (μ : MState) (t : Token)
    (h : (matchTok D k μ t).1.res = .matched) :
    (matchTok D k μ t).1.μ.inDocString = flipD k μ.inDocString := by
  unfold flipD
  by_cases hk : k = .DocStringSeparator
  · subst hk; rw [if_pos rfl]; exact (matchTok_docsep D μ t h).2
  · rw [if_neg hk]; exact inDoc_congr (matchTok_keeps_sep D k μ t hk)

theorem matchTok_mode_other (D : List Dialect) (k : Kind) (μ : MState) (t : Token)
    (h : (matchTok D k μ t).1.res ≠ .matched) :
    (matchTok D k μ t).1.μ.inDocString = μ.inDocString := by
  by_cases hk : k = .DocStringSeparator
  · subst hk; rw [matchTok_docsep_no D μ t h]
  · exact inDoc_congr (matchTok_keeps_sep D k μ t hk)

theorem tokOK_of_matched (D : List Dialect) (k : Kind) (μ : MState) (t : Token)
    (h : (matchTok D k μ t).1.res = .matched) : TokOK k μ.inDocString (matchTok D k μ t).1.tok := by
  obtain ⟨h1, h2⟩ := matchTok_well_matched D k μ t h
  refine ⟨h1, h2, ?_⟩
  intro hk; subst hk
  exact (matchTok_docsep D μ t h).1

/-! ### one test -/

/-- One test on a typed stack: the builder is untouched; a successful test yields a token the
    builder can take and moves the doc-string mode by `flipD`; an unsuccessful or raising test
    keeps the mode; a raise in stop mode (or beyond the error limit) aborts with a parser error. -/
theorem matchP_spec (D : List Dialect) (cap : Nat) (stop : Bool) (k : Kind) (t : Token) (a : List NFrame) (d : Bool) :
    Triple (fun c => STyped a c.β.stack ∧ c.μ.inDocString = d) (matchP D cap stop k t)
      (fun r c => STyped a c.β.stack ∧ r.2.line = t.line ∧
        (r.1 = true → TokOK k d r.2 ∧ c.μ.inDocString = flipD k d ∧ (t.line = none ↔ k = .EOF)) ∧
        (r.1 = false → c.μ.inDocString = d)) NoCrashE := by
  refine Triple.intro fun c r c' hc hr => ?_
  obtain ⟨hty, hd⟩ := hc
  rw [run_matchP] at hr
  dsimp only at hr
  have hline := (matchTok_tok D k c.μ t).1
  split at hr
  · next hres =>
    cases hr
    refine ⟨hty, hline, fun _ => ⟨?_, ?_, matchTok_eof_iff D k c.μ t hres⟩, fun h => (by cases h)⟩
    · rw [← hd]; exact tokOK_of_matched D k c.μ t hres
    · rw [← hd]; exact matchTok_mode_matched D k c.μ t hres
  · next hres =>
    cases hr
    refine ⟨hty, hline, fun h => (by cases h), fun _ => ?_⟩
    rw [← hd]; exact matchTok_mode_other D k c.μ t (by rw [hres]; intro h; cases h)
  · next e hres =>
    split at hr
    · cases hr; intro w hw; cases hw
    · rcases hr2 : run (addError cap e) _ with ⟨r2, c2⟩
      rw [hr2] at hr
      obtain ⟨hβ, hμ, _, hres2⟩ := addError_nocrash _ _ _ _ _ hr2
      cases r2 with
      | ok u =>
        cases hr
        refine ⟨by rw [hβ]; exact hty, hline, fun h => (by cases h), fun _ => ?_⟩
        rw [hμ, ← hd]
        exact matchTok_mode_other D k c.μ t (by rw [hres]; intro h; cases h)
      | error x => cases hr; exact hres2

/-! ### look-aheads touch neither the builder nor the doc-string mode -/

/-- `m` leaves the builder and the active delimiter alone and never crashes -/
def Keeps {α} (m : PM α) : Prop :=
  ∀ c r c', run m c = (r, c') → c'.β = c.β ∧ c'.μ.activeSep = c.μ.activeSep ∧
    ∀ e, r = .error e → NoCrashE e c'

theorem Keeps.pure {α} (a : α) : Keeps (pure a : PM α) := by
  intro c r c' h; rw [prun_pure] at h; cases h; exact ⟨rfl, rfl, fun e he => by cases he⟩

theorem Keeps.bind {α β} {m : PM α} {f : α → PM β} (h1 : Keeps m) (h2 : ∀ a, Keeps (f a)) : Keeps (m >>= f) := by
  intro c r c' h
  rw [prun_bind] at h
  rcases hr : run m c with ⟨r1, c1⟩
  rw [hr] at h
  obtain ⟨hβ, hμ, he⟩ := h1 _ _ _ hr
  cases r1 with
  | error e => cases h; exact ⟨hβ, hμ, fun e' he' => by cases he'; exact he _ rfl⟩
  | ok x =>
    obtain ⟨hβ2, hμ2, he2⟩ := h2 x _ _ _ h
    exact ⟨hβ2.trans hβ, hμ2.trans hμ, he2⟩

theorem keeps_readToken : Keeps readToken := by
  intro c r c' h
  rw [run_readToken] at h
  split at h
  · cases h; exact ⟨rfl, rfl, fun e he => by cases he⟩
  · split at h <;> (cases h; exact ⟨rfl, rfl, fun e he => by cases he⟩)

theorem keeps_matchP (D : List Dialect) (cap : Nat) (stop : Bool) (k : Kind) (t : Token)
    (hk : k ≠ .DocStringSeparator) : Keeps (matchP D cap stop k t) := by
  intro c r c' h
  rw [run_matchP] at h
  dsimp only at h
  have hs := matchTok_keeps_sep D k c.μ t hk
  split at h
  · cases h; exact ⟨rfl, hs, fun e he => by cases he⟩
  · cases h; exact ⟨rfl, hs, fun e he => by cases he⟩
  · split at h
    · cases h; exact ⟨rfl, hs, fun e he w hw => by cases he; cases hw⟩
    · rcases hr2 : run (addError cap _) _ with ⟨r2, c2⟩
      rw [hr2] at h
      obtain ⟨hβ, hμ, _, hres2⟩ := addError_nocrash _ _ _ _ _ hr2
      cases r2 with
      | ok u => cases h; exact ⟨hβ, by rw [hμ]; exact hs, fun e he => by cases he⟩
      | error x => cases h; exact ⟨hβ, by rw [hμ]; exact hs, fun e he => by cases he; exact hres2⟩

theorem keeps_matchAny (D : List Dialect) (cap : Nat) (stop : Bool) :
    ∀ (ks : List Kind) (t : Token), Kind.DocStringSeparator ∉ ks → Keeps (matchAny D cap stop ks t)
  | [], t, _ => by unfold GV.matchAny; exact Keeps.pure _
  | k :: ks, t, hks => by
    unfold GV.matchAny
    refine Keeps.bind (keeps_matchP D cap stop k t fun e => hks (by simp [e])) fun r => ?_
    obtain ⟨m, t'⟩ := r
    dsimp only
    split
    · exact Keeps.pure _
    · exact keeps_matchAny D cap stop ks t' fun e => hks (List.mem_cons_of_mem _ e)

theorem keeps_lookaheadLoop (D : List Dialect) (cap : Nat) (stop : Bool) (la : LookAhead)
    (h1 : Kind.DocStringSeparator ∉ la.expected) (h2 : Kind.DocStringSeparator ∉ la.skip) :
    ∀ (fuel : Nat) (acc : List Token), Keeps (lookaheadLoop D cap stop la fuel acc)
  | 0, acc => by
    unfold GV.lookaheadLoop
    intro c r c' h
    rw [prun_throw] at h; cases h
    exact ⟨rfl, rfl, fun e he w hw => by cases he; cases hw⟩
  | fuel + 1, acc => by
    unfold GV.lookaheadLoop
    refine Keeps.bind keeps_readToken fun t => Keeps.bind (keeps_matchAny D cap stop _ _ h1) fun r => ?_
    obtain ⟨m, t1⟩ := r
    dsimp only
    split
    · exact Keeps.pure _
    · refine Keeps.bind (keeps_matchAny D cap stop _ _ h2) fun r => ?_
      obtain ⟨s, t2⟩ := r
      dsimp only
      split
      · exact keeps_lookaheadLoop D cap stop la h1 h2 fuel _
      · exact Keeps.pure _

theorem lookahead_keeps (D : List Dialect) (cap : Nat) (stop : Bool) (la : LookAhead)
    (h1 : Kind.DocStringSeparator ∉ la.expected) (h2 : Kind.DocStringSeparator ∉ la.skip) :
    Keeps (lookahead D cap stop la) := by
  unfold GV.lookahead
  refine Keeps.bind (fun c r c' h => by rw [run_get] at h; cases h; exact ⟨rfl, rfl, fun e he => by cases he⟩) fun c0 => ?_
  refine Keeps.bind (keeps_lookaheadLoop D cap stop la h1 h2 _ _) fun r => ?_
  refine Keeps.bind (fun c r c' h => by rw [run_modify] at h; cases h; exact ⟨rfl, rfl, fun e he => by cases he⟩) fun _ => ?_
  exact Keeps.pure _

/-! ### the invariant of the parse loop -/

/-- a fact that follows from the precondition may be assumed -/
theorem Triple.assume {α} {P : Ctx → Prop} {m : PM α} {Q : α → Ctx → Prop} {E} {φ : Prop}
    (hφ : ∀ c, P c → φ) (h : φ → Triple P m Q E) : Triple P m Q E := fun c hc => h (hφ c hc) c hc

/-- `runProds_safe` with any property of the (untouched) matcher state -/
theorem runProds_safe' {k : Kind} {d : Bool} (cap : Nat) (stop : Bool) (t : Token) (ht : TokOK k d t)
    (ps : List Prod) {a a' : List NFrame} (hex : nexecProds k d a ps = some a') (Pμ : MState → Prop) :
    Triple (fun c => STyped a c.β.stack ∧ Pμ c.μ) (runProds cap stop t ps)
      (fun _ c => STyped a' c.β.stack ∧ Pμ c.μ) NoCrashE :=
  Triple.of_forall fun c0 hc0 =>
    Triple.conseq (runProds_safe cap stop t c0.μ ht ps hex) (fun c hc => by subst hc; exact ⟨hc0.1, rfl⟩)
      (fun _ c hc => ⟨hc.1, by rw [hc.2]; exact hc0.2⟩) (fun _ _ h => h)

/-- the loop invariant: state `s` is typed, the builder's stack has that type, the matcher's
    doc-string mode is the recorded one -/
def J (σ : NTyping) (s : Nat) (c : Ctx) : Prop :=
  ∃ a d, nlookup σ s = some (a, d) ∧ STyped a c.β.stack ∧ c.μ.inDocString = d

/-- after one `match_token`: the invariant at the new state; unless the token was the end of file
    the new state has a row; if it was, an error has been recorded or only the document node is
    still open -/
def Post (σ : NTyping) (T : Table) (eof : Bool) (s' : Nat) (c' : Ctx) : Prop :=
  J σ s' c' ∧ (eof = false → (T.row? s').isSome = true) ∧
  (eof = true → c'.errors ≠ [] ∨ ∃ a d, nlookup σ s' = some (a, d) ∧ eofFinal a = true)

theorem tryBranches_safe (D : List Dialect) (T : Table) (stop : Bool) (σ : NTyping) {s : Nat} {a : List NFrame}
    {d : Bool} (hs : nlookup σ s = some (a, d)) (row : StateRow) (herr : row.errTarget = s)
    (hrow : (T.row? s).isSome = true) (l0 : Option Str) :
    ∀ (bs : List Branch) (t : Token), (∀ b ∈ bs, nbranchOK T σ a d b = true) → t.line = l0 →
      Triple (fun c => STyped a c.β.stack ∧ c.μ.inDocString = d) (tryBranches D T stop row bs t)
        (fun s' c' => Post σ T l0.isNone s' c') NoCrashE
  | [], t, _, _ => by
    unfold GV.tryBranches
    refine Triple.bind (Q := fun _ c => STyped a c.β.stack ∧ c.μ.inDocString = d)
      (Triple.modify _ fun c hc => hc) fun _ => ?_
    split
    · exact Triple.throw _ fun _ _ w hw => by cases hw
    · refine Triple.bind (Q := fun _ c => (STyped a c.β.stack ∧ c.μ.inDocString = d) ∧ c.errors ≠ []) ?_ fun _ => ?_
      · refine Triple.intro fun c r c' hc hr => ?_
        obtain ⟨hβ, hμ, hne, hres⟩ := addError_nocrash _ _ _ _ _ hr
        cases r with
        | ok u => exact ⟨⟨by rw [hβ]; exact hc.1, by rw [hμ]; exact hc.2⟩, hne⟩
        | error e => exact hres
      · refine Triple.pure _ fun c hc => ?_
        rw [herr]
        exact ⟨⟨a, d, hs, hc.1.1, hc.1.2⟩, fun _ => hrow, fun _ => Or.inl hc.2⟩
  | b :: bs, t, hbs, ht => by
    have hb := hbs b List.mem_cons_self
    have ih := fun t' (ht' : t'.line = l0) =>
      tryBranches_safe D T stop σ hs row herr hrow l0 bs t' (fun b' hb' => hbs b' (List.mem_cons_of_mem _ hb')) ht'
    unfold GV.tryBranches
    refine Triple.bind (matchP_spec D T.errorCap stop b.kind t a d) fun r => ?_
    obtain ⟨m, t'⟩ := r
    dsimp only
    refine Triple.assume (φ := t'.line = l0) (fun c hc => hc.2.1.trans ht) fun ht' => ?_
    simp only [nbranchOK, Bool.and_eq_true] at hb
    obtain ⟨hguard, hexec⟩ := hb
    cases m with
    | false =>
      simp only [Bool.false_eq_true, if_false]
      exact Triple.conseq (ih t' ht') (fun c hc => ⟨hc.1, hc.2.2.2 (by trivial)⟩) (fun _ _ h => h) (fun _ _ h => h)
    | true =>
      simp only [if_true]
      refine Triple.assume (φ := TokOK b.kind d t' ∧ (t.line = none ↔ b.kind = .EOF))
        (fun c hc => ⟨(hc.2.2.1 (by trivial)).1, (hc.2.2.1 (by trivial)).2.2⟩) fun hφ => ?_
      obtain ⟨htok, heof⟩ := hφ
      refine Triple.conseq (P := fun c => STyped a c.β.stack ∧ c.μ.inDocString = flipD b.kind d) ?_
        (fun c hc => ⟨hc.1, (hc.2.2.1 (by trivial)).2.1⟩) (fun _ _ h => h) (fun _ _ h => h)
      -- the continuation after the guard
      have cont : ∀ ok : Bool, (ok = false → b.kind ≠ .DocStringSeparator) →
          Triple (fun c => STyped a c.β.stack ∧ c.μ.inDocString = flipD b.kind d)
            (if ok = true then do
                GV.runProds T.errorCap stop t' b.prods
                pure b.target
              else GV.tryBranches D T stop row bs t') (fun s' c' => Post σ T l0.isNone s' c') NoCrashE := by
        intro ok hok
        cases ok with
        | false =>
          simp only [Bool.false_eq_true, if_false]
          have hfl : flipD b.kind d = d := by unfold flipD; rw [if_neg (hok rfl)]
          rw [hfl]
          exact ih t' ht'
        | true =>
          simp only [if_true]
          cases hx : nexecProds b.kind d a b.prods with
          | none => rw [hx] at hexec; cases hexec
          | some a' =>
            rw [hx] at hexec
            cases hl : nlookup σ b.target with
            | none => rw [hl] at hexec; cases hexec
            | some ty =>
              obtain ⟨a'', d''⟩ := ty
              rw [hl] at hexec
              simp only [Bool.and_eq_true, decide_eq_true_eq] at hexec
              obtain ⟨⟨hd'', hsub⟩, hfin⟩ := hexec
              refine Triple.bind (runProds_safe' T.errorCap stop t' htok b.prods hx
                (fun μ => μ.inDocString = flipD b.kind d)) fun _ => ?_
              refine Triple.pure _ fun c hc => ?_
              refine ⟨⟨a'', d'', hl, hc.1.sub hsub, by rw [hd'']; exact hc.2⟩, ?_, ?_⟩
              · intro hl0
                have hne : b.kind ≠ .EOF := by
                  intro hk
                  have := heof.2 hk
                  rw [← ht, this] at hl0; cases hl0
                rw [if_neg hne] at hfin; exact hfin
              · intro hl0
                have hk : b.kind = .EOF := by
                  apply heof.1
                  rw [ht]
                  cases l0 with
                  | none => rfl
                  | some l => cases hl0
                rw [if_pos hk] at hfin
                exact Or.inr ⟨a'', d'', hl, hfin⟩
      split
      · next hg =>
        refine Triple.bind (Q := fun ok c => (STyped a c.β.stack ∧ c.μ.inDocString = flipD b.kind d) ∧ ok = true)
          (Triple.pure _ fun c hc => ⟨hc, rfl⟩) fun ok => ?_
        refine Triple.assume (φ := ok = true) (fun c hc => hc.2) fun hok => ?_
        exact Triple.conseq (cont ok fun h => by rw [hok] at h; cases h) (fun c hc => hc.1)
          (fun _ _ h => h) (fun _ _ h => h)
      · next i hg =>
        rw [hg] at hguard
        simp only [Bool.and_eq_true, decide_eq_true_eq] at hguard
        obtain ⟨hkne, hla⟩ := hguard
        split
        · next la hla' =>
          rw [hla'] at hla
          simp only [Bool.not_eq_true', List.contains_eq_mem, List.mem_append, decide_eq_false_iff_not, not_or] at hla
          refine Triple.bind (Q := fun _ c => STyped a c.β.stack ∧ c.μ.inDocString = flipD b.kind d) ?_
            fun ok => cont ok fun _ => hkne
          refine Triple.intro fun c r c' hc hr => ?_
          obtain ⟨hβ, hμ, he⟩ := lookahead_keeps D T.errorCap stop la hla.1 hla.2 c r c' hr
          cases r with
          | ok x => exact ⟨by rw [hβ]; exact hc.1, by rw [inDoc_congr hμ]; exact hc.2⟩
          | error e => exact he e rfl
        · next hla' => rw [hla'] at hla; cases hla

/-! ### what the check says -/

theorem nlookup_mem {σ : NTyping} {s : Nat} {ty : NTy} (h : nlookup σ s = some ty) : (s, ty) ∈ σ := by
  induction σ with
  | nil => cases h
  | cons p σ ih =>
    obtain ⟨s', ty'⟩ := p
    simp only [nlookup] at h
    split at h
    · next e => simp only [Option.some.injEq] at h; subst h; subst e; exact List.mem_cons_self
    · exact List.mem_cons_of_mem _ (ih h)

/-- the content of `ntypingOK`, as used by the run-level induction -/
structure Checked (T : Table) (σ : NTyping) : Prop where
  start : nlookup σ 0 = some ([(T.startRule, []), (.None_, [])], false)
  row0 : (T.row? 0).isSome = true
  top : ∀ s a d, nlookup σ s = some (a, d) → topOK a = true
  rows : ∀ s a d, nlookup σ s = some (a, d) → ∀ row, T.row? s = some row →
    row.errTarget = s ∧ ∀ b ∈ row.branches, nbranchOK T σ a d b = true

theorem checked_of_ok {T : Table} {σ : NTyping} (h : ntypingOK T σ = true) : Checked T σ := by
  simp only [ntypingOK, Bool.and_eq_true, decide_eq_true_eq, List.all_eq_true] at h
  obtain ⟨⟨h0, hr0⟩, hall⟩ := h
  refine ⟨h0, hr0, ?_, ?_⟩
  · intro s a d hs
    have := hall _ (nlookup_mem hs)
    simp only [nstateOK, Bool.and_eq_true] at this
    exact this.1
  · intro s a d hs row hrow
    have := hall _ (nlookup_mem hs)
    simp only [nstateOK, Bool.and_eq_true, hrow, decide_eq_true_eq, List.all_eq_true] at this
    exact this.2

/-! ### `match_token`, the loop -/

theorem matchToken_safe (D : List Dialect) {T : Table} (stop : Bool) {σ : NTyping} (hC : Checked T σ)
    (s : Nat) (hrow : (T.row? s).isSome = true) (t : Token) :
    Triple (J σ s) (matchToken D T stop s t) (fun s' c' => Post σ T t.line.isNone s' c') NoCrashE := by
  unfold GV.matchToken
  cases hr : T.row? s with
  | none => rw [hr] at hrow; cases hrow
  | some row =>
    dsimp only
    intro c hc
    obtain ⟨a, d, hs, hty, hd⟩ := hc
    obtain ⟨herr, hall⟩ := hC.rows s a d hs row hr
    exact tryBranches_safe D T stop σ hs row herr hrow t.line row.branches t hall rfl c ⟨hty, hd⟩

/-- where the loop ends: the invariant holds, and an error has been recorded or only the document
    node is still open -/
def LoopEnd (σ : NTyping) (s' : Nat) (c' : Ctx) : Prop :=
  J σ s' c' ∧ (c'.errors ≠ [] ∨ ∃ a d, nlookup σ s' = some (a, d) ∧ eofFinal a = true)

theorem parseLoop_safe (D : List Dialect) {T : Table} (stop : Bool) {σ : NTyping} (hC : Checked T σ) :
    ∀ (fuel s : Nat), (T.row? s).isSome = true →
      Triple (J σ s) (parseLoop D T stop fuel s) (LoopEnd σ) NoCrashE
  | 0, s, _ => by
    unfold GV.parseLoop
    exact Triple.throw _ fun _ _ w hw => by cases hw
  | fuel + 1, s, hrow => by
    unfold GV.parseLoop
    refine Triple.bind (Q := fun _ => J σ s) ?_ fun t => ?_
    · refine Triple.intro fun c r c' hc hr => ?_
      obtain ⟨hβ, hμ, he⟩ := keeps_readToken c r c' hr
      cases r with
      | ok x =>
        obtain ⟨a, d, hs, hty, hd⟩ := hc
        exact ⟨a, d, hs, by rw [hβ]; exact hty, by rw [inDoc_congr hμ]; exact hd⟩
      | error e => exact he e rfl
    refine Triple.bind (Q := fun _ => J σ s) (Triple.modify _ fun c hc => hc) fun _ => ?_
    refine Triple.bind (matchToken_safe D stop hC s hrow t) fun s' => ?_
    have he : t.eof = t.line.isNone := rfl
    rw [he]
    cases hl : t.line.isNone with
    | true =>
      simp only [if_true]
      exact Triple.pure _ fun c hc => ⟨hc.1, hc.2.2 rfl⟩
    | false =>
      simp only [Bool.false_eq_true, if_false]
      refine Triple.assume (φ := (T.row? s').isSome = true) (fun c hc => hc.2.1 rfl) fun hrow' => ?_
      exact Triple.conseq (parseLoop_safe D stop hC fuel s' hrow') (fun c hc => hc.1) (fun _ _ h => h) (fun _ _ h => h)

/-! ### the final `end_rule` and `get_result()` -/

theorem result_of_doc_item {β : BState} {m : Node} {st : List Node} (hst : β.stack = m :: st)
    (hne : getItems m.items (.rule .GherkinDocument) ≠ [])
    (hdoc : ∀ v, (Key.rule .GherkinDocument, v) ∈ m.items → ∃ d, v = .doc d) :
    ∃ d, β.result = .ok (some d) := by
  cases hi : getItems m.items (.rule .GherkinDocument) with
  | nil => exact absurd hi hne
  | cons v vs =>
    obtain ⟨d, rfl⟩ := hdoc v (mem_getItems _ _ _ (by rw [hi]; exact List.mem_cons_self))
    refine ⟨d, ?_⟩
    unfold BState.result
    rw [hst]
    simp only [getSingle_of_cons _ _ _ vs hi]

/-- The `end_rule` after the loop: wherever the loop ended, the node on top has its required
    children; afterwards an error is on record, or the root holds the document. -/
theorem finalEnd_safe {T : Table} (stop : Bool) {σ : NTyping} (hC : Checked T σ) (s : Nat) (x : RuleType) :
    Triple (LoopEnd σ s) (runProd T.errorCap stop default (.end_ x))
      (fun _ c => c.errors ≠ [] ∨ ∃ d, c.β.result = .ok (some d)) NoCrashE := by
  refine Triple.intro fun c r c' hc hr => ?_
  obtain ⟨⟨a, d, hs, hty, -⟩, hfin⟩ := hc
  have htop := hC.top s a d hs
  rw [run_runProd] at hr
  dsimp only at hr
  cases a with
  | nil => simp [topOK] at htop
  | cons f a =>
    obtain ⟨r0, ks⟩ := f
    cases a with
    | nil => simp [topOK] at htop
    | cons g a =>
      obtain ⟨p0, ps⟩ := g
      simp only [topOK] at htop
      rcases endRule_typed c.ids htop hty with ⟨hok, hty', hitem⟩ | ⟨e, herr, -, -⟩
      · rw [hok, run_liftB] at hr
        dsimp only at hr
        cases hr
        rcases hfin with hne | ⟨a2, d2, hs2, hf2⟩
        · exact Or.inl hne
        · right
          rw [hs] at hs2
          simp only [Option.some.injEq, Prod.mk.injEq] at hs2
          rw [← hs2.1] at hf2
          cases a with
          | cons _ _ => simp [eofFinal] at hf2
          | nil =>
            simp only [eofFinal, decide_eq_true_eq] at hf2
            subst hf2
            show ∃ d, (c.β.endRule c.ids).2.1.result = .ok (some d)
            cases hst : (c.β.endRule c.ids).2.1.stack with
            | nil => rw [hst] at hty'; exact hty'.elim
            | cons m st =>
              rw [hst] at hty'
              exact result_of_doc_item hst (hitem m st hst) hty'.1.2.2.2.2
      · rw [herr, run_liftB] at hr
        dsimp only at hr
        cases stop with
        | true =>
          simp only [if_true] at hr
          cases hr
          intro w hw; cases hw
        | false =>
          simp only [Bool.false_eq_true, if_false] at hr
          obtain ⟨-, -, hne, hres⟩ := addError_nocrash _ _ _ _ _ hr
          cases r with
          | ok u => exact Or.inl hne
          | error e' => exact hres

/-! ### the whole parse -/

theorem parseBody_safe (D : List Dialect) {T : Table} (stop : Bool) {σ : NTyping} (hC : Checked T σ) (n : Nat) :
    Triple (fun c => c.β.stack = [⟨.None_, []⟩] ∧ c.μ.inDocString = false) (parseBody D T stop n)
      (fun _ _ => True) NoCrashE := by
  unfold GV.parseBody
  refine Triple.bind (Q := fun _ => J σ 0) (Triple.modify _ fun c hc => ?_) fun _ => ?_
  · refine ⟨_, _, hC.start, ?_, hc.2⟩
    show STyped _ (⟨T.startRule, []⟩ :: c.β.stack)
    rw [hc.1]
    exact ⟨⟨rfl, fun _ hx => (nomatch hx), nodeInv_empty _⟩, ⟨rfl, fun _ hx => (nomatch hx), nodeInv_empty _⟩, trivial⟩
  refine Triple.bind (parseLoop_safe D stop hC _ 0 hC.row0) fun s => ?_
  refine Triple.bind (finalEnd_safe stop hC s _) fun _ => ?_
  refine Triple.bind Triple.get fun c0 => ?_
  dsimp only
  split
  · exact Triple.bind (Q := fun _ _ => False) (Triple.throw _ fun _ _ w hw => by cases hw) fun _ _ hf => hf.elim
  · next hne =>
    refine Triple.assume (φ := ∃ d, c0.β.result = .ok (some d)) (fun c hc => ?_) fun hφ => ?_
    · obtain ⟨rfl, hc⟩ := hc
      rcases hc with hc | hc
      · exfalso
        cases he : c0.errors with
        | nil => exact hc he
        | cons e es => simp [he] at hne
      · exact hc
    · obtain ⟨d, hd⟩ := hφ
      rw [hd]
      exact Triple.pure _ fun _ _ => trivial

/-- No crash, ever: for every table that passes `noCrashCheck`, every dialect table, both error
    modes, every matcher state, counter and source text, the outcome of `parseWith` is not the
    crash outcome. -/
theorem parseWith_no_crash (D : List Dialect) (T : Table) (fuel : Nat) (hT : noCrashCheck T fuel = true)
    (stop : Bool) (μ : MState) (ids : Nat) (src : Str) (w : String) :
    (parseWith D T stop μ ids src).1 ≠ .crash w := by
  have hC := checked_of_ok hT
  have hb := parseBody_safe D stop hC (splitLines src).length (ctx0 D μ ids src)
    ⟨rfl, by simp [ctx0, MState.reset, MState.inDocString]⟩
  rw [parseWith_eq]
  rcases hr : run (parseBody D T stop (splitLines src).length) (ctx0 D μ ids src) with ⟨r, c⟩
  cases r with
  | ok d => intro h; cases h
  | error e =>
    have := hb.2 _ _ hr
    cases e with
    | crash w' => exact absurd rfl (this w')
    | fuel => intro h; cases h
    | single e => intro h; cases h
    | composite es => intro h; cases h

end NC
end Lemmas
end GV
