/-
  Spec/PureFacts.lean — the additional Boolean table fact used by C18_queue_refines_peek.
-/
import GherkinVerif.Model.Parser
namespace GV.Spec

/-- every state tests `Comment` or `Other`, and `Empty` or `Other`: a comment line and a blank line
    are accepted by some test of every state, so they never reach an error tail.  (A token of such
    a line that has been through the look-ahead queue carries column 1 instead of its indentation;
    an error tail would report that column.) -/
def commentBlankTested (T : Table) : Bool :=
  T.rows.all fun r => r.branches.any (fun b => b.kind == .Comment || b.kind == .Other) &&
    r.branches.any (fun b => b.kind == .Empty || b.kind == .Other)

end GV.Spec
