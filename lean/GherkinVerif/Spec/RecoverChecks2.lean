/-
  Spec/RecoverChecks2.lean — Boolean vocabulary of the second document-level recovery theorem
  (property C14): the look-ahead condition "no look-ahead started on one of the first `k` lines peeks
  at line `k + 1`", computed from the prefix runs on the text itself.

  A look-ahead is started only by a guarded test, guarded tests are `TagLine` tests, `match_TagLine`
  answers "no" to a line whose trimmed text does not start with `@`, and a look-ahead stops at the
  first line it cannot step over — a *barrier line* (neither blank nor comment nor tag line) at
  the latest.  So line `i + 1 ≤ k` cannot peek at line `k + 1` if

    * one of the lines `i + 2 … k` is a barrier line, or
    * line `i + 1` does not start with `@`, or
    * the state in which line `i + 1` is read has no guarded test at all.
-/
import GherkinVerif.Spec.RecoverChecks
namespace GV.Spec

/-- the trimmed text starts with `@` (only such a line is matched by `TagLine`) -/
def tagStart (l : Str) : Bool :=
  match trimmed l with
  | [] => false
  | c :: _ => c == 64

/-- the state has a guarded test (one that starts a look-ahead) -/
def hasGuard (T : Table) (s : Nat) : Bool :=
  match T.row? s with
  | some row => row.branches.any fun b => b.guard.isSome
  | none => false

/-- line `i + 1` (among the first `k` lines `pre` of `src'`) starts no look-ahead that reaches line
    `k + 1`: a barrier line lies between, or it is no tag line, or it is read in a state without
    guarded tests -/
def noPeekFrom (D : List Dialect) (T : Table) (stop : Bool) (μ : MState) (ids : Nat) (src' : Str) (pre : List Str)
    (i : Nat) : Bool :=
  match pre[i]? with
  | none => true
  | some l =>
    (pre.drop (i + 1)).any barrierLine || !tagStart l ||
    (match runAfter D T stop μ ids src' i with
     | some (s, _) => !hasGuard T s
     | none => true)

/-- no look-ahead started on one of the first `k` lines of `src'` peeks at line `k + 1` -/
def noPeekAtB (D : List Dialect) (T : Table) (stop : Bool) (μ : MState) (ids : Nat) (src' : Str) (k : Nat) : Bool :=
  (List.range k).all fun i => noPeekFrom D T stop μ ids src' ((splitLines src').take k) i

/-- all hypotheses of `C14_unexpected_line_skipped_exact` on the text `src'` (collecting mode) whose
    line `k + 1` is the unexpected one: `unexpectedLineOkB` with the textual condition
    `barrierBefore` replaced by the look-ahead condition `noPeekAtB` -/
def unexpectedLineOk2B (D : List Dialect) (T : Table) (μ : MState) (ids : Nat) (src' : Str) (k : Nat) : Bool :=
  match (splitLines src')[k]? with
  | none => false
  | some u =>
    noPeekAtB D T false μ ids src' k &&
    (match runAfter D T false μ ids src' k with
     | some (s, c) => lineUnexpectedAt D T s c.μ u
     | none => false) &&
    decide ((parseWithPure D T false μ ids src').2.errors.length ≤ T.errorCap)

/-- the hypotheses of `C14_unexpected_line_stop` (stop-at-first-error mode): the stop-mode run reaches
    line `k + 1` without an error, in a state whose tests all say "no" to it -/
def unexpectedLineStopB (D : List Dialect) (T : Table) (μ : MState) (ids : Nat) (src' : Str) (k : Nat) : Bool :=
  match (splitLines src')[k]? with
  | none => false
  | some u =>
    match runAfter D T true μ ids src' k with
    | some (s, c) => lineUnexpectedAt D T s c.μ u
    | none => false

end GV.Spec
