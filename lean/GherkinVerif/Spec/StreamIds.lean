/-
  Spec/StreamIds.lean — vocabulary of the stream part of property C11: the ids an envelope shows,
  read in output order.
-/
import GherkinVerif.Model.Stream
import GherkinVerif.Spec.AstOf
import GherkinVerif.Spec.Compile
namespace GV.Spec

/-- the ids an envelope shows, in canonical order: a gherkinDocument envelope the ids of its AST
    (`canonicalIds`), a pickle envelope its steps' ids and then its own; source and parseError
    envelopes carry no ids.  (The `astNodeIds` / `astNodeId` of a pickle are references to ids of
    the document, not ids handed out; see `pickleRefs`.) -/
def envelopeIds : Envelope → List Nat
  | .gherkinDocument _ d => canonicalIds d
  | .pickle p => p.steps.map (·.id) ++ [p.id]
  | _ => []

/-- the ids shown by the envelopes of one source, in output order -/
def shownIds (es : List Envelope) : List Nat := es.flatMap envelopeIds

/-- the ids shown by a whole stream (one group of envelopes per source), in output order -/
def streamIds (groups : List (List Envelope)) : List Nat := groups.flatMap shownIds

end GV.Spec
