/-
  Spec/Render2.lean — property C03, round trip, the richer document model: the core model of
  Spec/Render.lean plus a DATA TABLE on a step.

  Canonical layout of a table row (under its step, which is at column 3):
          | a | bb |          (the `|` at column 5, one blank on each side of every cell)
-/
import GherkinVerif.Spec.Render
namespace GV.Spec

structure MStep2 where
  kw : Str
  text : Str
  /-- rows of cells; `[]` = no table -/
  table : List (List Str)
deriving Repr, DecidableEq

structure MScenario2 where
  tags : List Str
  kw : Str
  name : Str
  steps : List MStep2
deriving Repr, DecidableEq

structure MFeature2 where
  tags : List Str
  kw : Str
  name : Str
  scenarios : List MScenario2
deriving Repr, DecidableEq

def MStep2.core (s : MStep2) : MStep := ⟨s.kw, s.text⟩

/-- decode a model from plain lists of code-point lists (for test drivers): a step is
    `(keyword, text, table rows)`, a scenario `(tags, keyword, name, steps)` -/
def MFeature2.ofLists (tags : List Str) (kw name : Str)
    (scenarios : List (List Str × Str × Str × List (Str × Str × List (List Str)))) : MFeature2 :=
  { tags := tags, kw := kw, name := name,
    scenarios := scenarios.map fun s =>
      { tags := s.1, kw := s.2.1, name := s.2.2.1, steps := s.2.2.2.map fun p => ⟨p.1, p.2.1, p.2.2⟩ } }

/-- the same from `String`s -/
def MFeature2.ofStrings (tags : List String) (kw name : String)
    (scenarios : List (List String × String × String × List (String × String × List (List String)))) : MFeature2 :=
  MFeature2.ofLists (tags.map lit) (lit kw) (lit name)
    (scenarios.map fun s => (s.1.map lit, lit s.2.1, lit s.2.2.1,
      s.2.2.2.map fun p => (lit p.1, lit p.2.1, p.2.2.map fun r => r.map lit)))

/-- the core model embeds: no tables -/
def MFeature.toModel2 (m : MFeature) : MFeature2 :=
  { tags := m.tags, kw := m.kw, name := m.name,
    scenarios := m.scenarios.map fun s =>
      { tags := s.tags, kw := s.kw, name := s.name, steps := s.steps.map fun p => ⟨p.kw, p.text, []⟩ } }

/-! ### the renderer -/

/-- `| a | bb |` -/
def rowBody (cells : List Str) : Str := 124 :: cells.flatMap fun c => 32 :: c ++ [32, 124]

def rowLineOf (cells : List Str) : Str := [32, 32, 32, 32] ++ rowBody cells

def stepLines2 (s : MStep2) : List Str := stepLineOf s.core :: s.table.map rowLineOf

def scenarioLines2 (s : MScenario2) : List Str :=
  tagLineOf s.tags ++ titleLineOf s.kw s.name :: s.steps.flatMap stepLines2

def lineBodies2 (m : MFeature2) : List Str :=
  tagLineOf m.tags ++ titleLineOf m.kw m.name :: m.scenarios.flatMap scenarioLines2

def render2 (m : MFeature2) : Str := (lineBodies2 m).flatMap (· ++ [10])

/-! ### well-formedness -/

/-- a cell: no surrounding whitespace, none of `|`, `\`, LF -/
def cellOK (c : Str) : Bool := noWsStart c && noWsEnd c && c.all fun x => x != 124 && x != 92 && x != 10

/-- a table: every row has as many cells as the first, at least one, all cells `cellOK` -/
def tableOK (rows : List (List Str)) : Bool :=
  rows.all fun r => !r.isEmpty && r.length == (rows.headD []).length && r.all cellOK

def stepOK2 (d : Dialect) (s : MStep2) : Bool := stepOK d s.core && tableOK s.table

def scenarioOK2 (d : Dialect) (s : MScenario2) : Bool :=
  s.tags.all tagOK && (d.scenario ++ d.scenarioOutline).contains s.kw && cleanText s.name &&
  s.steps.all (stepOK2 d)

def WF2 (d : Dialect) (m : MFeature2) : Bool :=
  m.tags.all tagOK && d.feature.contains m.kw && cleanText m.name && m.scenarios.all (scenarioOK2 d)

/-! ### the expected AST -/

/-- (column, text) of the cells of a rendered row; `p` is the column after the preceding `|`.
    A non-empty cell starts one column further (one blank), an empty cell is reported two further
    (both blanks are skipped). -/
def cellCols : Nat → List Str → List (Nat × Str)
  | _, [] => []
  | p, c :: cs => (p + (if c.isEmpty then 2 else 1), c) :: cellCols (p + c.length + 3) cs

def expRow (line i : Nat) (cells : List Str) : Row :=
  { id := i, loc := ⟨line, some 5⟩, cells := (cellCols 6 cells).map fun p => ⟨⟨line, some p.1⟩, p.2⟩ }

def expRows : Nat → Nat → List (List Str) → List Row
  | _, _, [] => []
  | line, i, r :: rs => expRow line i r :: expRows (line + 1) (i + 1) rs

/-- the step argument: the table's rows draw their ids first, `i, i+1, …` -/
def expArg (line i : Nat) (rows : List (List Str)) : StepArg :=
  if rows.isEmpty then .none else .table { loc := ⟨line, some 5⟩, rows := expRows line i rows }

def expStep2 (d : Dialect) (line i : Nat) (s : MStep2) : Step :=
  { id := i + s.table.length, loc := ⟨line, some 3⟩, keyword := s.kw, ktype := stepKType d s.kw, text := s.text, arg := expArg (line + 1) i s.table }

def stepLineCount (s : MStep2) : Nat := 1 + s.table.length
def stepIdCount (s : MStep2) : Nat := s.table.length + 1

def expSteps2 (d : Dialect) : Nat → Nat → List MStep2 → List Step
  | _, _, [] => []
  | line, i, s :: ss => expStep2 d line i s :: expSteps2 d (line + stepLineCount s) (i + stepIdCount s) ss

def stepsLines (ss : List MStep2) : Nat := (ss.map stepLineCount).sum
def stepsIds (ss : List MStep2) : Nat := (ss.map stepIdCount).sum

def expScenario2 (d : Dialect) (line i : Nat) (s : MScenario2) : Scenario :=
  { id := i + stepsIds s.steps + s.tags.length, tags := expTags line (i + stepsIds s.steps) s.tags, loc := ⟨line + tagLines s.tags, some 1⟩, keyword := s.kw, name := s.name, description := [], steps := expSteps2 d (line + tagLines s.tags + 1) i s.steps, examples := [] }

def scLines2 (s : MScenario2) : Nat := tagLines s.tags + 1 + stepsLines s.steps
def scIds2 (s : MScenario2) : Nat := stepsIds s.steps + s.tags.length + 1

def expScenarios2 (d : Dialect) : Nat → Nat → List MScenario2 → List Scenario
  | _, _, [] => []
  | line, i, s :: ss => expScenario2 d line i s :: expScenarios2 d (line + scLines2 s) (i + scIds2 s) ss

def idsOfScenarios2 (ss : List MScenario2) : Nat := (ss.map scIds2).sum

def expectedDoc2 (d : Dialect) (lang : Str) (m : MFeature2) (i : Nat) : Doc :=
  { feature := some
      { tags := expTags 1 (i + idsOfScenarios2 m.scenarios) m.tags,
        loc := ⟨1 + tagLines m.tags, some 1⟩, language := lang, keyword := m.kw, name := m.name,
        description := [],
        children := (expScenarios2 d (2 + tagLines m.tags) i m.scenarios).map FeatureChild.scenario },
    comments := [] }

def idsAfter2 (m : MFeature2) (i : Nat) : Nat := i + idsOfScenarios2 m.scenarios + m.tags.length

end GV.Spec
