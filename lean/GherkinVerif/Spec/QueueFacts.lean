/-
  Spec/QueueFacts.lean — Boolean facts about a transition table that make the look-ahead queue
  a first-in-first-out buffer of *consecutive* lines (C18) and bound the look-ahead work (C01).
  Each is evaluated by `decide +kernel` on the regenerated table in the property module and
  lifted to all source texts by the generic lemmas of Lemmas/QueueOrder.lean.

  Vocabulary.  The *skip kinds* are `Empty`, `Comment`, `TagLine` (what a look-ahead may step
  over); the *title kinds* are the five keyword-plus-colon kinds.  Matching a skip or title kind
  never changes the matcher state.  A *tag state* is a state that has no guarded test and tests
  only skip and title kinds, whose skip tests and whose error tail lead to tag states again:
  while the main loop is in a tag state no look-ahead can start.
-/
import GherkinVerif.Spec.TableFacts
import GherkinVerif.Spec.DialectFacts
namespace GV.Spec

/-- the kinds a look-ahead may step over -/
def isSkipKind : Kind → Bool
  | .Empty | .Comment | .TagLine => true
  | _ => false

/-- skip kinds and title kinds: matching them leaves the matcher state alone and the outcome
    depends on the line text and the dialect only -/
def stableKind (k : Kind) : Bool := isSkipKind k || k.isTitle

/-- the skip list of the table's look-aheads (that of the first one; `lookaheadsUniform` says
    they all agree) -/
def skipList (T : Table) : List Kind :=
  match T.lookaheads with
  | la :: _ => la.skip
  | [] => []

/-- all look-aheads step over the same kinds, in the same order; these are skip kinds; and every
    look-ahead waits for title kinds only -/
def lookaheadsUniform (T : Table) : Bool :=
  T.lookaheads.all fun la =>
    la.skip == skipList T && la.skip.all isSkipKind && la.expected.all Kind.isTitle

/-- candidate tag state: no guarded test, only skip and title kinds tested -/
def isTagRow (r : StateRow) : Bool := r.branches.all fun b => b.guard.isNone && stableKind b.kind

/-- `s` is a tag state (the row `match_token` finds for it is a candidate; closure is
    `tagClosed`) -/
def isTag (T : Table) (s : Nat) : Bool :=
  match T.row? s with
  | some r => isTagRow r
  | none => false

/-- from a candidate row every skip-kind test and the error tail lead to a tag state -/
def tagClosed (T : Table) : Bool :=
  T.rows.all fun r => !isTagRow r ||
    (r.branches.all (fun b => !isSkipKind b.kind || isTag T b.target) && isTag T r.errTarget)

/-- the next test is a `TagLine` test that leads to a tag state -/
def tagNext (T : Table) : List Branch → Bool
  | [] => false
  | b :: _ => b.kind == .TagLine && isTag T b.target

/-- every guarded test in the list is a `TagLine` test leading to a tag state and is directly
    followed by another `TagLine` test leading to a tag state (so a run of guarded tests ends in
    an unguarded `TagLine` test, and whichever of them fires, the next state is a tag state) -/
def guardTail (T : Table) : List Branch → Bool
  | [] => true
  | b :: rest =>
    (b.guard.isNone || (b.kind == .TagLine && isTag T b.target && tagNext T rest)) && guardTail T rest

def guardsFollowed (T : Table) : Bool := T.rows.all fun r => guardTail T r.branches

/-- the table facts the first-in-first-out theorem uses, in one checker -/
def queueFacts (T : Table) : Bool := lookaheadsUniform T && tagClosed T && guardsFollowed T

/-- the dialect facts it uses: no keyword starts like a comment, tag, … line -/
def queueDialectFacts (D : List Dialect) : Bool := keywordsPlainStart D

/-! constants of the linear work bound (C01) -/

/-- the largest number of guarded tests in one state -/
def maxGuards (T : Table) : Nat :=
  (T.rows.map fun r => (r.branches.filter fun b => b.guard.isSome).length).foldl max 0

/-- the largest number of matcher calls one look-ahead spends on one token -/
def maxLookaheadTests (T : Table) : Nat :=
  (T.lookaheads.map fun la => la.expected.length + la.skip.length).foldl max 0

/-- matcher calls per token: the tests of one state plus one visit by each guarded test's
    look-ahead -/
def workPerToken (T : Table) : Nat := maxTests T + maxGuards T * maxLookaheadTests T

end GV.Spec
