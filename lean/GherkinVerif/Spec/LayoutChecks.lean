/-
  Spec/LayoutChecks.lean — the hypotheses of the whole-document layout theorems of property C16
  (Props/C16Doc3.lean) as Boolean functions the model driver can evaluate, so that the correspondence
  check applies each transformation to the implementation at EXACTLY the positions where the theorem
  speaks (Props/C16Doc3.lean proves these equal to `C16_blankLineOk` / `C16_indentOk`).
-/
import GherkinVerif.Spec.PrefixRun
import GherkinVerif.Spec.LayoutFacts
namespace GV.Spec

/-- the original run has aborted within the first `k` lines, or stands in a state that reads a blank
    line as `Empty` first -/
def blankLineOkB (D : List Dialect) (T : Table) (stop : Bool) (μ : MState) (ids : Nat) (src : Str) (k : Nat) : Bool :=
  match stateAfter D T stop μ ids src k with
  | some s => emptyFirst T s
  | none => true

/-- the kinds under which an indented line may have been handed to the builder -/
def indentableB : Kind → Bool
  | .FeatureLine | .RuleLine | .BackgroundLine | .ScenarioLine | .ExamplesLine | .StepLine | .TagLine
  | .TableRow | .Empty => true
  | _ => false

/-- the shift of line `i` read off the two texts -/
def shiftB (src' src : Str) (i : Nat) : Nat :=
  match (splitLines src')[i]?, (splitLines src)[i]? with
  | some l', some l => l'.length - l.length
  | _, _ => 0

/-- same number of lines; every line of `src'` is whitespace ++ the line of `src`; every moved line the
    original run handed to the builder was handed over as an indentable kind -/
def indentOkB (D : List Dialect) (T : Table) (stop : Bool) (μ : MState) (ids : Nat) (src' src : Str) : Bool :=
  (splitLines src').length == (splitLines src).length &&
  ((splitLines src').zip (splitLines src)).all (fun p =>
    decide (p.2.length ≤ p.1.length) && p.1.drop (p.1.length - p.2.length) == p.2 &&
      (p.1.take (p.1.length - p.2.length)).all isSpace) &&
  (parseWith D T stop μ ids src).2.builds.all fun t =>
    shiftB src' src (t.lineNo - 1) == 0 || (match t.mtype with | some K => indentableB K | none => false)

end GV.Spec
