/-
  Spec/LayoutChecks5.lean — the hypothesis of `C16_indent_docstring_block_document`
  (Props/C16Doc7.lean: indenting lines, a doc string may move AS ONE BLOCK) as Boolean functions a
  test driver can evaluate.

  The ghost list `builds` of the original run is scanned from the left.  The scan carries the
  SHIFT OF THE OPEN DOC STRING: the number of blanks put in front of the last doc-string delimiter
  line handed to the builder if that delimiter OPENED a doc string (in `builds` an opening delimiter
  carries the media type as its text, possibly empty; a closing one has no text), and `0` otherwise
  (no delimiter yet, or the last one closed its doc string).  That number is exactly the difference
  of the matcher's `indentToRemove` in the two runs.
-/
import GherkinVerif.Spec.LayoutChecks2
namespace GV.Spec

/-- the shift of the open doc string after the token `t` was handed to the builder (`d` before) -/
def nextShift (w : Nat → Nat) (d : Nat) (t : Token) : Nat :=
  match t.mtype with
  | some .DocStringSeparator => if t.text.isSome then w (t.lineNo - 1) else 0
  | _ => d

/-- the shift of the open doc string after the tokens `ts` were handed to the builder: the shift of
    the last delimiter line in `ts` if it opened a doc string, `0` otherwise -/
def openShift (w : Nat → Nat) (ts : List Token) : Nat := ts.foldl (nextShift w) 0

/-- the token `t`, handed to the builder while the shift of the open doc string is `d`, is on a line
    that may be moved by `w (t.lineNo - 1)`:
    * a line built as `Other` (doc-string content, description text) must be moved by exactly `d`
      — with its doc string if that is open, not at all otherwise;
    * a doc-string delimiter line, opening or closing, may be moved by any amount;
    * any other line is not moved or was built as an indentable kind (`FeatureLine` … `TableRow`,
      `Empty`). -/
def blockTokOk (w : Nat → Nat) (d : Nat) (t : Token) : Bool :=
  match t.mtype with
  | some .Other => w (t.lineNo - 1) == d
  | some .DocStringSeparator => true
  | some K => w (t.lineNo - 1) == 0 || indentableB K
  | none => w (t.lineNo - 1) == 0

/-- every token of the list is on a line that may be moved (`blockTokOk`), the shift of the open doc
    string being `d` at the start -/
def blockScan (w : Nat → Nat) : Nat → List Token → Bool
  | _, [] => true
  | d, t :: ts => blockTokOk w d t && blockScan w (nextShift w d t) ts

/-- same number of lines; every line of `src'` is whitespace ++ the line of `src`; every line the
    original run handed to the builder may be moved by the amount it is moved (`blockScan`): a doc
    string moves as one block -/
def indentBlockOkB (D : List Dialect) (T : Table) (stop : Bool) (μ : MState) (ids : Nat) (src' src : Str) : Bool :=
  (splitLines src').length == (splitLines src).length &&
  ((splitLines src').zip (splitLines src)).all (fun p =>
    decide (p.2.length ≤ p.1.length) && p.1.drop (p.1.length - p.2.length) == p.2 &&
      (p.1.take (p.1.length - p.2.length)).all isSpace) &&
  blockScan (shiftB src' src) 0 (parseWith D T stop μ ids src).2.builds

end GV.Spec
