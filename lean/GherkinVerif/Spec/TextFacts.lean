/-
  Spec/TextFacts.lean — additional Boolean facts for the text-level acceptance theorem (C02/C14
  at text level), kernel-checked on the regenerated tables in Props/C02Text.lean.
-/
import GherkinVerif.Spec.DialectFacts
import GherkinVerif.Spec.QueueFacts
import GherkinVerif.Spec.TextLevel
namespace GV.Spec

/-- no keyword of any dialect starts with `"` or a backtick (so no keyword is a proper prefix of a
    doc-string delimiter; `keywordsPlainStart` only says that no delimiter prefixes a keyword) -/
def noQuoteStart (D : List Dialect) : Bool :=
  D.all fun d => d.allKeywords.all fun k => !startsWith [34] k && !startsWith [96] k

/-- the dialect facts the text-level theorems use -/
def textDialectFacts (D : List Dialect) : Bool := keywordFacts D && noQuoteStart D

/-- the doc-string mode of a matcher state is one the matcher itself can produce: no delimiter
    active, or one of the two delimiters -/
def sepOK (μ : MState) : Bool :=
  μ.activeSep == none || μ.activeSep == some dq3 || μ.activeSep == some bt3

/-- some test that is tried on some line along the run of `textKinds` raises (a tag with
    whitespace in a line tested as a tag line, an unknown dialect in a language header) -/
def textRaises (D : List Dialect) (T : Table) : Nat → MState → List Str → Bool
  | _, _, [] => false
  | s, μ, l :: ls =>
    let k := intrinsicKind D μ l
    let fut := ls.map (intrinsicKind D μ) ++ [.EOF]
    match T.row? s with
    | none => false
    | some row =>
      match pickBranch T k fut row.branches with
      | none => textRaises D T s μ ls
      | some b => raisesBefore D μ l b row.branches || textRaises D T b.target (muAfter D μ l b.kind) ls

end GV.Spec
