/-
  Spec/TableFacts.lean — Boolean facts about a transition table.  Each is evaluated by
  `decide +kernel` on the table regenerated from the current parser.py, in the module of the
  property that uses it, and lifted to unbounded statements by generic lemmas.
-/
import GherkinVerif.Model.Abstract
namespace GV.Spec

def dedup {α} [BEq α] : List α → List α
  | [] => []
  | a :: as => a :: (dedup as).filter (· != a)

/-- every state's `expected_tokens` is the de-duplicated list of its test kinds, in order (C14) -/
def expectedIsTests (T : Table) : Bool :=
  T.rows.all fun r => r.expected == (dedup (r.branches.map (·.kind))).map fun k => "#" ++ k.name

/-- every error tail returns its own state: after an unexpected line parsing carries on from the
    same position (C14) -/
def errTailSelf (T : Table) : Bool := T.rows.all fun r => r.errTarget == r.id

/-- every branch hands its token to the builder exactly once, after all start/end events (C18) -/
def oneBuildLast (T : Table) : Bool :=
  T.rows.all fun r => r.branches.all fun b =>
    b.prods.getLast? == some .build && (b.prods.filter (· == .build)).length == 1

/-- row ids are distinct (so `row?` finds the row) and every target is a row or the end state -/
def wellFormed (T : Table) (endState : Nat) : Bool :=
  (T.rows.map (·.id)).eraseDups.length == T.rows.length &&
  T.rows.all fun r => r.branches.all fun b => b.target == endState || T.rows.any (·.id == b.target)

/-- the branches into the end state are exactly the `EOF` branches -/
def eofIffEnd (T : Table) (endState : Nat) : Bool :=
  T.rows.all fun r => r.branches.all fun b => (b.kind == .EOF) == (b.target == endState)

/-- guards occur only on `TagLine` tests and refer to existing look-aheads -/
def guardsOnTagLine (T : Table) : Bool :=
  T.rows.all fun r => r.branches.all fun b =>
    match b.guard with
    | none => true
    | some i => b.kind == .TagLine && i < T.lookaheads.length

/-- no look-ahead expects or skips `EOF`/`Other` (so a look-ahead always stops at end of file
    and at free text) -/
def lookaheadsStopAtEOF (T : Table) : Bool :=
  T.lookaheads.all fun la => !(la.expected ++ la.skip).contains .EOF && !(la.expected ++ la.skip).contains .Other

/-- `Language` is tested only in the start state -/
def languageOnlyAtStart (T : Table) : Bool :=
  T.rows.all fun r => r.id == 0 || r.branches.all (·.kind != .Language)

/-- doc-string content states: exactly `[DocStringSeparator → p, Other → self]`, unguarded, build only -/
def isContentRow (r : StateRow) : Bool :=
  match r.branches with
  | [b1, b2] => b1.kind == .DocStringSeparator && b1.guard == none && b1.prods == [.build] &&
                b2.kind == .Other && b2.guard == none && b2.prods == [.build] && b2.target == r.id
  | _ => false

def contentStates (T : Table) : List Nat := (T.rows.filter isContentRow).map (·.id)

/-- content states are entered only by a `DocStringSeparator` branch (from a non-content state) or
    by their own `Other` loop; a `DocStringSeparator` branch from a non-content state always
    leads into a content state, and from a content state out of it -/
def contentEntry (T : Table) : Bool :=
  let cs := contentStates T
  T.rows.all fun r => r.branches.all fun b =>
    if cs.contains r.id then
      (b.kind == .DocStringSeparator && !cs.contains b.target) || (b.kind == .Other && b.target == r.id)
    else
      (b.kind == .DocStringSeparator) == cs.contains b.target

/-- in every state other than description and content states, `Empty` is tested and is a
    build-only self-loop; the states that do not test `Empty` are those that test `Other` before it -/
def emptySelfLoop (T : Table) : Bool :=
  T.rows.all fun r => r.branches.all fun b => b.kind != .Empty || (b.target == r.id && b.prods == [.build] && b.guard == none)

/-- the largest number of tests in one state -/
def maxTests (T : Table) : Nat := (T.rows.map (·.branches.length)).foldl max 0

end GV.Spec
