/-
  Spec/StackDepth.lean — a Boolean table fact: the number of open builder nodes is a function of
  the parser state.  `ds` assigns a depth to every state; `depthsOk T ds` checks that the start
  state has depth 2 (the root node and the node of the start rule), every state has depth ≥ 1,
  every error tail keeps the depth and every branch's productions (`start` +1, `end` −1, `build` 0)
  lead from the depth of its state to the depth of its target.  Consequence (Lemmas/LayoutDoc3Depth):
  whenever the main loop stands in a state of the table the builder has an open node.
-/
import GherkinVerif.Model.Parser
namespace GV.Spec

def depthAt (ds : List (Nat × Nat)) (s : Nat) : Nat := ((ds.find? (·.1 == s)).map (·.2)).getD 0

def applyProd : Prod → Nat → Nat
  | .start _, d => d + 1
  | .end_ _, d => d - 1
  | .build, d => d

def applyProds : List Prod → Nat → Nat
  | [], d => d
  | p :: ps, d => applyProds ps (applyProd p d)

def depthsOk (T : Table) (ds : List (Nat × Nat)) : Bool :=
  depthAt ds 0 == 2 &&
  T.rows.all fun r =>
    decide (1 ≤ depthAt ds r.id) && depthAt ds r.errTarget == depthAt ds r.id &&
    r.branches.all fun b => depthAt ds b.target == applyProds b.prods (depthAt ds r.id)

/-- a depth assignment computed from the table: breadth-first from the start state -/
def computeDepths (T : Table) : Nat → List (Nat × Nat) → List (Nat × Nat) → List (Nat × Nat)
  | 0, _, acc => acc
  | _, [], acc => acc
  | fuel + 1, (s, d) :: todo, acc =>
    if acc.any (·.1 == s) then computeDepths T fuel todo acc
    else
      let next := match T.row? s with
        | some r => r.branches.map fun b => (b.target, applyProds b.prods d)
        | none => []
      computeDepths T fuel (todo ++ next) (acc ++ [(s, d)])

end GV.Spec
