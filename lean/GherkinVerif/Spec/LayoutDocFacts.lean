/-
  Spec/LayoutDocFacts.lean — the additional Boolean table fact used by the whole-document part of
  property C16 (Props/C16Doc.lean).
-/
import GherkinVerif.Model.Parser
namespace GV.Spec

/-- every state has an unguarded `Empty` or `Other` test: a whitespace-only line passes that test
    (or an earlier one) and is consumed, so it never reaches the error tail of `match_token` —
    where its own indentation, which counts a trailing CR/LF, would be reported as the column -/
def blankTaken (T : Table) : Bool :=
  T.rows.all fun r => r.branches.any fun b => (b.kind == .Empty || b.kind == .Other) && b.guard.isNone

end GV.Spec
