/-
  Spec/TextLevel.lean — from text to line kinds (property C02 at text level, C14 "rejected
  exactly when").  Each physical line has, under the matcher state in force when it is reached,
  exactly one *intrinsic kind*; a document is accepted iff the sequence of intrinsic kinds is
  accepted by the kind-level machine (`Model/Abstract.lean`, and by `C02_accept_iff_sentence` iff
  it is a sentence of gherkin.berp) and no line that is *tested* as a tag line / language header
  raises (a tag with whitespace, an unknown dialect).
-/
import GherkinVerif.Model.Abstract
namespace GV.Spec

def probe (l : Str) : Token := { line := some l, lineNo := 0 }

/-- test `K` succeeds on line `l` under matcher state `μ` -/
def verdict (D : List Dialect) (μ : MState) (l : Str) (K : Kind) : Bool :=
  match (matchLine D K μ (probe l) l).res with
  | .matched => true
  | _ => false

/-- test `K` raises on line `l` (tag with whitespace, unknown dialect) -/
def raises (D : List Dialect) (μ : MState) (l : Str) (K : Kind) : Bool :=
  match (matchLine D K μ (probe l) l).res with
  | .raised _ => true
  | _ => false

/-- matcher state after test `K` ran on `l` -/
def muAfter (D : List Dialect) (μ : MState) (l : Str) (K : Kind) : MState :=
  (matchLine D K μ (probe l) l).μ

/-- the order in which a line's own kind is determined (`Language` before `Comment`: a valid
    header is also a comment; everything else is exclusive under the dialect facts) -/
def kindPriority : List Kind :=
  [.Empty, .Language, .Comment, .TagLine, .TableRow, .DocStringSeparator, .StepLine,
   .FeatureLine, .RuleLine, .BackgroundLine, .ScenarioLine, .ExamplesLine]

/-- the intrinsic kind of a line under `μ`; free text (`Other`) when no specific test succeeds -/
def intrinsicKind (D : List Dialect) (μ : MState) (l : Str) : Kind :=
  (kindPriority.find? (verdict D μ l)).getD .Other

/-- does some test of `bs` that is tried before (or at) the branch taken raise on `l`? -/
def raisesBefore (D : List Dialect) (μ : MState) (l : Str) (taken : Branch) : List Branch → Bool
  | [] => false
  | b :: bs => raises D μ l b.kind || (!(b == taken) && raisesBefore D μ l taken bs)

/-- the text-level acceptor: follows the kind-level machine on the intrinsic kinds, computing each
    kind under the matcher state in force at that line (a language header at the top and doc-string
    delimiters change it), and rejects when a tested line raises. -/
def textAccepts (D : List Dialect) (T : Table) : Nat → MState → List Str → Bool
  | s, _, [] => (stepAbs T s .EOF []).isSome
  | s, μ, l :: ls =>
    let k := intrinsicKind D μ l
    let fut := ls.map (intrinsicKind D μ) ++ [.EOF]
    match T.row? s with
    | none => false
    | some row =>
      match pickBranch T k fut row.branches with
      | none => false
      | some b => !raisesBefore D μ l b row.branches && textAccepts D T b.target (muAfter D μ l b.kind) ls

/-- the intrinsic kinds of the lines of a document along its (accepted) run -/
def textKinds (D : List Dialect) (T : Table) : Nat → MState → List Str → List Kind
  | _, _, [] => []
  | s, μ, l :: ls =>
    let k := intrinsicKind D μ l
    let fut := ls.map (intrinsicKind D μ) ++ [.EOF]
    match stepAbs T s k fut with
    | none => k :: textKinds D T s μ ls
    | some b => k :: textKinds D T b.target (muAfter D μ l b.kind) ls

end GV.Spec
