/-
  Spec/AstElems.lean — the vocabulary of the "contents" form of property C03: the elements of a
  document WITH their exact fields, read off in source order

  * `Elem`: one element of a document: a keyword line (feature / rule / background / scenario /
    examples block: kind, location, keyword, name), a step (location, keyword, keyword type, text),
    a tag (location, name), a table row (location, cells with their locations), a doc string
    (location, delimiter, media type).
  * `srcElems : Doc → List Elem`: the elements of the typed AST, in the order of `Spec.srcLocs`.
  * `leafElems : Token → List Elem`: the elements ONE matched line carries, read off its token.
  * `elemsOfTree : TTree → List Elem`: the elements carried by the lines of a token tree, in line
    order (of the two separators of a doc string only the first), in the order of `Spec.elemLocs`.

  `Lemmas.elems_once_in_order` (Lemmas/AstElems.lean): for a grammar-shaped tree whose fold is the
  document `d`: `srcElems d = elemsOfTree t`.
-/
import GherkinVerif.Spec.AstOf
namespace GV
namespace Spec

/-- one element of a document, with the fields the AST reports for it -/
inductive Elem
  /-- a `Feature:` / `Rule:` / `Background:` / `Scenario:` / `Examples:` line (`kind` is the line
      kind: `FeatureLine` … `ExamplesLine`) -/
  | keywordLine (kind : Kind) (loc : Loc) (keyword name : Str)
  | step (loc : Loc) (keyword : Str) (ktype : KType) (text : Str)
  | tag (loc : Loc) (name : Str)
  /-- a table row (of a data table, or the header / a body row of an examples table) -/
  | row (loc : Loc) (cells : List (Loc × Str))
  | docString (loc : Loc) (delimiter : Str) (mediaType : Option Str)
deriving DecidableEq, Repr, Inhabited

def Elem.loc : Elem → Loc
  | .keywordLine _ l _ _ => l
  | .step l _ _ _ => l
  | .tag l _ => l
  | .row l _ => l
  | .docString l _ _ => l

/-! ### the elements of the AST, in source order -/

def tagElems (ts : List Tag) : List Elem := ts.map fun t => .tag t.loc t.name
def cellPairs (cs : List Cell) : List (Loc × Str) := cs.map fun c => (c.loc, c.value)
def rowElems (rs : List Row) : List Elem := rs.map fun r => .row r.loc (cellPairs r.cells)
def docStringElem (ds : DocString) : Elem := .docString ds.loc ds.delimiter ds.mediaType

/-- a step argument: the rows of the data table, or the doc string -/
def argElems : StepArg → List Elem
  | .table d => rowElems d.rows
  | .doc ds => [docStringElem ds]
  | .none => []

def stepElems (s : Step) : List Elem := .step s.loc s.keyword s.ktype s.text :: argElems s.arg
def backgroundElems (b : Background) : List Elem :=
  .keywordLine .BackgroundLine b.loc b.keyword b.name :: b.steps.flatMap stepElems
def examplesElems (e : Examples) : List Elem :=
  tagElems e.tags ++ .keywordLine .ExamplesLine e.loc e.keyword e.name ::
    (rowElems e.header.toList ++ rowElems e.body)
def scenarioElems (s : Scenario) : List Elem :=
  tagElems s.tags ++ .keywordLine .ScenarioLine s.loc s.keyword s.name ::
    (s.steps.flatMap stepElems ++ s.examples.flatMap examplesElems)
def ruleChildElems : RuleChild → List Elem
  | .background b => backgroundElems b
  | .scenario s => scenarioElems s
def ruleElems (r : Rule) : List Elem :=
  tagElems r.tags ++ .keywordLine .RuleLine r.loc r.keyword r.name :: r.children.flatMap ruleChildElems
def featureChildElems : FeatureChild → List Elem
  | .background b => backgroundElems b
  | .scenario s => scenarioElems s
  | .rule r => ruleElems r
def featureElems (f : Feature) : List Elem :=
  tagElems f.tags ++ .keywordLine .FeatureLine f.loc f.keyword f.name :: f.children.flatMap featureChildElems

/-- All elements of the AST with their fields, in source order (the order of `srcLocs`): a
    feature / rule / scenario / examples block: its tags, its keyword line (keyword and name),
    then what it contains; a background: its keyword line, its steps; a step: keyword, keyword
    type and text, then the rows of its data table or its doc string (delimiter, media type); an
    examples block's header and body rows; every row with its cells (location and value). -/
def srcElems (d : Doc) : List Elem :=
  match d.feature with
  | some f => featureElems f
  | Option.none => []

/-! ### the elements carried by the lines of a tree -/

/-- the media type a separator line's text stands for: absent when empty -/
def mediaOf (st : Str) : Option Str := if st.length > 0 then some st else Option.none

/-- the cells / tags of a token's items, each located at its own column -/
def itemPairs (t : Token) : List (Loc × Str) := t.items.map fun it => (getLocation t (some it.1), it.2)

/-- The elements one matched line carries, read off its token: a keyword line one `keywordLine`
    with the token's keyword and text; a step line its keyword, keyword type and text; a tag line
    one tag per item; a table row one row whose cells are its items; a doc-string separator the
    doc string (keyword = delimiter, text = media type); nothing for comments, blank lines, free
    text, the language header and the end of file.  (A field a successful match always sets is read
    with a default; `leafElems_wellMatched` below never needs it.) -/
def leafElems (t : Token) : List Elem :=
  match t.mtype with
  | some .TagLine => t.items.map fun it => .tag (getLocation t (some it.1)) it.2
  | some .FeatureLine => [.keywordLine .FeatureLine t.loc (t.keyword.getD []) (t.text.getD [])]
  | some .RuleLine => [.keywordLine .RuleLine t.loc (t.keyword.getD []) (t.text.getD [])]
  | some .BackgroundLine => [.keywordLine .BackgroundLine t.loc (t.keyword.getD []) (t.text.getD [])]
  | some .ScenarioLine => [.keywordLine .ScenarioLine t.loc (t.keyword.getD []) (t.text.getD [])]
  | some .ExamplesLine => [.keywordLine .ExamplesLine t.loc (t.keyword.getD []) (t.text.getD [])]
  | some .StepLine => [.step t.loc (t.keyword.getD []) (t.ktype.getD .Unknown) (t.text.getD [])]
  | some .TableRow => [.row t.loc (itemPairs t)]
  | some .DocStringSeparator => [.docString t.loc (t.keyword.getD []) (mediaOf (t.text.getD []))]
  | _ => []

mutual
/-- the elements carried by the lines of the tree, in line order; of the two separators of a doc
    string only the first (the second closes it) — the order and multiplicity of `elemLocs` -/
def elemsOfTree : TTree → List Elem
  | .leaf t => leafElems t
  | .node r ch => if r = .DocString then (elemsOfTreeList ch).head?.toList else elemsOfTreeList ch
def elemsOfTreeList : List TTree → List Elem
  | [] => []
  | c :: cs => elemsOfTree c ++ elemsOfTreeList cs
end

/-! ### the free text of the document: descriptions and doc-string contents -/

/-- the doc string of a step argument: where it is and its content -/
def argTexts : StepArg → List (Loc × Str)
  | .doc ds => [(ds.loc, ds.content)]
  | _ => []
def stepTexts (s : Step) : List (Loc × Str) := argTexts s.arg
def backgroundTexts (b : Background) : List (Loc × Str) := (b.loc, b.description) :: b.steps.flatMap stepTexts
def examplesTexts (e : Examples) : List (Loc × Str) := [(e.loc, e.description)]
def scenarioTexts (s : Scenario) : List (Loc × Str) :=
  (s.loc, s.description) :: (s.steps.flatMap stepTexts ++ s.examples.flatMap examplesTexts)
def ruleChildTexts : RuleChild → List (Loc × Str)
  | .background b => backgroundTexts b
  | .scenario s => scenarioTexts s
def ruleTexts (r : Rule) : List (Loc × Str) := (r.loc, r.description) :: r.children.flatMap ruleChildTexts
def featureChildTexts : FeatureChild → List (Loc × Str)
  | .background b => backgroundTexts b
  | .scenario s => scenarioTexts s
  | .rule r => ruleTexts r
def featureTexts (f : Feature) : List (Loc × Str) := (f.loc, f.description) :: f.children.flatMap featureChildTexts

/-- The free text of the AST in source order, each with the location of its owner: the description
    of every feature, rule, background, scenario and examples block (the empty string when it has
    none), and the content of every doc string. -/
def srcTexts (d : Doc) : List (Loc × Str) :=
  match d.feature with
  | some f => featureTexts f
  | Option.none => []

/-- the child lines read as kind `k`, in order (as `Spec.childTokens` of Lemmas/NoCrash.lean) -/
def childToks (k : Kind) (cs : List TTree) : List Token :=
  cs.filterMap fun c =>
    match c with
    | .leaf t => if t.mtype = some k then some t else Option.none
    | .node _ _ => Option.none

/-- the texts of the free-text (`Other`) lines among the children, in order -/
def otherTexts (cs : List TTree) : List Str := (childToks .Other cs).map fun t => t.text.getD []

/-- the description strings of the `Description` child nodes: the texts of its `Other` lines, trailing
    whitespace-only lines dropped, joined by line feeds -/
def childDescrs (cs : List TTree) : List Str :=
  cs.filterMap fun c =>
    match c with
    | .node .Description ch => some (joinWith [10] (trimDescLines (otherTexts ch)))
    | _ => Option.none

/-- The free text a node of rule type `r` owns, given its child lines by kind (`toks`) and the
    description strings of its `Description` children (`descrs`): a background, a `Scenario` /
    `Examples` node and a feature / rule header: its description (the first, the empty string if
    none), located at its keyword line; a `DocString` node: the texts of its `Other` lines joined by
    line feeds, located at its first separator. -/
def ownTexts (r : RuleType) (toks : Kind → List Token) (descrs : List Str) : List (Loc × Str) :=
  let keyOwn (k : Kind) : List (Loc × Str) :=
    match toks k with
    | line :: _ => [(line.loc, descrs.headD [])]
    | [] => []
  match r with
  | .DocString =>
    match toks .DocStringSeparator with
    | sep :: _ => [(sep.loc, joinWith [10] ((toks .Other).map fun t => t.text.getD []))]
    | [] => []
  | .Background => keyOwn .BackgroundLine
  | .Scenario => keyOwn .ScenarioLine
  | .Examples => keyOwn .ExamplesLine
  | .RuleHeader => keyOwn .RuleLine
  | .FeatureHeader => keyOwn .FeatureLine
  | _ => []

mutual
/-- the free text of a tree, node by node in tree order: what each node owns (`ownTexts`, from its
    child lines and `Description` children), then that of its children -/
def textsOfTree : TTree → List (Loc × Str)
  | .leaf _ => []
  | .node r ch => ownTexts r (fun k => childToks k ch) (childDescrs ch) ++ textsOfTreeList ch
def textsOfTreeList : List TTree → List (Loc × Str)
  | [] => []
  | c :: cs => textsOfTree c ++ textsOfTreeList cs
end

end Spec
end GV
