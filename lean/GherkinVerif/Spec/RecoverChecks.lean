/-
  Spec/RecoverChecks.lean — Boolean vocabulary of the document-level recovery theorem (property
  C14, "after it parsing carries on from the same position with the next line"): an unexpected
  line inserted into a text is skipped — it records one error and nothing else.
-/
import GherkinVerif.Spec.PrefixRun
import GherkinVerif.Spec.LocMap
namespace GV.Spec

def resIsNo : MRes → Bool
  | .no => true
  | _ => false

/-- every test of the row answers a plain "no" on the line `u` in matcher state `μ` (no match, and no
    error raised by the test itself — a malformed tag line raises its own error) -/
def noTestMatches (D : List Dialect) (row : StateRow) (μ : MState) (u : Str) : Bool :=
  row.branches.all fun b => resIsNo (matchTok D b.kind μ { line := some u, lineNo := 0 }).1.res

/-- the line `u` reaches the error tail of state `s`, and that tail returns `s` (table fact
    `errTailSelf`: always the case for the generated table) -/
def lineUnexpectedAt (D : List Dialect) (T : Table) (s : Nat) (μ : MState) (u : Str) : Bool :=
  match T.row? s with
  | some row => noTestMatches D row μ u && row.errTarget == s
  | none => false

/-- a line no look-ahead steps over: its trimmed text is not empty and starts neither with `#` nor
    with `@` (so it is not a blank, comment or tag line) -/
def barrierLine (l : Str) : Bool :=
  match trimmed l with
  | [] => false
  | c :: _ => c != 35 && c != 64

/-- no look-ahead started within `pre` reads past `pre`: `pre` is empty or ends in a barrier line -/
def barrierBefore (pre : List Str) : Bool :=
  match pre.getLast? with
  | none => true
  | some l => barrierLine l

/-- the error reported for the skipped line `u`, read in state `s` as line `k + 1` -/
def skippedError (T : Table) (s k : Nat) (u : Str) : PErr :=
  match T.row? s with
  | some row => unexpectedErr row { line := some u, lineNo := k + 1 }
  | none => default

/-- the error list of the text with the line inserted after line `k`: the original errors with the
    line numbers `> k` increased by one, and the new error `e` at position `j` (detection order) -/
def insertErr (k j : Nat) (e : PErr) (es : List PErr) : List PErr :=
  (es.take j).map (mapErr (insertMap k)) ++ e :: (es.drop j).map (mapErr (insertMap k))

/-- the same for the ghost list of the lines reported unexpected -/
def insertLine (k j : Nat) (us : List Nat) : List Nat :=
  (us.take j).map (insertMap k).ln ++ (k + 1) :: (us.drop j).map (insertMap k).ln

/-- a token with the line number renamed -/
def renumber (k : Nat) (t : Token) : Token := { t with lineNo := (insertMap k).ln t.lineNo }

/-- all hypotheses of `C14_unexpected_line_skipped` on the text `src'` (collecting mode) whose line
    `k + 1` is the unexpected one: the line before it (if any) is a barrier line, the run stands in
    a state after `k` lines whose tests all say "no" to the line, and the run does not exceed the
    error cap.  It runs the queue-free parse. -/
def unexpectedLineOkB (D : List Dialect) (T : Table) (μ : MState) (ids : Nat) (src' : Str) (k : Nat) : Bool :=
  match (splitLines src')[k]? with
  | none => false
  | some u =>
    barrierBefore ((splitLines src').take k) &&
    (match runAfter D T false μ ids src' k with
     | some (s, c) => lineUnexpectedAt D T s c.μ u
     | none => false) &&
    decide ((parseWithPure D T false μ ids src').2.errors.length ≤ T.errorCap)

end GV.Spec
