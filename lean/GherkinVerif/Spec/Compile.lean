/-
  Spec/Compile.lean — what the pickle compiler must produce, written from the property texts
  (C06 one pickle per scenario / example row in document order; C07 steps = in-scope
  background steps then own steps; C08 tags = feature, rule, scenario, examples tags; C09
  literal `<header>` substitution; C10 step types), as list comprehensions over the document —
  no accumulators, no counters.  Ids are specified separately (C11).
-/
import GherkinVerif.Model.Compiler
namespace GV.Spec

/-- Where a scenario sits: the tags and background steps in scope. -/
structure Scope where
  ftags : List Tag          -- feature tags
  rtags : List Tag          -- tags of the enclosing rule ([] outside rules)
  bg : List Step            -- feature-level background steps, then the enclosing rule's
deriving Repr

/-- steps of the backgrounds among the first `i` feature children -/
def featureBgBefore (cs : List FeatureChild) (i : Nat) : List Step :=
  (cs.take i).flatMap fun c => match c with
    | .background b => b.steps
    | _ => []

/-- steps of the backgrounds among the first `j` children of a rule -/
def ruleBgBefore (cs : List RuleChild) (j : Nat) : List Step :=
  (cs.take j).flatMap fun c => match c with
    | .background b => b.steps
    | _ => []

/-- scenarios of a rule in order, each with its scope -/
def ruleScenarios (f : Feature) (i : Nat) (r : Rule) : List (Scope × Scenario) :=
  (List.range r.children.length).flatMap fun j =>
    match (r.children[j]? : Option RuleChild) with
    | some (.scenario sc) =>
      [(⟨f.tags, r.tags, featureBgBefore f.children i ++ ruleBgBefore r.children j⟩, sc)]
    | _ => []

/-- all scenarios of a feature in document order (descending into rules), each with its scope -/
def featureScenarios (f : Feature) : List (Scope × Scenario) :=
  (List.range f.children.length).flatMap fun i =>
    match (f.children[i]? : Option FeatureChild) with
    | some (.scenario sc) => [(⟨f.tags, [], featureBgBefore f.children i⟩, sc)]
    | some (.rule r) => ruleScenarios f i r
    | _ => []

/-- C10: carry the last non-conjunction type, starting from `last`. -/
def scanTypes (last : KType) : List KType → List KType
  | [] => []
  | k :: ks =>
    let t := if k = .Conjunction then last else k
    t :: scanTypes t ks

/-- the pickle step made from AST step `s` with type `ty`; `sub` = (row id, headers, values)
    for an outline's own steps, `none` for background steps and plain scenarios. -/
def pickleStep (sub : Option (Nat × List Str × List Str)) (s : Step) (ty : KType) : Option PickleStep :=
  match sub with
  | none =>
    (pickleArg s.arg [] []).map fun arg =>
      { astNodeIds := [s.id], id := 0, type := ty, text := s.text, arg := arg }
  | some (rowId, hs, vs) =>
    match interp s.text hs vs, pickleArg s.arg hs vs with
    | some text, some arg => some { astNodeIds := [s.id, rowId], id := 0, type := ty, text := text, arg := arg }
    | _, _ => none

def zipSteps (sub : Option (Nat × List Str × List Str)) : List Step → List KType → Option (List PickleStep)
  | s :: ss, t :: ts =>
    match pickleStep sub s t, zipSteps sub ss ts with
    | some p, some ps => some (p :: ps)
    | _, _ => none
  | _, _ => some []

/-- C07 + C10: background steps in scope (never substituted), then the scenario's own steps;
    none at all when the scenario has no steps of its own; types scanned across the whole list. -/
def steps (sc : Scope) (s : Scenario) (sub : Option (Nat × List Str × List Str)) : Option (List PickleStep) :=
  if s.steps = [] then some []
  else
    let types := scanTypes .Unknown ((sc.bg ++ s.steps).map (·.ktype))
    match zipSteps none sc.bg (types.take sc.bg.length), zipSteps sub s.steps (types.drop sc.bg.length) with
    | some a, some b => some (a ++ b)
    | _, _ => none

/-- the pickle of a plain scenario (ids erased) -/
def scenarioPickle (uri language : Str) (sc : Scope) (s : Scenario) : Option Pickle :=
  (steps sc s none).map fun st =>
    { astNodeIds := [s.id], id := 0, tags := pickleTags (sc.ftags ++ sc.rtags ++ s.tags),
      name := s.name, language := language, steps := st, uri := uri }

/-- the pickle of one example row (ids erased) -/
def rowPickle (uri language : Str) (sc : Scope) (s : Scenario) (ex : Examples) (header row : Row) : Option Pickle :=
  let hs := header.cells.map (·.value)
  let vs := row.cells.map (·.value)
  match steps sc s (some (row.id, hs, vs)), interp s.name hs vs with
  | some st, some name =>
    some { astNodeIds := [s.id, row.id], id := 0,
           tags := pickleTags (sc.ftags ++ sc.rtags ++ s.tags ++ ex.tags),
           name := name, language := language, steps := st, uri := uri }
  | _, _ => none

def allSome {α} : List (Option α) → Option (List α)
  | [] => some []
  | some a :: rest => (allSome rest).map (a :: ·)
  | none :: _ => none

/-- C06: one pickle for a scenario without examples; otherwise one per body row of each
    examples block that has a header, in order. -/
def scenarioPickles (uri language : Str) (sc : Scope) (s : Scenario) : List (Option Pickle) :=
  if s.examples = [] then [scenarioPickle uri language sc s]
  else s.examples.flatMap fun ex =>
    match ex.header with
    | none => []
    | some h => ex.body.map fun row => rowPickle uri language sc s ex h row

/-- the pickles of a document, ids erased; `none` only if some examples row is shorter than
    its header (never for parser-produced documents). -/
def pickles (uri : Str) (doc : Doc) : Option (List Pickle) :=
  match doc.feature with
  | none => some []
  | some f => allSome ((featureScenarios f).flatMap fun (sc, s) => scenarioPickles uri f.language sc s)

/-- erase the ids the compiler hands out -/
def eraseIds (p : Pickle) : Pickle :=
  { p with id := 0, steps := p.steps.map fun s => { s with id := 0 } }

/-- C11 (pickle part): the order in which the compiler draws ids — each pickle's steps, then the pickle. -/
def idOrder (ps : List Pickle) : List Nat :=
  ps.flatMap fun p => p.steps.map (·.id) ++ [p.id]

/-- every examples body row has at least as many cells as its header -/
def rectangular (doc : Doc) : Prop :=
  ∀ f, doc.feature = some f → ∀ scs ∈ featureScenarios f, ∀ ex ∈ scs.2.examples,
    ∀ h, ex.header = some h → ∀ row ∈ ex.body, h.cells.length ≤ row.cells.length

end GV.Spec
