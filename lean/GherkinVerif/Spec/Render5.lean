/-
  Spec/Render5.lean — property C03, round trip, fifth model: the model of Spec/Render4.lean plus RULES
  after the feature-level scenarios.

  Canonical layout of a rule: optional tag line `@a @b` at column 1, `<rule kw>: <name>` at column 1,
  then the rule's optional background and its scenarios exactly as at feature level.
-/
import GherkinVerif.Spec.Render4
namespace GV.Spec

structure MRule where
  tags : List Str
  kw : Str
  name : Str
  background : Option MBackground
  scenarios : List MScenario4
deriving Repr, DecidableEq

structure MFeature5 where
  tags : List Str
  kw : Str
  name : Str
  background : Option MBackground
  scenarios : List MScenario4
  rules : List MRule
deriving Repr, DecidableEq

/-- the fourth model embeds: no rules -/
def MFeature4.toModel5 (m : MFeature4) : MFeature5 :=
  { tags := m.tags, kw := m.kw, name := m.name, background := m.background, scenarios := m.scenarios, rules := [] }

def MFeature5.core (m : MFeature5) : MFeature4 := ⟨m.tags, m.kw, m.name, m.background, m.scenarios⟩

/-- decode a model from plain lists of code-point lists (for test drivers); steps, backgrounds,
    examples and scenarios as for `MFeature4.ofLists`; a rule is
    `(tags, keyword, name, background (`[]` = none), scenarios)` -/
def MFeature5.ofLists (tags : List Str) (kw name : Str)
    (background : List (Str × Str × List (Str × Str × List (List Str))))
    (scenarios : List (List Str × Str × Str × List (Str × Str × List (List Str)) ×
      List (List Str × Str × Str × List (List Str))))
    (rules : List (List Str × Str × Str × List (Str × Str × List (Str × Str × List (List Str))) ×
      List (List Str × Str × Str × List (Str × Str × List (List Str)) ×
        List (List Str × Str × Str × List (List Str))))) : MFeature5 :=
  let f := MFeature4.ofLists tags kw name background scenarios
  { tags := tags, kw := kw, name := name, background := f.background, scenarios := f.scenarios,
    rules := rules.map fun r =>
      let g := MFeature4.ofLists r.1 r.2.1 r.2.2.1 r.2.2.2.1 r.2.2.2.2
      ⟨r.1, r.2.1, r.2.2.1, g.background, g.scenarios⟩ }

/-- the same from `String`s -/
def MFeature5.ofStrings (tags : List String) (kw name : String)
    (background : List (String × String × List (String × String × List (List String))))
    (scenarios : List (List String × String × String × List (String × String × List (List String)) ×
      List (List String × String × String × List (List String))))
    (rules : List (List String × String × String × List (String × String × List (String × String × List (List String))) ×
      List (List String × String × String × List (String × String × List (List String)) ×
        List (List String × String × String × List (List String))))) : MFeature5 :=
  let f := MFeature4.ofStrings tags kw name background scenarios
  { tags := f.tags, kw := f.kw, name := f.name, background := f.background, scenarios := f.scenarios,
    rules := rules.map fun r =>
      let g := MFeature4.ofStrings r.1 r.2.1 r.2.2.1 r.2.2.2.1 r.2.2.2.2
      ⟨g.tags, g.kw, g.name, g.background, g.scenarios⟩ }

/-! ### the renderer -/

def ruleLines (r : MRule) : List Str :=
  tagLineOf r.tags ++ titleLineOf r.kw r.name :: (bgLinesOf r.background ++ r.scenarios.flatMap scenarioLines4)

def lineBodies5 (m : MFeature5) : List Str := lineBodies4 m.core ++ m.rules.flatMap ruleLines

def render5 (m : MFeature5) : Str := (lineBodies5 m).flatMap (· ++ [10])

/-! ### well-formedness -/

def ruleOK (d : Dialect) (r : MRule) : Bool :=
  r.tags.all tagOK && d.rule.contains r.kw && cleanText r.name &&
  (match r.background with | none => true | some b => backgroundOK d b) &&
  r.scenarios.all (scenarioOK4 d)

def WF5 (d : Dialect) (m : MFeature5) : Bool := WF4 d m.core && m.rules.all (ruleOK d)

/-! ### the expected AST -/

def expBgRuleChild (d : Dialect) (line i : Nat) (b : Option MBackground) : List RuleChild :=
  match b with
  | none => []
  | some b => [RuleChild.background (expBackground d line i b)]

def ruleLineCount (r : MRule) : Nat :=
  tagLines r.tags + 1 + bgLineCount r.background + (r.scenarios.map scLines4).sum

def ruleIdCount (r : MRule) : Nat :=
  bgIdCount r.background + idsOfScenarios4 r.scenarios + r.tags.length + 1

/-- a rule whose first line (tag line if any) is `line`, counter `i`: the children (background,
    scenarios) draw their ids first, then the rule's tags, then the rule -/
def expRule (d : Dialect) (line i : Nat) (r : MRule) : Rule :=
  { id := i + bgIdCount r.background + idsOfScenarios4 r.scenarios + r.tags.length, tags := expTags line (i + bgIdCount r.background + idsOfScenarios4 r.scenarios) r.tags, loc := ⟨line + tagLines r.tags, some 1⟩, keyword := r.kw, name := r.name, description := [], children := expBgRuleChild d (line + tagLines r.tags + 1) i r.background ++ (expScenarios4 d (line + tagLines r.tags + 1 + bgLineCount r.background) (i + bgIdCount r.background) r.scenarios).map RuleChild.scenario }

def expRules (d : Dialect) : Nat → Nat → List MRule → List Rule
  | _, _, [] => []
  | line, i, r :: rs => expRule d line i r :: expRules d (line + ruleLineCount r) (i + ruleIdCount r) rs

def idsOfRules (rs : List MRule) : Nat := (rs.map ruleIdCount).sum

def expectedDoc5 (d : Dialect) (lang : Str) (m : MFeature5) (i : Nat) : Doc :=
  { feature := some
      { tags := expTags 1 (i + bgIdCount m.background + idsOfScenarios4 m.scenarios + idsOfRules m.rules) m.tags,
        loc := ⟨1 + tagLines m.tags, some 1⟩, language := lang, keyword := m.kw, name := m.name,
        description := [],
        children := expBgChild d (2 + tagLines m.tags) i m.background ++
          (expScenarios4 d (2 + tagLines m.tags + bgLineCount m.background) (i + bgIdCount m.background)
            m.scenarios).map FeatureChild.scenario ++
          (expRules d (2 + tagLines m.tags + bgLineCount m.background + (m.scenarios.map scLines4).sum)
            (i + bgIdCount m.background + idsOfScenarios4 m.scenarios) m.rules).map FeatureChild.rule },
    comments := [] }

def idsAfter5 (m : MFeature5) (i : Nat) : Nat :=
  i + bgIdCount m.background + idsOfScenarios4 m.scenarios + idsOfRules m.rules + m.tags.length

end GV.Spec
