/-
  Spec/LayoutChecks4.lean — Boolean hypotheses and table facts for the MAIN remaining case of goal G3
  of property C16 (Props/C16Doc6.lean): a comment line inserted directly after a keyword line, where
  a comment opens the description, and the next line is anything but a blank line.
-/
import GherkinVerif.Spec.LayoutChecks3
namespace GV.Spec

/-- after its first `k` lines the original run has no line left, or the next line is not blank
    (in a description-opening state: it is not read as `Empty`) -/
def nextLineNotBlank (D : List Dialect) (T : Table) (stop : Bool) (μ : MState) (ids : Nat) (src : Str) (k : Nat) :
    Bool :=
  match runAfter D T stop μ ids src k with
  | some (_, c) => match c.lines with
    | [] => true
    | l :: _ => !lineIsEmpty l
  | none => false

/-- the hypotheses of the comment-line property (`C16_comment_line_text3`, Props/C16Doc6.lean — proved):
    `c` is a `#` line that is not read as a language header where it is
    inserted; the original run has aborted within the first `k` lines, or stands in a state whose
    comment test builds and stays, or stands in a state whose comment test opens the description and
    line `k+1` does not exist or is not blank -/
def commentLineOk3B (D : List Dialect) (T : Table) (stop : Bool) (μ : MState) (ids : Nat) (src : Str) (k : Nat)
    (c : Str) : Bool :=
  lineStartsWith c [35] &&
  match stateAfter D T stop μ ids src k with
  | some s =>
    (!languageTested T s || (languageRe (lineText c none)).isNone) &&
    (commentSelfLoop T s || (commentOpensDescription T s && nextLineNotBlank D T stop μ ids src k))
  | none => true

/-! ### the invariant "the open node holds no `Description` item" as an abstract interpretation

  Every open builder node is abstracted to a flag: `true` = the node may hold a `Description` item.
  By `depthsOk` the number of open nodes is a function of the parser state; `fl` assigns to every state
  the flags of its open nodes (top first). -/

def flagsAt (fl : List (Nat × List Bool)) (s : Nat) : List Bool := ((fl.find? (·.1 == s)).map (·.2)).getD []

/-- `start` opens a node without items; `end_ X` closes the top node and puts an `X` item into the one
    below — refused (`none`) when that would be a SECOND `Description` item; `build` adds a token item -/
def applyProdF : Prod → List Bool → Option (List Bool)
  | .start _, fs => some (false :: fs)
  | .end_ X, _ :: g :: rest => if X == .Description then (if g then none else some (true :: rest)) else some (g :: rest)
  | .end_ _, _ => none
  | .build, fs => some fs

def applyProdsF : List Prod → List Bool → Option (List Bool)
  | [], fs => some fs
  | p :: ps, fs => (applyProdF p fs).bind (applyProdsF ps)

/-- `a` allows at most what `b` allows -/
def leF : List Bool → List Bool → Bool
  | [], [] => true
  | x :: a, y :: b => (!x || y) && leF a b
  | _, _ => false

/-- TABLE FACT: `fl` is inductive — the start state has two open nodes without items; error tails keep
    the flags; every branch's productions lead from the flags of its state to (at most) those of its
    target and never put a second `Description` item into a node; and in every description-opening
    state the top node holds no `Description` item -/
def descFlagsOk (T : Table) (fl : List (Nat × List Bool)) : Bool :=
  flagsAt fl 0 == [false, false] &&
  T.rows.all fun r =>
    leF (flagsAt fl r.id) (flagsAt fl r.errTarget) &&
    (!commentOpensDescription T r.id || (flagsAt fl r.id).head? == some false) &&
    r.branches.all fun b =>
      match applyProdsF b.prods (flagsAt fl r.id) with
      | some d => leF d (flagsAt fl b.target)
      | none => false

def joinF : List Bool → List Bool → List Bool
  | x :: a, y :: b => (x || y) :: joinF a b
  | _, _ => []

def joinAt : List (Nat × List Bool) → Nat → List Bool → List (Nat × List Bool)
  | [], s, d => [(s, d)]
  | (s', d') :: fl, s, d => if s' == s then (s', joinF d' d) :: fl else (s', d') :: joinAt fl s d

/-- one round of the fixpoint iteration: push the flags of every known state along its branches -/
def stepDescFlags (T : Table) (fl : List (Nat × List Bool)) : List (Nat × List Bool) :=
  T.rows.foldl (fun fl r =>
    if fl.any (·.1 == r.id) then
      r.branches.foldl (fun fl b =>
        match applyProdsF b.prods (flagsAt fl r.id) with
        | some d => joinAt fl b.target d
        | none => fl) (joinAt fl r.errTarget (flagsAt fl r.id))
    else fl) fl

/-- a flag assignment computed from the table: `n` rounds from the start state -/
def computeDescFlags (T : Table) : Nat → List (Nat × List Bool)
  | 0 => [(0, [false, false])]
  | n + 1 => stepDescFlags T (computeDescFlags T n)

end GV.Spec
