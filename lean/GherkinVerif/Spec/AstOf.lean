/-
  Spec/AstOf.lean — the vocabulary of the whole-document statements of properties C03 and C11.

  * `TTree`: derivation trees whose leaves are the matched TOKENS (Spec/Tree.lean has the same
    trees over line kinds; `TTree.kinds` projects).
  * `opsOf`: the `start_rule` / `build` / `end_rule` calls the parser makes for a tree, and
    `applyOps`: the AST builder (Model/Builder.lean) run on such a call sequence.
  * `astOf`: the AST as a structural recursion over the tree — no stack.
  * `shaped`: the handful of facts about the order of a node's children that the id order and the
    source order of the AST depend on (derived from the grammar in Lemmas/AstShape.lean).
  * `canonicalIds`: the traversal of the typed AST named in property C11.
  * `srcLines` / `elemLines`: the line numbers of the AST's elements, and of a tree's
    element-carrying leaves, both in source order (property C03).
-/
import GherkinVerif.Lemmas.Builder
import GherkinVerif.Spec.Tree
namespace GV
namespace Spec

/-! ### token trees and builder call sequences -/

/-- a derivation tree over tokens: leaves are matched lines, inner nodes the `!` rules -/
inductive TTree
  | leaf (t : Token)
  | node (r : RuleType) (children : List TTree)
deriving Inhabited

/-- one call of the parser into the AST builder -/
inductive BOp
  | start (r : RuleType)
  | end_
  | build (t : Token)
deriving Inhabited

mutual
/-- the calls for one tree: `start_rule`, the children left to right, `end_rule`; a leaf is one
    `build` -/
def opsOf : TTree → List BOp
  | .leaf t => [.build t]
  | .node r cs => .start r :: (opsOfList cs ++ [.end_])
def opsOfList : List TTree → List BOp
  | [] => []
  | c :: cs => opsOf c ++ opsOfList cs
end

/-- one builder call on a builder state and id counter -/
def applyOp (op : BOp) (β : BState) (n : Nat) : Except BErr Unit × BState × Nat :=
  match op with
  | .start r => (.ok (), β.startRule r, n)
  | .end_ => β.endRule n
  | .build t =>
    match β.build t with
    | .ok β' => (.ok (), β', n)
    | .error e => (.error e, β, n)

/-- the calls in sequence, stopping at the first error (state and counter as the failing call
    left them) -/
def applyOps : List BOp → BState → Nat → Except BErr Unit × BState × Nat
  | [], β, n => (.ok (), β, n)
  | op :: ops, β, n =>
    match applyOp op β n with
    | (.ok (), β', n') => applyOps ops β' n'
    | (.error e, β', n') => (.error e, β', n')

/-! ### the AST as a function of the tree -/

/-- what a line contributes to the node it is built into: one `(kind, token)` item — except a
    comment line, which contributes nothing there.  (Errors: exactly those of `BState.build`.) -/
def leafItems (t : Token) : BM (List (Key × Val)) :=
  match t.mtype with
  | some .Comment =>
    match t.text with
    | some _ => pure []
    | Option.none => crash "comment without text"
  | some k => pure [(.tok k, .tok t)]
  | Option.none => crash "build of unmatched token"

/-- the comment a line contributes to the document's comment list -/
def leafComments (t : Token) : List Comment :=
  match t.mtype, t.text with
  | some .Comment, some tx => [{ loc := getLocation t, text := tx }]
  | _, _ => []

mutual
/-- the items a tree contributes to its parent node: a line its `leafItems`; a node `r` the single
    item `(r, transformNode ⟨r, items of its children⟩)` -/
def itemsOf (comments : List Comment) : TTree → BM (List (Key × Val))
  | .leaf t => leafItems t
  | .node r cs => do
    let items ← itemsOfList comments cs
    let v ← transformNode comments ⟨r, items⟩
    pure [(.rule r, v)]
/-- the items of a list of sibling trees, left to right -/
def itemsOfList (comments : List Comment) : List TTree → BM (List (Key × Val))
  | [] => pure []
  | c :: cs => do
    let i ← itemsOf comments c
    let is ← itemsOfList comments cs
    pure (i ++ is)
end

/-- The value of a tree: the children are evaluated left to right and `transformNode` is applied
    to the node holding their items.  `comments` is what `transformNode` is given as the
    document's comments; only the `GherkinDocument` case reads it. -/
def astOf (comments : List Comment) : TTree → BM Val
  | .leaf t => do
    let _ ← leafItems t
    pure (.tok t)
  | .node r cs => do
    let items ← itemsOfList comments cs
    transformNode comments ⟨r, items⟩

mutual
/-- the comments of the tree's comment lines, in order -/
def commentsOf : TTree → List Comment
  | .leaf t => leafComments t
  | .node _ cs => commentsOfList cs
def commentsOfList : List TTree → List Comment
  | [] => []
  | c :: cs => commentsOf c ++ commentsOfList cs
end

mutual
/-- no node of the tree is a `GherkinDocument` node -/
def docFree : TTree → Bool
  | .leaf _ => true
  | .node r cs => r != .GherkinDocument && docFreeList cs
def docFreeList : List TTree → Bool
  | [] => true
  | c :: cs => docFree c && docFreeList cs
end

/-- a document tree: a `GherkinDocument` root and no other `GherkinDocument` node -/
def TTree.isDocument : TTree → Bool
  | .node .GherkinDocument cs => docFreeList cs
  | _ => false

mutual
/-- the tree over line kinds (Spec/Tree.lean); an unmatched token counts as free text -/
def TTree.kinds : TTree → Tree
  | .leaf t => .leaf (t.mtype.getD .Other)
  | .node r cs => .node r (kindsList cs)
def kindsList : List TTree → List Tree
  | [] => []
  | c :: cs => c.kinds :: kindsList cs
end

/-! ### grammar shape: the facts about sibling order the AST depends on -/

/-- the tree is a node of rule type `r` / a line read as kind `k` -/
def TTree.isSym : Sym → TTree → Bool
  | .rule r, .node r' _ => r' == r
  | .tok k, .leaf t => t.mtype == some k
  | _, _ => false

/-- no element satisfying `isB` stands before an element satisfying `isA` -/
def noBefore {α} (isA isB : α → Bool) : List α → Bool
  | [] => true
  | x :: l => (if isB x then l.all (fun y => !isA y) else true) && noBefore isA isB l

/-- the line kinds that carry an element of the AST (a tag line: its tags; a keyword line: the
    feature, rule, background, scenario, examples block or step; a table row; a doc string
    separator: the doc string) — as opposed to comments, blank lines, free text, the language
    header and the end of file -/
def elemKinds : List Kind :=
  [.TagLine, .FeatureLine, .RuleLine, .BackgroundLine, .ScenarioLine, .ExamplesLine, .StepLine,
   .TableRow, .DocStringSeparator]

/-- what is required of the children of a node of one rule type -/
structure NodeShape where
  /-- the rule types a child node may have -/
  allowed : List RuleType
  /-- the element-carrying kinds (`elemKinds`) a child line may have -/
  lines : List Kind := []
  /-- `(a, b)`: no `b` child before an `a` child (`(a, a)`: at most one `a` child) -/
  order : List (Sym × Sym)
  /-- children that must be present -/
  needs : List Sym := []

/-- The shape table.  Only what the AST builder's result depends on is listed: which nodes and
    element-carrying lines may occur under which node, which occur at most once, which come
    before which, and that a feature / rule has its header with its keyword line.  (All of it
    follows from gherkin.berp, see `Lemmas.shaped_of_validTree`.) -/
def nodeShape : RuleType → NodeShape
  | .GherkinDocument => { allowed := [.Feature], order := [(.rule .Feature, .rule .Feature)] }
  | .Feature =>
    { allowed := [.FeatureHeader, .Background, .ScenarioDefinition, .Rule],
      order := [(.rule .Background, .rule .Background), (.rule .Background, .rule .ScenarioDefinition),
                (.rule .Background, .rule .Rule), (.rule .ScenarioDefinition, .rule .Rule),
                (.rule .FeatureHeader, .rule .FeatureHeader), (.rule .FeatureHeader, .rule .Background),
                (.rule .FeatureHeader, .rule .ScenarioDefinition), (.rule .FeatureHeader, .rule .Rule)],
      needs := [.rule .FeatureHeader] }
  | .FeatureHeader =>
    { allowed := [.Tags, .Description], lines := [.FeatureLine],
      order := [(.rule .Tags, .rule .Tags), (.tok .FeatureLine, .tok .FeatureLine), (.rule .Tags, .tok .FeatureLine)],
      needs := [.tok .FeatureLine] }
  | .Rule =>
    { allowed := [.RuleHeader, .Background, .ScenarioDefinition],
      order := [(.rule .Background, .rule .Background), (.rule .Background, .rule .ScenarioDefinition),
                (.rule .RuleHeader, .rule .RuleHeader), (.rule .RuleHeader, .rule .Background),
                (.rule .RuleHeader, .rule .ScenarioDefinition)],
      needs := [.rule .RuleHeader] }
  | .RuleHeader =>
    { allowed := [.Tags, .Description], lines := [.RuleLine],
      order := [(.rule .Tags, .rule .Tags), (.tok .RuleLine, .tok .RuleLine), (.rule .Tags, .tok .RuleLine)],
      needs := [.tok .RuleLine] }
  | .Background =>
    { allowed := [.Description, .Step], lines := [.BackgroundLine],
      order := [(.tok .BackgroundLine, .tok .BackgroundLine), (.tok .BackgroundLine, .rule .Step)] }
  | .ScenarioDefinition =>
    { allowed := [.Tags, .Scenario],
      order := [(.rule .Tags, .rule .Tags), (.rule .Scenario, .rule .Scenario), (.rule .Tags, .rule .Scenario)] }
  | .Scenario =>
    { allowed := [.Description, .Step, .ExamplesDefinition], lines := [.ScenarioLine],
      order := [(.rule .Step, .rule .ExamplesDefinition), (.tok .ScenarioLine, .tok .ScenarioLine),
                (.tok .ScenarioLine, .rule .Step), (.tok .ScenarioLine, .rule .ExamplesDefinition)] }
  | .ExamplesDefinition =>
    { allowed := [.Tags, .Examples],
      order := [(.rule .Tags, .rule .Tags), (.rule .Examples, .rule .Examples), (.rule .Tags, .rule .Examples)] }
  | .Examples =>
    { allowed := [.Description, .ExamplesTable], lines := [.ExamplesLine],
      order := [(.rule .ExamplesTable, .rule .ExamplesTable), (.tok .ExamplesLine, .tok .ExamplesLine),
                (.tok .ExamplesLine, .rule .ExamplesTable)] }
  | .ExamplesTable => { allowed := [], lines := [.TableRow], order := [] }
  | .Step =>
    { allowed := [.DataTable, .DocString], lines := [.StepLine],
      order := [(.rule .DataTable, .rule .DataTable), (.rule .DocString, .rule .DocString),
                (.rule .DataTable, .rule .DocString), (.rule .DocString, .rule .DataTable),
                (.tok .StepLine, .tok .StepLine), (.tok .StepLine, .rule .DataTable),
                (.tok .StepLine, .rule .DocString)] }
  | .DataTable => { allowed := [], lines := [.TableRow], order := [] }
  | .DocString => { allowed := [], lines := [.DocStringSeparator], order := [] }
  | .Tags => { allowed := [], lines := [.TagLine], order := [] }
  -- the two rules without `!` never become nodes; listed so that the table covers the grammar
  | .StepArg => { allowed := [.DataTable, .DocString], order := [] }
  | .DescriptionHelper => { allowed := [.Description], order := [] }
  | _ => { allowed := [], order := [] }

/-- the children `cs` of a node of rule type `r` have the required shape -/
def nodeOK (r : RuleType) (cs : List TTree) : Bool :=
  (cs.all fun c => match c with
    | .node r' _ => (nodeShape r).allowed.contains r'
    | .leaf t =>
      match t.mtype with
      | some k => !elemKinds.contains k || (nodeShape r).lines.contains k
      | Option.none => true) &&
  ((nodeShape r).order.all fun p => noBefore (TTree.isSym p.1) (TTree.isSym p.2) cs) &&
  ((nodeShape r).needs.all fun x => cs.any (TTree.isSym x))

mutual
/-- every node of the tree has the required shape -/
def shaped : TTree → Bool
  | .leaf _ => true
  | .node r cs => nodeOK r cs && shapedList cs
def shapedList : List TTree → Bool
  | [] => true
  | c :: cs => shaped c && shapedList cs
end

/-- grammar-shaped: see `nodeShape` -/
def GrammarShaped (t : TTree) : Prop := shaped t = true

instance (t : TTree) : Decidable (GrammarShaped t) := inferInstanceAs (Decidable (_ = true))

/-! ### the canonical id order (property C11) -/

def rowIds (rs : List Row) : List Nat := rs.map (·.id)

/-- a data table: its rows -/
def argIds : StepArg → List Nat
  | .table d => rowIds d.rows
  | _ => []

/-- a step: its table rows, then the step -/
def stepIds (s : Step) : List Nat := argIds s.arg ++ [s.id]

/-- a background: its steps (each with its rows), then the background -/
def backgroundIds (b : Background) : List Nat := b.steps.flatMap stepIds ++ [b.id]

/-- an examples block: header and body rows, then tags, then the block -/
def examplesIds (e : Examples) : List Nat :=
  rowIds e.header.toList ++ rowIds e.body ++ e.tags.map (·.id) ++ [e.id]

/-- a scenario: steps, then examples blocks, then tags, then the scenario -/
def scenarioIds (s : Scenario) : List Nat :=
  s.steps.flatMap stepIds ++ s.examples.flatMap examplesIds ++ s.tags.map (·.id) ++ [s.id]

def ruleChildIds : RuleChild → List Nat
  | .background b => backgroundIds b
  | .scenario s => scenarioIds s

/-- a rule: (background,) scenarios, then tags, then the rule -/
def ruleIds (r : Rule) : List Nat := r.children.flatMap ruleChildIds ++ r.tags.map (·.id) ++ [r.id]

def featureChildIds : FeatureChild → List Nat
  | .background b => backgroundIds b
  | .scenario s => scenarioIds s
  | .rule r => ruleIds r

/-- a feature: (background,) scenarios, rules, then the feature's tags; it has no id itself -/
def featureIds (f : Feature) : List Nat := f.children.flatMap featureChildIds ++ f.tags.map (·.id)

/-- all ids of the AST in the canonical order: children before their parent; table rows, then
    steps, then examples, then tags, then the owning node -/
def canonicalIds (d : Doc) : List Nat :=
  match d.feature with
  | some f => featureIds f
  | Option.none => []

/-! ### the elements in source order (property C03) -/

def tagLocs (ts : List Tag) : List Loc := ts.map (·.loc)
def rowLocs (rs : List Row) : List Loc := rs.map (·.loc)

/-- a step argument: the rows of the data table, or the doc string -/
def argLocs : StepArg → List Loc
  | .table d => rowLocs d.rows
  | .doc ds => [ds.loc]
  | .none => []

def stepLocs (s : Step) : List Loc := s.loc :: argLocs s.arg
def backgroundLocs (b : Background) : List Loc := b.loc :: b.steps.flatMap stepLocs
def examplesLocs (e : Examples) : List Loc :=
  tagLocs e.tags ++ e.loc :: (rowLocs e.header.toList ++ rowLocs e.body)
def scenarioLocs (s : Scenario) : List Loc :=
  tagLocs s.tags ++ s.loc :: (s.steps.flatMap stepLocs ++ s.examples.flatMap examplesLocs)
def ruleChildLocs : RuleChild → List Loc
  | .background b => backgroundLocs b
  | .scenario s => scenarioLocs s
def ruleLocs (r : Rule) : List Loc := tagLocs r.tags ++ r.loc :: r.children.flatMap ruleChildLocs
def featureChildLocs : FeatureChild → List Loc
  | .background b => backgroundLocs b
  | .scenario s => scenarioLocs s
  | .rule r => ruleLocs r
def featureLocs (f : Feature) : List Loc := tagLocs f.tags ++ f.loc :: f.children.flatMap featureChildLocs

/-- The locations of all elements of the AST, read off in source order: a feature / rule /
    scenario / examples block: its tags, itself, then what it contains; a background: itself,
    its steps; a step: itself, then the rows of its data table or its doc string; an examples
    block's header and body rows.  (Descriptions are text only and have no location; a data
    table is represented by its rows, cells by their row; comments are a list of their own,
    see `C03_ast_of_tree`.) -/
def srcLocs (d : Doc) : List Loc :=
  match d.feature with
  | some f => featureLocs f
  | Option.none => []

/-- … and their line numbers -/
def srcLines (d : Doc) : List Nat := (srcLocs d).map (·.line)

/-- the locations of the elements a line carries: a tag line one per tag (line, column of the
    tag); a keyword line, table row or doc string separator the line's own; nothing for
    comments, blank lines, free text (descriptions, doc string content), the language header
    and the end of file -/
def leafLocs (t : Token) : List Loc :=
  match t.mtype with
  | some .TagLine => t.items.map fun it => getLocation t (some it.1)
  | some k => if elemKinds.contains k then [t.loc] else []
  | Option.none => []

mutual
/-- the locations of the elements carried by the lines of the tree, in line order; of the two
    separators of a doc string only the first (the second closes it) -/
def elemLocs : TTree → List Loc
  | .leaf t => leafLocs t
  | .node r ch => if r = .DocString then (elemLocsList ch).head?.toList else elemLocsList ch
def elemLocsList : List TTree → List Loc
  | [] => []
  | c :: cs => elemLocs c ++ elemLocsList cs
end

/-- … and their line numbers -/
def elemLines (t : TTree) : List Nat := (elemLocs t).map (·.line)

end Spec
end GV
