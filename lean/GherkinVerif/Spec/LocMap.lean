/-
  Spec/LocMap.lean — renaming of source positions (property C16, whole-document part: "indenting
  changes only columns", "inserting blank lines changes only line numbers").  A `LocMap` sends the
  number of a physical line to its new number and a column on that line to its new column;
  `mapLoc` applies it to every location of a document, of an error list, of a parse outcome.
  Nothing else of the document is touched: ids, keywords, names, texts, cells, descriptions,
  doc-string contents, the order and number of elements.
-/
import GherkinVerif.Model.Parser
namespace GV.Spec

structure LocMap where
  ln : Nat → Nat            -- new number of the line that had number `n`
  cl : Nat → Nat → Nat      -- new column of column `c` on the line that had number `n`

def LocMap.loc (f : LocMap) (l : Loc) : Loc := ⟨f.ln l.line, l.col.map (f.cl l.line)⟩

def mapTag (f : LocMap) (t : Tag) : Tag := { t with loc := f.loc t.loc }
def mapCell (f : LocMap) (c : Cell) : Cell := { c with loc := f.loc c.loc }
def mapRow (f : LocMap) (r : Row) : Row := { r with loc := f.loc r.loc, cells := r.cells.map (mapCell f) }
def mapTable (f : LocMap) (t : DataTable) : DataTable := { loc := f.loc t.loc, rows := t.rows.map (mapRow f) }
def mapDocString (f : LocMap) (d : DocString) : DocString := { d with loc := f.loc d.loc }
def mapArg (f : LocMap) : StepArg → StepArg
  | .none => .none
  | .table t => .table (mapTable f t)
  | .doc d => .doc (mapDocString f d)
def mapStep (f : LocMap) (s : Step) : Step := { s with loc := f.loc s.loc, arg := mapArg f s.arg }
def mapBackground (f : LocMap) (b : Background) : Background :=
  { b with loc := f.loc b.loc, steps := b.steps.map (mapStep f) }
def mapExamples (f : LocMap) (e : Examples) : Examples :=
  { e with tags := e.tags.map (mapTag f), loc := f.loc e.loc, header := e.header.map (mapRow f),
           body := e.body.map (mapRow f) }
def mapScenario (f : LocMap) (s : Scenario) : Scenario :=
  { s with tags := s.tags.map (mapTag f), loc := f.loc s.loc, steps := s.steps.map (mapStep f),
           examples := s.examples.map (mapExamples f) }
def mapRuleChild (f : LocMap) : RuleChild → RuleChild
  | .background b => .background (mapBackground f b)
  | .scenario s => .scenario (mapScenario f s)
def mapRule (f : LocMap) (r : Rule) : Rule :=
  { r with tags := r.tags.map (mapTag f), loc := f.loc r.loc, children := r.children.map (mapRuleChild f) }
def mapFeatureChild (f : LocMap) : FeatureChild → FeatureChild
  | .background b => .background (mapBackground f b)
  | .scenario s => .scenario (mapScenario f s)
  | .rule r => .rule (mapRule f r)
def mapFeature (f : LocMap) (x : Feature) : Feature :=
  { x with tags := x.tags.map (mapTag f), loc := f.loc x.loc, children := x.children.map (mapFeatureChild f) }
def mapComment (f : LocMap) (c : Comment) : Comment := { c with loc := f.loc c.loc }
def mapDoc (f : LocMap) (d : Doc) : Doc :=
  { feature := d.feature.map (mapFeature f), comments := d.comments.map (mapComment f) }

/-- an error keeps its kind and message body; its location (and with it the `(line:column): `
    prefix of `PErr.message`) is renamed -/
def mapErr (f : LocMap) (e : PErr) : PErr := { e with loc := f.loc e.loc }

def mapOutcome (f : LocMap) : Outcome → Outcome
  | .ok d => .ok (mapDoc f d)
  | .rejected es c => .rejected (es.map (mapErr f)) c
  | .crash w => .crash w
  | .fuel => .fuel

/-- indentation: line numbers stay, columns on the line with number `n` grow by `w (n - 1)`
    (`w i` = number of blanks put in front of the `i`-th physical line, 0-based) -/
def indentMap (w : Nat → Nat) : LocMap := ⟨id, fun n c => c + w (n - 1)⟩

/-- a line inserted after the first `k` physical lines: the lines numbered `> k` move down by one -/
def insertMap (k : Nat) : LocMap := ⟨fun n => if n > k then n + 1 else n, fun _ c => c⟩

end GV.Spec
