/-
  Spec/LayoutChecks6.lean — Boolean table facts for case (b2) of goal G3 of property C16
  (Props/C16Doc6.lean): the abstract interpretation of the builder's stack of open nodes by RULE TYPE
  and `Description` flag, and the comparison of a description-opening state with its description
  state, production by production.

  `descFlagsOk` (Spec/LayoutChecks4.lean) abstracts an open node to a flag only; it takes the rule type
  of the node an `end_ X` closes from the production.  The builder does not: `end_rule` ignores its
  argument and files the closed node under ITS OWN rule type.  Hence the abstraction proved sound here
  carries the rule types along and checks that every `end_ X` closes a node of type `X`.
-/
import GherkinVerif.Spec.LayoutChecks4
namespace GV.Spec

/-- an open node, abstractly: its rule type; `true` = it may hold a `Description` item -/
abbrev ANode := RuleType × Bool

def absAt (fl : List (Nat × List ANode)) (s : Nat) : List ANode := ((fl.find? (·.1 == s)).map (·.2)).getD []

/-- `start r` opens a node of type `r` without items; `end_ X` closes the top node — which must be of
    type `X` — and puts an `X` item into the one below, refused (`none`) when that would be a SECOND
    `Description` item; `build` adds a token item -/
def applyProdA : Prod → List ANode → Option (List ANode)
  | .start r, fs => some ((r, false) :: fs)
  | .end_ X, (r, _) :: (r', g) :: rest =>
    if r == X then
      (if X == .Description then (if g then none else some ((r', true) :: rest)) else some ((r', g) :: rest))
    else none
  | .end_ _, _ => none
  | .build, fs => some fs

def applyProdsA : List Prod → List ANode → Option (List ANode)
  | [], fs => some fs
  | p :: ps, fs => (applyProdA p fs).bind (applyProdsA ps)

/-- same rule types, and `a` allows at most what `b` allows -/
def leA : List ANode → List ANode → Bool
  | [], [] => true
  | (r, x) :: a, (r', y) :: b => decide (r = r') && (!x || y) && leA a b
  | _, _ => false

/-- an open `Description` node sits on a node that holds no `Description` item -/
def topOkA : List ANode → Bool
  | (r, _) :: (_, g) :: _ => !(decide (r = .Description)) || !g
  | _ => true

/-- TABLE FACT: `fl` is inductive — the start state has the root node and the node of the start rule,
    both without items; error tails keep the stack; every branch's productions lead from the stack of
    its state to (at most) that of its target, every `end_ X` closes an `X` node and never puts a second
    `Description` item into a node; an open `Description` node sits on a node without `Description` item;
    in every description-opening state the top node holds no `Description` item -/
def descStacksOk (T : Table) (fl : List (Nat × List ANode)) : Bool :=
  decide (absAt fl 0 = [(T.startRule, false), (.None_, false)]) && fl.all (fun e => topOkA e.2) &&
  T.rows.all fun r =>
    leA (absAt fl r.id) (absAt fl r.errTarget) && topOkA (absAt fl r.id) &&
    (!commentOpensDescription T r.id || decide (((absAt fl r.id).head?.map (·.2)) = some false)) &&
    r.branches.all fun b =>
      match applyProdsA b.prods (absAt fl r.id) with
      | some d => leA d (absAt fl b.target)
      | none => false

def joinA : List ANode → List ANode → List ANode
  | (r, x) :: a, (_, y) :: b => (r, x || y) :: joinA a b
  | _, _ => []

def joinAtA : List (Nat × List ANode) → Nat → List ANode → List (Nat × List ANode)
  | [], s, d => [(s, d)]
  | (s', d') :: fl, s, d => if s' == s then (s', joinA d' d) :: fl else (s', d') :: joinAtA fl s d

/-- one round of the fixpoint iteration -/
def stepDescStacks (T : Table) (fl : List (Nat × List ANode)) : List (Nat × List ANode) :=
  T.rows.foldl (fun fl r =>
    if fl.any (·.1 == r.id) then
      r.branches.foldl (fun fl b =>
        match applyProdsA b.prods (absAt fl r.id) with
        | some d => joinAtA fl b.target d
        | none => fl) (joinAtA fl r.errTarget (absAt fl r.id))
    else fl) fl

/-- an assignment computed from the table: `n` rounds from the start state -/
def computeDescStacks (T : Table) : Nat → List (Nat × List ANode)
  | 0 => [(0, [(T.startRule, false), (.None_, false)])]
  | n + 1 => stepDescStacks T (computeDescStacks T n)

/-! ### a description-opening state against its description state, with productions -/

/-- the tests of a description-opening state `s` against those of its description state `s'`: the same
    tests in the same order with the same guards and the same targets, except that `s'` has no `Empty`
    test; the `Comment`/`Other` tests of `s` open the description and build, those of `s'` only build;
    every other test of `s'` closes the description and then does what the test of `s` does -/
def rowsMatchD : List Branch → List Branch → Bool
  | [], [] => true
  | [], _ :: _ => false
  | b1 :: r1, bs2 =>
    if b1.kind == .Empty then rowsMatchD r1 bs2
    else match bs2 with
      | [] => false
      | b2 :: r2 =>
        b1.kind == b2.kind && b1.guard == b2.guard && b1.target == b2.target &&
        (if b1.kind == .Comment || b1.kind == .Other then
          b1.prods == [.start .Description, .build] && b2.prods == [.build]
         else b2.prods == .end_ .Description :: b1.prods) && rowsMatchD r1 r2

/-- the tests catch every token: an unguarded `EOF` test and an unguarded `Other` test -/
def rowCatches (bs : List Branch) : Bool :=
  bs.any (fun b => b.kind == .EOF && b.guard.isNone) && bs.any (fun b => b.kind == .Other && b.guard.isNone)

/-- TABLE FACT: every description-opening state matches its description state (`rowsMatchD`) and
    has no reachable error tail (`rowCatches`) -/
def descRowsOk (T : Table) : Bool :=
  T.rows.all fun r =>
    !commentOpensDescription T r.id ||
    match commentBranch r with
    | some b =>
      match T.row? b.target with
      | some r' => rowsMatchD r.branches r'.branches && rowCatches r.branches
      | none => false
    | none => false

end GV.Spec
