/-
  Spec/DialectFacts.lean — Boolean facts about a dialect table (a `List Dialect`).  Each is
  evaluated by `decide +kernel` on the table regenerated from the current
  gherkin-languages.json, in the module of the property that uses it (C05, C19), and lifted to
  the unbounded statements (all indentations, all titles) by the generic lemmas of
  Lemmas/Keywords.lean and Lemmas/Markdown.lean.
-/
import GherkinVerif.Model.Matcher
namespace GV

/-- the keywords that must be followed by `:` (feature, rule, background, scenario, scenario
    outline, examples), in that order -/
def Dialect.titleKeywords (d : Dialect) : List Str :=
  d.feature ++ d.rule ++ d.background ++ d.scenario ++ d.scenarioOutline ++ d.examples

/-- the keyword list `match_<Kind>` consults for the five title line kinds (a scenario line is
    tried against the scenario keywords first, then the scenario-outline keywords) -/
def Dialect.roleKeywords (d : Dialect) : Kind → List Str
  | .FeatureLine => d.feature
  | .RuleLine => d.rule
  | .BackgroundLine => d.background
  | .ScenarioLine => d.scenario ++ d.scenarioOutline
  | .ExamplesLine => d.examples
  | _ => []

/-- the five title line kinds -/
def Kind.isTitle : Kind → Bool
  | .FeatureLine | .RuleLine | .BackgroundLine | .ScenarioLine | .ExamplesLine => true
  | _ => false

/-- every keyword of the dialect -/
def Dialect.allKeywords (d : Dialect) : List Str := d.titleKeywords ++ d.stepKeywords

namespace Spec

/-- the string is empty or its first code point is not whitespace -/
def noWsStart : Str → Bool
  | [] => true
  | c :: _ => !isSpace c

/-- the string does not contain `:` -/
def colonFree (k : Str) : Bool := !k.contains 58

/-- the string does not start like a line of another kind: whitespace, `#`, `@`, `|`, `"""`
    or three backticks -/
def plainStart (k : Str) : Bool :=
  noWsStart k && !startsWith [35] k && !startsWith [64] k && !startsWith [124] k &&
  !startsWith dq3 k && !startsWith bt3 k

/-- no keyword of any dialect is the empty string -/
def noEmptyKeyword (D : List Dialect) : Bool :=
  D.all fun d => d.allKeywords.all fun k => !k.isEmpty

/-- no keyword of any dialect starts with whitespace, `#`, `@`, `|`, `"""` or three backticks -/
def keywordsPlainStart (D : List Dialect) : Bool :=
  D.all fun d => d.allKeywords.all plainStart

/-- no title keyword (feature … examples) of any dialect contains `:` -/
def titleColonFree (D : List Dialect) : Bool :=
  D.all fun d => d.titleKeywords.all colonFree

/-- dialect names are pairwise distinct (so `findDialect` finds each dialect under its name) -/
def namesDistinct : List Dialect → Bool
  | [] => true
  | d :: ds => !(ds.any (·.name == d.name)) && namesDistinct ds

/-- number of times `kw` is listed in the five step-keyword lists -/
def stepCount (d : Dialect) (kw : Str) : Nat := (d.stepKeywords.filter (· == kw)).length

/-- the step keywords listed more than once in the dialect (without repetition) -/
def repeatedStepKeywords (d : Dialect) : List Str :=
  (d.stepKeywords.filter fun k => stepCount d k != 1).eraseDups

/-- the only step keyword listed more than once is `"* "` -/
def onlyStarRepeated (D : List Dialect) : Bool :=
  D.all fun d => d.stepKeywords.all fun k => stepCount d k == 1 || k == [42, 32]

/-- `"* "` is never listed exactly once: where a dialect lists it at all (two dialects of the
    current table, `en-tx` and `sl`, do not) it is listed several times, so its keyword type is
    `Unknown` in every dialect -/
def starNotOnce (D : List Dialect) : Bool :=
  D.all fun d => stepCount d [42, 32] != 1

/-- prefix clashes among the step keywords of a dialect: pairs (`a`, `b`) where `a` is listed
    before `b`, differs from it and is a prefix of it — so a line starting with `b` is reported
    with keyword `a` (first-prefix rule, `C05_step_first_prefix`) -/
def prefixClashesAux : List Str → List (Str × Str)
  | [] => []
  | a :: rest => ((rest.filter fun b => startsWith a b && b != a).map fun b => (a, b)) ++ prefixClashesAux rest

def prefixClashes (d : Dialect) : List (Str × Str) := prefixClashesAux d.stepKeywords.eraseDups

/-- the step keywords of `d` that can never be reported because an earlier one prefixes them -/
def shadowedStepKeywords (d : Dialect) : List Str := ((prefixClashes d).map (·.2)).eraseDups

/-- no step keyword is a prefix of a title keyword followed by `:` and no title keyword followed
    by `:` is a prefix of a step keyword: a line cannot be both a step and a title line -/
def noStepTitleClash (D : List Dialect) : Bool :=
  D.all fun d => d.stepKeywords.all fun s => d.titleKeywords.all fun k =>
    !startsWith s (k ++ [58]) && !startsWith (k ++ [58]) s

/-- a title keyword followed by `:` of one role is never a prefix of a title keyword followed by
    `:` of another role, except between scenario and scenario outline (which share one line kind):
    roles are numbered 0 feature, 1 rule, 2 background, 3 scenario / outline, 4 examples -/
def roleNo : Kind → Nat
  | .FeatureLine => 0 | .RuleLine => 1 | .BackgroundLine => 2 | .ScenarioLine => 3 | .ExamplesLine => 4
  | _ => 5

def titleRoles (d : Dialect) : List (Nat × Str) :=
  d.feature.map (0, ·) ++ d.rule.map (1, ·) ++ d.background.map (2, ·) ++
  d.scenario.map (3, ·) ++ d.scenarioOutline.map (3, ·) ++ d.examples.map (4, ·)

def noCrossRoleClash (D : List Dialect) : Bool :=
  D.all fun d => (titleRoles d).all fun a => (titleRoles d).all fun b =>
    a.1 == b.1 || !startsWith (a.2 ++ [58]) (b.2 ++ [58])

/-- the facts C05 uses, in one checker (one kernel evaluation of the table) -/
def keywordFacts (D : List Dialect) : Bool :=
  noEmptyKeyword D && keywordsPlainStart D && titleColonFree D && namesDistinct D &&
  onlyStarRepeated D && starNotOnce D && noStepTitleClash D && noCrossRoleClash D

/-- the facts C19 uses -/
def markdownFacts (D : List Dialect) : Bool :=
  titleColonFree D && keywordsPlainStart D && noEmptyKeyword D

end Spec
end GV
