/-
  Spec/LayoutChecks3.lean — Boolean table predicates and hypotheses for the remainder of goal G3 of
  property C16 (Props/C16Doc5.lean): a comment line inserted directly after a keyword line, where a
  comment opens the description.
-/
import GherkinVerif.Spec.LayoutChecks2
namespace GV.Spec

/-- the state the comment test of state `s` leads to -/
def descTarget (T : Table) (s : Nat) : Nat :=
  match T.row? s with
  | some row => match commentBranch row with
    | some b => b.target
    | none => 0
  | none => 0

/-- the tests of a state `s` whose comment test opens the description, against those of the
    description state `s'`: `s'` has the same tests in the same order with the same guards, except
    that it has no `Empty` test; the `Comment`/`Other` tests of `s` open the description, build and
    lead to `s'`, those of `s'` only build and stay; no other test of `s` leads to `s'` -/
def rowsMatch (s' : Nat) : List Branch → List Branch → Bool
  | [], [] => true
  | [], _ :: _ => false
  | b1 :: r1, bs2 =>
    if b1.kind == .Empty then b1.guard.isNone && b1.target != s' && rowsMatch s' r1 bs2
    else match bs2 with
      | [] => false
      | b2 :: r2 =>
        b1.kind == b2.kind && b1.guard == b2.guard &&
        (if b1.kind == .Comment || b1.kind == .Other then
          b1.guard.isNone && b1.prods == [.start .Description, .build] && b2.prods == [.build] &&
            b1.target == s' && b2.target == s'
         else b1.target != s') && rowsMatch s' r1 r2

/-- in state `s` the first test a comment line passes is `Comment`, unguarded; it opens a
    `Description`, hands the line to the builder and leads to the description state, whose tests
    mirror those of `s` (`rowsMatch`); the error tail of `s` does not lead there -/
def commentOpensDescription (T : Table) (s : Nat) : Bool :=
  match T.row? s with
  | none => false
  | some row =>
    match commentBranch row with
    | none => false
    | some b =>
      b.kind == .Comment && b.guard.isNone && b.prods == [.start .Description, .build] &&
      match T.row? b.target with
      | none => false
      | some row' => rowsMatch b.target row.branches row'.branches && row.errTarget != b.target && b.target != s

/-- after its first `k` lines the original run has lines left to read -/
def moreLines (D : List Dialect) (T : Table) (stop : Bool) (μ : MState) (ids : Nat) (src : Str) (k : Nat) : Bool :=
  match runAfter D T stop μ ids src k with
  | some (_, c) => !c.lines.isEmpty
  | none => false

/-- the hypotheses of `C16_comment_line_document_all_partial`: `c` is a `#` line that is not read as a
    language header where it is inserted; the original run has aborted within the first `k` lines,
    or stands in a state whose comment test builds and stays, or stands in a state whose comment
    test opens the description AND goes on from there into that description state with line `k+1`
    (i.e. line `k+1` exists and is itself read as description text or as a comment) -/
def commentLineOk2B (D : List Dialect) (T : Table) (stop : Bool) (μ : MState) (ids : Nat) (src : Str) (k : Nat)
    (c : Str) : Bool :=
  lineStartsWith c [35] &&
  match stateAfter D T stop μ ids src k with
  | some s =>
    (!languageTested T s || (languageRe (lineText c none)).isNone) &&
    (commentSelfLoop T s ||
      (commentOpensDescription T s && moreLines D T stop μ ids src k &&
        stateAfter D T stop μ ids src (k + 1) == some (descTarget T s)))
  | none => true

end GV.Spec
