/-
  Spec/Render.lean — property C03 "from the document outwards": a small structured document
  model, its renderer (canonical layout, one physical line per element, LF-terminated), the
  well-formedness predicate and the AST the parser is expected to return for the rendered text.

  Canonical layout:
      @t1 @t2                 (only if the feature has tags; column 1, single blanks)
      <feature kw>: <name>    (column 1)
      @u1                     (only if the scenario has tags; column 1)
      <scenario kw>: <name>   (column 1)
        <step kw><text>       (column 3; the step keyword carries its own trailing blank if it has one)
-/
import GherkinVerif.Model.Parser
import GherkinVerif.Spec.DialectFacts
namespace GV.Spec

structure MStep where
  kw : Str
  text : Str
deriving Repr, DecidableEq

structure MScenario where
  tags : List Str
  kw : Str
  name : Str
  steps : List MStep
deriving Repr, DecidableEq

structure MFeature where
  tags : List Str
  kw : Str
  name : Str
  scenarios : List MScenario
deriving Repr, DecidableEq

/-- decode a model from plain lists (for test drivers): a scenario is
    `(tags, keyword, name, [(step keyword, step text), …])` -/
def MScenario.ofLists (s : List Str × Str × Str × List (Str × Str)) : MScenario :=
  { tags := s.1, kw := s.2.1, name := s.2.2.1, steps := s.2.2.2.map fun p => ⟨p.1, p.2⟩ }

/-- decode a feature model from plain lists: tags, keyword, name, scenarios as for `MScenario.ofLists` -/
def MFeature.ofLists (tags : List Str) (kw name : Str)
    (scenarios : List (List Str × Str × Str × List (Str × Str))) : MFeature :=
  { tags := tags, kw := kw, name := name, scenarios := scenarios.map MScenario.ofLists }

/-- the same from `String`s (code points of each string) -/
def MFeature.ofStrings (tags : List String) (kw name : String)
    (scenarios : List (List String × String × String × List (String × String))) : MFeature :=
  MFeature.ofLists (tags.map lit) (lit kw) (lit name)
    (scenarios.map fun s => (s.1.map lit, lit s.2.1, lit s.2.2.1, s.2.2.2.map fun p => (lit p.1, lit p.2)))

/-! ### the renderer -/

/-- the tag line of an element (without line feed): nothing when it has no tags -/
def tagLineOf (tags : List Str) : List Str :=
  if tags.isEmpty then [] else [joinWith [32] tags]

def titleLineOf (kw name : Str) : Str := kw ++ [58] ++ ([32] ++ name)

def stepLineOf (s : MStep) : Str := [32, 32] ++ s.kw ++ s.text

def scenarioLines (s : MScenario) : List Str :=
  tagLineOf s.tags ++ titleLineOf s.kw s.name :: s.steps.map stepLineOf

/-- the physical lines of the rendered document, without their line feeds -/
def lineBodies (m : MFeature) : List Str :=
  tagLineOf m.tags ++ titleLineOf m.kw m.name :: m.scenarios.flatMap scenarioLines

/-- the rendered source text: every line terminated by LF -/
def render (m : MFeature) : Str := (lineBodies m).flatMap (· ++ [10])

/-! ### well-formedness -/

/-- the string is empty or its last code point is not whitespace -/
def noWsEnd : Str → Bool
  | [] => true
  | [c] => !isSpace c
  | _ :: c :: r => noWsEnd (c :: r)

/-- no surrounding whitespace (what `str.strip()` leaves alone) and no line feed inside -/
def cleanText (s : Str) : Bool := noWsStart s && noWsEnd s && s.all (· != 10)

/-- a tag as written and as reported: `@` followed by code points that are neither whitespace nor `@` -/
def tagOK : Str → Bool
  | 64 :: body => body.all fun c => !isSpace c && c != 64
  | _ => false

/-- the step keyword the matcher reports for the trimmed line `s`: the FIRST listed keyword that
    prefixes it (`C05_step_first_prefix`) -/
def firstStepKeyword (d : Dialect) (s : Str) : Option Str :=
  d.stepKeywords.find? fun k => startsWith k s

def stepOK (d : Dialect) (s : MStep) : Bool :=
  firstStepKeyword d (s.kw ++ s.text) == some s.kw && cleanText s.text

def scenarioOK (d : Dialect) (s : MScenario) : Bool :=
  s.tags.all tagOK && (d.scenario ++ d.scenarioOutline).contains s.kw && cleanText s.name &&
  s.steps.all (stepOK d)

/-- well-formed model for dialect `d`: keywords are keywords of their role in `d`; names and step
    texts carry no surrounding whitespace and no line feed; tags are `@` + non-blank, `@`-free code
    points; and for every step the first listed step keyword of `d` prefixing `kw ++ text` is `kw`
    itself (first-prefix rule). -/
def WF (d : Dialect) (m : MFeature) : Bool :=
  m.tags.all tagOK && d.feature.contains m.kw && cleanText m.name && m.scenarios.all (scenarioOK d)

/-! ### the expected AST -/

/-- (column, tag) for the tags of a rendered tag line starting at column `c` -/
def tagCols : Nat → List Str → List (Nat × Str)
  | _, [] => []
  | c, t :: ts => (c, t) :: tagCols (c + t.length + 1) ts

def expTags (line i : Nat) (tags : List Str) : List Tag :=
  ((tagCols 1 tags).zipIdx i).map fun p => { id := p.2, loc := ⟨line, some p.1.1⟩, name := p.1.2 }

def expSteps (d : Dialect) : Nat → Nat → List MStep → List Step
  | _, _, [] => []
  | line, i, s :: ss =>
    { id := i, loc := ⟨line, some 3⟩, keyword := s.kw, ktype := stepKType d s.kw, text := s.text, arg := .none } ::
      expSteps d (line + 1) (i + 1) ss

/-- number of tag lines an element has in the canonical layout -/
def tagLines (tags : List Str) : Nat := if tags.isEmpty then 0 else 1

/-- a scenario whose first line (tag line if any) is line `line`, with `i` the id counter when its
    first step is finished: steps draw `i, i+1, …`, then the tags, then the scenario -/
def expScenario (d : Dialect) (line i : Nat) (s : MScenario) : Scenario :=
  { id := i + s.steps.length + s.tags.length,
    tags := expTags line (i + s.steps.length) s.tags,
    loc := ⟨line + tagLines s.tags, some 1⟩, keyword := s.kw, name := s.name, description := [],
    steps := expSteps d (line + tagLines s.tags + 1) i s.steps, examples := [] }

def scLines (s : MScenario) : Nat := tagLines s.tags + 1 + s.steps.length
def scIds (s : MScenario) : Nat := s.steps.length + s.tags.length + 1

def expScenarios (d : Dialect) : Nat → Nat → List MScenario → List Scenario
  | _, _, [] => []
  | line, i, s :: ss => expScenario d line i s :: expScenarios d (line + scLines s) (i + scIds s) ss

def idsOfScenarios (ss : List MScenario) : Nat := (ss.map scIds).sum

/-- the document the parser must return for `render m`, dialect `d` named `lang` in force, incoming
    id counter `i`: ids in the canonical order (steps, tags, scenario; the feature's tags last),
    line numbers by position, columns from the canonical layout, no comments -/
def expectedDoc (d : Dialect) (lang : Str) (m : MFeature) (i : Nat) : Doc :=
  { feature := some
      { tags := expTags 1 (i + idsOfScenarios m.scenarios) m.tags,
        loc := ⟨1 + tagLines m.tags, some 1⟩, language := lang, keyword := m.kw, name := m.name,
        description := [],
        children := (expScenarios d (2 + tagLines m.tags) i m.scenarios).map FeatureChild.scenario },
    comments := [] }

/-- the id counter after the parse -/
def idsAfter (m : MFeature) (i : Nat) : Nat := i + idsOfScenarios m.scenarios + m.tags.length

end GV.Spec
