/-
  Spec/Refs.lean — vocabulary of the referential-integrity part of property C11: which AST nodes
  a pickle, a pickle step and a pickle tag may point back to.  Written directly over the typed
  AST (Model/Ast.lean): membership in children / steps / tags lists — no indices, no counters.
-/
import GherkinVerif.Model.Ast
namespace GV.Spec

/-- `s` is a scenario of feature `f`: a child of the feature itself (`ro = none`) or a child of
    the rule `r` which is a child of the feature (`ro = some r`). -/
def ScenarioIn (f : Feature) (ro : Option Rule) (s : Scenario) : Prop :=
  match ro with
  | none => FeatureChild.scenario s ∈ f.children
  | some r => FeatureChild.rule r ∈ f.children ∧ RuleChild.scenario s ∈ r.children

/-- `x` is a step of a background in scope of a scenario sitting at `ro`: a feature-level
    background, or a background of the enclosing rule. -/
def BgStepInScope (f : Feature) (ro : Option Rule) (x : Step) : Prop :=
  (∃ b, FeatureChild.background b ∈ f.children ∧ x ∈ b.steps) ∨
  (∃ r b, ro = some r ∧ RuleChild.background b ∈ r.children ∧ x ∈ b.steps)

/-- `x` is a step in scope of scenario `s` sitting at `ro`: one of its own, or of an in-scope
    background -/
def StepInScope (f : Feature) (ro : Option Rule) (s : Scenario) (x : Step) : Prop :=
  x ∈ s.steps ∨ BgStepInScope f ro x

/-- `t` is a tag in scope of scenario `s` sitting at `ro` (and of the examples block `eo`, for
    an example row): a tag of the feature, of the enclosing rule, of the scenario, or of that
    examples block -/
def TagInScope (f : Feature) (ro : Option Rule) (s : Scenario) (eo : Option Examples) (t : Tag) : Prop :=
  t ∈ f.tags ∨ (∃ r, ro = some r ∧ t ∈ r.tags) ∨ t ∈ s.tags ∨ (∃ e, eo = some e ∧ t ∈ e.tags)

/-- every pickle tag of `p` points at a tag in scope, with the same name -/
def TagsResolve (f : Feature) (ro : Option Rule) (s : Scenario) (eo : Option Examples) (p : Pickle) : Prop :=
  ∀ pt ∈ p.tags, ∃ t, TagInScope f ro s eo t ∧ pt.astNodeId = t.id ∧ pt.name = t.name

/-- **The pickle `p` resolves into the feature `f`.**  There is a scenario `s` of `f` such that
    either
    * (plain) `s` has no examples, `p.astNodeIds = [s.id]`, every pickle step points at exactly
      one step in scope (`[x.id]`), every pickle tag at a tag of the feature / rule / scenario; or
    * (outline) there are an examples block `e` of `s` with a header and a body row `r` of `e`
      with `p.astNodeIds = [s.id, r.id]`, every pickle step points at an own step of `s` and
      the SAME row (`[x.id, r.id]`) or at an in-scope background step alone (`[x.id]`), every
      pickle tag at a tag of the feature / rule / scenario / the examples block `e` of `r`. -/
def PickleResolves (f : Feature) (p : Pickle) : Prop :=
  ∃ ro s, ScenarioIn f ro s ∧
    ((s.examples = [] ∧ p.astNodeIds = [s.id] ∧
        (∀ ps ∈ p.steps, ∃ x, StepInScope f ro s x ∧ ps.astNodeIds = [x.id]) ∧
        TagsResolve f ro s none p) ∨
     (∃ e ∈ s.examples, ∃ r ∈ e.body, e.header.isSome = true ∧ p.astNodeIds = [s.id, r.id] ∧
        (∀ ps ∈ p.steps, (∃ x ∈ s.steps, ps.astNodeIds = [x.id, r.id]) ∨
                         (∃ x, BgStepInScope f ro x ∧ ps.astNodeIds = [x.id])) ∧
        TagsResolve f ro s (some e) p))

/-- all AST node ids a pickle mentions: its own references, its steps', its tags' -/
def pickleRefs (p : Pickle) : List Nat :=
  p.astNodeIds ++ p.steps.flatMap (·.astNodeIds) ++ p.tags.map (·.astNodeId)

end GV.Spec
