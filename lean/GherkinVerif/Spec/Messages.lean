/-
  Spec/Messages.lean — the Cucumber Messages shape of the four envelope kinds the Gherkin
  stream produces (source, gherkinDocument, pickle, parseError), as a Boolean predicate on
  JSON values.  It is a port of `shape_errors` in harness/props.py, which was written out from
  the schema's field lists: required fields present with the right JSON type, no unknown field,
  no `null` anywhere (absent optional fields are omitted), `keywordType` and pickle step `type`
  from their fixed vocabularies.  In addition (Python dictionaries guarantee it, association
  lists do not) no object may repeat a key.

  Messages have bounded depth, so there is one checker per message kind and no recursion on `J`.
-/
import GherkinVerif.Model.Json
namespace GV.Spec

/-- the JSON types the schema distinguishes -/
inductive Ty | str | int | list | obj
deriving DecidableEq, Repr

def hasTy : J → Ty → Bool
  | .str _, .str => true
  | .num _, .int => true
  | .arr _, .list => true
  | .obj _, .obj => true
  | _, _ => false

def isNull : J → Bool
  | .null => true
  | _ => false

/-- `x[k]` -/
def lookup (k : String) : List (String × J) → Option J
  | [] => none
  | (k', v) :: rest => if k' == k then some v else lookup k rest

/-- no key occurs twice -/
def keysDistinct : List (String × J) → Bool
  | [] => true
  | (k, _) :: rest => !(rest.any (·.1 == k)) && keysDistinct rest

/-- `req(x, path, fields, optional)` for the members of an object: every required field is
    present with its type, every member is a required or an optional field, none is `null`. -/
def req (kvs : List (String × J)) (fields : List (String × Ty)) (optional : List String := []) : Bool :=
  fields.all (fun f => match lookup f.1 kvs with
    | some v => hasTy v f.2
    | none => false) &&
  kvs.all (fun kv => (fields.any (·.1 == kv.1) || optional.any (· == kv.1)) && !isNull kv.2) &&
  keysDistinct kvs

/-- an optional field, when present, satisfies `p` -/
def optField (k : String) (kvs : List (String × J)) (p : J → Bool) : Bool :=
  match lookup k kvs with
  | some v => p v
  | none => true

/-- a (required) list field all of whose elements satisfy `p` -/
def listField (k : String) (kvs : List (String × J)) (p : J → Bool) : Bool :=
  match lookup k kvs with
  | some (.arr xs) => xs.all p
  | _ => false

/-- a (required) field satisfying `p` -/
def field (k : String) (kvs : List (String × J)) (p : J → Bool) : Bool :=
  match lookup k kvs with
  | some v => p v
  | none => false

def isStr : J → Bool
  | .str _ => true
  | _ => false

def isInt : J → Bool
  | .num _ => true
  | _ => false

/-- `keywordType` vocabulary -/
def keywordTypes : List Str := [lit "Unknown", lit "Context", lit "Action", lit "Outcome", lit "Conjunction"]
/-- pickle step `type` vocabulary -/
def pickleStepTypes : List Str := [lit "Unknown", lit "Context", lit "Action", lit "Outcome"]

def strIn (vocab : List Str) : J → Bool
  | .str s => vocab.contains s
  | _ => false

/-! ### GherkinDocument -/

/-- Location: `line` (integer), optional `column` (integer) -/
def shapeLoc : J → Bool
  | .obj kvs => req kvs [("line", .int)] ["column"] && optField "column" kvs isInt
  | _ => false

def shapeTag : J → Bool
  | .obj kvs => req kvs [("id", .str), ("location", .obj), ("name", .str)] && field "location" kvs shapeLoc
  | _ => false

def shapeCell : J → Bool
  | .obj kvs => req kvs [("location", .obj), ("value", .str)] && field "location" kvs shapeLoc
  | _ => false

def shapeRow : J → Bool
  | .obj kvs => req kvs [("id", .str), ("location", .obj), ("cells", .list)] &&
      field "location" kvs shapeLoc && listField "cells" kvs shapeCell
  | _ => false

def shapeDataTable : J → Bool
  | .obj kvs => req kvs [("location", .obj), ("rows", .list)] &&
      field "location" kvs shapeLoc && listField "rows" kvs shapeRow
  | _ => false

def shapeDocString : J → Bool
  | .obj kvs => req kvs [("location", .obj), ("content", .str), ("delimiter", .str)] ["mediaType"] &&
      field "location" kvs shapeLoc && optField "mediaType" kvs isStr
  | _ => false

def shapeStep : J → Bool
  | .obj kvs =>
    req kvs [("id", .str), ("location", .obj), ("keyword", .str), ("keywordType", .str), ("text", .str)]
      ["dataTable", "docString"] &&
    field "location" kvs shapeLoc && field "keywordType" kvs (strIn keywordTypes) &&
    optField "dataTable" kvs shapeDataTable && optField "docString" kvs shapeDocString
  | _ => false

def shapeBackground : J → Bool
  | .obj kvs =>
    req kvs [("id", .str), ("location", .obj), ("keyword", .str), ("name", .str), ("description", .str),
             ("steps", .list)] &&
    field "location" kvs shapeLoc && listField "steps" kvs shapeStep
  | _ => false

def shapeExamples : J → Bool
  | .obj kvs =>
    req kvs [("id", .str), ("tags", .list), ("location", .obj), ("keyword", .str), ("name", .str),
             ("description", .str), ("tableBody", .list)] ["tableHeader"] &&
    listField "tags" kvs shapeTag && field "location" kvs shapeLoc &&
    optField "tableHeader" kvs shapeRow && listField "tableBody" kvs shapeRow
  | _ => false

def shapeScenario : J → Bool
  | .obj kvs =>
    req kvs [("id", .str), ("tags", .list), ("location", .obj), ("keyword", .str), ("name", .str),
             ("description", .str), ("steps", .list), ("examples", .list)] &&
    listField "tags" kvs shapeTag && field "location" kvs shapeLoc &&
    listField "steps" kvs shapeStep && listField "examples" kvs shapeExamples
  | _ => false

/-- a child of a rule: an object with the single key `background` or `scenario` -/
def shapeRuleChild : J → Bool
  | .obj [(k, v)] =>
    if k == "background" then shapeBackground v
    else if k == "scenario" then shapeScenario v
    else false
  | _ => false

def shapeRule : J → Bool
  | .obj kvs =>
    req kvs [("id", .str), ("tags", .list), ("location", .obj), ("keyword", .str), ("name", .str),
             ("description", .str), ("children", .list)] &&
    listField "tags" kvs shapeTag && field "location" kvs shapeLoc &&
    listField "children" kvs shapeRuleChild
  | _ => false

/-- a child of a feature: single key `background`, `scenario` or `rule` -/
def shapeFeatureChild : J → Bool
  | .obj [(k, v)] =>
    if k == "background" then shapeBackground v
    else if k == "scenario" then shapeScenario v
    else if k == "rule" then shapeRule v
    else false
  | _ => false

def shapeFeature : J → Bool
  | .obj kvs =>
    req kvs [("tags", .list), ("location", .obj), ("language", .str), ("keyword", .str), ("name", .str),
             ("description", .str), ("children", .list)] &&
    listField "tags" kvs shapeTag && field "location" kvs shapeLoc &&
    listField "children" kvs shapeFeatureChild
  | _ => false

def shapeComment : J → Bool
  | .obj kvs => req kvs [("location", .obj), ("text", .str)] && field "location" kvs shapeLoc
  | _ => false

/-- body of a `gherkinDocument` envelope -/
def shapeGherkinDocument : J → Bool
  | .obj kvs =>
    req kvs [("comments", .list), ("uri", .str)] ["feature"] &&
    listField "comments" kvs shapeComment && optField "feature" kvs shapeFeature
  | _ => false

/-! ### Pickle -/

def shapePickleTag : J → Bool
  | .obj kvs => req kvs [("astNodeId", .str), ("name", .str)]
  | _ => false

def shapePickleCell : J → Bool
  | .obj kvs => req kvs [("value", .str)]
  | _ => false

def shapePickleRow : J → Bool
  | .obj kvs => req kvs [("cells", .list)] && listField "cells" kvs shapePickleCell
  | _ => false

def shapePickleTable : J → Bool
  | .obj kvs => req kvs [("rows", .list)] && listField "rows" kvs shapePickleRow
  | _ => false

def shapePickleDocString : J → Bool
  | .obj kvs => req kvs [("content", .str)] ["mediaType"] && optField "mediaType" kvs isStr
  | _ => false

/-- `argument`: an object with the single key `dataTable` or `docString` -/
def shapePickleArgument : J → Bool
  | .obj [(k, v)] =>
    if k == "docString" then shapePickleDocString v
    else if k == "dataTable" then shapePickleTable v
    else false
  | _ => false

def shapePickleStep : J → Bool
  | .obj kvs =>
    req kvs [("astNodeIds", .list), ("id", .str), ("type", .str), ("text", .str)] ["argument"] &&
    listField "astNodeIds" kvs isStr && field "type" kvs (strIn pickleStepTypes) &&
    optField "argument" kvs shapePickleArgument
  | _ => false

def shapePickle : J → Bool
  | .obj kvs =>
    req kvs [("astNodeIds", .list), ("id", .str), ("tags", .list), ("name", .str), ("language", .str),
             ("steps", .list), ("uri", .str)] &&
    listField "astNodeIds" kvs isStr && listField "tags" kvs shapePickleTag &&
    listField "steps" kvs shapePickleStep
  | _ => false

/-! ### Source, parse error, envelope -/

def gherkinMediaType : Str := lit "text/x.cucumber.gherkin+plain"

def shapeSource : J → Bool
  | .obj kvs => req kvs [("uri", .str), ("data", .str), ("mediaType", .str)] &&
      field "mediaType" kvs (strIn [gherkinMediaType])
  | _ => false

def shapeSourceRef : J → Bool
  | .obj kvs => req kvs [("uri", .str), ("location", .obj)] && field "location" kvs shapeLoc
  | _ => false

def shapeParseError : J → Bool
  | .obj kvs => req kvs [("source", .obj), ("message", .str)] && field "source" kvs shapeSourceRef
  | _ => false

/-- One envelope: an object with exactly one key, which names the message kind. -/
def wellShaped : J → Bool
  | .obj [(kind, body)] =>
    if kind == "source" then shapeSource body
    else if kind == "gherkinDocument" then shapeGherkinDocument body
    else if kind == "pickle" then shapePickle body
    else if kind == "parseError" then shapeParseError body
    else false
  | _ => false

end GV.Spec
