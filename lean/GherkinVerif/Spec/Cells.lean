/-
  Spec/Cells.lean — C12's documented reading of a table row, in two phases, written from the
  property text and not from the code's single-pass loop:
    1. tokenise the row into pipes, escape pairs, literal characters, a dangling backslash;
    2. split at the pipes, ignore what is before the first and after the last pipe,
       unescape each segment (`\n` → LF, `\|` → `|`, `\\` → `\`, any other pair kept, a dangling
       backslash kept), trim blanks that are not line feeds at both ends.
  Columns (C04): a cell starts at its first non-blank character, or at the closing `|`
  when it has none.
-/
import GherkinVerif.Model.Line
namespace GV.Spec

inductive CTok
  | pipe
  | esc (c : Nat)      -- backslash followed by `c`
  | chr (c : Nat)      -- any other character
  | dangling           -- a backslash at the very end of the row
deriving DecidableEq, Repr

def tokenize : Str → List CTok
  | [] => []
  | c :: rest =>
    if c == 124 then .pipe :: tokenize rest
    else if c == 92 then
      match rest with
      | [] => [.dangling]
      | d :: rest' => .esc d :: tokenize rest'
    else .chr c :: tokenize rest

/-- number of source code points a token occupies -/
def CTok.width : CTok → Nat
  | .esc _ => 2
  | _ => 1

/-- what a token stands for -/
def CTok.value : CTok → Str
  | .pipe => [124]
  | .esc c => if c == 110 then [10] else if c == 124 || c == 92 then [c] else [92, c]
  | .chr c => [c]
  | .dangling => [92]

def unescape (seg : List CTok) : Str := seg.flatMap CTok.value

/-- segments between pipes with the 0-based source offset at which each starts:
    `cur`/`curStart` is the segment being collected, `off` the offset of the next token. -/
def segments : List CTok → (off : Nat) → (cur : List CTok) → (curStart : Nat) → List (Nat × List CTok)
  | [], _, cur, curStart => [(curStart, cur)]
  | .pipe :: ts, off, cur, curStart => (curStart, cur) :: segments ts (off + 1) [] (off + 1)
  | t :: ts, off, cur, curStart => segments ts (off + t.width) (cur ++ [t]) curStart

/-- the cell segments: everything between consecutive pipes (first and last segment dropped) -/
def cellSegments (row : Str) : List (Nat × List CTok) :=
  ((segments (tokenize row) 0 [] 0).drop 1).dropLast

def trimBlanks (s : Str) : Str := rstripBlank (lstripBlank s)

def leadingBlanks : Str → Nat
  | [] => 0
  | c :: cs => if isBlank c then leadingBlanks cs + 1 else 0

/-- cell texts of a row (the row is the line with surrounding whitespace removed) -/
def cellTexts (row : Str) : List Str :=
  (cellSegments row).map fun seg => trimBlanks (unescape seg.2)

/-- 1-based columns and texts of the cells of a physical line -/
def cells (line : Str) : List (Nat × Str) :=
  (cellSegments (strip (trimmed line))).map fun seg =>
    let u := unescape seg.2
    (lineIndent line + seg.1 + 1 + leadingBlanks u, trimBlanks u)

/-- the escaped spelling of a cell text: LF ↦ `\n`, `|` ↦ `\|`, `\` ↦ `\\` -/
def escapeCell : Str → Str
  | [] => []
  | c :: cs =>
    (if c == 10 then [92, 110] else if c == 124 then [92, 124] else if c == 92 then [92, 92] else [c])
      ++ escapeCell cs

/-- a cell text that the documented reading gives back unchanged: no blanks at its ends -/
def Trimmed (s : Str) : Prop := trimBlanks s = s

/-- a row written from cell texts with blank padding `pads` (left, right) around each -/
def renderRow : List (Str × Str × Str) → Str
  | [] => [124]
  | (l, c, r) :: rest => [124] ++ l ++ escapeCell c ++ r ++ renderRow rest

end GV.Spec
