/-
  Spec/LayoutChecks2.lean — Boolean table facts and the Boolean hypotheses of the remaining
  whole-document layout theorems of property C16 (Props/C16Doc4.lean): inserting a comment line (G3),
  moving a doc string (G2b); and `insertComment`, the operation on outcomes G3 speaks about.
-/
import GherkinVerif.Spec.LayoutChecks
import GherkinVerif.Spec.StackDepth
import GherkinVerif.Spec.LocMap
namespace GV.Spec

/-- productions that may run with `d` open nodes: no `GherkinDocument` is started, and an `end` pops
    a node above the node of the start rule only (at least 3 open nodes, counting the root) -/
def okProds : List Prod → Nat → Bool
  | [], _ => true
  | .start r :: ps, d => r != .GherkinDocument && okProds ps (d + 1)
  | .end_ _ :: ps, d => decide (3 ≤ d) && okProds ps (d - 1)
  | .build :: ps, d => okProds ps d

/-- every branch of the table may run at the depth `ds` assigns to its state -/
def prodsOk (T : Table) (ds : List (Nat × Nat)) : Bool :=
  T.rows.all fun r => r.branches.all fun b => okProds b.prods (depthAt ds r.id)

/-- in state `s` the first test a comment line passes is `Comment`, unguarded, and it only hands the
    line to the builder and comes back to `s` (so: not directly after a keyword line, where a
    comment opens the description) -/
def commentSelfLoop (T : Table) (s : Nat) : Bool :=
  match T.row? s with
  | none => false
  | some row =>
    match commentBranch row with
    | some b => b.kind == .Comment && b.guard.isNone && b.prods == [.build] && b.target == s
    | none => false

/-- state `s` tests `Language` -/
def languageTested (T : Table) (s : Nat) : Bool :=
  match T.row? s with
  | none => false
  | some row => row.branches.any (·.kind == .Language)

/-- every look-ahead skips `Comment`; none expects `Comment` or `Other`; none tests `Language` -/
def lookaheadsCommentOk (T : Table) : Bool :=
  T.lookaheads.all fun la =>
    la.skip.contains .Comment && !la.expected.contains .Comment && !la.expected.contains .Other &&
    !la.expected.contains .Language && !la.skip.contains .Language && !la.skip.contains .Other

/-- the comment `x` put into the document at its source-order position: behind the comments of the
    lines `≤ k`; a rejection carries no comments -/
def insertComment (k : Nat) (x : Comment) : Outcome → Outcome
  | .ok d => .ok { d with comments := d.comments.takeWhile (fun c => decide (c.loc.line ≤ k)) ++
      x :: d.comments.dropWhile (fun c => decide (c.loc.line ≤ k)) }
  | o => o

/-- the hypotheses of `C16_comment_line_document` on the comment line `c` and on the original run:
    `c` is a `#` line; the run has aborted within the first `k` lines, or stands in a state that
    reads a comment as `Comment`, builds it and stays, and does not read `c` as a language header -/
def commentLineOkB (D : List Dialect) (T : Table) (stop : Bool) (μ : MState) (ids : Nat) (src : Str) (k : Nat)
    (c : Str) : Bool :=
  lineStartsWith c [35] &&
  match stateAfter D T stop μ ids src k with
  | some s => commentSelfLoop T s && (!languageTested T s || (languageRe (lineText c none)).isNone)
  | none => true

/-- a token the original run has built may have been on a moved line: built as an indentable kind,
    or as a CLOSING doc-string delimiter (it carries no text; an opening one carries the media type) -/
def indentableTokB (t : Token) : Bool :=
  match t.mtype with
  | some K => indentableB K || (K == .DocStringSeparator && t.text.isNone)
  | none => false

/-- `indentOkB` with the closing delimiters of doc strings allowed to move (goal G2b (i)) -/
def indentOk2B (D : List Dialect) (T : Table) (stop : Bool) (μ : MState) (ids : Nat) (src' src : Str) : Bool :=
  (splitLines src').length == (splitLines src).length &&
  ((splitLines src').zip (splitLines src)).all (fun p =>
    decide (p.2.length ≤ p.1.length) && p.1.drop (p.1.length - p.2.length) == p.2 &&
      (p.1.take (p.1.length - p.2.length)).all isSpace) &&
  (parseWith D T stop μ ids src).2.builds.all fun t =>
    shiftB src' src (t.lineNo - 1) == 0 || indentableTokB t

end GV.Spec
