/-
  Spec/Render3.lean — property C03, round trip, third model: the model of Spec/Render2.lean (steps
  with optional data tables) plus an optional BACKGROUND before the scenarios.

  Canonical layout of the background: `<background kw>: <name>` at column 1 after the feature line,
  its steps (and their tables) as in a scenario.
-/
import GherkinVerif.Spec.Render2
namespace GV.Spec

structure MBackground where
  kw : Str
  name : Str
  steps : List MStep2
deriving Repr, DecidableEq

structure MFeature3 where
  tags : List Str
  kw : Str
  name : Str
  background : Option MBackground
  scenarios : List MScenario2
deriving Repr, DecidableEq

/-- decode a model from plain lists of code-point lists (for test drivers): a step is
    `(keyword, text, table rows)`, a background `(keyword, name, steps)` (at most the first element of
    the list `background` is used: `[]` = none), a scenario `(tags, keyword, name, steps)` -/
def MFeature3.ofLists (tags : List Str) (kw name : Str)
    (background : List (Str × Str × List (Str × Str × List (List Str))))
    (scenarios : List (List Str × Str × Str × List (Str × Str × List (List Str)))) : MFeature3 :=
  { tags := tags, kw := kw, name := name,
    background := background.head?.map fun b => ⟨b.1, b.2.1, b.2.2.map fun p => ⟨p.1, p.2.1, p.2.2⟩⟩,
    scenarios := (MFeature2.ofLists tags kw name scenarios).scenarios }

/-- the same from `String`s -/
def MFeature3.ofStrings (tags : List String) (kw name : String)
    (background : List (String × String × List (String × String × List (List String))))
    (scenarios : List (List String × String × String × List (String × String × List (List String)))) : MFeature3 :=
  MFeature3.ofLists (tags.map lit) (lit kw) (lit name)
    (background.map fun b => (lit b.1, lit b.2.1, b.2.2.map fun p => (lit p.1, lit p.2.1, p.2.2.map fun r => r.map lit)))
    (scenarios.map fun s => (s.1.map lit, lit s.2.1, lit s.2.2.1,
      s.2.2.2.map fun p => (lit p.1, lit p.2.1, p.2.2.map fun r => r.map lit)))

/-- the second model embeds: no background -/
def MFeature2.toModel3 (m : MFeature2) : MFeature3 :=
  { tags := m.tags, kw := m.kw, name := m.name, background := none, scenarios := m.scenarios }

/-! ### the renderer -/

def backgroundLines (b : MBackground) : List Str := titleLineOf b.kw b.name :: b.steps.flatMap stepLines2

def bgLinesOf (b : Option MBackground) : List Str :=
  match b with
  | none => []
  | some b => backgroundLines b

def lineBodies3 (m : MFeature3) : List Str :=
  tagLineOf m.tags ++ titleLineOf m.kw m.name :: (bgLinesOf m.background ++ m.scenarios.flatMap scenarioLines2)

def render3 (m : MFeature3) : Str := (lineBodies3 m).flatMap (· ++ [10])

/-! ### well-formedness -/

def backgroundOK (d : Dialect) (b : MBackground) : Bool :=
  d.background.contains b.kw && cleanText b.name && b.steps.all (stepOK2 d)

def WF3 (d : Dialect) (m : MFeature3) : Bool :=
  m.tags.all tagOK && d.feature.contains m.kw && cleanText m.name &&
  (match m.background with | none => true | some b => backgroundOK d b) &&
  m.scenarios.all (scenarioOK2 d)

/-! ### the expected AST -/

/-- a background whose keyword line is line `line`, counter `i` at its first step: the steps (with
    their table rows) draw their ids first, then the background -/
def expBackground (d : Dialect) (line i : Nat) (b : MBackground) : Background :=
  { id := i + stepsIds b.steps, loc := ⟨line, some 1⟩, keyword := b.kw, name := b.name, description := [], steps := expSteps2 d (line + 1) i b.steps }

def bgLineCount (b : Option MBackground) : Nat :=
  match b with
  | none => 0
  | some b => 1 + stepsLines b.steps

def bgIdCount (b : Option MBackground) : Nat :=
  match b with
  | none => 0
  | some b => stepsIds b.steps + 1

def expBgChild (d : Dialect) (line i : Nat) (b : Option MBackground) : List FeatureChild :=
  match b with
  | none => []
  | some b => [FeatureChild.background (expBackground d line i b)]

def expectedDoc3 (d : Dialect) (lang : Str) (m : MFeature3) (i : Nat) : Doc :=
  { feature := some
      { tags := expTags 1 (i + bgIdCount m.background + idsOfScenarios2 m.scenarios) m.tags,
        loc := ⟨1 + tagLines m.tags, some 1⟩, language := lang, keyword := m.kw, name := m.name,
        description := [],
        children := expBgChild d (2 + tagLines m.tags) i m.background ++
          (expScenarios2 d (2 + tagLines m.tags + bgLineCount m.background) (i + bgIdCount m.background)
            m.scenarios).map FeatureChild.scenario },
    comments := [] }

def idsAfter3 (m : MFeature3) (i : Nat) : Nat :=
  i + bgIdCount m.background + idsOfScenarios2 m.scenarios + m.tags.length

end GV.Spec
