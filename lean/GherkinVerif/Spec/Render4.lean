/-
  Spec/Render4.lean — property C03, round trip, fourth model: the model of Spec/Render3.lean plus
  EXAMPLES blocks on a scenario (after its steps).

  Canonical layout of an examples block: optional tag line `@a @b` at column 1, `<examples kw>: <name>`
  at column 1, table rows `    | a | b |` (the `|` at column 5): first row = header, the others = body.
-/
import GherkinVerif.Spec.Render3
namespace GV.Spec

structure MExamples where
  tags : List Str
  kw : Str
  name : Str
  /-- `[]` = no table; otherwise head = header row, tail = body rows -/
  table : List (List Str)
deriving Repr, DecidableEq

structure MScenario4 where
  tags : List Str
  kw : Str
  name : Str
  steps : List MStep2
  examples : List MExamples
deriving Repr, DecidableEq

structure MFeature4 where
  tags : List Str
  kw : Str
  name : Str
  background : Option MBackground
  scenarios : List MScenario4
deriving Repr, DecidableEq

def MScenario4.core (s : MScenario4) : MScenario2 := ⟨s.tags, s.kw, s.name, s.steps⟩

/-- decode a model from plain lists of code-point lists (for test drivers): a step is
    `(keyword, text, table rows)`, a background `(keyword, name, steps)` (`[]` = none, else the head),
    an examples block `(tags, keyword, name, table rows)`, a scenario
    `(tags, keyword, name, steps, examples blocks)` -/
def MFeature4.ofLists (tags : List Str) (kw name : Str)
    (background : List (Str × Str × List (Str × Str × List (List Str))))
    (scenarios : List (List Str × Str × Str × List (Str × Str × List (List Str)) ×
      List (List Str × Str × Str × List (List Str)))) : MFeature4 :=
  { tags := tags, kw := kw, name := name,
    background := background.head?.map fun b => ⟨b.1, b.2.1, b.2.2.map fun p => ⟨p.1, p.2.1, p.2.2⟩⟩,
    scenarios := scenarios.map fun s =>
      { tags := s.1, kw := s.2.1, name := s.2.2.1, steps := s.2.2.2.1.map fun p => ⟨p.1, p.2.1, p.2.2⟩,
        examples := s.2.2.2.2.map fun e => ⟨e.1, e.2.1, e.2.2.1, e.2.2.2⟩ } }

/-- the same from `String`s -/
def MFeature4.ofStrings (tags : List String) (kw name : String)
    (background : List (String × String × List (String × String × List (List String))))
    (scenarios : List (List String × String × String × List (String × String × List (List String)) ×
      List (List String × String × String × List (List String)))) : MFeature4 :=
  MFeature4.ofLists (tags.map lit) (lit kw) (lit name)
    (background.map fun b => (lit b.1, lit b.2.1, b.2.2.map fun p => (lit p.1, lit p.2.1, p.2.2.map fun r => r.map lit)))
    (scenarios.map fun s => (s.1.map lit, lit s.2.1, lit s.2.2.1,
      s.2.2.2.1.map (fun p => (lit p.1, lit p.2.1, p.2.2.map fun r => r.map lit)),
      s.2.2.2.2.map fun e => (e.1.map lit, lit e.2.1, lit e.2.2.1, e.2.2.2.map fun r => r.map lit)))

/-- the third model embeds: no examples -/
def MFeature3.toModel4 (m : MFeature3) : MFeature4 :=
  { tags := m.tags, kw := m.kw, name := m.name, background := m.background,
    scenarios := m.scenarios.map fun s => ⟨s.tags, s.kw, s.name, s.steps, []⟩ }

/-! ### the renderer -/

def examplesLines (e : MExamples) : List Str :=
  tagLineOf e.tags ++ titleLineOf e.kw e.name :: e.table.map rowLineOf

def scenarioLines4 (s : MScenario4) : List Str := scenarioLines2 s.core ++ s.examples.flatMap examplesLines

def lineBodies4 (m : MFeature4) : List Str :=
  tagLineOf m.tags ++ titleLineOf m.kw m.name :: (bgLinesOf m.background ++ m.scenarios.flatMap scenarioLines4)

def render4 (m : MFeature4) : Str := (lineBodies4 m).flatMap (· ++ [10])

/-! ### well-formedness -/

def examplesOK (d : Dialect) (e : MExamples) : Bool :=
  e.tags.all tagOK && d.examples.contains e.kw && cleanText e.name && tableOK e.table

def scenarioOK4 (d : Dialect) (s : MScenario4) : Bool := scenarioOK2 d s.core && s.examples.all (examplesOK d)

def WF4 (d : Dialect) (m : MFeature4) : Bool :=
  m.tags.all tagOK && d.feature.contains m.kw && cleanText m.name &&
  (match m.background with | none => true | some b => backgroundOK d b) &&
  m.scenarios.all (scenarioOK4 d)

/-! ### the expected AST -/

def exLineCount (e : MExamples) : Nat := tagLines e.tags + 1 + e.table.length
def exIdCount (e : MExamples) : Nat := e.table.length + e.tags.length + 1

/-- an examples block whose first line (tag line if any) is `line`, counter `i`: the rows draw their
    ids first, then the tags, then the block -/
def expExamples (line i : Nat) (e : MExamples) : Examples :=
  { id := i + e.table.length + e.tags.length, tags := expTags line (i + e.table.length) e.tags, loc := ⟨line + tagLines e.tags, some 1⟩, keyword := e.kw, name := e.name, description := [], header := (expRows (line + tagLines e.tags + 1) i e.table).head?, body := (expRows (line + tagLines e.tags + 1) i e.table).drop 1 }

def expExamplesList : Nat → Nat → List MExamples → List Examples
  | _, _, [] => []
  | line, i, e :: es => expExamples line i e :: expExamplesList (line + exLineCount e) (i + exIdCount e) es

def exsLines (es : List MExamples) : Nat := (es.map exLineCount).sum
def exsIds (es : List MExamples) : Nat := (es.map exIdCount).sum

def expScenario4 (d : Dialect) (line i : Nat) (s : MScenario4) : Scenario :=
  { id := i + stepsIds s.steps + exsIds s.examples + s.tags.length, tags := expTags line (i + stepsIds s.steps + exsIds s.examples) s.tags, loc := ⟨line + tagLines s.tags, some 1⟩, keyword := s.kw, name := s.name, description := [], steps := expSteps2 d (line + tagLines s.tags + 1) i s.steps, examples := expExamplesList (line + tagLines s.tags + 1 + stepsLines s.steps) (i + stepsIds s.steps) s.examples }

def scLines4 (s : MScenario4) : Nat := tagLines s.tags + 1 + stepsLines s.steps + exsLines s.examples
def scIds4 (s : MScenario4) : Nat := stepsIds s.steps + exsIds s.examples + s.tags.length + 1

def expScenarios4 (d : Dialect) : Nat → Nat → List MScenario4 → List Scenario
  | _, _, [] => []
  | line, i, s :: ss => expScenario4 d line i s :: expScenarios4 d (line + scLines4 s) (i + scIds4 s) ss

def idsOfScenarios4 (ss : List MScenario4) : Nat := (ss.map scIds4).sum

def expectedDoc4 (d : Dialect) (lang : Str) (m : MFeature4) (i : Nat) : Doc :=
  { feature := some
      { tags := expTags 1 (i + bgIdCount m.background + idsOfScenarios4 m.scenarios) m.tags,
        loc := ⟨1 + tagLines m.tags, some 1⟩, language := lang, keyword := m.kw, name := m.name,
        description := [],
        children := expBgChild d (2 + tagLines m.tags) i m.background ++
          (expScenarios4 d (2 + tagLines m.tags + bgLineCount m.background) (i + bgIdCount m.background)
            m.scenarios).map FeatureChild.scenario },
    comments := [] }

def idsAfter4 (m : MFeature4) (i : Nat) : Nat :=
  i + bgIdCount m.background + idsOfScenarios4 m.scenarios + m.tags.length

end GV.Spec
