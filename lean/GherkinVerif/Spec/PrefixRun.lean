/-
  Spec/PrefixRun.lean — a prefix of the queue-free parse (Spec/PureParse.lean): the main loop for
  exactly `k` physical lines.  Used to say "the parser state in which the run stands after it has
  consumed the first `k` lines" (property C16, blank-line / comment-line insertion).
-/
import GherkinVerif.Spec.PureParse
namespace GV.Spec

/-- the main loop of `parseLinesPure` for `k` lines; returns the state reached and whether the end
    of file has been read on the way (then the loop has ended) -/
def parsePrefixPure (D : List Dialect) (T : Table) (stop : Bool) : Nat → Nat → PM (Nat × Bool)
  | 0, state => pure (state, false)
  | k + 1, state => do
    let ctx ← get
    let n := ctx.lineNo + 1
    let t : Token ← match ctx.lines with
      | l :: ls => do set { ctx with lines := ls, lineNo := n }; pure ({ line := some l, lineNo := n } : Token)
      | [] => do set { ctx with lineNo := n }; pure ({ line := none, lineNo := n } : Token)
    modify fun c => { c with reads := c.reads ++ [t.lineNo] }
    let state' ← matchTokenPure D T stop state t
    if t.eof then pure (state', true) else parsePrefixPure D T stop k state'

/-- the context in which the main loop of `parseWithPure` starts -/
def startCtx (D : List Dialect) (T : Table) (μ : MState) (ids : Nat) (src : Str) : Ctx :=
  { lines := splitLines src, μ := μ.reset D, β := BState.reset.startRule T.startRule, ids := ids }

/-- the context and parser state in which the main loop stands after it has consumed the first `k`
    physical lines of `src`; `none` if the run has aborted before (stop-at-first-error mode, error
    cap, crash) -/
def runAfter (D : List Dialect) (T : Table) (stop : Bool) (μ : MState) (ids : Nat) (src : Str) (k : Nat) :
    Option (Nat × Ctx) :=
  match (parsePrefixPure D T stop k 0).run.run (startCtx D T μ ids src) with
  | (.ok (s, _), c) => some (s, c)
  | (.error _, _) => none

/-- the parser state after the first `k` lines -/
def stateAfter (D : List Dialect) (T : Table) (stop : Bool) (μ : MState) (ids : Nat) (src : Str) (k : Nat) :
    Option Nat := (runAfter D T stop μ ids src k).map (·.1)

/-- the main loop is its prefix for `k` lines followed by the main loop for the rest -/
theorem parseLinesPure_split (D : List Dialect) (T : Table) (stop : Bool) (n : Nat) :
    ∀ (k s : Nat), parseLinesPure D T stop (k + n) s =
      (do let r ← parsePrefixPure D T stop k s
          if r.2 then pure r.1 else parseLinesPure D T stop n r.1) := by
  intro k
  induction k with
  | zero =>
    intro s
    rw [Nat.zero_add]
    simp only [parsePrefixPure, pure_bind, Bool.false_eq_true, if_false]
  | succ k ih =>
    intro s
    rw [Nat.succ_add]
    simp only [parseLinesPure, parsePrefixPure, bind_assoc]
    refine bind_congr fun ctx => ?_
    cases ctx.lines <;> simp only [bind_assoc, pure_bind] <;>
      refine bind_congr fun _ => bind_congr fun _ => bind_congr fun s' => ?_
    · rfl
    · exact ih s'

end GV.Spec
