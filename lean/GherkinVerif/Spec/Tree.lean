/-
  Spec/Tree.lean — derivation trees of gherkin.berp and what it means for the parser's
  start_rule / end_rule / build events to be a derivation of the grammar (property C02, second
  sentence).  Independent of the parser table.
-/
import GherkinVerif.Spec.Grammar
namespace GV.Spec

/-- a derivation tree: leaves are lines (the kind each was *read as*), inner nodes are the
    rules marked `!` in the grammar -/
inductive Tree
  | leaf (k : Kind)
  | node (r : RuleType) (children : List Tree)
deriving Repr

/-- the symbol a tree contributes to its parent's right-hand side -/
def Tree.sym : Tree → Sym
  | .leaf k => .tok k
  | .node r _ => .rule r

/-- rebuild the tree from an event list with a stack of open nodes (children in order).
    `none` if the events are not well bracketed or do not close into exactly one root. -/
def treeOfAux : List Ev → List (RuleType × List Tree) → Option Tree
  | [], _ => none
  | .start r :: es, stack => treeOfAux es ((r, []) :: stack)
  | .build k :: es, (r, cs) :: stack => treeOfAux es ((r, cs ++ [.leaf k]) :: stack)
  | .build _ :: _, [] => none
  | .end_ _ :: es, (r, cs) :: (p, ps) :: stack => treeOfAux es ((p, ps ++ [.node r cs]) :: stack)
  | .end_ _ :: es, [(r, cs)] => if es.isEmpty then some (.node r cs) else none
  | .end_ _ :: _, [] => none

def treeOf (evs : List Ev) : Option Tree := treeOfAux evs []

/-- right-hand side of rule `r` over symbols, with the rules NOT marked `!` (which produce no
    node: StepArg, DescriptionHelper) inlined, to depth `n`. -/
def nodeRhs (G : Grammar) : Nat → RuleType → RE Sym
  | 0, _ => .emp
  | n + 1, r =>
    match G.rule? r with
    | none => .emp
    | some g => expand n g.rhs
where
  expand (n : Nat) : RE Sym → RE Sym
    | .emp => .emp
    | .eps => .eps
    | .sym (.tok k) => .sym (.tok k)
    | .sym (.rule x) =>
      match G.rule? x with
      | some gx => if gx.bang then .sym (.rule x) else nodeRhs G n x
      | none => .emp
    | .cat a b => .cat (expand n a) (expand n b)
    | .alt a b => .alt (expand n a) (expand n b)
    | .star a => .star (expand n a)

/-- `ys` is `xs` with some ignorable leaves (comments, blank lines) deleted -/
inductive DropIgnored (G : Grammar) : List Tree → List Tree → Prop
  | nil : DropIgnored G [] []
  | keep (t : Tree) {xs ys} : DropIgnored G xs ys → DropIgnored G (t :: xs) (t :: ys)
  | drop (k : Kind) {xs ys} : G.ignored.contains k = true → DropIgnored G xs ys → DropIgnored G (.leaf k :: xs) ys

mutual
/-- every node's children — comments and blank lines that the grammar does not consume aside —
    spell a word of the node's rule; the root additionally ends with the `EOF` line -/
inductive ValidNode (G : Grammar) : Tree → Prop
  | leaf (k : Kind) : ValidNode G (.leaf k)
  | node (r : RuleType) (cs kept : List Tree) :
      ValidList G cs → DropIgnored G cs kept →
      RE.Lang (nodeRhs G G.rules.length r) (kept.map Tree.sym) → ValidNode G (.node r cs)
inductive ValidList (G : Grammar) : List Tree → Prop
  | nil : ValidList G []
  | cons {t ts} : ValidNode G t → ValidList G ts → ValidList G (t :: ts)
end

/-- a whole document: the start rule's node whose last child is the end-of-file line -/
def ValidTree (G : Grammar) (start : RuleType) (t : Tree) : Prop :=
  ∃ cs, t = .node start (cs ++ [.leaf .EOF]) ∧ ValidNode G (.node start cs)

/-- the leaves in order (the kinds the lines were read as) -/
def Tree.leaves : Tree → List Kind
  | .leaf k => [k]
  | .node _ cs => leavesList cs
where
  leavesList : List Tree → List Kind
    | [] => []
    | t :: ts => t.leaves ++ leavesList ts

/-- the lines were read consistently with their intrinsic kinds: each read-as kind is in the
    fallback chain of the line's own kind -/
def ReadsAs : List Kind → List Kind → Prop
  | [], [] => True
  | k :: ks, r :: rs => passes k r = true ∧ ReadsAs ks rs
  | _, _ => False

/-- `s` is a subtree of `t` (possibly `t` itself) -/
inductive Tree.Sub : Tree → Tree → Prop
  | refl (t : Tree) : Tree.Sub t t
  | child {s c : Tree} {r : RuleType} {cs : List Tree} : c ∈ cs → Tree.Sub s c → Tree.Sub s (.node r cs)

/-- what a `Tags` node attaches to: its parent rule, and the symbol that must follow it there -/
def tagsAttach : List (RuleType × Sym) :=
  [(.FeatureHeader, .tok .FeatureLine), (.RuleHeader, .tok .RuleLine),
   (.ScenarioDefinition, .rule .Scenario), (.ExamplesDefinition, .rule .Examples)]

/-- a line that was skipped as ignorable or could have been -/
def IgnorableLeaf (G : Grammar) (c : Tree) : Prop := ∃ k, c = .leaf k ∧ G.ignored.contains k = true

/-- tags attach forward: wherever a `Tags` node occurs among the children of a node `r`,
    * everything before it is a line, and only a `# language` header or ignorable lines
      (comments, blank lines) — in particular no other node and no keyword line;
    * after it come ignorable lines at most and then the thing the tags belong to: `r` is
      `FeatureHeader` / `RuleHeader` and that is the `Feature:` / `Rule:` line, or `r` is
      `ScenarioDefinition` / `ExamplesDefinition` and that is the `Scenario` / `Examples` node. -/
def TagsAttachForward (G : Grammar) (t : Tree) : Prop :=
  ∀ r cs, Tree.Sub (.node r cs) t → ∀ pre ts post, cs = pre ++ .node .Tags ts :: post →
    (∀ c ∈ pre, ∃ k, c = .leaf k ∧ (k = .Language ∨ G.ignored.contains k = true)) ∧
    ∃ ign nxt post', post = ign ++ nxt :: post' ∧ (∀ c ∈ ign, IgnorableLeaf G c) ∧
      (r, nxt.sym) ∈ tagsAttach

end GV.Spec
