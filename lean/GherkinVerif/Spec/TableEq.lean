/-
  Spec/TableEq.lean — "the same transitions": two generated state machines have the same states,
  the same ordered tests with the same guards, the same productions and targets, the same
  expected lists and the same error-tail targets.  The *name* written in `end_rule` is not
  compared: the builder pops whatever rule is open, and the TypeScript parser passes no name.
-/
import GherkinVerif.Model.Parser
namespace GV.Spec

def prodEq : Prod → Prod → Bool
  | .start a, .start b => a == b
  | .end_ _, .end_ _ => true
  | .build, .build => true
  | _, _ => false

def all2 {α β} (f : α → β → Bool) : List α → List β → Bool
  | [], [] => true
  | a :: as, b :: bs => f a b && all2 f as bs
  | _, _ => false

def branchEq (a b : Branch) : Bool :=
  a.kind == b.kind && a.guard == b.guard && a.target == b.target && all2 prodEq a.prods b.prods

def rowEq (a b : StateRow) : Bool :=
  a.id == b.id && a.errTarget == b.errTarget && a.expected == b.expected && all2 branchEq a.branches b.branches

def tableEq (A B : Table) : Bool := all2 rowEq A.rows B.rows

/-- first differing (state, branch index) — the replay witness when `tableEq` fails -/
def firstDiff (A B : Table) : Option (Nat × Nat) :=
  let rec go : List StateRow → List StateRow → Option (Nat × Nat)
    | a :: as, b :: bs =>
      if rowEq a b then go as bs
      else
        let rec gb : List Branch → List Branch → Nat → Nat
          | x :: xs, y :: ys, i => if branchEq x y then gb xs ys (i + 1) else i
          | _, _, i => i
        some (a.id, gb a.branches b.branches 0)
    | a :: _, [] => some (a.id, 0)
    | [], b :: _ => some (b.id, 0)
    | [], [] => none
  go A.rows B.rows

end GV.Spec
