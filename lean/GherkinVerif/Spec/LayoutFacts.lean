/-
  Spec/LayoutFacts.lean — Boolean facts used by property C16 (layout is meaning-neutral):
  facts about a transition table (evaluated by `decide +kernel` on the regenerated table in
  Props/C16.lean) and about a dialect table.
-/
import GherkinVerif.Spec.TableFacts
namespace GV.Spec

/-- a step keyword is not empty and does not end in a carriage return or line feed -/
def stepKeywordOk (kw : Str) : Bool :=
  !kw.isEmpty && kw.getLast? != some 13 && kw.getLast? != some 10

/-- every step keyword of every dialect is non-empty and does not end in CR or LF -/
def stepKeywordsOk (D : List Dialect) : Bool := D.all fun d => d.stepKeywords.all stepKeywordOk

/-- a token of kind `Empty` passes the tests `Empty` and `Other` only -/
def emptyTest (b : Branch) : Bool := b.kind == .Empty || b.kind == .Other

/-- in state `s` the first test a blank line passes is `Empty` (not `Other`) -/
def emptyFirst (T : Table) (s : Nat) : Bool :=
  match T.row? s with
  | none => false
  | some row => (row.branches.find? emptyTest).any (·.kind == .Empty)

/-- every state that tests `Empty` at all tests it before `Other` -/
def emptyBeforeOther (T : Table) : Bool :=
  T.rows.all fun r => !r.branches.any (·.kind == .Empty) || emptyFirst T r.id

/-- every look-ahead skips `Empty` and none expects `Empty` or `Other` (so an `Empty` line is
    invisible to every guard) -/
def lookaheadsSkipEmpty (T : Table) : Bool :=
  T.lookaheads.all fun la =>
    la.skip.contains .Empty && !la.expected.contains .Empty && !la.expected.contains .Other

/-- the line kinds C16 calls "keyword, step, tag, table-row or delimiter line" -/
def structural : List Kind :=
  [.FeatureLine, .RuleLine, .BackgroundLine, .ScenarioLine, .ExamplesLine, .StepLine, .TagLine,
   .TableRow, .DocStringSeparator]

/-- productions with an empty `Description` start/end bracket removed -/
def dropDescr : List Prod → List Prod
  | [] => []
  | p :: ps => if p == .start .Description || p == .end_ .Description then dropDescr ps else p :: dropDescr ps

/-- the first branch a token of kind `Comment` passes (`Comment` or `Other`), ignoring guards
    (`commentBefore` requires it to be unguarded) -/
def commentBranch (r : StateRow) : Option Branch :=
  r.branches.find? fun b => passes .Comment b.kind

/-- what matters of a branch: test, guard, target, and productions up to `Description` brackets -/
def branchView (b : Branch) : Kind × Option Nat × Nat × List Prod :=
  (b.kind, b.guard, b.target, dropDescr b.prods)

/-- the part of a row a line of kind `k` can see: the branches whose test it passes, in order -/
def viewOf (k : Kind) (r : StateRow) : List (Kind × Option Nat × Nat × List Prod) :=
  (r.branches.filter fun b => passes k b.kind).map branchView

/-- every look-ahead skips `Comment` and none expects `Comment` or `Other` -/
def lookaheadsSkipComment (T : Table) : Bool :=
  T.lookaheads.all fun la =>
    la.skip.contains .Comment && !la.expected.contains .Comment && !la.expected.contains .Other

/-- a comment line is read as a comment in state `s`: the first test it passes is `Comment` -/
def commentFirst (T : Table) (s : Nat) : Bool :=
  match T.row? s with
  | none => false
  | some row => (commentBranch row).any (·.kind == .Comment)

/-- For every state that reads a comment line *as a comment* (the first test such a line passes
    is `Comment`, not `Other` — this excludes the doc-string content states, where a `#` line is
    content) and every structural kind `k`: the comment branch is unguarded and only builds
    (possibly opening a `Description`), and the state it leads to offers a line of kind `k` the
    same tests (`k` itself and `Other`), in the same order, with the same guards, targets and
    productions up to `Description` start/end. -/
def commentBefore (T : Table) : Bool :=
  T.rows.all fun r =>
    match commentBranch r with
    | none => true
    | some c =>
      c.kind != .Comment ||
      (c.guard == none && dropDescr c.prods == [.build] &&
        match T.row? c.target with
        | none => false
        | some r' => structural.all fun k => viewOf k r == viewOf k r')

end GV.Spec
