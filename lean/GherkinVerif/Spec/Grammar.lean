/-
  Spec/Grammar.lean — what it means for a sequence of line kinds to be a sentence of
  gherkin.berp, independently of the generated parser table.

  The grammar has no recursion, so it is one regular expression over the 14 line kinds
  (`startRE`, followed by `EOF`).  Reading rule (property C02): a line of intrinsic kind `k` is
  read as the first kind in its fallback chain (own kind; `Comment` for a language header;
  `Other` = free text) that the grammar can continue with; failing that it is skipped if it is
  an ignorable kind (comment / blank); failing that the document is rejected.  So comments and
  blank lines may appear wherever free text is not expected, and a line counts as free text only
  where its own kind is not expected.
-/
import GherkinVerif.Model.Abstract
namespace GV.Spec

inductive RE (α : Type)
  | emp
  | eps
  | sym (a : α)
  | cat (r s : RE α)
  | alt (r s : RE α)
  | star (r : RE α)
deriving DecidableEq, Repr

namespace RE
variable {α : Type} [DecidableEq α]

/-- the language of a regular expression -/
inductive Lang : RE α → List α → Prop
  | eps : Lang eps []
  | sym (a : α) : Lang (sym a) [a]
  | cat {r s u v} : Lang r u → Lang s v → Lang (cat r s) (u ++ v)
  | altL {r s w} : Lang r w → Lang (alt r s) w
  | altR {r s w} : Lang s w → Lang (alt r s) w
  | starNil {r} : Lang (star r) []
  | starCons {r u v} : Lang r u → Lang (star r) v → Lang (star r) (u ++ v)

def nullable : RE α → Bool
  | emp => false
  | eps => true
  | sym _ => false
  | cat r s => nullable r && nullable s
  | alt r s => nullable r || nullable s
  | star _ => true

/-- concatenation that drops `∅` and `ε` -/
def mkCat : RE α → RE α → RE α
  | emp, _ => emp
  | _, emp => emp
  | eps, s => s
  | r, eps => r
  | r, s => cat r s

/-- alternation that drops `∅` and syntactic duplicates -/
def mkAlt (r s : RE α) : RE α :=
  if r = emp then s else if s = emp then r else if r = s then r else alt r s

/-- Brzozowski derivative -/
def deriv (a : α) : RE α → RE α
  | emp => emp
  | eps => emp
  | sym b => if a = b then eps else emp
  | cat r s => if nullable r then mkAlt (mkCat (deriv a r) s) (deriv a s) else mkCat (deriv a r) s
  | alt r s => mkAlt (deriv a r) (deriv a s)
  | star r => mkCat (deriv a r) (star r)

end RE

inductive Sym
  | tok (k : Kind)
  | rule (r : RuleType)
deriving DecidableEq, Repr

/-- a look-ahead hint `[#A|#B->#C]` -/
structure Hint where
  skip : List Kind
  expected : Kind
deriving DecidableEq, Repr

structure GRule where
  name : RuleType
  bang : Bool                -- `!`: the rule produces a node (start_rule / end_rule)
  hint : Option Hint
  rhs : RE Sym
deriving Repr

structure Grammar where
  tokens : List Kind
  ignored : List Kind
  rules : List GRule
deriving Repr

def Grammar.rule? (G : Grammar) (r : RuleType) : Option GRule := G.rules.find? (·.name == r)

/-- replace rule references using `f` -/
def substRules (f : RuleType → RE Kind) : RE Sym → RE Kind
  | .emp => .emp
  | .eps => .eps
  | .sym (.tok k) => .sym k
  | .sym (.rule r) => f r
  | .cat a b => .cat (substRules f a) (substRules f b)
  | .alt a b => .alt (substRules f a) (substRules f b)
  | .star a => .star (substRules f a)

/-- the regular expression of rule `r`, inlining references to depth `n`
    (an unknown rule or exhausted depth is `∅`). -/
def ruleRE (G : Grammar) : Nat → RuleType → RE Kind
  | 0, _ => .emp
  | n + 1, r =>
    match G.rule? r with
    | some g => substRules (ruleRE G n) g.rhs
    | none => .emp

/-- whole documents: the start rule, then end of file.  Depth = number of rules suffices for a
    non-recursive grammar (checked as a fact on the regenerated grammar). -/
def startRE (G : Grammar) (start : RuleType) : RE Kind :=
  .cat (ruleRE G G.rules.length start) (.sym .EOF)

/-- reading one line of intrinsic kind `k` against residual `r`:
    the residual after it and the kind it was read as (`none` = skipped). -/
def specStep (G : Grammar) (r : RE Kind) (k : Kind) : Option (RE Kind × Option Kind) :=
  match (chain k).find? (fun K => RE.deriv K r != .emp) with
  | some K => some (RE.deriv K r, some K)
  | none => if G.ignored.any (passes k) then some (r, none) else none

def specRun (G : Grammar) : RE Kind → List Kind → Option (RE Kind)
  | r, [] => some r
  | r, k :: ks =>
    match specStep G r k with
    | none => none
    | some (r', _) => specRun G r' ks

/-- `ks` (kinds of the lines, no `EOF` inside) is a sentence of the grammar -/
def Sentence (G : Grammar) (start : RuleType) (ks : List Kind) : Bool :=
  match specRun G (startRE G start) (ks ++ [.EOF]) with
  | some r => RE.nullable r
  | none => false

end GV.Spec
