/-
  Spec/PureParse.lean — the *pure* level of the parser model (DESIGN §3, level ii): the same
  parse as `Model/Parser.lean` but WITHOUT the token queue.  The main loop takes the next
  physical line directly; a look-ahead is a pure *peek* at the lines that follow (it runs the
  same tests, so it records the same errors and counts the same matcher calls, but it consumes
  nothing and hands no token on).  Property C18 says the queue is an implementation detail:
  `Lemmas/…: parseWith = parseWithPure` on every observable.
-/
import GherkinVerif.Model.Parser
namespace GV.Spec

/-- the loop of `lookahead_N` as a peek over the lines after the current one, then end of file;
    `lineNo` is the number of the line being peeked at. -/
def peekLoop (D : List Dialect) (cap : Nat) (stop : Bool) (la : LookAhead) : List Str → Nat → PM Bool
  | [], n => do
    -- end of file: no expected kind and no skip kind matches an EOF token
    let t : Token := { line := none, lineNo := n }
    let (m, t1) ← matchAny D cap stop la.expected t
    if m then pure true
    else
      let (_, _) ← matchAny D cap stop la.skip t1
      pure false
  | l :: ls, n => do
    let t : Token := { line := some l, lineNo := n }
    let (m, t1) ← matchAny D cap stop la.expected t
    if m then pure true
    else
      let (s, _) ← matchAny D cap stop la.skip t1
      if s then peekLoop D cap stop la ls (n + 1) else pure false

/-- look-ahead without a queue: peek at the unread lines -/
def lookaheadPure (D : List Dialect) (cap : Nat) (stop : Bool) (la : LookAhead) : PM Bool := do
  let ctx ← get
  peekLoop D cap stop la ctx.lines (ctx.lineNo + 1)

def tryBranchesPure (D : List Dialect) (T : Table) (stop : Bool) (row : StateRow) :
    List Branch → Token → PM Nat
  | [], t => do
    let e := unexpectedErr row t
    modify fun c => { c with unexpected := c.unexpected ++ [t.lineNo] }
    if stop then throw (.single e)
    else do addError T.errorCap e; pure row.errTarget
  | b :: bs, t => do
    let (m, t') ← matchP D T.errorCap stop b.kind t
    if m then
      let ok ← match b.guard with
        | none => pure true
        | some i =>
          match T.lookaheads[i]? with
          | some la => lookaheadPure D T.errorCap stop la
          | none => throw (.crash "unknown look-ahead")
      if ok then do
        runProds T.errorCap stop t' b.prods
        pure b.target
      else tryBranchesPure D T stop row bs t'
    else tryBranchesPure D T stop row bs t'

def matchTokenPure (D : List Dialect) (T : Table) (stop : Bool) (state : Nat) (t : Token) : PM Nat :=
  match T.row? state with
  | some row => tryBranchesPure D T stop row row.branches t
  | none => throw (.crash s!"RuntimeError: Unknown state: {state}")

/-- the main loop over the physical lines, then the end-of-file token -/
def parseLinesPure (D : List Dialect) (T : Table) (stop : Bool) : Nat → Nat → PM Nat
  | 0, _ => throw .fuel
  | fuel + 1, state => do
    let ctx ← get
    let n := ctx.lineNo + 1
    let t : Token ← match ctx.lines with
      | l :: ls => do set { ctx with lines := ls, lineNo := n }; pure ({ line := some l, lineNo := n } : Token)
      | [] => do set { ctx with lineNo := n }; pure ({ line := none, lineNo := n } : Token)
    modify fun c => { c with reads := c.reads ++ [t.lineNo] }
    let state' ← matchTokenPure D T stop state t
    if t.eof then pure state' else parseLinesPure D T stop fuel state'

def parseBodyPure (D : List Dialect) (T : Table) (stop : Bool) (nLines : Nat) : PM Doc := do
  modify fun c => { c with β := c.β.startRule T.startRule }
  let _ ← parseLinesPure D T stop (nLines + 2) 0
  runProd T.errorCap stop default (.end_ T.startRule)
  let ctx ← get
  if !ctx.errors.isEmpty then throw (.composite ctx.errors)
  match ctx.β.result with
  | .ok (some d) => pure d
  | .ok none => throw (.crash "get_result returned None")
  | .error (.crash w) => throw (.crash w)
  | .error (.ast e) => throw (.single e)

/-- `Parser.parse` without a queue -/
def parseWithPure (D : List Dialect) (T : Table) (stop : Bool) (μ : MState) (ids : Nat) (src : Str) :
    Outcome × Ctx :=
  let lines := splitLines src
  let ctx0 : Ctx := { lines := lines, μ := μ.reset D, β := BState.reset, ids := ids }
  match (parseBodyPure D T stop lines.length).run.run ctx0 with
  | (.ok d, ctx) => (.ok d, ctx)
  | (.error (.single e), ctx) => (.rejected [e] false, ctx)
  | (.error (.composite es), ctx) => (.rejected es true, ctx)
  | (.error (.crash w), ctx) => (.crash w, ctx)
  | (.error .fuel, ctx) => (.fuel, ctx)

/-- what an observer of a parse can see: outcome, errors, what was built / reported, in which
    order lines were read, the matcher afterwards, the id counter, the number of matcher calls -/
structure Observed where
  outcome : Outcome
  builds : List Token
  unexpected : List Nat
  reads : List Nat
  errors : List PErr
  μ : MState
  ids : Nat
  calls : Nat

def observe (r : Outcome × Ctx) : Observed :=
  ⟨r.1, r.2.builds, r.2.unexpected, r.2.reads, r.2.errors, r.2.μ, r.2.ids, r.2.calls⟩

end GV.Spec
