/-
  KDecide.lean — `kdecide`: exactly what `decide +kernel` does on success (the proof term
  `of_decide_eq_true (Eq.refl true)` is handed to the KERNEL, which evaluates the `Decidable`
  instance; the result is an auxiliary lemma the kernel has checked), but with a cheap failure
  message.  Core's `decide +kernel` builds its failure message by re-evaluating the instance with the
  elaborator's `whnf`; on a proposition that runs the parser model this takes tens of minutes and tens
  of gigabytes — and the properties' facts and examples over the REGENERATED tables do become false when
  the source they are generated from changes.  A check must then fail fast.  No axiom, nothing native:
  the trusted base is the kernel, as for `decide +kernel`.
-/
import Lean
open Lean Elab Tactic Meta

namespace GV.KDecide

/-- close a goal `p` whose `Decidable p` instance the kernel evaluates to `isTrue` -/
elab "kdecide" : tactic => do
  closeMainGoalUsing `kdecide fun expectedType _ => do
    let expectedType ← instantiateMVars expectedType
    if expectedType.hasFVar || expectedType.hasMVar then
      throwError "kdecide: the goal contains free variables or metavariables"
    let pf ← mkDecideProof expectedType
    let levelsInType := (collectLevelParams {} expectedType).params
    let lemmaLevels := (← Term.getLevelNames).reverse.filter levelsInType.contains
    try
      let lemmaName ← withOptions (Elab.async.set · false) do
        mkAuxLemma lemmaLevels expectedType pf
      return mkConst lemmaName (lemmaLevels.map .param)
    catch _ =>
      throwError "kdecide: the kernel did not evaluate the proposition to true (it is false, or its Decidable instance does not reduce)"

end GV.KDecide
