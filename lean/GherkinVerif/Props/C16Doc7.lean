/-
  Props/C16Doc7.lean — property C16, whole-document part, goal G2b (ii):
  A DOC STRING MOVING AS ONE BLOCK.

  "… indenting such lines further (a doc string moving as one block) changes only columns."

  `C16_indent_docstring_block_document`: the set-up of `C16_indent_document` (Props/C16Doc3.lean) —
  `src'` has the physical lines of `src`, line `i` with `w i` whitespace code points put in front;
  both error modes; accepted and rejected documents; any incoming matcher state and id counter —
  with a weaker hypothesis on the original run's ghost list `builds`.  Reading `builds` from the
  left, let the SHIFT OF THE OPEN DOC STRING (`Spec.openShift w pre`) be `w` of the line of the last
  doc-string delimiter in the tokens `pre` built so far if that delimiter OPENED a doc string, and `0`
  otherwise.  Then every built token `t` must satisfy `Spec.blockTokOk w (openShift w pre) t`:
    * a line built as `Other` (doc-string content; description text) is moved by EXACTLY the shift
      of the open doc string — with its doc string, if one is open and was moved; not at all otherwise;
    * a doc-string delimiter line — opening or closing — may be moved by any amount;
    * any other line is not moved, or was built as `FeatureLine` … `TableRow` or `Empty`.
  Conclusion: `(parse src').outcome = mapOutcome (indentMap w) (parse src).outcome` — the doc string
  has the same content, delimiter and media type; its location column (that of the opening
  delimiter) has moved; errors are renamed likewise.

  This subsumes `C16_indent_document` and `C16_indent_closing_delimiter_document`
  (`C16_indent_block_subsumes`).  The closing delimiter need NOT move with the block (it never
  looks at the recorded indentation) — more than the brief asked for.

  NO CONDITION ON THE INSERTED WHITESPACE is needed beyond "whitespace, the same NUMBER of code
  points as in front of the opening delimiter": `get_line_text(n)` compares `n` with the line's own
  indentation and otherwise cuts `n` code points, whatever they are (`Lemmas.lineText_indent`:
  `lineText (ws ++ s) (n + |ws|) = lineText s n`).  So a content line indented less than the
  opening delimiter (it loses only its own indentation, in both runs), a whitespace-only content
  line shorter than the indentation (it becomes empty in both runs), tabs against blanks: all
  covered — see the `example`s.  What IS necessary (kernel-checked counterexamples below): every
  content line moves by the same amount as the opening delimiter.

  Boolean form for a test driver: `Spec.indentBlockOkB` (Spec/LayoutChecks5.lean),
  `C16_indentBlockOk_hyps` (it implies the hypotheses), `C16_indent_docstring_block_document_check`.

  Proof: Lemmas/LayoutDoc7Builder.lean (the builder reads only the text of an `Other` token),
  Lemmas/LayoutDoc7Indent.lean (`matchTok_blk`: one test under matcher states that differ in
  `indentToRemove` by the shift of the open doc string), Lemmas/LayoutDoc7IndentSim.lean (the
  lock-step simulation with that shift as a function of `builds`).
-/
import GherkinVerif.Props.C16Doc4
import GherkinVerif.Lemmas.LayoutDoc7IndentSim
import GherkinVerif.Spec.LayoutChecks5
import GherkinVerif.KDecide
namespace GV
open Lemmas Layout3 Layout4 Layout7

/-- Generic form, for every dialect table and transition table passing the Boolean checks; the
    hypothesis as the scan `Spec.blockScan` of the original run's built tokens. -/
theorem C16_indent_docstring_block_document_generic (D : List Dialect) (T : Table)
    (hQD : Spec.queueDialectFacts D = true) (hQT : Spec.queueFacts T = true)
    (hCB : Spec.commentBlankTested T = true) (hI : indentFacts T = true)
    (w : Nat → Nat) (stop : Bool) (μ : MState) (ids : Nat) (src src' : Str)
    (hlen : (splitLines src').length = (splitLines src).length)
    (hlines : ∀ (i : Nat) (l l' : Str), (splitLines src)[i]? = some l → (splitLines src')[i]? = some l' →
      ∃ ws, l' = ws ++ l ∧ AllSpace ws ∧ ws.length = w i)
    (hμ : (μ.reset D).dialect ∈ D)
    (hbuilt : Spec.blockScan w 0 (parseWith D T stop μ ids src).2.builds = true) :
    (parseWith D T stop μ ids src').1 = Spec.mapOutcome (Spec.indentMap w) (parseWith D T stop μ ids src).1 ∧
    (parseWith D T stop μ ids src').2.errors =
      (parseWith D T stop μ ids src).2.errors.map (Spec.mapErr (Spec.indentMap w)) ∧
    (parseWith D T stop μ ids src').2.ids = (parseWith D T stop μ ids src).2.ids ∧
    (parseWith D T stop μ ids src').2.unexpected = (parseWith D T stop μ ids src).2.unexpected :=
  indent_parseWith7 hQD hQT hCB (tableOkInd_of_facts hI) w stop μ ids
    (linesInd_of_index 0 _ _ hlen.symm fun i l1 l2 h1 h2 => by
      obtain ⟨ws, e, hws, hl⟩ := hlines i l1 l2 h1 h2
      exact ⟨ws, e, hws, by rw [Nat.zero_add]; exact hl⟩) hμ hbuilt

/-- **Indenting changes only columns — a doc string may move as one block.**  If every line of
    `src'` is the line of `src` with `w i` whitespace code points in front, and every token `t` the
    original run has handed to the builder — after the tokens `pre` — is on a line that may be
    moved by the amount it is moved (`Spec.blockTokOk`: doc-string content exactly by the shift
    `Spec.openShift w pre` of its opening delimiter, description text not at all, delimiter lines
    by any amount, other lines only if built as a keyword, step, tag, table-row or blank line),
    then the outcome of `src'` — document, or error list — is the original outcome with the
    columns on line `n` increased by `w (n - 1)`; in particular the doc string has the same
    content, delimiter and media type. -/
theorem C16_indent_docstring_block_document (w : Nat → Nat) (stop : Bool) (μ : MState) (ids : Nat)
    (src src' : Str)
    (hlen : (splitLines src').length = (splitLines src).length)
    (hlines : ∀ (i : Nat) (l l' : Str), (splitLines src)[i]? = some l → (splitLines src')[i]? = some l' →
      ∃ ws, l' = ws ++ l ∧ AllSpace ws ∧ ws.length = w i)
    (hμ : (μ.reset Gen.dialects).dialect ∈ Gen.dialects)
    (hbuilt : ∀ (pre : List Token) (t : Token) (post : List Token),
      (parseWith Gen.dialects Gen.parserTable stop μ ids src).2.builds = pre ++ t :: post →
      Spec.blockTokOk w (Spec.openShift w pre) t = true) :
    (parseWith Gen.dialects Gen.parserTable stop μ ids src').1 =
      Spec.mapOutcome (Spec.indentMap w) (parseWith Gen.dialects Gen.parserTable stop μ ids src).1 :=
  (C16_indent_docstring_block_document_generic _ _ C18_fact_keywords C18_fact_queue C18_fact_comment_blank
    C16_fact_indent w stop μ ids src src' hlen hlines hμ
    (blockScan_of_forall w _ 0 fun pre t post e => hbuilt pre t post e)).1

/-- … and the final contexts: corresponding error lists, same id counter, same reported lines -/
theorem C16_indent_docstring_block_document_context (w : Nat → Nat) (stop : Bool) (μ : MState) (ids : Nat)
    (src src' : Str)
    (hlen : (splitLines src').length = (splitLines src).length)
    (hlines : ∀ (i : Nat) (l l' : Str), (splitLines src)[i]? = some l → (splitLines src')[i]? = some l' →
      ∃ ws, l' = ws ++ l ∧ AllSpace ws ∧ ws.length = w i)
    (hμ : (μ.reset Gen.dialects).dialect ∈ Gen.dialects)
    (hbuilt : ∀ (pre : List Token) (t : Token) (post : List Token),
      (parseWith Gen.dialects Gen.parserTable stop μ ids src).2.builds = pre ++ t :: post →
      Spec.blockTokOk w (Spec.openShift w pre) t = true) :
    (parseWith Gen.dialects Gen.parserTable stop μ ids src').2.errors =
      (parseWith Gen.dialects Gen.parserTable stop μ ids src).2.errors.map (Spec.mapErr (Spec.indentMap w)) ∧
    (parseWith Gen.dialects Gen.parserTable stop μ ids src').2.ids =
      (parseWith Gen.dialects Gen.parserTable stop μ ids src).2.ids ∧
    (parseWith Gen.dialects Gen.parserTable stop μ ids src').2.unexpected =
      (parseWith Gen.dialects Gen.parserTable stop μ ids src).2.unexpected :=
  (C16_indent_docstring_block_document_generic _ _ C18_fact_keywords C18_fact_queue C18_fact_comment_blank
    C16_fact_indent w stop μ ids src src' hlen hlines hμ
    (blockScan_of_forall w _ 0 fun pre t post e => hbuilt pre t post e)).2

/-- the same with the hypothesis as the computable scan -/
theorem C16_indent_docstring_block_document_scan (w : Nat → Nat) (stop : Bool) (μ : MState) (ids : Nat)
    (src src' : Str)
    (hlen : (splitLines src').length = (splitLines src).length)
    (hlines : ∀ (i : Nat) (l l' : Str), (splitLines src)[i]? = some l → (splitLines src')[i]? = some l' →
      ∃ ws, l' = ws ++ l ∧ AllSpace ws ∧ ws.length = w i)
    (hμ : (μ.reset Gen.dialects).dialect ∈ Gen.dialects)
    (hbuilt : Spec.blockScan w 0 (parseWith Gen.dialects Gen.parserTable stop μ ids src).2.builds = true) :
    (parseWith Gen.dialects Gen.parserTable stop μ ids src').1 =
      Spec.mapOutcome (Spec.indentMap w) (parseWith Gen.dialects Gen.parserTable stop μ ids src).1 :=
  (C16_indent_docstring_block_document_generic _ _ C18_fact_keywords C18_fact_queue C18_fact_comment_blank
    C16_fact_indent w stop μ ids src src' hlen hlines hμ hbuilt).1

/-- the scan, token by token: it holds iff every token is acceptable at the shift of the open doc
    string reached after the tokens before it -/
theorem C16_blockScan_iff (w : Nat → Nat) (ts : List Token) :
    Spec.blockScan w 0 ts = true ↔
      ∀ pre t post, ts = pre ++ t :: post → Spec.blockTokOk w (Spec.openShift w pre) t = true := by
  constructor
  · intro h pre t post e
    subst e
    rw [blockScan_append] at h
    simp only [Spec.blockScan, Bool.and_eq_true] at h
    exact h.2.1
  · exact fun h => blockScan_of_forall w ts 0 h

/-! ### one line of the block: a single `match_<K>` call -/

/-- **One test on a line and on the moved line, under matcher states that differ by the shift `d` of
    the open doc string** (`shiftMu d μ`: `indentToRemove` larger by `d`).  For in-flight tokens
    related as in the simulation (`TokInd`: the same token, or tokens of `s` and `ws ++ s`), either
    (`GoodOut7`) the verdicts agree (a raised error renamed), the tokens are related as the builder
    needs (`BuildOK7`: renamed; or two `Other` tokens with the SAME text — a content line moved by
    exactly `d`) and the states differ by the shift AFTER the token (`Spec.nextShift`: an opening
    delimiter sets it to the amount its own line is moved, a closing one to `0`, any other token
    leaves it), or (`BadOut7`) both tests succeeded on a line that may not be moved the way it is
    (`Spec.blockTokOk … = false`: content moved by another amount than `d`, a comment, a language
    header).  The three roles of a block line are the cases `K = DocStringSeparator` (opening,
    closing) and `K = Other`. -/
theorem C16_indent_docstring_block_line (w : Nat → Nat) (D : List Dialect) (K : Kind) (μ : MState) (d : Nat)
    {t1 t2 : Token} (ht : TokInd w t1 t2) :
    GoodOut7 w d K (matchTok D K μ t1).1 (matchTok D K (shiftMu d μ) t2).1 ∨
      BadOut7 w d K (matchTok D K μ t1).1 (matchTok D K (shiftMu d μ) t2).1 :=
  (matchTok_blk w D K μ d ht).2

/-- a content line: NO condition on the inserted whitespace beyond its length — under the shifted
    state the moved line yields the same text, whatever whitespace was inserted and however the
    line's own indentation compares with the recorded one -/
theorem C16_indent_docstring_block_content (D : List Dialect) (μ : MState) (t1 t2 : Token) (s ws : Str)
    (hws : AllSpace ws) :
    (matchLine D .Other (shiftMu ws.length μ) t2 (ws ++ s)).tok.text = (matchLine D .Other μ t1 s).tok.text :=
  other_blk_text D μ t1 t2 s ws hws

/-! ### the Boolean form -/

/-- **The Boolean `Spec.indentBlockOkB` implies the hypotheses of the theorem**, with
    `w := Spec.shiftB src' src` (the shift of each line read off the two texts). -/
theorem C16_indentBlockOk_hyps (D : List Dialect) (T : Table) (stop : Bool) (μ : MState) (ids : Nat) (src src' : Str)
    (h : Spec.indentBlockOkB D T stop μ ids src' src = true) :
    (splitLines src').length = (splitLines src).length ∧
    (∀ (i : Nat) (l l' : Str), (splitLines src)[i]? = some l → (splitLines src')[i]? = some l' →
      ∃ ws, l' = ws ++ l ∧ AllSpace ws ∧ ws.length = Spec.shiftB src' src i) ∧
    Spec.blockScan (Spec.shiftB src' src) 0 (parseWith D T stop μ ids src).2.builds = true ∧
    (∀ (pre : List Token) (t : Token) (post : List Token),
      (parseWith D T stop μ ids src).2.builds = pre ++ t :: post →
      Spec.blockTokOk (Spec.shiftB src' src) (Spec.openShift (Spec.shiftB src' src) pre) t = true) := by
  unfold Spec.indentBlockOkB at h
  simp only [Bool.and_eq_true, beq_iff_eq] at h
  obtain ⟨⟨hlen, hz⟩, hb⟩ := h
  refine ⟨hlen, fun i l l' h1 h2 => ?_, hb, (C16_blockScan_iff _ _).1 hb⟩
  have hz' : ∀ (ls' ls : List Str), (ls'.zip ls).all (fun p =>
        decide (p.2.length ≤ p.1.length) && p.1.drop (p.1.length - p.2.length) == p.2 &&
          (p.1.take (p.1.length - p.2.length)).all isSpace) = true →
      ∀ (i : Nat) (l l' : Str), ls[i]? = some l → ls'[i]? = some l' →
        l.length ≤ l'.length ∧ l'.drop (l'.length - l.length) = l ∧
          (l'.take (l'.length - l.length)).all isSpace = true := by
    intro ls'
    induction ls' with
    | nil => intro ls _ i l l' _ h2; simp at h2
    | cons a as ih =>
      intro ls hall i l l' h1 h2
      cases ls with
      | nil => simp at h1
      | cons b bs =>
        simp only [List.zip_cons_cons, List.all_cons, Bool.and_eq_true, decide_eq_true_eq, beq_iff_eq] at hall
        cases i with
        | zero =>
          simp only [List.getElem?_cons_zero, Option.some.injEq] at h1 h2
          subst h1 h2
          exact ⟨hall.1.1.1, hall.1.1.2, hall.1.2⟩
        | succ i => exact ih bs hall.2 i l l' (by simpa using h1) (by simpa using h2)
  obtain ⟨g1, g2, g3⟩ := hz' _ _ hz i l l' h1 h2
  refine ⟨l'.take (l'.length - l.length), ?_, ?_, ?_⟩
  · conv => lhs; rw [← List.take_append_drop (l'.length - l.length) l']
    rw [g2]
  · intro c hc
    rw [List.all_eq_true] at g3
    exact g3 c hc
  · unfold Spec.shiftB
    rw [h2, h1]
    simp only [List.length_take]
    omega

/-- the Boolean form: `Spec.indentBlockOkB` implies the conclusion with `w := Spec.shiftB src' src` -/
theorem C16_indent_docstring_block_document_check (stop : Bool) (μ : MState) (ids : Nat) (src src' : Str)
    (h : Spec.indentBlockOkB Gen.dialects Gen.parserTable stop μ ids src' src = true)
    (hμ : (μ.reset Gen.dialects).dialect ∈ Gen.dialects) :
    (parseWith Gen.dialects Gen.parserTable stop μ ids src').1 =
      Spec.mapOutcome (Spec.indentMap (Spec.shiftB src' src))
        (parseWith Gen.dialects Gen.parserTable stop μ ids src).1 := by
  obtain ⟨hlen, hlines, -, hbuilt⟩ := C16_indentBlockOk_hyps _ _ stop μ ids src src' h
  exact C16_indent_docstring_block_document _ stop μ ids src src' hlen hlines hμ hbuilt

/-! ### the earlier theorems are instances -/

/-- tokens that pass the check of `C16_indent_closing_delimiter_document` (not moved, or built as an
    indentable kind or as a closing delimiter) pass the scan: no doc string is ever moved -/
theorem C16_blockScan_of_indentable (w : Nat → Nat) : ∀ (ts : List Token),
    (∀ t ∈ ts, w (t.lineNo - 1) = 0 ∨ Spec.indentableTokB t = true) → Spec.blockScan w 0 ts = true
  | [], _ => rfl
  | t :: ts, h => by
    have ht := h t List.mem_cons_self
    have hrest := C16_blockScan_of_indentable w ts fun t' ht' => h t' (List.mem_cons_of_mem _ ht')
    have h1 : Spec.blockTokOk w 0 t = true ∧ Spec.nextShift w 0 t = 0 := by
      unfold Spec.blockTokOk Spec.nextShift
      unfold Spec.indentableTokB at ht
      cases hm : t.mtype with
      | none => rw [hm] at ht; simp_all
      | some K =>
        rw [hm] at ht
        by_cases hK : K = .DocStringSeparator
        · subst hK
          simp only [Spec.indentableB, Bool.false_or, beq_self_eq_true, Bool.true_and,
            Option.isNone_iff_eq_none] at ht
          refine ⟨rfl, ?_⟩
          simp only []
          split
          · rename_i hs
            rcases ht with h0 | h0
            · exact h0
            · rw [h0] at hs; cases hs
          · rfl
        · cases K <;> first | exact absurd rfl hK | simp_all [Spec.indentableB]
    simp only [Spec.blockScan, h1.1, h1.2, hrest, Bool.and_self]

/-- **`Spec.indentOk2B` (hence `Spec.indentOkB`) implies `Spec.indentBlockOkB`**: the new theorem
    covers every pair of texts `C16_indent_document` and `C16_indent_closing_delimiter_document` cover -/
theorem C16_indent_block_subsumes (D : List Dialect) (T : Table) (stop : Bool) (μ : MState) (ids : Nat)
    (src src' : Str) (h : Spec.indentOk2B D T stop μ ids src' src = true) :
    Spec.indentBlockOkB D T stop μ ids src' src = true := by
  unfold Spec.indentOk2B at h
  unfold Spec.indentBlockOkB
  simp only [Bool.and_eq_true] at h ⊢
  refine ⟨h.1, C16_blockScan_of_indentable _ _ fun t ht => ?_⟩
  have := List.all_eq_true.1 h.2 t ht
  simp only [Bool.or_eq_true, beq_iff_eq] at this
  exact this

/-! ### non-vacuity and the counterexamples -/

/-- the doc strings of an accepted document: position, delimiter, media type (`""` if none), content -/
def C16_docStrings : Outcome → List (Loc × List Str)
  | .ok d => (d.feature.map fun x => x.children.flatMap fun c => match c with
      | .scenario s => s.steps.filterMap fun st => match st.arg with
          | .doc ds => some (ds.loc, [ds.delimiter, ds.mediaType.getD [], ds.content]) | _ => none
      | _ => []).getD []
  | _ => []

/-- a doc string with media type, indented by 4; content lines: at the indentation, two deeper, LESS
    indented (2 blanks), whitespace only and SHORTER than the indentation (2 blanks), empty … -/
def C16_blkDoc : Str :=
  lit "Feature: f\nScenario: s\n  Given x\n    \"\"\" xml\n    c1\n      c2\n  c3\n  \n\n    \"\"\"\n  When y\n"

/-- … and the same with the block — opening delimiter and all five content lines — moved right by
    three code points, each line by DIFFERENT whitespace (blanks and tabs), the closing delimiter by
    five, the following step by one -/
def C16_blkDoc' : Str :=
  lit "Feature: f\nScenario: s\n  Given x\n \t     \"\"\" xml\n  \t    c1\n\t\t\t      c2\n     c3\n     \n   \n         \"\"\"\n   When y\n"

/-- the hypothesis holds in both error modes (the checks of the earlier theorems fail); the shifts -/
example : (MState.init Gen.dialects (lit "en")).map (fun μ =>
      (Spec.indentBlockOkB Gen.dialects Gen.parserTable false μ 0 C16_blkDoc' C16_blkDoc,
       Spec.indentBlockOkB Gen.dialects Gen.parserTable true μ 0 C16_blkDoc' C16_blkDoc,
       Spec.indentOk2B Gen.dialects Gen.parserTable false μ 0 C16_blkDoc' C16_blkDoc,
       (List.range 11).map (Spec.shiftB C16_blkDoc' C16_blkDoc))) =
    some (true, true, false, [0, 0, 0, 3, 3, 3, 3, 3, 3, 5, 1]) := by kdecide

/-- … and the conclusion is what it should be: same delimiter, media type and content
    (`"c1\n  c2\nc3\n\n"`: the less indented line lost its own two blanks, the whitespace-only
    line is empty, in both runs); the doc string's column has moved from 5 to 8, the step's from 3 to 4 -/
example : (MState.init Gen.dialects (lit "en")).map (fun μ =>
      [C16_docStrings (parseWith Gen.dialects Gen.parserTable false μ 0 C16_blkDoc).1,
       C16_docStrings (parseWith Gen.dialects Gen.parserTable false μ 0 C16_blkDoc').1]) =
    some [[(⟨4, some 5⟩, [lit "\"\"\"", lit "xml", lit "c1\n  c2\nc3\n\n"])],
          [(⟨4, some 8⟩, [lit "\"\"\"", lit "xml", lit "c1\n  c2\nc3\n\n"])]] := by kdecide

example : (MState.init Gen.dialects (lit "en")).map (fun μ =>
      [C16_someLocs (parseWith Gen.dialects Gen.parserTable false μ 0 C16_blkDoc).1,
       C16_someLocs (parseWith Gen.dialects Gen.parserTable false μ 0 C16_blkDoc').1]) =
    some [[⟨2, some 1⟩, ⟨3, some 3⟩, ⟨4, some 5⟩, ⟨11, some 3⟩],
          [⟨2, some 1⟩, ⟨3, some 3⟩, ⟨4, some 8⟩, ⟨11, some 4⟩]] := by kdecide

/-- rejected documents.  An unclosed doc string (every following line is content) moved as a block:
    the check holds in both modes, the error (unexpected end of file) stays.  A closed one followed
    by an unexpected line, block moved by three, closing delimiter NOT moved, the unexpected line
    moved by three: the error column moves -/
example : (MState.init Gen.dialects (lit "en")).map (fun μ =>
      let r := lit "Feature: f\nScenario: s\n  Given x\n  ```\n  c1\nnonsense\n"
      let r' := lit "Feature: f\nScenario: s\n   Given x\n     ```\n     c1\n   nonsense\n"
      let q := lit "Feature: f\nScenario: s\n  Given x\n  ```\n  c1\n  ```\nnonsense\n"
      let q' := lit "Feature: f\nScenario: s\n   Given x\n     ```\n     c1\n  ```\n   nonsense\n"
      ([Spec.indentBlockOkB Gen.dialects Gen.parserTable false μ 0 r' r,
        Spec.indentBlockOkB Gen.dialects Gen.parserTable true μ 0 r' r,
        Spec.indentBlockOkB Gen.dialects Gen.parserTable false μ 0 q' q,
        Spec.indentBlockOkB Gen.dialects Gen.parserTable true μ 0 q' q],
       [C16_someLocs (parseWith Gen.dialects Gen.parserTable false μ 0 r).1,
        C16_someLocs (parseWith Gen.dialects Gen.parserTable false μ 0 r').1,
        C16_someLocs (parseWith Gen.dialects Gen.parserTable false μ 0 q).1,
        C16_someLocs (parseWith Gen.dialects Gen.parserTable false μ 0 q').1])) =
    some ([true, true, true, true], [[⟨7, none⟩], [⟨7, none⟩], [⟨7, some 1⟩], [⟨7, some 4⟩]]) := by kdecide

/-- COUNTEREXAMPLES (every content line must move with the opening delimiter).  `b`: a doc string
    at indentation 2 whose second content line is two deeper (content `"c1\n  c2"`).  The opening
    delimiter moved by two and that content line (1) by one only, (2) not at all, (3) by three:
    the check fails and the content is different (`" c2"`, `"c2"`, `"   c2"`); (4) the whole block
    by two: the check holds, same content -/
example : (MState.init Gen.dialects (lit "en")).map (fun μ =>
      let b := lit "Feature: f\nScenario: s\n  Given x\n  \"\"\"\n  c1\n    c2\n  \"\"\"\n"
      let b1 := lit "Feature: f\nScenario: s\n  Given x\n    \"\"\"\n    c1\n     c2\n    \"\"\"\n"
      let b2 := lit "Feature: f\nScenario: s\n  Given x\n    \"\"\"\n    c1\n    c2\n    \"\"\"\n"
      let b3 := lit "Feature: f\nScenario: s\n  Given x\n    \"\"\"\n    c1\n       c2\n    \"\"\"\n"
      let b4 := lit "Feature: f\nScenario: s\n  Given x\n    \"\"\"\n    c1\n      c2\n    \"\"\"\n"
      (C16_texts (parseWith Gen.dialects Gen.parserTable false μ 0 b).1,
       [b1, b2, b3, b4].map fun x => (Spec.indentBlockOkB Gen.dialects Gen.parserTable false μ 0 x b,
         C16_texts (parseWith Gen.dialects Gen.parserTable false μ 0 x).1))) =
    some ([[], [[]], [lit "c1\n  c2"]],
          [(false, [[], [[]], [lit "c1\n c2"]]), (false, [[], [[]], [lit "c1\nc2"]]),
           (false, [[], [[]], [lit "c1\n   c2"]]), (true, [[], [[]], [lit "c1\n  c2"]])]) := by kdecide

/-- COUNTEREXAMPLES: the block moved but NOT its opening delimiter (content keeps the blanks);
    description text moved (no doc string is open: it may not move at all) -/
example : (MState.init Gen.dialects (lit "en")).map (fun μ =>
      let b := lit "Feature: f\n d\nScenario: s\n  Given x\n  \"\"\"\n  c1\n  \"\"\"\n"
      let b1 := lit "Feature: f\n d\nScenario: s\n  Given x\n  \"\"\"\n    c1\n    \"\"\"\n"
      let b2 := lit "Feature: f\n   d\nScenario: s\n  Given x\n  \"\"\"\n  c1\n  \"\"\"\n"
      (C16_texts (parseWith Gen.dialects Gen.parserTable false μ 0 b).1,
       [b1, b2].map fun x => (Spec.indentBlockOkB Gen.dialects Gen.parserTable false μ 0 x b,
         C16_texts (parseWith Gen.dialects Gen.parserTable false μ 0 x).1))) =
    some ([[], [lit " d"], [lit "c1"]],
          [(false, [[], [lit " d"], [lit "  c1"]]), (false, [[], [lit "   d"], [lit "c1"]])]) := by kdecide

end GV

