/-
  Props/C14Recover.lean — property C14, "… after it parsing carries on from the same position with
  the next line": the DOCUMENT-level statement.  (Props/C14.lean has the table fact
  `C14_recovery_same_state`: every error tail returns its own state.)

  ## `C14_unexpected_line_skipped`  (collecting mode, `stop = false`)

  `src` has the physical lines `pre ++ post`, `src'` the lines `pre ++ u :: post`.  Hypotheses, all on
  the run on `src'` (`Spec.unexpectedLineOkB` is their Boolean form, `C14_unexpected_line_check`
  the theorem that the Boolean implies the conclusion; `C14_unexpected_line_text` is the text form):

  * after `pre.length` lines the main loop stands in state `s` with context `cr`
    (`Spec.runAfter … src' pre.length = some (s, cr)`, prefix run of the queue-free parse);
  * `Spec.lineUnexpectedAt D T s cr.μ u`: every test of row `s` answers a plain "no" to `u` in the
    matcher state of that moment, and the error tail of `s` returns `s` (always so:
    `C14_recovery_same_state`).  "Plain no" excludes a test that RAISES: `match_TagLine` on a tag
    with whitespace and `match_Language` on an unknown language record their own error first, so
    such a line yields two errors, not one (one-step lemma `Recover.unexpected_line_step`);
  * `Spec.barrierBefore pre`: `pre` is empty or its last line is a *barrier line* — its trimmed
    text is not empty and starts neither with `#` nor with `@`.  This is the "no look-ahead peeks
    at `u`" condition: a guarded `TagLine` test reads ahead over the following tag / comment / blank
    lines up to the first other line, so an unexpected line directly behind such a run is SEEN by
    the look-ahead of an earlier tag line and changes the branch that tag line takes
    (counterexample below: `@t`, blank, `nonsense`, `Scenario:` — the tag line becomes a Rule
    header's, the scenario line is unexpected too).  The condition is sufficient, not exact: it
    also excludes a blank or comment line before `u` when no tag line precedes them (the exact
    condition would be "state `s` is not a tag state `Spec.isTag`", not proved here);
  * the run on `src'` stays within the error cap: its final error list has `≤ errorCap` entries.

  Conclusion (`Recover.CtxObsU` + outcome):

      errors'     = insertErr k j e errors        -- Spec.insertErr: errors renamed by insertMap k
                                                  -- (message prefixes with them), `e` put at index j
      unexpected' = insertLine k ju unexpected
      builds'     = builds.map (renumber k)       -- `u` is never handed to the builder
      μ' = μ,  ids' = ids
      src accepted (.ok d)            →  src' rejected with exactly [e]
      src rejected (.rejected es true) →  src' rejected with insertErr k j e es

  where `k = pre.length`, `e = Spec.skippedError T s k u` = `unexpectedErr row ⟨u, k+1⟩` — kind
  unexpectedToken, location `(k + 1, indent + 1)`, body by `C14_unexpected_form`
  (`C14_skipped_error_form`) — and `j = cr.errors.length`, `ju = cr.unexpected.length` are the
  numbers of errors / reported lines detected before `u` was read.  De-duplication never drops `e`:
  its message starts with its own position `(k+1:…)`, which no renamed error has.

  NOT proved: the form without the cap hypothesis (truncation at the eleventh error); the weaker
  look-ahead condition `isTag T s = false`; stop-at-first-error mode (there the run simply ends
  with `e`; Props/C14Stop.lean).
-/
import GherkinVerif.Props.C14
import GherkinVerif.Props.C16Doc3
import GherkinVerif.Lemmas.RecoverMain
import GherkinVerif.KDecide
namespace GV
open Lemmas Spec Recover

/-- fact about the regenerated table: only `TagLine` tests are guarded by a look-ahead -/
theorem C14_fact_guards_on_tags :
    (Gen.parserTable.rows.all fun r => r.branches.all fun b => b.guard.isNone || b.kind == .TagLine) = true := by
  kdecide

/-- **One-step lemma.**  Collecting mode, a state `s` whose tests all refuse the line `u`: the
    parser state, the builder, the matcher state, the id counter and the scanner are unchanged;
    the line is recorded as unexpected and `add_error` is called with the unexpected-token error. -/
theorem C14_unexpected_line_step (D : List Dialect) (T : Table) (s : Nat) (u : Str) (n : Nat) (c : Ctx)
    (h : Spec.lineUnexpectedAt D T s c.μ u = true) :
    ∃ row j, T.row? s = some row ∧
      run (Spec.matchTokenPure D T false s { line := some u, lineNo := n }) c =
        match run (addError T.errorCap (unexpectedErr row { line := some u, lineNo := n }))
            { c with calls := c.calls + j, unexpected := c.unexpected ++ [n] } with
        | (.ok _, c') => (.ok s, c')
        | (.error e, c') => (.error e, c') :=
  unexpected_line_step T s u n c h

/-- the error recorded for the skipped line: an unexpected-token error at `(k + 1, indent + 1)` whose
    body lists the state's expected kinds and quotes the trimmed line -/
theorem C14_skipped_error_form (T : Table) (s k : Nat) (u : Str) (row : StateRow) (hrow : T.row? s = some row) :
    (Spec.skippedError T s k u).kind = .unexpectedToken ∧
    (Spec.skippedError T s k u).loc = ⟨k + 1, some (lineIndent u + 1)⟩ ∧
    (Spec.skippedError T s k u).body = lit "expected: " ++ joinWith (lit ", ") (row.expected.map lit) ++
      lit ", got '" ++ strip (trimmed u) ++ lit "'" := by
  unfold Spec.skippedError
  rw [hrow]
  exact ⟨rfl, rfl, rfl⟩

/-- Generic form, for every dialect table and transition table passing the Boolean checks. -/
theorem C14_unexpected_line_skipped_generic (D : List Dialect) (T : Table)
    (hQD : Spec.queueDialectFacts D = true) (hQT : Spec.queueFacts T = true)
    (hCB : Spec.commentBlankTested T = true)
    (hG : (T.rows.all fun r => r.branches.all fun b => b.guard.isNone || b.kind == .TagLine) = true)
    (μ : MState) (ids : Nat) (src src' : Str) (pre post : List Str) (u : Str)
    (h1 : splitLines src = pre ++ post) (h2 : splitLines src' = pre ++ u :: post)
    (hμ : (μ.reset D).dialect ∈ D) (hbar : Spec.barrierBefore pre = true) (s : Nat) (cr : Ctx)
    (hrun : Spec.runAfter D T false μ ids src' pre.length = some (s, cr))
    (hun : Spec.lineUnexpectedAt D T s cr.μ u = true)
    (hcap : (parseWith D T false μ ids src').2.errors.length ≤ T.errorCap) :
    CtxObsU pre.length cr.errors.length cr.unexpected.length (Spec.skippedError T s pre.length u)
      (parseWith D T false μ ids src).2 (parseWith D T false μ ids src').2 ∧
    (∀ d, (parseWith D T false μ ids src).1 = .ok d →
      (parseWith D T false μ ids src').1 = .rejected [Spec.skippedError T s pre.length u] true) ∧
    (∀ es, (parseWith D T false μ ids src).1 = .rejected es true →
      (parseWith D T false μ ids src').1 =
        .rejected (Spec.insertErr pre.length cr.errors.length (Spec.skippedError T s pre.length u) es) true) :=
  unexpected_line_parseWith hQD hQT hCB hG μ ids pre post h1 h2 hμ hbar hrun hun hcap

/-- **An unexpected line is skipped: it records one error and nothing else.**  -/
theorem C14_unexpected_line_skipped (μ : MState) (ids : Nat) (src src' : Str) (pre post : List Str) (u : Str)
    (h1 : splitLines src = pre ++ post) (h2 : splitLines src' = pre ++ u :: post)
    (hμ : (μ.reset Gen.dialects).dialect ∈ Gen.dialects) (hbar : Spec.barrierBefore pre = true) (s : Nat) (cr : Ctx)
    (hrun : Spec.runAfter Gen.dialects Gen.parserTable false μ ids src' pre.length = some (s, cr))
    (hun : Spec.lineUnexpectedAt Gen.dialects Gen.parserTable s cr.μ u = true)
    (hcap : (parseWith Gen.dialects Gen.parserTable false μ ids src').2.errors.length ≤ Gen.parserTable.errorCap) :
    CtxObsU pre.length cr.errors.length cr.unexpected.length (Spec.skippedError Gen.parserTable s pre.length u)
      (parseWith Gen.dialects Gen.parserTable false μ ids src).2
      (parseWith Gen.dialects Gen.parserTable false μ ids src').2 ∧
    (∀ d, (parseWith Gen.dialects Gen.parserTable false μ ids src).1 = .ok d →
      (parseWith Gen.dialects Gen.parserTable false μ ids src').1 =
        .rejected [Spec.skippedError Gen.parserTable s pre.length u] true) ∧
    (∀ es, (parseWith Gen.dialects Gen.parserTable false μ ids src).1 = .rejected es true →
      (parseWith Gen.dialects Gen.parserTable false μ ids src').1 =
        .rejected (Spec.insertErr pre.length cr.errors.length
          (Spec.skippedError Gen.parserTable s pre.length u) es) true) :=
  C14_unexpected_line_skipped_generic _ _ C18_fact_keywords C18_fact_queue C18_fact_comment_blank
    C14_fact_guards_on_tags μ ids src src' pre post u h1 h2 hμ hbar s cr hrun hun hcap

/-! ### Boolean form of the hypotheses -/

theorem split_at_index {α} (l : List α) (k : Nat) (a : α) (h : l[k]? = some a) :
    l = l.take k ++ a :: l.drop (k + 1) ∧ (l.take k).length = k := by
  obtain ⟨hlt, rfl⟩ := List.getElem?_eq_some_iff.1 h
  refine ⟨?_, by simp only [List.length_take]; omega⟩
  conv => lhs; rw [← List.take_append_drop k l]
  rw [List.drop_eq_getElem_cons hlt]

/-- the state, the error and the two positions the conclusion speaks about, read off the run on `src'` -/
def C14_skipInfo (μ : MState) (ids : Nat) (src' : Str) (k : Nat) : Nat × Nat × Nat :=
  match Spec.runAfter Gen.dialects Gen.parserTable false μ ids src' k with
  | some (s, c) => (s, c.errors.length, c.unexpected.length)
  | none => (0, 0, 0)

/-- `Spec.unexpectedLineOkB` on `src'` and `k` implies the conclusion for every text `src` that is
    `src'` without its line `k + 1`. -/
theorem C14_unexpected_line_check (μ : MState) (ids : Nat) (src src' : Str) (k : Nat) (u : Str)
    (hu : (splitLines src')[k]? = some u)
    (hsrc : splitLines src = (splitLines src').take k ++ (splitLines src').drop (k + 1))
    (hμ : (μ.reset Gen.dialects).dialect ∈ Gen.dialects)
    (hB : Spec.unexpectedLineOkB Gen.dialects Gen.parserTable μ ids src' k = true) :
    let e := Spec.skippedError Gen.parserTable (C14_skipInfo μ ids src' k).1 k u
    CtxObsU k (C14_skipInfo μ ids src' k).2.1 (C14_skipInfo μ ids src' k).2.2 e
      (parseWith Gen.dialects Gen.parserTable false μ ids src).2
      (parseWith Gen.dialects Gen.parserTable false μ ids src').2 ∧
    (∀ d, (parseWith Gen.dialects Gen.parserTable false μ ids src).1 = .ok d →
      (parseWith Gen.dialects Gen.parserTable false μ ids src').1 = .rejected [e] true) ∧
    (∀ es, (parseWith Gen.dialects Gen.parserTable false μ ids src).1 = .rejected es true →
      (parseWith Gen.dialects Gen.parserTable false μ ids src').1 =
        .rejected (Spec.insertErr k (C14_skipInfo μ ids src' k).2.1 e es) true) := by
  unfold Spec.unexpectedLineOkB at hB
  rw [hu] at hB
  simp only [Bool.and_eq_true, decide_eq_true_eq] at hB
  obtain ⟨⟨hbar, hrunB⟩, hcapP⟩ := hB
  obtain ⟨hsplit, hlen⟩ := split_at_index _ k u hu
  unfold C14_skipInfo
  cases hrun : Spec.runAfter Gen.dialects Gen.parserTable false μ ids src' k with
  | none => rw [hrun] at hrunB; cases hrunB
  | some sc =>
    obtain ⟨s, cr⟩ := sc
    rw [hrun] at hrunB
    simp only at hrunB ⊢
    have hcap : (parseWith Gen.dialects Gen.parserTable false μ ids src').2.errors.length ≤
        Gen.parserTable.errorCap := by
      have := congrArg Spec.Observed.errors (C18_queue_refines_peek false μ ids src' hμ)
      simp only [Spec.observe] at this
      rw [this]; exact hcapP
    have := C14_unexpected_line_skipped μ ids src src' ((splitLines src').take k) ((splitLines src').drop (k + 1)) u
      hsrc hsplit hμ hbar s cr (by rw [hlen]; exact hrun) hrunB hcap
    rw [hlen] at this
    exact this

/-- **The text form**: the line `v ++ "\n"` (`v` without a line feed) inserted at the start of a line,
    i.e. after a prefix `s1` of the text that is empty or ends in a line feed. -/
theorem C14_unexpected_line_text (μ : MState) (ids : Nat) (s1 s2 v : Str)
    (hs1 : s1 = [] ∨ s1.getLast? = some 10) (hlf : 10 ∉ v)
    (hμ : (μ.reset Gen.dialects).dialect ∈ Gen.dialects)
    (hB : Spec.unexpectedLineOkB Gen.dialects Gen.parserTable μ ids (s1 ++ (v ++ [10]) ++ s2) (splitLines s1).length = true) :
    let k := (splitLines s1).length
    let src' := s1 ++ (v ++ [10]) ++ s2
    let e := Spec.skippedError Gen.parserTable (C14_skipInfo μ ids src' k).1 k (v ++ [10])
    CtxObsU k (C14_skipInfo μ ids src' k).2.1 (C14_skipInfo μ ids src' k).2.2 e
      (parseWith Gen.dialects Gen.parserTable false μ ids (s1 ++ s2)).2
      (parseWith Gen.dialects Gen.parserTable false μ ids src').2 ∧
    (∀ d, (parseWith Gen.dialects Gen.parserTable false μ ids (s1 ++ s2)).1 = .ok d →
      (parseWith Gen.dialects Gen.parserTable false μ ids src').1 = .rejected [e] true) ∧
    (∀ es, (parseWith Gen.dialects Gen.parserTable false μ ids (s1 ++ s2)).1 = .rejected es true →
      (parseWith Gen.dialects Gen.parserTable false μ ids src').1 =
        .rejected (Spec.insertErr k (C14_skipInfo μ ids src' k).2.1 e es) true) := by
  have hsp' : splitLines (s1 ++ (v ++ [10]) ++ s2) = splitLines s1 ++ (v ++ [10]) :: splitLines s2 := by
    rw [List.append_assoc, splitLines_append_of_lf s1 _ hs1,
      splitLines_append_of_lf (v ++ [10]) s2 (.inr (by simp)), splitLines_one_line v hlf]
    rfl
  have hu : (splitLines (s1 ++ (v ++ [10]) ++ s2))[(splitLines s1).length]? = some (v ++ [10]) := by
    rw [hsp']; simp
  refine C14_unexpected_line_check μ ids (s1 ++ s2) (s1 ++ (v ++ [10]) ++ s2) (splitLines s1).length (v ++ [10])
    hu ?_ hμ hB
  rw [splitLines_append_of_lf s1 s2 hs1, hsp']
  simp

/-! ### non-vacuity and the counterexample -/

def C14_locs : Outcome → List Loc
  | .rejected es _ => es.map (·.loc)
  | _ => []

def C14_isOk : Outcome → Bool
  | .ok _ => true
  | _ => false

/-- an accepted document … -/
def C14_good : Str := lit "Feature: f\nScenario: s\n  Given x\n  When y\n  | a |\n"
/-- … with a second `Feature:` line (indented by one blank) after line 3, in the state after a step -/
def C14_good1 : Str := lit "Feature: f\nScenario: s\n  Given x\n Feature: g\n  When y\n  | a |\n"
/-- the hypotheses hold (`Feature: g` after line 3), the original is accepted, the new text is rejected
    with exactly one error, at (4, 2) -/
example : (MState.init Gen.dialects (lit "en")).map (fun μ =>
      (Spec.unexpectedLineOkB Gen.dialects Gen.parserTable μ 0 C14_good1 3,
       C14_isOk (parseWith Gen.dialects Gen.parserTable false μ 0 C14_good).1,
       C14_locs (parseWith Gen.dialects Gen.parserTable false μ 0 C14_good1).1,
       C14_skipInfo μ 0 C14_good1 3)) =
    some (true, true, [⟨4, some 2⟩], (12, 0, 0)) := by kdecide

/-- a rejected document: a ragged table and an unexpected line … -/
def C14_bad : Str := lit "Feature: f\nScenario: s\n  Given x\n  | a | b |\n  | c |\nnonsense\n  When y\n"
/-- … with `Feature: g` inserted after line 3 -/
def C14_bad1 : Str := lit "Feature: f\nScenario: s\n  Given x\nFeature: g\n  | a | b |\n  | c |\nnonsense\n  When y\n"
/-- the hypotheses hold; the old errors (unexpected line 6, ragged table at line 5) move down by one
    line behind the new one, which comes first in detection order (`j = 0`) -/
example : (MState.init Gen.dialects (lit "en")).map (fun μ =>
      (Spec.unexpectedLineOkB Gen.dialects Gen.parserTable μ 0 C14_bad1 3,
       C14_locs (parseWith Gen.dialects Gen.parserTable false μ 0 C14_bad).1,
       C14_locs (parseWith Gen.dialects Gen.parserTable false μ 0 C14_bad1).1)) =
    some (true, [⟨6, some 1⟩, ⟨5, some 3⟩], [⟨4, some 1⟩, ⟨7, some 1⟩, ⟨6, some 3⟩]) := by kdecide

/-- COUNTEREXAMPLE (a look-ahead condition is needed): `nonsense` behind a tag line and a blank
    line.  The check fails (`pre` ends in a blank line); the original is accepted; in the new text
    the look-ahead of the tag line sees `nonsense`, the tag line becomes that of a Rule header, and
    `nonsense`, the scenario line AND the end of file are unexpected: three errors, not one. -/
example : (MState.init Gen.dialects (lit "en")).map (fun μ =>
      let a := lit "Feature: f\n@t\n\nScenario: s\n"
      let a' := lit "Feature: f\n@t\n\nnonsense\nScenario: s\n"
      (Spec.unexpectedLineOkB Gen.dialects Gen.parserTable μ 0 a' 3,
       Spec.barrierBefore ((splitLines a').take 3),
       C14_isOk (parseWith Gen.dialects Gen.parserTable false μ 0 a).1,
       C14_locs (parseWith Gen.dialects Gen.parserTable false μ 0 a').1)) =
    some (false, false, true, [⟨4, some 1⟩, ⟨5, some 1⟩, ⟨6, none⟩]) := by kdecide

/-- a test that raises is not a plain "no": a tag with whitespace inserted behind a step yields its
    own error AND the unexpected-token error (two errors at line 4); the check fails -/
example : (MState.init Gen.dialects (lit "en")).map (fun μ =>
      let a' := lit "Feature: f\nScenario: s\n  Given x\n@a b\n  When y\n"
      (Spec.unexpectedLineOkB Gen.dialects Gen.parserTable μ 0 a' 3,
       (parseWith Gen.dialects Gen.parserTable false μ 0 a').1 matches .rejected [_, _] true,
       C14_locs (parseWith Gen.dialects Gen.parserTable false μ 0 a').1)) =
    some (false, true, [⟨4, some 1⟩, ⟨4, some 1⟩]) := by kdecide

end GV
