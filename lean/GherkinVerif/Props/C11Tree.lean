/-
  Props/C11Tree.lean — property C11, whole-document composition on the AST side: all ids of the
  AST of an accepted document are consecutive from the incoming counter, in the canonical order.
  Property theorems only; proofs are in Lemmas/AstIds.lean (the id order) and Lemmas/AstShape.lean
  (the grammar shape); the notions of the statements are in Spec/AstOf.lean:

  * `Spec.canonicalIds d`: the ids of document `d` in the order named by the property — a data
    table: its rows; a step: its table rows, then the step; a background: its steps, then the
    background; an examples block: header and body rows, then its tags, then the block; a
    scenario: steps, then examples blocks, then tags, then the scenario; a rule: (background,)
    scenarios, then tags, then the rule; a feature: (background,) scenarios, rules, then the
    feature's tags (a feature has no id).
  * `Spec.GrammarShaped t` (`Spec.nodeShape`): a decidable predicate on token trees saying, for
    the children of a node of each rule type: which child nodes and which element-carrying lines
    (tag line, keyword lines, table row, doc string separator) it may have; which occur at most
    once (`Tags`, `Background`, `Scenario`, `Examples`, `ExamplesTable`, `DataTable`,
    `DocString`, `Feature`, the headers, each keyword line); which come before which (header,
    then `Background`, then `ScenarioDefinition`s, then `Rule`s; `Tags` before the keyword line /
    the `Scenario` / `Examples` node; keyword line before steps and tables; `Step`s before
    `ExamplesDefinition`s; not both a data table and a doc string); and that a feature / rule has
    its header node holding its keyword line.  `C11_shaped_of_valid`: all of it follows from
    the grammar.  (The id order uses the node part; `C03_leaves_once_in_order` also the lines.)
  * `t.kinds`: the tree over line kinds of Spec/Tree.lean (`C02_events_valid_tree` produces a
    `Spec.ValidTree` of exactly this type for every accepted document).
-/
import GherkinVerif.Lemmas.AstShape
import GherkinVerif.Props.C03Tree
import GherkinVerif.KDecide
namespace GV
open Spec

/-- Canonical ids.  For a grammar-shaped tree `t`: if `astOf` started at counter `n` returns the
    document `d` and counter `n'` (with whatever comment list), then the ids of `d` read in the
    canonical order are exactly `n, n+1, …, n'-1`: children before their parent; table rows, then
    steps, then examples, then tags, then the owning node — without gaps, and every id drawn
    ends up in the AST. -/
theorem C11_ast_ids_canonical (t : TTree) (hs : GrammarShaped t) (cs : List Comment) (n n' : Nat) (d : Doc)
    (h : (astOf cs t).run.run n = (.ok (.doc d), n')) :
    canonicalIds d = List.range' n (n' - n) ∧ n ≤ n' :=
  Lemmas.ast_ids_canonical t hs cs n n' d h

/-- Hence all AST ids of the document are pairwise distinct. -/
theorem C11_ast_ids_nodup (t : TTree) (hs : GrammarShaped t) (cs : List Comment) (n n' : Nat) (d : Doc)
    (h : (astOf cs t).run.run n = (.ok (.doc d), n')) : (canonicalIds d).Nodup :=
  (Lemmas.ast_ids_canonical t hs cs n n' d h).1 ▸ List.nodup_range'

/-- The same for every subtree: the ids inside the value of any grammar-shaped node tree (steps,
    scenarios, rules, … and the raw intermediate nodes; `Lemmas.valIds` extends `canonicalIds` to
    all values of the builder) are consecutive from the counter the node was started at. -/
theorem C11_subtree_ids (r : RuleType) (ch : List TTree) (hs : GrammarShaped (.node r ch))
    (cs : List Comment) (n n' : Nat) (v : Val) (h : (astOf cs (.node r ch)).run.run n = (.ok v, n')) :
    Lemmas.valIds v = List.range' n (n' - n) ∧ n ≤ n' :=
  Lemmas.valIds_astOf _ hs cs n n' v ⟨r, ch, rfl⟩ h

/-- Grammar shape is not an extra assumption for accepted documents: every token tree whose
    projection to line kinds is a valid derivation tree of gherkin.berp is grammar-shaped.
    (`Lemmas.shapeCheck` is a Boolean check of the grammar's right-hand sides, evaluated by the
    kernel on the regenerated `Gen.grammar`; `Lemmas.shaped_of_validTree` lifts it to all valid
    trees of any grammar that passes it.) -/
theorem C11_shaped_of_valid (t : TTree) (hv : ValidTree Gen.grammar .GherkinDocument t.kinds) :
    GrammarShaped t :=
  Lemmas.shaped_of_valid_gen t hv

/-- Accepted documents, builder side end to end.  If the token tree of a document projects to a
    valid derivation tree of the grammar and `astOf` — given all comments of the tree — succeeds
    from counter `n` with value `v` and counter `n'`, then the AST builder run on the tree's call
    sequence from a fresh state ends without error at counter `n'`, `v` is a document `d`,
    `get_result()` is `d`, its comments are the tree's comment lines in order, and its ids in
    canonical order are `n, …, n'-1`. -/
theorem C11_accepted_ast (t : TTree) (hv : ValidTree Gen.grammar .GherkinDocument t.kinds) (n n' : Nat)
    (v : Val) (h : (astOf (commentsOf t) t).run.run n = (.ok v, n')) :
    ∃ β d, applyOps (opsOf t) BState.reset n = (.ok (), β, n') ∧ v = .doc d ∧
      β.result = .ok (some d) ∧ d.comments = commentsOf t ∧
      canonicalIds d = List.range' n (n' - n) :=
  Lemmas.accepted_ast t hv n n' v h

/-! ### non-vacuity -/
section examples
open Lemmas.Ex

/-- the example tree of Props/C03Tree.lean is grammar-shaped, and from counter 5 its ids are
    5,…,14: data-table rows 5 6, step 7, examples rows 8 9, examples block 10, the scenario's
    three tags 11 12 13, the scenario 14 -/
example : GrammarShaped docTree := by kdecide
example : (docOf ((astOf [] docTree).run.run 5)).map canonicalIds = some [5, 6, 7, 8, 9, 10, 11, 12, 13, 14] := by
  kdecide
example : (docOf ((astOf [] docTree).run.run 5)).map (fun d => d.feature.map fun f => f.children.map fun c =>
    match c with
    | .scenario s => [s.steps.map (·.id), s.examples.map (·.id), s.tags.map (·.id), [s.id]]
    | _ => []) = some (some [[[7], [10], [11, 12, 13], [14]]]) := by
  kdecide

/-- its kind projection is the tree the parser's events rebuild into, so `C11_accepted_ast`
    applies to it (`C02_events_valid_tree`) -/
example : (eventsAbs Gen.parserTable [.FeatureLine, .Comment, .TagLine, .TagLine, .ScenarioLine, .StepLine,
    .TableRow, .Comment, .TableRow, .ExamplesLine, .TableRow, .TableRow]).bind Spec.treeOf = some docTree.kinds := by
  rfl

/-- Why the shape is needed: with an examples block BEFORE a step inside one scenario (not
    derivable from the grammar) the ids are still all there, but not in canonical order. -/
example :
    let bad : TTree := .node .GherkinDocument [.node .Feature [.node .FeatureHeader [.leaf featTok],
      .node .ScenarioDefinition [.node .Scenario [.leaf scTok,
        .node .ExamplesDefinition [.node .Examples [.leaf exTok]], .node .Step [.leaf stepTok]]]]]
    GrammarShaped bad = False ∧
    (docOf ((astOf [] bad).run.run 0)).map canonicalIds = some [1, 0, 2] := by
  kdecide

end examples
end GV
