/-
  Props/C11Builder.lean — property C11, builder side: the ids the AST builder draws are
  consecutive from the incoming counter, in the canonical local order.  Property theorems only;
  helper lemmas live in Lemmas/Builder.lean.  (The compiler side is Props/C11.lean.)

  STATUS: node-level theorems; whole-document composition not yet proved.  Proved here, for ALL
  item lists, tokens and counters: what one `nextId`, one `getTableRows`, one `getTags` and one
  `transformNode` call do to the counter and which ids end up where; and that `end_rule` never
  decreases the counter, also when it fails.  Not proved here: `C11_ast_ids_canonical` (the
  post-order traversal of the whole AST is `n₀, n₀+1, …`), which needs the fold over derivation
  trees (DESIGN.md §C11), and the stream-level statements.

  Vocabulary (top of Lemmas/Builder.lean): `Spec.numberRows toks n` / `Spec.numberTags toks n` =
  the rows / tags of the given tokens numbered from `n` in source order; `Spec.tagTokens` = the
  tag-line tokens of a node; `Spec.tagCount` = the number of tags on them; `Spec.drawnIds rt v` =
  the ids a call on a node of rule type `rt` drew, read off its result `v` in the canonical local
  order (rows in order; tags, then the node itself; a feature has no id of its own).
-/
import GherkinVerif.Lemmas.Builder
namespace GV
open Spec

/-- `get_next_id` returns the counter and increments it by one. -/
theorem C11_nextId (n : Nat) : nextId.run.run n = (.ok n, n + 1) := rfl

/-- Table rows: `k` row tokens from counter `n` give rows with ids `n, …, n+k-1` in order, and
    the counter ends at `n + k` whatever the outcome — the ids stay consumed when the
    ragged-table error is raised (the only possible error, located at one of the rows). -/
theorem C11_rows_ids (items : List (Key × Val)) (n : Nat) :
    ((getTableRows items).run.run n).2 = n + (getTokens items .TableRow).length ∧
    (∀ rows, ((getTableRows items).run.run n).1 = .ok rows →
      rows = numberRows (getTokens items .TableRow) n) ∧
    (∀ e, ((getTableRows items).run.run n).1 = .error e →
      ∃ r ∈ numberRows (getTokens items .TableRow) n,
        e = .ast ⟨.raggedTable, r.loc, lit "inconsistent cell count within the table"⟩) ∧
    (numberRows (getTokens items .TableRow) n).map (·.id) = List.range' n (getTokens items .TableRow).length :=
  ⟨(Lemmas.tableRows_outcome items n).1, (Lemmas.tableRows_outcome items n).2.1,
   (Lemmas.tableRows_outcome items n).2.2, Lemmas.numberRows_ids _ n⟩

/-- The ragged case spelled out: error at the first deviating row, counter past all rows. -/
theorem C11_rows_ids_ragged (items : List (Key × Val)) (n : Nat) (r : Row)
    (h : raggedRow (numberRows (getTokens items .TableRow) n) = some r) :
    (getTableRows items).run.run n =
      (.error (.ast ⟨.raggedTable, r.loc, lit "inconsistent cell count within the table"⟩),
       n + (getTokens items .TableRow).length) :=
  Lemmas.tableRows_ragged items n r h

/-- Tags: all tags of all tag lines, in order, get consecutive ids from `n`; the counter advances
    by their number (= the sum of the lines' item counts). -/
theorem C11_tags_ids (items : List (Key × Val)) (toks : List Token) (n : Nat)
    (h : tagTokens items = some toks) :
    (getTags items).run.run n = (.ok (numberTags toks n), n + tagCount toks) ∧
    (numberTags toks n).map (·.id) = List.range' n (tagCount toks) ∧
    (numberTags toks n).length = tagCount toks ∧
    tagCount toks = (toks.map (·.items.length)).sum :=
  ⟨Lemmas.run_getTags_some items toks n h, Lemmas.numberTags_ids toks n,
   Lemmas.numberTags_length toks n, Lemmas.tagCount_eq_sum toks⟩

/-- A node without a `Tags` item has no tags and draws nothing; a `Tags` item that is not a node
    (never built) crashes without drawing. -/
theorem C11_tags_ids_none (items : List (Key × Val)) (n : Nat) :
    (getItems items (.rule .Tags) = [] → (getTags items).run.run n = (.ok [], n)) ∧
    (tagTokens items = none →
      (getTags items).run.run n = (.error (.crash "get_tags: Tags is not a node"), n)) := by
  refine ⟨fun h => ?_, Lemmas.run_getTags_none items n⟩
  have : tagTokens items = some [] := by simp [tagTokens, Lemmas.getSingle_of_nil items _ h]
  exact Lemmas.run_getTags_some items [] n this

/-- One `transformNode` call, any rule type: on success (with a result other than `None`) the ids
    it drew — rows in order for the two table types; tag ids, then the node's own id, for
    scenario / examples / rule; tag ids for a feature; the node's own id for step and background;
    none otherwise — are exactly `n, n+1, …, n'-1`, and `n' = n +` their number. -/
theorem C11_node_ids (cs : List Comment) (node : Node) (n n' : Nat) (v : Val) (hv : v ≠ .none)
    (h : (transformNode cs node).run.run n = (.ok v, n')) :
    drawnIds node.rt v = List.range' n (n' - n) ∧ n ≤ n' ∧ n' = n + (drawnIds node.rt v).length :=
  ⟨(Lemmas.node_ids cs node n n' v hv h).1, (Lemmas.node_ids cs node n n' v hv h).2,
   Lemmas.node_ids_count cs node n n' v hv h⟩

/-- Why `None` is excluded above: a rule header that has tags but no keyword line makes
    `transform_node` return `None` after the tag ids were drawn.  (The grammar never produces
    such a header: `RuleHeader := Tags? #RuleLine …`.) -/
theorem C11_node_ids_none_case (cs : List Comment) (items header : List (Key × Val)) (n : Nat)
    (toks : List Token) (rt : RuleType)
    (hh : getSingle items (.rule .RuleHeader) = .raw rt header)
    (htags : tagTokens header = some toks)
    (hl : getSingle header (.tok .RuleLine) = .none) :
    (transformNode cs ⟨.Rule, items⟩).run.run n = (.ok .none, n + tagCount toks) :=
  Lemmas.rule_none_after_tags cs items header n toks rt hh htags hl

/-- Description, DocString and GherkinDocument never draw an id, whatever the outcome. -/
theorem C11_node_ids_no_draw (cs : List Comment) (node : Node) (n : Nat)
    (h : node.rt = .Description ∨ node.rt = .DocString ∨ node.rt = .GherkinDocument) :
    ((transformNode cs node).run.run n).2 = n :=
  Lemmas.transformNode_noDraw cs node n h

/-- `transformNode` and `end_rule` never decrease the counter — also on the error path. -/
theorem C11_counter_monotone (β : BState) (cs : List Comment) (node : Node) (n : Nat) :
    n ≤ (β.endRule n).2.2 ∧ n ≤ ((transformNode cs node).run.run n).2 :=
  ⟨Lemmas.endRule_mono β n, Lemmas.mono_transformNode cs node n⟩

/-- … and a failing `end_rule` hands on exactly the counter `transformNode` left. -/
theorem C11_counter_on_error (β : BState) (node : Node) (rest : List Node) (n n' : Nat) (e : BErr)
    (hs : β.stack = node :: rest)
    (h : (transformNode β.comments node).run.run n = (.error e, n')) :
    β.endRule n = (.error e, { stack := rest, comments := β.comments }, n') :=
  Lemmas.endRule_error β node rest n n' e hs h

/-! ### non-vacuity: concrete small nodes -/
section examples
open Lemmas.Ex

/-- three tags on two lines from counter 7: ids 7, 8, 9, counter 10 -/
example : ((getTags [(.rule .Tags, tagsVal)]).run.run 7).2 = 10 ∧
    (numberTags [tagTok1, tagTok2] 7).map (·.id) = [7, 8, 9] ∧
    (numberTags [tagTok1, tagTok2] 7).map (·.name) = [lit "@a", lit "@b", lit "@c"] := by decide

/-- a ragged table from counter 7: all four ids consumed, error at the short row (line 11) -/
example : (getTableRows [(.tok .TableRow, .tok rowTok1), (.tok .TableRow, .tok rowTok2),
      (.tok .TableRow, .tok rowTokShort), (.tok .TableRow, .tok rowTok2)]).run.run 7 =
    (.error (.ast ⟨.raggedTable, ⟨11, some 1⟩, lit "inconsistent cell count within the table"⟩), 11) := rfl

/-- a scenario with three tags from counter 7: tags 7, 8, 9, then the scenario 10; counter 11 -/
example : ∃ s, (transformNode [] ⟨.ScenarioDefinition, [(.rule .Tags, tagsVal),
      (.rule .Scenario, .raw .Scenario [(.tok .ScenarioLine, .tok scTok)])]⟩).run.run 7 = (.ok (.scenario s), 11) ∧
    drawnIds .ScenarioDefinition (.scenario s) = [7, 8, 9, 10] :=
  ⟨_, rfl, by decide⟩

/-- the hypotheses of `C11_node_ids` are satisfiable -/
example : drawnIds .DataTable (.dataTable { loc := ⟨9, some 1⟩, rows := numberRows [rowTok1, rowTok2] 7 })
    = List.range' 7 (9 - 7) :=
  (C11_node_ids [] ⟨.DataTable, [(.tok .TableRow, .tok rowTok1), (.tok .TableRow, .tok rowTok2)]⟩ 7 9 _
    (fun h => by cases h) rfl).1

/-- the excluded case exists: tags drawn, `None` returned -/
example : (transformNode [] ⟨.Rule, [(.rule .RuleHeader, .raw .RuleHeader [(.rule .Tags, tagsVal)])]⟩).run.run 7 =
    (.ok .none, 10) := rfl

/-- a failing step still consumed its id -/
example : ((transformNode [] ⟨.Step, [(.tok .StepLine, .tok badStepTok)]⟩).run.run 7).2 = 8 := by decide

end examples

end GV
