/-
  Props/C16Doc.lean — property C16, whole-document part: CRLF line endings and a final line break
  change nothing in the outcome of the parse — not the AST, not the error list.

  Props/C16.lean has the per-line theorems (`C16_crlf_line`, `C16_final_newline_line`, …) and the
  shape of the physical lines (`C16_crlf_lines`, `C16_final_newline_lines`).  Here they are lifted
  to `parseWith`, the model of `Parser.parse` itself (with its look-ahead queue), by a lock-step
  simulation of the two runs (Lemmas/LayoutDoc.lean): the two contexts stay equal except for the
  physical lines — unread, queued, or carried by tokens stored in the builder — and the builder
  never reads a token's physical line (Lemmas/LayoutBuilder.lean).  Property theorems only.

  What was found with `#eval` and then proved:

    * CRLF: NO hypothesis on the text is needed.  `toCRLF src` and `src` have the same outcome for
      every `src` — also when `src` has carriage returns of its own (lone, or already before a
      line feed): the matcher strips every trailing CR/LF from the text it keeps.  The hypothesis
      "the LF document contains no carriage return" of the property's quantifier is therefore only
      a description of the pairs compared (`C16_crlf_document_no_cr` is the instance).
    * Blank lines: the error for an unexpected line reports the line's own indentation as the
      column when no matcher set one, and for a whitespace-only line that counts the trailing
      CR/LF (`C16_crlf_unexpected` excludes such lines).  No such error exists: every state of the
      regenerated table has an unguarded `Empty` or `Other` test (`C16_fact_blank_taken`), so a
      whitespace-only line is always consumed.
    * Final line break: for a non-empty text not ending in LF the outcomes coincide, accepted or
      REJECTED, error lists included: the text has the same number of physical lines with and
      without the final LF, so an unexpected end of file is reported at line `n + 1` in both.
    * In all cases the final error list, matcher state, id counter, number of matcher calls,
      lines read and lines reported unexpected are equal too, and the tokens handed to the builder
      agree in everything but the physical line they carry.
-/
import GherkinVerif.Props.C16
import GherkinVerif.Lemmas.LayoutDoc
import GherkinVerif.KDecide
namespace GV
open Lemmas

/-- fact about the regenerated table: every state has an unguarded `Empty` or `Other` test, so a
    whitespace-only line never reaches the error tail of `match_token` -/
theorem C16_fact_blank_taken : Spec.blankTaken Gen.parserTable = true := by kdecide

/-- what the two runs' final contexts have in common: error list, matcher state, id counter,
    number of matcher calls, lines read, lines reported unexpected, scanner position — equal;
    tokens handed to the builder — equal up to the physical line they carry -/
def C16_SameContext (a b : Ctx) : Prop :=
  a.errors = b.errors ∧ a.μ = b.μ ∧ a.ids = b.ids ∧ a.calls = b.calls ∧ a.reads = b.reads ∧
  a.unexpected = b.unexpected ∧ a.lineNo = b.lineNo ∧ All2 TokSame a.builds b.builds

theorem C16_sameContext_of_rel {D : List Dialect} {a b : Ctx} (h : CtxRel D a b) : C16_SameContext a b :=
  ⟨h.errors, h.μ, h.ids, h.calls, h.reads, h.unexpected, h.lineNo, h.builds⟩

/-! ## any two texts with the same lines up to line endings -/

/-- Generic form: two texts whose physical lines agree pairwise up to their tails of carriage
    returns and line feeds (`LineRel`: LF against CRLF, LF against nothing, CR CR LF against LF, …)
    have the same outcome — the same document or the same rejection with the same errors (kind,
    location, message), in either error mode — and the same final context; for every table with an
    unguarded blank-line test in each state and every dialect table whose step keywords do not end
    in CR/LF. -/
theorem C16_line_endings_document_generic (D : List Dialect) (T : Table)
    (hD : Spec.stepKeywordsOk D = true) (hT : Spec.blankTaken T = true)
    (stop : Bool) (μ : MState) (ids : Nat) (a b : Str)
    (hl : All2 LineRel (splitLines a) (splitLines b)) (hμ : (μ.reset D).dialect ∈ D) :
    (parseWith D T stop μ ids a).1 = (parseWith D T stop μ ids b).1 ∧
    C16_SameContext (parseWith D T stop μ ids a).2 (parseWith D T stop μ ids b).2 :=
  ⟨(parseWith_sim hD hT stop μ ids hl hμ).1, C16_sameContext_of_rel (parseWith_sim hD hT stop μ ids hl hμ).2⟩

/-- … for the generated parser and the dialect table -/
theorem C16_line_endings_document (stop : Bool) (μ : MState) (ids : Nat) (a b : Str)
    (hl : All2 LineRel (splitLines a) (splitLines b)) (hμ : (μ.reset Gen.dialects).dialect ∈ Gen.dialects) :
    (parseWith Gen.dialects Gen.parserTable stop μ ids a).1 =
      (parseWith Gen.dialects Gen.parserTable stop μ ids b).1 ∧
    C16_SameContext (parseWith Gen.dialects Gen.parserTable stop μ ids a).2
      (parseWith Gen.dialects Gen.parserTable stop μ ids b).2 :=
  C16_line_endings_document_generic _ _ C16_step_keywords_ok C16_fact_blank_taken stop μ ids a b hl hμ

/-! ## CRLF line endings -/

/-- **Writing a document with CRLF instead of LF line endings changes nothing**: the outcome of
    the parse — the document, or the exact error list with kinds, locations and messages, composite
    or single — is identical, for every text, both error modes, every matcher state and id counter
    the parse is started with.  No hypothesis on `src`. -/
theorem C16_crlf_document (stop : Bool) (μ : MState) (ids : Nat) (src : Str)
    (hμ : (μ.reset Gen.dialects).dialect ∈ Gen.dialects) :
    (parseWith Gen.dialects Gen.parserTable stop μ ids (toCRLF src)).1 =
    (parseWith Gen.dialects Gen.parserTable stop μ ids src).1 :=
  (C16_line_endings_document stop μ ids _ _ (lines_toCRLF src) hμ).1

/-- the instance the property's quantifier describes: the LF document has no carriage return -/
theorem C16_crlf_document_no_cr (stop : Bool) (μ : MState) (ids : Nat) (src : Str)
    (_h13 : 13 ∉ src) (hμ : (μ.reset Gen.dialects).dialect ∈ Gen.dialects) :
    (parseWith Gen.dialects Gen.parserTable stop μ ids (toCRLF src)).1 =
    (parseWith Gen.dialects Gen.parserTable stop μ ids src).1 :=
  C16_crlf_document stop μ ids src hμ

/-- … and the runs end with the same error list, matcher state (dialect, language name, doc-string
    state), id counter, number of matcher calls, lines read and lines reported unexpected; the
    tokens handed to the builder differ in their physical line only. -/
theorem C16_crlf_document_context (stop : Bool) (μ : MState) (ids : Nat) (src : Str)
    (hμ : (μ.reset Gen.dialects).dialect ∈ Gen.dialects) :
    C16_SameContext (parseWith Gen.dialects Gen.parserTable stop μ ids (toCRLF src)).2
      (parseWith Gen.dialects Gen.parserTable stop μ ids src).2 :=
  (C16_line_endings_document stop μ ids _ _ (lines_toCRLF src) hμ).2

/-- (`toCRLF` puts a CR before every LF; a text whose CRs occur only in CRLF pairs and whose LFs
    all follow a CR is `toCRLF` of itself without the CRs — the physical lines correspond.) -/
theorem C16_crlf_document_lines (src : Str) : All2 LineRel (splitLines (toCRLF src)) (splitLines src) :=
  lines_toCRLF src

/-! ## final line break -/

/-- **Presence or absence of a final line break does not change the outcome**: for a non-empty
    text that does not end in a line feed, parsing it with one appended gives the same outcome —
    `.ok d` with the same `d`, or the same rejection: same errors at the same locations (an
    unexpected end of file is at line `n + 1` either way). -/
theorem C16_final_newline_document (stop : Bool) (μ : MState) (ids : Nat) (src : Str)
    (hne : src ≠ []) (hlast : src.getLast? ≠ some 10)
    (hμ : (μ.reset Gen.dialects).dialect ∈ Gen.dialects) :
    (parseWith Gen.dialects Gen.parserTable stop μ ids (src ++ [10])).1 =
    (parseWith Gen.dialects Gen.parserTable stop μ ids src).1 :=
  (C16_line_endings_document stop μ ids _ _ (lines_append_lf hne hlast) hμ).1

/-- … in particular the AST of an accepted document -/
theorem C16_final_newline_ast (stop : Bool) (μ : MState) (ids : Nat) (src : Str) (d : Doc)
    (hne : src ≠ []) (hlast : src.getLast? ≠ some 10)
    (hμ : (μ.reset Gen.dialects).dialect ∈ Gen.dialects) :
    (parseWith Gen.dialects Gen.parserTable stop μ ids (src ++ [10])).1 = .ok d ↔
    (parseWith Gen.dialects Gen.parserTable stop μ ids src).1 = .ok d := by
  rw [C16_final_newline_document stop μ ids src hne hlast hμ]

/-- … and the same final context. -/
theorem C16_final_newline_document_context (stop : Bool) (μ : MState) (ids : Nat) (src : Str)
    (hne : src ≠ []) (hlast : src.getLast? ≠ some 10)
    (hμ : (μ.reset Gen.dialects).dialect ∈ Gen.dialects) :
    C16_SameContext (parseWith Gen.dialects Gen.parserTable stop μ ids (src ++ [10])).2
      (parseWith Gen.dialects Gen.parserTable stop μ ids src).2 :=
  (C16_line_endings_document stop μ ids _ _ (lines_append_lf hne hlast) hμ).2

/-- both at once: CRLF endings on a text without a final line break against the LF text with one -/
theorem C16_crlf_and_final_newline_document (stop : Bool) (μ : MState) (ids : Nat) (src : Str)
    (hne : src ≠ []) (hlast : src.getLast? ≠ some 10)
    (hμ : (μ.reset Gen.dialects).dialect ∈ Gen.dialects) :
    (parseWith Gen.dialects Gen.parserTable stop μ ids (toCRLF src)).1 =
    (parseWith Gen.dialects Gen.parserTable stop μ ids (src ++ [10])).1 :=
  (C16_crlf_document stop μ ids src hμ).trans (C16_final_newline_document stop μ ids src hne hlast hμ).symm

/-- every state a parse can start from is covered: `TokenMatcher(name)` has a dialect of the table
    and `reset()` keeps one -/
theorem C16_document_start (name : Str) (μ : MState) (h : MState.init Gen.dialects name = some μ) :
    (μ.reset Gen.dialects).dialect ∈ Gen.dialects :=
  (sane_reset (sane_init h).2).2

/-! ## non-vacuity -/

/-- an accepted CRLF document (blank CRLF line, indented lines, a table row): the text really has
    CR LF pairs, is accepted with the feature name "f" (not "f\r"), 3 ids drawn, 20 matcher calls -/
example : (MState.init Gen.dialects (lit "en")).map (fun μ =>
      let src := lit "Feature: f\n\n  Scenario: s\n    Given x\n      | a |\n"
      let r := parseWith Gen.dialects Gen.parserTable false μ 0 (toCRLF src)
      (toCRLF src == lit "Feature: f\r\n\r\n  Scenario: s\r\n    Given x\r\n      | a |\r\n",
       (match r.1 with | .ok d => some (d.feature.map Feature.name) | _ => none), r.2.ids, r.2.calls)) =
    some (true, some (some (lit "f")), 3, 20) := by kdecide

/-- a rejected CRLF document (a tag with whitespace, a whitespace-only CRLF line, an unexpected
    line): three errors with their locations, composite; in stop mode the first one alone -/
example : (MState.init Gen.dialects (lit "en")).map (fun μ =>
      let src := toCRLF (lit "Feature: f\nScenario: s\nGiven x\n@a b\n   \nfoo\n")
      let r := parseWith Gen.dialects Gen.parserTable false μ 0 src
      let r' := parseWith Gen.dialects Gen.parserTable true μ 0 src
      ((match r.1 with | .rejected es c => (es.map (fun (e : PErr) => (e.kind, e.loc)), c) | _ => ([], false)),
       (match r'.1 with | .rejected es c => (es.map (fun (e : PErr) => (e.kind, e.loc)), c) | _ => ([], true)))) =
    some (([(.tagWhitespace, ⟨4, some 1⟩), (.unexpectedToken, ⟨4, some 1⟩), (.unexpectedToken, ⟨6, some 1⟩)], true),
          ([(.tagWhitespace, ⟨4, some 1⟩)], false)) := by kdecide

/-- the hypotheses of `C16_final_newline_document` hold of a text without a final line break, which
    is accepted (2 ids, 16 matcher calls) -/
example : (lit "Feature: f\n  Scenario: s\n    Given x") ≠ [] ∧
    (lit "Feature: f\n  Scenario: s\n    Given x").getLast? ≠ some 10 ∧
    (MState.init Gen.dialects (lit "en")).map (fun μ =>
      let r := parseWith Gen.dialects Gen.parserTable false μ 0 (lit "Feature: f\n  Scenario: s\n    Given x")
      ((match r.1 with | .ok d => some (d.feature.map Feature.name) | _ => none), r.2.ids, r.2.calls)) =
    some (some (some (lit "f")), 2, 16) := by kdecide

end GV
