/-
  Props/C05.lean — property C05: every keyword of every dialect is recognised in its role;
  foreign ones are not.  Property theorems only; helper lemmas live in Lemmas/Keywords.lean, the
  Boolean table facts in Spec/DialectFacts.lean.  Facts about the regenerated dialect table
  `Gen.dialects` are evaluated here by `decide +kernel` (so they are re-checked whenever
  gherkin-languages.json changes) and lifted to all indentations / titles by the generic lemmas.

  Conventions: a line is a list of code points; `ws` is any run of whitespace code points
  (`isSpace`, the 29 code points of `str.isspace`), `58` is `:`, `[42, 32]` is `"* "`.
  `Spec.noWsStart k` says `k` is empty or starts with a non-whitespace code point.
-/
import GherkinVerif.Lemmas.Keywords
import GherkinVerif.Spec.TableFacts
import GherkinVerif.Gen.Dialects
import GherkinVerif.Gen.DialectsMaster
import GherkinVerif.Gen.ParserTable
import GherkinVerif.KDecide
namespace GV
open Spec

/-- Facts about the shipped dialect table, checked by the kernel on the regenerated table: no
    keyword is empty; none starts with whitespace, `#`, `@`, `|`, `"""` or three backticks; no
    title keyword contains `:`; dialect names are distinct; the only step keyword listed more than
    once in a dialect is `"* "`, and `"* "` is never listed exactly once; no step keyword clashes
    with a title keyword + `:`; no title keyword + `:` of one line kind prefixes one of another. -/
theorem C05_dialect_facts : Spec.keywordFacts Gen.dialects = true := by kdecide

/-- Generic title-line lemma: in a keyword list none of whose members contains `:`, the line
    `ws ++ k ++ ":" ++ rest` (any whitespace indentation `ws`, any `rest`, possibly ending in
    CR/LF) is matched for every listed `k` that does not start with whitespace; the keyword
    reported is exactly `k` — whatever the order of the list and whatever other keywords are
    prefixes of `k` — and the text is `rest` with surrounding whitespace removed. -/
theorem C05_title (μ : MState) (t : Token) (ty : Kind) (kws : List Str) (ws k rest : Str)
    (hk : k ∈ kws) (hcf : ∀ k' ∈ kws, 58 ∉ k') (hws : ∀ c ∈ ws, isSpace c = true)
    (hns : noWsStart k = true) :
    matchTitle μ t (ws ++ k ++ [58] ++ rest) ty kws =
      some (setMatched μ t ty (text := some (strip rest)) (keyword := some k)) :=
  Lemmas.matchTitle_keyword μ t ty kws ws k rest hk hcf hws hns

/-- The fields of that token when the token is the line itself: kind, keyword exactly `k`, text
    the trimmed remainder (the later `rstrip("\r\n")` changes nothing), column `|ws| + 1`, the
    dialect in force; line and line number untouched. -/
theorem C05_title_token (μ : MState) (t : Token) (ty : Kind) (ws k rest : Str)
    (hws : ∀ c ∈ ws, isSpace c = true) (hns : noWsStart k = true)
    (hl : t.line = some (ws ++ k ++ [58] ++ rest)) :
    let t' := setMatched μ t ty (text := some (strip rest)) (keyword := some k)
    t'.mtype = some ty ∧ t'.keyword = some k ∧ t'.text = some (strip rest) ∧
    t'.col = some (ws.length + 1) ∧ t'.dialect = μ.name ∧ t'.line = t.line ∧ t'.lineNo = t.lineNo :=
  Lemmas.title_token_fields μ t ty ws k rest hws hns hl

/-- Every dialect of the shipped table, every title line kind, every keyword listed for that
    kind (`Dialect.roleKeywords`: feature / rule / background / scenario then scenario outline /
    examples), every indentation, every title: `match_<Kind>` succeeds with that keyword and the
    trimmed title, and leaves the matcher state alone. -/
theorem C05_title_role (D : List Dialect) (ty : Kind) (hty : ty.isTitle = true) (μ : MState)
    (hμ : μ.dialect ∈ Gen.dialects) (t : Token) (ws k rest : Str)
    (hk : k ∈ μ.dialect.roleKeywords ty) (hws : ∀ c ∈ ws, isSpace c = true) :
    matchLine D ty μ t (ws ++ k ++ [58] ++ rest) =
      ⟨setMatched μ t ty (text := some (strip rest)) (keyword := some k), μ, .matched⟩ :=
  Lemmas.title_in_table D Gen.dialects C05_dialect_facts ty hty μ hμ t ws k rest hk hws

/-- … spelled out for the six roles: feature keywords, -/
theorem C05_title_feature (D : List Dialect) (μ : MState) (hμ : μ.dialect ∈ Gen.dialects) (t : Token)
    (ws k rest : Str) (hk : k ∈ μ.dialect.feature) (hws : ∀ c ∈ ws, isSpace c = true) :
    matchLine D .FeatureLine μ t (ws ++ k ++ [58] ++ rest) =
      ⟨setMatched μ t .FeatureLine (text := some (strip rest)) (keyword := some k), μ, .matched⟩ :=
  C05_title_role D .FeatureLine rfl μ hμ t ws k rest hk hws

/-- rule keywords, -/
theorem C05_title_rule (D : List Dialect) (μ : MState) (hμ : μ.dialect ∈ Gen.dialects) (t : Token)
    (ws k rest : Str) (hk : k ∈ μ.dialect.rule) (hws : ∀ c ∈ ws, isSpace c = true) :
    matchLine D .RuleLine μ t (ws ++ k ++ [58] ++ rest) =
      ⟨setMatched μ t .RuleLine (text := some (strip rest)) (keyword := some k), μ, .matched⟩ :=
  C05_title_role D .RuleLine rfl μ hμ t ws k rest hk hws

/-- background keywords, -/
theorem C05_title_background (D : List Dialect) (μ : MState) (hμ : μ.dialect ∈ Gen.dialects) (t : Token)
    (ws k rest : Str) (hk : k ∈ μ.dialect.background) (hws : ∀ c ∈ ws, isSpace c = true) :
    matchLine D .BackgroundLine μ t (ws ++ k ++ [58] ++ rest) =
      ⟨setMatched μ t .BackgroundLine (text := some (strip rest)) (keyword := some k), μ, .matched⟩ :=
  C05_title_role D .BackgroundLine rfl μ hμ t ws k rest hk hws

/-- scenario keywords, -/
theorem C05_title_scenario (D : List Dialect) (μ : MState) (hμ : μ.dialect ∈ Gen.dialects) (t : Token)
    (ws k rest : Str) (hk : k ∈ μ.dialect.scenario) (hws : ∀ c ∈ ws, isSpace c = true) :
    matchLine D .ScenarioLine μ t (ws ++ k ++ [58] ++ rest) =
      ⟨setMatched μ t .ScenarioLine (text := some (strip rest)) (keyword := some k), μ, .matched⟩ :=
  C05_title_role D .ScenarioLine rfl μ hμ t ws k rest (List.mem_append_left _ hk) hws

/-- scenario-outline keywords (tried after the scenario keywords; still reported verbatim), -/
theorem C05_title_scenarioOutline (D : List Dialect) (μ : MState) (hμ : μ.dialect ∈ Gen.dialects)
    (t : Token) (ws k rest : Str) (hk : k ∈ μ.dialect.scenarioOutline) (hws : ∀ c ∈ ws, isSpace c = true) :
    matchLine D .ScenarioLine μ t (ws ++ k ++ [58] ++ rest) =
      ⟨setMatched μ t .ScenarioLine (text := some (strip rest)) (keyword := some k), μ, .matched⟩ :=
  C05_title_role D .ScenarioLine rfl μ hμ t ws k rest (List.mem_append_right _ hk) hws

/-- examples keywords. -/
theorem C05_title_examples (D : List Dialect) (μ : MState) (hμ : μ.dialect ∈ Gen.dialects) (t : Token)
    (ws k rest : Str) (hk : k ∈ μ.dialect.examples) (hws : ∀ c ∈ ws, isSpace c = true) :
    matchLine D .ExamplesLine μ t (ws ++ k ++ [58] ++ rest) =
      ⟨setMatched μ t .ExamplesLine (text := some (strip rest)) (keyword := some k), μ, .matched⟩ :=
  C05_title_role D .ExamplesLine rfl μ hμ t ws k rest hk hws

/-- Steps, for every dialect and line: either the step keywords `given ++ when ++ then ++ and ++
    but` split as `pre ++ kw :: post` where `kw` prefixes the trimmed line and no keyword of
    `pre` does — then `match_StepLine` succeeds, reports `kw` (the FIRST listed prefixing keyword),
    the trimmed rest as text and `kw`'s keyword type — or no step keyword prefixes the trimmed
    line and `match_StepLine` fails.  (So `match_StepLine` matches iff some step keyword prefixes
    the trimmed line; a keyword shadowed by an earlier prefix of it is never reported.) -/
theorem C05_step_first_prefix (D : List Dialect) (μ : MState) (t : Token) (l : Str) :
    (∃ pre kw post, μ.dialect.stepKeywords = pre ++ kw :: post ∧ startsWith kw (trimmed l) = true ∧
      (∀ k' ∈ pre, startsWith k' (trimmed l) = false) ∧
      matchLine D .StepLine μ t l =
        ⟨setMatched μ t .StepLine (text := some (strip ((trimmed l).drop kw.length))) (keyword := some kw)
          (ktype := some (stepKType μ.dialect kw)), μ, .matched⟩) ∨
    ((∀ k ∈ μ.dialect.stepKeywords, startsWith k (trimmed l) = false) ∧
      matchLine D .StepLine μ t l = ⟨t, μ, .no⟩) :=
  Lemmas.matchLine_step_cases D μ t l

/-- The same read forwards: whenever `kw` is the first listed step keyword prefixing the trimmed
    line, that is the outcome. -/
theorem C05_step_first_prefix_intro (D : List Dialect) (μ : MState) (t : Token) (l : Str)
    (pre post : List Str) (kw : Str) (hsplit : μ.dialect.stepKeywords = pre ++ kw :: post)
    (hkw : startsWith kw (trimmed l) = true) (hpre : ∀ k' ∈ pre, startsWith k' (trimmed l) = false) :
    matchLine D .StepLine μ t l =
      ⟨setMatched μ t .StepLine (text := some (strip ((trimmed l).drop kw.length))) (keyword := some kw)
        (ktype := some (stepKType μ.dialect kw)), μ, .matched⟩ :=
  Lemmas.matchLine_step_first D μ t l pre post kw hsplit hkw hpre

/-- A step line written out, `ws ++ kw ++ rest` with `kw` a non-empty listed keyword not starting
    with whitespace and no earlier listed keyword prefixing `kw ++ rest`: keyword `kw`, text
    `strip rest`. -/
theorem C05_step_line (D : List Dialect) (μ : MState) (t : Token) (ws kw rest : Str)
    (pre post : List Str) (hsplit : μ.dialect.stepKeywords = pre ++ kw :: post)
    (hws : ∀ c ∈ ws, isSpace c = true) (hns : noWsStart kw = true) (hne : kw ≠ [])
    (hpre : ∀ k' ∈ pre, startsWith k' (kw ++ rest) = false) :
    matchLine D .StepLine μ t (ws ++ kw ++ rest) =
      ⟨setMatched μ t .StepLine (text := some (strip rest)) (keyword := some kw)
        (ktype := some (stepKType μ.dialect kw)), μ, .matched⟩ :=
  Lemmas.matchLine_step_line D μ t ws kw rest pre post hsplit hws hns hne hpre

/-- … and the fields of that token: kind, keyword, text, keyword type, column `|ws| + 1`. -/
theorem C05_step_token (μ : MState) (t : Token) (ws kw rest : Str) (kt : KType)
    (hws : ∀ c ∈ ws, isSpace c = true) (hns : noWsStart kw = true) (hne : kw ≠ [])
    (hl : t.line = some (ws ++ kw ++ rest)) :
    let t' := setMatched μ t .StepLine (text := some (strip rest)) (keyword := some kw) (ktype := some kt)
    t'.mtype = some .StepLine ∧ t'.keyword = some kw ∧ t'.text = some (strip rest) ∧
    t'.ktype = some kt ∧ t'.col = some (ws.length + 1) :=
  Lemmas.step_token_fields μ t ws kw rest kt hws hns hne hl

/-- Keyword type, any dialect: a keyword listed exactly once across the five step lists has the
    type of the list it is in — Context / Action / Outcome / Conjunction for given / when / then /
    and or but. -/
theorem C05_keyword_type (d : Dialect) (kw : Str) (h : stepCount d kw = 1) :
    (kw ∈ d.given → stepKType d kw = .Context) ∧ (kw ∈ d.when_ → stepKType d kw = .Action) ∧
    (kw ∈ d.then_ → stepKType d kw = .Outcome) ∧
    (kw ∈ d.and_ ∨ kw ∈ d.but_ → stepKType d kw = .Conjunction) :=
  Lemmas.stepKType_once d kw h

/-- … and `Unknown` when it is listed more than once (or not at all). -/
theorem C05_keyword_type_unknown (d : Dialect) (kw : Str) (h : stepCount d kw ≠ 1) :
    stepKType d kw = .Unknown :=
  Lemmas.stepKType_not_once d kw h

/-- In every dialect of the shipped table the only step keyword listed more than once is `"* "`:
    every other listed step keyword has its category's type, and `"* "` is `Unknown` everywhere. -/
theorem C05_keyword_type_table (d : Dialect) (hd : d ∈ Gen.dialects) (kw : Str) :
    (kw ≠ [42, 32] →
      (kw ∈ d.given → stepKType d kw = .Context) ∧ (kw ∈ d.when_ → stepKType d kw = .Action) ∧
      (kw ∈ d.then_ → stepKType d kw = .Outcome) ∧
      (kw ∈ d.and_ ∨ kw ∈ d.but_ → stepKType d kw = .Conjunction)) ∧
    stepKType d [42, 32] = .Unknown :=
  Lemmas.ktype_in_table Gen.dialects C05_dialect_facts d hd kw

/-- Foreign words are plain text: if no title keyword of the dialect in force followed by `:`
    and no step keyword of it prefixes the trimmed line, none of the five title kinds nor
    `StepLine` matches (token and matcher untouched) — whatever other dialects list. -/
theorem C05_foreign_plain (D : List Dialect) (μ : MState) (t : Token) (l : Str)
    (htitle : ∀ k ∈ μ.dialect.titleKeywords, startsWith (k ++ [58]) (trimmed l) = false)
    (hstep : ∀ k ∈ μ.dialect.stepKeywords, startsWith k (trimmed l) = false)
    (ty : Kind) (hty : ty.isTitle = true ∨ ty = .StepLine) :
    matchLine D ty μ t l = ⟨t, μ, .no⟩ :=
  Lemmas.matchLine_foreign D μ t l htitle hstep ty hty

/-- Conversely a title kind matches only through a keyword of its own role in the dialect in
    force: either it matches, with such a keyword + `:` prefixing the trimmed line and reported,
    or no keyword of the role + `:` prefixes the trimmed line and it does not match. -/
theorem C05_title_only_own_keywords (D : List Dialect) (ty : Kind) (hty : ty.isTitle = true)
    (μ : MState) (t : Token) (l : Str) :
    (∃ t', matchLine D ty μ t l = ⟨t', μ, .matched⟩ ∧
      ∃ k ∈ μ.dialect.roleKeywords ty, startsWith (k ++ [58]) (trimmed l) = true ∧
        t'.keyword = some k ∧ t'.dialect = μ.name ∧ t'.mtype = some ty) ∨
    (matchLine D ty μ t l = ⟨t, μ, .no⟩ ∧
      ∀ k ∈ μ.dialect.roleKeywords ty, startsWith (k ++ [58]) (trimmed l) = false) :=
  Lemmas.matchLine_title_matched D ty hty μ t l

/-- In a dialect of the shipped table a line is at most one of: step, feature, rule, background,
    scenario, examples line — if `match_<ty1>` succeeds then `match_<ty2>` fails for every other
    of these kinds (part of DESIGN's `C05_kind_unique`; facts: no step keyword and title keyword +
    `:` prefix one another, no title keyword + `:` prefixes one of another line kind). -/
theorem C05_keyword_kinds_exclusive (D : List Dialect) (μ : MState) (hμ : μ.dialect ∈ Gen.dialects)
    (t : Token) (l : Str) (ty1 ty2 : Kind)
    (h1 : ty1.isTitle = true ∨ ty1 = .StepLine) (h2 : ty2.isTitle = true ∨ ty2 = .StepLine)
    (hne : ty1 ≠ ty2) (t' : Token) (μ' : MState) (hm : matchLine D ty1 μ t l = ⟨t', μ', .matched⟩) :
    matchLine D ty2 μ t l = ⟨t, μ, .no⟩ :=
  Lemmas.keyword_kinds_exclusive D Gen.dialects C05_dialect_facts μ hμ t l ty1 ty2 h1 h2 hne t' μ' hm

/-- The language-header pattern: `# language : name` with arbitrary whitespace before `#`,
    after it, around `:` and at the end (line break included) yields `name`, for every non-empty
    `name` over `[a-zA-Z_-]`. -/
theorem C05_language_header (w1 w2 w3 w4 w5 name : Str)
    (h1 : ∀ c ∈ w1, isSpace c = true) (h2 : ∀ c ∈ w2, isSpace c = true)
    (h3 : ∀ c ∈ w3, isSpace c = true) (h4 : ∀ c ∈ w4, isSpace c = true)
    (h5 : ∀ c ∈ w5, isSpace c = true) (hne : name ≠ []) (hn : ∀ c ∈ name, isLangChar c = true) :
    languageRe (w1 ++ [35] ++ w2 ++ lit "language" ++ w3 ++ [58] ++ w4 ++ name ++ w5) = some name :=
  Lemmas.languageRe_header w1 w2 w3 w4 w5 name h1 h2 h3 h4 h5 hne hn

/-- A header naming a dialect of the table switches the matcher's name and dialect to it (the
    token is a Language token whose text is the name, stamped with the dialect in force before). -/
theorem C05_language_switch (D : List Dialect) (μ : MState) (t : Token) (l name : Str) (d : Dialect)
    (h : languageRe l = some name) (hd : findDialect D name = some d) :
    matchLine D .Language μ t l =
      ⟨setMatched μ t .Language (text := some name), { μ with name := name, dialect := d }, .matched⟩ :=
  Lemmas.matchLine_language_known D μ t l name d h hd

/-- A header naming no dialect of the table raises `NoSuchLanguage` located at the header
    (its line, column indent + 1) and leaves the matcher's dialect unchanged. -/
theorem C05_language_unknown (D : List Dialect) (μ : MState) (t : Token) (l name : Str)
    (h : languageRe l = some name) (hd : findDialect D name = none) (hl : t.line = some l) :
    matchLine D .Language μ t l =
      ⟨setMatched μ t .Language (text := some name), μ,
        .raised ⟨.noSuchLanguage, ⟨t.lineNo, some (lineIndent l + 1)⟩, lit "Language not supported: " ++ name⟩⟩ :=
  Lemmas.matchLine_language_unknown D μ t l name h hd hl

/-- A line the pattern does not match is no language header and changes nothing. -/
theorem C05_language_no_header (D : List Dialect) (μ : MState) (t : Token) (l : Str)
    (h : languageRe l = none) : matchLine D .Language μ t l = ⟨t, μ, .no⟩ :=
  Lemmas.matchLine_language_no D μ t l h

/-- Looking a name up yields a dialect of the table with that name, and fails only if there is
    none; in the shipped table names are distinct, so each dialect is found under its name. -/
theorem C05_language_lookup (D : List Dialect) (name : Str) :
    (∀ d, findDialect D name = some d → d ∈ D ∧ d.name = name) ∧
    (findDialect D name = none ↔ ∀ d ∈ D, d.name ≠ name) :=
  ⟨Lemmas.findDialect_some D name, Lemmas.findDialect_none D name⟩

theorem C05_language_lookup_table (d : Dialect) (hd : d ∈ Gen.dialects) :
    findDialect Gen.dialects d.name = some d :=
  Lemmas.findDialect_of_mem Gen.dialects (Lemmas.keywordFacts_spec C05_dialect_facts).2.2.2.1 d hd

/-- The header is honoured only at the top of the document: in the regenerated parser table
    `match_Language` is tested in state 0 only. -/
theorem C05_language_only_at_start : Spec.languageOnlyAtStart Gen.parserTable = true := by
  kdecide

/-- A matched title token (in particular the Feature line, from which the AST takes `language`)
    carries the dialect in force, the matcher is unchanged, and its keyword is one listed for
    that line kind in the dialect in force. -/
theorem C05_dialect_reported (D : List Dialect) (ty : Kind) (hty : ty.isTitle = true) (μ μ' : MState)
    (t t' : Token) (l : Str) (h : matchLine D ty μ t l = ⟨t', μ', .matched⟩) :
    t'.dialect = μ.name ∧ μ' = μ ∧ t'.mtype = some ty ∧
    ∃ k ∈ μ.dialect.roleKeywords ty, t'.keyword = some k :=
  Lemmas.matchLine_title_dialect D ty hty μ μ' t t' l h

/-- The language table shipped with the package is identical to the repository's master table. -/
theorem C05_tables_identical : Gen.dialects = GenMaster.dialects := by kdecide

/-! ### non-vacuity -/

/-- French feature line under the French dialect: keyword verbatim, trimmed title, column 3. -/
example :
    ((MState.init Gen.dialects (lit "fr")).map fun μ =>
      let l := lit "  Fonctionnalité:  Un titre \r\n"
      let o := matchLine Gen.dialects .FeatureLine μ ⟨some l, 1, none, none, none, none, none, 0, [], []⟩ l
      (o.tok.keyword, o.tok.text, o.tok.col, o.tok.dialect)) =
    some (some (lit "Fonctionnalité"), some (lit "Un titre"), some 3, lit "fr") := by
  kdecide

/-- The same line under English is plain text: no title kind, no step. -/
example :
    ((MState.init Gen.dialects (lit "en")).map fun μ =>
      let l := lit "  Fonctionnalité:  Un titre \r\n"
      let t : Token := ⟨some l, 1, none, none, none, none, none, 0, [], []⟩
      [Kind.FeatureLine, .RuleLine, .BackgroundLine, .ScenarioLine, .ExamplesLine, .StepLine].map fun k =>
        (matchLine Gen.dialects k μ t l).tok.mtype) =
    some [none, none, none, none, none, none] := by
  kdecide

/-- A shadowed keyword: Slovak lists `"A "` before `"A tiež "`, so the line is reported with
    `"A "`; `"* "` has type `Unknown`, `"Keď "` type `Action`. -/
example :
    ((MState.init Gen.dialects (lit "sk")).map fun μ =>
      [lit "A tiež niečo\n", lit "* niečo\n", lit " Keď niečo\n"].map fun l =>
        let o := matchLine Gen.dialects .StepLine μ ⟨some l, 1, none, none, none, none, none, 0, [], []⟩ l
        (o.tok.keyword, o.tok.text, o.tok.ktype)) =
    some [(some (lit "A "), some (lit "tiež niečo"), some .Conjunction),
          (some (lit "* "), some (lit "niečo"), some .Unknown),
          (some (lit "Keď "), some (lit "niečo"), some .Action)] := by
  kdecide

/-- Informational (current table): ten step keywords are shadowed by an earlier listed prefix
    (`Spec.prefixClashes`), in the dialects en-old, ht and sk; by `C05_step_first_prefix` lines
    starting with them are reported with the shorter keyword. -/
example : (Gen.dialects.flatMap fun d => (prefixClashes d).map fun c => (d.name, c)).length = 10 ∧
    (Gen.dialects.filter fun d => !(prefixClashes d).isEmpty).map (·.name) =
      [lit "en-old", lit "ht", lit "sk"] := by
  kdecide

/-- A header switches the dialect; an unknown name is an error at the header. -/
example : languageRe (lit " #language :  pt-BR \n") = some (lit "pt-BR") := by decide

example :
    ((MState.init Gen.dialects (lit "en")).map fun μ =>
      let l := lit "  # language: xx\n"
      match (matchLine Gen.dialects .Language μ ⟨some l, 7, none, none, none, none, none, 0, [], []⟩ l).res with
      | .raised e => some (e.kind, e.loc) | _ => none) =
    some (some (.noSuchLanguage, ⟨7, some 3⟩)) := by
  kdecide

end GV
